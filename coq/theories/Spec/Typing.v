(* C03 - the static semantics of SPL as DECLARATIVE judgements over the spl_frontend syntax tree
   (Model/Ast.v) and the symbol tables (Model/Table.v: `lookup` on association lists, the entry records,
   `dtype`).  Nothing here mentions the analysis algorithm (Model/Build.v, Model/Semantic.v).

     scoping       binds L G x e     the name x denotes entry e: the local table first, then the global one
     types         var_type / expr_type   (mutual) the type of a variable / an expression
     statements    wt_stmt / wt_stmts
     programs      wt_bodies G p     every procedure body that belongs to its table entry is well-typed
     declarations  denotes (type expressions), wf_params, wf_vars, wf_gdecl, wf_gdecls (the table is threaded
                   through the declarations: G |- d => G ++ [entry of d]), wf_program (+ the rules about main)
     positions     att_* : "error x is attached at a node whose enclosing References have offsets summing to n"
                   (a derivation of att_* IS a path from the root to the node)

   The judgements speak about trees WITHOUT error nodes and missing children: a statement with a missing
   mandatory child, an error node or an error expression has no derivation.  `tree_clean` (Spec/Grammar.v)
   additionally says that no diagnostic is attached anywhere.

   Type equality is Leibniz equality on `dtype`: SPL has name equivalence for array types and `DArray`
   carries the `creator` (the declaring type name, or "<proc>.<name>" for an anonymous array type of a
   parameter/variable), so two array types are equal iff they stem from the same declaration. *)
From Spl Require Export Spec.Grammar Model.Table.
Local Open Scope nat_scope.

(* ------------------------------------------------------------------------------------------ *)
(* scoping *)

Inductive binds (L : ltable) (G : gtable) (x : text) : entry -> Prop :=
| B_local le : lookup L x = Some le -> binds L G x (entry_of_l le)
| B_global ge : lookup L x = None -> lookup G x = Some ge -> binds L G x (entry_of_g ge).

Definition unbound (L : ltable) (G : gtable) (x : text) : Prop := lookup L x = None /\ lookup G x = None.

(* e is the entry of a variable or of a parameter *)
Definition var_entry (e : entry) (ve : ventry) : Prop := e = EntVar ve \/ e = EntParam ve.

(* ------------------------------------------------------------------------------------------ *)
(* types *)

(* a fully resolved type: no component is unknown *)
Fixpoint ty_ok (t : dtype) : Prop :=
  match t with
  | DInt | DBool => True
  | DArray _ (Some b) _ => ty_ok b
  | DArray _ None _ => False
  end.

Definition is_array (t : dtype) : Prop := exists sz b c, t = DArray sz b c.

Section Typing.
Variable L : ltable.
Variable G : gtable.

Inductive var_type : variable -> dtype -> Prop :=
| VT_name i e ve t :
    binds L G (id_val i) e -> var_entry e ve -> ve_ty ve = Some t ->
    var_type (NamedVar i) t
| VT_index a e off inf sz b c :
    var_type a (DArray sz (Some b) c) -> expr_type e DInt ->
    var_type (ArrAccess a (Some (e, off)) inf) b
with expr_type : expr -> dtype -> Prop :=
| ET_lit i : expr_type (EInt i) DInt
| ET_var v t : var_type v t -> expr_type (EVar v) t
| ET_arith op l r inf :
    (op = OAdd \/ op = OSub \/ op = OMul \/ op = ODiv) ->
    expr_type l DInt -> expr_type r DInt -> expr_type (EBin op l r inf) DInt
| ET_compare op l r inf :
    (op = OEqu \/ op = ONeq \/ op = OLst \/ op = OLse \/ op = OGrt \/ op = OGre) ->
    expr_type l DInt -> expr_type r DInt -> expr_type (EBin op l r inf) DBool
| ET_neg op a inf : expr_type a DInt -> expr_type (EUn op a inf) DInt
| ET_paren a inf t : expr_type a t -> expr_type (EBrack a inf) t.

(* an argument fits a parameter: equal types, and a reference parameter takes a variable *)
Inductive arg_ok : expr * nat -> ventry -> Prop :=
| Arg_ok a off p t :
    expr_type a t -> ve_ty p = Some t -> (ve_ref p = true -> exists v, a = EVar v) ->
    arg_ok (a, off) p.

Inductive wt_stmt : stmt -> Prop :=
| WT_empty inf : wt_stmt (SEmpty inf)
| WT_assign v e off inf :
    var_type v DInt -> expr_type e DInt -> wt_stmt (SAssign v (Some (e, off)) inf)
| WT_call name args inf pe :
    binds L G (id_val name) (EntProc pe) -> Forall2 arg_ok args (pe_params pe) ->
    wt_stmt (SCall name args inf)
| WT_if c oc t ot inf :
    expr_type c DBool -> wt_stmt t -> wt_stmt (SIf (Some (c, oc)) (Some (t, ot)) None inf)
| WT_if_else c oc t ot e oe inf :
    expr_type c DBool -> wt_stmt t -> wt_stmt e ->
    wt_stmt (SIf (Some (c, oc)) (Some (t, ot)) (Some (e, oe)) inf)
| WT_while c oc b ob inf :
    expr_type c DBool -> wt_stmt b -> wt_stmt (SWhile (Some (c, oc)) (Some (b, ob)) inf)
| WT_block body inf : wt_stmts body -> wt_stmt (SBlock body inf)
with wt_stmts : list (stmt * nat) -> Prop :=
| WT_nil : wt_stmts []
| WT_cons s off r : wt_stmt s -> wt_stmts r -> wt_stmts ((s, off) :: r).

End Typing.

(* ------------------------------------------------------------------------------------------ *)
(* programs with respect to a global table *)

(* pe is the table entry made from THIS declaration (at Reference offset off): same name, and the entry
   records this declaration's absolute range.  A redeclared procedure has no entry of its own. *)
Definition own_entry (G : gtable) (pd : procdecl) (off : nat) (pe : pentry) : Prop :=
  exists name, pd_name pd = Some name /\ lookup G (id_val name) = Some (GProcE pe)
               /\ pe_range pe = shift_range (info_range (pd_info pd)) off.

(* every named declaration is known to the table (what `build` guarantees) *)
Definition has_entry (G : gtable) (d : gdecl * nat) : Prop :=
  match fst d with
  | GProc pd => match pd_name pd with Some name => lookup G (id_val name) <> None | None => True end
  | _ => True
  end.

(* the body of a procedure is checked against the local table of its own entry *)
Definition wt_body (G : gtable) (d : gdecl * nat) : Prop :=
  match fst d with
  | GProc pd => forall pe, own_entry G pd (snd d) pe -> wt_stmts (pe_local pe) G (pd_stmts pd)
  | _ => True
  end.

Definition wt_bodies (G : gtable) (p : program) : Prop :=
  Forall (fun d => has_entry G d /\ wt_body G d) (pg_decls p).

(* all types recorded in the tables are fully resolved (true of the table of a program whose declarations
   are well-formed, see wf_tables_ok) *)
Definition ventry_ok (v : ventry) : Prop := exists t, ve_ty v = Some t /\ ty_ok t.
Definition lentry_v (e : lentry) : ventry := match e with LVar v | LParam v => v end.
Definition ltable_ok (L : ltable) : Prop := forall x e, lookup L x = Some e -> ventry_ok (lentry_v e).
Definition gtable_ok (G : gtable) : Prop :=
  forall x pe, lookup G x = Some (GProcE pe) -> Forall ventry_ok (pe_params pe) /\ ltable_ok (pe_local pe).

(* ------------------------------------------------------------------------------------------ *)
(* declarations *)

(* the documentation recorded in an entry: the doc comments glued together *)
Definition doc_of (docs : list text) : option text :=
  match concat docs with [] => None | d => Some d end.

(* "<proc>.<name>": the creator of the anonymous array type of a parameter or variable *)
Definition anon_creator (proc_name : text) (name : ident) : text := (proc_name ++ [46%N] ++ id_val name).

(* the type a type expression denotes: a name must be bound to a type (declared BEFORE use: G holds
   the declarations seen so far); an array type written in a declaration is a new type, created by it *)
Inductive denotes (L : ltable) (G : gtable) (creator : text) : typeexpr -> dtype -> Prop :=
| Den_name i te t :
    binds L G (id_val i) (EntType te) -> ten_ty te = Some t -> denotes L G creator (TNamed i) t
| Den_array il b off inf bt :
    denotes L G creator b bt ->
    denotes L G creator (TArray (Some il) (Some (b, off)) inf) (DArray (il_val il) (Some bt) creator).

(* parameters, left to right; the types are resolved in the global scope only; no name twice;
   a parameter of array type is a reference parameter *)
Inductive wf_params (G : gtable) (pname : text) : ltable -> list (paramdecl * nat) -> ltable -> list ventry -> Prop :=
| WFP_nil L : wf_params G pname L [] L []
| WFP_cons L doc is_ref name te o inf off t r L' es :
    denotes [] G (anon_creator pname name) te t ->
    (is_array t -> is_ref = true) ->
    lookup L (id_val name) = None ->
    wf_params G pname
      (L ++ [(id_val name, LParam {| ve_name := name; ve_ref := is_ref; ve_ty := Some t;
                                     ve_range := shift_range (info_range inf) off; ve_doc := doc_of doc |})])
      r L' es ->
    wf_params G pname L ((PValid doc is_ref (Some name) (Some (te, o)) inf, off) :: r) L'
      ({| ve_name := name; ve_ref := is_ref; ve_ty := Some t;
          ve_range := shift_range (info_range inf) off; ve_doc := doc_of doc |} :: es).

(* local variables, in order; their types see the parameters and the variables before them *)
Inductive wf_vars (G : gtable) (pname : text) : ltable -> list (vardecl * nat) -> ltable -> Prop :=
| WFV_nil L : wf_vars G pname L [] L
| WFV_cons L doc name te o inf off t r L' :
    denotes L G (anon_creator pname name) te t ->
    lookup L (id_val name) = None ->
    wf_vars G pname
      (L ++ [(id_val name, LVar {| ve_name := name; ve_ref := false; ve_ty := Some t;
                                   ve_range := shift_range (info_range inf) off; ve_doc := doc_of doc |})])
      r L' ->
    wf_vars G pname L ((VValid doc (Some name) (Some (te, o)) inf, off) :: r) L'.

(* G |- d => (name, entry): a global declaration at absolute offset off is well-formed under the
   declarations seen so far, and this is its table entry.  No redeclaration; `main` is not a type. *)
Inductive wf_gdecl (G : gtable) (off : nat) : gdecl -> text * gentry -> Prop :=
| WF_type d name te o t :
    td_name d = Some name -> id_val name <> s_main -> lookup G (id_val name) = None ->
    td_ty d = Some (te, o) -> denotes [] G (id_val name) te t ->
    wf_gdecl G off (GType d)
      (id_val name, GTypeE {| ten_name := name; ten_ty := Some t;
                              ten_range := shift_range (info_range (td_info d)) off;
                              ten_doc := doc_of (td_doc d) |})
| WF_proc d name L1 ps L2 :
    pd_name d = Some name -> lookup G (id_val name) = None ->
    wf_params G (id_val name) [] (pd_params d) L1 ps ->
    wf_vars G (id_val name) L1 (pd_vars d) L2 ->
    wf_gdecl G off (GProc d)
      (id_val name, GProcE {| pe_name := name; pe_local := L2; pe_params := ps;
                              pe_range := shift_range (info_range (pd_info d)) off;
                              pe_doc := doc_of (pd_doc d) |}).

(* the declarations in order; es lists their entries *)
Inductive wf_gdecls : gtable -> list (gdecl * nat) -> list (text * gentry) -> Prop :=
| WFG_nil G : wf_gdecls G [] []
| WFG_cons G d off ke r es :
    wf_gdecl G off d ke -> wf_gdecls (G ++ [ke]) r es -> wf_gdecls G ((d, off) :: r) (ke :: es).

(* the predefined environment: Table.initialized (int and the ten library procedures).
   main exists, is a procedure, and has no parameters. *)
Definition wf_program (p : program) (G : gtable) : Prop :=
  exists es, wf_gdecls initialized (pg_decls p) es /\ G = initialized ++ es
             /\ exists pe, lookup G s_main = Some (GProcE pe) /\ pe_params pe = [].

(* the whole static semantics: declarations well-formed, bodies well-typed *)
Definition well_typed (p : program) (G : gtable) : Prop := wf_program p G /\ wt_bodies G p.

(* ------------------------------------------------------------------------------------------ *)
(* positions: which errors are attached where.  att_X node n x: x is in the error list of some node
   inside `node`, and the offsets of the References between `node` (exclusive: its own Reference is the
   caller's business) and that node sum up to n.  The size literal of an array type is not included:
   error_container.rs does not visit it. *)

Inductive att_var : variable -> nat -> err -> Prop :=
| AV_name i x : In x (i_errs (id_info i)) -> att_var (NamedVar i) 0 x
| AV_here a idx inf x : In x (i_errs inf) -> att_var (ArrAccess a idx inf) 0 x
| AV_arr a idx inf n x : att_var a n x -> att_var (ArrAccess a idx inf) n x
| AV_idx a e off inf n x : att_expr e n x -> att_var (ArrAccess a (Some (e, off)) inf) (off + n) x
with att_expr : expr -> nat -> err -> Prop :=
| AE_bin op l r inf x : In x (i_errs inf) -> att_expr (EBin op l r inf) 0 x
| AE_bin_l op l r inf n x : att_expr l n x -> att_expr (EBin op l r inf) n x
| AE_bin_r op l r inf n x : att_expr r n x -> att_expr (EBin op l r inf) n x
| AE_brack a inf x : In x (i_errs inf) -> att_expr (EBrack a inf) 0 x
| AE_brack_in a inf n x : att_expr a n x -> att_expr (EBrack a inf) n x
| AE_un op a inf x : In x (i_errs inf) -> att_expr (EUn op a inf) 0 x
| AE_un_in op a inf n x : att_expr a n x -> att_expr (EUn op a inf) n x
| AE_err inf x : In x (i_errs inf) -> att_expr (EErr inf) 0 x
| AE_int i x : In x (i_errs (il_info i)) -> att_expr (EInt i) 0 x
| AE_var v n x : att_var v n x -> att_expr (EVar v) n x.

Inductive att_texpr : typeexpr -> nat -> err -> Prop :=
| AT_name i x : In x (i_errs (id_info i)) -> att_texpr (TNamed i) 0 x
| AT_here size base inf x : In x (i_errs inf) -> att_texpr (TArray size base inf) 0 x
| AT_base size b off inf n x : att_texpr b n x -> att_texpr (TArray size (Some (b, off)) inf) (off + n) x.

Inductive att_stmt : stmt -> nat -> err -> Prop :=
| AS_here s x : In x (i_errs (stmt_info s)) -> att_stmt s 0 x
| AS_assign_v v e inf n x : att_var v n x -> att_stmt (SAssign v e inf) n x
| AS_assign_e v e off inf n x : att_expr e n x -> att_stmt (SAssign v (Some (e, off)) inf) (off + n) x
| AS_call_name name args inf x : In x (i_errs (id_info name)) -> att_stmt (SCall name args inf) 0 x
| AS_call_arg name args inf a off n x :
    In (a, off) args -> att_expr a n x -> att_stmt (SCall name args inf) (off + n) x
| AS_if_c c off t e inf n x : att_expr c n x -> att_stmt (SIf (Some (c, off)) t e inf) (off + n) x
| AS_if_t c t off e inf n x : att_stmt t n x -> att_stmt (SIf c (Some (t, off)) e inf) (off + n) x
| AS_if_e c t e off inf n x : att_stmt e n x -> att_stmt (SIf c t (Some (e, off)) inf) (off + n) x
| AS_while_c c off b inf n x : att_expr c n x -> att_stmt (SWhile (Some (c, off)) b inf) (off + n) x
| AS_while_b c b off inf n x : att_stmt b n x -> att_stmt (SWhile c (Some (b, off)) inf) (off + n) x
| AS_block body inf s off n x : In (s, off) body -> att_stmt s n x -> att_stmt (SBlock body inf) (off + n) x.

Inductive att_opt_name : option ident -> err -> Prop :=
| AN_some i x : In x (i_errs (id_info i)) -> att_opt_name (Some i) x.

Inductive att_opt_texpr : option (typeexpr * nat) -> nat -> err -> Prop :=
| AOT_some t off n x : att_texpr t n x -> att_opt_texpr (Some (t, off)) (off + n) x.

Inductive att_vardecl : vardecl -> nat -> err -> Prop :=
| AVD_here v x : In x (i_errs (vardecl_info v)) -> att_vardecl v 0 x
| AVD_name doc name ty inf x : att_opt_name name x -> att_vardecl (VValid doc name ty inf) 0 x
| AVD_type doc name ty inf n x : att_opt_texpr ty n x -> att_vardecl (VValid doc name ty inf) n x.

Inductive att_paramdecl : paramdecl -> nat -> err -> Prop :=
| APD_here p x : In x (i_errs (paramdecl_info p)) -> att_paramdecl p 0 x
| APD_name doc r name ty inf x : att_opt_name name x -> att_paramdecl (PValid doc r name ty inf) 0 x
| APD_type doc r name ty inf n x : att_opt_texpr ty n x -> att_paramdecl (PValid doc r name ty inf) n x.

Inductive att_gdecl : gdecl -> nat -> err -> Prop :=
| AG_here g x : In x (i_errs (gdecl_info g)) -> att_gdecl g 0 x
| AG_type_name d x : att_opt_name (td_name d) x -> att_gdecl (GType d) 0 x
| AG_type_ty d n x : att_opt_texpr (td_ty d) n x -> att_gdecl (GType d) n x
| AG_proc_name d x : att_opt_name (pd_name d) x -> att_gdecl (GProc d) 0 x
| AG_proc_param d p off n x : In (p, off) (pd_params d) -> att_paramdecl p n x -> att_gdecl (GProc d) (off + n) x
| AG_proc_var d v off n x : In (v, off) (pd_vars d) -> att_vardecl v n x -> att_gdecl (GProc d) (off + n) x
| AG_proc_stmt d s off n x : In (s, off) (pd_stmts d) -> att_stmt s n x -> att_gdecl (GProc d) (off + n) x.

Inductive att_program : program -> nat -> err -> Prop :=
| AP_here p x : In x (i_errs (pg_info p)) -> att_program p 0 x
| AP_decl p g off n x : In (g, off) (pg_decls p) -> att_gdecl g n x -> att_program p (off + n) x.

(* ------------------------------------------------------------------------------------------ *)
(* exactly one fault: the statement / expression / variable is well-typed except that exactly one premise of
   one rule is violated, at one node.  fault_X node x [o]: x is the diagnostic SPL prescribes - the message of
   the violated rule with the range of the node the rule names, relative to the Reference that encloses
   `node` (offsets of the References between `node` and the culprit added) - and o is what is known about the
   node's type afterwards (None: nothing; the enclosing rules then demand nothing of it). *)

Definition err_shift (off : nat) (x : err) : err := {| e_s := e_s x + off; e_e := e_e x + off; e_m := e_m x |}.

(* the diagnostics: on a name (the identifier's last token), on a node, on an expression node *)
Definition name_err (i : ident) (m : emsg) : err :=
  {| e_s := i_e (id_info i) - 1; e_e := i_e (id_info i); e_m := m |}.
Definition node_err (inf : info) (m : smsg) : err := mkerr_t (info_range inf) (ESem m).
Definition expr_err (e : expr) (m : smsg) : err := mkerr_t (info_range (expr_info e)) (ESem m).

Definition op_type (op : operator) : dtype :=
  match op with OAdd | OSub | OMul | ODiv => DInt | _ => DBool end.

(* what is known about a faulty subterm's type does not contradict the expected type t *)
Definition fits (o : option dtype) (t : dtype) : Prop := o = None \/ o = Some t.
Definition array_or_unknown (o : option dtype) : Prop := o = None \/ exists sz b c, o = Some (DArray sz b c).
Definition elem_of (o : option dtype) : option dtype := match o with Some (DArray _ b _) => b | _ => None end.

Section Fault.
Variable L : ltable.
Variable G : gtable.

Inductive fault_var : variable -> err -> option dtype -> Prop :=
| FV_undefined i :
    unbound L G (id_val i) -> i_e (id_info i) <> 0 ->
    fault_var (NamedVar i) (name_err i (ESem (UndefinedVariable (id_val i)))) None
| FV_not_a_variable i e :
    binds L G (id_val i) e -> (forall ve, ~ var_entry e ve) -> i_e (id_info i) <> 0 ->
    fault_var (NamedVar i) (name_err i (ESem (NotAVariable (id_val i)))) None
| FV_non_array a e off inf t :
    var_type L G a t -> ~ is_array t -> expr_type L G e DInt ->
    fault_var (ArrAccess a (Some (e, off)) inf) (node_err inf IndexingNonArray) None
| FV_index_type a e off inf sz b c t :
    var_type L G a (DArray sz (Some b) c) -> expr_type L G e t -> t <> DInt ->
    fault_var (ArrAccess a (Some (e, off)) inf) (err_shift off (expr_err e IndexingWithNonInteger)) (Some b)
| FV_in_array a e off inf x o :
    fault_var a x o -> array_or_unknown o -> expr_type L G e DInt ->
    fault_var (ArrAccess a (Some (e, off)) inf) x (elem_of o)
| FV_in_index a e off inf x o sz b c :
    var_type L G a (DArray sz (Some b) c) -> fault_expr e x o -> fits o DInt ->
    fault_var (ArrAccess a (Some (e, off)) inf) (err_shift off x) (Some b)
with fault_expr : expr -> err -> option dtype -> Prop :=
| FE_var v x o : fault_var v x o -> fault_expr (EVar v) x o
| FE_paren a inf x o : fault_expr a x o -> fault_expr (EBrack a inf) x o
| FE_neg_in op a inf x o : fault_expr a x o -> fits o DInt -> fault_expr (EUn op a inf) x (Some DInt)
| FE_neg op a inf t :
    expr_type L G a t -> t <> DInt ->
    fault_expr (EUn op a inf) (node_err inf ArithmeticOperatorNonInteger) (Some DInt)
| FE_bin_l op l r inf x o :
    fault_expr l x o -> fits o DInt -> expr_type L G r DInt -> fault_expr (EBin op l r inf) x (Some (op_type op))
| FE_bin_r op l r inf x o :
    expr_type L G l DInt -> fault_expr r x o -> fits o DInt -> fault_expr (EBin op l r inf) x (Some (op_type op))
| FE_different op l r inf tl tr :
    expr_type L G l tl -> expr_type L G r tr -> (tl = DInt /\ tr <> DInt) \/ (tl <> DInt /\ tr = DInt) ->
    fault_expr (EBin op l r inf) (node_err inf OperatorDifferentTypes) (Some (op_type op))
| FE_arithmetic op l r inf tl tr :
    expr_type L G l tl -> expr_type L G r tr -> tl <> DInt -> tr <> DInt -> op_type op = DInt ->
    fault_expr (EBin op l r inf) (node_err inf ArithmeticOperatorNonInteger) (Some DInt)
| FE_comparison op l r inf tl tr :
    expr_type L G l tl -> expr_type L G r tr -> tl <> DInt -> tr <> DInt -> op_type op = DBool ->
    fault_expr (EBin op l r inf) (node_err inf ComparisonNonInteger) (Some DBool).

Definition wt_else (els : option (stmt * nat)) : Prop :=
  match els with None => True | Some (e, _) => wt_stmt L G e end.

Inductive fault_stmt : stmt -> err -> Prop :=
(* assignment *)
| FS_assign_types v e off inf tl tr :
    var_type L G v tl -> expr_type L G e tr -> tl <> tr ->
    fault_stmt (SAssign v (Some (e, off)) inf) (node_err inf AssignmentHasDifferentTypes)
| FS_assign_int v e off inf t :
    var_type L G v t -> expr_type L G e t -> t <> DInt ->
    fault_stmt (SAssign v (Some (e, off)) inf) (node_err inf AssignmentRequiresIntegers)
| FS_assign_lhs v e off inf x o :
    fault_var v x o -> fits o DInt -> expr_type L G e DInt -> fault_stmt (SAssign v (Some (e, off)) inf) x
| FS_assign_rhs v e off inf x o :
    var_type L G v DInt -> fault_expr e x o -> fits o DInt ->
    fault_stmt (SAssign v (Some (e, off)) inf) (err_shift off x)
(* if / while *)
| FS_if_cond c oc t ot els inf tc :
    expr_type L G c tc -> tc <> DBool -> wt_stmt L G t -> wt_else els ->
    fault_stmt (SIf (Some (c, oc)) (Some (t, ot)) els inf) (err_shift oc (expr_err c IfConditionMustBeBoolean))
| FS_if_in_cond c oc t ot els inf x o :
    fault_expr c x o -> fits o DBool -> wt_stmt L G t -> wt_else els ->
    fault_stmt (SIf (Some (c, oc)) (Some (t, ot)) els inf) (err_shift oc x)
| FS_if_then c oc t ot els inf x :
    expr_type L G c DBool -> fault_stmt t x -> wt_else els ->
    fault_stmt (SIf (Some (c, oc)) (Some (t, ot)) els inf) (err_shift ot x)
| FS_if_else c oc t ot e oe inf x :
    expr_type L G c DBool -> wt_stmt L G t -> fault_stmt e x ->
    fault_stmt (SIf (Some (c, oc)) (Some (t, ot)) (Some (e, oe)) inf) (err_shift oe x)
| FS_while_cond c oc b ob inf tc :
    expr_type L G c tc -> tc <> DBool -> wt_stmt L G b ->
    fault_stmt (SWhile (Some (c, oc)) (Some (b, ob)) inf) (err_shift oc (expr_err c WhileConditionMustBeBoolean))
| FS_while_in_cond c oc b ob inf x o :
    fault_expr c x o -> fits o DBool -> wt_stmt L G b ->
    fault_stmt (SWhile (Some (c, oc)) (Some (b, ob)) inf) (err_shift oc x)
| FS_while_body c oc b ob inf x :
    expr_type L G c DBool -> fault_stmt b x ->
    fault_stmt (SWhile (Some (c, oc)) (Some (b, ob)) inf) (err_shift ob x)
(* compound statement *)
| FS_block pre s off post inf x :
    wt_stmts L G pre -> fault_stmt s x -> wt_stmts L G post ->
    fault_stmt (SBlock (pre ++ (s, off) :: post) inf) (err_shift off x)
(* calls *)
| FS_undefined_procedure name args inf :
    unbound L G (id_val name) ->
    fault_stmt (SCall name args inf) (node_err inf (UndefinedProcedure (id_val name)))
| FS_non_procedure name args inf e :
    binds L G (id_val name) e -> (forall pe, e <> EntProc pe) ->
    fault_stmt (SCall name args inf) (node_err inf (CallOfNoneProcedure (id_val name)))
| FS_too_few name args inf pe ppre rest :
    binds L G (id_val name) (EntProc pe) -> pe_params pe = ppre ++ rest -> rest <> [] ->
    Forall2 (arg_ok L G) args ppre ->
    fault_stmt (SCall name args inf) (node_err inf (TooFewArguments (id_val name)))
| FS_too_many name pre extra inf pe :
    binds L G (id_val name) (EntProc pe) -> extra <> [] -> Forall2 (arg_ok L G) pre (pe_params pe) ->
    fault_stmt (SCall name (pre ++ extra) inf) (node_err inf (TooManyArguments (id_val name)))
| FS_arg_type name inf pe pre ppre a off p post ppost t t2 :
    binds L G (id_val name) (EntProc pe) -> pe_params pe = ppre ++ p :: ppost ->
    Forall2 (arg_ok L G) pre ppre -> Forall2 (arg_ok L G) post ppost ->
    expr_type L G a t -> ve_ty p = Some t2 -> t <> t2 -> (ve_ref p = true -> exists v, a = EVar v) ->
    fault_stmt (SCall name (pre ++ (a, off) :: post) inf)
               (err_shift off (expr_err a (ArgumentsTypeMismatch (id_val name) (S (length pre)))))
| FS_arg_variable name inf pe pre ppre a off p post ppost t :
    binds L G (id_val name) (EntProc pe) -> pe_params pe = ppre ++ p :: ppost ->
    Forall2 (arg_ok L G) pre ppre -> Forall2 (arg_ok L G) post ppost ->
    expr_type L G a t -> ve_ty p = Some t -> ve_ref p = true -> (forall v, a <> EVar v) ->
    fault_stmt (SCall name (pre ++ (a, off) :: post) inf)
               (err_shift off (expr_err a (ArgumentMustBeAVariable (id_val name) (S (length pre)))))
| FS_arg_in name inf pe pre ppre a off p post ppost x o :
    binds L G (id_val name) (EntProc pe) -> pe_params pe = ppre ++ p :: ppost ->
    Forall2 (arg_ok L G) pre ppre -> Forall2 (arg_ok L G) post ppost ->
    fault_expr a x o -> (o = None \/ o = ve_ty p) -> (ve_ref p = true -> exists v, a = EVar v) ->
    fault_stmt (SCall name (pre ++ (a, off) :: post) inf) (err_shift off x).

End Fault.

(* a program with exactly one semantic fault: declarations well-formed, all bodies well-typed except one
   statement of one procedure's body; y is the diagnostic in absolute token indices *)
Definition fault_program (p : program) (G : gtable) (y : err) : Prop :=
  wf_program p G /\
  exists dpre pd doff dpost spre s soff spost x,
    pg_decls p = dpre ++ (GProc pd, doff) :: dpost /\
    Forall (fun d => has_entry G d /\ wt_body G d) dpre /\ Forall (fun d => has_entry G d /\ wt_body G d) dpost /\
    pd_stmts pd = spre ++ (s, soff) :: spost /\
    (exists pe, own_entry G pd doff pe /\
       wt_stmts (pe_local pe) G spre /\ fault_stmt (pe_local pe) G s x /\ wt_stmts (pe_local pe) G spost) /\
    y = err_shift (doff + soff) x.
