(* Reference definitions for C06: what it means for a token sequence to tile a text, and the
   lexical grammar of SPL as a declarative relation.  Independent of the model's code path
   (only the token type and the spelling tables are shared). *)
From Spl Require Export Model.Token.

(* [Tiles off s toks]: [toks] is a tiling of the text [s] that starts at byte offset [off]:
   whitespace, a non-empty lexeme that does not start with whitespace, whitespace, ... and
   finally one Eof token of width 0 at the end of the text. *)
Inductive Tiles : N -> text -> list token -> Prop :=
| Tiles_eof off ws :
    forallb is_ws ws = true ->
    Tiles off ws [ {| tk := Eof; ts := off + blen ws; te := off + blen ws; terr := [] |} ]
| Tiles_tok off ws c lx rest t tl :
    forallb is_ws ws = true ->
    is_ws c = false ->
    ts t = off + blen ws ->
    te t = ts t + blen (c :: lx) ->
    tk t <> Eof ->
    Tiles (te t) rest tl ->
    Tiles off (ws ++ (c :: lx) ++ rest) (t :: tl).

(* byte-offset slicing of a text; None when an offset is not a character boundary *)
Fixpoint prefix_at (n : N) (s : text) : option (text * text) :=
  if n =? 0 then Some ([], s) else
  match s with
  | [] => None
  | c :: r =>
      if n <? ulen c then None
      else match prefix_at (n - ulen c) r with
           | Some (a, b) => Some (c :: a, b)
           | None => None
           end
  end.

Definition on_boundary (n : N) (s : text) : Prop := exists a b, s = a ++ b /\ blen a = n.

(* slice [a, b) of s *)
Definition slice (a b : N) (s : text) : option text :=
  match prefix_at a s with
  | Some (_, r) => match prefix_at (b - a) r with Some (m, _) => Some m | None => None end
  | None => None
  end.

(* ---- the lexical grammar ---- *)

Definition is_alnum_ascii (c : char) : bool := is_alpha c || is_digit c || (c =? 95).

Definition is_keyword_text (s : text) : bool :=
  existsb (fun pk => text_eqb (fst pk) s) kw_table.

(* [Lexeme k lx]: the character sequence [lx] is a lexeme of kind (and value) [k]. *)
Inductive Lexeme : kind -> text -> Prop :=
| Lx_sym p k : In (p, k) sym_table -> Lexeme k p
| Lx_kw p k : In (p, k) kw_table -> Lexeme k p
| Lx_ident c r :
    is_ident_start c = true -> forallb is_alnum_ascii r = true ->
    is_keyword_text (c :: r) = false -> Lexeme (Ident (c :: r)) (c :: r)
| Lx_int d v :
    d <> [] -> forallb is_digit d = true ->
    v = fold_left (fun a c => a * 10 + (c - 48)) d 0 -> v < 4294967296 ->
    Lexeme (IntT (IntOk v)) d
| Lx_hex d v :
    d <> [] -> forallb is_hex d = true ->
    v = fold_left (fun a c => a * 16 + (if c <=? 57 then c - 48 else if c <=? 70 then c - 55 else c - 87)) d 0 ->
    v < 4294967296 ->
    Lexeme (HexT (IntOk v)) (48 :: 120 :: d)
| Lx_char c : Lexeme (CharT c) [39; c; 39]
| Lx_char_nl : Lexeme (CharT 10) [39; 92; 110; 39]
| Lx_comment body :
    forallb (fun c => negb (c =? 10)) body = true -> Lexeme (Comment body) (47 :: 47 :: body ++ [10])
| Lx_comment_eot body :
    forallb (fun c => negb (c =? 10)) body = true -> Lexeme (Comment body) (47 :: 47 :: body).

(* [Delimited k lx rest]: what follows the lexeme does not extend it (longest match) and does
   not turn it into another lexeme. *)
Definition Delimited (k : kind) (lx rest : text) : Prop :=
  match k with
  | Ident _ | KIf | KElse | KWhile | KArray | KOf | KProc | KRef | KType | KVar =>
      match rest with [] => True | c :: _ => is_alnum_trunc c = false end
  | IntT _ =>
      match rest with [] => True | c :: _ => is_digit c = false /\ ~ (lx = [48] /\ c = 120) end
  | HexT _ => match rest with [] => True | c :: _ => is_hex c = false end
  | LtT | GtT | Colon => match rest with 61 :: _ => False | _ => True end
  | Divide => match rest with 47 :: _ => False | _ => True end
  | Comment _ => match rest with [] => True | _ => last lx 0 = 10 end
  | _ => True
  end.
