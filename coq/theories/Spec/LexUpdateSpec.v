(* Reference statement for C07: what `lexer::update` must return. *)
From Spl Require Export Model.LexUpdate.

(* The change window [ds, de) / n is truthful: the tokens before it are the old ones untouched,
   the tokens after it are the old ones shifted by the length difference of the edit
   (ranges and attached lexical errors), and the lengths add up. *)
Definition Truthful (toks_old toks_new : list token) (ds de n : nat) (ins_len del_len : N) : Prop :=
  firstn ds toks_new = firstn ds toks_old /\
  (ds <= de)%nat /\ (de <= length toks_old)%nat /\
  length toks_new = (ds + n + (length toks_old - de))%nat /\
  map_opt (shift_token_signed ins_len del_len) (skipn de toks_old) = Some (skipn (ds + n) toks_new).

(* The old text is a ++ d ++ b, the change replaces d (bytes [blen a, blen a + blen d)) by ins. *)
Definition C07_full_statement : Prop :=
  forall (a d b ins : text) (toks_old : list token),
    lex (a ++ d ++ b) = Some toks_old ->
    exists toks_new ds de n,
      lex (a ++ ins ++ b) = Some toks_new /\
      lex_update (a ++ ins ++ b) toks_old (blen a) (blen a + blen d) ins = UDone toks_new ds de n /\
      Truthful toks_old toks_new ds de n (blen ins) (blen d).
