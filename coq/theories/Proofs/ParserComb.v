(* Generic lemmas about the combinators of the parser model (Model/Parser.v):
   - inversion ("_ok") lemmas: what a successful combinator returned and where it stopped;
   - the position discipline [Fwd] (T1): a parser only moves forward, stays in bounds, restores
     refp, and skips no token of a distinguished class [sync] - for successes AND for the state
     carried by an error;
   - progress [Prog] (T2) and fuel monotonicity helpers.
   Everything is parametric in the token list and in the class [sync]. *)
From Coq Require Import Arith Lia List.
From Spl Require Import Model.Parser.
Local Open Scope nat_scope.

(* ------------------------------------------------------------------------------------------ *)
(* lists *)
Lemma nth_error_skipn_add {A} (l : list A) p i : nth_error (skipn p l) i = nth_error l (p + i).
Proof.
  revert l; induction p as [|p IH]; intros l; [reflexivity|].
  destruct l as [|x l]; [now destruct i | exact (IH l)].
Qed.

Definition is_comment (k : kind) : bool := match k with Comment _ => true | _ => false end.

Lemma leading_comments_spec l :
  length (leading_comments l) <= length l /\
  (forall i, i < length (leading_comments l) -> exists t, nth_error l i = Some t /\ is_comment (tk t) = true) /\
  (forall t, nth_error l (length (leading_comments l)) = Some t -> is_comment (tk t) = false).
Proof.
  induction l as [|x l (IH1 & IH2 & IH3)]; cbn [leading_comments].
  - cbn. repeat split; [lia | intros i Hi; lia | intros t; discriminate].
  - destruct (tk x) eqn:E; cbn [length];
      try (repeat split; [lia | intros i Hi; lia | intros t [= <-]; now rewrite E]).
    repeat split; [lia | |].
    + intros [|i] Hi; [exists x; now rewrite E | apply IH2; lia].
    + exact IH3.
Qed.

(* ------------------------------------------------------------------------------------------ *)
Section Comb.
Variable toks : list token.
Notation N := (length toks).

Lemma comments_at_le p : p <= N -> p + length (comments_at toks p) <= N.
Proof.
  intros Hp. unfold comments_at.
  pose proof (leading_comments_spec (skipn p toks)) as [H _]. rewrite skipn_length in H. lia.
Qed.

Lemma sig_at_ge p : p <= sig_at toks p.
Proof. unfold sig_at. lia. Qed.

Lemma sig_at_le p : p <= N -> sig_at toks p <= N.
Proof. apply comments_at_le. Qed.

Lemma sig_at_comment p i : p <= i < sig_at toks p ->
  exists t, nth_error toks i = Some t /\ is_comment (tk t) = true.
Proof.
  unfold sig_at, comments_at. intros Hi.
  pose proof (leading_comments_spec (skipn p toks)) as (_ & H & _).
  destruct (H (i - p)) as [t [Ht Hc]]; [lia|]. exists t. split; [|exact Hc].
  rewrite nth_error_skipn_add in Ht. now replace (p + (i - p)) with i in Ht by lia.
Qed.

Lemma sig_at_sig p t : nth_error toks (sig_at toks p) = Some t -> is_comment (tk t) = false.
Proof.
  unfold sig_at, comments_at. intros Ht.
  pose proof (leading_comments_spec (skipn p toks)) as (_ & _ & H).
  apply H. now rewrite nth_error_skipn_add.
Qed.

Lemma sig_at_stop p b t : p <= b -> nth_error toks b = Some t -> is_comment (tk t) = false ->
  sig_at toks p <= b.
Proof.
  intros Hp Ht Hc. destruct (le_lt_dec (sig_at toks p) b) as [|Hlt]; [assumption|].
  destruct (sig_at_comment p b) as [t' [Ht' Hc']]; [lia|]. congruence.
Qed.

Lemma sig_at_idem p : sig_at toks (sig_at toks p) = sig_at toks p.
Proof.
  destruct (nth_error toks (sig_at toks p)) as [t|] eqn:E.
  - pose proof (sig_at_sig _ _ E). pose proof (sig_at_stop (sig_at toks p) (sig_at toks p) t (le_n _) E H).
    pose proof (sig_at_ge (sig_at toks p)). lia.
  - apply nth_error_None in E. unfold sig_at at 1. unfold comments_at.
    rewrite skipn_all2 by exact E. cbn. lia.
Qed.

Lemma sig_at_mid p q : p <= q <= sig_at toks p -> sig_at toks q = sig_at toks p.
Proof.
  intros Hq. destruct (nth_error toks (sig_at toks p)) as [t|] eqn:E.
  - pose proof (sig_at_sig _ _ E) as Hc.
    pose proof (sig_at_stop q (sig_at toks p) t (proj2 Hq) E Hc) as H1.
    destruct (le_lt_dec (sig_at toks p) (sig_at toks q)) as [|Hlt]; [lia|].
    destruct (nth_error toks (sig_at toks q)) as [t'|] eqn:E'.
    + pose proof (sig_at_sig _ _ E') as Hc'.
      destruct (sig_at_comment p (sig_at toks q)) as [t2 [Ht2 Hc2]]; [pose proof (sig_at_ge q); lia|].
      congruence.
    + apply nth_error_None in E'. assert (sig_at toks p < N) by (apply nth_error_Some; congruence). lia.
  - apply nth_error_None in E.
    destruct (le_lt_dec (sig_at toks p) (sig_at toks q)) as [Hle|Hlt].
    + destruct (le_lt_dec (sig_at toks q) (sig_at toks p)); [lia|].
      assert (q <= N \/ N < q) as [Hq'|Hq'] by lia.
      * pose proof (sig_at_le q Hq'). lia.
      * unfold sig_at at 2 in l. unfold comments_at in l. rewrite skipn_all2 in l by lia. cbn in l. lia.
    + destruct (sig_at_comment p (sig_at toks q)) as [t2 [Ht2 Hc2]]; [pose proof (sig_at_ge q); lia|].
      destruct (nth_error toks (sig_at toks q)) as [t'|] eqn:E'; [|discriminate].
      pose proof (sig_at_sig _ _ E'). congruence.
Qed.

(* ------------------------------------------------------------------------------------------ *)
(* state bookkeeping *)
Lemma pos_adv s n : pos (adv s n) = pos s + n. Proof. reflexivity. Qed.
Lemma refp_adv s n : refp (adv s n) = refp s. Proof. reflexivity. Qed.
Lemma adv_adv s n m : adv (adv s n) m = adv s (n + m).
Proof. unfold adv; cbn [pos refp ebuf]. f_equal. lia. Qed.

(* ------------------------------------------------------------------------------------------ *)
(* inversion lemmas *)
Lemma bind_ok {A B} (r : pres A) (k : st -> A -> pres B) s' b :
  bind r k = POk s' b -> exists s1 a, r = POk s1 a /\ k s1 a = POk s' b.
Proof. destruct r as [s1 a| |]; cbn; [eauto | discriminate | discriminate]. Qed.

Lemma bind_err {A B} (r : pres A) (k : st -> A -> pres B) s' :
  bind r k = PErr s' -> r = PErr s' \/ exists s1 a, r = POk s1 a /\ k s1 a = PErr s'.
Proof. destruct r as [s1 a|s1|]; cbn; [eauto | intros [= ->]; now left | discriminate]. Qed.

Lemma bind_fuel {A B} (r : pres A) (k : st -> A -> pres B) :
  bind r k = PFuel -> r = PFuel \/ exists s1 a, r = POk s1 a /\ k s1 a = PFuel.
Proof. destruct r as [s1 a|s1|]; cbn; [eauto | discriminate | now left]. Qed.

Lemma p_map_ok {A B} (f : A -> B) p s s' b :
  p_map f p s = POk s' b -> exists a, p s = POk s' a /\ b = f a.
Proof. unfold p_map. intros H. apply bind_ok in H as (s1 & a & H1 & [= -> <-]). eauto. Qed.

Lemma p_map_err {A B} (f : A -> B) p s s' : p_map f p s = PErr s' -> p s = PErr s'.
Proof. unfold p_map. intros H. apply bind_err in H as [H|(s1 & a & _ & H)]; [assumption | discriminate]. Qed.

Lemma p_pair_ok {A B} (p : parser A) (q : parser B) s s' ab :
  p_pair p q s = POk s' ab -> exists s1, p s = POk s1 (fst ab) /\ q s1 = POk s' (snd ab).
Proof.
  unfold p_pair. intros H. apply bind_ok in H as (s1 & a & H1 & H).
  apply bind_ok in H as (s2 & b & H2 & [= -> <-]). eauto.
Qed.

Lemma p_pair_err {A B} (p : parser A) (q : parser B) s s' :
  p_pair p q s = PErr s' -> p s = PErr s' \/ exists s1 a, p s = POk s1 a /\ q s1 = PErr s'.
Proof.
  unfold p_pair. intros H. apply bind_err in H as [H|(s1 & a & H1 & H)]; [now left|].
  apply bind_err in H as [H|(s2 & b & _ & H)]; [eauto | discriminate].
Qed.

Lemma p_alt_ok {A} (p q : parser A) s s' a :
  p_alt p q s = POk s' a -> p s = POk s' a \/ (exists e, p s = PErr e) /\ q s = POk s' a.
Proof. unfold p_alt. destruct (p s) as [s1 a1|e|]; [now left | eauto | discriminate]. Qed.

Lemma p_alt_err {A} (p q : parser A) s s' :
  p_alt p q s = PErr s' -> (exists e, p s = PErr e) /\ q s = PErr s'.
Proof. unfold p_alt. destruct (p s) as [s1 a1|e|]; [discriminate | eauto | discriminate]. Qed.

Lemma p_restore_ok {A} (p : parser A) s s' a : p_restore p s = POk s' a -> p s = POk s' a.
Proof. unfold p_restore. destruct (p s); [auto | discriminate | discriminate]. Qed.

(* a restoring parser fails at its own input *)
Lemma p_restore_err {A} (p : parser A) s s' : p_restore p s = PErr s' -> s' = s /\ exists e, p s = PErr e.
Proof. unfold p_restore. destruct (p s) as [s1 a|e|]; [discriminate | intros [= <-]; eauto | discriminate]. Qed.

Lemma p_restore_fuel {A} (p : parser A) s : p_restore p s = PFuel -> p s = PFuel.
Proof. unfold p_restore. destruct (p s); [discriminate | discriminate | auto]. Qed.

Lemma p_info_ok {A} (p : parser A) s s' ai :
  p_info p s = POk s' ai ->
  exists s1, p (set_ebuf s []) = POk s1 (fst ai) /\ s' = set_ebuf s1 (ebuf s) /\
             snd ai = {| i_s := pos s - refp s; i_e := pos s1 - refp s; i_errs := ebuf s1 |}.
Proof.
  unfold p_info. destruct (p (set_ebuf s [])) as [s1 a| |]; [|discriminate|discriminate].
  intros [= <- <-]. exists s1. auto.
Qed.

Lemma p_info_err {A} (p : parser A) s s' :
  p_info p s = PErr s' -> exists s1, p (set_ebuf s []) = PErr s1 /\ s' = set_ebuf s1 (ebuf s).
Proof.
  unfold p_info. destruct (p (set_ebuf s [])) as [s1 a|s1|]; [discriminate| |discriminate].
  intros [= <-]. eauto.
Qed.

Lemma p_ref_ok {A} (p : parser A) s s' ao :
  p_ref p s = POk s' ao ->
  exists s1, p (set_refp s (pos s)) = POk s1 (fst ao) /\ s' = set_refp s1 (refp s) /\
             snd ao = pos s - refp s.
Proof.
  unfold p_ref. destruct (p (set_refp s (pos s))) as [s1 a| |]; [|discriminate|discriminate].
  intros [= <- <-]. exists s1. auto.
Qed.

Lemma p_ref_err {A} (p : parser A) s s' :
  p_ref p s = PErr s' -> exists s1, p (set_refp s (pos s)) = PErr s1 /\ s' = set_refp s1 (refp s).
Proof.
  unfold p_ref. destruct (p (set_refp s (pos s))) as [s1 a|s1|]; [discriminate| |discriminate].
  intros [= <-]. eauto.
Qed.

Lemma p_expect_ok {A} (p : parser A) m s s' o :
  p_expect p m s = POk s' o ->
  (exists a, p s = POk s' a /\ o = Some a) \/ (exists e, p s = PErr e /\ s' = expect_error e m /\ o = None).
Proof.
  unfold p_expect. destruct (p s) as [s1 a|e|]; [|  |discriminate].
  - intros [= <- <-]. left. eauto.
  - intros [= <- <-]. right. eauto.
Qed.

Lemma p_expect_noerr {A} (p : parser A) m s e : p_expect p m s <> PErr e.
Proof. unfold p_expect. destruct (p s); discriminate. Qed.

Lemma p_comments_ok s s' cs :
  p_comments toks s = POk s' cs -> s' = adv s (sig_at toks (pos s) - pos s) /\ cs = comments_at toks (pos s).
Proof. unfold p_comments, sig_at. intros [= <- <-]. split; [f_equal; lia | reflexivity]. Qed.

Lemma p_tag_ok f s s' t :
  p_tag toks f s = POk s' t ->
  nth_error toks (sig_at toks (pos s)) = Some t /\ f (tk t) = true /\
  s' = adv s (S (sig_at toks (pos s)) - pos s).
Proof.
  unfold p_tag. cbn [pos adv]. fold (sig_at toks (pos s)).
  destruct (nth_error toks (sig_at toks (pos s))) as [t'|]; [|discriminate].
  destruct (f (tk t')) eqn:E; [|discriminate].
  intros [= <- <-]. repeat split; [assumption|]. rewrite adv_adv. f_equal. unfold sig_at. lia.
Qed.

(* a tag parser fails at the original input (mismatch) or after the comments (end of input) *)
Lemma p_tag_err f s s' :
  p_tag toks f s = PErr s' ->
  (s' = s /\ exists t, nth_error toks (sig_at toks (pos s)) = Some t /\ f (tk t) = false) \/
  (s' = adv s (sig_at toks (pos s) - pos s) /\ nth_error toks (sig_at toks (pos s)) = None).
Proof.
  unfold p_tag. cbn [pos adv]. fold (sig_at toks (pos s)).
  destruct (nth_error toks (sig_at toks (pos s))) as [t'|].
  - destruct (f (tk t')) eqn:E; [discriminate|]. intros [= <-]. left. eauto.
  - intros [= <-]. right. split; [|reflexivity]. f_equal. unfold sig_at. lia.
Qed.

Lemma p_tag_nofuel f s : p_tag toks f s <> PFuel.
Proof. unfold p_tag. destruct (nth_error _ _); [destruct (f _)|]; discriminate. Qed.

(* the outcome of a tag parser is decided by the next significant token *)
Lemma p_tag_hit f s t :
  nth_error toks (sig_at toks (pos s)) = Some t -> f (tk t) = true ->
  p_tag toks f s = POk (adv s (S (sig_at toks (pos s)) - pos s)) t.
Proof.
  intros Ht Hf. unfold p_tag. cbn [pos adv]. fold (sig_at toks (pos s)). rewrite Ht, Hf.
  rewrite adv_adv. do 2 f_equal. unfold sig_at. lia.
Qed.

Lemma p_tag_miss f s t :
  nth_error toks (sig_at toks (pos s)) = Some t -> f (tk t) = false -> p_tag toks f s = PErr s.
Proof.
  intros Ht Hf. unfold p_tag. cbn [pos adv]. fold (sig_at toks (pos s)). now rewrite Ht, Hf.
Qed.

Lemma la_tag_spec f p :
  la_tag toks f p = match nth_error toks (sig_at toks p) with Some t => f (tk t) | None => false end.
Proof. reflexivity. Qed.

(* ------------------------------------------------------------------------------------------ *)
(* T1: position discipline *)
Variable sync : kind -> bool.
Hypothesis sync_comment : forall k, is_comment k = true -> sync k = false.

Definition nosync_tok (i : nat) : Prop := forall t, nth_error toks i = Some t -> sync (tk t) = false.
Definition Skips (a b : nat) : Prop := forall i, a <= i < b -> nosync_tok i.

Lemma Skips_refl a : Skips a a.
Proof. intros i Hi. lia. Qed.

Lemma Skips_trans a b c : Skips a b -> Skips b c -> Skips a c.
Proof. intros H1 H2 i Hi. destruct (le_lt_dec b i); [apply H2 | apply H1]; lia. Qed.

Lemma Skips_sub a b a' b' : Skips a b -> a <= a' -> b' <= b -> Skips a' b'.
Proof. intros H Ha Hb i Hi. apply H. lia. Qed.

Lemma Skips_comments p q : p <= q <= sig_at toks p -> Skips p q.
Proof.
  intros Hq i Hi t Ht. destruct (sig_at_comment p i) as [t' [Ht' Hc]]; [lia|].
  rewrite Ht in Ht'. injection Ht' as <-. now apply sync_comment.
Qed.

Lemma Skips_one i : nosync_tok i -> Skips i (S i).
Proof. intros H j Hj. replace j with i by lia. exact H. Qed.

(* [Mv s s']: s' is reached from s by moving forward, in bounds, same refp, skipping no [sync] token *)
Definition Mv (s s' : st) : Prop :=
  pos s <= pos s' /\ pos s' <= N /\ refp s' = refp s /\ Skips (pos s) (pos s').

Lemma Mv_refl s : pos s <= N -> Mv s s.
Proof. intros H. repeat split; [lia | exact H | apply Skips_refl]. Qed.

Lemma Mv_trans s1 s2 s3 : Mv s1 s2 -> Mv s2 s3 -> Mv s1 s3.
Proof.
  intros (A1 & A2 & A3 & A4) (B1 & B2 & B3 & B4).
  repeat split; [lia | lia | congruence | eapply Skips_trans; eassumption].
Qed.

Lemma Mv_pos_refp s1 s1' s2 s2' :
  pos s1' = pos s1 -> refp s1' = refp s1 -> pos s2' = pos s2 -> refp s2' = refp s2 ->
  Mv s1 s2 -> Mv s1' s2'.
Proof. unfold Mv. intros -> -> -> ->. auto. Qed.

Definition post {A} (s : st) (r : pres A) : Prop :=
  match r with POk s' _ => Mv s s' | PErr s' => Mv s s' | PFuel => True end.

Definition Fwd {A} (p : parser A) : Prop := forall s, pos s <= N -> post s (p s).

Lemma post_trans {A} s s1 (r : pres A) : Mv s s1 -> post s1 r -> post s r.
Proof. intros H. destruct r; cbn; [apply Mv_trans | apply Mv_trans | auto]; assumption. Qed.

Lemma post_bind {A B} s (r : pres A) (k : st -> A -> pres B) :
  post s r -> (forall s1 a, r = POk s1 a -> Mv s s1 -> post s1 (k s1 a)) -> post s (bind r k).
Proof.
  destruct r as [s1 a|s1|]; cbn [bind post]; intros H K; [|exact H|exact I].
  eapply post_trans; [exact H | now apply K].
Qed.

Lemma Mv_bound s s' : Mv s s' -> pos s' <= N.
Proof. intros (_ & H & _). exact H. Qed.

Lemma Fwd_ok {A} (p : parser A) s s' a : Fwd p -> pos s <= N -> p s = POk s' a -> Mv s s'.
Proof. intros H Hs E. specialize (H s Hs). now rewrite E in H. Qed.

Lemma Fwd_err {A} (p : parser A) s s' : Fwd p -> pos s <= N -> p s = PErr s' -> Mv s s'.
Proof. intros H Hs E. specialize (H s Hs). now rewrite E in H. Qed.

Lemma Fwd_ext {A} (p q : parser A) : (forall s, p s = q s) -> Fwd p -> Fwd q.
Proof. intros E H s Hs. rewrite <- E. now apply H. Qed.

Lemma Fwd_fuel {A} : Fwd (fun _ : st => @PFuel A).
Proof. intros s _. exact I. Qed.

Lemma Fwd_map {A B} (f : A -> B) p : Fwd p -> Fwd (p_map f p).
Proof.
  intros H s Hs. unfold p_map. apply post_bind; [now apply H|].
  intros s1 a _ M. cbn. apply Mv_refl. exact (Mv_bound _ _ M).
Qed.

Lemma Fwd_alt {A} (p q : parser A) : Fwd p -> Fwd q -> Fwd (p_alt p q).
Proof.
  intros Hp Hq s Hs. unfold p_alt. specialize (Hp s Hs). specialize (Hq s Hs).
  destruct (p s); [exact Hp | exact Hq | exact I].
Qed.

Lemma Fwd_restore {A} (p : parser A) : Fwd p -> Fwd (p_restore p).
Proof.
  intros Hp s Hs. unfold p_restore. specialize (Hp s Hs).
  destruct (p s); cbn; [exact Hp | now apply Mv_refl | exact I].
Qed.

Lemma Fwd_opt {A} (p : parser A) : Fwd p -> Fwd (p_opt p).
Proof.
  intros Hp s Hs. unfold p_opt. specialize (Hp s Hs).
  destruct (p s); cbn; [exact Hp | now apply Mv_refl | exact I].
Qed.

Lemma Fwd_pair {A B} (p : parser A) (q : parser B) : Fwd p -> Fwd q -> Fwd (p_pair p q).
Proof.
  intros Hp Hq s Hs. unfold p_pair. apply post_bind; [now apply Hp|].
  intros s1 a _ M1. apply post_bind; [apply Hq; exact (Mv_bound _ _ M1)|].
  intros s2 b _ M2. cbn. apply Mv_refl. exact (Mv_bound _ _ M2).
Qed.

Lemma Fwd_preceded {A B} (p : parser A) (q : parser B) : Fwd p -> Fwd q -> Fwd (p_preceded p q).
Proof. intros. unfold p_preceded. now apply Fwd_map, Fwd_pair. Qed.

Lemma Fwd_terminated {A B} (p : parser A) (q : parser B) : Fwd p -> Fwd q -> Fwd (p_terminated p q).
Proof. intros. unfold p_terminated. now apply Fwd_map, Fwd_pair. Qed.

Lemma Fwd_many0 {A} fuel (p : parser A) : Fwd p -> Fwd (p_many0 fuel p).
Proof.
  intros Hp. induction fuel as [|f IH]; intros s Hs; cbn [p_many0]; [exact I|].
  pose proof (Hp s Hs) as H. destruct (p s) as [s1 a|e|]; [|cbn; now apply Mv_refl|exact I].
  cbn in H. destruct (Nat.eqb (pos s1) (pos s)); [cbn; now apply Mv_refl|].
  eapply post_trans; [exact H|]. apply post_bind; [apply IH; exact (Mv_bound _ _ H)|].
  intros s2 l _ M. cbn. apply Mv_refl. exact (Mv_bound _ _ M).
Qed.

Lemma Mv_adv_comments s n : pos s <= N -> pos s + n <= sig_at toks (pos s) -> Mv s (adv s n).
Proof.
  intros Hs Hn. repeat split; cbn [pos adv refp]; [lia | pose proof (sig_at_le _ Hs); lia |].
  apply Skips_comments. lia.
Qed.

Lemma Fwd_comments : Fwd (p_comments toks).
Proof.
  intros s Hs. unfold p_comments. cbn. apply Mv_adv_comments; [exact Hs | unfold sig_at; lia].
Qed.

(* a tag parser respects [sync] when the kinds it accepts are not in the class *)
Definition TagOk (f : kind -> bool) : Prop := forall k, f k = true -> sync k = false.

Lemma Fwd_tag f : TagOk f -> Fwd (p_tag toks f).
Proof.
  intros Hf s Hs. destruct (p_tag toks f s) as [s' t|s'|] eqn:E; cbn; [| |exact I].
  - apply p_tag_ok in E as (Ht & Hft & ->).
    assert (sig_at toks (pos s) < N) by (apply nth_error_Some; congruence).
    pose proof (sig_at_ge (pos s)).
    repeat split; cbn [pos adv refp]; [lia | lia |].
    apply Skips_trans with (sig_at toks (pos s)); [apply Skips_comments; lia|].
    replace (pos s + (S (sig_at toks (pos s)) - pos s)) with (S (sig_at toks (pos s))) by lia.
    apply Skips_one. intros t' Ht'. rewrite Ht in Ht'. injection Ht' as <-. now apply Hf.
  - apply p_tag_err in E as [[-> _]|[-> _]]; [now apply Mv_refl|].
    apply Mv_adv_comments; [exact Hs | pose proof (sig_at_ge (pos s)); lia].
Qed.

Lemma Fwd_info {A} (p : parser A) : Fwd p -> Fwd (p_info p).
Proof.
  intros Hp s Hs. unfold p_info. pose proof (Hp (set_ebuf s []) Hs) as H.
  destruct (p (set_ebuf s [])) as [s1 a|s1|]; cbn in *; [| |exact I];
    (eapply Mv_pos_refp; [| | | |exact H]; reflexivity).
Qed.

Lemma Mv_expect_error s m : Mv s (expect_error s m) <-> pos s <= N.
Proof.
  split; [intros (_ & H & _); exact H|]. intros H.
  eapply Mv_pos_refp; [| | | |exact (Mv_refl s H)]; reflexivity.
Qed.

Lemma Fwd_expect {A} (p : parser A) m : Fwd p -> Fwd (p_expect p m).
Proof.
  intros Hp s Hs. unfold p_expect. pose proof (Hp s Hs) as H.
  destruct (p s) as [s1 a|s1|]; cbn in *; [exact H| |exact I].
  eapply Mv_trans; [exact H|]. apply Mv_expect_error. exact (Mv_bound _ _ H).
Qed.

Lemma Fwd_ref {A} (p : parser A) : Fwd p -> Fwd (p_ref p).
Proof.
  intros Hp s Hs. unfold p_ref. pose proof (Hp (set_refp s (pos s)) Hs) as H.
  destruct (p (set_refp s (pos s))) as [s1 a|s1|]; cbn in *; [| |exact I];
    destruct H as (H1 & H2 & H3 & H4); repeat split; cbn; assumption.
Qed.

Lemma Fwd_confusable {A} (p : parser A) m : Fwd p -> Fwd (p_confusable p m).
Proof.
  intros Hp s Hs. unfold p_confusable. apply post_bind; [now apply Fwd_info|].
  intros s1 ai _ M. cbn. eapply Mv_pos_refp; [| | | |exact (Mv_refl s1 (Mv_bound _ _ M))]; reflexivity.
Qed.

Lemma Fwd_peek_la la : Fwd (p_peek_la la).
Proof. intros s Hs. unfold p_peek_la. destruct (la (pos s)); cbn; now apply Mv_refl. Qed.

(* a look-ahead respects [sync] when it fires in front of every token of the class *)
Definition LaOk (la : nat -> bool) : Prop := forall p, la p = false -> nosync_tok p.

Lemma ignore_from_post n la s : LaOk la -> pos s <= N -> post s (ignore_from toks n la s).
Proof.
  intros Hla. revert s. induction n as [|n IH]; intros s Hs; cbn [ignore_from];
    destruct (la (pos s)) eqn:E; cbn [post]; try now apply Mv_refl.
  destruct (Nat.ltb (pos s) N) eqn:El; [|cbn; now apply Mv_refl].
  apply Nat.ltb_lt in El. eapply post_trans; [|apply IH; cbn; lia].
  repeat split; cbn; [lia | lia |]. rewrite Nat.add_1_r. apply Skips_one. now apply Hla.
Qed.

Lemma Fwd_ignore0 la : LaOk la -> Fwd (p_ignore0 toks la).
Proof.
  intros Hla s Hs. unfold p_ignore0. apply post_bind; [now apply ignore_from_post|].
  intros s1 a _ M. cbn. apply Mv_refl. exact (Mv_bound _ _ M).
Qed.

Lemma Fwd_ignore1 la : LaOk la -> Fwd (p_ignore1 toks la).
Proof.
  intros Hla s Hs. unfold p_ignore1. destruct (la (pos s)); [cbn; now apply Mv_refl|].
  now apply Fwd_ignore0.
Qed.

Lemma Fwd_bind {A B} (p : parser A) (k : st -> A -> pres B) :
  Fwd p -> (forall a, Fwd (fun s => k s a)) -> Fwd (fun s => bind (p s) k).
Proof.
  intros Hp Hk s Hs. apply post_bind; [now apply Hp|].
  intros s1 a _ M. apply (Hk a). exact (Mv_bound _ _ M).
Qed.

Lemma Fwd_ret {A} (f : st -> A) : Fwd (fun s => POk s (f s)).
Proof. intros s Hs. cbn. now apply Mv_refl. Qed.

End Comb.
