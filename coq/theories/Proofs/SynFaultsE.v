(* C03 - single SYNTAX faults inside EXPRESSIONS: the `)` that closes a parenthesised expression or the `]` that closes an
   index is missing.  The zipper through the expression syntax of Spec/Grammar.v (fvar / ffac / fmul / fadd / fcmp: a
   variable / factor / product / sum / comparison with exactly one fault), with the same vocabulary as Proofs/SynFaults.v
   (which builds the statements and declarations around it):
     VIdxC v c1 e     v c1 [ e      the `]` of the last index is missing
     FaParC c1 e      c1 ( e        the `)` is missing
   and one constructor per position the fault can have in a bigger expression (left / right operand, inside an index,
   inside the array part, behind a unary minus, inside a parenthesis).
   The node of the index / the parenthesis carries the error; its range ends at the gap. *)
From Coq Require Import List Lia Arith Bool.
From Spl Require Import Spec.Grammar Model.Parser.
Import ListNotations.
Local Open Scope nat_scope.

Inductive fvar :=
| VIdxC (v : avar) (c1 : cs) (e : acmp)                 (* v c1 [ e          `]` missing *)
| VArr (v : fvar) (c1 : cs) (e : acmp) (c2 : cs)        (* fault in the array part *)
| VIdx (v : avar) (c1 : cs) (e : fcmp) (c2 : cs)        (* fault in the index *)
with ffac :=
| FaVar (v : fvar)
| FaNeg (c : cs) (f : ffac)
| FaParC (c1 : cs) (e : acmp)                           (* c1 ( e            `)` missing *)
| FaPar (c1 : cs) (e : fcmp) (c2 : cs)
with fmul :=
| MuFac (f : ffac)
| MuL (m : fmul) (c : cs) (op : mulop) (f : afac)
| MuR (m : amul) (c : cs) (op : mulop) (f : ffac)
with fadd :=
| AdMul (m : fmul)
| AdL (a : fadd) (c : cs) (op : addop) (m : amul)
| AdR (a : aadd) (c : cs) (op : addop) (m : fmul)
with fcmp :=
| CmAdd (a : fadd)
| CmL (l : fadd) (c : cs) (op : cmpop) (r : aadd)
| CmR (l : aadd) (c : cs) (op : cmpop) (r : fadd).

Scheme fvar_mind := Induction for fvar Sort Prop
  with ffac_mind := Induction for ffac Sort Prop
  with fmul_mind := Induction for fmul Sort Prop
  with fadd_mind := Induction for fadd Sort Prop
  with fcmp_mind := Induction for fcmp Sort Prop.
Combined Scheme fexpr_mutind from fvar_mind, ffac_mind, fmul_mind, fadd_mind, fcmp_mind.

(* ---- the valid expression it stems from ---- *)
Fixpoint orig_var (v : fvar) : avar :=
  match v with
  | VIdxC v c1 e => AIndex v c1 e []
  | VArr v c1 e c2 => AIndex (orig_var v) c1 e c2
  | VIdx v c1 e c2 => AIndex v c1 (orig_cmp e) c2
  end
with orig_fac (f : ffac) : afac :=
  match f with
  | FaVar v => FVar (orig_var v)
  | FaNeg c f => FNeg c (orig_fac f)
  | FaParC c1 e => FPar c1 e []
  | FaPar c1 e c2 => FPar c1 (orig_cmp e) c2
  end
with orig_mul (m : fmul) : amul :=
  match m with
  | MuFac f => MFac (orig_fac f)
  | MuL m c op f => MBin (orig_mul m) c op f
  | MuR m c op f => MBin m c op (orig_fac f)
  end
with orig_add (a : fadd) : aadd :=
  match a with
  | AdMul m => AMul (orig_mul m)
  | AdL a c op m => ABin (orig_add a) c op m
  | AdR a c op m => ABin a c op (orig_mul m)
  end
with orig_cmp (e : fcmp) : acmp :=
  match e with
  | CmAdd a => CAdd (orig_add a)
  | CmL l c op r => CBin (orig_add l) c op r
  | CmR l c op r => CBin l c op (orig_add r)
  end.

(* ---- the missing token ---- *)
Fixpoint gk_var (v : fvar) : kind :=
  match v with VIdxC _ _ _ => RBracket | VArr v _ _ _ => gk_var v | VIdx _ _ e _ => gk_cmp e end
with gk_fac (f : ffac) : kind :=
  match f with FaVar v => gk_var v | FaNeg _ f => gk_fac f | FaParC _ _ => RParen | FaPar _ e _ => gk_cmp e end
with gk_mul (m : fmul) : kind :=
  match m with MuFac f => gk_fac f | MuL m _ _ _ => gk_mul m | MuR _ _ _ f => gk_fac f end
with gk_add (a : fadd) : kind :=
  match a with AdMul m => gk_mul m | AdL a _ _ _ => gk_add a | AdR _ _ _ m => gk_mul m end
with gk_cmp (e : fcmp) : kind :=
  match e with CmAdd a => gk_add a | CmL l _ _ _ => gk_add l | CmR _ _ _ r => gk_add r end.

(* ---- its tokens ---- *)
Fixpoint ffl_var (v : fvar) : list kind :=
  match v with
  | VIdxC v c1 e => fl_var v ++ cm c1 ++ LBracket :: fl_cmp e
  | VArr v c1 e c2 => ffl_var v ++ cm c1 ++ LBracket :: fl_cmp e ++ cm c2 ++ [RBracket]
  | VIdx v c1 e c2 => fl_var v ++ cm c1 ++ LBracket :: ffl_cmp e ++ cm c2 ++ [RBracket]
  end
with ffl_fac (f : ffac) : list kind :=
  match f with
  | FaVar v => ffl_var v
  | FaNeg c f => cm c ++ Minus :: ffl_fac f
  | FaParC c1 e => cm c1 ++ LParen :: fl_cmp e
  | FaPar c1 e c2 => cm c1 ++ LParen :: ffl_cmp e ++ cm c2 ++ [RParen]
  end
with ffl_mul (m : fmul) : list kind :=
  match m with
  | MuFac f => ffl_fac f
  | MuL m c op f => ffl_mul m ++ cm c ++ k_mul op :: fl_fac f
  | MuR m c op f => fl_mul m ++ cm c ++ k_mul op :: ffl_fac f
  end
with ffl_add (a : fadd) : list kind :=
  match a with
  | AdMul m => ffl_mul m
  | AdL a c op m => ffl_add a ++ cm c ++ k_add op :: fl_mul m
  | AdR a c op m => fl_add a ++ cm c ++ k_add op :: ffl_mul m
  end
with ffl_cmp (e : fcmp) : list kind :=
  match e with
  | CmAdd a => ffl_add a
  | CmL l c op r => ffl_add l ++ cm c ++ k_cmp op :: fl_add r
  | CmR l c op r => fl_add l ++ cm c ++ k_cmp op :: ffl_add r
  end.

(* ---- the gap: index of the token in front of it, relative to the expression's first token ---- *)
Fixpoint gap_var (v : fvar) : nat :=
  match v with
  | VIdxC _ _ _ => len (ffl_var v) - 1
  | VArr v _ _ _ => gap_var v
  | VIdx v c1 e _ => len (fl_var v) + len c1 + 1 + gap_cmp e
  end
with gap_fac (f : ffac) : nat :=
  match f with
  | FaVar v => gap_var v
  | FaNeg c f => len c + 1 + gap_fac f
  | FaParC _ _ => len (ffl_fac f) - 1
  | FaPar c1 e _ => len c1 + 1 + gap_cmp e
  end
with gap_mul (m : fmul) : nat :=
  match m with
  | MuFac f => gap_fac f
  | MuL m _ _ _ => gap_mul m
  | MuR m c _ f => len (fl_mul m) + len c + 1 + gap_fac f
  end
with gap_add (a : fadd) : nat :=
  match a with
  | AdMul m => gap_mul m
  | AdL a _ _ _ => gap_add a
  | AdR a c _ m => len (fl_add a) + len c + 1 + gap_mul m
  end
with gap_cmp (e : fcmp) : nat :=
  match e with
  | CmAdd a => gap_add a
  | CmL l _ _ _ => gap_add l
  | CmR l c _ r => len (fl_add l) + len c + 1 + gap_add r
  end.

(* ---- what stands behind the gap, given what stands behind the expression ---- *)
Fixpoint after_var (v : fvar) (rest : list kind) : list kind :=
  match v with
  | VIdxC _ _ _ => rest
  | VArr v c1 e c2 => after_var v (cm c1 ++ LBracket :: fl_cmp e ++ cm c2 ++ RBracket :: rest)
  | VIdx _ _ e c2 => after_cmp e (cm c2 ++ RBracket :: rest)
  end
with after_fac (f : ffac) (rest : list kind) : list kind :=
  match f with
  | FaVar v => after_var v rest
  | FaNeg _ f => after_fac f rest
  | FaParC _ _ => rest
  | FaPar _ e c2 => after_cmp e (cm c2 ++ RParen :: rest)
  end
with after_mul (m : fmul) (rest : list kind) : list kind :=
  match m with
  | MuFac f => after_fac f rest
  | MuL m c op f => after_mul m (cm c ++ k_mul op :: fl_fac f ++ rest)
  | MuR _ _ _ f => after_fac f rest
  end
with after_add (a : fadd) (rest : list kind) : list kind :=
  match a with
  | AdMul m => after_mul m rest
  | AdL a c op m => after_add a (cm c ++ k_add op :: fl_mul m ++ rest)
  | AdR _ _ _ m => after_mul m rest
  end
with after_cmp (e : fcmp) (rest : list kind) : list kind :=
  match e with
  | CmAdd a => after_add a rest
  | CmL l c op r => after_add l (cm c ++ k_cmp op :: fl_add r ++ rest)
  | CmR _ _ _ r => after_add r rest
  end.

(* ---- the condition on the token behind the gap ---- *)
(* the first token that is not a comment *)
Fixpoint next_sig (l : list kind) : option kind :=
  match l with
  | [] => None
  | Comment _ :: r => next_sig r
  | k :: _ => Some k
  end.

(* a token that cannot continue an expression: no `[`, no operator *)
Definition stops_expr (kd : kind) : bool :=
  negb (is_k LBracket kd) && negb (is_mulop kd) && negb (is_addop kd) && negb (is_cmpop kd).

(* the token behind the gap is not the missing token itself (otherwise nothing is missing: it would take its place) and,
   behind a missing `;`, `)` or `]`, does not continue the expression in front of the gap (otherwise the text is also a
   damaged form of ANOTHER program: `(1 + 2 * 3` for `(1 + 2) * 3` and for `(1 + 2 * 3)`; behind the statements and
   declarations that end in `;` this holds by itself: what follows them is a statement, a declaration, `}` or `else`) *)
Definition gap_open (k : kind) (l : list kind) : bool :=
  match next_sig l with
  | None => true
  | Some kd => negb (kind_eqb kd k) && match k with Semic | RParen | RBracket => stops_expr kd | _ => true end
  end.

(* ---- the mandated tree ---- *)
Definition msg_of_kind (k : kind) : pmsg :=
  match k with
  | Semic => MissingTrailingSemic
  | RParen => MissingClosing 41%N
  | RBracket => MissingClosing 93%N
  | _ => MissingClosing 125%N
  end.

Definition gap_err (m : pmsg) (g : nat) : err := {| e_s := g; e_e := g; e_m := EParse m |}.
Definition e_real (m : pmsg) (g : nat) : list err := [gap_err m g].
Definition e_none (m : pmsg) (g : nat) : list err := [].

Section Tree.
Variable E : pmsg -> nat -> list err.

(* the node of n tokens at o whose closing token of kind k is missing behind token g *)
Definition einfo (k : kind) (o n g : nat) : info := {| i_s := o; i_e := o + n; i_errs := E (msg_of_kind k) g |}.

Fixpoint fxg_var (o : nat) (v : fvar) : variable :=
  match v with
  | VIdxC v' c1 e =>
      ArrAccess (x_var o v') (Some (x_cmp 0 e, o + len (fl_var v') + len c1 + 1)) (einfo RBracket o (len (ffl_var v)) (o + gap_var v))
  | VArr v' c1 e c2 =>
      ArrAccess (fxg_var o v') (Some (x_cmp 0 e, o + len (ffl_var v') + len c1 + 1)) (mkinfo o (o + len (ffl_var v)))
  | VIdx v' c1 e c2 =>
      ArrAccess (x_var o v') (Some (fxg_cmp 0 e, o + len (fl_var v') + len c1 + 1)) (mkinfo o (o + len (ffl_var v)))
  end
with fxg_fac (o : nat) (f : ffac) : expr :=
  match f with
  | FaVar v => EVar (fxg_var o v)
  | FaNeg c f' => EUn OSub (fxg_fac (o + len c + 1) f') (mkinfo o (o + len (ffl_fac f)))
  | FaParC c1 e => EBrack (x_cmp (o + len c1 + 1) e) (einfo RParen o (len (ffl_fac f)) (o + gap_fac f))
  | FaPar c1 e c2 => EBrack (fxg_cmp (o + len c1 + 1) e) (mkinfo o (o + len (ffl_fac f)))
  end
with fxg_mul (o : nat) (m : fmul) : expr :=
  match m with
  | MuFac f => fxg_fac o f
  | MuL m' c op f => EBin (o_mul op) (fxg_mul o m') (x_fac (o + len (ffl_mul m') + len c + 1) f) (mkinfo o (o + len (ffl_mul m)))
  | MuR m' c op f => EBin (o_mul op) (x_mul o m') (fxg_fac (o + len (fl_mul m') + len c + 1) f) (mkinfo o (o + len (ffl_mul m)))
  end
with fxg_add (o : nat) (a : fadd) : expr :=
  match a with
  | AdMul m => fxg_mul o m
  | AdL a' c op m => EBin (o_add op) (fxg_add o a') (x_mul (o + len (ffl_add a') + len c + 1) m) (mkinfo o (o + len (ffl_add a)))
  | AdR a' c op m => EBin (o_add op) (x_add o a') (fxg_mul (o + len (fl_add a') + len c + 1) m) (mkinfo o (o + len (ffl_add a)))
  end
with fxg_cmp (o : nat) (e : fcmp) : expr :=
  match e with
  | CmAdd a => fxg_add o a
  | CmL l c op r => EBin (o_cmp op) (fxg_add o l) (x_add (o + len (ffl_add l) + len c + 1) r) (mkinfo o (o + len (ffl_cmp e)))
  | CmR l c op r => EBin (o_cmp op) (x_add o l) (fxg_add (o + len (fl_add l) + len c + 1) r) (mkinfo o (o + len (ffl_cmp e)))
  end.
End Tree.


(* unfolding equations (cbn does not refold the mutual fixpoint) *)
Section Eqs.
Variable E : pmsg -> nat -> list err.
Lemma fxg_eq_VIdxC o v c1 e : fxg_var E o (VIdxC v c1 e) =
  ArrAccess (x_var o v) (Some (x_cmp 0 e, o + len (fl_var v) + len c1 + 1)) (einfo E RBracket o (len (ffl_var (VIdxC v c1 e))) (o + gap_var (VIdxC v c1 e))).
Proof. reflexivity. Qed.
Lemma fxg_eq_VArr o v c1 e c2 : fxg_var E o (VArr v c1 e c2) =
  ArrAccess (fxg_var E o v) (Some (x_cmp 0 e, o + len (ffl_var v) + len c1 + 1)) (mkinfo o (o + len (ffl_var (VArr v c1 e c2)))).
Proof. reflexivity. Qed.
Lemma fxg_eq_VIdx o v c1 e c2 : fxg_var E o (VIdx v c1 e c2) =
  ArrAccess (x_var o v) (Some (fxg_cmp E 0 e, o + len (fl_var v) + len c1 + 1)) (mkinfo o (o + len (ffl_var (VIdx v c1 e c2)))).
Proof. reflexivity. Qed.
Lemma fxg_eq_FaVar o v : fxg_fac E o (FaVar v) = EVar (fxg_var E o v).
Proof. reflexivity. Qed.
Lemma fxg_eq_FaNeg o c f : fxg_fac E o (FaNeg c f) = EUn OSub (fxg_fac E (o + len c + 1) f) (mkinfo o (o + len (ffl_fac (FaNeg c f)))).
Proof. reflexivity. Qed.
Lemma fxg_eq_FaParC o c1 e : fxg_fac E o (FaParC c1 e) =
  EBrack (x_cmp (o + len c1 + 1) e) (einfo E RParen o (len (ffl_fac (FaParC c1 e))) (o + gap_fac (FaParC c1 e))).
Proof. reflexivity. Qed.
Lemma fxg_eq_FaPar o c1 e c2 : fxg_fac E o (FaPar c1 e c2) = EBrack (fxg_cmp E (o + len c1 + 1) e) (mkinfo o (o + len (ffl_fac (FaPar c1 e c2)))).
Proof. reflexivity. Qed.
Lemma fxg_eq_MuFac o f : fxg_mul E o (MuFac f) = fxg_fac E o f.
Proof. reflexivity. Qed.
Lemma fxg_eq_MuL o m c op f : fxg_mul E o (MuL m c op f) =
  EBin (o_mul op) (fxg_mul E o m) (x_fac (o + len (ffl_mul m) + len c + 1) f) (mkinfo o (o + len (ffl_mul (MuL m c op f)))).
Proof. reflexivity. Qed.
Lemma fxg_eq_MuR o m c op f : fxg_mul E o (MuR m c op f) =
  EBin (o_mul op) (x_mul o m) (fxg_fac E (o + len (fl_mul m) + len c + 1) f) (mkinfo o (o + len (ffl_mul (MuR m c op f)))).
Proof. reflexivity. Qed.
Lemma fxg_eq_AdMul o m : fxg_add E o (AdMul m) = fxg_mul E o m.
Proof. reflexivity. Qed.
Lemma fxg_eq_AdL o a c op m : fxg_add E o (AdL a c op m) =
  EBin (o_add op) (fxg_add E o a) (x_mul (o + len (ffl_add a) + len c + 1) m) (mkinfo o (o + len (ffl_add (AdL a c op m)))).
Proof. reflexivity. Qed.
Lemma fxg_eq_AdR o a c op m : fxg_add E o (AdR a c op m) =
  EBin (o_add op) (x_add o a) (fxg_mul E (o + len (fl_add a) + len c + 1) m) (mkinfo o (o + len (ffl_add (AdR a c op m)))).
Proof. reflexivity. Qed.
Lemma fxg_eq_CmAdd o a : fxg_cmp E o (CmAdd a) = fxg_add E o a.
Proof. reflexivity. Qed.
Lemma fxg_eq_CmL o l c op r : fxg_cmp E o (CmL l c op r) =
  EBin (o_cmp op) (fxg_add E o l) (x_add (o + len (ffl_add l) + len c + 1) r) (mkinfo o (o + len (ffl_cmp (CmL l c op r)))).
Proof. reflexivity. Qed.
Lemma fxg_eq_CmR o l c op r : fxg_cmp E o (CmR l c op r) =
  EBin (o_cmp op) (x_add o l) (fxg_add E (o + len (fl_add l) + len c + 1) r) (mkinfo o (o + len (ffl_cmp (CmR l c op r)))).
Proof. reflexivity. Qed.
End Eqs.
Ltac fxg_eqs := rewrite ?fxg_eq_VIdxC, ?fxg_eq_VArr, ?fxg_eq_VIdx, ?fxg_eq_FaVar, ?fxg_eq_FaNeg, ?fxg_eq_FaParC, ?fxg_eq_FaPar,
  ?fxg_eq_MuFac, ?fxg_eq_MuL, ?fxg_eq_MuR, ?fxg_eq_AdMul, ?fxg_eq_AdL, ?fxg_eq_AdR, ?fxg_eq_CmAdd, ?fxg_eq_CmL, ?fxg_eq_CmR.

(* ---- the faulty tokens are the original's with one token taken out ---- *)
Definition ins {A} (n : nat) (x : A) (l : list A) : list A := firstn n l ++ x :: skipn n l.

Lemma ins_end {A} (x : A) l : ins (len l) x l = l ++ [x].
Proof. unfold ins. rewrite firstn_all, skipn_all. reflexivity. Qed.

Lemma ins_app_l {A} n (x : A) l1 l2 : n <= len l1 -> ins n x (l1 ++ l2) = ins n x l1 ++ l2.
Proof.
  intros H. unfold ins. rewrite firstn_app, skipn_app. replace (n - len l1) with 0 by lia.
  cbn [firstn skipn]. rewrite app_nil_r, <- app_assoc. reflexivity.
Qed.

Lemma ins_app_r {A} n (x : A) l1 l2 : ins (len l1 + n) x (l1 ++ l2) = l1 ++ ins n x l2.
Proof.
  unfold ins. rewrite firstn_app, skipn_app. replace (len l1 + n - len l1) with n by lia.
  rewrite firstn_all2 by lia. rewrite skipn_all2 by lia. rewrite <- app_assoc. reflexivity.
Qed.

Lemma ins_pre {A} n m (x : A) pre l : n = len pre + m -> ins n x (pre ++ l) = pre ++ ins m x l.
Proof. intros ->. apply ins_app_r. Qed.

Lemma ins_mid {A} n (x : A) pre l : n = len pre -> ins n x (pre ++ l) = pre ++ x :: l.
Proof. intros ->. rewrite <- (Nat.add_0_r (len pre)), ins_app_r. reflexivity. Qed.

Lemma ins_length {A} n (x : A) l : len (ins n x l) = S (len l).
Proof.
  unfold ins. rewrite app_length. cbn [length]. rewrite Nat.add_succ_r, <- app_length, firstn_skipn. reflexivity.
Qed.

Lemma cm_len c : len (cm c) = len c.
Proof. apply map_length. Qed.

Ltac elens :=
  cbn [fl_var fl_fac fl_mul fl_add fl_cmp ffl_var ffl_fac ffl_mul ffl_add ffl_cmp];
  repeat (rewrite app_length || rewrite cm_len || cbn [length]).

Ltac norm_app := repeat (rewrite <- app_assoc || cbn [app]).

Lemma fl_var_pos v : 1 <= len (fl_var v).
Proof. destruct v as [c x|v c1 e c2]; cbn [fl_var]; rewrite !app_length; cbn [length]; lia. Qed.

Lemma fl_fac_pos f : 1 <= len (fl_fac f).
Proof. destruct f as [c l|v|c f|c1 e' c2]; cbn [fl_fac]; try (rewrite !app_length; cbn [length]; lia). apply fl_var_pos. Qed.
Lemma fl_mul_pos m : 1 <= len (fl_mul m).
Proof. destruct m; cbn [fl_mul]; [apply fl_fac_pos | rewrite !app_length; cbn [length]; lia]. Qed.
Lemma fl_add_pos a : 1 <= len (fl_add a).
Proof. destruct a; cbn [fl_add]; [apply fl_mul_pos | rewrite !app_length; cbn [length]; lia]. Qed.
Lemma fl_cmp_pos e : 1 <= len (fl_cmp e).
Proof. destruct e; cbn [fl_cmp]; [apply fl_add_pos | rewrite !app_length; cbn [length]; lia]. Qed.

Lemma ffl_expr_pos :
  (forall v, gap_var v < len (ffl_var v)) /\ (forall f, gap_fac f < len (ffl_fac f)) /\ (forall m, gap_mul m < len (ffl_mul m)) /\
  (forall a, gap_add a < len (ffl_add a)) /\ (forall e, gap_cmp e < len (ffl_cmp e)).
Proof.
  apply fexpr_mutind; intros; cbn [gap_var gap_fac gap_mul gap_add gap_cmp]; elens; try lia.
Qed.

Lemma ffl_expr_ins :
  (forall v, ins (S (gap_var v)) (gk_var v) (ffl_var v) = fl_var (orig_var v)) /\
  (forall f, ins (S (gap_fac f)) (gk_fac f) (ffl_fac f) = fl_fac (orig_fac f)) /\
  (forall m, ins (S (gap_mul m)) (gk_mul m) (ffl_mul m) = fl_mul (orig_mul m)) /\
  (forall a, ins (S (gap_add a)) (gk_add a) (ffl_add a) = fl_add (orig_add a)) /\
  (forall e, ins (S (gap_cmp e)) (gk_cmp e) (ffl_cmp e) = fl_cmp (orig_cmp e)).
Proof.
  destruct ffl_expr_pos as (Pv & Pf & Pm & Pa & Pc).
  apply fexpr_mutind.
  - intros v c1 e. cbn [gap_var gk_var orig_var fl_var]. pose proof (Pv (VIdxC v c1 e)) as Hp. cbn [gap_var] in Hp.
    replace (S (len (ffl_var (VIdxC v c1 e)) - 1)) with (len (ffl_var (VIdxC v c1 e))) by lia.
    rewrite ins_end. cbn [ffl_var cm map]. norm_app. reflexivity.
  - intros v IH c1 e c2. cbn [gap_var gk_var orig_var fl_var ffl_var]. rewrite <- IH.
    rewrite ins_app_l by (pose proof (Pv v); lia). reflexivity.
  - intros v c1 e IH c2. cbn [gap_var gk_var orig_var fl_var]. rewrite <- IH.
    replace (ffl_var (VIdx v c1 e c2)) with ((fl_var v ++ cm c1 ++ [LBracket]) ++ ffl_cmp e ++ cm c2 ++ [RBracket])
      by (cbn [ffl_var]; norm_app; reflexivity).
    rewrite (ins_pre _ (S (gap_cmp e))) by (elens; lia).
    rewrite ins_app_l by (pose proof (Pc e); lia). norm_app. reflexivity.
  - intros v IH. cbn [gap_fac gk_fac orig_fac fl_fac ffl_fac]. exact IH.
  - intros c f IH. cbn [gap_fac gk_fac orig_fac fl_fac]. rewrite <- IH.
    replace (ffl_fac (FaNeg c f)) with ((cm c ++ [Minus]) ++ ffl_fac f) by (cbn [ffl_fac]; norm_app; reflexivity).
    rewrite (ins_pre _ (S (gap_fac f))) by (elens; lia). norm_app. reflexivity.
  - intros c1 e. cbn [gap_fac gk_fac orig_fac fl_fac]. pose proof (Pf (FaParC c1 e)) as Hp. cbn [gap_fac] in Hp.
    replace (S (len (ffl_fac (FaParC c1 e)) - 1)) with (len (ffl_fac (FaParC c1 e))) by lia.
    rewrite ins_end. cbn [ffl_fac cm map]. norm_app. reflexivity.
  - intros c1 e IH c2. cbn [gap_fac gk_fac orig_fac fl_fac]. rewrite <- IH.
    replace (ffl_fac (FaPar c1 e c2)) with ((cm c1 ++ [LParen]) ++ ffl_cmp e ++ cm c2 ++ [RParen]) by (cbn [ffl_fac]; norm_app; reflexivity).
    rewrite (ins_pre _ (S (gap_cmp e))) by (elens; lia).
    rewrite ins_app_l by (pose proof (Pc e); lia). norm_app. reflexivity.
  - intros f IH. cbn [gap_mul gk_mul orig_mul fl_mul ffl_mul]. exact IH.
  - intros m IH c op f. cbn [gap_mul gk_mul orig_mul fl_mul ffl_mul]. rewrite <- IH.
    rewrite ins_app_l by (pose proof (Pm m); lia). reflexivity.
  - intros m c op f IH. cbn [gap_mul gk_mul orig_mul fl_mul]. rewrite <- IH.
    replace (ffl_mul (MuR m c op f)) with ((fl_mul m ++ cm c ++ [k_mul op]) ++ ffl_fac f) by (cbn [ffl_mul]; norm_app; reflexivity).
    rewrite (ins_pre _ (S (gap_fac f))) by (elens; lia). norm_app. reflexivity.
  - intros m IH. cbn [gap_add gk_add orig_add fl_add ffl_add]. exact IH.
  - intros a IH c op m. cbn [gap_add gk_add orig_add fl_add ffl_add]. rewrite <- IH.
    rewrite ins_app_l by (pose proof (Pa a); lia). reflexivity.
  - intros a c op m IH. cbn [gap_add gk_add orig_add fl_add]. rewrite <- IH.
    replace (ffl_add (AdR a c op m)) with ((fl_add a ++ cm c ++ [k_add op]) ++ ffl_mul m) by (cbn [ffl_add]; norm_app; reflexivity).
    rewrite (ins_pre _ (S (gap_mul m))) by (elens; lia). norm_app. reflexivity.
  - intros a IH. cbn [gap_cmp gk_cmp orig_cmp fl_cmp ffl_cmp]. exact IH.
  - intros l IH c op r. cbn [gap_cmp gk_cmp orig_cmp fl_cmp ffl_cmp]. rewrite <- IH.
    rewrite ins_app_l by (pose proof (Pa l); lia). reflexivity.
  - intros l c op r IH. cbn [gap_cmp gk_cmp orig_cmp fl_cmp]. rewrite <- IH.
    replace (ffl_cmp (CmR l c op r)) with ((fl_add l ++ cm c ++ [k_cmp op]) ++ ffl_add r) by (cbn [ffl_cmp]; norm_app; reflexivity).
    rewrite (ins_pre _ (S (gap_add r))) by (elens; lia). norm_app. reflexivity.
Qed.
