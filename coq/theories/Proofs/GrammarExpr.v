(* C04 - expressions: variables, factors, the left-associative chains, the single comparison. *)
From Coq Require Import List Lia Arith Bool.
From Spl Require Import Spec.Grammar Model.Parser Proofs.GrammarBase.
Import ListNotations.
Local Open Scope nat_scope.

(* FOLLOW conditions: the rest of the input starts (after comments) with a token satisfying P *)
Definition fol (P : kind -> bool) (rest : list kind) : Prop :=
  exists c kd rest', rest = cm c ++ kd :: rest' /\ sig kd = true /\ P kd = true.

Lemma fol_weaken (P Q : kind -> bool) rest : (forall kd, P kd = true -> Q kd = true) -> fol P rest -> fol Q rest.
Proof. intros H (c & kd & r & -> & Hs & HP). exists c, kd, r; auto. Qed.

Lemma fol_here (P : kind -> bool) c kd rest : sig kd = true -> P kd = true -> fol P (cm c ++ kd :: rest).
Proof. intros; exists c, kd, rest; auto. Qed.

Definition nolb (kd : kind) : bool := negb (is_k LBracket kd).
Definition fol_mul (kd : kind) : bool := nolb kd && negb (is_mulop kd).
Definition fol_add (kd : kind) : bool := fol_mul kd && negb (is_addop kd).
Definition fol_cmp (kd : kind) : bool := fol_add kd && negb (is_cmpop kd).

Ltac lens :=
  cbn [fl_var fl_fac fl_mul fl_add fl_cmp fl_type fl_stmt fl_stmts];
  repeat (rewrite app_length || rewrite cm_length || cbn [length]).

(* state bookkeeping: setters applied to literal states, binds, projections *)
Ltac norm := cbv beta iota delta [set_ebuf set_refp adv bind]; cbn [pos refp ebuf fst snd].

(* unfold the nom combinators (named sub-parsers such as [acc_p] stay folded) *)
Ltac comb :=
  cbv beta iota delta [p_map p_pair p_info p_expect p_ref p_preceded p_terminated p_opt p_alt p_peek_la
                       bind set_ebuf set_refp adv];
  cbn [pos refp ebuf fst snd].

(* decide the tests on concrete token kinds *)
Ltac ifs :=
  repeat match goal with
         | |- context [if ?b then _ else _] =>
             let v := eval vm_compute in b in
             lazymatch v with true => idtac | false => idtac end; change b with v; cbv iota
         end.

(* right-nested normal form of a flattened token list *)
Ltac flat_in H := repeat first [rewrite <- app_assoc in H | progress cbn [app] in H].

(* tree equality up to arithmetic on the leaves *)
Ltac teq :=
  lazymatch goal with
  | |- @eq nat _ _ => lens; lia
  | |- _ => first [reflexivity | progress f_equal; teq | idtac]
  end.

Section Expr.
Variable toks : list token.
Notation at_ := (at_ toks).

Lemma p_ident_at k r c x rest : at_ k (cm c ++ Ident x :: rest) -> r <= k ->
  p_ident toks (mk k r) = POk (mk (k + length c + 1) r) (x_ident (k - r) c x).
Proof.
  intros H Hr. destruct (p_tag_at toks is_ident k r _ _ _ H eq_refl) as (t & Ht & E).
  unfold p_ident, p_map, p_info; norm. rewrite E; cbn [is_ident]; norm.
  rewrite Ht. unfold x_ident, mkinfo; cbn [show_kind]. teq.
Qed.

Lemma p_ident_no k r c kd rest : at_ k (cm c ++ kd :: rest) -> sig kd = true -> is_ident kd = false ->
  p_ident toks (mk k r) = PErr (mk k r).
Proof.
  intros H Hs Hk. unfold p_ident, p_map, p_info; norm.
  now rewrite (p_tag_no toks _ k r _ _ _ H Hs Hk).
Qed.

Definition is_lit (kd : kind) : bool := match kd with HexT _ | CharT _ | IntT _ => true | _ => false end.

Lemma p_intlit_at k r c l rest : at_ k (cm c ++ k_lit l :: rest) -> r <= k ->
  p_intlit toks (mk k r) = POk (mk (k + length c + 1) r) (x_lit (k - r) c l).
Proof.
  intros H Hr. assert (Hs : sig (k_lit l) = true) by now destruct l.
  unfold p_intlit, p_map, p_info, p_alt; norm.
  destruct (p_tag_at toks (fun k => match k with HexT _ => true | _ => false end) k r _ _ _ H Hs) as (t1 & Ht1 & E1).
  destruct (p_tag_at toks (fun k => match k with CharT _ => true | _ => false end) k r _ _ _ H Hs) as (t2 & Ht2 & E2).
  destruct (p_tag_at toks (fun k => match k with IntT _ => true | _ => false end) k r _ _ _ H Hs) as (t3 & Ht3 & E3).
  rewrite E1, E2, E3.
  destruct l; cbn [k_lit]; norm; unfold lit_value, x_lit, mkinfo, v_lit;
    rewrite ?Ht1, ?Ht2, ?Ht3; cbn [k_lit]; teq.
Qed.

Lemma p_intlit_no k r c kd rest : at_ k (cm c ++ kd :: rest) -> sig kd = true -> is_lit kd = false ->
  p_intlit toks (mk k r) = PErr (mk k r).
Proof.
  intros H Hs Hk. unfold p_intlit, p_map, p_info, p_alt; norm.
  rewrite !(p_tag_no toks _ k r _ _ _ H Hs); try reflexivity; destruct kd; try reflexivity; discriminate.
Qed.


(* ---- the left spine: first token of a variable / an expression ---- *)
Fixpoint var_c (v : avar) : cs := match v with AName c _ => c | AIndex v _ _ _ => var_c v end.
Fixpoint var_x (v : avar) : text := match v with AName _ x => x | AIndex v _ _ _ => var_x v end.
Fixpoint var_tl (v : avar) : list kind :=
  match v with
  | AName _ _ => []
  | AIndex v c1 e c2 => var_tl v ++ cm c1 ++ LBracket :: fl_cmp e ++ cm c2 ++ [RBracket]
  end.

Lemma fl_var_head v : fl_var v = cm (var_c v) ++ Ident (var_x v) :: var_tl v.
Proof.
  induction v as [c x|v IH c1 e c2]; cbn [fl_var var_c var_x var_tl]; [reflexivity|].
  rewrite IH, <- app_assoc. reflexivity.
Qed.

Definition expr_start (kd : kind) : bool := is_ident kd || is_lit kd || is_k Minus kd || is_k LParen kd.

Definition headed (l : list kind) : Prop :=
  exists c kd tl, l = cm c ++ kd :: tl /\ sig kd = true /\ expr_start kd = true.

Lemma headed_app l l' : headed l -> headed (l ++ l').
Proof. intros (c & kd & tl & -> & H). exists c, kd, (tl ++ l'). now rewrite <- app_assoc. Qed.

Lemma head_fac f : headed (fl_fac f).
Proof.
  destruct f as [c l|v|c f|c1 e c2]; cbn [fl_fac].
  - exists c, (k_lit l), []. now destruct l.
  - rewrite fl_var_head. now exists (var_c v), (Ident (var_x v)), (var_tl v).
  - now exists c, Minus, (fl_fac f).
  - now exists c1, LParen, (fl_cmp e ++ cm c2 ++ [RParen]).
Qed.
Lemma head_mul m : headed (fl_mul m).
Proof. induction m; cbn [fl_mul]; [apply head_fac | now apply headed_app]. Qed.
Lemma head_add a : headed (fl_add a).
Proof. induction a; cbn [fl_add]; [apply head_mul | now apply headed_app]. Qed.
Lemma head_cmp e : headed (fl_cmp e).
Proof. destruct e; cbn [fl_cmp]; [apply head_add | apply headed_app, head_add]. Qed.

(* ---- array accesses as seen by many0 ---- *)
Definition acc_item := ((option (expr * nat) * option token) * info)%type.
Definition acc_proj (a : acc_item) : option (expr * nat) * info := (fst (fst a), snd a).

Fixpoint x_accs (o : nat) (v : avar) : list (option (expr * nat) * info) :=
  match v with
  | AName _ _ => []
  | AIndex v' c1 e c2 =>
      x_accs o v' ++ [(Some (x_cmp 0 e, o + len (fl_var v') + len c1 + 1),
                       mkinfo (o + len (fl_var v')) (o + len (fl_var v)))]
  end.

Lemma fl_var_len v : len (var_c v) + 1 <= len (fl_var v).
Proof. rewrite fl_var_head. lens. lia. Qed.

Lemma fold_accs o v :
  fold_left (fun w a => ArrAccess w (fst a) (extend_range (snd a) (mkinfo o (o + len (var_c v) + 1))))
    (x_accs o v) (NamedVar (x_ident o (var_c v) (var_x v))) = x_var o v.
Proof.
  induction v as [c x|v IH c1 e c2]; cbn [x_accs var_c var_x x_var fold_left]; [reflexivity|].
  rewrite fold_left_app, IH. cbn [fold_left fst snd]. f_equal.
  unfold extend_range, mkinfo; cbn [i_s i_e i_errs].
  pose proof (fl_var_len v). assert (len (fl_var v) <= len (fl_var (AIndex v c1 e c2))) by (lens; lia).
  f_equal; lia.
Qed.

Lemma fold_proj (vinfo : info) (l : list acc_item) (w : variable) :
  fold_left (fun v a => ArrAccess v (fst (fst a)) (extend_range (snd a) vinfo)) l w =
  fold_left (fun v a => ArrAccess v (fst a) (extend_range (snd a) vinfo)) (map acc_proj l) w.
Proof. revert w; induction l as [|a l IH]; intros w; cbn [fold_left map]; [reflexivity|]. now rewrite IH. Qed.

(* ---- statements of the mutual induction ---- *)
Definition acc_p (f : nat) : parser acc_item :=
  p_info (p_preceded (p_tag toks (is_k LBracket))
            (p_pair (p_expect (p_ref (p_comparison toks f)) (ExpectedToken s_expression))
                    (p_expect (p_tag toks (is_k RBracket)) (MissingClosing 93%N)))).

Definition VarSteps (v : avar) : Prop :=
  forall k r rest f, r <= k -> 6 * len (fl_var v) <= f -> at_ k (fl_var v ++ rest) ->
  exists items, map acc_proj items = x_accs (k - r) v /\
    steps (acc_p f) (mk (k + len (var_c v) + 1) r) items (mk (k + len (fl_var v)) r).

Definition VarOK (v : avar) : Prop :=
  forall k r rest fuel, r <= k -> 6 * len (fl_var v) + 1 <= fuel -> at_ k (fl_var v ++ rest) -> fol nolb rest ->
  p_variable toks fuel (mk k r) = POk (mk (k + len (fl_var v)) r) (x_var (k - r) v).

Definition FacOK (f : afac) : Prop :=
  forall k r rest fuel, r <= k -> 6 * len (fl_fac f) + 3 <= fuel -> at_ k (fl_fac f ++ rest) -> fol nolb rest ->
  p_factor toks fuel (mk k r) = POk (mk (k + len (fl_fac f)) r) (x_fac (k - r) f).

Fixpoint iters_mul (m : amul) : nat := match m with MFac _ => 0 | MBin m _ _ _ => S (iters_mul m) end.
Fixpoint iters_add (a : aadd) : nat := match a with AMul _ => 0 | ABin a _ _ _ => S (iters_add a) end.

Definition MulChain (m : amul) : Prop :=
  forall k r rest f, r <= k -> 6 * len (fl_mul m) + 3 <= f -> at_ k (fl_mul m ++ rest) -> fol nolb rest ->
  bind (p_factor toks f (mk k r)) (fun s1 e => mul_loop toks f s1 e) =
  mul_loop toks (f - iters_mul m) (mk (k + len (fl_mul m)) r) (x_mul (k - r) m).

Definition MulOK (m : amul) : Prop :=
  forall k r rest fuel, r <= k -> 6 * len (fl_mul m) + 4 <= fuel -> at_ k (fl_mul m ++ rest) -> fol fol_mul rest ->
  p_mul toks fuel (mk k r) = POk (mk (k + len (fl_mul m)) r) (x_mul (k - r) m).

Definition AddChain (a : aadd) : Prop :=
  forall k r rest f, r <= k -> 6 * len (fl_add a) + 4 <= f -> at_ k (fl_add a ++ rest) -> fol fol_mul rest ->
  bind (p_mul toks f (mk k r)) (fun s1 e => add_loop toks f s1 e) =
  add_loop toks (f - iters_add a) (mk (k + len (fl_add a)) r) (x_add (k - r) a).

Definition AddOK (a : aadd) : Prop :=
  forall k r rest fuel, r <= k -> 6 * len (fl_add a) + 5 <= fuel -> at_ k (fl_add a ++ rest) -> fol fol_add rest ->
  p_add toks fuel (mk k r) = POk (mk (k + len (fl_add a)) r) (x_add (k - r) a).

Definition CmpOK (e : acmp) : Prop :=
  forall k r rest fuel, r <= k -> 6 * len (fl_cmp e) + 6 <= fuel -> at_ k (fl_cmp e ++ rest) -> fol fol_cmp rest ->
  p_comparison toks fuel (mk k r) = POk (mk (k + len (fl_cmp e)) r) (x_cmp (k - r) e).


Lemma fol_rb (P : kind -> bool) c kd rest : sig kd = true -> P kd = true -> fol P (cm c ++ kd :: rest).
Proof. apply fol_here. Qed.

Lemma acc_ok e k r c1 c2 rest f : CmpOK e -> r <= k -> 6 * len (fl_cmp e) + 6 <= f ->
  at_ k (cm c1 ++ LBracket :: fl_cmp e ++ cm c2 ++ RBracket :: rest) ->
  exists t, acc_p f (mk k r) =
    POk (mk (k + len c1 + 1 + len (fl_cmp e) + len c2 + 1) r)
        ((Some (x_cmp 0 e, k + len c1 + 1 - r), Some t),
         mkinfo (k - r) (k + len c1 + 1 + len (fl_cmp e) + len c2 + 1 - r)).
Proof.
  intros He Hr Hf H.
  destruct (p_tag_at toks (is_k LBracket) k r _ _ _ H eq_refl) as (t1 & _ & E1).
  pose proof (at_cm_cons _ _ _ _ _ H) as H1.
  pose proof (He _ (k + len c1 + 1) _ f (le_n _) Hf H1 (fol_here fol_cmp c2 RBracket rest eq_refl eq_refl)) as E2.
  pose proof (at_app _ _ _ _ H1) as H2.
  destruct (p_tag_at toks (is_k RBracket) _ r _ _ _ H2 eq_refl) as (t2 & _ & E3).
  exists t2. unfold acc_p, p_info, p_preceded, p_map, p_pair, p_expect, p_ref. norm.
  rewrite E1; ifs; norm. rewrite E2; norm. rewrite E3; ifs; norm.
  rewrite Nat.sub_diag. reflexivity.
Qed.


(* ---- equation lemmas of the mutual fixpoint (Model/Parser.v is not changed) ---- *)
Lemma p_variable_S f s :
  p_variable toks (S f) s =
  bind (p_pair (p_info (p_map NamedVar (p_ident toks))) (p_many0 f (acc_p f)) s)
    (fun s' r => let '((v0, vinfo), accesses) := r in
       POk s' (fold_left (fun v a => ArrAccess v (fst (fst a)) (extend_range (snd a) vinfo)) accesses v0)).
Proof. reflexivity. Qed.

Definition bracketed_p (f : nat) : parser expr :=
  fun s =>
    bind (p_info (p_pair (p_info (p_tag toks (is_k LParen)))
            (p_pair (p_expect (p_comparison toks f) (ExpectedToken s_expression))
                    (p_expect (p_tag toks (is_k RParen)) (MissingClosing 41%N)))) s)
      (fun s' r =>
         let '(((_, lp_info), (e, _)), inf) := r in
         let ep := i_e lp_info in
         POk s' (EBrack (match e with Some x => x | None => EErr (mkinfo ep ep) end) inf)).

Lemma p_primary_S f s :
  p_primary toks (S f) s =
  p_alt (p_map EInt (p_intlit toks)) (p_alt (p_map EVar (p_variable toks f)) (bracketed_p f)) s.
Proof. reflexivity. Qed.

Lemma p_factor_S f s :
  p_factor toks (S f) s =
  p_alt (p_primary toks f)
    (p_map (fun ei => EUn OSub (fst ei) (snd ei)) (p_info (p_preceded (p_tag toks (is_k Minus)) (p_factor toks f)))) s.
Proof. reflexivity. Qed.

Lemma mul_loop_S f s lhs :
  mul_loop toks (S f) s lhs =
  match p_tag toks is_mulop s with
  | POk s1 op => bind (p_rhs (p_factor toks f) lhs (op_of (tk op)) s1) (fun s2 e => mul_loop toks f s2 e)
  | PErr _ => POk s lhs
  | PFuel => PFuel
  end.
Proof. reflexivity. Qed.

Lemma p_mul_S f s : p_mul toks (S f) s = bind (p_factor toks f s) (fun s1 e => mul_loop toks f s1 e).
Proof. reflexivity. Qed.

Lemma add_loop_S f s lhs :
  add_loop toks (S f) s lhs =
  match p_tag toks is_addop s with
  | POk s1 op => bind (p_rhs (p_mul toks f) lhs (op_of (tk op)) s1) (fun s2 e => add_loop toks f s2 e)
  | PErr _ => POk s lhs
  | PFuel => PFuel
  end.
Proof. reflexivity. Qed.

Lemma p_add_S f s : p_add toks (S f) s = bind (p_mul toks f s) (fun s1 e => add_loop toks f s1 e).
Proof. reflexivity. Qed.

Lemma p_comparison_S f s :
  p_comparison toks (S f) s =
  bind (p_add toks f s) (fun s1 e =>
    match p_tag toks is_cmpop s1 with
    | POk s2 op => p_rhs (p_add toks f) e (op_of (tk op)) s2
    | PErr _ => POk s1 e
    | PFuel => PFuel
    end).
Proof. reflexivity. Qed.

(* ---- variables ---- *)
Lemma var_steps_name c x : VarSteps (AName c x).
Proof.
  intros k r rest f Hr Hf H. exists []. split; [reflexivity|].
  cbn [var_c]. replace (k + len (fl_var (AName c x))) with (k + len c + 1) by (lens; lia). constructor.
Qed.

Lemma var_steps_index v c1 e c2 : VarSteps v -> CmpOK e -> VarSteps (AIndex v c1 e c2).
Proof.
  intros IHv IHe k r rest f Hr Hf H. cbn [fl_var] in H. flat_in H.
  assert (Hl : len (fl_var (AIndex v c1 e c2)) = len (fl_var v) + len c1 + 1 + len (fl_cmp e) + len c2 + 1) by (lens; lia).
  destruct (IHv k r _ f Hr ltac:(lia) H) as (items & Hm & Hs).
  apply at_app in H.
  destruct (acc_ok e (k + len (fl_var v)) r c1 c2 rest f IHe ltac:(lia) ltac:(lia) H) as (t & E).
  eexists (items ++ [_]). split.
  2:{ cbn [var_c]. eapply steps_snoc; [exact Hs|rewrite E; f_equal|cbn [pos]; lia].
      f_equal. lia. }
  rewrite map_app, Hm. cbn [x_accs map acc_proj fst snd]. f_equal. unfold mkinfo, acc_proj. rewrite Hl. cbn [fst snd]. teq.
Qed.

Lemma var_ok_of_steps v : VarSteps v -> VarOK v.
Proof.
  intros Hv k r rest fuel Hr Hf H (c & kd & rest' & -> & Hs & Hk).
  destruct fuel as [|f]; [lia|]. rewrite p_variable_S.
  destruct (Hv k r _ f Hr ltac:(lia) H) as (items & Hm & Hst).
  pose proof H as H0. rewrite fl_var_head in H0. flat_in H0.
  pose proof (p_ident_at k r _ _ _ H0 Hr) as Ei.
  apply at_app in H.
  assert (Ee : acc_p f (mk (k + len (fl_var v)) r) = PErr (mk (k + len (fl_var v)) r)).
  { unfold acc_p, p_info, p_preceded, p_map, p_pair. norm.
    rewrite (p_tag_no toks _ _ r _ _ _ H Hs); [reflexivity|]. unfold nolb in Hk. now destruct (is_k LBracket kd). }
  assert (Hn : len items < f).
  { rewrite <- (map_length acc_proj), Hm.
    assert (Hx : forall o, len (x_accs o v) <= len (fl_var v)); [|specialize (Hx (k - r)); pose proof (fl_var_len v); lia].
    clear. intros o. induction v as [|v IH c1 e c2]; cbn [x_accs]; [cbn; lia|]. rewrite app_length. cbn [length]. lens. lia. }
  unfold p_pair, p_info, p_map. norm. rewrite Ei; norm.
  rewrite (many0_steps' _ _ _ _ _ f Hst Ee Hn). norm.
  rewrite fold_proj, Hm.
  replace {| i_s := k - r; i_e := k + len (var_c v) + 1 - r; i_errs := [] |}
    with (mkinfo (k - r) (k - r + len (var_c v) + 1)) by (unfold mkinfo; f_equal; lia).
  f_equal. apply fold_accs.
Qed.


(* ---- factors ---- *)
Lemma p_variable_no k r c kd rest fuel : at_ k (cm c ++ kd :: rest) -> sig kd = true -> is_ident kd = false -> 1 <= fuel ->
  p_variable toks fuel (mk k r) = PErr (mk k r).
Proof.
  intros H Hs Hk Hf. destruct fuel as [|f]; [lia|]. rewrite p_variable_S.
  unfold p_pair, p_info, p_map. norm. now rewrite (p_ident_no k r _ _ _ H Hs Hk).
Qed.

Lemma fac_lit c l : FacOK (FLit c l).
Proof.
  intros k r rest fuel Hr Hf H _. cbn [fl_fac] in H. flat_in H.
  assert (Hl : len (fl_fac (FLit c l)) = len c + 1) by (lens; lia).
  destruct fuel as [|[|f]]; try lia. rewrite p_factor_S. unfold p_alt at 1. rewrite p_primary_S.
  unfold p_alt, p_map. norm. rewrite (p_intlit_at k r _ _ _ H Hr). norm. cbn [x_fac]. teq.
Qed.

Lemma fac_var v : VarOK v -> FacOK (FVar v).
Proof.
  intros IH k r rest fuel Hr Hf H Hfol. cbn [fl_fac] in *.
  destruct fuel as [|[|f]]; try lia. rewrite p_factor_S. unfold p_alt at 1. rewrite p_primary_S.
  pose proof H as H0. rewrite fl_var_head in H0. flat_in H0.
  unfold p_alt, p_map. norm. rewrite (p_intlit_no k r _ _ _ H0 eq_refl eq_refl).
  rewrite (IH k r rest f Hr ltac:(lia) H Hfol). norm. reflexivity.
Qed.

Lemma fac_neg c f : FacOK f -> FacOK (FNeg c f).
Proof.
  intros IH k r rest fuel Hr Hf H Hfol. cbn [fl_fac] in H. flat_in H.
  assert (Hl : len (fl_fac (FNeg c f)) = len c + 1 + len (fl_fac f)) by (lens; lia).
  destruct fuel as [|[|[|g]]]; try lia. rewrite p_factor_S. unfold p_alt at 1. rewrite p_primary_S.
  unfold p_alt at 1 2, p_map at 1 2. norm.
  rewrite (p_intlit_no k r _ _ _ H eq_refl eq_refl).
  rewrite (p_variable_no k r _ _ _ (S g) H eq_refl eq_refl ltac:(lia)).
  destruct (p_tag_at toks (is_k Minus) k r _ _ _ H eq_refl) as (t & _ & E).
  unfold bracketed_p. comb.
  rewrite (p_tag_no toks (is_k LParen) k r _ _ _ H eq_refl eq_refl). norm.
  rewrite E; ifs; norm.
  rewrite (IH (k + len c + 1) r rest (S (S g)) ltac:(lia) ltac:(lia) (at_cm_cons _ _ _ _ _ H) Hfol). norm.
  cbn [x_fac]. unfold mkinfo. rewrite Hl. teq.
Qed.

Lemma fac_par c1 e c2 : CmpOK e -> FacOK (FPar c1 e c2).
Proof.
  intros IH k r rest fuel Hr Hf H _. cbn [fl_fac] in H. flat_in H.
  assert (Hl : len (fl_fac (FPar c1 e c2)) = len c1 + 1 + len (fl_cmp e) + len c2 + 1) by (lens; lia).
  destruct fuel as [|[|[|g]]]; try lia. rewrite p_factor_S. unfold p_alt at 1. rewrite p_primary_S.
  unfold p_alt at 1 2, p_map at 1 2. norm.
  rewrite (p_intlit_no k r _ _ _ H eq_refl eq_refl).
  rewrite (p_variable_no k r _ _ _ (S g) H eq_refl eq_refl ltac:(lia)).
  destruct (p_tag_at toks (is_k LParen) k r _ _ _ H eq_refl) as (t1 & _ & E1).
  pose proof (at_cm_cons _ _ _ _ _ H) as H1.
  pose proof (IH (k + len c1 + 1) r _ (S g) ltac:(lia) ltac:(lia) H1 (fol_here fol_cmp c2 RParen rest eq_refl eq_refl)) as E2.
  pose proof (at_app _ _ _ _ H1) as H2.
  destruct (p_tag_at toks (is_k RParen) _ r _ _ _ H2 eq_refl) as (t2 & _ & E3).
  unfold bracketed_p. comb.
  rewrite E1; ifs; norm. rewrite E2; norm. rewrite E3; ifs; norm.
  cbn [x_fac]. unfold mkinfo. rewrite Hl. teq.
Qed.


(* ---- the left-associative chains ---- *)
Lemma start_fac o f : i_s (expr_info (x_fac o f)) = o.
Proof. destruct f as [c l|v|c f|c1 e c2]; try reflexivity. destruct v; reflexivity. Qed.
Lemma start_mul o m : i_s (expr_info (x_mul o m)) = o.
Proof. destruct m; [apply start_fac | reflexivity]. Qed.
Lemma start_add o a : i_s (expr_info (x_add o a)) = o.
Proof. destruct a; [apply start_mul | reflexivity]. Qed.

Lemma iters_mul_le m : 2 * iters_mul m + 1 <= len (fl_mul m).
Proof.
  induction m as [f|m IH c op f]; cbn [iters_mul].
  - destruct (head_fac f) as (c & kd & tl & E & _). cbn [fl_mul]. rewrite E. lens. lia.
  - destruct (head_fac f) as (c' & kd & tl & E & _). lens. rewrite E. lens. lia.
Qed.
Lemma iters_add_le a : 2 * iters_add a + 1 <= len (fl_add a).
Proof.
  induction a as [m|a IH c op m]; cbn [iters_add].
  - pose proof (iters_mul_le m). cbn [fl_add]. lia.
  - pose proof (iters_mul_le m). lens. lia.
Qed.

Lemma mulop_ok op : is_mulop (k_mul op) = true /\ sig (k_mul op) = true /\ nolb (k_mul op) = true /\ op_of (k_mul op) = o_mul op.
Proof. destruct op; repeat split. Qed.
Lemma addop_ok op : is_addop (k_add op) = true /\ sig (k_add op) = true /\ fol_mul (k_add op) = true /\ op_of (k_add op) = o_add op.
Proof. destruct op; repeat split. Qed.
Lemma cmpop_ok op : is_cmpop (k_cmp op) = true /\ sig (k_cmp op) = true /\ fol_add (k_cmp op) = true /\ op_of (k_cmp op) = o_cmp op.
Proof. destruct op; repeat split. Qed.

Lemma fol_mul_nolb rest : fol fol_mul rest -> fol nolb rest.
Proof. apply fol_weaken. unfold fol_mul. intros kd H. apply andb_prop in H. tauto. Qed.
Lemma fol_add_mul rest : fol fol_add rest -> fol fol_mul rest.
Proof. apply fol_weaken. unfold fol_add. intros kd H. apply andb_prop in H. tauto. Qed.

Lemma mul_chain_fac f : FacOK f -> MulChain (MFac f).
Proof.
  intros IH k r rest g Hr Hf H Hfol. cbn [fl_mul iters_mul x_mul] in *.
  rewrite (IH k r rest g Hr Hf H Hfol). norm. now rewrite Nat.sub_0_r.
Qed.

Lemma mul_chain_bin m c op fa : MulChain m -> FacOK fa -> MulChain (MBin m c op fa).
Proof.
  intros IHm IHf k r rest f Hr Hf H Hfol. cbn [fl_mul] in H. flat_in H.
  destruct (mulop_ok op) as (Ho1 & Ho2 & Ho3 & Ho4).
  assert (Hl : len (fl_mul (MBin m c op fa)) = len (fl_mul m) + len c + 1 + len (fl_fac fa)) by (lens; lia).
  pose proof (iters_mul_le m) as Hi.
  rewrite (IHm k r _ f Hr ltac:(lia) H (fol_here nolb c _ _ Ho2 Ho3)).
  cbn [iters_mul]. replace (f - iters_mul m) with (S (f - S (iters_mul m))) by lia.
  rewrite mul_loop_S. apply at_app in H.
  destruct (p_tag_at toks is_mulop _ r _ _ _ H Ho2) as (t & Ht & E). rewrite E, Ho1.
  unfold p_rhs. comb.
  rewrite (IHf (k + len (fl_mul m) + len c + 1) r rest (f - S (iters_mul m)) ltac:(lia) ltac:(lia) (at_cm_cons _ _ _ _ _ H) Hfol).
  norm. rewrite Ht, Ho4, start_mul. cbn [x_mul]. unfold mkinfo. rewrite Hl. teq.
Qed.

Lemma mul_ok_of_chain m : MulChain m -> MulOK m.
Proof.
  intros Hc k r rest fuel Hr Hf H Hfol. destruct fuel as [|f]; [lia|]. rewrite p_mul_S.
  rewrite (Hc k r rest f Hr ltac:(lia) H (fol_mul_nolb _ Hfol)).
  pose proof (iters_mul_le m). replace (f - iters_mul m) with (S (f - S (iters_mul m))) by lia.
  rewrite mul_loop_S. destruct Hfol as (c & kd & rest' & -> & Hs & Hk). apply at_app in H.
  rewrite (p_tag_no toks is_mulop _ r _ _ _ H Hs); [reflexivity|].
  unfold fol_mul in Hk. apply andb_prop in Hk. now destruct (is_mulop kd), Hk.
Qed.

Lemma add_chain_mul m : MulOK m -> AddChain (AMul m).
Proof.
  intros IH k r rest g Hr Hf H Hfol. cbn [fl_add iters_add x_add] in *.
  rewrite (IH k r rest g Hr Hf H Hfol). norm. now rewrite Nat.sub_0_r.
Qed.

Lemma add_chain_bin a c op m : AddChain a -> MulOK m -> AddChain (ABin a c op m).
Proof.
  intros IHa IHm k r rest f Hr Hf H Hfol. cbn [fl_add] in H. flat_in H.
  destruct (addop_ok op) as (Ho1 & Ho2 & Ho3 & Ho4).
  assert (Hl : len (fl_add (ABin a c op m)) = len (fl_add a) + len c + 1 + len (fl_mul m)) by (lens; lia).
  pose proof (iters_add_le a) as Hi.
  rewrite (IHa k r _ f Hr ltac:(lia) H (fol_here fol_mul c _ _ Ho2 Ho3)).
  cbn [iters_add]. replace (f - iters_add a) with (S (f - S (iters_add a))) by lia.
  rewrite add_loop_S. apply at_app in H.
  destruct (p_tag_at toks is_addop _ r _ _ _ H Ho2) as (t & Ht & E). rewrite E, Ho1.
  unfold p_rhs. comb.
  rewrite (IHm (k + len (fl_add a) + len c + 1) r rest (f - S (iters_add a)) ltac:(lia) ltac:(lia) (at_cm_cons _ _ _ _ _ H) Hfol).
  norm. rewrite Ht, Ho4, start_add. cbn [x_add]. unfold mkinfo. rewrite Hl. teq.
Qed.

Lemma add_ok_of_chain a : AddChain a -> AddOK a.
Proof.
  intros Hc k r rest fuel Hr Hf H Hfol. destruct fuel as [|f]; [lia|]. rewrite p_add_S.
  rewrite (Hc k r rest f Hr ltac:(lia) H (fol_add_mul _ Hfol)).
  pose proof (iters_add_le a). replace (f - iters_add a) with (S (f - S (iters_add a))) by lia.
  rewrite add_loop_S. destruct Hfol as (c & kd & rest' & -> & Hs & Hk). apply at_app in H.
  rewrite (p_tag_no toks is_addop _ r _ _ _ H Hs); [reflexivity|].
  unfold fol_add in Hk. apply andb_prop in Hk. now destruct (is_addop kd), Hk.
Qed.

(* ---- the comparison on top ---- *)
Lemma fol_cmp_add rest : fol fol_cmp rest -> fol fol_add rest.
Proof. apply fol_weaken. unfold fol_cmp. intros kd H. apply andb_prop in H. tauto. Qed.

Lemma cmp_add a : AddOK a -> CmpOK (CAdd a).
Proof.
  intros IH k r rest fuel Hr Hf H Hfol. cbn [fl_cmp x_cmp] in *. destruct fuel as [|f]; [lia|]. rewrite p_comparison_S.
  rewrite (IH k r rest f Hr ltac:(lia) H (fol_cmp_add _ Hfol)). norm.
  destruct Hfol as (c & kd & rest' & -> & Hs & Hk). apply at_app in H.
  rewrite (p_tag_no toks is_cmpop _ r _ _ _ H Hs); [reflexivity|].
  unfold fol_cmp in Hk. apply andb_prop in Hk. now destruct (is_cmpop kd), Hk.
Qed.

Lemma cmp_bin l c op a : AddOK l -> AddOK a -> CmpOK (CBin l c op a).
Proof.
  intros IHl IHa k r rest fuel Hr Hf H Hfol. cbn [fl_cmp] in H. flat_in H.
  destruct (cmpop_ok op) as (Ho1 & Ho2 & Ho3 & Ho4).
  assert (Hl : len (fl_cmp (CBin l c op a)) = len (fl_add l) + len c + 1 + len (fl_add a)) by (lens; lia).
  destruct fuel as [|f]; [lia|]. rewrite p_comparison_S.
  rewrite (IHl k r _ f Hr ltac:(lia) H (fol_here fol_add c _ _ Ho2 Ho3)). norm. apply at_app in H.
  destruct (p_tag_at toks is_cmpop _ r _ _ _ H Ho2) as (t & Ht & E). rewrite E, Ho1.
  unfold p_rhs. comb.
  rewrite (IHa (k + len (fl_add l) + len c + 1) r rest f ltac:(lia) ltac:(lia) (at_cm_cons _ _ _ _ _ H) (fol_cmp_add _ Hfol)).
  norm. rewrite Ht, Ho4, start_add. cbn [x_cmp]. unfold mkinfo. rewrite Hl. teq.
Qed.

End Expr.

(* ---- the mutual induction ---- *)
Scheme avar_mind := Induction for avar Sort Prop
  with afac_mind := Induction for afac Sort Prop
  with amul_mind := Induction for amul Sort Prop
  with aadd_mind := Induction for aadd Sort Prop
  with acmp_mind := Induction for acmp Sort Prop.
Combined Scheme aexpr_mutind from avar_mind, afac_mind, amul_mind, aadd_mind, acmp_mind.

Theorem expr_all toks :
  (forall v, VarSteps toks v) /\ (forall f, FacOK toks f) /\ (forall m, MulChain toks m) /\
  (forall a, AddChain toks a) /\ (forall e, CmpOK toks e).
Proof.
  apply aexpr_mutind.
  - apply var_steps_name.
  - intros; now apply var_steps_index.
  - apply fac_lit.
  - intros; now apply fac_var, var_ok_of_steps.
  - intros; now apply fac_neg.
  - intros; now apply fac_par.
  - intros; now apply mul_chain_fac.
  - intros; now apply mul_chain_bin.
  - intros; now apply add_chain_mul, mul_ok_of_chain.
  - intros; apply add_chain_bin; [assumption | now apply mul_ok_of_chain].
  - intros; now apply cmp_add, add_ok_of_chain.
  - intros; apply cmp_bin; now apply add_ok_of_chain.
Qed.

Lemma cmp_ok toks e : CmpOK toks e.
Proof. apply expr_all. Qed.
Lemma var_ok toks v : VarOK toks v.
Proof. apply var_ok_of_steps, expr_all. Qed.
