(* C09 part (A): variables, expressions, type expressions.  On the tree the grammar mandates ([x_var],
   [x_cmp], [x_type] of Spec/Grammar.v) and a token vector that holds the kinds of the construct, the printer
   returns the woven spellings of exactly these kinds. *)
From Coq Require Import String Lia PeanoNat.
From Spl Require Import Model.Format Model.Lexer Spec.Grammar Proofs.RenderProofs Proofs.FormatProofs
  Proofs.FormatStructText Proofs.FormatStructTok.
From Spl Require Proofs.GrammarExpr.
Import ListNotations.
Local Open Scope nat_scope.

(* ================================================================================================
   1. Which neighbours may be glued
   ================================================================================================ *)
(* symbols nothing can extend *)
Definition closedk (k : kind) : bool :=
  match k with LParen | RParen | LBracket | RBracket | LCurly | RCurly | Minus => true | _ => false end.
(* the last token of an expression, variable or type expression *)
Definition eend (k : kind) : bool :=
  match k with Ident _ | CharT _ | IntT (IntOk _) | HexT (IntOk _) | RParen | RBracket => true | _ => false end.
(* closing and separating symbols *)
Definition punct (k : kind) : bool :=
  match k with RParen | RBracket | Semic | Comma | LParen | LBracket | Colon => true | _ => false end.

Lemma closedk_nice k : closedk k = true -> nice k = true.
Proof. destruct k; try discriminate; reflexivity. Qed.

Lemma glue_closed a b : closedk a = true -> valid_kind b = true -> needs_sep a b = false.
Proof.
  intros Ha Hb. unfold needs_sep. rewrite (spell_total b Hb).
  destruct a; try discriminate Ha; reflexivity.
Qed.

Lemma glue_end_punct a b : valid_kind a = true -> eend a = true -> punct b = true -> needs_sep a b = false.
Proof.
  intros Hn He Hp. unfold needs_sep. rewrite (spell_total a Hn).
  destruct b; try discriminate Hp; clear Hp;
    (match goal with |- match spell ?b with _ => _ end = _ =>
       let v := eval vm_compute in (spell b) in change (spell b) with v end);
    cbv iota beta;
    (destruct a as [ | | | | | | | | | | | | | | | | | | | | | | | | | | | | | s | c | r | r | s | s | ]; try discriminate He;
     try reflexivity; try (destruct r as [v|]; [|discriminate He]); cbn [delimitedb spelling spell];
     try reflexivity; destruct (text_eqb (dec_spelling v) [48%N]); reflexivity).
Qed.

Definition ends_e (ks : list kind) : Prop := ks <> [] /\ eend (lastk ks) = true.

Lemma lastk_app a b : b <> [] -> lastk (a ++ b) = lastk b.
Proof. apply last_app_ne. Qed.

Lemma ends_one k : eend k = true -> ends_e [k].
Proof. intros H. split; [discriminate | exact H]. Qed.
Lemma ends_app a b : ends_e b -> ends_e (a ++ b).
Proof.
  intros [Hne H]. split; [intros E; apply app_eq_nil in E; tauto|]. rewrite lastk_app by exact Hne. exact H.
Qed.
Lemma ends_cons k b : ends_e b -> ends_e (k :: b).
Proof. apply (ends_app [k] b). Qed.

Lemma eend_lit l : eend (k_lit l) = true.
Proof. destruct l; reflexivity. Qed.

Ltac ends_tac :=
  repeat first [assumption | apply ends_one; first [reflexivity | apply eend_lit] | apply ends_app | apply ends_cons].

Lemma ends_expr :
  (forall v, ends_e (fl_var v)) /\ (forall f, ends_e (fl_fac f)) /\ (forall m, ends_e (fl_mul m)) /\
  (forall a, ends_e (fl_add a)) /\ (forall e, ends_e (fl_cmp e)).
Proof.
  apply GrammarExpr.aexpr_mutind; intros;
    cbn [fl_var fl_fac fl_mul fl_add fl_cmp]; ends_tac.
Qed.

Lemma ends_var v : ends_e (fl_var v).
Proof. apply ends_expr. Qed.
Lemma ends_cmp e : ends_e (fl_cmp e).
Proof. apply ends_expr. Qed.
Lemma ends_fac f : ends_e (fl_fac f).
Proof. apply ends_expr. Qed.
Lemma ends_mul m : ends_e (fl_mul m).
Proof. apply ends_expr. Qed.
Lemma ends_add a : ends_e (fl_add a).
Proof. apply ends_expr. Qed.

Lemma ends_type t : ends_e (fl_type t).
Proof. induction t; cbn [fl_type]; ends_tac. Qed.

(* ================================================================================================
   2. Combinators for woven texts, in the shapes the printers produce
   ================================================================================================ *)
(* marks the whitespace the printers emit *)
Definition gp (g : text) : text := g.

Lemma Wv_hd_valid ks t : Wv ks t -> valid_kind (hdk ks) = true.
Proof.
  intros H. pose proof (Wv_valid ks t H) as Hn. pose proof (Wv_nonempty ks t H) as Hne.
  destruct ks as [|k ks]; [congruence|]. cbn [forallb] in Hn. apply andb_true_iff in Hn. exact (proj1 Hn).
Qed.

Lemma Wv_last_valid ks t : Wv ks t -> valid_kind (lastk ks) = true.
Proof.
  intros H. pose proof (Wv_valid ks t H) as Hn. pose proof (Wv_nonempty ks t H) as Hne.
  rewrite forallb_forall in Hn. apply Hn. unfold lastk. destruct ks as [|k ks]; [congruence|].
  clear. revert k. induction ks as [|k' ks IH]; intros k; [left; reflexivity|].
  right. change (In (last (k' :: ks) Eof) (k' :: ks)). apply IH.
Qed.

Lemma Wv_sp ks1 ks2 t1 g t2 :
  Wv ks1 t1 -> Wv ks2 t2 -> forallb gapc g = true -> g <> [] -> Wv (ks1 ++ ks2) (t1 ++ gp g ++ t2).
Proof. intros H1 H2 Hg Hne. apply Wv_app; [exact H1 | exact H2 | apply sepok_ne; [apply (Wv_last ks1 t1 H1) | assumption | assumption]]. Qed.

Lemma Wv_sub_punct ks1 ks2 t1 t2 :
  Wv ks1 t1 -> ends_e ks1 -> Wv ks2 t2 -> punct (hdk ks2) = true -> Wv (ks1 ++ ks2) (t1 ++ t2).
Proof.
  intros H1 [_ He] H2 Hp. apply Wv_app0; [exact H1 | exact H2|].
  apply glue_end_punct; [apply (Wv_last_valid ks1 t1 H1) | exact He | exact Hp].
Qed.

Lemma Wv_sub_closed ks1 ks2 t1 t2 :
  Wv ks1 t1 -> closedk (lastk ks1) = true -> Wv ks2 t2 -> Wv (ks1 ++ ks2) (t1 ++ t2).
Proof.
  intros H1 Hc H2. apply Wv_app0; [exact H1 | exact H2|].
  apply glue_closed; [exact Hc | apply (Wv_hd_valid ks2 t2 H2)].
Qed.

Lemma Wv_tok_sp k ks g t :
  nice k = true -> Wv ks t -> forallb gapc g = true -> g <> [] -> Wv (k :: ks) (sh k ++ gp g ++ t).
Proof. intros Hk H Hg Hne. apply (Wv_sp [k] ks (sh k) g t); [apply Wv_one; exact Hk | exact H | exact Hg | exact Hne]. Qed.

Lemma Wv_tok_closed k ks t : closedk k = true -> Wv ks t -> Wv (k :: ks) (sh k ++ t).
Proof.
  intros Hk H. apply (Wv_sub_closed [k] ks (sh k) t); [apply Wv_one; apply closedk_nice; exact Hk | exact Hk | exact H].
Qed.

Lemma Wv_tok_punct k ks t : nice k = true -> eend k = true -> Wv ks t -> punct (hdk ks) = true -> Wv (k :: ks) (sh k ++ t).
Proof.
  intros Hk He H Hp. apply (Wv_sub_punct [k] ks (sh k) t); [apply Wv_one; exact Hk | apply ends_one; exact He | exact H | exact Hp].
Qed.

Ltac nicek := first [assumption | reflexivity].
Ltac endk := first [reflexivity | apply eend_lit].
Ltac ends := first [assumption | apply ends_var | apply ends_cmp | apply ends_fac | apply ends_mul | apply ends_add
                    | apply ends_type | ends_tac].

(* decompose a goal [Wv kinds text] whose text is written with [sh k], marked gaps [gp g] and sub-texts *)
Ltac wv :=
  lazymatch goal with
  | |- Wv [?k] (sh ?k) => apply Wv_one; nicek
  | |- Wv (?k :: ?ks) (sh ?k ++ gp ?g ++ ?t) => apply (Wv_tok_sp k ks g t); [nicek | wv | reflexivity | discriminate]
  | |- Wv (?k :: ?ks) (sh ?k ++ ?t) =>
      first [ apply (Wv_tok_closed k ks t); [reflexivity | wv]
            | apply (Wv_tok_punct k ks t); [nicek | endk | wv | reflexivity] ]
  | |- Wv (?ks1 ++ ?ks2) (?t1 ++ gp ?g ++ ?t2) => apply (Wv_sp ks1 ks2 t1 g t2); [wv | wv | reflexivity | discriminate]
  | |- Wv (?ks1 ++ ?ks2) (?t1 ++ ?t2) => apply (Wv_sub_punct ks1 ks2 t1 t2); [wv | ends | wv | reflexivity]
  | |- Wv _ _ => eassumption
  end.

(* ================================================================================================
   3. The printers, written with [sh] and [gp]
   ================================================================================================ *)
Lemma show_op_mul op : show_op (o_mul op) = sh (k_mul op).
Proof. destruct op; reflexivity. Qed.
Lemma show_op_add op : show_op (o_add op) = sh (k_add op).
Proof. destruct op; reflexivity. Qed.
Lemma show_op_cmp op : show_op (o_cmp op) = sh (k_cmp op).
Proof. destruct op; reflexivity. Qed.

Lemma nice_mul op : nice (k_mul op) = true.
Proof. destruct op; reflexivity. Qed.
Lemma nice_add op : nice (k_add op) = true.
Proof. destruct op; reflexivity. Qed.
Lemma nice_cmp op : nice (k_cmp op) = true.
Proof. destruct op; reflexivity. Qed.

Lemma fmt_var_named i toks : fmt_var (NamedVar i) toks = FOk (id_val i).
Proof. reflexivity. Qed.

Lemma fmt_var_idx arr e off i toks :
  fmt_var (ArrAccess arr (Some (e, off)) i) toks =
  (do index <- with_from off toks (fun t' => fmt_expr e t'); do a <- fmt_var arr toks;
   FOk (a ++ sh LBracket ++ index ++ sh RBracket)).
Proof. reflexivity. Qed.

Lemma fmt_expr_bin op l r i toks :
  fmt_expr (EBin op l r i) toks =
  (do a <- fmt_expr l toks; do b <- fmt_expr r toks; FOk (a ++ gp [32%N] ++ show_op op ++ gp [32%N] ++ b)).
Proof. reflexivity. Qed.

Lemma fmt_expr_brack x i toks :
  fmt_expr (EBrack x i) toks = (do a <- fmt_expr x toks; FOk (sh LParen ++ a ++ sh RParen)).
Proof. reflexivity. Qed.

Lemma fmt_expr_un x i toks :
  fmt_expr (EUn OSub x i) toks = (do a <- fmt_expr x toks; FOk (sh Minus ++ a)).
Proof. reflexivity. Qed.

Lemma fmt_expr_var v toks : fmt_expr (EVar v) toks = fmt_var v toks.
Proof. reflexivity. Qed.

Lemma fmt_expr_int i toks : fmt_expr (EInt i) toks = fmt_intlit i toks.
Proof. reflexivity. Qed.

(* impl Format for IntLiteral: the literal token of the range, as Display prints it *)
Lemma fmt_intlit_ok toks o l : At toks o [k_lit l] -> fmt_intlit (x_lit o [] l) toks = FOk (sh (k_lit l)).
Proof.
  intros H. unfold fmt_intlit, x_lit. cbn [il_info].
  destruct (with_slice_At toks o (o + length (@nil text) + 1) [k_lit l]
              (fun sl => match find is_lit_tok sl with Some t => FOk (show_tok t) | None => FPanic end) H ltac:(cbn [length]; lia))
    as (sl & E & M).
  rewrite E. destruct sl as [|t [|t2 sl]]; try discriminate M. cbn [map] in M. injection M as M.
  cbn [find]. unfold is_lit_tok. rewrite M. destruct l; cbn [k_lit]; unfold show_tok; rewrite M; reflexivity.
Qed.

(* ================================================================================================
   4. Variables and expressions
   ================================================================================================ *)
Definition prints {X} (fmt : X -> list token -> fres) (x : X) (toks : list token) (ks : list kind) : Prop :=
  exists t, fmt x toks = FOk t /\ Wv ks t.

Definition var_ok (v : avar) : Prop :=
  forall toks o, forallb nice (fl_var v) = true -> At toks o (fl_var v) -> prints fmt_var (x_var o v) toks (fl_var v).
Definition fac_ok (f : afac) : Prop :=
  forall toks o, forallb nice (fl_fac f) = true -> At toks o (fl_fac f) -> prints fmt_expr (x_fac o f) toks (fl_fac f).
Definition mul_ok (m : amul) : Prop :=
  forall toks o, forallb nice (fl_mul m) = true -> At toks o (fl_mul m) -> prints fmt_expr (x_mul o m) toks (fl_mul m).
Definition add_ok (a : aadd) : Prop :=
  forall toks o, forallb nice (fl_add a) = true -> At toks o (fl_add a) -> prints fmt_expr (x_add o a) toks (fl_add a).
Definition cmp_ok (e : acmp) : Prop :=
  forall toks o, forallb nice (fl_cmp e) = true -> At toks o (fl_cmp e) -> prints fmt_expr (x_cmp o e) toks (fl_cmp e).

(* a Reference<Expression>: printed on the token slice that starts at its offset *)
Lemma ref_expr_ok e toks off :
  cmp_ok e -> forallb nice (fl_cmp e) = true -> At toks off (fl_cmp e) ->
  exists t, with_from off toks (fun t' => fmt_expr (x_cmp 0 e) t') = FOk t /\ Wv (fl_cmp e) t.
Proof.
  intros IH Hn H. destruct (with_from_At toks off 0 (fl_cmp e) (fun t' => fmt_expr (x_cmp 0 e) t')) as [E A]; [at_solve|].
  rewrite E. exact (IH _ 0 Hn A).
Qed.

Ltac use_prints IH :=
  let t := fresh "t" in let E := fresh "E" in let W := fresh "W" in
  destruct IH as (t & E & W); rewrite E; cbn [fbind].

Lemma var_name_ok c x : var_ok (AName c x).
Proof.
  intros toks o Hn H. unfold prints. cbn [fl_var] in *. nice_split. cbn [x_var]. unfold x_ident. rewrite fmt_var_named. cbn [id_val].
  exists (sh (Ident x)). split; [reflexivity|]. cbn [cm map app]. wv.
Qed.

Lemma var_index_ok v c1 e c2 : var_ok v -> cmp_ok e -> var_ok (AIndex v c1 e c2).
Proof.
  intros IHv IHe toks o Hn H. unfold prints. cbn [fl_var] in *. nice_split. cbn [x_var]. cbn [cm map app length] in *. rewrite fmt_var_idx. at_split.
  assert (IH1 := ref_expr_ok e toks (o + length (fl_var v) + 0 + 1) IHe ltac:(assumption) ltac:(at_solve)).
  use_prints IH1.
  assert (IH2 := IHv toks o ltac:(assumption) ltac:(at_solve)). use_prints IH2.
  eexists. split; [reflexivity|]. wv.
Qed.

Lemma fac_lit_ok c l : fac_ok (FLit c l).
Proof.
  intros toks o Hn H. unfold prints. cbn [fl_fac] in *. nice_split. cbn [cm map app] in *. cbn [x_fac]. rewrite fmt_expr_int, (fmt_intlit_ok toks o l H).
  eexists. split; [reflexivity|]. wv.
Qed.

Lemma fac_var_ok v : var_ok v -> fac_ok (FVar v).
Proof. intros IH toks o Hn H. unfold prints. cbn [fl_fac x_fac] in *. rewrite fmt_expr_var. exact (IH toks o Hn H). Qed.

Lemma fac_neg_ok c f : fac_ok f -> fac_ok (FNeg c f).
Proof.
  intros IH toks o Hn H. unfold prints. cbn [fl_fac] in *. nice_split. cbn [x_fac o_add]. cbn [cm map app length] in *. rewrite fmt_expr_un. at_split.
  assert (IH1 := IH toks (o + 0 + 1) ltac:(assumption) ltac:(at_solve)). use_prints IH1.
  eexists. split; [reflexivity|]. wv.
Qed.

Lemma fac_par_ok c1 e c2 : cmp_ok e -> fac_ok (FPar c1 e c2).
Proof.
  intros IH toks o Hn H. unfold prints. cbn [fl_fac] in *. nice_split. cbn [x_fac]. cbn [cm map app length] in *. rewrite fmt_expr_brack. at_split.
  assert (IH1 := IH toks (o + 0 + 1) ltac:(assumption) ltac:(at_solve)). use_prints IH1.
  eexists. split; [reflexivity|]. wv.
Qed.

Lemma mul_fac_ok f : fac_ok f -> mul_ok (MFac f).
Proof. intros IH toks o Hn H. exact (IH toks o Hn H). Qed.

Lemma mul_bin_ok m c op f : mul_ok m -> fac_ok f -> mul_ok (MBin m c op f).
Proof.
  intros IHm IHf toks o Hn H. unfold prints. cbn [fl_mul] in *. nice_split. cbn [x_mul]. cbn [cm map app length] in *. rewrite fmt_expr_bin. at_split.
  assert (IH1 := IHm toks o ltac:(assumption) ltac:(at_solve)). use_prints IH1.
  assert (IH2 := IHf toks (o + length (fl_mul m) + 0 + 1) ltac:(assumption) ltac:(at_solve)). use_prints IH2.
  eexists. split; [reflexivity|]. rewrite show_op_mul. wv.
Qed.

Lemma add_mul_ok m : mul_ok m -> add_ok (AMul m).
Proof. intros IH toks o Hn H. exact (IH toks o Hn H). Qed.

Lemma add_bin_ok a c op m : add_ok a -> mul_ok m -> add_ok (ABin a c op m).
Proof.
  intros IHa IHm toks o Hn H. unfold prints. cbn [fl_add] in *. nice_split. cbn [x_add]. cbn [cm map app length] in *. rewrite fmt_expr_bin. at_split.
  assert (IH1 := IHa toks o ltac:(assumption) ltac:(at_solve)). use_prints IH1.
  assert (IH2 := IHm toks (o + length (fl_add a) + 0 + 1) ltac:(assumption) ltac:(at_solve)). use_prints IH2.
  eexists. split; [reflexivity|]. rewrite show_op_add. wv.
Qed.

Lemma cmp_add_ok a : add_ok a -> cmp_ok (CAdd a).
Proof. intros IH toks o Hn H. exact (IH toks o Hn H). Qed.

Lemma cmp_bin_ok l c op r : add_ok l -> add_ok r -> cmp_ok (CBin l c op r).
Proof.
  intros IHl IHr toks o Hn H. unfold prints. cbn [fl_cmp] in *. nice_split. cbn [x_cmp]. cbn [cm map app length] in *. rewrite fmt_expr_bin. at_split.
  assert (IH1 := IHl toks o ltac:(assumption) ltac:(at_solve)). use_prints IH1.
  assert (IH2 := IHr toks (o + length (fl_add l) + 0 + 1) ltac:(assumption) ltac:(at_solve)). use_prints IH2.
  eexists. split; [reflexivity|]. rewrite show_op_cmp. wv.
Qed.

Theorem expr_prints :
  (forall v, var_ok v) /\ (forall f, fac_ok f) /\ (forall m, mul_ok m) /\ (forall a, add_ok a) /\ (forall e, cmp_ok e).
Proof.
  apply GrammarExpr.aexpr_mutind.
  - apply var_name_ok.
  - intros; now apply var_index_ok.
  - apply fac_lit_ok.
  - intros; now apply fac_var_ok.
  - intros; now apply fac_neg_ok.
  - intros; now apply fac_par_ok.
  - intros; now apply mul_fac_ok.
  - intros; now apply mul_bin_ok.
  - intros; now apply add_mul_ok.
  - intros; now apply add_bin_ok.
  - intros; now apply cmp_add_ok.
  - intros; now apply cmp_bin_ok.
Qed.

Lemma var_prints v : var_ok v.
Proof. apply expr_prints. Qed.
Lemma cmp_prints e : cmp_ok e.
Proof. apply expr_prints. Qed.

(* ================================================================================================
   5. Type expressions
   ================================================================================================ *)
Lemma fmt_texpr_named i toks : fmt_texpr (TNamed i) toks = FOk (id_val i).
Proof. reflexivity. Qed.

Lemma fmt_texpr_array sz b off i toks :
  fmt_texpr (TArray (Some sz) (Some (b, off)) i) toks =
  (do s <- fmt_intlit sz toks; do bt <- with_from off toks (fun t' => fmt_texpr b t');
   FOk (sh KArray ++ gp [32%N] ++ sh LBracket ++ s ++ sh RBracket ++ gp [32%N] ++ sh KOf ++ gp [32%N] ++ bt)).
Proof. reflexivity. Qed.

Definition type_ok (t : atype) : Prop :=
  forall toks o, forallb nice (fl_type t) = true -> At toks o (fl_type t) -> prints fmt_texpr (x_type o t) toks (fl_type t).

Theorem type_prints t : type_ok t.
Proof.
  induction t as [c x|ca cl cz size cr co base IH]; intros toks o Hn H; unfold prints; cbn [fl_type] in *; nice_split; cbn [x_type]; cbv zeta; cbn [cm map app length] in *.
  - unfold x_ident. rewrite fmt_texpr_named. cbn [id_val]. exists (sh (Ident x)). split; [reflexivity | wv].
  - rewrite fmt_texpr_array. at_split.
    rewrite (fmt_intlit_ok toks (o + 0 + 1 + 0 + 1) size) by at_solve. cbn [fbind].
    destruct (with_from_At toks (o + 0 + 1 + 0 + 1 + 0 + 1 + 0 + 1 + 0 + 1) 0 (fl_type base) (fun t' => fmt_texpr (x_type 0 base) t')) as [E0 AT0]; [at_solve|].
    rewrite E0. assert (IH1 := IH _ 0 ltac:(assumption) AT0). use_prints IH1.
    eexists. split; [reflexivity|]. wv.
Qed.

Lemma ref_type_ok t toks off :
  forallb nice (fl_type t) = true -> At toks off (fl_type t) ->
  exists s, fmt_ref_texpr (Some (x_type 0 t, off)) toks = FOk s /\ Wv (fl_type t) s.
Proof.
  intros Hn H. cbn [fmt_ref_texpr].
  destruct (with_from_At toks off 0 (fl_type t) (fun t' => fmt_texpr (x_type 0 t) t')) as [E A]; [at_solve|].
  rewrite E. exact (type_prints t _ 0 Hn A).
Qed.

(* ================================================================================================
   6. A variable whose first token carries leading comments (the leading comments of an assignment)
   ================================================================================================ *)
Fixpoint var_lead (v : avar) : cs :=
  match v with AName c _ => c | AIndex v' _ _ _ => var_lead v' end.

Fixpoint var_code (v : avar) : list kind :=
  match v with
  | AName _ x => [Ident x]
  | AIndex v' c1 e c2 => var_code v' ++ cm c1 ++ LBracket :: fl_cmp e ++ cm c2 ++ [RBracket]
  end.

Lemma fl_var_lead v : fl_var v = cm (var_lead v) ++ var_code v.
Proof.
  induction v as [c x|v' IH c1 e c2]; cbn [fl_var var_lead var_code]; [reflexivity|].
  rewrite IH, <- app_assoc. reflexivity.
Qed.

Lemma ends_var_code v : ends_e (var_code v).
Proof. destruct v; cbn [var_code]; ends_tac. Qed.

Lemma var_lead_prints v : forall toks o,
  forallb nice (var_code v) = true -> At toks o (fl_var v) -> prints fmt_var (x_var o v) toks (var_code v).
Proof.
  induction v as [c x|v' IH c1 e c2]; intros toks o Hn H; unfold prints.
  - cbn [x_var]. unfold x_ident. rewrite fmt_var_named. cbn [id_val var_code] in *. nice_split.
    exists (sh (Ident x)). split; [reflexivity | wv].
  - cbn [var_code fl_var] in *. nice_split. cbn [x_var]. cbn [cm map app length] in *. rewrite fmt_var_idx. at_split.
    assert (IH1 := ref_expr_ok e toks (o + length (fl_var v') + 0 + 1) (cmp_prints e) ltac:(assumption) ltac:(at_solve)).
    use_prints IH1.
    assert (IH2 := IH toks o ltac:(assumption) ltac:(at_solve)). use_prints IH2.
    eexists. split; [reflexivity|].
    apply Wv_sub_punct; [eassumption | apply ends_var_code | wv | reflexivity].
Qed.
