(* C14 - signature help on VALID programs: the active parameter, argument by argument.

   The separators of a call statement `f ( e0 , e1 , ... )` are its `(`, its commas and its `)`
   (Proofs/SigHelpValidSites.v [call_seps]: their token positions relative to the statement, from
   lengths of flattened pieces).  Argument number j stands between separator j and separator j + 1.

     [commas_between]     on a token slice in text order, between two tokens a (in front) and b with
                          no comma in between, the commas that start before the cursor are the commas
                          up to a;
     [sighelp_valid_arg]  for every call statement of every valid program in every layout and every cursor
                          index from the end of separator j to the start of separator j + 1 (white space
                          and comments around the argument included): the answer is the callee's
                          signature with active parameter j  (None when the callee has no parameter:
                          then j = 0 and the only slot is the one between `(` and `)`). *)
From Coq Require Import PeanoNat Lia.
From Spl Require Import Proofs.GrammarBase Proofs.GrammarExpr Proofs.GrammarStmt.
From Spl Require Import Proofs.GrammarProofs Spec.Typing Model.Errors Proofs.SemProofs Proofs.TypingProofs.
From Spl Require Import Model.Hover Model.SigHelp Model.Fold Proofs.LexerProofs Proofs.FoldProofs Proofs.HoverProofs.
From Spl Require Import Proofs.HoverValid Proofs.GotoValidModel.
From Spl Require Import Proofs.SigHelpValidSites Proofs.SigHelpValidModel Proofs.SigHelpValid.
Local Open Scope N_scope.

Definition comma_before (index : N) (t : token) : bool := is_comma t && (ts t <? index).

Lemma commas_before_eq sl index : commas_before sl index = N.of_nat (len (filter (comma_before index) sl)).
Proof. reflexivity. Qed.

Lemma filter_len_le {A} (f g : A -> bool) : forall l,
  (forall x, In x l -> f x = true -> g x = true) -> (len (filter f l) <= len (filter g l))%nat.
Proof.
  induction l as [|x l IH]; intros H; [apply le_n|]. cbn [filter].
  assert (IH' : (len (filter f l) <= len (filter g l))%nat) by (apply IH; intros y Hy; apply H; now right).
  destruct (f x) eqn:Ef.
  - rewrite (H x (or_introl eq_refl) Ef). cbn [length]. lia.
  - destruct (g x); cbn [length]; lia.
Qed.

Lemma comma_count_tokens : forall sl, len (filter is_comma sl) = count_commas_k (map tk sl).
Proof.
  unfold count_commas_k. induction sl as [|x l IH]; [reflexivity|].
  cbn [map filter]. unfold is_comma at 1. unfold is_comma_k at 1.
  destruct (tk x); cbn [length]; rewrite IH; reflexivity.
Qed.

Lemma commas_between sl qa qb a b index :
  toks_sorted sl = true -> nth_error sl qa = Some a -> nth_error sl qb = Some b -> (qa < qb)%nat ->
  ts a < te a -> te a <= index -> index <= ts b ->
  count_commas_k (firstn qb (map tk sl)) = count_commas_k (firstn (S qa) (map tk sl)) ->
  commas_before sl index = N.of_nat (count_commas_k (firstn (S qa) (map tk sl))).
Proof.
  intros Hs Ha Hb Hlt Hne H1 H2 Hcnt. rewrite commas_before_eq. f_equal.
  rewrite <- (firstn_skipn qb sl) at 1. rewrite filter_app, app_length.
  (* behind b: nothing starts before the index *)
  rewrite (filter_none (comma_before index) (skipn qb sl)).
  2:{ intros x Hx. apply In_nth_error in Hx as [i Hi]. rewrite nth_skipn in Hi.
      destruct (sorted_le sl qb (qb + i) b x Hs ltac:(lia) Hb Hi) as [Hx _].
      unfold comma_before. destruct (N.ltb_spec (ts x) index); [lia|]. apply andb_false_r. }
  cbn [length]. rewrite Nat.add_0_r.
  (* up to a: everything starts before the index *)
  assert (Hpre : filter (comma_before index) (firstn (S qa) sl) = filter is_comma (firstn (S qa) sl)).
  { apply filter_ext_in. intros x Hx. apply In_nth_error in Hx as [i Hi]. apply nth_firstn in Hi as [Hi Hiq].
    destruct (sorted_le sl i qa x a Hs ltac:(lia) Hi Ha) as [Hx _].
    unfold comma_before. destruct (N.ltb_spec (ts x) index); [|lia]. apply andb_true_r. }
  assert (Hsplit : firstn qb sl = firstn (S qa) sl ++ skipn (S qa) (firstn qb sl)).
  { rewrite <- (firstn_skipn (S qa) (firstn qb sl)) at 1. f_equal. rewrite firstn_firstn. f_equal. lia. }
  (* squeeze *)
  assert (Hlo : (len (filter is_comma (firstn (S qa) sl)) <= len (filter (comma_before index) (firstn qb sl)))%nat).
  { rewrite Hsplit, filter_app, app_length, Hpre. lia. }
  assert (Hhi : (len (filter (comma_before index) (firstn qb sl)) <= len (filter is_comma (firstn qb sl)))%nat).
  { apply filter_len_le. intros x _ Hx. unfold comma_before in Hx. now apply andb_true_iff in Hx. }
  rewrite !comma_count_tokens, !map_firstn in *. lia.
Qed.

(* the cursor in argument slot j of a call statement of a valid program *)
Theorem sighelp_valid_arg (p : aprog) (G : gtable) (t : text) (toks : list token) (d : doc) :
  prog_ok p = true -> well_typed (expected p) G ->
  lex t = Some toks -> map tk toks = flatten p ++ [Eof] -> new_doc_res t = ODone d ->
  forall owner k c, In (owner, (k, c)) (program_sites p) ->
  exists pe, lookup G (k_f c) = Some (GProcE pe) /\ len (pe_params pe) = nargs (k_a c) /\
  forall j qa qb a b line col,
    nth_error (call_seps c) j = Some qa -> nth_error (call_seps c) (S j) = Some qb ->
    nth_error toks (k + qa) = Some a -> nth_error toks (k + qb) = Some b ->
    te a <= get_insertion_index line col t -> get_insertion_index line col t <= ts b ->
    signature_help d line col
    = ROk (Some {| sh_label := show_pentry pe; sh_doc := sig_documentation (pe_doc pe);
                   sh_params := map show_ventry (pe_params pe);
                   sh_active := match pe_params pe with [] => None | _ :: _ => Some (N.of_nat j) end |}).
Proof.
  intros Hok Hwt Hlex Hk Hd owner k c Hin.
  destruct (sighelp_valid_stmt p G t toks d Hok Hwt Hlex Hk Hd owner k c Hin) as [pe [Hl [Hn Hsig]]].
  exists pe. split; [exact Hl|]. split; [exact Hn|]. intros j qa qb a b line col Hqa Hqb Ha Hb H1 H2.
  destruct (layout_facts p t toks Hlex Hk) as [Hs [Hord _]].
  destruct (site_tokens p t toks owner k c Hlex Hk Hin) as [Hbnd [Hkinds [[first Hf] [_ [_ [_ [last [Hla Hkl]]]]]]]].
  destruct (call_slots c j qa qb Hqa Hqb) as [Hlt [Hqbn [Hsep [Hc1 Hc2]]]].
  set (sl := firstn (len (fl_call c)) (skipn k toks)) in *.
  assert (Hnth : forall q, (q < len (fl_call c))%nat -> nth_error sl q = nth_error toks (k + q)).
  { intros q Hq. unfold sl. apply nth_slice. exact Hq. }
  assert (Hka : tk a <> Eof).
  { pose proof (nth_error_map tk qa sl) as Hm. rewrite Hkinds, (Hnth qa ltac:(lia)), Ha in Hm. cbn [option_map] in Hm.
    destruct Hsep as [Hsep|Hsep]; rewrite Hsep in Hm; injection Hm as <-; discriminate. }
  pose proof (ordered_nonempty toks 0 _ a Hord Ha Hka) as Hane.
  assert (Hlne : ts last < te last) by (apply (ordered_nonempty toks 0 _ last Hord Hla); rewrite Hkl; discriminate).
  rewrite (Hsig first last line col Hf Hla).
  - unfold sighelp_answer. do 3 f_equal. destruct (pe_params pe) as [|v r]; [reflexivity|]. f_equal.
    fold sl. rewrite (commas_between sl qa qb a b).
    + rewrite Hkinds, Hc1. reflexivity.
    + unfold sl. now apply toks_sorted_firstn, toks_sorted_skipn.
    + rewrite Hnth by lia. exact Ha.
    + rewrite Hnth by lia. exact Hb.
    + exact Hlt.
    + exact Hane.
    + exact H1.
    + exact H2.
    + rewrite Hkinds, Hc1, Hc2. reflexivity.
  - destruct (sorted_le toks k (k + qa) _ _ Hs ltac:(lia) Hf Ha) as [Hx _]. lia.
  - destruct (sorted_le toks (k + qb) (k + len (fl_call c) - 1) _ _ Hs ltac:(lia) Hb Hla) as [Hx _]. lia.
Qed.
