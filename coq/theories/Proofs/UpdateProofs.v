(* C01, the layers below the table: along every history the text and the token stream of the
   incrementally updated document are those of a fresh analysis of the final text (from C07);
   the tree layer is refuted by a concrete edit. *)
From Spl Require Import Model.Update Spec.LexUpdateSpec Proofs.LexUpdateProofs Judge.DumpAst.

Definition TokInv (doc : pdoc) : Prop := lex (p_text doc) = Some (p_toks doc).

Lemma pnew_inv t doc : pnew t = Done doc -> p_text doc = t /\ TokInv doc.
Proof.
  unfold pnew, TokInv. destruct (lex t) as [toks|] eqn:E; [|discriminate].
  destruct (parse toks); try discriminate. intros [= <-]. cbn. auto.
Qed.

Lemma pstep_inv doc a d b ins doc' :
  p_text doc = a ++ d ++ b -> TokInv doc -> pstep doc a d b ins = Done doc' ->
  p_text doc' = a ++ ins ++ b /\ TokInv doc'.
Proof.
  unfold TokInv, pstep. intros Ht Hl.
  rewrite Ht in Hl.
  destruct (lex_update_correct a d b ins (p_toks doc) Hl) as (tn & ds & de & n & Hn & Hu & _).
  rewrite Hu. destruct (parse_update _ _ _ _ _); try discriminate.
  intros [= <-]. cbn. auto.
Qed.

(* the step never fails in the lexer: the only possible failures are in the incremental parser *)
Lemma pstep_lexer_total doc a d b ins :
  p_text doc = a ++ d ++ b -> TokInv doc ->
  exists toks ws we n,
    lex_update (a ++ ins ++ b) (p_toks doc) (blen a) (blen a + blen d) ins = UDone toks ws we n /\
    lex (a ++ ins ++ b) = Some toks.
Proof.
  unfold TokInv. intros Ht Hl. rewrite Ht in Hl.
  destruct (lex_update_correct a d b ins (p_toks doc) Hl) as (tn & ds & de & n & Hn & Hu & _).
  exists tn, ds, de, n. auto.
Qed.

Theorem hist_text_tokens : forall h doc doc',
  valid_hist (p_text doc) h -> TokInv doc -> phist doc h = Done doc' ->
  p_text doc' = final_text (p_text doc) h /\ lex (p_text doc') = Some (p_toks doc').
Proof.
  induction h as [|c h IH]; intros doc doc' Hv Hi H.
  - cbn in H. injection H as <-. cbn. auto.
  - cbn in H, Hv. destruct Hv as [Ht Hv].
    destruct (pstep doc (c_a c) (c_d c) (c_b c) (c_ins c)) as [d1| |] eqn:E; try discriminate.
    destruct (pstep_inv _ _ _ _ _ _ Ht Hi E) as [Ht1 Hi1].
    rewrite <- Ht1 in Hv. destruct (IH d1 doc' Hv Hi1 H) as [A B].
    split; [|exact B]. rewrite A. cbn [final_text]. rewrite Ht1. reflexivity.
Qed.

Corollary hist_from_new : forall t h doc0 doc',
  pnew t = Done doc0 -> valid_hist t h -> phist doc0 h = Done doc' ->
  p_text doc' = final_text t h /\ lex (final_text t h) = Some (p_toks doc').
Proof.
  intros t h doc0 doc' Hn Hv H. destruct (pnew_inv _ _ Hn) as [Ht Hi].
  rewrite <- Ht in Hv. destruct (hist_text_tokens h doc0 doc' Hv Hi H) as [A B].
  rewrite Ht in A. rewrite <- A. auto.
Qed.

(* the tree layer: under the hypothesis that the incremental parser agrees with a parse from
   scratch at every step, the whole document is the freshly analysed one *)
Definition TreeAgrees (doc : pdoc) : Prop := parse (p_toks doc) = Done (p_tree doc).

Theorem hist_partial : forall t h doc0 doc',
  pnew t = Done doc0 -> valid_hist t h -> phist doc0 h = Done doc' ->
  TreeAgrees doc' -> pnew (final_text t h) = Done doc'.
Proof.
  intros t h doc0 doc' Hn Hv H Ha.
  destruct (hist_from_new t h doc0 doc' Hn Hv H) as [A B].
  unfold pnew. rewrite B. unfold TreeAgrees in Ha. rewrite Ha.
  destruct doc' as [tx tk tr]; cbn in *. subst tx. reflexivity.
Qed.

(* ... and that hypothesis is false of the pinned algorithm: inserting `;` between `proc` and the
   name of `proc m(){a:=1;}` *)
Definition w_a : text := [112; 114; 111; 99; 32].                       (* "proc " *)
Definition w_b : text := [109; 40; 41; 123; 97; 58; 61; 49; 59; 125].   (* "m(){a:=1;}" *)
Definition w_ins : text := [59].                                        (* ";" *)


Definition enc_outcome (o : outcome program) : list N :=
  match o with Done p => 0 :: enc_program p | Panic => [1] | OutOfFuel => [2] end.

Definition refute_check : bool :=
  match pnew (w_a ++ [] ++ w_b) with
  | Done d0 =>
      match pstep d0 w_a [] w_b w_ins with
      | Done d1 => negb (nlist_eqb (enc_outcome (parse (p_toks d1))) (enc_outcome (Done (p_tree d1))))
      | _ => false
      end
  | _ => false
  end.

Lemma refute_check_true : refute_check = true.
Proof. vm_compute. reflexivity. Qed.

Lemma nlist_eqb_refl l : nlist_eqb l l = true.
Proof. induction l as [|x l IH]; cbn; [reflexivity|]. rewrite N.eqb_refl. exact IH. Qed.

Theorem tree_refuted :
  exists doc0 doc',
    pnew (w_a ++ [] ++ w_b) = Done doc0 /\
    pstep doc0 w_a [] w_b w_ins = Done doc' /\
    parse (p_toks doc') <> Done (p_tree doc').
Proof.
  pose proof refute_check_true as H. unfold refute_check in H.
  destruct (pnew (w_a ++ [] ++ w_b)) as [d0| |]; try discriminate.
  destruct (pstep d0 w_a [] w_b w_ins) as [d1| |] eqn:E1; try discriminate.
  exists d0, d1. split; [reflexivity|]. split; [exact E1|].
  intros E. rewrite E, nlist_eqb_refl in H. discriminate.
Qed.

Definition C01_full_statement' : Prop :=
  forall t h doc0 doc',
    pnew t = Done doc0 -> valid_hist t h -> phist doc0 h = Done doc' ->
    pnew (final_text t h) = Done doc'.

(* stated with abstract texts so that no closed term is ever reduced by the kernel's lazy machine *)
Lemma refute_general a d b ins d0 d1 :
  pnew (a ++ d ++ b) = Done d0 -> pstep d0 a d b ins = Done d1 ->
  parse (p_toks d1) <> Done (p_tree d1) -> ~ C01_full_statement'.
Proof.
  intros H0 H1 Hne F.
  set (h := [ {| c_a := a; c_d := d; c_b := b; c_ins := ins |} ]).
  assert (Hv : valid_hist (a ++ d ++ b) h) by (cbn [valid_hist h c_a c_d c_b]; auto).
  assert (Hp : phist d0 h = Done d1) by (cbn [phist h c_a c_d c_b c_ins]; rewrite H1; reflexivity).
  specialize (F (a ++ d ++ b) h d0 d1 H0 Hv Hp).
  destruct (hist_from_new _ _ _ _ H0 Hv Hp) as [_ B].
  cbn [final_text h c_a c_b c_ins] in F, B.
  unfold pnew in F. rewrite B in F.
  destruct (parse (p_toks d1)) as [p| |] eqn:E; [| discriminate F | discriminate F].
  injection F as F. apply Hne. rewrite <- F. reflexivity.
Qed.

Theorem full_statement_refuted : ~ C01_full_statement'.
Proof.
  destruct tree_refuted as (d0 & d1 & H0 & H1 & Hne).
  exact (refute_general w_a [] w_b w_ins d0 d1 H0 H1 Hne).
Qed.
