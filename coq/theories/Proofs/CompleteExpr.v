(* COMPLETENESS of the parser, expressions: a successful run of an expression parser that attaches no
   error (the buffer does not grow, the returned tree carries no error) consumed the tokens of an
   abstract expression of its precedence level and returned the tree the grammar mandates for it. *)
From Coq Require Import Arith Lia List Bool.
From Spl Require Import Spec.Grammar Model.Parser Model.Errors Proofs.ParserComb Proofs.GrammarBase
  Proofs.GrammarExpr Proofs.CompleteBase.
Import ListNotations.
Local Open Scope nat_scope.

(* result = the expected tree of some abstract a, consumed = its tokens *)
Definition IQ {R A} (x : nat -> A -> R) (fl : A -> list kind) : nat -> nat -> R -> list kind -> Prop :=
  fun k r res l => exists a, res = x (k - r) a /\ l = fl a.
Definition NoErr {R} (errs : R -> list err) : R -> Prop := fun r => errs r = [].

Lemma app_nil_inv {A} (l1 l2 : list A) : l1 ++ l2 = [] -> l1 = [] /\ l2 = [].
Proof. apply app_eq_nil. Qed.

Section Expr.
Variable toks : list token.
Hypothesis HL : LitOk toks.
Notation Spec := (Spec toks).
Notation Seg := (Seg toks).

Definition VarInv f := Spec (p_variable toks f) (NoErr var_errors) (IQ x_var fl_var).
Definition PriInv f := Spec (p_primary toks f) (NoErr expr_errors) (IQ x_fac fl_fac).
Definition FacInv f := Spec (p_factor toks f) (NoErr expr_errors) (IQ x_fac fl_fac).
Definition MulInv f := Spec (p_mul toks f) (NoErr expr_errors) (IQ x_mul fl_mul).
Definition AddInv f := Spec (p_add toks f) (NoErr expr_errors) (IQ x_add fl_add).
Definition CmpInv f := Spec (p_comparison toks f) (NoErr expr_errors) (IQ x_cmp fl_cmp).

(* ---- infos of pure token parsers ---- *)
Lemma Spec_info_tag f :
  Spec (p_info (p_tag toks f)) CTrue
    (fun k r ti l => snd ti = mkinfo (k - r) (k + len l - r) /\ exists c, l = cm c ++ [tk (fst ti)] /\ f (tk (fst ti)) = true).
Proof.
  eapply Spec_conseq; [apply (Spec_info_pure toks _ _ _ (Spec_tag toks f))| |].
  - intros s s' t H. now apply tag_inv in H.
  - intros a _. exact I.
  - intros k r a l _ _ H. exact H.
Qed.

Lemma Spec_info_named :
  Spec (p_info (p_map NamedVar (p_ident toks))) CTrue
    (fun k r vi l => exists c x, vi = (NamedVar (x_ident (k - r) c x), mkinfo (k - r) (k - r + len c + 1)) /\ l = cm c ++ [Ident x]).
Proof.
  eapply Spec_conseq; [apply (Spec_info_pure toks (p_map NamedVar (p_ident toks)) CTrue
      (fun k r v l => exists c x, v = NamedVar (x_ident (k - r) c x) /\ l = cm c ++ [Ident x]))| |].
  - eapply Spec_map; [apply Spec_ident | intros a _; exact I |].
    intros k r a l _ _ (c & x & -> & ->). eauto.
  - intros s s' v H. apply p_map_ok in H as (i & H & _). unfold p_ident in H.
    apply p_map_ok in H as (ti & H & _). apply p_info_ok in H as (s1 & _ & -> & _). reflexivity.
  - intros a _. exact I.
  - intros k r [v inf] l Hr _ [Hi (c & x & Hv & ->)]. cbn [fst snd] in *. subst. exists c, x. split; [|reflexivity].
    f_equal. f_equal. lens. lia.
Qed.

(* ---- one array access ---- *)
Definition acc_C (a : acc_item) : Prop := i_errs (snd a) = [] /\ opt_expr_errors (fst (fst a)) = [].
Definition acc_Q (k r : nat) (a : acc_item) (l : list kind) : Prop :=
  exists c1 e c2, acc_proj a = (Some (x_cmp 0 e, k - r + len c1 + 1), mkinfo (k - r) (k - r + len l))
                  /\ l = cm c1 ++ LBracket :: fl_cmp e ++ cm c2 ++ [RBracket].

Lemma acc_spec f : CmpInv f -> Spec (acc_p toks f) acc_C acc_Q.
Proof.
  intros IH. unfold acc_p. eapply Spec_conseq.
  - apply Spec_info. eapply Spec_preceded; [apply Spec_tag| | | |intros; exact I].
    + apply Spec_pair; [apply Spec_expect; [apply Spec_ref, IH|] | apply Spec_expect; [apply Spec_tag|] | |]; grow_solve.
    + grow_solve.
    + grow_solve.
  - intros [[oe ot] inf] [H1 H2]. cbn [fst snd] in *. split; [exact H1|]. split.
    + intros [e off] ->. cbn in H2. apply shift_es_nil in H2. exact H2.
    + intros t _. exact I.
  - intros k r [[oe ot] inf] l Hr _ (Hinf & t1 & l1 & l2 & -> & (c1 & -> & Hk1) & l3 & l4 & -> &
      ([e off] & He & Hoff & abs & Hx & ->) & (t2 & Ht2 & c2 & -> & Hk2)).
    cbn [fst snd] in *. subst. apply is_k_eq in Hk1, Hk2. rewrite Hk1, Hk2. rewrite Nat.sub_diag.
    exists c1, abs, c2. unfold acc_proj. cbn [fst snd]. split.
    + f_equal; [f_equal; f_equal; lens; lia | unfold mkinfo; f_equal; lia].
    + now rewrite <- !app_assoc.
Qed.

(* ---- variables ---- *)
Definition var_fold (r : (variable * info) * list acc_item) : variable :=
  let '((v0, vinfo), accesses) := r in
  fold_left (fun v a => ArrAccess v (fst (fst a)) (extend_range (snd a) vinfo)) accesses v0.

Lemma fold_errs vinfo (accs : list acc_item) w :
  var_errors (fold_left (fun v a => ArrAccess v (fst (fst a)) (extend_range (snd a) vinfo)) accs w) = [] ->
  var_errors w = [] /\ Forall acc_C accs.
Proof.
  revert w. induction accs as [|a accs IH]; intros w H; cbn [fold_left] in H; [split; [exact H | constructor]|].
  apply IH in H as [H Hf]. cbn [var_errors extend_range i_errs] in H.
  apply app_nil_inv in H as [H1 H]. apply app_nil_inv in H as [H2 H3].
  split; [exact H2|]. constructor; [|exact Hf]. split; [exact H1|].
  unfold opt_expr_errors. destruct (fst (fst a)) as [[e off]|]; [exact H3 | reflexivity].
Qed.

Lemma accs_many k r (accs : list acc_item) k1 l2 :
  Many acc_Q k1 r accs l2 -> r <= k ->
  forall v, k1 = k + len (fl_var v) ->
  exists v', x_accs (k - r) v ++ map acc_proj accs = x_accs (k - r) v' /\ var_c v' = var_c v /\ var_x v' = var_x v
             /\ fl_var v ++ l2 = fl_var v'.
Proof.
  intros HM Hr. induction HM as [k1 r|k1 r a la l1 l2 (c1 & e & c2 & Ha & Hl) _ IH]; intros v Hk.
  - exists v. cbn [map]. now rewrite !app_nil_r.
  - destruct (IH Hr (AIndex v c1 e c2)) as (v' & H1 & H2 & H3 & H4).
    { subst l1. lens. lia. }
    exists v'. cbn [var_c var_x] in *. repeat split; [|exact H2|exact H3|].
    + rewrite <- H1. cbn [x_accs map]. rewrite <- app_assoc. cbn [app]. do 2 f_equal. rewrite Ha. subst l1 k1.
      f_equal; [f_equal; f_equal; lia | unfold mkinfo; f_equal; lens; lia].
    + rewrite <- H4. cbn [fl_var]. subst l1. now rewrite <- !app_assoc.
Qed.

Lemma var_step f : CmpInv f -> VarInv (S f).
Proof.
  intros IH. unfold VarInv.
  apply Spec_ext with (p := p_map var_fold (p_pair (p_info (p_map NamedVar (p_ident toks))) (p_many0 f (acc_p toks f)))).
  { intros s. rewrite p_variable_S. unfold p_map.
    destruct (p_pair _ _ s) as [s1 [[v0 vi] acc]| |]; reflexivity. }
  eapply Spec_map.
  - apply Spec_pair; [apply Spec_info_named | apply Spec_many0; [apply acc_spec, IH|] | |]; unfold acc_p; grow_solve.
  - intros [[v0 vi] accs] H. unfold NoErr, var_fold in H. apply fold_errs in H as [_ H]. cbn [fst snd]. split; [exact I | exact H].
  - intros k r [[v0 vi] accs] l Hr _ (l1 & l2 & -> & (c & x & Hv & ->) & HM). cbn [fst snd] in *.
    injection Hv as -> ->.
    destruct (accs_many k r accs _ _ HM Hr (AName c x)) as (v' & H1 & H2 & H3 & H4).
    { cbn [fl_var]. reflexivity. }
    cbn [x_accs app var_c var_x fl_var] in *. exists v'. split; [|exact H4].
    unfold var_fold. rewrite fold_proj, H1, <- H2, <- H3.
    apply fold_accs.
Qed.

(* ---- primaries and factors ---- *)
Definition brack_fold (r : ((token * info) * (option expr * option token)) * info) : expr :=
  let '(((_, lp_info), (e, _)), inf) := r in
  let ep := i_e lp_info in
  EBrack (match e with Some x => x | None => EErr (mkinfo ep ep) end) inf.

Lemma brack_spec f : CmpInv f -> Spec (bracketed_p toks f) (NoErr expr_errors) (IQ x_fac fl_fac).
Proof.
  intros IH.
  apply Spec_ext with (p := p_map brack_fold
    (p_info (p_pair (p_info (p_tag toks (is_k LParen)))
       (p_pair (p_expect (p_comparison toks f) (ExpectedToken s_expression))
               (p_expect (p_tag toks (is_k RParen)) (MissingClosing 41%N)))))).
  { intros s. unfold bracketed_p, p_map.
    destruct (p_info _ s) as [s1 [[[t lp] [e t2]] inf]| |]; reflexivity. }
  eapply Spec_map.
  - apply Spec_info. apply Spec_pair; [apply Spec_info_tag| | |].
    + apply Spec_pair; [apply Spec_expect; [exact IH|] | apply Spec_expect; [apply Spec_tag|] | |]; grow_solve.
    + grow_solve.
    + grow_solve.
  - intros [[[t lp] [e t2]] inf] H. unfold NoErr, brack_fold in H. cbn [expr_errors] in H.
    apply app_nil_inv in H as [H1 H2]. cbn [fst snd]. split; [exact H1|]. split; [exact I|]. split.
    + intros x ->. exact H2.
    + intros x _. exact I.
  - intros k r [[[t lp] [e t2]] inf] l Hr _ (Hinf & l1 & l2 & -> & (Hlp & c1 & -> & Hk1) & l3 & l4 & -> &
      (x & He & abs & Hx & ->) & (t3 & Ht3 & c2 & -> & Hk2)).
    cbn [fst snd] in *. subst. apply is_k_eq in Hk1, Hk2. rewrite Hk1, Hk2.
    exists (FPar c1 abs c2). unfold brack_fold. cbn [x_fac fl_fac]. split.
    + f_equal; [f_equal; lens; lia | unfold mkinfo; f_equal; lens; lia].
    + now rewrite <- !app_assoc.
Qed.

Lemma pri_step f : VarInv f -> CmpInv f -> PriInv (S f).
Proof.
  intros IHv IHc. unfold PriInv.
  apply Spec_ext with (p := p_alt (p_map EInt (p_intlit toks)) (p_alt (p_map EVar (p_variable toks f)) (bracketed_p toks f))).
  { intros s. now rewrite p_primary_S. }
  apply Spec_alt; [|apply Spec_alt; [|apply brack_spec, IHc]].
  - eapply Spec_map; [apply (Spec_intlit toks HL) | intros a _; exact I|].
    intros k r a l _ _ (c & v & -> & ->). exists (FLit c v). split; reflexivity.
  - eapply Spec_map; [exact IHv | intros a H; exact H|].
    intros k r a l _ _ (v & -> & ->). exists (FVar v). split; reflexivity.
Qed.

Lemma fac_step f : PriInv f -> FacInv f -> FacInv (S f).
Proof.
  intros IHp IHf. unfold FacInv.
  apply Spec_ext with (p := p_alt (p_primary toks f)
    (p_map (fun ei => EUn OSub (fst ei) (snd ei)) (p_info (p_preceded (p_tag toks (is_k Minus)) (p_factor toks f))))).
  { intros s. now rewrite p_factor_S. }
  apply Spec_alt; [exact IHp|]. eapply Spec_map.
  - apply Spec_info. eapply Spec_preceded; [apply Spec_tag | exact IHf | | | intros; exact I]; grow_solve.
  - intros [e inf] H. unfold NoErr in H. cbn [expr_errors fst snd] in H. apply app_nil_inv in H as [H1 H2].
    cbn [fst snd]. split; assumption.
  - intros k r [e inf] l Hr _ (Hinf & t & l1 & l2 & -> & (c & -> & Hk) & (a & Ha & ->)).
    cbn [fst snd] in *. subst. apply is_k_eq in Hk. rewrite Hk.
    exists (FNeg c a). cbn [x_fac fl_fac]. split.
    + f_equal; [f_equal; lens; lia | unfold mkinfo; f_equal; lens; lia].
    + now rewrite <- !app_assoc.
Qed.

(* ---- the right operand of a binary operator ---- *)
Lemma rhs_inv p lhs op s s' r :
  p_rhs p lhs op s = POk s' r -> Grow p -> eb s' <= eb s ->
  exists e, p s = POk s' e /\ r = EBin op lhs e (mkinfo (i_s (expr_info lhs)) (pos s' - refp s')).
Proof.
  unfold p_rhs. intros H Gp Hb. apply bind_ok in H as (s1 & o & H & [= <- <-]).
  destruct (expect_inv _ _ _ _ _ H Gp Hb) as (e & -> & He). eauto.
Qed.

(* ---- the left-associative chains, generically ---- *)
Section Loop.
Variables (M F OP : Type).
Variable loop : nat -> st -> expr -> pres expr.
Variable operand : nat -> parser expr.
Variable isop : kind -> bool.
Hypothesis loop_S : forall f s lhs, loop (S f) s lhs =
  match p_tag toks isop s with
  | POk s1 op => bind (p_rhs (operand f) lhs (op_of (tk op)) s1) (fun s2 e => loop f s2 e)
  | PErr _ => POk s lhs
  | PFuel => PFuel
  end.
Hypothesis loop_0 : forall s lhs, loop 0 s lhs = PFuel.
Hypothesis Grow_loop : forall f e, Grow (fun s => loop f s e).
Hypothesis Grow_operand : forall f, Grow (operand f).
Variables (xM : nat -> M -> expr) (flM : M -> list kind) (xF : nat -> F -> expr) (flF : F -> list kind).
Variables (inj : F -> M) (bin : M -> cs -> OP -> F -> M) (kop : OP -> kind) (oop : OP -> operator).
Hypothesis isop_inv : forall k, isop k = true -> exists op, k = kop op /\ op_of k = oop op.
Hypothesis x_inj : forall o a, xM o (inj a) = xF o a.
Hypothesis fl_inj : forall a, flM (inj a) = flF a.
Hypothesis x_bin : forall o m c op f,
  xM o (bin m c op f) = EBin (oop op) (xM o m) (xF (o + len (flM m) + len c + 1) f) (mkinfo o (o + len (flM (bin m c op f)))).
Hypothesis fl_bin : forall m c op f, flM (bin m c op f) = flM m ++ cm c ++ kop op :: flF f.
Hypothesis start : forall o m, i_s (expr_info (xM o m)) = o.

Definition LoopInv f := forall s s' lhs res k0 r0 m,
  loop f s lhs = POk s' res -> lhs = xM (k0 - r0) m -> Seg k0 (flM m) -> pos s = k0 + len (flM m) -> refp s = r0 ->
  r0 <= k0 -> eb s' <= eb s -> expr_errors res = [] ->
  exists m', res = xM (k0 - r0) m' /\ Seg k0 (flM m') /\ pos s' = k0 + len (flM m') /\ refp s' = r0.

Lemma loop_errs f : forall s lhs s' res, loop f s lhs = POk s' res -> eb s' <= eb s -> expr_errors res = [] -> expr_errors lhs = [].
Proof.
  induction f as [|f IH]; intros s lhs s' res H Hb He; [now rewrite loop_0 in H|].
  rewrite loop_S in H. destruct (p_tag toks isop s) as [s1 op|e|] eqn:Et; [| |discriminate].
  - apply bind_ok in H as (s2 & e2 & H1 & H2).
    pose proof (Grow_ok _ _ _ _ (Grow_tag toks isop) Et) as G0.
    pose proof (Grow_ok _ _ _ _ (Grow_rhs _ lhs (op_of (tk op)) (Grow_operand f)) H1) as G1.
    pose proof (Grow_ok _ _ _ _ (Grow_loop f e2) H2) as G2.
    apply rhs_inv in H1 as (e & _ & ->); [|apply Grow_operand|lia].
    apply IH in H2; [|lia|exact He]. cbn [expr_errors] in H2. apply app_nil_inv in H2 as [_ H2].
    apply app_nil_inv in H2 as [H2 _]. exact H2.
  - injection H as <- <-. exact He.
Qed.

Lemma loop_step f : Spec (operand f) (NoErr expr_errors) (IQ xF flF) -> LoopInv f -> LoopInv (S f).
Proof.
  intros Hop IH s s' lhs res k0 r0 m H Hl Hseg Hpos Hrefp Hr Hb He.
  rewrite loop_S in H. destruct (p_tag toks isop s) as [s1 op|e|] eqn:Et; [| |discriminate].
  - apply bind_ok in H as (s2 & e2 & H1 & H2).
    pose proof (Grow_ok _ _ _ _ (Grow_rhs _ lhs (op_of (tk op)) (Grow_operand f)) H1) as G1.
    pose proof (Grow_ok _ _ _ _ (Grow_loop f e2) H2) as G2.
    apply tag_inv in Et as (Hk & S1 & P1 & R1 & B1). assert (G0 : eb s1 = eb s) by (unfold eb; now rewrite B1).
    pose proof (loop_errs _ _ _ _ _ H2 ltac:(lia) He) as He2.
    apply rhs_inv in H1 as (e & H1 & ->); [|apply Grow_operand|lia].
    cbn [expr_errors] in He2. apply app_nil_inv in He2 as [_ He2]. apply app_nil_inv in He2 as [_ He2].
    destruct (Hop _ _ _ H1 ltac:(lia) ltac:(lia) He2) as (l & S2 & P2 & R2 & a & -> & ->).
    destruct (isop_inv _ Hk) as (o & Hko & Hoo). rewrite Hko in S1. rewrite Hoo in H2.
    apply (IH _ _ _ _ k0 r0 (bin m (comments_at toks (pos s)) o a) H2).
    + rewrite x_bin, Hl, start. f_equal; [f_equal; lia|]. unfold mkinfo. f_equal. rewrite fl_bin. lens. lia.
    + rewrite fl_bin. apply Seg_app; [exact Hseg|]. rewrite <- Hpos.
      replace (cm (comments_at toks (pos s)) ++ kop o :: flF a) with ((cm (comments_at toks (pos s)) ++ [kop o]) ++ flF a)
        by now rewrite <- app_assoc.
      apply Seg_app; [exact S1|]. eapply Seg_at; [|exact S2]. lens. lia.
    + rewrite fl_bin. lens. lia.
    + congruence.
    + exact Hr.
    + lia.
    + exact He.
  - injection H as <- <-. exists m. auto.
Qed.

Lemma chain_step f :
  Spec (operand f) (NoErr expr_errors) (IQ xF flF) -> LoopInv f ->
  Spec (fun s => bind (operand f s) (fun s1 e => loop f s1 e)) (NoErr expr_errors) (IQ xM flM).
Proof.
  intros Hop IH s s' res H Hr Hb He. apply bind_ok in H as (s1 & e & H1 & H2).
  pose proof (Grow_ok _ _ _ _ (Grow_operand f) H1) as G1.
  pose proof (Grow_ok _ _ _ _ (Grow_loop f e) H2) as G2.
  pose proof (loop_errs _ _ _ _ _ H2 ltac:(lia) He) as He1.
  destruct (Hop _ _ _ H1 Hr ltac:(lia) He1) as (l & S1 & P1 & R1 & a & -> & ->).
  destruct (IH _ _ _ _ (pos s) (refp s) (inj a) H2) as (m' & -> & S2 & P2 & R2);
    rewrite ?x_inj, ?fl_inj; auto; try lia.
  exists (flM m'). repeat split; auto. exists m'. auto.
Qed.

Lemma loop_inv_0 : LoopInv 0.
Proof. intros s s' lhs res k0 r0 m H. now rewrite loop_0 in H. Qed.
End Loop.

Lemma mulop_inv k : is_mulop k = true -> exists op, k = k_mul op /\ op_of k = o_mul op.
Proof. destruct k; try discriminate; intros _; [exists MTimes | exists MDivide]; split; reflexivity. Qed.
Lemma addop_inv k : is_addop k = true -> exists op, k = k_add op /\ op_of k = o_add op.
Proof. destruct k; try discriminate; intros _; [exists APlus | exists AMinus]; split; reflexivity. Qed.
Lemma cmpop_inv k : is_cmpop k = true -> exists op, k = k_cmp op /\ op_of k = o_cmp op.
Proof.
  destruct k; try discriminate; intros _;
    [exists CEq | exists CNe | exists CLt | exists CLe | exists CGt | exists CGe]; split; reflexivity.
Qed.

Definition MulLoopInv := LoopInv amul (mul_loop toks) x_mul fl_mul.
Definition AddLoopInv := LoopInv aadd (add_loop toks) x_add fl_add.

Lemma mul_loop_step f : FacInv f -> MulLoopInv f -> MulLoopInv (S f).
Proof.
  apply (loop_step amul afac mulop (mul_loop toks) (p_factor toks) is_mulop (mul_loop_S toks) (fun s lhs => eq_refl)
           (Grow_mul_loop toks) (Grow_factor toks) x_mul fl_mul x_fac fl_fac MBin k_mul o_mul mulop_inv
           (fun o m c op f => eq_refl) (fun m c op f => eq_refl) start_mul).
Qed.
Lemma mul_step f : FacInv f -> MulLoopInv f -> MulInv (S f).
Proof.
  intros H1 H2. unfold MulInv. eapply Spec_ext; [intros s; symmetry; apply (p_mul_S toks)|].
  apply (chain_step amul afac (mul_loop toks) (p_factor toks) is_mulop (mul_loop_S toks) (fun s lhs => eq_refl)
           (Grow_mul_loop toks) (Grow_factor toks) x_mul fl_mul x_fac fl_fac MFac
           (fun o a => eq_refl) (fun a => eq_refl) f H1 H2).
Qed.
Lemma add_loop_step f : MulInv f -> AddLoopInv f -> AddLoopInv (S f).
Proof.
  apply (loop_step aadd amul addop (add_loop toks) (p_mul toks) is_addop (add_loop_S toks) (fun s lhs => eq_refl)
           (Grow_add_loop toks) (Grow_mul toks) x_add fl_add x_mul fl_mul ABin k_add o_add addop_inv
           (fun o m c op f => eq_refl) (fun m c op f => eq_refl) start_add).
Qed.
Lemma add_step f : MulInv f -> AddLoopInv f -> AddInv (S f).
Proof.
  intros H1 H2. unfold AddInv. eapply Spec_ext; [intros s; symmetry; apply (p_add_S toks)|].
  apply (chain_step aadd amul (add_loop toks) (p_mul toks) is_addop (add_loop_S toks) (fun s lhs => eq_refl)
           (Grow_add_loop toks) (Grow_mul toks) x_add fl_add x_mul fl_mul AMul
           (fun o a => eq_refl) (fun a => eq_refl) f H1 H2).
Qed.

(* ---- the single comparison ---- *)
Lemma cmp_step f : AddInv f -> CmpInv (S f).
Proof.
  intros IH s s' res H Hr Hb He. rewrite p_comparison_S in H. apply bind_ok in H as (s1 & e & H1 & H2).
  pose proof (Grow_ok _ _ _ _ (Grow_add toks f) H1) as G1. unfold NoErr in He.
  destruct (p_tag toks is_cmpop s1) as [s2 op|er|] eqn:Et; [| |discriminate].
  - pose proof (Grow_ok _ _ _ _ (Grow_rhs _ e (op_of (tk op)) (Grow_add toks f)) H2) as G2.
    apply tag_inv in Et as (Hk & S1 & P1 & R1 & B1). assert (G0 : eb s2 = eb s1) by (unfold eb; now rewrite B1).
    apply rhs_inv in H2 as (e2 & H2 & ->); [|apply Grow_add|lia].
    cbn [expr_errors] in He. apply app_nil_inv in He as [_ He]. apply app_nil_inv in He as [He1 He2].
    destruct (IH _ _ _ H1 Hr ltac:(lia) He1) as (l1 & Sa & Pa & Ra & a1 & -> & ->).
    destruct (IH _ _ _ H2 ltac:(lia) ltac:(lia) He2) as (l2 & Sb & Pb & Rb & a2 & -> & ->).
    destruct (cmpop_inv _ Hk) as (o & Hko & Hoo). rewrite Hko in S1. rewrite Hoo.
    exists (fl_cmp (CBin a1 (comments_at toks (pos s1)) o a2)). cbn [fl_cmp]. repeat split.
    + apply Seg_app; [exact Sa|]. rewrite <- Pa.
      replace (cm (comments_at toks (pos s1)) ++ k_cmp o :: fl_add a2)
        with ((cm (comments_at toks (pos s1)) ++ [k_cmp o]) ++ fl_add a2) by now rewrite <- app_assoc.
      apply Seg_app; [exact S1|]. eapply Seg_at; [|exact Sb]. lens. lia.
    + lens. lia.
    + congruence.
    + exists (CBin a1 (comments_at toks (pos s1)) o a2). split; [|reflexivity]. cbn [x_cmp]. rewrite start_add.
      f_equal; [f_equal; lia|]. unfold mkinfo. f_equal. lens. lia.
  - injection H2 as <- <-. destruct (IH _ _ _ H1 Hr Hb He) as (l1 & Sa & Pa & Ra & a1 & -> & ->).
    exists (fl_add a1). repeat split; auto. exists (CAdd a1). split; reflexivity.
Qed.

Theorem expr_inv f :
  VarInv f /\ PriInv f /\ FacInv f /\ MulLoopInv f /\ MulInv f /\ AddLoopInv f /\ AddInv f /\ CmpInv f.
Proof.
  induction f as [|f (IHvar & IHpri & IHfac & IHml & IHmul & IHal & IHadd & IHcmp)].
  - repeat split; try (intros s s' a H; discriminate H); apply loop_inv_0; reflexivity.
  - repeat split.
    + apply var_step, IHcmp.
    + apply pri_step; assumption.
    + apply fac_step; assumption.
    + apply mul_loop_step; assumption.
    + apply mul_step; assumption.
    + apply add_loop_step; assumption.
    + apply add_step; assumption.
    + apply cmp_step; assumption.
Qed.

Lemma var_inv f : VarInv f. Proof. apply expr_inv. Qed.
Lemma cmp_inv f : CmpInv f. Proof. apply expr_inv. Qed.
Lemma expr_inv_top f : Spec (p_expr toks f) (NoErr expr_errors) (IQ x_cmp fl_cmp).
Proof. apply cmp_inv. Qed.
End Expr.
