(* C07: the incremental lexer agrees with lexing from scratch and reports a truthful window. *)
From Coq Require Import Arith.
From Spl Require Import Spec.LexUpdateSpec Spec.LexSpec Proofs.LexerProofs Proofs.LexLocality Proofs.LexRun.

(* ---- list helpers ---- *)

Lemma split_last_snoc {A} (l : list A) x : split_last (l ++ [x]) = Some (l, x).
Proof. unfold split_last. rewrite rev_app_distr. cbn [rev app]. now rewrite rev_involutive. Qed.

Lemma map_opt_app_inv {A B} (f : A -> option B) l1 l2 r :
  map_opt f (l1 ++ l2) = Some r ->
  exists r1 r2, r = r1 ++ r2 /\ map_opt f l1 = Some r1 /\ map_opt f l2 = Some r2.
Proof.
  revert r; induction l1 as [|x l1 IH]; intros r; cbn [app map_opt].
  - intros H. exists [], r. auto.
  - destruct (f x) as [y|]; [|discriminate].
    destruct (map_opt f (l1 ++ l2)) as [r'|] eqn:E; [|discriminate]. intros [= <-].
    destruct (IH r' eq_refl) as [r1 [r2 [-> [H1 H2]]]]. exists (y :: r1), r2. rewrite H1. auto.
Qed.

Lemma map_opt_cons_inv {A B} (f : A -> option B) x l r :
  map_opt f (x :: l) = Some r -> exists y r', r = y :: r' /\ f x = Some y /\ map_opt f l = Some r'.
Proof.
  cbn [map_opt]. destruct (f x) as [y|]; [|discriminate]. destruct (map_opt f l) as [r'|]; [|discriminate].
  intros [= <-]. eauto.
Qed.

Lemma map_opt_length {A B} (f : A -> option B) l r : map_opt f l = Some r -> length r = length l.
Proof.
  revert r; induction l as [|x l IH]; intros r; cbn [map_opt].
  - intros [= <-]. reflexivity.
  - destruct (f x); [|discriminate]. destruct (map_opt f l) as [r'|]; [|discriminate].
    intros [= <-]. cbn [length]. now rewrite (IH r' eq_refl).
Qed.

Lemma map_opt_in_inv {A B} (f : A -> option B) l r y :
  map_opt f l = Some r -> In y r -> exists x, In x l /\ f x = Some y.
Proof.
  revert r; induction l as [|x l IH]; intros r; cbn [map_opt].
  - intros [= <-] [].
  - destruct (f x) as [y'|] eqn:Ex; [|discriminate]. destruct (map_opt f l) as [r'|]; [|discriminate].
    intros [= <-] [<-|Hin].
    + exists x. split; [now left | exact Ex].
    + destruct (IH r' eq_refl Hin) as [x' [H1 H2]]. exists x'. split; [now right | exact H2].
Qed.

Lemma filter_all_true {A} (p : A -> bool) l : Forall (fun x => p x = true) l -> filter p l = l.
Proof. induction 1 as [|x l Hx _ IH]; cbn [filter]; [reflexivity|]. now rewrite Hx, IH. Qed.

Lemma filter_all_false {A} (p : A -> bool) l : Forall (fun x => p x = false) l -> filter p l = [].
Proof. induction 1 as [|x l Hx _ IH]; cbn [filter]; [reflexivity|]. now rewrite Hx, IH. Qed.

Lemma skip_while_app_true {A} (f : A -> bool) l m :
  Forall (fun x => f x = true) l -> skip_while f (l ++ m) = skip_while f m.
Proof. induction 1 as [|x l Hx _ IH]; cbn [skip_while app]; [reflexivity|]. now rewrite Hx. Qed.

Lemma skipn_exact {A} (x y : list A) n : length x = n -> skipn n (x ++ y) = y.
Proof. intros <-. induction x; cbn [length skipn app]; auto. Qed.

Lemma firstn_exact {A} (x y : list A) n : length x = n -> firstn n (x ++ y) = x.
Proof. intros <-. induction x; cbn [length firstn app]; [reflexivity | now f_equal]. Qed.

Lemma snoc_cases {A} (l : list A) : l = [] \/ exists l' x, l = l' ++ [x].
Proof. destruct l as [|y l]; [now left|]. right. destruct (exists_last (l := y :: l)) as [l' [x H]]; [discriminate|]. eauto. Qed.

(* ---- consequences of ordering ---- *)

Lemma ordered_lb lo l : Ordered lo l -> Forall (fun t => lo <= ts t) l.
Proof.
  induction 1 as [|lo t tl H1 H2 H3 _ IH]; constructor; [exact H1|].
  eapply Forall_impl; [|exact IH]. cbn beta. intros; lia.
Qed.

Lemma ordered_before lo l1 t l2 :
  Ordered lo (l1 ++ t :: l2) -> Forall (fun r => tk r <> Eof -> ts r < ts t) l1.
Proof.
  revert lo; induction l1 as [|r l1 IH]; intros lo H; [constructor|].
  cbn [app] in H. inversion H as [|? ? ? H1 H2 H3 H4]; subst. constructor; [|eapply IH; eauto].
  intros Hk. specialize (H3 Hk). apply ordered_lb in H4. rewrite Forall_forall in H4.
  specialize (H4 t (in_elt _ _ _)). lia.
Qed.

Lemma ordered_app_r lo l1 l2 : Ordered lo (l1 ++ l2) -> exists lo', Ordered lo' l2.
Proof.
  revert lo; induction l1 as [|r l1 IH]; intros lo H; [eauto|].
  cbn [app] in H. inversion H; subst. eauto.
Qed.

Lemma ordered_split c lo l :
  Ordered lo l ->
  exists mid suf, l = mid ++ suf /\ Forall (fun t => (ts t <? c) = true) mid /\
                  Forall (fun t => (ts t <? c) = false) suf.
Proof.
  induction 1 as [lo|lo t tl H1 H2 H3 H4 IH].
  - exists [], []. auto.
  - destruct (ts t <? c) eqn:E.
    + destruct IH as [mid [suf [-> [Hm Hs]]]]. exists (t :: mid), suf. auto.
    + exists [], (t :: tl). split; [reflexivity|]. split; [constructor|]. constructor; [exact E|].
      apply ordered_lb in H4. eapply Forall_impl; [|exact H4]. cbn beta. intros x Hx.
      apply N.ltb_ge in E. apply N.ltb_ge. lia.
Qed.

Lemma look_ahead_le1 k : look_ahead k <= 1.
Proof. destruct k; cbn; lia. Qed.

Lemma gap_contra (T pg ws s_u pr s_r : text) :
  T = pg ++ ws ++ s_u -> T = pr ++ s_r -> forallb is_ws ws = true ->
  blen pg <= blen pr -> blen pr < blen pg + blen ws -> stops is_ws s_r -> s_r <> [] -> False.
Proof.
  intros H1 H2 Hw Hl1 Hl2 Hst Hne. rewrite H1 in H2.
  destruct (app_blen_split pg (ws ++ s_u) pr s_r H2 Hl1) as [z [-> Hz]]. rewrite blen_app in Hl2.
  symmetry in Hz. destruct (app_blen_split z s_r ws s_u Hz ltac:(lia)) as [z' [-> ->]].
  rewrite blen_app in Hl2. destruct z' as [|c z']; [cbn [blen] in Hl2; lia|].
  rewrite forallb_app in Hw. apply andb_true_iff in Hw as [_ Hw]. cbn [forallb] in Hw.
  apply andb_true_iff in Hw as [Hc _]. cbn [app stops] in Hst. congruence.
Qed.

(* ---- phase A: the unaffected prefix ---- *)

Section Update.
Variables a d b ins : text.

Lemma phaseA off s toks :
  Run off s toks -> forall p q, s = q ++ d ++ b -> a = p ++ q -> blen p = off ->
  exists head rest_o p' q',
    toks = head ++ rest_o /\ Forall (fun t => is_affected_by t (blen a) = false) head /\
    a = p' ++ q' /\ blen p' = last_te off head /\ Run (blen p') (q' ++ d ++ b) rest_o /\
    (forall toks_n, Run (blen p') (q' ++ ins ++ b) toks_n -> Run off (q ++ ins ++ b) (head ++ toks_n)) /\
    (match rest_o with t :: _ :: _ => is_affected_by t (blen a) = true | _ => True end).
Proof.
  induction 1 as [off ws Hw | off ws s1 k e lx rest tl Hw Hst E Hr IH]; intros p q Hs Ha Hp.
  - exists [], [eof_token (off + blen ws)], p, q. cbn [app last_te fold_left]. rewrite Hp.
    repeat split; auto. rewrite <- Hs. now apply Run_eof.
  - destruct (is_affected_by (mk_token (off + blen ws) k e lx) (blen a)) eqn:Eaff.
    + exists [], (mk_token (off + blen ws) k e lx :: tl), p, q. cbn [app last_te fold_left]. rewrite Hp.
      repeat split; auto.
      * rewrite <- Hs. eapply Run_tok; eauto.
      * destruct tl; auto.
    + pose proof Eaff as Eaff'. unfold is_affected_by in Eaff'. cbn [mk_token te tk] in Eaff'.
      apply N.ltb_ge in Eaff'.
      pose proof (lex_raw_split _ _ _ _ _ E) as [Hs1 Hne].
      assert (Hba : blen a = blen p + blen q) by (rewrite Ha; apply blen_app).
      assert (Hsplit : (ws ++ lx) ++ rest = q ++ d ++ b).
      { rewrite <- Hs, Hs1. now rewrite app_assoc. }
      destruct (app_blen_split _ _ _ _ Hsplit) as [q2 [Hq Hrest]].
      { rewrite blen_app. lia. }
      assert (Hbq : blen q = blen ws + blen lx + blen q2) by (rewrite Hq, !blen_app; lia).
      destruct (IH (p ++ ws ++ lx) q2 Hrest) as [head [rest_o [p' [q' [H1 [H2 [H3 [H4 [H5 [H6 H7]]]]]]]]]].
      { rewrite Ha, Hq. now rewrite <- !app_assoc. }
      { rewrite !blen_app. lia. }
      exists (mk_token (off + blen ws) k e lx :: head), rest_o, p', q'.
      split; [now rewrite H1|]. split; [now constructor|]. split; [exact H3|].
      split; [exact H4|]. split; [exact H5|]. split; [|exact H7].
      intros toks_n Hn. specialize (H6 _ Hn).
      rewrite Hq. rewrite <- !app_assoc. cbn [app].
      eapply Run_tok; [exact Hw | | | exact H6].
      * destruct lx as [|c lx]; [congruence|]. rewrite Hs1 in Hst. exact Hst.
      * eapply lex_raw_local; [exact E|]. intros Hla. rewrite Hrest.
        destruct q2 as [|c q2]; [cbn [blen] in Hbq; lia | reflexivity].
Qed.

End Update.

(* ---- more helpers ---- *)

Lemma ordered_pos lo l : Ordered lo l -> Forall (fun t => tk t <> Eof -> ts t < te t) l.
Proof. induction 1; constructor; auto. Qed.

Lemma in_front_snoc {A} (l1 : list A) t l2 rb e r : l1 ++ t :: l2 = rb ++ [e] -> In r l1 -> In r rb.
Proof.
  intros H Hin. destruct (snoc_cases l2) as [->|[l2b [x ->]]].
  - apply app_inj_tail in H as [<- _]. exact Hin.
  - change (l1 ++ t :: l2b ++ [x]) with (l1 ++ (t :: l2b) ++ [x]) in H. rewrite app_assoc in H.
    apply app_inj_tail in H as [<- _]. apply in_or_app. now left.
Qed.

Lemma shift_token_ts ins del t u : shift_token_signed ins del t = Some u -> ts t + ins = ts u + del.
Proof.
  unfold shift_token_signed, shift_signed.
  destruct (N.leb_spec del (ts t + ins)); [|discriminate].
  destruct (del <=? te t + ins); [|discriminate].
  destruct (map_opt _ (terr t)); [|discriminate]. intros [= <-]. cbn [ts]. lia.
Qed.

Lemma restart_eq (head : list token) :
  match split_last head with Some (_, t) => te t | None => 0 end = last_te 0 head.
Proof.
  destruct (snoc_cases head) as [->|[l [x ->]]]; [reflexivity|].
  now rewrite split_last_snoc, last_te_snoc.
Qed.

(* ---- resynchronisation ---- *)

Lemma resync (a d b ins : text) t l2 u l2' pt s_t pu s_u :
  a ++ d ++ b = pt ++ s_t -> blen pt = ts t -> blen a + blen d <= ts t ->
  Run (ts t) s_t (t :: l2) ->
  a ++ ins ++ b = pu ++ s_u -> blen pu = ts u -> Run (ts u) s_u (u :: l2') ->
  ts t + blen ins = ts u + blen d ->
  map_opt (shift_token_signed (blen ins) (blen d)) (t :: l2) = Some (u :: l2').
Proof.
  intros Ho Hpt Hge Hrt Hn Hpu Hru Hsh.
  rewrite app_assoc in Ho.
  destruct (app_blen_split (a ++ d) b pt s_t Ho) as [b0 [Hpt' Hb]]; [rewrite blen_app; lia|].
  assert (Hn' : ((a ++ ins) ++ b0) ++ s_t = pu ++ s_u).
  { rewrite <- Hn, Hb. now rewrite <- !app_assoc. }
  apply app_blen_inj in Hn' as [_ Hs].
  2:{ rewrite Hpt' in Hpt. rewrite !blen_app in *. lia. }
  subst s_u.
  destruct (run_shift (blen ins) (blen d) _ _ _ Hrt (ts u) Hsh) as [toks' [Hr' Hm]].
  rewrite Hm. f_equal. eapply run_det; eauto.
Qed.

Lemma shifted_before_gap (a d b ins : text) r r' pr s_r pg ws s_u tsu :
  a ++ d ++ b = pr ++ s_r -> blen pr = ts r -> blen a + blen d <= ts r ->
  stops is_ws s_r -> s_r <> [] ->
  ts r + blen ins = ts r' + blen d ->
  a ++ ins ++ b = pg ++ ws ++ s_u -> forallb is_ws ws = true -> tsu = blen pg + blen ws ->
  ts r' < tsu -> ts r' < blen pg.
Proof.
  intros Ho Hpr Hge Hst Hne Hsh Hn Hw Hu Hlt.
  destruct (N.lt_ge_cases (ts r') (blen pg)) as [|Hge']; [assumption|]. exfalso.
  rewrite app_assoc in Ho.
  destruct (app_blen_split (a ++ d) b pr s_r Ho) as [b0 [Hpr' Hb]]; [rewrite blen_app; lia|].
  assert (Hn' : a ++ ins ++ b = ((a ++ ins) ++ b0) ++ s_r).
  { rewrite Hb. now rewrite <- !app_assoc. }
  assert (Hbl : blen ((a ++ ins) ++ b0) = ts r').
  { rewrite Hpr' in Hpr. rewrite !blen_app in *. lia. }
  eapply (gap_contra _ pg ws s_u _ s_r Hn Hn' Hw); try assumption; lia.
Qed.

(* ---- the theorem ---- *)

Theorem lex_update_correct : C07_full_statement.
Proof.
  intros a d b ins toks_old Hlex. unfold lex in Hlex. apply lex_from_run in Hlex.
  destruct (phaseA a d b ins 0 _ _ Hlex [] a eq_refl eq_refl eq_refl)
    as [head [rest_o [p' [q' [Htoks [Hhead [Ha [Hp' [Hro [Hnew Haff]]]]]]]]]].
  destruct (run_total (blen p') (q' ++ ins ++ b)) as [rest_n Hrn].
  pose proof (Hnew _ Hrn) as Hnewrun. cbn [app] in Hnewrun.
  assert (HTo : p' ++ q' ++ d ++ b = a ++ d ++ b) by (rewrite Ha, <- app_assoc; reflexivity).
  assert (HTn : p' ++ q' ++ ins ++ b = a ++ ins ++ b) by (rewrite Ha, <- app_assoc; reflexivity).
  assert (Hba : blen a = blen p' + blen q') by (rewrite Ha; apply blen_app).
  (* structure of the old remainder *)
  pose proof (run_tiles _ _ _ Hro) as Htil.
  destruct (tiles_last_eof _ _ _ Htil) as [rb [Hrb Hrbne]].
  pose proof (tiles_ordered _ _ _ Htil) as Hord.
  remember {| tk := Eof; ts := blen p' + blen (q' ++ d ++ b); te := blen p' + blen (q' ++ d ++ b); terr := [] |}
    as eof_o eqn:Heof_o.
  assert (Heo : eof_o = eof_token (blen a + blen d + blen b)).
  { subst eof_o. unfold eof_token. rewrite !blen_app, Hba. f_equal; lia. }
  clear Heof_o.
  assert (Hrbaff : Forall (fun t => is_affected_by t (blen a) = true) rb).
  { destruct rb as [|t rb']; [constructor|]. rewrite Hrb in Haff, Hord. cbn [app] in Haff, Hord.
    assert (Ht : is_affected_by t (blen a) = true).
    { destruct (rb' ++ [eof_o]) eqn:X; [destruct rb'; discriminate | exact Haff]. }
    constructor; [exact Ht|].
    inversion Hord as [|? ? ? O1 O2 O3 O4]; subst.
    pose proof (ordered_lb _ _ O4) as Hlb. pose proof (ordered_pos _ _ O4) as Hpos.
    inversion Hrbne as [|? ? _ Hne']; subst.
    rewrite Forall_forall in *. intros x Hx.
    specialize (Hlb x (in_or_app _ _ _ (or_introl Hx))).
    specialize (Hpos x (in_or_app _ _ _ (or_introl Hx)) (Hne' x Hx)).
    unfold is_affected_by in *. apply N.ltb_lt in Ht. apply N.ltb_lt.
    pose proof (look_ahead_le1 (tk t)). lia. }
  (* split the old remainder at the end of the change *)
  destruct (ordered_split (blen a + blen d) _ _ Hord) as [mid [R0 [Hsplit [Hmid HR0]]]].
  assert (HR0e : exists reus0, R0 = reus0 ++ [eof_o] /\ rb = mid ++ reus0).
  { destruct (snoc_cases R0) as [->|[reus0 [x ->]]].
    - exfalso. rewrite app_nil_r in Hsplit. rewrite Hrb in Hsplit. subst mid.
      rewrite Forall_forall in Hmid. specialize (Hmid eof_o (in_elt _ _ _)).
      rewrite Heo in Hmid. cbn [eof_token ts] in Hmid. apply N.ltb_lt in Hmid. lia.
    - rewrite Hrb, app_assoc in Hsplit. apply app_inj_tail in Hsplit as [-> ->]. eauto. }
  destruct HR0e as [reus0 [HR0eq Hrbeq]].
  assert (HR0ge : Forall (fun t => blen a + blen d <= ts t) R0).
  { eapply Forall_impl; [|exact HR0]. cbn beta. intros x Hx. now apply N.ltb_ge in Hx. }
  (* all of R0 can be shifted *)
  assert (HR : exists R, map_opt (shift_token_signed (blen ins) (blen d)) R0 = Some R).
  { destruct R0 as [|t0 R0'] eqn:ER0; [destruct reus0; discriminate|].
    destruct (run_visit _ _ _ Hro p' mid t0 R0' eq_refl Hsplit) as [pg [ws [s_t [_ [_ [_ [_ [_ [Hrt _]]]]]]]]].
    inversion HR0ge as [|? ? Hge _]; subst.
    destruct (run_shift (blen ins) (blen d) _ _ _ Hrt (ts t0 + blen ins - blen d) ltac:(lia)) as [R [_ HR]].
    eauto. }
  destruct HR as [R HR].
  pose proof HR as HR'. rewrite HR0eq in HR'.
  apply map_opt_app_inv in HR' as [reusable [R2 [HReq [Hreus HR2]]]].
  assert (Heof' : shift_token_signed (blen ins) (blen d) eof_o = Some (eof_token (blen a + blen ins + blen b))).
  { rewrite Heo. apply shift_eof_token. lia. }
  cbn [map_opt] in HR2. rewrite Heof' in HR2. injection HR2 as <-.
  set (eof' := eof_token (blen a + blen ins + blen b)) in *.
  (* the new remainder ends with eof' *)
  pose proof (run_tiles _ _ _ Hrn) as Htiln.
  destruct (tiles_last_eof _ _ _ Htiln) as [nb [Hnb _]].
  assert (Hen : rest_n = nb ++ [eof']).
  { rewrite Hnb. unfold eof', eof_token. rewrite !blen_app, Hba. do 2 f_equal. f_equal; lia. }
  clear Hnb.
  (* where the re-lexing stops *)
  destruct (cut_split reusable rest_n (run_nonempty _ _ _ Hrn)) as [l1 [u [l2' [Hrneq [Hcut [Hl1 Hu]]]]]].
  assert (Ht : exists t, In t R0 /\ shift_token_signed (blen ins) (blen d) t = Some u).
  { destruct Hu as [->|Hex].
    - rewrite Hen in Hrneq. apply app_inj_tail in Hrneq as [_ <-].
      exists eof_o. split; [rewrite HR0eq; apply in_elt | exact Heof'].
    - apply existsb_exists in Hex as [x [Hx Hux]]. apply token_eqb_eq in Hux. subst x.
      destruct (map_opt_in_inv _ _ _ _ Hreus Hx) as [t [Ht1 Ht2]].
      exists t. split; [rewrite HR0eq; apply in_or_app; now left | exact Ht2]. }
  destruct Ht as [t [HtR0 Htu]].
  destruct (in_split _ _ HtR0) as [r1 [l2 HR0split]].
  assert (Hro_split : rest_o = (mid ++ r1) ++ t :: l2) by (rewrite Hsplit, HR0split, <- app_assoc; reflexivity).
  assert (Htge : blen a + blen d <= ts t).
  { rewrite Forall_forall in HR0ge. apply HR0ge, HtR0. }
  pose proof (shift_token_ts _ _ _ _ Htu) as Htsu.
  destruct (run_visit _ _ _ Hro p' _ t l2 eq_refl Hro_split)
    as [pgt [wst [s_t [Hot [_ [_ [_ [Htst [Hrt _]]]]]]]]].
  destruct (run_visit _ _ _ Hrn p' l1 u l2' eq_refl Hrneq)
    as [pg [ws [s_u [Hnu [Hpg [Hws [_ [Htsu' [Hru _]]]]]]]]].
  rewrite HTo in Hot. rewrite HTn in Hnu.
  assert (Hsync : map_opt (shift_token_signed (blen ins) (blen d)) (t :: l2) = Some (u :: l2')).
  { apply (resync a d b ins t l2 u l2' (pgt ++ wst) s_t (pg ++ ws) s_u); auto.
    - now rewrite <- app_assoc.
    - rewrite blen_app; lia.
    - now rewrite <- app_assoc.
    - rewrite blen_app; lia. }
  (* the shifted old tokens before the resynchronisation point *)
  pose proof HR as HR'. rewrite HR0split in HR'.
  apply map_opt_app_inv in HR' as [R1 [R2 [HReq' [HR1 HR2]]]].
  rewrite Hsync in HR2. injection HR2 as <-.
  assert (HR1lt : Forall (fun r' => ts r' < blen pg) R1).
  { rewrite Forall_forall. intros r' Hr'.
    destruct (map_opt_in_inv _ _ _ _ HR1 Hr') as [r [Hr Hrr']].
    pose proof (shift_token_ts _ _ _ _ Hrr') as Htsr.
    assert (Hrne : tk r <> Eof).
    { rewrite Forall_forall in Hrbne. apply Hrbne.
      eapply (in_front_snoc (mid ++ r1) t l2 rb eof_o).
      - rewrite <- Hro_split. exact Hrb.
      - apply in_or_app. now right. }
    assert (Hrge : blen a + blen d <= ts r).
    { rewrite Forall_forall in HR0ge. apply HR0ge. rewrite HR0split. apply in_or_app. now left. }
    assert (Hrlt : ts r < ts t).
    { rewrite Hro_split in Hord. pose proof (ordered_before _ _ _ _ Hord) as Hb.
      rewrite Forall_forall in Hb. apply Hb; [apply in_or_app; now right | exact Hrne]. }
    destruct (in_split _ _ Hr) as [r1a [r1b Hr1]].
    assert (Hro_r : rest_o = (mid ++ r1a) ++ r :: (r1b ++ t :: l2)).
    { rewrite Hro_split, Hr1. rewrite <- !app_assoc. reflexivity. }
    destruct (run_visit _ _ _ Hro p' _ r _ eq_refl Hro_r)
      as [pgr [wsr [s_r [Hor [_ [_ [Hstr [Htsr' [_ Hsne]]]]]]]]].
    rewrite HTo in Hor.
    apply (shifted_before_gap a d b ins r r' (pgr ++ wsr) s_r pg ws s_u (ts u)); auto.
    - now rewrite <- app_assoc.
    - rewrite blen_app; lia.
    - lia. }
  (* the unaffected tail *)
  set (tailv := match split_last l1 with
                | Some (_, last_new) => skip_while (fun t => ts t <? te last_new) reusable
                | None => reusable
                end).
  assert (Htail : tailv ++ [eof'] = u :: l2').
  { assert (HRR : reusable ++ [eof'] = R1 ++ u :: l2') by congruence.
    unfold tailv. destruct (snoc_cases l1) as [->|[l1b [ln ->]]].
    - change (split_last (@nil token)) with (@None (list token * token)). cbv iota.
      cbn [last_te fold_left] in Hpg.
      destruct R1 as [|r' R1']; [exact HRR|]. exfalso.
      apply Forall_inv in HR1lt as Hlt.
      destruct r1 as [|r r1']; [discriminate HR1|].
      apply map_opt_cons_inv in HR1 as [y [rr [Heq [Hy _]]]]. injection Heq as <- <-.
      pose proof (shift_token_ts _ _ _ _ Hy) as Hts.
      assert (Hrge : blen a + blen d <= ts r).
      { rewrite Forall_forall in HR0ge. apply HR0ge. rewrite HR0split. now left. }
      lia.
    - rewrite split_last_snoc. rewrite last_te_snoc in Hpg.
      assert (Hall : Forall (fun x => (ts x <? te ln) = true) R1).
      { eapply Forall_impl; [|exact HR1lt]. cbn beta. intros x Hx. apply N.ltb_lt. lia. }
      destruct (snoc_cases l2') as [->|[l2b [e ->]]].
      + apply app_inj_tail in HRR as [-> <-].
        rewrite <- (app_nil_r R1), skip_while_app_true by exact Hall. reflexivity.
      + change (R1 ++ u :: l2b ++ [e]) with (R1 ++ (u :: l2b) ++ [e]) in HRR. rewrite app_assoc in HRR.
        apply app_inj_tail in HRR as [-> <-].
        rewrite skip_while_app_true by exact Hall. cbn [skip_while].
        destruct (N.ltb_spec (ts u) (te ln)); [lia|]. reflexivity. }
  (* lengths *)
  assert (Hlen_l2 : length l2' = length l2).
  { apply map_opt_length in Hsync. cbn [length] in Hsync. lia. }
  assert (Hlen_tail : length tailv = length l2').
  { apply (f_equal (@length token)) in Htail. rewrite app_length in Htail. cbn [length] in Htail. lia. }
  assert (Hlen_rb : length rb = (length mid + length r1 + length l2)%nat).
  { pose proof Hro_split as H. rewrite Hrb in H. apply (f_equal (@length token)) in H.
    rewrite !app_length in H. cbn [length] in H. lia. }
  assert (Hto : toks_old = (head ++ rb) ++ [eof_o]) by (rewrite Htoks, Hrb, app_assoc; reflexivity).
  assert (Hto2 : toks_old = (head ++ mid ++ r1) ++ t :: l2).
  { rewrite Htoks, Hro_split. now rewrite <- !app_assoc. }
  assert (Htn2 : head ++ rest_n = (head ++ l1) ++ u :: l2').
  { rewrite Hrneq. now rewrite <- app_assoc. }
  exists (head ++ rest_n), (length head), (length (head ++ rb) - length tailv)%nat, (length l1).
  split; [|split].
  - unfold lex. apply (run_lex_from _ _ _ Hnewrun). lia.
  - unfold lex_update. cbv zeta.
    replace (blen a + blen d - blen a) with (blen d) by lia.
    rewrite Hto, split_last_snoc.
    assert (Hk : tk eof_o = Eof) by (rewrite Heo; reflexivity). rewrite Hk, Heof'.
    assert (Hf1 : filter (fun t => negb (is_affected_by t (blen a))) (head ++ rb) = head).
    { rewrite filter_app, filter_all_true, filter_all_false; [apply app_nil_r| |].
      - eapply Forall_impl; [|exact Hrbaff]. cbn beta. intros x ->. reflexivity.
      - eapply Forall_impl; [|exact Hhead]. cbn beta. intros x ->. reflexivity. }
    assert (Hf2 : filter (fun t => is_affected_by t (blen a)) (head ++ rb) = rb).
    { rewrite filter_app, filter_all_false, filter_all_true; auto. }
    assert (Hf3 : filter (fun t => negb (ts t <? blen a + blen d)) rb = reus0).
    { rewrite Hrbeq, filter_app, filter_all_false, filter_all_true; [reflexivity| |].
      - rewrite HR0eq in HR0. apply Forall_app in HR0 as [HR0 _].
        eapply Forall_impl; [|exact HR0]. cbn beta. intros x ->. reflexivity.
      - eapply Forall_impl; [|exact Hmid]. cbn beta. intros x ->. reflexivity. }
    rewrite Hf1, Hf2, Hf3, Hreus. rewrite restart_eq, <- Hp'.
    rewrite <- HTn, str_from_app. rewrite (run_relex reusable _ _ _ Hrn) by lia. rewrite Hcut.
    fold tailv.
    assert (Hleb : Nat.leb (length tailv) (length (head ++ rb)) = true).
    { apply Nat.leb_le. rewrite app_length. lia. }
    rewrite Hleb. f_equal. rewrite Htail, Hrneq. reflexivity.
  - unfold Truthful.
    assert (Hde : (length (head ++ rb) - length tailv)%nat = length (head ++ mid ++ r1)).
    { rewrite !app_length. lia. }
    rewrite Hde. split; [|split; [|split; [|split]]].
    + rewrite Htoks. rewrite !firstn_exact; reflexivity.
    + rewrite !app_length. lia.
    + rewrite Hto2. rewrite (app_length (head ++ mid ++ r1)). lia.
    + rewrite Hto2, Htn2. rewrite !app_length. cbn [length]. lia.
    + rewrite Hto2 at 1. rewrite skipn_exact by reflexivity.
      rewrite Htn2. rewrite skipn_exact by (rewrite app_length; reflexivity).
      exact Hsync.
Qed.

Print Assumptions lex_update_correct.
