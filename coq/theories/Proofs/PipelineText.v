(* The pipeline from TEXT: every layout (whitespace gaps, comments in any token gap) of a valid abstract
   program lexes to the program's token kinds (C06 conformance via Proofs/RenderProofs.v), hence parses to
   the mandated tree (C04 round trip) and, if that tree is well-typed, gets no diagnostic (C03). *)
From Spl Require Import Model.Lexer Spec.Grammar Model.Parser Proofs.GrammarProofs Spec.Typing Model.Errors
  Proofs.TypingProofs Proofs.RenderProofs.

(* the identifiers of the program are well-formed and no keywords, its literals are below 2^32, its comment
   texts contain no line feed (valid_kind, Proofs/RenderProofs.v, on every token of the program) *)
Definition aprog_valid (p : aprog) : bool := forallb valid_kind (flatten p).

Theorem text_layout_of p gaps t :
  aprog_valid p = true -> gaps_ok (flatten p) gaps -> render_kinds (flatten p) gaps = Some t -> layout_of p t.
Proof. intros Hv Hg Hr. exact (render_lexes (flatten p) gaps t Hv Hg Hr). Qed.

(* a layout exists for every gap list of the right length (so the theorems below are not vacuous) *)
Theorem text_render_total p gaps :
  aprog_valid p = true -> length gaps = S (length (flatten p)) -> exists t, render_kinds (flatten p) gaps = Some t.
Proof. intros Hv Hl. eexists. exact (render_total (flatten p) gaps Hv Hl). Qed.

Theorem text_roundtrip p gaps t :
  prog_ok p = true -> aprog_valid p = true -> gaps_ok (flatten p) gaps -> render_kinds (flatten p) gaps = Some t ->
  exists toks, lex t = Some toks /\ parse toks = Done (expected p).
Proof.
  intros Hok Hv Hg Hr. destruct (text_layout_of p gaps t Hv Hg Hr) as [toks [H1 H2]].
  exists toks. split; [exact H1 | exact (roundtrip p toks Hok H2)].
Qed.

(* layout independence at text level: any two layouts of the program give the same tree *)
Theorem text_layout_independent p gaps1 gaps2 t1 t2 :
  prog_ok p = true -> aprog_valid p = true ->
  gaps_ok (flatten p) gaps1 -> render_kinds (flatten p) gaps1 = Some t1 ->
  gaps_ok (flatten p) gaps2 -> render_kinds (flatten p) gaps2 = Some t2 ->
  exists toks1 toks2, lex t1 = Some toks1 /\ lex t2 = Some toks2 /\ parse toks1 = parse toks2.
Proof.
  intros Hok Hv Hg1 Hr1 Hg2 Hr2.
  destruct (text_roundtrip p gaps1 t1 Hok Hv Hg1 Hr1) as [toks1 [L1 P1]].
  destruct (text_roundtrip p gaps2 t2 Hok Hv Hg2 Hr2) as [toks2 [L2 P2]].
  exists toks1, toks2. repeat split; try assumption. congruence.
Qed.

Theorem text_no_false_positive p gaps t G :
  prog_ok p = true -> aprog_valid p = true -> gaps_ok (flatten p) gaps -> render_kinds (flatten p) gaps = Some t ->
  well_typed (expected p) G -> diagnostics t = Done [].
Proof.
  intros Hok Hv Hg Hr Hwt. exact (no_false_positive p t G Hok (text_layout_of p gaps t Hv Hg Hr) Hwt).
Qed.

Print Assumptions text_roundtrip.
Print Assumptions text_no_false_positive.
