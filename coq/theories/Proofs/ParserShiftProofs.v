(* The shift-invariance half of C05 - the statements property files cite.  Proofs live in ParserShift
   (S1, the shift lemma for every combinator and non-terminal), ParserShiftMono (fuel monotonicity),
   ParserShiftSuffix (S2 suffix, S3 prefix, S4 containment), ParserShiftErrors (the diagnostics) and
   ParserShiftKeyword (keywords are boundaries: containment as a statement about tokens only);
   this file restates the results in self-contained form, checks their assumptions and gives concrete
   instances. *)
From Coq Require Import Arith Lia List.
From Spl Require Import Model.Parser Model.Errors Proofs.ParserProofs.
From Spl Require Export Proofs.ParserShift Proofs.ParserShiftMono Proofs.ParserShiftSuffix Proofs.ParserShiftErrors
  Proofs.ParserShiftKeyword.
Import ListNotations.
Local Open Scope nat_scope.

(* ------------------------------------------------------------------------------------------ *)
(* S1: the shift lemma.  [Sh pre p q] := forall s, p (sh |pre| s) = shr |pre| (q s)  where sh moves pos and
   refp by |pre| and keeps the error buffer, and shr moves the state of a POk / PErr result and keeps the
   VALUE: same subtree, same attached errors, same messages. *)
Theorem S1_shift pre rest fuel :
  Sh pre (p_ident (pre ++ rest)) (p_ident rest) /\ Sh pre (p_intlit (pre ++ rest)) (p_intlit rest) /\
  Sh pre (p_variable (pre ++ rest) fuel) (p_variable rest fuel) /\
  Sh pre (p_primary (pre ++ rest) fuel) (p_primary rest fuel) /\
  Sh pre (p_factor (pre ++ rest) fuel) (p_factor rest fuel) /\
  Sh pre (p_mul (pre ++ rest) fuel) (p_mul rest fuel) /\
  Sh pre (p_add (pre ++ rest) fuel) (p_add rest fuel) /\
  Sh pre (p_comparison (pre ++ rest) fuel) (p_comparison rest fuel) /\
  Sh pre (p_texpr (pre ++ rest) fuel) (p_texpr rest fuel) /\
  Sh pre (p_argument (pre ++ rest) fuel) (p_argument rest fuel) /\
  Sh pre (p_call (pre ++ rest) fuel) (p_call rest fuel) /\
  Sh pre (p_assign (pre ++ rest) fuel) (p_assign rest fuel) /\
  Sh pre (p_stmt (pre ++ rest) fuel) (p_stmt rest fuel) /\
  Sh pre (p_vardecl (pre ++ rest) fuel) (p_vardecl rest fuel) /\
  Sh pre (p_paramdecl (pre ++ rest) fuel) (p_paramdecl rest fuel) /\
  Sh pre (p_typedecl (pre ++ rest) fuel) (p_typedecl rest fuel) /\
  Sh pre (p_procdecl (pre ++ rest) fuel) (p_procdecl rest fuel) /\
  Sh pre (p_gdecl (pre ++ rest) fuel) (p_gdecl rest fuel) /\
  Sh pre (p_eof_all (pre ++ rest)) (p_eof_all rest) /\
  Sh pre (p_program (pre ++ rest) fuel) (p_program rest fuel).
Proof.
  repeat split;
    first [ apply Sh_ident | apply Sh_intlit | apply Sh_variable | apply Sh_primary | apply Sh_factor | apply Sh_mul
          | apply Sh_add | apply Sh_comparison | apply Sh_texpr | apply Sh_argument | apply Sh_call | apply Sh_assign
          | apply Sh_stmt | apply Sh_vardecl | apply Sh_paramdecl | apply Sh_typedecl | apply Sh_procdecl
          | apply Sh_gdecl | apply Sh_eof_all | apply Sh_program ].
Qed.
Print Assumptions S1_shift.

(* S1 for one declaration, spelled out *)
Theorem S1_gdecl pre rest fuel s :
  p_gdecl (pre ++ rest) fuel {| pos := pos s + length pre; refp := refp s + length pre; ebuf := ebuf s |} =
  match p_gdecl rest fuel s with
  | POk s' g => POk {| pos := pos s' + length pre; refp := refp s' + length pre; ebuf := ebuf s' |} g
  | PErr s' => PErr {| pos := pos s' + length pre; refp := refp s' + length pre; ebuf := ebuf s' |}
  | PFuel => PFuel
  end.
Proof. exact (Sh_gdecl pre rest fuel s). Qed.
Print Assumptions S1_gdecl.

(* the look-ahead predicates *)
Theorem S1_lookahead pre rest p :
  sig_at (pre ++ rest) (p + length pre) = sig_at rest p + length pre /\
  la_global (pre ++ rest) (p + length pre) = la_global rest p /\
  la_stmt (pre ++ rest) (p + length pre) = la_stmt rest p /\
  la_var_dec (pre ++ rest) (p + length pre) = la_var_dec rest p /\
  la_param (pre ++ rest) (p + length pre) = la_param rest p /\
  la_arg (pre ++ rest) (p + length pre) = la_arg rest p /\
  (forall f, la_tag (pre ++ rest) f (p + length pre) = la_tag rest f p) /\
  (forall f, la_ident_then (pre ++ rest) f (p + length pre) = la_ident_then rest f p).
Proof.
  repeat split; try intros f;
    first [ apply sig_at_sh | apply la_global_sh | apply la_stmt_sh | apply la_var_dec_sh | apply la_param_sh
          | apply la_arg_sh | apply la_tag_sh | apply la_ident_then_sh ].
Qed.
Print Assumptions S1_lookahead.

(* fuel: a run that terminates returns the same with more fuel (all non-terminals: Mono_X in ParserShiftMono) *)
Theorem fuel_monotone toks f f' s :
  f <= f' -> p_program toks f s <> PFuel -> p_program toks f' s = p_program toks f s.
Proof. intros H. exact (Mono_program toks f f' H s). Qed.
Print Assumptions fuel_monotone.

(* ------------------------------------------------------------------------------------------ *)
(* S2 *)
Theorem S2_suffix_as_document pre post p k :
  EofLast (pre ++ post) -> parse (pre ++ post) = Done p -> Boundary p k (length pre) ->
  exists p0, parse post = Done p0 /\ EofLast post /\
    skipn k (pg_decls p) = shift_offs (length pre) (pg_decls p0) /\
    i_e (pg_info p) = i_e (pg_info p0) + length pre.
Proof. exact (suffix_as_document pre post p k). Qed.
Print Assumptions S2_suffix_as_document.

Theorem S2_suffix_independent pre pre' post p p' k k' :
  EofLast (pre ++ post) -> EofLast (pre' ++ post) ->
  parse (pre ++ post) = Done p -> parse (pre' ++ post) = Done p' ->
  Boundary p k (length pre) -> Boundary p' k' (length pre') ->
  map (fun go => (fst go, snd go - length pre)) (skipn k (pg_decls p)) =
  map (fun go => (fst go, snd go - length pre')) (skipn k' (pg_decls p')) /\
  i_e (pg_info p) - length pre = i_e (pg_info p') - length pre' /\
  map (fun go => (fst go, snd go + length pre')) (skipn k (pg_decls p)) =
  map (fun go => (fst go, snd go + length pre)) (skipn k' (pg_decls p')) /\
  i_e (pg_info p) + length pre' = i_e (pg_info p') + length pre.
Proof. exact (suffix_independent pre pre' post p p' k k'). Qed.
Print Assumptions S2_suffix_independent.

(* S3 *)
Theorem S3_prefix_independent toks toks' p p' j k o :
  parse toks = Done p -> parse toks' = Done p' ->
  (forall i, i <= j -> nth_error toks i = nth_error toks' i) ->
  (exists t, nth_error toks j = Some t /\ sync_full (tk t) = true) ->
  Boundary p k o -> o <= j ->
  firstn k (pg_decls p) = firstn k (pg_decls p') /\ Boundary p' k o.
Proof. exact (prefix_independent toks toks' p p' j k o). Qed.
Print Assumptions S3_prefix_independent.

Theorem S3_prefix_behind_keyword toks toks' p p' k g o :
  EofLast toks -> parse toks = Done p -> parse toks' = Done p' ->
  nth_error (pg_decls p) k = Some (g, o) -> is_kw_decl g = true ->
  (forall i, i <= sig_at toks o -> nth_error toks i = nth_error toks' i) ->
  firstn k (pg_decls p) = firstn k (pg_decls p') /\ Boundary p' k o.
Proof. exact (prefix_behind_keyword toks toks' p p' k g o). Qed.
Print Assumptions S3_prefix_behind_keyword.

(* S4 *)
Theorem S4_containment pre mid mid' post p p' j k o k2 k2' :
  EofLast (pre ++ mid ++ post) -> EofLast (pre ++ mid' ++ post) ->
  parse (pre ++ mid ++ post) = Done p -> parse (pre ++ mid' ++ post) = Done p' ->
  (exists t, nth_error pre j = Some t /\ sync_full (tk t) = true) -> Boundary p k o -> o <= j ->
  Boundary p k2 (length pre + length mid) -> Boundary p' k2' (length pre + length mid') ->
  firstn k (pg_decls p) = firstn k (pg_decls p') /\ Boundary p' k o /\
  shift_offs (length mid') (skipn k2 (pg_decls p)) = shift_offs (length mid) (skipn k2' (pg_decls p')) /\
  i_e (pg_info p) + length mid' = i_e (pg_info p') + length mid /\
  k < k2 /\ k < k2'.
Proof. exact (containment pre mid mid' post p p' j k o k2 k2'). Qed.
Print Assumptions S4_containment.

Theorem S4_containment_behind_keyword pre mid mid' post p p' k g o k2 k2' :
  EofLast (pre ++ mid ++ post) -> EofLast (pre ++ mid' ++ post) ->
  parse (pre ++ mid ++ post) = Done p -> parse (pre ++ mid' ++ post) = Done p' ->
  nth_error (pg_decls p) k = Some (g, o) -> is_kw_decl g = true -> sig_at (pre ++ mid ++ post) o < length pre ->
  Boundary p k2 (length pre + length mid) -> Boundary p' k2' (length pre + length mid') ->
  firstn k (pg_decls p) = firstn k (pg_decls p') /\ Boundary p' k o /\
  shift_offs (length mid') (skipn k2 (pg_decls p)) = shift_offs (length mid) (skipn k2' (pg_decls p')) /\
  i_e (pg_info p) + length mid' = i_e (pg_info p') + length mid /\
  k < k2 /\ k < k2'.
Proof. exact (containment_behind_keyword pre mid mid' post p p' k g o k2 k2'). Qed.
Print Assumptions S4_containment_behind_keyword.

(* boundaries from tokens: a proc/type token not directly preceded by a comment starts a declaration *)
Theorem keyword_is_boundary toks p q t :
  EofLast toks -> parse toks = Done p -> nth_error toks q = Some t -> is_declkw (tk t) = true ->
  (q = 0 \/ exists t', nth_error toks (q - 1) = Some t' /\ is_comment (tk t') = false) ->
  exists k g, nth_error (pg_decls p) k = Some (g, q) /\ is_kw_decl g = true /\ Boundary p k q.
Proof. exact (keyword_boundary toks p q t). Qed.
Print Assumptions keyword_is_boundary.

(* S4 with hypotheses on the tokens only *)
Theorem S4_containment_between_keywords pre mid mid' post post' p p' j tj tq :
  EofLast (pre ++ mid ++ post) -> EofLast (pre ++ mid' ++ post) ->
  parse (pre ++ mid ++ post) = Done p -> parse (pre ++ mid' ++ post) = Done p' ->
  nth_error pre j = Some tj -> is_declkw (tk tj) = true ->
  post = tq :: post' -> is_declkw (tk tq) = true ->
  (exists t', nth_error (pre ++ mid) (length pre + length mid - 1) = Some t' /\ is_comment (tk t') = false) ->
  (exists t', nth_error (pre ++ mid') (length pre + length mid' - 1) = Some t' /\ is_comment (tk t') = false) ->
  exists k g o k2 k2',
    nth_error (pg_decls p) k = Some (g, o) /\ is_kw_decl g = true /\ sig_at (pre ++ mid ++ post) o = j /\
    Boundary p k2 (length pre + length mid) /\ Boundary p' k2' (length pre + length mid') /\
    firstn k (pg_decls p) = firstn k (pg_decls p') /\ Boundary p' k o /\
    shift_offs (length mid') (skipn k2 (pg_decls p)) = shift_offs (length mid) (skipn k2' (pg_decls p')) /\
    i_e (pg_info p) + length mid' = i_e (pg_info p') + length mid /\
    k < k2 /\ k < k2'.
Proof. exact (containment_between_keywords pre mid mid' post post' p p' j tj tq). Qed.
Print Assumptions S4_containment_between_keywords.

Theorem S4_errors_contained pre mid mid' post p p' j k o k2 k2' :
  EofLast (pre ++ mid ++ post) -> EofLast (pre ++ mid' ++ post) ->
  parse (pre ++ mid ++ post) = Done p -> parse (pre ++ mid' ++ post) = Done p' ->
  (exists t, nth_error pre j = Some t /\ sync_full (tk t) = true) -> Boundary p k o -> o <= j ->
  Boundary p k2 (length pre + length mid) -> Boundary p' k2' (length pre + length mid') ->
  exists before damaged damaged' after after',
    tree_errors p = before ++ damaged ++ after /\
    tree_errors p' = before ++ damaged' ++ after' /\
    shift_es (length mid') after = shift_es (length mid) after' /\
    before = decl_errors (firstn k (pg_decls p)) /\
    damaged = decl_errors (firstn (k2 - k) (skipn k (pg_decls p))) /\
    damaged' = decl_errors (firstn (k2' - k) (skipn k (pg_decls p'))) /\
    after = decl_errors (skipn k2 (pg_decls p)) /\ after' = decl_errors (skipn k2' (pg_decls p')).
Proof. exact (errors_contained pre mid mid' post p p' j k o k2 k2'). Qed.
Print Assumptions S4_errors_contained.

(* ------------------------------------------------------------------------------------------ *)
(* concrete instances.  `type x = x ; proc x ( ) { x := ; } type x = x Eof` (the last declaration lacks its
   semicolon, so it carries an error of its own) and two damages of the
   procedure body: the `;` deleted (`x := }`), and `; }` replaced by `} + +` (which adds an Error
   declaration between the procedure and the last type declaration). *)
Definition prog_of (toks : list token) : program :=
  match parse toks with Done p => p | _ => {| pg_decls := []; pg_info := mkinfo 0 0 |} end.

Definition xpre := mk [KType; idx; EqT; idx; Semic; KProc; idx; LParen; RParen; LCurly; idx; Assign].
Definition xmid := mk [Semic; RCurly].
Definition xmid1 := mk [RCurly].
Definition xmid2 := mk [RCurly; Plus; Plus].
Definition xpost := mk [KType; idx; EqT; idx; Eof].

Lemma EofLast_x m : Forall (fun t => tk t <> Eof) m -> EofLast (xpre ++ m ++ xpost).
Proof.
  intros Hm. exists (xpre ++ m ++ mk [KType; idx; EqT; idx]), {| tk := Eof; ts := 0; te := 0; terr := [] |}.
  split; [now rewrite <- !app_assoc|]. split; [reflexivity|].
  apply Forall_app. split; [repeat constructor; discriminate|].
  apply Forall_app. split; [exact Hm | repeat constructor; discriminate].
Qed.

Example x_parse : summary (xpre ++ xmid ++ xpost) = Some ([(1, 0, 5); (2, 5, 9); (1, 14, 4)], 18).
Proof. vm_compute. reflexivity. Qed.
Example x1_parse : summary (xpre ++ xmid1 ++ xpost) = Some ([(1, 0, 5); (2, 5, 8); (1, 13, 4)], 17).
Proof. vm_compute. reflexivity. Qed.
Example x2_parse : summary (xpre ++ xmid2 ++ xpost) = Some ([(1, 0, 5); (2, 5, 8); (0, 13, 2); (1, 15, 4)], 19).
Proof. vm_compute. reflexivity. Qed.

Lemma x_done m : parse (xpre ++ m ++ xpost) <> Panic -> parse (xpre ++ m ++ xpost) <> OutOfFuel ->
  parse (xpre ++ m ++ xpost) = Done (prog_of (xpre ++ m ++ xpost)).
Proof. unfold prog_of. destruct (parse (xpre ++ m ++ xpost)); congruence. Qed.

Ltac x_hyps :=
  first [ apply EofLast_x; repeat constructor; discriminate
        | apply x_done; [apply T3_parse_no_panic; apply EofLast_x; repeat constructor; discriminate | apply T4_parse_fuel_suffices]
        | (split; [apply Nat.leb_le | ]; vm_compute; reflexivity)
        | (apply Nat.leb_le; vm_compute; reflexivity) ].

(* S1 instance: the last type declaration, parsed in place and parsed alone *)
Example S1_example :
  p_gdecl (xpre ++ xmid ++ xpost) 40 {| pos := 14; refp := 14; ebuf := [] |} =
  shr 14 (p_gdecl xpost 40 {| pos := 0; refp := 0; ebuf := [] |}).
Proof. exact (Sh_gdecl (xpre ++ xmid) xpost 40 {| pos := 0; refp := 0; ebuf := [] |}). Qed.

(* S2 instance: behind the procedure, the program is the parse of `type x = x Eof` moved by 14 *)
Example S2_example :
  skipn 2 (pg_decls (prog_of (xpre ++ xmid ++ xpost))) = shift_offs 14 (pg_decls (prog_of xpost)) /\
  skipn 3 (pg_decls (prog_of (xpre ++ xmid2 ++ xpost))) = shift_offs 15 (pg_decls (prog_of xpost)).
Proof.
  split.
  - destruct (S2_suffix_as_document (xpre ++ xmid) xpost (prog_of (xpre ++ xmid ++ xpost)) 2) as (p0 & H0 & _ & H & _).
    + rewrite <- app_assoc. x_hyps.
    + rewrite <- app_assoc. x_hyps.
    + x_hyps.
    + unfold prog_of at 2. rewrite H0. exact H.
  - destruct (S2_suffix_as_document (xpre ++ xmid2) xpost (prog_of (xpre ++ xmid2 ++ xpost)) 3) as (p0 & H0 & _ & H & _).
    + rewrite <- app_assoc. x_hyps.
    + rewrite <- app_assoc. x_hyps.
    + x_hyps.
    + unfold prog_of at 2. rewrite H0. exact H.
Qed.

(* S3 instance: the leading type declaration does not depend on anything behind the `proc` keyword (index 5) *)
Example S3_example :
  firstn 1 (pg_decls (prog_of (xpre ++ xmid ++ xpost))) = firstn 1 (pg_decls (prog_of (xpre ++ xmid2 ++ xpost))) /\
  Boundary (prog_of (xpre ++ xmid2 ++ xpost)) 1 5.
Proof.
  apply (S3_prefix_independent (xpre ++ xmid ++ xpost) (xpre ++ xmid2 ++ xpost) _ _ 5 1 5); try x_hyps.
  - intros i Hi. apply nth_error_app_pre. assert (length xpre = 12) by reflexivity. lia.
  - eexists. split; [reflexivity | reflexivity].
Qed.

(* S4 instances *)
Example S4_example_deleted_semicolon :
  let p := prog_of (xpre ++ xmid ++ xpost) in let p' := prog_of (xpre ++ xmid1 ++ xpost) in
  firstn 1 (pg_decls p) = firstn 1 (pg_decls p') /\ Boundary p' 1 5 /\
  shift_offs 1 (skipn 2 (pg_decls p)) = shift_offs 2 (skipn 2 (pg_decls p')) /\
  i_e (pg_info p) + 1 = i_e (pg_info p') + 2 /\ 1 < 2 /\ 1 < 2.
Proof.
  cbv zeta. apply (S4_containment xpre xmid xmid1 xpost _ _ 5 1 5 2 2); try x_hyps.
  eexists. split; [reflexivity | reflexivity].
Qed.

Example S4_example_extra_declaration :
  let p := prog_of (xpre ++ xmid ++ xpost) in let p' := prog_of (xpre ++ xmid2 ++ xpost) in
  firstn 1 (pg_decls p) = firstn 1 (pg_decls p') /\ Boundary p' 1 5 /\
  shift_offs 3 (skipn 2 (pg_decls p)) = shift_offs 2 (skipn 3 (pg_decls p')) /\
  i_e (pg_info p) + 3 = i_e (pg_info p') + 2 /\ 1 < 2 /\ 1 < 3.
Proof.
  cbv zeta. apply (S4_containment xpre xmid xmid2 xpost _ _ 5 1 5 2 3); try x_hyps.
  eexists. split; [reflexivity | reflexivity].
Qed.

(* the token-only form: its hypotheses hold for the example *)
Example S4_example_between_keywords :
  exists k g o k2 k2',
    nth_error (pg_decls (prog_of (xpre ++ xmid ++ xpost))) k = Some (g, o) /\ is_kw_decl g = true /\
    sig_at (xpre ++ xmid ++ xpost) o = 5 /\
    Boundary (prog_of (xpre ++ xmid ++ xpost)) k2 14 /\ Boundary (prog_of (xpre ++ xmid2 ++ xpost)) k2' 15 /\
    firstn k (pg_decls (prog_of (xpre ++ xmid ++ xpost))) = firstn k (pg_decls (prog_of (xpre ++ xmid2 ++ xpost))) /\
    Boundary (prog_of (xpre ++ xmid2 ++ xpost)) k o /\
    shift_offs 3 (skipn k2 (pg_decls (prog_of (xpre ++ xmid ++ xpost)))) =
    shift_offs 2 (skipn k2' (pg_decls (prog_of (xpre ++ xmid2 ++ xpost)))) /\
    i_e (pg_info (prog_of (xpre ++ xmid ++ xpost))) + 3 = i_e (pg_info (prog_of (xpre ++ xmid2 ++ xpost))) + 2 /\
    k < k2 /\ k < k2'.
Proof.
  eapply (S4_containment_between_keywords xpre xmid xmid2 xpost _ _ _ 5); try x_hyps; try reflexivity.
  - eexists. split; reflexivity.
  - eexists. split; reflexivity.
Qed.

(* the diagnostics of the three documents (token ranges): the errors of the damaged procedure differ; the
   missing-semicolon error of the last declaration is the same error at the shifted position *)
Example S4_example_errors :
  map (fun e => (e_s e, e_e e)) (tree_errors (prog_of (xpre ++ xmid ++ xpost))) = [(11, 11); (17, 17)] /\
  map (fun e => (e_s e, e_e e)) (tree_errors (prog_of (xpre ++ xmid1 ++ xpost))) = [(11, 11); (11, 11); (16, 16)] /\
  map (fun e => (e_s e, e_e e)) (tree_errors (prog_of (xpre ++ xmid2 ++ xpost))) = [(11, 11); (11, 11); (13, 15); (18, 18)].
Proof. vm_compute. repeat split. Qed.

Example S4_example_errors_theorem :
  let p := prog_of (xpre ++ xmid ++ xpost) in let p' := prog_of (xpre ++ xmid2 ++ xpost) in
  shift_es 3 (decl_errors (skipn 2 (pg_decls p))) = shift_es 2 (decl_errors (skipn 3 (pg_decls p'))).
Proof.
  cbv zeta.
  destruct (S4_errors_contained xpre xmid xmid2 xpost (prog_of (xpre ++ xmid ++ xpost)) (prog_of (xpre ++ xmid2 ++ xpost)) 5 1 5 2 3)
    as (b & d & d' & a & a' & _ & _ & H & _ & _ & _ & -> & ->); try x_hyps.
  - eexists. split; [reflexivity | reflexivity].
  - exact H.
Qed.

(* ------------------------------------------------------------------------------------------ *)
(* The statement `C05_full_statement` of Props/C05.v (copied here verbatim, with its two auxiliary
   definitions unfolded) is NOT true of the model: its hypotheses allow a damage after which the damaged
   declaration ends early and the rest of its old span becomes an additional Error declaration, so the
   lists behind declaration k have different lengths.  (It also fails when declaration k is itself an
   Error declaration - no keyword protects what lies in front of it - and, because of K0, when the damage
   changes whether declaration k swallows the doc comment of declaration k+1.)  The boundary hypotheses of
   S4 are what is missing. *)
Definition full_statement_v0 : Prop :=
  forall pre mid mid' post p p' k,
    EofLast (pre ++ mid ++ post) -> EofLast (pre ++ mid' ++ post) ->
    Forall (fun t => sync_full (tk t) = false) mid -> Forall (fun t => sync_full (tk t) = false) mid' ->
    parse (pre ++ mid ++ post) = Done p -> parse (pre ++ mid' ++ post) = Done p' ->
    (exists g off, nth_error (pg_decls p) k = Some (g, off) /\
                   sig_at (pre ++ mid ++ post) off < length pre /\ length pre + length mid <= off + i_e (gdecl_info g)) ->
    firstn k (pg_decls p) = firstn k (pg_decls p') /\
    map (fun go => (fst go, snd go + length mid')) (skipn (S k) (pg_decls p)) =
    map (fun go => (fst go, snd go + length mid)) (skipn (S k) (pg_decls p')).

(* `proc x ( ) { x := x ; } type x = x ; Eof` with the first body token `x` replaced by `}` *)
Definition ypre := mk [KProc; idx; LParen; RParen; LCurly].
Definition ymid := mk [idx].
Definition ymid' := mk [RCurly].
Definition ypost := mk [Assign; idx; Semic; RCurly; KType; idx; EqT; idx; Semic; Eof].

Example y_parse : summary (ypre ++ ymid ++ ypost) = Some ([(2, 0, 10); (1, 10, 5)], 15).
Proof. vm_compute. reflexivity. Qed.
Example y'_parse : summary (ypre ++ ymid' ++ ypost) = Some ([(2, 0, 6); (0, 6, 4); (1, 10, 5)], 15).
Proof. vm_compute. reflexivity. Qed.

Lemma EofLast_y m : Forall (fun t => tk t <> Eof) m -> EofLast (ypre ++ m ++ ypost).
Proof.
  intros Hm. exists (ypre ++ m ++ mk [Assign; idx; Semic; RCurly; KType; idx; EqT; idx; Semic]), {| tk := Eof; ts := 0; te := 0; terr := [] |}.
  split; [now rewrite <- !app_assoc|]. split; [reflexivity|].
  apply Forall_app. split; [repeat constructor; discriminate|].
  apply Forall_app. split; [exact Hm | repeat constructor; discriminate].
Qed.

Theorem full_statement_v0_refuted : ~ full_statement_v0.
Proof.
  intros H.
  specialize (H ypre ymid ymid' ypost (prog_of (ypre ++ ymid ++ ypost)) (prog_of (ypre ++ ymid' ++ ypost)) 0).
  destruct H as [_ H].
  - apply EofLast_y. repeat constructor; discriminate.
  - apply EofLast_y. repeat constructor; discriminate.
  - repeat constructor.
  - repeat constructor.
  - vm_compute. reflexivity.
  - vm_compute. reflexivity.
  - exists (fst (nth 0 (pg_decls (prog_of (ypre ++ ymid ++ ypost))) (GError (mkinfo 0 0), 0))), 0.
    split; [vm_compute; reflexivity|]. split; apply Nat.leb_le; vm_compute; reflexivity.
  - vm_compute in H. discriminate H.
Qed.
Print Assumptions full_statement_v0_refuted.
