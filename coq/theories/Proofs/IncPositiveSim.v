(* C01, positive part (2/4): the incremental parser under an EMPTY TokenChange (no token deleted, none
   inserted: deletion range w..w, insertion length 0) against the scratch parser.

   [QSg G P p q]: whenever the scratch parser [p] succeeds QUIETLY (the error buffer it returns is the
   one it started with) with a result satisfying [P], the incremental parser [q] - which may have
   been handed an old node - succeeds with the same result, in the corresponding state, and leaves
   the stack inc_references as it found it.  [G] is the invariant of the incremental state: [Good]
   (the sum of inc_references is the current reference position: old and new tree are aligned) where
   old nodes are consulted, [GoodN] (nothing) inside parts that are parsed without an old node.
   One lemma per combinator of parser/utility.rs, including `affected`, `Reference::parse` with an
   old node, `expect` with an old node, `many` with old elements. *)
From Coq Require Import List Arith Lia.
From Spl Require Import Model.ParserInc Proofs.ParserComb Proofs.ParserFwd Proofs.UpdateDocProofsSim Proofs.IncPositiveMono.
Import ListNotations.
Local Open Scope nat_scope.

Lemma st_eta (s : st) : {| pos := pos s; refp := refp s; ebuf := ebuf s |} = s.
Proof. destruct s; reflexivity. Qed.

Lemma fold_add_sum l : forall a, fold_left Nat.add l a = a + fold_left Nat.add l 0.
Proof. induction l as [|x l IH]; intros a; cbn [fold_left]; [lia|]. rewrite (IH (a + x)), (IH (0 + x)). lia. Qed.

Lemma old_reference_push s off : old_reference (iset_incr s (incr s ++ [off])) = old_reference s + off.
Proof. unfold old_reference. cbn [incr iset_incr]. rewrite fold_left_app. cbn [fold_left]. reflexivity. Qed.

Section QS.
Variable toks : list token.
Variable w : nat.
Notation N := (length toks).
Notation FwdT := (Fwd toks sync_none).

(* ---- the TokenChange predicates for the empty change ---- *)
Lemma tc_invalid_empty p re : p < re -> tc_invalid w w 0 p p re = false.
Proof.
  intros H. unfold tc_invalid, tc_deletes, is_insertion_here, is_partially_consumed, tc_out_of_range, tc_new_pos.
  destruct (Nat.leb_spec w p) as [H1|H1]; destruct (Nat.leb_spec re w) as [H2|H2];
    destruct (Nat.ltb_spec p (w + 0)) as [H3|H3]; cbn [andb orb]; try lia;
    repeat match goal with |- context [Nat.leb ?a ?b] => destruct (Nat.leb_spec a b) end; cbn [andb orb]; try lia;
    try reflexivity; try (apply Nat.ltb_ge; lia).
Qed.

Lemma tc_new_pos_empty p : tc_new_pos w w 0 p = p.
Proof. unfold tc_new_pos. destruct (Nat.leb w p); lia. Qed.

Lemma is_insertion_here_empty p : is_insertion_here w 0 p = false.
Proof. unfold is_insertion_here. destruct (Nat.leb_spec w p); cbn [andb]; [apply Nat.ltb_ge; lia | reflexivity]. Qed.

(* ---- invariants of the incremental state ---- *)
Definition WF {A} (p : parser A) : Prop := FwdT p /\ MonoE p.

Definition GoodN (s : ist) : Prop := ipos s <= N.
Definition Good (s : ist) : Prop := old_reference s = irefp s /\ irefp s <= ipos s /\ ipos s <= N.

Definition Stable (G : ist -> Prop) : Prop :=
  (forall s, G s -> ipos s <= N) /\
  (forall s s', G s -> irefp s' = irefp s -> incr s' = incr s -> ipos s <= ipos s' -> ipos s' <= N -> G s').

Lemma Stable_GoodN : Stable GoodN.
Proof. split; [auto|]. unfold GoodN. auto. Qed.

Lemma Stable_Good : Stable Good.
Proof.
  split; [intros s (_ & _ & H); exact H|]. unfold Good, old_reference.
  intros s s' (A & B & C) E1 E2 E3 E4. rewrite E1, E2. repeat split; [exact A | lia | exact E4].
Qed.

Lemma Good_GoodN s : Good s -> GoodN s.
Proof. intros (_ & _ & H). exact H. Qed.

Definition QSg (G : ist -> Prop) {A} (P : A -> Prop) (p : parser A) (q : iparser A) : Prop :=
  forall s s1 t, G s -> p (proj s) = POk s1 t -> ebuf s1 = iebuf s -> P t ->
    exists s', q s = IOk s' t /\ proj s' = s1 /\ incr s' = incr s.

(* the state after a successful scratch step satisfies the invariant again *)
Lemma G_step (G : ist -> Prop) {A} (p : parser A) s s1 (a : A) s' :
  Stable G -> FwdT p -> G s -> p (proj s) = POk s1 a -> proj s' = s1 -> incr s' = incr s -> G s'.
Proof.
  intros [Hb Hst] Hf Hg E Hp Hi. pose proof (Hb s Hg) as Hs.
  destruct (Fwd_ok toks sync_none p (proj s) s1 a Hf Hs E) as (M1 & M2 & M3 & _).
  subst s1. cbn [proj pos refp] in *. apply (Hst s s'); auto.
Qed.

Section Comb.
Variable G : ist -> Prop.
Hypothesis HG : Stable G.

Lemma QS_impl {A} (P P' : A -> Prop) p q : (forall t, P t -> P' t) -> QSg G P' p q -> QSg G P p q.
Proof. intros H Q s s1 t Hg E He Hp. apply (Q s s1 t Hg E He (H t Hp)). Qed.

Lemma QS_map {A B} (f : A -> B) (P : B -> Prop) p q :
  QSg G (fun a => P (f a)) p q -> QSg G P (p_map f p) (i_map f q).
Proof.
  intros Q s s1 t Hg E He Hp. apply p_map_ok in E as (a & E & ->).
  destruct (Q s s1 a Hg E He Hp) as (s' & E' & A1 & A2).
  exists s'. unfold i_map. rewrite E'. cbn [ibind]. auto.
Qed.

Lemma QS_pair {A B} (PA : A -> Prop) (PB : B -> Prop) (p : parser A) (p' : parser B) q q' :
  WF p -> MonoE p' -> QSg G PA p q -> QSg G PB p' q' ->
  QSg G (fun ab => PA (fst ab) /\ PB (snd ab)) (p_pair p p') (i_pair q q').
Proof.
  intros [Hf Hm] Hm' Q Q' s s2 t Hg E He [Ha Hb].
  apply p_pair_ok in E as (s1 & E1 & E2). destruct t as [a b]. cbn [fst snd] in *.
  pose proof (MonoE_ok p _ _ _ Hm E1) as X1. pose proof (MonoE_ok p' _ _ _ Hm' E2) as X2.
  assert (He' : ebuf s2 = ebuf (proj s)) by exact He.
  destruct (ext_quiet _ _ _ X1 X2 He') as [Y1 Y2].
  destruct (Q s s1 a Hg E1 Y1 Ha) as (s1' & E1' & A1 & A2).
  assert (Hg' : G s1') by (eapply G_step; eauto).
  rewrite <- A1 in E2. rewrite <- A1 in Y2.
  destruct (Q' s1' s2 b Hg' E2 Y2 Hb) as (s2' & E2' & B1 & B2).
  exists s2'. unfold i_pair. rewrite E1'. cbn [ibind]. rewrite E2'. cbn [ibind].
  repeat split; [exact B1 | congruence].
Qed.

Lemma QS_preceded {A B} (PB : B -> Prop) (p : parser A) (p' : parser B) q q' :
  WF p -> MonoE p' -> QSg G (fun _ => True) p q -> QSg G PB p' q' ->
  QSg G PB (p_preceded p p') (i_preceded q q').
Proof.
  intros Hw Hm' Q Q'. unfold p_preceded, i_preceded. apply QS_map.
  eapply QS_impl; [|apply (QS_pair (fun _ => True) PB p p' q q' Hw Hm' Q Q')]. intros [a b] H. cbn [fst snd] in *. auto.
Qed.

Lemma QS_terminated {A B} (PA : A -> Prop) (p : parser A) (p' : parser B) q q' :
  WF p -> MonoE p' -> QSg G PA p q -> QSg G (fun _ => True) p' q' ->
  QSg G PA (p_terminated p p') (i_terminated q q').
Proof.
  intros Hw Hm' Q Q'. unfold p_terminated, i_terminated. apply QS_map.
  eapply QS_impl; [|apply (QS_pair PA (fun _ => True) p p' q q' Hw Hm' Q Q')]. intros [a b] H. cbn [fst snd] in *. auto.
Qed.

Lemma QS_info {A} (P : A -> Prop) (p : parser A) q :
  QSg G P p q -> QSg G (fun ai => i_errs (snd ai) = [] /\ P (fst ai)) (p_info p) (i_info q).
Proof.
  intros Q s s1 t Hg E He [Hc Hp]. apply p_info_ok in E as (s0 & E & -> & Hi).
  destruct t as [a inf]. cbn [fst snd] in *. subst inf. cbn [i_errs] in Hc.
  assert (Hg' : G (iset_ebuf s [])).
  { destruct HG as [Hb Hst]. apply (Hst s); auto. exact (Hb s Hg). }
  change (set_ebuf (proj s) []) with (proj (iset_ebuf s [])) in E.
  destruct (Q (iset_ebuf s []) s0 a Hg' E Hc Hp) as (s' & E' & A1 & A2).
  exists (iset_ebuf s' (iebuf s)). unfold i_info. rewrite E'. subst s0.
  split; [reflexivity|]. split; [reflexivity | exact A2].
Qed.

Lemma QS_expect {A T} (this : option T) (P : A -> Prop) (p : parser A) (q : option T -> iparser A) m :
  MonoE p -> QSg G P p (q this) ->
  QSg G (fun o => match o with Some a => P a | None => True end) (p_expect p m) (i_expect this q m).
Proof.
  intros Hm Q s s1 t Hg E He Hp. apply p_expect_ok in E as [(a & E & ->)|(e & E & -> & ->)].
  - destruct (Q s s1 a Hg E He Hp) as (s' & E' & A1 & A2).
    exists s'. unfold i_expect. rewrite E'. auto.
  - exfalso. pose proof (MonoE_err p _ _ Hm E) as X. unfold expect_error, push_err in He. cbn [ebuf set_ebuf] in He.
    exact (ext_push_neq _ _ _ X He).
Qed.

Lemma QS_expect0 {A} (P : A -> Prop) (p : parser A) q m :
  MonoE p -> QSg G P p q ->
  QSg G (fun o => match o with Some a => P a | None => True end) (p_expect p m) (i_expect0 q m).
Proof. intros Hm Q. unfold i_expect0. apply (QS_expect (@None unit) P p (fun _ => q) m Hm Q). Qed.

(* alternatives parsed without an old node: the first one fails on both sides or on neither *)
Lemma QS_alt {A} (P : A -> Prop) (p p' : parser A) q q' :
  Sim p q -> QSg G P p q -> QSg G P p' q' -> QSg G P (p_alt p p') (i_alt q q').
Proof.
  intros Hs Q Q' s s1 t Hg E He Hp. unfold p_alt in E. unfold i_alt. specialize (Hs s).
  destruct (p (proj s)) as [s0 a|s0|] eqn:E0.
  - injection E as -> ->. destruct (Q s s1 t Hg E0 He Hp) as (s' & E' & A1 & A2). rewrite E'. eauto.
  - destruct (q s) as [s0' a'|s0' fl| |]; cbn in Hs; try contradiction. apply (Q' s s1 t Hg E He Hp).
  - discriminate.
Qed.

Lemma QS_opt_some {A} (P : A -> Prop) (p : parser A) q :
  QSg G P p q -> QSg G (fun o => match o with Some a => P a | None => False end) (p_opt p) (i_opt q).
Proof.
  intros Q s s1 t Hg E He Hp. destruct t as [a|]; [|contradiction]. unfold p_opt in E.
  destruct (p (proj s)) as [s0 a0|s0|] eqn:E0; try discriminate. injection E as -> ->.
  destruct (Q s s1 a Hg E0 He Hp) as (s' & E' & A1 & A2). exists s'. unfold i_opt. rewrite E'. auto.
Qed.

Lemma QS_opt_none {A} (p : parser A) q :
  Sim p q -> QSg G (fun o => o = None) (p_opt p) (i_opt q).
Proof.
  intros Hs s s1 t Hg E He ->. unfold p_opt in E. specialize (Hs s).
  destruct (p (proj s)) as [s0 a0|s0|] eqn:E0; try discriminate. injection E as <-.
  unfold i_opt. destruct (q s) as [s0' a'|s0' fl| |]; cbn in Hs; try contradiction. eauto.
Qed.

Lemma QS_many0 {A} (P : A -> Prop) (p : parser A) q :
  WF p -> Sim p q -> QSg G P p q -> forall fuel, QSg G (Forall P) (p_many0 fuel p) (i_many0 fuel q).
Proof.
  intros [Hf Hm] Hs Q. induction fuel as [|f IH]; intros s s2 t Hg E He Hp; [discriminate|].
  cbn [p_many0] in E. cbn [i_many0]. pose proof (Hs s) as Hss.
  destruct (p (proj s)) as [s1 a|s1|] eqn:E1; try discriminate.
  - destruct (Nat.eqb (pos s1) (pos (proj s))) eqn:En; [discriminate|].
    apply bind_ok in E as (s2' & l & E2 & [= <- <-]).
    pose proof (MonoE_ok p _ _ _ Hm E1) as X1. pose proof (MonoE_ok _ _ _ _ (MonoE_many0 f p Hm) E2) as X2.
    assert (He' : ebuf s2' = ebuf (proj s)) by exact He.
    destruct (ext_quiet _ _ _ X1 X2 He') as [Y1 Y2].
    inversion Hp as [|? ? Ha Hl]; subst.
    destruct (Q s s1 a Hg E1 Y1 Ha) as (s1' & E1' & A1 & A2).
    assert (Hg' : G s1') by (eapply G_step; eauto).
    rewrite E1'. rewrite <- A1 in En. cbn [proj pos] in En. rewrite En.
    rewrite <- A1 in E2, Y2.
    destruct (IH s1' s2' l Hg' E2 Y2 Hl) as (s2'' & E2' & B1 & B2).
    exists s2''. rewrite E2'. cbn [ibind]. repeat split; [exact B1 | congruence].
  - injection E as <- <-. destruct (q s) as [s0' a'|s0' fl| |]; cbn in Hss; try contradiction. eauto.
Qed.

Lemma QS_bind {A B} (PA : A -> Prop) (P : B -> Prop) (p : parser A) q (f : st -> A -> B) (f' : ist -> A -> B) :
  (forall s a, f (proj s) a = f' s a) ->
  QSg G (fun a => PA a) p q ->
  (forall s a, P (f s a) -> PA a) ->
  QSg G P (fun s => bind (p s) (fun s' a => POk s' (f s' a))) (fun s => ibind (q s) (fun s' a => IOk s' (f' s' a))).
Proof.
  intros Hf Q Hi s s1 t Hg E He Hp. apply bind_ok in E as (s0 & a & E & [= -> <-]).
  destruct (Q s s1 a Hg E He (Hi _ _ Hp)) as (s' & E' & A1 & A2).
  exists s'. rewrite E'. cbn [ibind]. rewrite <- A1, Hf. auto.
Qed.

(* ---- leaves ---- *)
Lemma QS_comments : QSg G (fun _ => True) (p_comments toks) (i_comments toks).
Proof. intros s s1 t Hg E He _. unfold p_comments in E. injection E as <- <-. unfold i_comments. eexists. split; [reflexivity|]. split; reflexivity. Qed.

Lemma QS_tag f : QSg G (fun _ => True) (p_tag toks f) (i_tag toks f).
Proof.
  intros s s1 t Hg E He _. unfold p_tag in E. unfold i_tag. cbn [proj pos adv] in E.
  change (comments_at toks (ipos s)) with (icomments_at toks (ipos s)) in E. cbn [ipos iadv].
  destruct (nth_error toks _) as [t'|]; [|discriminate]. destruct (f (tk t')); [|discriminate].
  injection E as <- <-. eexists. split; [reflexivity|]. split; reflexivity.
Qed.

Lemma QS_peek_la la : QSg G (fun _ => True) (p_peek_la la) (i_peek_la la).
Proof.
  intros s s1 t Hg E He _. unfold p_peek_la in E. unfold i_peek_la. cbn [proj pos] in E.
  destruct (la (ipos s)); [|discriminate]. injection E as <- <-. eauto.
Qed.

End Comb.

(* a part parsed without an old node, inside a part parsed with one *)
Lemma QS_weaken {A} (P : A -> Prop) p q : QSg GoodN P p q -> QSg Good P p q.
Proof. intros Q s s1 t Hg. apply Q, Good_GoodN, Hg. Qed.

(* ---- Reference::parse ---- *)
Lemma QS_ref_none {A} (P : A -> Prop) (p : parser A) (q : option A -> iparser A) :
  QSg GoodN P p (q None) -> QSg GoodN (fun ao => P (fst ao)) (p_ref p) (i_ref None q).
Proof.
  intros Q s s1 t Hg E He Hp. apply p_ref_ok in E as (s0 & E & -> & Ho). destruct t as [a o]. cbn [fst snd] in *.
  change (set_refp (proj s) (pos (proj s))) with (proj (iset_refp s (ipos s))) in E.
  destruct (Q (iset_refp s (ipos s)) s0 a Hg E He Hp) as (s' & E' & A1 & A2).
  unfold i_ref. cbn [option_map]. rewrite E'. eexists. split; [subst o; reflexivity|]. subst s0. split; [reflexivity | exact A2].
Qed.

Lemma QS_ref_some {A} (P : A -> Prop) (p : parser A) (q : option A -> iparser A) th off :
  QSg Good P p (q (Some th)) ->
  QSg Good (fun ao => snd ao = off /\ P (fst ao)) (p_ref p) (i_ref (Some (th, off)) q).
Proof.
  intros Q s s1 t (G1 & G2 & G3) E He [Ho Hp]. apply p_ref_ok in E as (s0 & E & -> & Ho'). destruct t as [a o]. cbn [fst snd] in *.
  set (sx := iset_refp (iset_incr s (incr s ++ [off])) (ipos s)).
  change (set_refp (proj s) (pos (proj s))) with (proj sx) in E.
  assert (Hg : Good sx).
  { unfold Good, sx. cbn [irefp ipos iset_refp iset_incr]. rewrite <- Ho, Ho'. cbn [proj pos refp].
    split; [|split; [lia | exact G3]].
    change (old_reference (iset_refp (iset_incr s (incr s ++ [ipos s - irefp s])) (ipos s)))
      with (old_reference (iset_incr s (incr s ++ [ipos s - irefp s]))).
    rewrite old_reference_push. lia. }
  destruct (Q sx s0 a Hg E He Hp) as (s' & E' & A1 & A2).
  assert (Hi : i_ref (Some (th, off)) q s =
                match q (Some th) sx with
                | IOk s' a => IOk (iset_incr (iset_refp s' (irefp s)) (removelast (incr (iset_refp s' (irefp s))))) (a, ipos s - irefp s)
                | IErr s' b => IErr (iset_incr (iset_refp s' (irefp s)) (removelast (incr s'))) b
                | IPanic => IPanic | IFuel => IFuel end) by reflexivity.
  rewrite Hi, E'. eexists. split; [rewrite Ho'; reflexivity|].
  subst s0. split; [reflexivity|]. cbn [incr iset_incr iset_refp]. rewrite A2. unfold sx. cbn [incr iset_incr iset_refp].
  apply removelast_last.
Qed.

(* ---- affected ---- *)
Definition Rng {A} (inf : A -> info) (p : parser A) : Prop :=
  forall s s1 t, refp s <= pos s -> pos s <= N -> p s = POk s1 t ->
    i_s (inf t) = pos s - refp s /\ i_e (inf t) = pos s1 - refp s /\ pos s < pos s1.

Lemma QS_affected {A} (th : A) (inf : A -> info) (strip : A -> A) (P : A -> Prop) p inner :
  FwdT p -> Rng inf p ->
  i_s (inf (strip th)) = i_s (inf th) -> i_e (inf (strip th)) = i_e (inf th) ->
  QSg Good P p inner ->
  QSg Good (fun t => t = strip th /\ P t) p (i_affected toks w w 0 (Some th) inf strip inner).
Proof.
  intros Hf Hr Hs1 Hs2 Q s s1 t Hg E He [-> Hp]. pose proof Hg as (G1 & G2 & G3).
  destruct (Hr (proj s) s1 _ G2 G3 E) as (R1 & R2 & R3).
  destruct (Fwd_ok toks sync_none p (proj s) s1 _ Hf G3 E) as (M1 & M2 & M3 & _).
  cbn [proj pos refp ebuf] in *. rewrite Hs1 in R1. rewrite Hs2 in R2.
  unfold i_affected. cbv zeta. rewrite G1.
  replace (i_s (inf th) + irefp s) with (ipos s) by lia.
  replace (i_e (inf th) + irefp s) with (pos s1) by lia.
  rewrite (tc_invalid_empty (ipos s) (pos s1) R3).
  destruct (tc_overlaps w w (ipos s) (pos s1 + 1)).
  - destruct (Q s s1 _ Hg E He Hp) as (s' & E' & A1 & A2). rewrite E'. eauto.
  - replace (ipos s + (pos s1 - ipos s)) with (pos s1) by lia.
    destruct (Nat.leb_spec (pos s1) N) as [_|H]; [|lia].
    eexists. split; [reflexivity|]. split; [|reflexivity].
    unfold proj. cbn [ipos irefp iebuf iadv]. replace (ipos s + (pos s1 - ipos s)) with (pos s1) by lia.
    rewrite <- M3, <- He. apply st_eta.
Qed.

(* ---- many(Some(old elements)) ---- *)
Section Many.
Context {A : Type}.
Variable pe : parser (A * nat).
Variable qe : option (A * nat) -> iparser (A * nat).
Variable start_of : A * nat -> nat.
Variable Rel : A * nat -> A * nat -> Prop.      (* old element, element of the scratch parse *)
Hypothesis Hwf : WF pe.
Hypothesis Hsim : Sim pe (qe None).
Hypothesis Hel : forall o, QSg Good (Rel o) pe (qe (Some o)).
Hypothesis Hstart : forall o a s s1, Rel o a -> refp s <= pos s -> pe s = POk s1 a -> start_of o <= pos s.

Lemma parse_insertion_none fuel e s acc : e <= ipos s -> parse_insertion qe fuel e s acc = (IOk s acc, acc).
Proof. intros H. destruct fuel; cbn [parse_insertion]; destruct (Nat.ltb_spec (ipos s) e); try lia; reflexivity. Qed.

Lemma many_old_reuse : forall olds fuel f' s s1 l acc,
  Good s -> 0 < fuel -> p_many0 f' pe (proj s) = POk s1 l -> ebuf s1 = iebuf s -> Forall2 Rel olds l ->
  exists s', many_old w w 0 qe start_of fuel olds s acc = IOk s' (acc ++ l) /\ proj s' = s1 /\ incr s' = incr s.
Proof.
  destruct Hwf as [Hf Hm].
  induction olds as [|o rest IH]; intros fuel f' s s1 l acc Hg Hfu E He HR.
  - inversion HR; subst. destruct f' as [|f']; [discriminate|]. cbn [p_many0] in E.
    destruct fuel as [|fuel]; [lia|]. cbn [many_old i_many0]. pose proof (Hsim s) as Hss.
    destruct (pe (proj s)) as [sa a|sa|] eqn:E1; try discriminate.
    + destruct (Nat.eqb (pos sa) (pos (proj s))); [discriminate|].
      apply bind_ok in E as (x1 & x2 & _ & X). discriminate X.
    + injection E as <-. destruct (qe None s) as [s0' a'|s0' fl| |]; cbn in Hss; try contradiction.
      cbn [ibind]. exists s. rewrite app_nil_r. auto.
  - inversion HR as [|? a ? l' Ha Hl]; subst. destruct f' as [|f']; [discriminate|]. cbn [p_many0] in E.
    destruct (pe (proj s)) as [sa a0|sa|] eqn:E1; try discriminate.
    destruct (Nat.eqb (pos sa) (pos (proj s))); [discriminate|].
    apply bind_ok in E as (s2 & l2 & E2 & X). injection X as <- <- <-.
    pose proof (MonoE_ok pe _ _ _ Hm E1) as X1. pose proof (MonoE_ok _ _ _ _ (MonoE_many0 f' pe Hm) E2) as X2.
    assert (He' : ebuf s2 = ebuf (proj s)) by exact He.
    destruct (ext_quiet _ _ _ X1 X2 He') as [Y1 Y2].
    pose proof Hg as (G1 & G2 & G3).
    cbn [many_old]. unfold handle_insertions. rewrite is_insertion_here_empty, tc_new_pos_empty.
    rewrite parse_insertion_none by (apply (Hstart o a0 (proj s) sa Ha G2 E1)).
    destruct (Hel o s sa a0 Hg E1 Y1 Ha) as (sa' & Ea & A1 & A2). rewrite Ea.
    assert (Hg' : Good sa') by (eapply (G_step Good); eauto using Stable_Good).
    rewrite <- A1 in E2, Y2.
    destruct (IH fuel f' sa' s2 l2 (acc ++ [a0]) Hg' Hfu E2 Y2 Hl) as (s' & E' & B1 & B2).
    exists s'. rewrite E'. rewrite <- app_assoc. cbn [app]. repeat split; [exact B1 | congruence].
Qed.

Lemma QS_many fuel olds :
  QSg Good (fun l => Forall2 Rel olds l) (p_many0 fuel pe) (i_many w w 0 qe start_of fuel (Some olds)).
Proof.
  intros s s1 l Hg E He HR. unfold i_many. destruct fuel as [|fuel]; [discriminate|].
  destruct (many_old_reuse olds (S fuel) (S fuel) s s1 l [] Hg ltac:(lia) E He HR) as (s' & E' & B).
  exists s'. rewrite E'. auto.
Qed.

End Many.

Lemma many0_map {A B} (g : A -> B) (p : parser A) : forall f s s2 l,
  p_many0 f (p_map g p) s = POk s2 l -> exists l', p_many0 f p s = POk s2 l' /\ l = map g l'.
Proof.
  induction f as [|f IH]; intros s s2 l E; [discriminate|]. cbn [p_many0] in *. unfold p_map in E at 1.
  destruct (p s) as [s1 a|s1|]; cbn [bind] in E; try discriminate.
  - destruct (Nat.eqb (pos s1) (pos s)); [discriminate|].
    apply bind_ok in E as (s3 & l3 & E3 & X). injection X as <- <-.
    destruct (IH _ _ _ E3) as (l' & E' & ->). rewrite E'. cbn [bind]. exists (a :: l'). auto.
  - injection E as <- <-. exists []. auto.
Qed.

Lemma many0_all {A} (Q : A -> Prop) (p : parser A) :
  (forall s s1 a, p s = POk s1 a -> Q a) -> forall f s s2 l, p_many0 f p s = POk s2 l -> Forall Q l.
Proof.
  intros H. induction f as [|f IH]; intros s s2 l E; [discriminate|]. cbn [p_many0] in E.
  destruct (p s) as [s1 a|s1|] eqn:E1; try discriminate.
  - destruct (Nat.eqb (pos s1) (pos s)); [discriminate|].
    apply bind_ok in E as (s3 & l3 & E3 & X). injection X as <- <-. constructor; [eapply H; eauto | eapply IH; eauto].
  - injection E as <- <-. constructor.
Qed.

End QS.
