(* C02, thirteenth request handler (textDocument/formatting), parser part.

   The formatter (Model/Format.v) walks the tree of ANY document and slices the token vector with
     - the AstInfo range of every statement, of every parameter / variable / type / procedure
       declaration, of every error node (expression, statement, declaration, global) and of every
       int literal                                                     (`info.slice(tokens)`),
     - the offset of every Reference                                   (`&tokens[offset..]`),
   and it `expect`s a literal token inside the slice of an int literal.  [XF M off x] says that all
   of these are fine for the node x printed at accumulated offset off on a token vector with last
   index M: start <= end, off + end <= M, off + offset <= M, and the slice of an int literal contains
   a literal token.  Ranges the formatter never reads (identifiers, operators, array accesses,
   array types, the program) are not constrained.

   [Inv]/[InvAt] and the generic combinator lemmas of RangeProofsBound.v are reused as they are (they
   are parametric in the predicate); only `info` (start <= end), `Reference::parse` (offset in
   bounds) and the int literal (token content) need their own lemmas.  Result: [parse_fwf] - the
   tree `parse` returns on ANY token list that ends with its only Eof token satisfies ProgF. *)
From Coq Require Import Arith Lia List.
From Spl Require Import Model.Parser Proofs.ParserComb Proofs.ParserEqns Proofs.ParserFwd Proofs.ParserDecl
  Proofs.ParserTotal Proofs.RangeProofsIdent Proofs.RangeProofsBound.
Import ListNotations.
Local Open Scope nat_scope.

(* IntLiteral::fmt looks for one of these *)
Definition lit_kind (k : kind) : bool :=
  match k with IntT _ | HexT _ | CharT _ => true | _ => false end.
Definition lit_tok (t : token) : bool := lit_kind (tk t).

Lemma nth_error_firstn_lt {A} (l : list A) : forall n i, i < n -> nth_error (firstn n l) i = nth_error l i.
Proof.
  induction l as [|x l IH]; intros n i Hi.
  - rewrite firstn_nil. reflexivity.
  - destruct n as [|n]; [lia|]. destruct i as [|i]; [reflexivity|]. cbn [firstn nth_error]. apply IH. lia.
Qed.

(* canonical predicate per result type, as in RangeProofsBound (first argument: the bound M) *)
Class Fw (A : Type) := fw : nat -> nat -> A -> Prop.

Section Wf.
Variable toks : list token.

Section Pred.
Variable M : nat.

Definition InfoF (off : nat) (i : info) : Prop := i_s i <= i_e i /\ off + i_e i <= M.
Definition IntlitF (off : nat) (i : intlit) : Prop :=
  InfoF off (il_info i) /\
  exists t, In t (firstn (i_e (il_info i) - i_s (il_info i)) (skipn (off + i_s (il_info i)) toks)) /\ lit_tok t = true.

(* a Reference: its offset is a valid start of a slice, the node is fine behind it *)
Definition RefF {A} (P : nat -> A -> Prop) (off : nat) (x : A * nat) : Prop :=
  off + snd x <= M /\ P (off + snd x) (fst x).

Fixpoint VarF (off : nat) (v : variable) {struct v} : Prop :=
  match v with
  | NamedVar _ => True
  | ArrAccess a idx _ =>
      VarF off a /\ match idx with Some (e, o) => off + o <= M /\ ExprF (off + o) e | None => True end
  end
with ExprF (off : nat) (e : expr) {struct e} : Prop :=
  match e with
  | EBin _ l r _ => ExprF off l /\ ExprF off r
  | EBrack a _ => ExprF off a
  | EUn _ a _ => ExprF off a
  | EInt i => IntlitF off i
  | EVar v => VarF off v
  | EErr inf => InfoF off inf
  end.

Fixpoint TexprF (off : nat) (t : typeexpr) {struct t} : Prop :=
  match t with
  | TNamed _ => True
  | TArray size base _ =>
      OptB IntlitF off size /\
      match base with Some (b, o) => off + o <= M /\ TexprF (off + o) b | None => True end
  end.

Fixpoint StmtF (off : nat) (s : stmt) {struct s} : Prop :=
  let opt_stmt (r : option (stmt * nat)) : Prop :=
    match r with Some (x, o) => off + o <= M /\ StmtF (off + o) x | None => True end in
  match s with
  | SEmpty inf | SError inf => InfoF off inf
  | SAssign v e inf => InfoF off inf /\ VarF off v /\ OptB (RefF ExprF) off e
  | SCall _ args inf => InfoF off inf /\ Forall (RefF ExprF off) args
  | SIf c t e inf => InfoF off inf /\ OptB (RefF ExprF) off c /\ opt_stmt t /\ opt_stmt e
  | SWhile c b inf => InfoF off inf /\ OptB (RefF ExprF) off c /\ opt_stmt b
  | SBlock body inf =>
      InfoF off inf /\
      (fix go (l : list (stmt * nat)) : Prop :=
         match l with [] => True | (x, o) :: r => (off + o <= M /\ StmtF (off + o) x) /\ go r end) body
  end.

Definition VardeclF (off : nat) (v : vardecl) : Prop :=
  match v with
  | VValid _ _ ty inf => InfoF off inf /\ OptB (RefF TexprF) off ty
  | VError inf => InfoF off inf
  end.

Definition ParamdeclF (off : nat) (p : paramdecl) : Prop :=
  match p with
  | PValid _ _ _ ty inf => InfoF off inf /\ OptB (RefF TexprF) off ty
  | PError inf => InfoF off inf
  end.

Definition TypedeclF (off : nat) (d : typedecl) : Prop :=
  InfoF off (td_info d) /\ OptB (RefF TexprF) off (td_ty d).

Definition ProcdeclF (off : nat) (d : procdecl) : Prop :=
  InfoF off (pd_info d) /\
  Forall (RefF ParamdeclF off) (pd_params d) /\ Forall (RefF VardeclF off) (pd_vars d) /\
  Forall (RefF StmtF off) (pd_stmts d).

Definition GdeclF (off : nat) (g : gdecl) : Prop :=
  match g with GType d => TypedeclF off d | GProc d => ProcdeclF off d | GError inf => InfoF off inf end.

Definition ProgF (p : program) : Prop := Forall (RefF GdeclF 0) (pg_decls p).

Lemma StmtF_block off body inf : StmtF off (SBlock body inf) <-> InfoF off inf /\ Forall (RefF StmtF off) body.
Proof.
  cbn [StmtF]. apply and_iff_compat_l. induction body as [|[x o] r IH].
  - split; [constructor | exact (fun _ => I)].
  - split.
    + intros [H1 H2]. constructor; [exact H1 | apply IH, H2].
    + intros H. inversion H as [|? ? H1 H2]; subst. split; [exact H1 | apply IH, H2].
Qed.

Lemma StmtF_optref off (r : option (stmt * nat)) :
  match r with Some (x, o) => off + o <= M /\ StmtF (off + o) x | None => True end <-> OptB (RefF StmtF) off r.
Proof. destruct r as [[x o]|]; reflexivity. Qed.

Lemma ExprF_optref off (r : option (expr * nat)) :
  match r with Some (x, o) => off + o <= M /\ ExprF (off + o) x | None => True end <-> OptB (RefF ExprF) off r.
Proof. destruct r as [[x o]|]; reflexivity. Qed.

Lemma InfoF_self_err off inf e : InfoF off inf -> InfoF off (info_append inf e).
Proof. intros H. exact H. Qed.

Lemma InfoF_mk off a : off + a <= M -> InfoF off (mkinfo a a).
Proof. intros H. split; [apply le_n | exact H]. Qed.

End Pred.

#[local] Instance fw_ident : Fw ident := trivB.
#[local] Instance fw_intlit : Fw intlit := IntlitF.
#[local] Instance fw_info : Fw info := InfoF.
#[local] Instance fw_variable : Fw variable := VarF.
#[local] Instance fw_expr : Fw expr := ExprF.
#[local] Instance fw_texpr : Fw typeexpr := TexprF.
#[local] Instance fw_stmt : Fw stmt := StmtF.
#[local] Instance fw_vardecl : Fw vardecl := VardeclF.
#[local] Instance fw_paramdecl : Fw paramdecl := ParamdeclF.
#[local] Instance fw_typedecl : Fw typedecl := TypedeclF.
#[local] Instance fw_procdecl : Fw procdecl := ProcdeclF.
#[local] Instance fw_gdecl : Fw gdecl := GdeclF.
#[local] Instance fw_token : Fw token := trivB.
#[local] Instance fw_unit : Fw unit := trivB.
#[local] Instance fw_bool : Fw bool := trivB.
#[local] Instance fw_texts : Fw (list text) := trivB.
#[local] Instance fw_tokens : Fw (list token) := trivB.
#[local] Instance fw_optN : Fw (option N) := trivB.
#[local] Instance fw_opt {A} (H : Fw A) : Fw (option A) | 5 := fun M => OptB (H M).
#[local] Instance fw_list {A} (H : Fw A) : Fw (list A) | 5 := fun M off => Forall (H M off).
#[local] Instance fw_ref {A} (H : Fw A) : Fw (A * nat) | 4 := fun M => RefF M (H M).
#[local] Instance fw_pair {A B} (HA : Fw A) (HB : Fw B) : Fw (A * B) | 5 :=
  fun M off x => HA M off (fst x) /\ HB M off (snd x).

Ltac unfold_fw :=
  unfold fw, fw_ident, fw_intlit, fw_info, fw_variable, fw_expr, fw_texpr, fw_stmt, fw_vardecl, fw_paramdecl,
    fw_typedecl, fw_procdecl, fw_gdecl, fw_token, fw_unit, fw_bool, fw_texts, fw_tokens, fw_optN,
    fw_opt, fw_list, fw_ref, fw_pair, trivB in *.
Ltac fw_unf := unfold TypedeclF, ProcdeclF, GdeclF, VardeclF, ParamdeclF, OptB, RefF in *.

Hypothesis HE : EofLast toks.
Notation N := (length toks).
Notation M := (length toks - 1).
Notation InvT := (Inv toks).
Notation InvAtT := (InvAt toks).

(* ---- the generic combinator lemmas, at the class Fw ---- *)
Lemma FInv_fuel {A} (P : Fw A) : InvT P (fun _ => PFuel).
Proof. exact (Inv_fuel toks P). Qed.
Lemma FInv_comments : InvT fw_texts (p_comments toks).
Proof. exact (Inv_comments toks HE). Qed.
Lemma FInv_tag f : f Eof = false -> InvT fw_token (p_tag toks f).
Proof. exact (Inv_tag toks HE f). Qed.
Lemma FInv_peek_la la : InvT fw_unit (p_peek_la la).
Proof. exact (Inv_peek_la toks la). Qed.
Lemma FInv_ignore0 la : la M = true -> InvT fw_tokens (p_ignore0 toks la).
Proof. exact (Inv_ignore0 toks la). Qed.
Lemma FInv_ignore1 la : la M = true -> InvT fw_tokens (p_ignore1 toks la).
Proof. exact (Inv_ignore1 toks la). Qed.
Lemma FInv_map {A B} (HA : Fw A) (HB : Fw B) (f : A -> B) p :
  InvT HA p -> (forall off a, HA M off a -> HB M off (f a)) -> InvT HB (p_map f p).
Proof. exact (Inv_map toks HA HB f p). Qed.
Lemma FInv_alt {A} (H : Fw A) (p q : parser A) : InvT H p -> InvT H q -> InvT H (p_alt p q).
Proof. exact (Inv_alt toks H p q). Qed.
Lemma FInv_restore {A} (H : Fw A) (p : parser A) : InvT H p -> InvT H (p_restore p).
Proof. exact (Inv_restore toks H p). Qed.
Lemma FInv_opt {A} (H : Fw A) (p : parser A) : InvT H p -> InvT (fw_opt H) (p_opt p).
Proof. exact (Inv_opt toks H p). Qed.
Lemma FInv_pair {A B} (HA : Fw A) (HB : Fw B) (p : parser A) (q : parser B) :
  InvT HA p -> InvT HB q -> InvT (fw_pair HA HB) (p_pair p q).
Proof. exact (Inv_pair toks HA HB p q). Qed.
Lemma FInv_preceded {A B} (HA : Fw A) (HB : Fw B) (p : parser A) (q : parser B) :
  InvT HA p -> InvT HB q -> InvT HB (p_preceded p q).
Proof. exact (Inv_preceded toks HA HB p q). Qed.
Lemma FInv_terminated {A B} (HA : Fw A) (HB : Fw B) (p : parser A) (q : parser B) :
  InvT HA p -> InvT HB q -> InvT HA (p_terminated p q).
Proof. exact (Inv_terminated toks HA HB p q). Qed.
Lemma FInv_many0 {A} (H : Fw A) fuel (p : parser A) : InvT H p -> InvT (fw_list H) (p_many0 fuel p).
Proof. exact (Inv_many0 toks H fuel p). Qed.
Lemma FInv_expect {A} (H : Fw A) (p : parser A) m : InvT H p -> InvT (fw_opt H) (p_expect p m).
Proof. exact (Inv_expect toks H p m). Qed.
Lemma FInv_confusable {A} (H : Fw A) (p : parser A) m : InvT H p -> InvT H (p_confusable p m).
Proof. exact (Inv_confusable toks H p m). Qed.
Lemma FInv_bind {A B} (HA : Fw A) (HB : Fw B) (p : parser A) (k : st -> A -> pres B) :
  InvT HA p -> (forall off a, HA M off a -> InvAtT off (HB M off) (fun s => k s a)) ->
  InvT HB (fun s => bind (p s) k).
Proof. exact (Inv_bind toks HA HB p k). Qed.

(* ---- `info`: the range it builds starts where the parser started and ends where it stopped ---- *)
Lemma FInv_info {A} (H : Fw A) (p : parser A) : InvT H p -> InvT (fw_pair H fw_info) (p_info p).
Proof.
  intros Hp off s r G Ho Hr Hb. unfold p_info.
  assert (H0 : postc toks (set_ebuf s []) off (H M off) (p (set_ebuf s []))).
  { apply Hp; [exact G | exact Ho | lia | constructor]. }
  destruct G as [G1 G2].
  destruct (p (set_ebuf s [])) as [s1 a|s1|]; cbn [postc] in *; [| |exact I].
  - destruct H0 as ((A1 & A2 & A3) & B1 & Pa). cbn [pos refp set_ebuf] in *.
    repeat split; cbn [pos refp set_ebuf fst snd i_s i_e i_errs]; try assumption; try lia.
  - destruct H0 as ((A1 & A2 & A3) & B1). cbn [pos refp set_ebuf] in *.
    repeat split; cbn [pos refp set_ebuf]; assumption.
Qed.

(* ---- `Reference::parse`: the offset is the position, which is in bounds ---- *)
Lemma FInv_ref {A} (H : Fw A) (p : parser A) : InvT H p -> InvT (fw_ref H) (p_ref p).
Proof.
  intros Hp off s r [G1 G2] Ho Hr Hb. unfold p_ref.
  assert (H0 : postc toks (set_refp s (pos s)) r (H M (pos s)) (p (set_refp s (pos s)))).
  { apply Hp; [split; cbn [pos refp set_refp]; lia | reflexivity | lia | exact Hb]. }
  destruct (p (set_refp s (pos s))) as [s1 a|s1|]; cbn [postc] in *; [| |exact I].
  - destruct H0 as ((A1 & A2 & A3) & B1 & Pa). cbn [pos refp set_refp] in *.
    repeat split; cbn [pos refp set_refp]; try assumption.
    + cbn [fst snd]. lia.
    + cbn [fst snd]. replace (off + (pos s - refp s)) with (pos s) by lia. exact Pa.
  - destruct H0 as ((A1 & A2 & A3) & B1). cbn [pos refp set_refp] in *.
    repeat split; cbn [pos refp set_refp]; assumption.
Qed.

(* strengthening a postcondition by a fact about successful runs *)
Lemma postc_and {A} s r (P Q : A -> Prop) (x : pres A) :
  postc toks s r P x -> (forall s' a, x = POk s' a -> Q a) -> postc toks s r (fun a => P a /\ Q a) x.
Proof.
  destruct x as [s' a|e|]; cbn [postc]; intros H K; [|exact H|exact I].
  destruct H as (S1 & B1 & Pa). split; [exact S1|]. split; [exact B1|]. split; [exact Pa | exact (K s' a eq_refl)].
Qed.

(* ---- int literals: the slice ends with the literal token ---- *)
Lemma tag_in_slice f s s' t :
  p_tag toks f s = POk s' t ->
  pos s <= pos s' /\ In t (firstn (pos s' - pos s) (skipn (pos s) toks)) /\ f (tk t) = true.
Proof.
  intros H. apply p_tag_ok in H as (Ht & Hf & ->). pose proof (sig_at_ge toks (pos s)) as Hge.
  cbn [pos adv]. split; [lia|]. split; [|exact Hf].
  apply nth_error_In with (n := sig_at toks (pos s) - pos s).
  rewrite nth_error_firstn_lt by lia. rewrite nth_error_skipn_add.
  replace (pos s + (sig_at toks (pos s) - pos s)) with (sig_at toks (pos s)) by lia. exact Ht.
Qed.

Lemma intlit_slice s s' i :
  refp s <= pos s -> p_intlit toks s = POk s' i ->
  exists t, In t (firstn (i_e (il_info i) - i_s (il_info i)) (skipn (refp s + i_s (il_info i)) toks)) /\ lit_tok t = true.
Proof.
  intros Hr H. unfold p_intlit in H. apply p_map_ok in H as ([v inf] & H & ->).
  apply p_info_ok in H as (s1 & H & _ & Hinf). cbn [fst snd] in H, Hinf. subst inf.
  apply p_map_ok in H as (t & H & _). cbn [fst snd il_info i_s i_e].
  assert (K : exists g, p_tag toks g (set_ebuf s []) = POk s1 t /\ forall k, g k = true -> lit_kind k = true).
  { apply p_alt_ok in H as [H|[_ H]]; [eexists; split; [exact H|]; intros [] Hk; try discriminate Hk; reflexivity|].
    apply p_alt_ok in H as [H|[_ H]]; eexists; (split; [exact H|]); intros [] Hk; try discriminate Hk; reflexivity. }
  destruct K as (g & Hg & Hk). apply tag_in_slice in Hg as (Hle & Hin & Hgt). cbn [pos set_ebuf] in Hle, Hin.
  exists t. split.
  - replace (pos s1 - refp s - (pos s - refp s)) with (pos s1 - pos s) by lia.
    replace (refp s + (pos s - refp s)) with (pos s) by lia. exact Hin.
  - exact (Hk _ Hgt).
Qed.

(* ------------------------------------------------------------------------------------------ *)
(* tactics (as in RangeProofsBound) *)
Ltac fw_destruct := repeat match goal with x : _ * _ |- _ => destruct x end.
Ltac fw_opts :=
  repeat match goal with
         | |- context [match ?o with Some _ => _ | None => _ end] => is_var o; destruct o
         end.
Ltac fw_side :=
  solve [ intros; unfold_fw; fw_unf; fw_destruct; cbn in *; fw_unf; fw_opts; fw_destruct; cbn in *; fw_unf;
          intuition (auto using InfoF_self_err) ].

Ltac finv_step :=
  first
  [ assumption
  | apply (FInv_fuel _)
  | apply FInv_comments
  | apply FInv_tag; [reflexivity]
  | apply FInv_peek_la
  | apply FInv_ignore0; [la_last HE]
  | apply FInv_ignore1; [la_last HE]
  | apply (FInv_restore _) | apply (FInv_alt _) | apply (FInv_opt _) | apply (FInv_pair _) | apply (FInv_preceded _)
  | apply (FInv_terminated _) | apply (FInv_many0 _) | apply (FInv_info _) | apply (FInv_expect _) | apply (FInv_ref _)
  | apply (FInv_confusable _)
  | eapply (FInv_map _); [ | fw_side ] ].
Ltac finv := repeat finv_step.

(* ------------------------------------------------------------------------------------------ *)
(* non-terminals *)
Lemma FInv_ident : InvT fw_ident (p_ident toks).
Proof. unfold p_ident. finv. Qed.

Lemma FInv_intlit : InvT fw_intlit (p_intlit toks).
Proof.
  assert (H0 : InvT (fun M off (i : intlit) => InfoF M off (il_info i)) (p_intlit toks)).
  { unfold p_intlit. apply (FInv_map (fw_pair fw_optN fw_info)); [finv|]. intros off [v inf] [_ H]. exact H. }
  intros off s r G Ho Hr Hb. specialize (H0 off s r G Ho Hr Hb).
  refine (postc_and s r _ _ _ H0 _). intros s' i E. rewrite <- Ho. apply (intlit_slice s s' i); [apply G | exact E].
Qed.

Lemma FInvAt_rhs off p lhs op :
  InvT fw_expr p -> ExprF M off lhs -> InvAtT off (ExprF M off) (p_rhs p lhs op).
Proof.
  intros Hp Hl. unfold p_rhs.
  apply InvAt_bind with (P := fw_opt fw_expr M off); [apply (FInv_expect _), Hp|].
  intros rhs Hr. apply InvAt_ret. intros s [G1 G2] Ho. cbn [ExprF].
  split; [exact Hl|].
  destruct rhs as [e|]; [exact Hr|]. cbn [ExprF]. apply InfoF_mk. lia.
Qed.

Lemma VarF_fold off accesses : forall v0 vinfo,
  VarF M off v0 ->
  Forall (fun a : (option (expr * nat) * option token) * info => OptB (RefF M (ExprF M)) off (fst (fst a))) accesses ->
  VarF M off (fold_left (fun v a => ArrAccess v (fst (fst a)) (extend_range (snd a) vinfo)) accesses v0).
Proof.
  induction accesses as [|a r IH]; intros v0 vinfo Hv Ha; cbn [fold_left]; [exact Hv|].
  inversion Ha as [|? ? H1 H2]; subst. apply IH; [|exact H2].
  cbn [VarF]. split; [exact Hv | apply ExprF_optref, H1].
Qed.

Lemma FInv_expr_all f :
  InvT fw_variable (p_variable toks f) /\ InvT fw_expr (p_primary toks f) /\ InvT fw_expr (p_factor toks f) /\
  (forall off e, ExprF M off e -> InvAtT off (ExprF M off) (fun s => mul_loop toks f s e)) /\
  InvT fw_expr (p_mul toks f) /\
  (forall off e, ExprF M off e -> InvAtT off (ExprF M off) (fun s => add_loop toks f s e)) /\
  InvT fw_expr (p_add toks f) /\
  InvT fw_expr (p_comparison toks f).
Proof.
  induction f as [|f (IHvar & IHpri & IHfac & IHml & IHmul & IHal & IHadd & IHcmp)].
  - repeat split; try intros off e He; try apply FInv_fuel; apply InvAt_fuel.
  - pose proof (FInv_ident) as Hid. pose proof (FInv_intlit) as Hil. repeat split.
    + rewrite p_variable_S. eapply (FInv_bind _); [finv|].
      intros off [[v0 vinfo] acc] [[Hv Hvi] Hacc]. apply InvAt_ret. intros _ _ _. apply VarF_fold; [exact Hv|].
      eapply Forall_impl; [|exact Hacc]. intros a [[Ha _] Hai]. exact Ha.
    + rewrite p_primary_S. apply (FInv_alt _); [finv|]. apply (FInv_alt _); [finv|].
      eapply (FInv_bind _); [finv|].
      intros off [[[x lp] [e y]] inf] [[[_ Hlp] [He _]] Hinf]. cbn [fst snd] in *.
      apply InvAt_ret. intros _ _ _. cbn [ExprF].
      destruct e as [e|]; [exact He|]. cbn [ExprF]. apply InfoF_mk. exact (proj2 Hlp).
    + rewrite p_factor_S. apply (FInv_alt _); [exact IHpri|]. finv.
    + intros off e He.
      apply InvAt_ext with (p := fun s => match p_tag toks is_mulop s with
         | POk s1 op => bind (p_rhs (p_factor toks f) e (op_of (tk op)) s1) (fun s2 e' => mul_loop toks f s2 e')
         | PErr _ => POk s e | PFuel => PFuel end); [intros s; now rewrite mul_loop_S|].
      apply (InvAt_tag_loop _ HE); [reflexivity | exact He|]. intros t.
      apply (InvAt_bind toks off (ExprF M off) (ExprF M off) (p_rhs (p_factor toks f) e (op_of (tk t)))).
      * now apply FInvAt_rhs.
      * intros a Ha. now apply IHml.
    + rewrite p_mul_S. apply (FInv_bind fw_expr fw_expr (p_factor toks f)); [exact IHfac | exact IHml].
    + intros off e He.
      apply InvAt_ext with (p := fun s => match p_tag toks is_addop s with
         | POk s1 op => bind (p_rhs (p_mul toks f) e (op_of (tk op)) s1) (fun s2 e' => add_loop toks f s2 e')
         | PErr _ => POk s e | PFuel => PFuel end); [intros s; now rewrite add_loop_S|].
      apply (InvAt_tag_loop _ HE); [reflexivity | exact He|]. intros t.
      apply (InvAt_bind toks off (ExprF M off) (ExprF M off) (p_rhs (p_mul toks f) e (op_of (tk t)))).
      * now apply FInvAt_rhs.
      * intros a Ha. now apply IHal.
    + rewrite p_add_S. apply (FInv_bind fw_expr fw_expr (p_mul toks f)); [exact IHmul | exact IHal].
    + rewrite p_comparison_S. apply (FInv_bind fw_expr fw_expr (p_add toks f)); [exact IHadd|].
      intros off e He. apply (InvAt_tag_loop _ HE); [reflexivity | exact He|]. intros t. now apply FInvAt_rhs.
Qed.

Lemma FInv_variable f : InvT fw_variable (p_variable toks f). Proof. apply FInv_expr_all. Qed.
Lemma FInv_comparison f : InvT fw_expr (p_comparison toks f). Proof. apply FInv_expr_all. Qed.
Lemma FInv_expr f : InvT fw_expr (p_expr toks f). Proof. apply FInv_comparison. Qed.

Lemma FInv_texpr f : InvT fw_texpr (p_texpr toks f).
Proof.
  pose proof (FInv_ident) as Hid. pose proof (FInv_intlit) as Hil.
  induction f as [|f IH]; [apply FInv_fuel|]. rewrite p_texpr_S. apply (FInv_alt _); finv.
Qed.

Lemma FInv_list {A} (H : Fw A) fuel (p : parser A) :
  InvT H p -> InvT (fw_list (fw_ref H)) (p_list toks fuel p).
Proof.
  intros Hp. unfold p_list. eapply (FInv_bind _); [finv|].
  intros off head Hh.
  eapply (InvAt_bind toks off _ _ (p_many0 fuel
     (p_map (fun r => (fst (fst r), snd r + snd (fst r)))
        (p_ref (p_preceded (p_tag toks (is_k Comma)) (p_ref p)))))).
  - apply (FInv_many0 _). eapply (FInv_map _); [finv|].
    intros off' [[a o1] o2] [Ha1 [Ha2 Ha3]]. unfold fw_ref, RefF in *. cbn [fst snd] in *.
    replace (off' + (o2 + o1)) with (off' + o2 + o1) by lia. split; assumption.
  - intros tail Ht. apply InvAt_ret. intros _ _ _. constructor; assumption.
Qed.

Lemma FInv_argument f : InvT fw_expr (p_argument toks f).
Proof. pose proof (FInv_expr f). unfold p_argument. finv. Qed.

Lemma FInv_call f : InvT fw_stmt (p_call toks f).
Proof.
  pose proof (FInv_ident) as Hid. pose proof (FInv_list _ f _ (FInv_argument f)).
  unfold p_call. finv.
Qed.

Lemma FInv_assign f : InvT fw_stmt (p_assign toks f).
Proof. pose proof (FInv_variable f). pose proof (FInv_expr f). unfold p_assign. finv. Qed.

Lemma FInv_stmt f : InvT fw_stmt (p_stmt toks f).
Proof.
  induction f as [|f IH]; [apply FInv_fuel|]. rewrite p_stmt_S.
  pose proof (FInv_expr f). pose proof (FInv_call f). pose proof (FInv_assign f).
  apply (FInv_alt _); [finv|]. apply (FInv_alt _); [finv|]. apply (FInv_alt _); [finv|].
  apply (FInv_alt _).
  { eapply (FInv_map _); [finv|]. intros off [[body t] inf] [[Hb _] Hi]. apply StmtF_block. split; assumption. }
  finv.
Qed.

Lemma FInv_vardecl f : InvT fw_vardecl (p_vardecl toks f).
Proof. pose proof (FInv_ident) as Hid. pose proof (FInv_texpr f). unfold p_vardecl. finv. Qed.

Lemma FInv_paramdecl f : InvT fw_paramdecl (p_paramdecl toks f).
Proof. pose proof (FInv_ident) as Hid. pose proof (FInv_texpr f). unfold p_paramdecl. finv. Qed.

Lemma FInv_typedecl f : InvT fw_typedecl (p_typedecl toks f).
Proof. pose proof (FInv_ident) as Hid. pose proof (FInv_texpr f). unfold p_typedecl. finv. Qed.

Lemma FInv_procdecl f : InvT fw_procdecl (p_procdecl toks f).
Proof.
  pose proof (FInv_ident) as Hid. pose proof (FInv_list _ f _ (FInv_paramdecl f)).
  pose proof (FInv_vardecl f). pose proof (FInv_stmt f). unfold p_procdecl. finv.
Qed.

Lemma FInv_gdecl f : InvT fw_gdecl (p_gdecl toks f).
Proof. pose proof (FInv_typedecl f). pose proof (FInv_procdecl f). unfold p_gdecl. finv. Qed.

Lemma FInv_decls f f' : InvT (fw_pair (fw_list (fw_ref fw_gdecl)) fw_info) (p_info (p_many0 f (p_ref (p_gdecl toks f')))).
Proof. pose proof (FInv_gdecl f'). finv. Qed.

End Wf.

(* every tree `parse` returns on an EofLast token list is printable: all the formatter's slices exist *)
Theorem parse_fwf toks prog : EofLast toks -> parse toks = Done prog -> ProgF toks (length toks - 1) prog.
Proof.
  intros HE. unfold parse.
  destruct (p_program toks (parse_fuel toks) {| pos := 0; refp := 0; ebuf := [] |}) as [s p|e|] eqn:E;
    [|discriminate|discriminate].
  intros [= <-]. unfold p_program in E. apply p_map_ok in E as ([[ds inf] u] & E & ->).
  apply p_pair_ok in E as (s1 & E & _). cbn [fst snd] in *.
  pose proof (FInv_decls toks HE (parse_fuel toks) (parse_fuel toks) 0 {| pos := 0; refp := 0; ebuf := [] |} 0) as H.
  rewrite E in H. cbn [postc] in H.
  destruct H as (_ & _ & [Hd Hi]); [split; cbn [pos refp]; lia | reflexivity | lia | constructor|].
  exact Hd.
Qed.
