(* T4: the stated fuel suffices.  [NFat b p]: p does not run out of fuel when at most b tokens remain.
   Every fuel-consuming recursion either consumes a token (b decreases; 8 units of fuel are available
   per token) or descends along the fixed chain
   statement(9) > comparison(7) > add(6) > mul(5) > factor(4) > primary(3) > variable(2),
   the number being the constant part of the requirement  fuel >= 8*b + d.
   Holds for ALL token lists. *)
From Coq Require Import Arith Lia List.
From Spl Require Import Model.Parser Proofs.ParserComb Proofs.ParserEqns Proofs.ParserFwd Proofs.ParserDecl.
Local Open Scope nat_scope.

Section Fuel.
Variable toks : list token.
Notation N := (length toks).
Notation Fwd0 := (Fwd toks sync_none).

Definition NFat {A} (b : nat) (p : parser A) : Prop :=
  forall s, pos s <= N -> N - pos s <= b -> p s <> PFuel.

Lemma NF_mono {A} b b' (p : parser A) : b' <= b -> NFat b p -> NFat b' p.
Proof. intros Hb H s Hs Hr. apply H; [exact Hs | lia]. Qed.

Lemma NF_ret {A} b (f : st -> A) : NFat b (fun s => POk s (f s)).
Proof. intros s _ _. discriminate. Qed.

Lemma NF_map {A B} b (f : A -> B) p : NFat b p -> NFat b (p_map f p).
Proof.
  intros Hp s Hs Hr H. unfold p_map in H. apply bind_fuel in H as [H|(s1 & a & _ & H)]; [|discriminate].
  now apply Hp in H.
Qed.

Lemma NF_alt {A} b (p q : parser A) : NFat b p -> NFat b q -> NFat b (p_alt p q).
Proof.
  intros Hp Hq s Hs Hr. unfold p_alt. specialize (Hp s Hs Hr). specialize (Hq s Hs Hr).
  destruct (p s); [discriminate | exact Hq | congruence].
Qed.

Lemma NF_restore {A} b (p : parser A) : NFat b p -> NFat b (p_restore p).
Proof. intros Hp s Hs Hr H. apply p_restore_fuel in H. exact (Hp s Hs Hr H). Qed.

Lemma NF_opt {A} b (p : parser A) : NFat b p -> NFat b (p_opt p).
Proof. intros Hp s Hs Hr. unfold p_opt. specialize (Hp s Hs Hr). destruct (p s); congruence. Qed.

Lemma NF_info {A} b (p : parser A) : NFat b p -> NFat b (p_info p).
Proof.
  intros Hp s Hs Hr. unfold p_info. specialize (Hp (set_ebuf s []) Hs Hr).
  destruct (p (set_ebuf s [])); congruence.
Qed.

Lemma NF_expect {A} b (p : parser A) m : NFat b p -> NFat b (p_expect p m).
Proof. intros Hp s Hs Hr. unfold p_expect. specialize (Hp s Hs Hr). destruct (p s); congruence. Qed.

Lemma NF_ref {A} b (p : parser A) : NFat b p -> NFat b (p_ref p).
Proof.
  intros Hp s Hs Hr. unfold p_ref. specialize (Hp (set_refp s (pos s)) Hs Hr).
  destruct (p (set_refp s (pos s))); congruence.
Qed.

Lemma NF_bind {A B} b (p : parser A) (k : st -> A -> pres B) :
  NFat b p -> Fwd0 p -> (forall a, NFat b (fun s => k s a)) -> NFat b (fun s => bind (p s) k).
Proof.
  intros Hp Fp Hk s Hs Hr H. apply bind_fuel in H as [H|(s1 & a & H1 & H)]; [now apply Hp in H|].
  apply (Fwd_ok _ _ _ _ _ _ Fp Hs) in H1 as (M1 & M2 & _).
  assert (Hr1 : N - pos s1 <= b) by lia. exact (Hk a s1 M2 Hr1 H).
Qed.

Lemma NF_confusable {A} b (p : parser A) m : NFat b p -> NFat b (p_confusable p m).
Proof.
  intros Hp s Hs Hr H. unfold p_confusable in H.
  apply bind_fuel in H as [H|(s1 & a & _ & H)]; [|discriminate]. exact (NF_info b p Hp s Hs Hr H).
Qed.

Lemma NF_pair {A B} b (p : parser A) (q : parser B) : NFat b p -> Fwd0 p -> NFat b q -> NFat b (p_pair p q).
Proof.
  intros Hp Fp Hq. unfold p_pair. apply NF_bind; [exact Hp | exact Fp|]. intros a s Hs Hr H.
  apply bind_fuel in H as [H|(s1 & x & _ & H)]; [|discriminate]. now apply Hq in H.
Qed.

(* after a progressing head, one token less remains *)
Lemma NF_pair_prog {A B} b (p : parser A) (q : parser B) :
  NFat b p -> Fwd0 p -> Prog toks p -> (0 < b -> NFat (b - 1) q) -> NFat b (p_pair p q).
Proof.
  intros Hp Fp Pp Hq s Hs Hr H. unfold p_pair in H.
  apply bind_fuel in H as [H|(s1 & a & H1 & H)]; [now apply Hp in H|].
  pose proof (Pp _ _ _ Hs H1) as Hlt. apply (Fwd_ok _ _ _ _ _ _ Fp Hs) in H1 as (M1 & M2 & _).
  apply bind_fuel in H as [H|(s2 & x & _ & H)]; [|discriminate].
  assert (Hb : 0 < b) by lia. assert (Hr1 : N - pos s1 <= b - 1) by lia. exact (Hq Hb s1 M2 Hr1 H).
Qed.

Lemma NF_tag b f : NFat b (p_tag toks f).
Proof. intros s _ _. apply p_tag_nofuel. Qed.

Lemma NF_comments b : NFat b (p_comments toks).
Proof. intros s _ _. discriminate. Qed.

Lemma NF_peek b la : NFat b (p_peek_la la).
Proof. intros s _ _. unfold p_peek_la. destruct (la (pos s)); discriminate. Qed.

Lemma ignore_from_nofuel n la s : ignore_from toks n la s <> PFuel.
Proof.
  revert s. induction n as [|n IH]; intros s; cbn [ignore_from]; destruct (la (pos s)); try discriminate.
  destruct (Nat.ltb (pos s) N); [apply IH | discriminate].
Qed.

Lemma NF_ignore0 b la : NFat b (p_ignore0 toks la).
Proof.
  intros s _ _ H. unfold p_ignore0 in H. apply bind_fuel in H as [H|(s1 & a & _ & H)]; [|discriminate].
  now apply ignore_from_nofuel in H.
Qed.

Lemma NF_ignore1 b la : NFat b (p_ignore1 toks la).
Proof. intros s Hs Hr. unfold p_ignore1. destruct (la (pos s)); [discriminate | now apply NF_ignore0 with b]. Qed.

Lemma Fwd0_tag f : Fwd0 (p_tag toks f).
Proof. fwd_solve Hs0. Qed.

Lemma NF_pair_tag {B} b f (q : parser B) : (0 < b -> NFat (b - 1) q) -> NFat b (p_pair (p_tag toks f) q).
Proof. apply NF_pair_prog; [apply NF_tag | apply Fwd0_tag | apply Prog_tag]. Qed.

Lemma NF_many0 {A} b fuel (p : parser A) : b < fuel -> NFat b p -> Fwd0 p -> NFat b (p_many0 fuel p).
Proof.
  intros Hb Hp Fp. revert b Hb Hp. induction fuel as [|f IH]; intros b Hb Hp s Hs Hr; [lia|].
  cbn [p_many0]. pose proof (Hp s Hs Hr) as Hnf.
  destruct (p s) as [s1 a|e|] eqn:E; [|discriminate|congruence].
  destruct (Nat.eqb (pos s1) (pos s)) eqn:Eq; [discriminate|]. apply Nat.eqb_neq in Eq.
  apply (Fwd_ok _ _ _ _ _ _ Fp Hs) in E as (M1 & M2 & _).
  intros H. apply bind_fuel in H as [H|(s2 & l & _ & H)]; [|discriminate].
  refine (IH (b - 1) _ _ s1 M2 _ H); [lia | eapply NF_mono; [|exact Hp]; lia | lia].
Qed.

(* the shape `match p_tag f s with POk s1 t => k s1 t | PErr _ => POk s d | PFuel => PFuel end` *)
Lemma NF_tag_loop {A} b f (k : st -> token -> pres A) (d : A) :
  (0 < b -> forall t, NFat (b - 1) (fun s => k s t)) ->
  NFat b (fun s => match p_tag toks f s with POk s1 op => k s1 op | PErr _ => POk s d | PFuel => PFuel end).
Proof.
  intros Hk s Hs Hr. destruct (p_tag toks f s) as [s1 t|e|] eqn:E; [|discriminate|now apply p_tag_nofuel in E].
  pose proof (Prog_tag toks f _ _ _ Hs E) as Hlt.
  apply (Fwd_ok _ _ _ _ _ _ (Fwd0_tag f) Hs) in E as (M1 & M2 & _).
  assert (Hb : 0 < b) by lia. assert (Hr1 : N - pos s1 <= b - 1) by lia. exact (Hk Hb t s1 M2 Hr1).
Qed.

Lemma NF_fun_ext {A} b (p q : parser A) : (forall s, p s = q s) -> NFat b p -> NFat b q.
Proof. intros E H s Hs Hr. rewrite <- E. now apply H. Qed.

Lemma NF_ident b : NFat b (p_ident toks).
Proof. unfold p_ident. apply NF_map, NF_info, NF_tag. Qed.

Lemma NF_intlit b : NFat b (p_intlit toks).
Proof. unfold p_intlit. repeat first [apply NF_map | apply NF_info | apply NF_alt | apply NF_tag]. Qed.

Lemma NF_rhs b p lhs op : NFat b p -> Fwd0 p -> NFat b (p_rhs p lhs op).
Proof.
  intros Hp Fp. unfold p_rhs. apply NF_bind; [now apply NF_expect | fwd_solve Hs0 |].
  intros a. apply NF_ret.
Qed.

Ltac nf_step :=
  first
  [ assumption
  | match goal with H : _ -> NFat ?b ?p |- NFat ?b ?p => solve [auto 3] end
  | match goal with H : _ -> _ -> NFat ?b ?p |- NFat ?b ?p => solve [auto 3] end
  | apply NF_tag | apply NF_comments | apply NF_peek | apply NF_ignore0 | apply NF_ignore1 | apply NF_ret
  | apply NF_ident | apply NF_intlit
  | apply NF_map | apply NF_restore | apply NF_alt | apply NF_opt | apply NF_info | apply NF_expect | apply NF_ref
  | apply NF_confusable
  | apply NF_pair_tag; [intros ?]
  | apply NF_pair; [ | solve [fwd_solve Hs0] | ]
  | apply NF_many0; [ lia | | solve [fwd_solve Hs0] ] ].
Ltac nf := unfold p_preceded, p_terminated; repeat nf_step.

Lemma NF_expr_all f : forall b,
  (8 * b + 2 <= f -> NFat b (p_variable toks f)) /\
  (8 * b + 3 <= f -> NFat b (p_primary toks f)) /\
  (8 * b + 4 <= f -> NFat b (p_factor toks f)) /\
  (8 * b + 1 <= f -> forall e, NFat b (fun s => mul_loop toks f s e)) /\
  (8 * b + 5 <= f -> NFat b (p_mul toks f)) /\
  (8 * b + 1 <= f -> forall e, NFat b (fun s => add_loop toks f s e)) /\
  (8 * b + 6 <= f -> NFat b (p_add toks f)) /\
  (8 * b + 7 <= f -> NFat b (p_comparison toks f)).
Proof.
  induction f as [|f IH]; intros b; [repeat split; intros; lia|].
  repeat split; intros Hf.
  - rewrite p_variable_S. apply NF_bind; [|fwd_solve Hs0|intros [[v0 vi] acc]; apply NF_ret].
    nf. apply (IH (b - 1)). lia.
  - rewrite p_primary_S. apply NF_alt; [nf|]. apply NF_alt; [apply NF_map, (IH b); lia|].
    apply NF_bind; [|fwd_solve Hs0|intros [[[x lp] [e y]] inf]; apply NF_ret].
    apply NF_info, NF_pair_prog; [nf | fwd_solve Hs0 | apply Prog_info, Prog_tag|]. intros Hb.
    nf. apply (IH (b - 1)). lia.
  - rewrite p_factor_S. apply NF_alt; [apply (IH b); lia|]. nf. apply (IH (b - 1)). lia.
  - intros e.
    apply NF_fun_ext with (p := fun s => match p_tag toks is_mulop s with
         | POk s1 op => bind (p_rhs (p_factor toks f) e (op_of (tk op)) s1) (fun s2 e' => mul_loop toks f s2 e')
         | PErr _ => POk s e | PFuel => PFuel end); [intros s; now rewrite mul_loop_S|].
    apply NF_tag_loop. intros Hb t.
    apply (NF_bind (b - 1) (p_rhs (p_factor toks f) e (op_of (tk t)))).
    + apply NF_rhs; [apply (IH (b - 1)); lia | apply Fwd_expr_all; exact Hs0].
    + apply Fwd_rhs, Fwd_expr_all; exact Hs0.
    + intros e'. apply (IH (b - 1)). lia.
  - rewrite p_mul_S. apply (NF_bind b (p_factor toks f)); [apply (IH b); lia | apply Fwd_expr_all; exact Hs0 |].
    intros e. apply (IH b). lia.
  - intros e.
    apply NF_fun_ext with (p := fun s => match p_tag toks is_addop s with
         | POk s1 op => bind (p_rhs (p_mul toks f) e (op_of (tk op)) s1) (fun s2 e' => add_loop toks f s2 e')
         | PErr _ => POk s e | PFuel => PFuel end); [intros s; now rewrite add_loop_S|].
    apply NF_tag_loop. intros Hb t.
    apply (NF_bind (b - 1) (p_rhs (p_mul toks f) e (op_of (tk t)))).
    + apply NF_rhs; [apply (IH (b - 1)); lia | apply Fwd_expr_all; exact Hs0].
    + apply Fwd_rhs, Fwd_expr_all; exact Hs0.
    + intros e'. apply (IH (b - 1)). lia.
  - rewrite p_add_S. apply (NF_bind b (p_mul toks f)); [apply (IH b); lia | apply Fwd_expr_all; exact Hs0 |].
    intros e. apply (IH b). lia.
  - rewrite p_comparison_S. apply (NF_bind b (p_add toks f)); [apply (IH b); lia | apply Fwd_expr_all; exact Hs0 |].
    intros e. apply NF_tag_loop. intros Hb t.
    apply NF_rhs; [apply (IH (b - 1)); lia | apply Fwd_expr_all; exact Hs0].
Qed.

Lemma NF_variable f b : 8 * b + 2 <= f -> NFat b (p_variable toks f).
Proof. apply NF_expr_all. Qed.
Lemma NF_expr f b : 8 * b + 7 <= f -> NFat b (p_expr toks f).
Proof. apply NF_expr_all. Qed.

Lemma NF_texpr f : forall b, 8 * b + 1 <= f -> NFat b (p_texpr toks f).
Proof.
  induction f as [|f IH]; intros b Hf; [lia|]. rewrite p_texpr_S. nf. apply IH. lia.
Qed.

Lemma NF_list {A} b fuel (p : parser A) : b < fuel -> NFat b p -> Fwd0 p -> NFat b (p_list toks fuel p).
Proof.
  intros Hb Hp Fp. unfold p_list. apply NF_bind; [nf | fwd_solve Hs0 |]. intros hd.
  apply (NF_bind b (p_many0 fuel
     (p_map (fun r => (fst (fst r), snd r + snd (fst r)))
        (p_ref (p_preceded (p_tag toks (is_k Comma)) (p_ref p)))))); [|fwd_solve Hs0|intros tl; apply NF_ret].
  nf. eapply NF_mono; [|exact Hp]. lia.
Qed.

Lemma NF_argument f b : 8 * b + 7 <= f -> NFat b (p_argument toks f).
Proof. intros Hf. pose proof (NF_expr f b Hf). unfold p_argument. nf. Qed.

Lemma NF_call f b : 8 * b + 7 <= f -> NFat b (p_call toks f).
Proof.
  intros Hf. unfold p_call. apply NF_map, NF_info, NF_pair; [nf | fwd_solve Hs0 |].
  apply NF_pair; [|fwd_solve Hs0|nf]. apply NF_alt; [nf|].
  apply NF_list; [lia | now apply NF_argument | fwd_solve Hs0].
Qed.

Lemma NF_assign f b : 8 * b + 7 <= f -> NFat b (p_assign toks f).
Proof.
  intros Hf. pose proof (NF_expr f b Hf). pose proof (NF_variable f b ltac:(lia)). unfold p_assign. nf.
Qed.

Lemma NF_stmt f : forall b, 8 * b + 9 <= f -> NFat b (p_stmt toks f).
Proof.
  induction f as [|f IH]; intros b Hf; [lia|]. rewrite p_stmt_S.
  pose proof (NF_call f b ltac:(lia)). pose proof (NF_assign f b ltac:(lia)).
  assert (He : 0 < b -> NFat (b - 1) (p_expr toks f)) by (intros; apply NF_expr; lia).
  assert (Hst : 0 < b -> NFat (b - 1) (p_stmt toks f)) by (intros; apply IH; lia).
  assert (Hst2 : 0 < b -> 0 < b - 1 -> NFat (b - 1 - 1) (p_stmt toks f)) by (intros; apply IH; lia).
  nf; auto.
Qed.

Lemma NF_vardecl f b : 8 * b + 1 <= f -> NFat b (p_vardecl toks f).
Proof.
  intros Hf. assert (0 < b -> NFat (b - 1) (p_texpr toks f)) by (intros; apply NF_texpr; lia).
  unfold p_vardecl. nf; auto.
Qed.

Lemma NF_paramdecl f b : 8 * b + 1 <= f -> NFat b (p_paramdecl toks f).
Proof.
  intros Hf. pose proof (NF_texpr f b Hf). unfold p_paramdecl. nf.
Qed.

Lemma NF_typedecl f b : 8 * b + 1 <= f -> NFat b (p_typedecl toks f).
Proof.
  intros Hf. assert (0 < b -> NFat (b - 1) (p_texpr toks f)) by (intros; apply NF_texpr; lia).
  unfold p_typedecl. nf; auto.
Qed.

Lemma NF_procdecl f b : 8 * b + 9 <= f -> NFat b (p_procdecl toks f).
Proof.
  intros Hf.
  assert (H1 : 0 < b -> NFat (b - 1) (p_list toks f (p_paramdecl toks f))).
  { intros. apply NF_list; [lia | apply NF_paramdecl; lia | fwd_solve Hs0]. }
  assert (H2 : 0 < b -> NFat (b - 1) (p_vardecl toks f)) by (intros; apply NF_vardecl; lia).
  assert (H3 : 0 < b -> NFat (b - 1) (p_stmt toks f)) by (intros; apply NF_stmt; lia).
  unfold p_procdecl. nf; auto.
Qed.

Lemma NF_gdecl f b : 8 * b + 9 <= f -> NFat b (p_gdecl toks f).
Proof.
  intros Hf. pose proof (NF_procdecl f b Hf). pose proof (NF_typedecl f b ltac:(lia)).
  unfold p_gdecl. nf.
Qed.

Lemma NF_eof_all b : NFat b (p_eof_all toks).
Proof.
  unfold p_eof_all. apply NF_bind; [apply NF_tag | apply Fwd0_tag |].
  intros t s _ _. destruct (Nat.ltb (pos s) N); discriminate.
Qed.

(* T4 for p_program *)
Theorem program_nofuel f b : 8 * b + 9 <= f -> NFat b (p_program toks f).
Proof.
  intros Hf. pose proof (NF_gdecl f b Hf). pose proof (NF_eof_all b). unfold p_program.
  apply NF_map, NF_pair; [|apply Fwd_info, Fwd_many0, Fwd_ref, Fwd0_gdecl|assumption].
  apply NF_info, NF_many0; [lia | now apply NF_ref | apply Fwd_ref, Fwd0_gdecl].
Qed.

End Fuel.

Theorem parse_fuel_suffices toks : parse toks <> OutOfFuel.
Proof.
  unfold parse.
  destruct (p_program toks (parse_fuel toks) {| pos := 0; refp := 0; ebuf := [] |}) as [s p|e|] eqn:E;
    try discriminate.
  exfalso. refine (program_nofuel toks (parse_fuel toks) (length toks) _ _ _ _ E).
  - unfold parse_fuel. lia.
  - cbn. lia.
  - cbn. lia.
Qed.
