(* C16 - completion on VALID programs, in ANY layout: the positive functional theorems.

   p, G, t, toks, d as in Proofs/HoverValid.v (C14 [hover_valid]): p an abstract program of the grammar
   (a comment slot in front of every token), G a global table with [well_typed (expected p) G], t a text
   that lexes to p's token kinds, d its document.  A GAP is the white space between two adjacent tokens
   tprev, tnext of the token vector (comments are tokens: there is no comment in a gap); the cursor
   index c lies in the gap with at least one character between tprev and the cursor:
        te tprev < c <= ts tnext.

   [propose_statement_position]  (S) a procedure declaration with variable declarations vs1 ++ vs2 and
        body b1 ; b2 (top-level statements), where vs2 = [] or b1 is empty; the gap in front of the
        first token of vs2 / b2 / the closing brace (tprev is `{`, the `;` of the last variable
        declaration of vs1, or the last token `;` / `}` of the last statement of b1; tnext is the first
        token - leading comment included - of what follows):
          the answer is  [var snippet; `var`]  (iff b1 holds no statement other than `;`)
                         ++ [while snippet; if snippet; `if`; `while`]
                         ++ one VARIABLE item per entry of the procedure's local table
                         ++ one FUNCTION item per procedure entry of G,
        and the local table's names are exactly the parameters followed by the local variables.
   [propose_nested_statement_position]  (S') the same for statement positions of NESTED blocks: the gap
        in front of a statement of a block `{ .. }` (or of the block's closing brace) that is nested at
        any depth - through blocks, branches of `if`, bodies of `while` - in a top-level statement of
        the body ([sgap], Proofs/ComplValidNest.v): the answer is the statement proposals without the
        `var` starters, with [else snippet; `else`] in front in some cases (then tprev is `}`).
   [propose_type_position]       (T) the gap behind ANY `:` or `of` of a procedure declaration (parameter
        or local variable): the answer is exactly one STRUCT item per type entry of G - `int` and ALL
        declared types, also those declared further down in the text.
   [propose_type_decl_position]  inside a type declaration the answer depends on the kind of tprev only:
        `=` and `of`: [array snippet; `array`] ++ all type entries of G, `]`: [`of`], anything else: `null`.
   (the model follows /repo f933470, which repaired the findings C16-type-decl-equals and C16-proc-array-of) *)
From Coq Require Import PeanoNat NArith Lia List Bool.
From Spl Require Import Proofs.GrammarBase Proofs.GrammarExpr Proofs.GrammarStmt.
From Spl Require Import Proofs.GrammarProofs Spec.Typing Model.Errors Proofs.SemProofs Proofs.TypingProofs.
From Spl Require Import Model.Hover Model.Fold Proofs.LexerProofs Proofs.FoldProofs Proofs.HoverProofs.
From Spl Require Import Proofs.HoverValid Model.Completion Proofs.CompletionProofs.
From Spl Require Import Proofs.ComplValidBase Proofs.ComplValidProc Proofs.ComplValidNest.
Import ListNotations.
Local Open Scope nat_scope.

(* ---------------------------------------------------------------------------------------- *)
(* find_decl on the declarations of the mandated tree                                         *)

Lemma find_decl_ok toks index : forall ds o,
  o + len (flat_map fl_decl ds) <= len toks -> exists r, find_decl toks index (x_decls o ds) = ROk r.
Proof.
  induction ds as [|d ds IH]; intros o H; cbn [x_decls find_decl]; [eexists; reflexivity|].
  cbn [flat_map] in H. rewrite app_length in H. rewrite slice_from_ok by lia. cbn [rbind].
  destruct (decl_text_range toks o d ltac:(lia)) as [f [l [_ [_ Hr]]]]. rewrite Hr. cbn [rbind].
  destruct (in_range _ _); [eexists; reflexivity|]. apply IH. lia.
Qed.

(* the index lies between the start of token ka and the end of token kb, both of declaration d *)
Lemma find_decl_span toks index ka kb a b :
  toks_sorted toks = true -> nth_error toks ka = Some a -> nth_error toks kb = Some b -> ka <= kb ->
  (ts a <= index)%N -> (index < te b)%N ->
  forall l1 o d l2,
    o + len (flat_map fl_decl (l1 ++ d :: l2)) <= len toks ->
    o + len (flat_map fl_decl l1) <= ka -> kb < o + len (flat_map fl_decl l1) + len (fl_decl d) ->
    find_decl toks index (x_decls o (l1 ++ d :: l2)) = ROk (Some (x_decl d, o + len (flat_map fl_decl l1))).
Proof.
  intros Hs Ha Hb Hab H1 H2. induction l1 as [|d' l1 IH]; intros o d l2 Hlen Hlo Hhi.
  - cbn [app flat_map length] in *. rewrite Nat.add_0_r in *. rewrite app_length in Hlen.
    cbn [x_decls find_decl]. rewrite slice_from_ok by lia. cbn [rbind].
    destruct (decl_text_range toks o d ltac:(lia)) as [f [l [Hf [Hl Hr]]]]. rewrite Hr. cbn [rbind].
    destruct (sorted_le toks o ka f a Hs ltac:(lia) Hf Ha) as [Hx _].
    destruct (sorted_le toks kb (o + len (fl_decl d) - 1) b l Hs ltac:(lia) Hb Hl) as [_ Hy].
    unfold in_range. cbn [fst snd]. destruct (N.leb_spec (ts f) index); [|lia]. destruct (N.ltb_spec index (te l)); [|lia].
    reflexivity.
  - cbn [app flat_map] in *. rewrite app_length in *. pose proof (fl_decl_pos d') as Hp.
    cbn [x_decls find_decl]. rewrite slice_from_ok by lia. cbn [rbind].
    destruct (decl_text_range toks o d' ltac:(lia)) as [f [l [Hf [Hl Hr]]]]. rewrite Hr. cbn [rbind].
    pose proof (sorted_pair _ Hs (o + len (fl_decl d') - 1) ka l a ltac:(lia) Hl Ha).
    unfold in_range. cbn [fst snd]. destruct (N.ltb_spec index (te l)); [lia|]. rewrite andb_false_r.
    rewrite (IH (o + len (fl_decl d')) d l2) by lia. do 3 f_equal. lia.
Qed.

Lemma x_decls_in_split : forall l1 o d l2,
  In (x_decl d, o + len (flat_map fl_decl l1)) (x_decls o (l1 ++ d :: l2)).
Proof.
  induction l1 as [|d' l1 IH]; intros o d l2; cbn [app x_decls flat_map length].
  - left. now rewrite Nat.add_0_r.
  - right. rewrite app_length, Nat.add_assoc. apply IH.
Qed.

(* ---------------------------------------------------------------------------------------- *)
(* the token slice of a declaration                                                           *)

Section Slice.
Variable toks : list token.
Variables pre mid post : list kind.
Hypothesis Hk : map tk toks = pre ++ mid ++ post.
Hypothesis Hs : toks_sorted toks = true.

Definition dslice : list token := firstn (len mid) (skipn (len pre) toks).

Lemma dslice_kinds : map tk dslice = mid.
Proof. unfold dslice. now rewrite map_firstn, <- skipn_map, Hk, skipn_app_len, firstn_exact. Qed.

Lemma dslice_sorted : toks_sorted dslice = true.
Proof. unfold dslice. now apply toks_sorted_firstn, toks_sorted_skipn. Qed.

Lemma dslice_nth j : j < len mid -> nth_error dslice j = nth_error toks (len pre + j).
Proof. intros H. unfold dslice. rewrite nth_firstn_lt by exact H. apply nth_skipn. Qed.

Lemma dslice_room : len pre + len mid <= len toks.
Proof. rewrite <- (map_length tk toks), Hk, !app_length. lia. Qed.
End Slice.

(* ---------------------------------------------------------------------------------------- *)
(* `propose` with the corrected position between two tokens of a procedure declaration        *)

Lemma propose_in_proc p G t toks l1 dd l2 line col ka kb a b :
  let d := {| d_text := t; d_toks := toks; d_ast := expected p; d_table := G |} in
  let D := len (flat_map fl_decl l1) in
  let position := correct_index (get_insertion_index line col t) in
  toks_sorted toks = true -> a_decls p = l1 ++ dd :: l2 -> len (flat_map fl_decl (a_decls p)) <= len toks ->
  nth_error toks ka = Some a -> nth_error toks kb = Some b -> ka <= kb -> D <= ka -> kb < D + len (fl_decl dd) ->
  (ts a <= position)%N -> (position < te b)%N ->
  forall pd, x_decl dd = GProc pd ->
  propose d line col = complete_procedure pd position (firstn (len (fl_decl dd)) (skipn D toks)) G.
Proof.
  intros d D position Hs Hds Hlen Ha Hb Hab Hlo Hhi H1 H2 pd Hpd.
  unfold propose, doc_cursor. cbn [d_text d_toks d_ast d_table d expected pg_decls].
  destruct (find_decl_ok toks (get_insertion_index line col t) (a_decls p) 0 Hlen) as [r0 ->].
  cbn [rbind c_index]. fold position. rewrite Hds.
  rewrite (find_decl_span toks position ka kb a b Hs Ha Hb Hab H1 H2 l1 0 dd l2); rewrite <- ?Hds; try (fold D; lia).
  cbn [rbind Nat.add]. fold D. rewrite Hpd.
  assert (Hroom : D + len (fl_decl dd) <= len toks).
  { rewrite Hds, flat_map_app, app_length in Hlen. cbn [flat_map] in Hlen. rewrite app_length in Hlen. fold D in Hlen. lia. }
  rewrite slice_from_ok by lia. cbn [rbind].
  assert (Hinfo : pd_info pd = mkinfo 0 (len (fl_decl dd))).
  { pose proof (x_decl_info dd) as Hi. rewrite Hpd in Hi. exact Hi. }
  rewrite (slice_head _ _ (len (fl_decl dd))); [reflexivity | now rewrite Hinfo | now rewrite Hinfo | rewrite skipn_length; lia].
Qed.

Lemma propose_in_type p G t toks l1 dd l2 line col ka kb a b :
  let d := {| d_text := t; d_toks := toks; d_ast := expected p; d_table := G |} in
  let D := len (flat_map fl_decl l1) in
  let position := correct_index (get_insertion_index line col t) in
  toks_sorted toks = true -> a_decls p = l1 ++ dd :: l2 -> len (flat_map fl_decl (a_decls p)) <= len toks ->
  nth_error toks ka = Some a -> nth_error toks kb = Some b -> ka <= kb -> D <= ka -> kb < D + len (fl_decl dd) ->
  (ts a <= position)%N -> (position < te b)%N ->
  forall td, x_decl dd = GType td ->
  propose d line col = ROk (complete_type position (firstn (len (fl_decl dd)) (skipn D toks)) G).
Proof.
  intros d D position Hs Hds Hlen Ha Hb Hab Hlo Hhi H1 H2 td Htd.
  unfold propose, doc_cursor. cbn [d_text d_toks d_ast d_table d expected pg_decls].
  destruct (find_decl_ok toks (get_insertion_index line col t) (a_decls p) 0 Hlen) as [r0 ->].
  cbn [rbind c_index]. fold position. rewrite Hds.
  rewrite (find_decl_span toks position ka kb a b Hs Ha Hb Hab H1 H2 l1 0 dd l2); rewrite <- ?Hds; try (fold D; lia).
  cbn [rbind Nat.add]. fold D. rewrite Htd.
  assert (Hroom : D + len (fl_decl dd) <= len toks).
  { rewrite Hds, flat_map_app, app_length in Hlen. cbn [flat_map] in Hlen. rewrite app_length in Hlen. fold D in Hlen. lia. }
  rewrite slice_from_ok by lia. cbn [rbind].
  assert (Hinfo : td_info td = mkinfo 0 (len (fl_decl dd))).
  { pose proof (x_decl_info dd) as Hi. rewrite Htd in Hi. exact Hi. }
  rewrite (slice_head _ _ (len (fl_decl dd))); [reflexivity | now rewrite Hinfo | now rewrite Hinfo | rewrite skipn_length; lia].
Qed.

(* ---------------------------------------------------------------------------------------- *)
(* the local table of a procedure: its parameters, then its variables                         *)

Definition aparam_name (q : aparam) : text := match q with PVal _ x _ _ | PRef _ _ x _ _ => x end.
Definition aparams_names (ps : aparams) : list text :=
  match ps with None => [] | Some (a, l) => aparam_name a :: map (fun ca => aparam_name (snd ca)) l end.

Definition pnames (l : list (paramdecl * nat)) : list text :=
  flat_map (fun q => match fst q with PValid _ _ (Some n) _ _ => [id_val n] | _ => [] end) l.
Definition vnames (l : list (vardecl * nat)) : list text :=
  flat_map (fun q => match fst q with VValid _ (Some n) _ _ => [id_val n] | _ => [] end) l.

Lemma wf_params_names Gi pn L l L' es : wf_params Gi pn L l L' es -> map fst L' = map fst L ++ pnames l.
Proof.
  induction 1 as [L | L doc is_ref name te o inf off t r L' es _ _ _ _ IH]; [now rewrite app_nil_r|].
  rewrite IH, map_app, <- app_assoc. reflexivity.
Qed.

Lemma wf_vars_names Gi pn L l L' : wf_vars Gi pn L l L' -> map fst L' = map fst L ++ vnames l.
Proof.
  induction 1 as [L | L doc name te o inf off t r L' _ _ _ IH]; [now rewrite app_nil_r|].
  rewrite IH, map_app, <- app_assoc. reflexivity.
Qed.

Lemma pname_x q o : pnames [(x_param q, o)] = [aparam_name q].
Proof. destruct q; reflexivity. Qed.

Lemma pnames_cons x r : pnames (x :: r) = pnames [x] ++ pnames r.
Proof. unfold pnames. cbn [flat_map]. now rewrite app_nil_r. Qed.

Lemma pnames_tail : forall l o, pnames (x_tail fl_param x_param o l) = map (fun ca => aparam_name (snd ca)) l.
Proof.
  induction l as [|[c a] l IH]; intros o; [reflexivity|]. cbn [x_tail map snd].
  now rewrite pnames_cons, pname_x, IH.
Qed.

Lemma pnames_x ps o : pnames (x_sep fl_param x_param o ps) = aparams_names ps.
Proof.
  destruct ps as [[a l]|]; [|reflexivity]. cbn [x_sep aparams_names].
  now rewrite pnames_cons, pname_x, pnames_tail.
Qed.

Lemma vnames_x : forall vs o, vnames (x_vardecls o vs) = map v_x vs.
Proof. induction vs as [|v vs IH]; intros o; [reflexivity|]. cbn [x_vardecls map]. unfold vnames in *. cbn [flat_map fst x_vardecl app id_val x_ident]. now rewrite IH. Qed.

(* the entry of a procedure declaration of a valid program *)
Lemma proc_entry_names p G l1 c1 c2 x c3 ps c4 c5 vs b c6 l2 :
  well_typed (expected p) G -> a_decls p = l1 ++ DProc c1 c2 x c3 ps c4 c5 vs b c6 :: l2 ->
  exists pe, lookup G x = Some (GProcE pe) /\ map fst (pe_local pe) = aparams_names ps ++ map v_x vs.
Proof.
  intros [[es [Hwf [HG _]]] _] Hds.
  assert (Hg : In (x_decl (DProc c1 c2 x c3 ps c4 c5 vs b c6), 0 + len (flat_map fl_decl l1)) (pg_decls (expected p))).
  { unfold expected. cbn [pg_decls]. rewrite Hds. apply x_decls_in_split. }
  destruct (wf_gdecls_in _ _ _ Hwf _ _ Hg) as [Gi [ke [Hke [Hlk _]]]]. rewrite <- HG in Hlk.
  inversion Hke as [ | d0 name L1 pes L2 Hname _ Hpar Hvar]; subst. cbn [x_decl pd_name] in Hname. injection Hname as <-.
  cbn [fst snd id_val x_ident] in Hlk. eexists. split; [exact Hlk|]. cbn [pe_local].
  cbn [x_decl pd_params pd_vars] in Hpar, Hvar.
  rewrite (wf_vars_names _ _ _ _ _ Hvar), (wf_params_names _ _ _ _ _ _ Hpar), pnames_x, vnames_x. reflexivity.
Qed.

(* ---------------------------------------------------------------------------------------- *)
(* what the items say                                                                         *)

Lemma variables_labels L : map it_label (search_variables L) = map fst L.
Proof. unfold search_variables. rewrite map_map. reflexivity. Qed.
Lemma procedures_labels G : map it_label (search_procedures G) = map fst (filter (fun kv => is_proc_entry (snd kv)) G).
Proof. unfold search_procedures. rewrite map_map. reflexivity. Qed.
Lemma types_labels G : map it_label (search_types G) = map fst (filter (fun kv => is_type_entry (snd kv)) G).
Proof. unfold search_types. rewrite map_map. reflexivity. Qed.

Lemma stmt_items_filters (b : bool) L G :
  let items := (if b then [] else [snip_var; item_var]) ++ new_stmt (Some L) G in
  filter is_var items = search_variables L /\ filter is_fun items = search_procedures G /\ filter is_struct items = [].
Proof. cbv zeta. unfold new_stmt. destruct b; repeat split; filters; reflexivity. Qed.

Lemma nested_items_filters pre L G :
  else_or_not pre ->
  let items := pre ++ new_stmt (Some L) G in
  filter is_var items = search_variables L /\ filter is_fun items = search_procedures G /\ filter is_struct items = [].
Proof. cbv zeta. unfold new_stmt. intros [-> | ->]; repeat split; filters; reflexivity. Qed.

(* ---------------------------------------------------------------------------------------- *)
(* the theorems                                                                               *)

Section Valid.
Variables (p : aprog) (G : gtable) (t : text) (toks : list token) (d : doc).
Hypothesis Hok : prog_ok p = true.
Hypothesis Hwt : well_typed (expected p) G.
Hypothesis Hlex : lex t = Some toks.
Hypothesis Hkinds : map tk toks = flatten p ++ [Eof].
Hypothesis Hdoc : new_doc_res t = ODone d.

Lemma valid_sorted : toks_sorted toks = true.
Proof. exact (ordered_sorted 0 _ (tiles_ordered 0 t _ (lex_tiles t _ Hlex))). Qed.

Lemma valid_room : len (flat_map fl_decl (a_decls p)) <= len toks.
Proof. rewrite <- (map_length tk toks), Hkinds. unfold flatten. rewrite !app_length. lia. Qed.

Lemma valid_split l1 dd l2 : a_decls p = l1 ++ dd :: l2 ->
  map tk toks = flat_map fl_decl l1 ++ fl_decl dd ++ (flat_map fl_decl l2 ++ cm (a_ceof p) ++ [Eof]).
Proof. intros Hds. rewrite Hkinds. unfold flatten. rewrite Hds, flat_map_app. cbn [flat_map]. now rewrite <- !app_assoc. Qed.

(* the corrected position of a cursor in a gap *)
Lemma gap_position k tprev tnext c :
  nth_error toks k = Some tprev -> nth_error toks (S k) = Some tnext -> (te tprev < c)%N -> (c <= ts tnext)%N ->
  (ts tprev < correct_index c /\ te tprev <= correct_index c /\ correct_index c < ts tnext)%N.
Proof.
  intros Hp Hn H1 H2.
  assert (Hne : tk tprev <> Eof).
  { destruct (tiles_last_eof 0 t toks (lex_tiles t _ Hlex)) as [body [E F]].
    assert (Hl : S k < len toks) by (apply nth_error_Some; congruence).
    rewrite E, app_length in Hl. cbn [length] in Hl.
    rewrite E, nth_error_app1 in Hp by lia. apply nth_error_In in Hp.
    rewrite Forall_forall in F. exact (F _ Hp). }
  pose proof (ordered_strict toks 0 k tprev (tiles_ordered 0 t _ (lex_tiles t _ Hlex)) Hp Hne) as Hst.
  unfold correct_index. destruct (N.ltb_spec 0 c); lia.
Qed.

(* (S) statement position *)
Theorem propose_statement_position l1 c1 c2 x c3 ps c4 c5 vs1 vs2 b1 b2 c6 l2 :
  a_decls p = l1 ++ DProc c1 c2 x c3 ps c4 c5 (vs1 ++ vs2) (sapp b1 b2) c6 :: l2 ->
  (vs2 = [] \/ b1 = SNil) ->
  let j := len (flat_map fl_decl l1) + len (proc_head c1 c2 x c3 ps c4 c5) + len (flat_map fl_vardecl vs1) + len (fl_stmts b1) in
  forall tprev tnext line col,
    nth_error toks (j - 1) = Some tprev -> nth_error toks j = Some tnext ->
    (te tprev < get_insertion_index line col t)%N -> (get_insertion_index line col t <= ts tnext)%N ->
    exists pe items,
      lookup G x = Some (GProcE pe) /\
      map fst (pe_local pe) = aparams_names ps ++ map v_x (vs1 ++ vs2) /\
      propose d line col = ROk (Some items) /\
      items = (if has_real b1 then [] else [snip_var; item_var]) ++ new_stmt (Some (pe_local pe)) G /\
      filter is_var items = search_variables (pe_local pe) /\
      filter is_fun items = search_procedures G /\
      filter is_struct items = [].
Proof.
  intros Hds Hcase j tprev tnext line col Hp Hn H1 H2.
  set (dd := DProc c1 c2 x c3 ps c4 c5 (vs1 ++ vs2) (sapp b1 b2) c6) in *.
  destruct (proc_entry_names p G l1 c1 c2 x c3 ps c4 c5 _ _ c6 l2 Hwt Hds) as [pe [Hlk Hnames]].
  exists pe, ((if has_real b1 then [] else [snip_var; item_var]) ++ new_stmt (Some (pe_local pe)) G).
  split; [exact Hlk|]. split; [exact Hnames|].
  destruct (stmt_items_filters (has_real b1) (pe_local pe) G) as [F1 [F2 F3]].
  split; [|split; [reflexivity | split; [exact F1 | split; [exact F2 | exact F3]]]].
  rewrite (HoverValid.valid_doc p G t toks d Hok Hwt Hlex Hkinds Hdoc).
  set (D := len (flat_map fl_decl l1)) in *.
  set (h := len (proc_head c1 c2 x c3 ps c4 c5)) in *.
  set (i := h + len (flat_map fl_vardecl vs1) + len (fl_stmts b1)).
  assert (Hj : j = D + i) by (unfold j, i; lia).
  assert (Hh : 1 <= h) by (unfold h, proc_head; leneq).
  assert (HN : i + 1 <= len (fl_decl dd)).
  { unfold dd. rewrite fl_proc, flat_map_app, fl_stmts_sapp. fold h. unfold i. leneq. }
  pose proof valid_sorted as Hs. pose proof (valid_split l1 dd l2 Hds) as Hk.
  replace j with (S (j - 1)) in Hn by lia.
  destruct (gap_position (j - 1) tprev tnext _ Hp Hn H1 H2) as [G1 [G2 G3]].
  replace (S (j - 1)) with j in Hn by lia.
  set (position := correct_index (get_insertion_index line col t)) in *.
  rewrite (propose_in_proc p G t toks l1 dd l2 line col (j - 1) j tprev tnext Hs Hds valid_room Hp Hn
             ltac:(lia) ltac:(fold D; lia) ltac:(fold D; lia) ltac:(fold position; lia)
             ltac:(fold position; pose proof (sorted_self _ Hs _ _ Hn); lia) (the_proc dd) eq_refl).
  fold D position. change (firstn (len (fl_decl dd)) (skipn D toks)) with (dslice toks (flat_map fl_decl l1) (fl_decl dd)).
  set (sl := dslice toks (flat_map fl_decl l1) (fl_decl dd)).
  assert (Hgl : get_local_table (the_proc dd) G = Some (pe_local pe)).
  { unfold get_local_table, the_proc, dd. cbn [x_decl pd_name id_val x_ident]. now rewrite Hlk. }
  rewrite <- Hgl.
  apply (complete_procedure_stmt_gap c1 c2 x c3 ps c4 c5 vs1 vs2 b1 b2 c6 sl G position tprev tnext Hcase).
  - exact (dslice_sorted toks _ _ Hs).
  - exact (dslice_kinds toks _ _ _ Hk).
  - fold h i. unfold sl. rewrite (dslice_nth toks _ _ (i - 1)) by lia. fold D. now replace (D + (i - 1)) with (j - 1) by lia.
  - fold h i. unfold sl. rewrite (dslice_nth toks _ _ i) by lia. fold D. now rewrite <- Hj.
  - exact G1.
  - exact G2.
  - exact G3.
Qed.

(* (S') statement position of a nested block *)
Theorem propose_nested_statement_position l1 c1 c2 x c3 ps c4 c5 vs b1 s b2 c6 l2 g :
  a_decls p = l1 ++ DProc c1 c2 x c3 ps c4 c5 vs (sapp b1 (SCons s b2)) c6 :: l2 ->
  sgap s g ->
  let j := len (flat_map fl_decl l1) + len (proc_head c1 c2 x c3 ps c4 c5) + len (flat_map fl_vardecl vs) + len (fl_stmts b1) + g in
  forall tprev tnext line col,
    nth_error toks (j - 1) = Some tprev -> nth_error toks j = Some tnext ->
    (te tprev < get_insertion_index line col t)%N -> (get_insertion_index line col t <= ts tnext)%N ->
    exists pe pre items,
      lookup G x = Some (GProcE pe) /\
      map fst (pe_local pe) = aparams_names ps ++ map v_x vs /\
      propose d line col = ROk (Some items) /\
      items = pre ++ new_stmt (Some (pe_local pe)) G /\ else_or_not pre /\
      filter is_var items = search_variables (pe_local pe) /\
      filter is_fun items = search_procedures G /\
      filter is_struct items = [].
Proof.
  intros Hds Hg j tprev tnext line col Hp Hn H1 H2.
  set (dd := DProc c1 c2 x c3 ps c4 c5 vs (sapp b1 (SCons s b2)) c6) in *.
  destruct (proc_entry_names p G l1 c1 c2 x c3 ps c4 c5 _ _ c6 l2 Hwt Hds) as [pe [Hlk Hnames]].
  destruct (sgap_bounds _ _ Hg) as [Hg1 Hg2].
  set (D := len (flat_map fl_decl l1)) in *.
  set (h := len (proc_head c1 c2 x c3 ps c4 c5)) in *.
  set (i := h + len (flat_map fl_vardecl vs) + len (fl_stmts b1) + g).
  assert (Hj : j = D + i) by (unfold j, i; lia).
  assert (HN : i + 1 <= len (fl_decl dd)).
  { unfold dd. rewrite fl_proc, fl_stmts_sapp. cbn [fl_stmts]. fold h. unfold i. leneq. }
  pose proof valid_sorted as Hs. pose proof (valid_split l1 dd l2 Hds) as Hk.
  replace j with (S (j - 1)) in Hn by lia.
  destruct (gap_position (j - 1) tprev tnext _ Hp Hn H1 H2) as [G1 [G2 G3]].
  replace (S (j - 1)) with j in Hn by lia.
  set (position := correct_index (get_insertion_index line col t)) in *.
  assert (Hgl : get_local_table (the_proc dd) G = Some (pe_local pe)).
  { unfold get_local_table, the_proc, dd. cbn [x_decl pd_name id_val x_ident]. now rewrite Hlk. }
  set (sl := dslice toks (flat_map fl_decl l1) (fl_decl dd)).
  destruct (complete_procedure_nested_gap c1 c2 x c3 ps c4 c5 vs b1 s b2 c6 sl G position g tprev tnext Hg
              (dslice_sorted toks _ _ Hs) (dslice_kinds toks _ _ _ Hk)) as [pre [Hpre Hcp]]; try assumption.
  { fold h i. unfold sl. rewrite (dslice_nth toks _ _ (i - 1)) by lia. fold D. now replace (D + (i - 1)) with (j - 1) by lia. }
  { fold h i. unfold sl. rewrite (dslice_nth toks _ _ i) by lia. fold D. now rewrite <- Hj. }
  fold dd in Hcp. rewrite Hgl in Hcp.
  exists pe, pre, (pre ++ new_stmt (Some (pe_local pe)) G).
  destruct (nested_items_filters pre (pe_local pe) G Hpre) as [F1 [F2 F3]].
  split; [exact Hlk|]. split; [exact Hnames|].
  split; [|split; [reflexivity | split; [exact Hpre | split; [exact F1 | split; [exact F2 | exact F3]]]]].
  rewrite (HoverValid.valid_doc p G t toks d Hok Hwt Hlex Hkinds Hdoc).
  rewrite (propose_in_proc p G t toks l1 dd l2 line col (j - 1) j tprev tnext Hs Hds valid_room Hp Hn
             ltac:(lia) ltac:(fold D; lia) ltac:(fold D; lia) ltac:(fold position; lia)
             ltac:(fold position; pose proof (sorted_self _ Hs _ _ Hn); lia) (the_proc dd) eq_refl).
  exact Hcp.
Qed.

(* (T) type position: behind a `:` or an `of` of a procedure declaration *)
Theorem propose_type_position l1 c1 c2 x c3 ps c4 c5 vs b c6 l2 :
  a_decls p = l1 ++ DProc c1 c2 x c3 ps c4 c5 vs b c6 :: l2 ->
  let D := len (flat_map fl_decl l1) in
  forall k tprev tnext line col,
    D <= k -> S k < D + len (fl_decl (DProc c1 c2 x c3 ps c4 c5 vs b c6)) ->
    nth_error toks k = Some tprev -> tk tprev = Colon \/ tk tprev = KOf -> nth_error toks (S k) = Some tnext ->
    (te tprev < get_insertion_index line col t)%N -> (get_insertion_index line col t <= ts tnext)%N ->
    propose d line col = ROk (Some (search_types G)).
Proof.
  intros Hds D k tprev tnext line col Hlo Hhi Hp Hc Hn H1 H2.
  set (dd := DProc c1 c2 x c3 ps c4 c5 vs b c6) in *.
  rewrite (HoverValid.valid_doc p G t toks d Hok Hwt Hlex Hkinds Hdoc).
  pose proof valid_sorted as Hs. pose proof (valid_split l1 dd l2 Hds) as Hk.
  destruct (gap_position k tprev tnext _ Hp Hn H1 H2) as [G1 [G2 G3]].
  set (position := correct_index (get_insertion_index line col t)) in *.
  rewrite (propose_in_proc p G t toks l1 dd l2 line col k (S k) tprev tnext Hs Hds valid_room Hp Hn
             ltac:(lia) ltac:(fold D; lia) ltac:(fold D; lia) ltac:(fold position; lia)
             ltac:(fold position; pose proof (sorted_self _ Hs _ _ Hn); lia) (the_proc dd) eq_refl).
  fold D position. change (firstn (len (fl_decl dd)) (skipn D toks)) with (dslice toks (flat_map fl_decl l1) (fl_decl dd)).
  set (sl := dslice toks (flat_map fl_decl l1) (fl_decl dd)).
  apply (complete_procedure_tpos c1 c2 x c3 ps c4 c5 vs b c6 sl G position (k - D) tprev tnext).
  - exact (dslice_sorted toks _ _ Hs).
  - exact (dslice_kinds toks _ _ _ Hk).
  - unfold sl. rewrite (dslice_nth toks _ _ (k - D)) by (fold dd; lia). fold D. now replace (D + (k - D)) with k by lia.
  - exact Hc.
  - unfold sl. rewrite (dslice_nth toks _ _ (S (k - D))) by (fold dd; lia). fold D. now replace (D + S (k - D)) with (S k) by lia.
  - exact G1.
  - exact G2.
  - exact G3.
Qed.

(* in particular behind an `of` (`a: array [2] of |`) *)
Theorem propose_proc_of_position l1 c1 c2 x c3 ps c4 c5 vs b c6 l2 :
  a_decls p = l1 ++ DProc c1 c2 x c3 ps c4 c5 vs b c6 :: l2 ->
  let D := len (flat_map fl_decl l1) in
  forall k tprev tnext line col,
    D <= k -> S k < D + len (fl_decl (DProc c1 c2 x c3 ps c4 c5 vs b c6)) ->
    nth_error toks k = Some tprev -> tk tprev = KOf -> nth_error toks (S k) = Some tnext ->
    (te tprev < get_insertion_index line col t)%N -> (get_insertion_index line col t <= ts tnext)%N ->
    propose d line col = ROk (Some (search_types G)).
Proof.
  intros Hds D k tprev tnext line col Hlo Hhi Hp Hc Hn H1 H2.
  exact (propose_type_position l1 c1 c2 x c3 ps c4 c5 vs b c6 l2 Hds k tprev tnext line col Hlo Hhi Hp
           (or_intror Hc) Hn H1 H2).
Qed.

(* inside a type declaration *)
Definition type_decl_answer (k : kind) (G : gtable) : option (list item) :=
  match k with
  | RBracket => Some [item_of]
  | EqT | KOf => Some ([snip_array; item_array] ++ search_types G)
  | _ => None
  end.

Theorem propose_type_decl_position l1 c1 c2 x c3 ty c4 l2 :
  a_decls p = l1 ++ DType c1 c2 x c3 ty c4 :: l2 ->
  let D := len (flat_map fl_decl l1) in
  forall k tprev tnext line col,
    D <= k -> S k < D + len (fl_decl (DType c1 c2 x c3 ty c4)) ->
    nth_error toks k = Some tprev -> nth_error toks (S k) = Some tnext ->
    (te tprev < get_insertion_index line col t)%N -> (get_insertion_index line col t <= ts tnext)%N ->
    propose d line col = ROk (type_decl_answer (tk tprev) G).
Proof.
  intros Hds D k tprev tnext line col Hlo Hhi Hp Hn H1 H2.
  set (dd := DType c1 c2 x c3 ty c4) in *.
  rewrite (HoverValid.valid_doc p G t toks d Hok Hwt Hlex Hkinds Hdoc).
  pose proof valid_sorted as Hs. pose proof (valid_split l1 dd l2 Hds) as Hk.
  destruct (gap_position k tprev tnext _ Hp Hn H1 H2) as [G1 [G2 G3]].
  set (position := correct_index (get_insertion_index line col t)) in *.
  rewrite (propose_in_type p G t toks l1 dd l2 line col k (S k) tprev tnext Hs Hds valid_room Hp Hn
             ltac:(lia) ltac:(fold D; lia) ltac:(fold D; lia) ltac:(fold position; lia)
             ltac:(fold position; pose proof (sorted_self _ Hs _ _ Hn); lia) _ eq_refl).
  fold D position. change (firstn (len (fl_decl dd)) (skipn D toks)) with (dslice toks (flat_map fl_decl l1) (fl_decl dd)).
  set (sl := dslice toks (flat_map fl_decl l1) (fl_decl dd)).
  unfold complete_type.
  rewrite (token_before_sorted sl (k - D) tprev tnext position (dslice_sorted toks _ _ Hs)); [reflexivity | | | exact G1 | lia].
  - unfold sl. rewrite (dslice_nth toks _ _ (k - D)) by (fold dd; lia). fold D. now replace (D + (k - D)) with k by lia.
  - unfold sl. rewrite (dslice_nth toks _ _ (S (k - D))) by (fold dd; lia). fold D. now replace (D + S (k - D)) with (S k) by lia.
Qed.

End Valid.
