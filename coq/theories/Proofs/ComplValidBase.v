(* C16 - completion on VALID programs, part 1: the pieces of the position classifier of
   Model/Completion.v on a token vector in text order.

   - [token_before_sorted]: `token_before` at a position strictly behind the start of token k and not
     behind the start of token k+1 is token k;
   - [find_kind]: `find` of a kind test on tokens, read off the token kinds;
   - [stmt_range_at]: the three slicing steps in front of every statement and the text range they give
     (first byte of the first token .. last byte of the last one);
   - with a GAP INDEX i (every token in front of token i ends at or before the position, every token
     from i on starts behind it; section [Gap]):
       [cs_gap]        `complete_statements` on a statement list that has a statement boundary at i falls
                       through to `new_stmt`;
       [in_stmts_gap]  the `in_statements` test of `complete_procedure` says whether a non-empty
                       statement starts in front of i. *)
From Coq Require Import PeanoNat NArith Lia List Bool.
From Spl Require Import Proofs.GrammarBase Proofs.GrammarExpr Proofs.GrammarStmt.
From Spl Require Import Proofs.GrammarProofs Spec.Typing Model.Errors Proofs.SemProofs Proofs.TypingProofs.
From Spl Require Import Model.Hover Model.Fold Proofs.LexerProofs Proofs.FoldProofs Proofs.HoverProofs.
From Spl Require Import Proofs.HoverValid Model.Completion Proofs.CompletionProofs.
Import ListNotations.
Local Open Scope nat_scope.

(* ---------------------------------------------------------------------------------------- *)
(* tokens in text order                                                                       *)

(* every token but Eof is not empty *)
Lemma ordered_strict : forall toks lo i t,
  Ordered lo toks -> nth_error toks i = Some t -> tk t <> Eof -> (ts t < te t)%N.
Proof.
  induction toks as [|x r IH]; intros lo i t H Hn Hk; [destruct i; discriminate|].
  inversion H as [|? ? ? _ _ Hne Hr]; subst. destruct i as [|i]; cbn [nth_error] in Hn.
  - injection Hn as ->. exact (Hne Hk).
  - exact (IH _ _ _ Hr Hn Hk).
Qed.

Lemma kind_at (toks : list token) ks i k :
  map tk toks = ks -> nth_error ks i = Some k -> exists t, nth_error toks i = Some t /\ tk t = k.
Proof.
  intros <- H. rewrite nth_error_map in H. destruct (nth_error toks i) as [t|]; [|discriminate].
  injection H as H. now exists t.
Qed.

Lemma tb_loop_hit : forall l1 a b l2 pos cur,
  Forall (fun t => (ts t < pos)%N) l1 -> (ts a < pos)%N -> (pos <= ts b)%N ->
  tb_loop (l1 ++ a :: b :: l2) pos cur = a.
Proof.
  induction l1 as [|x l1 IH]; intros a b l2 pos cur H Ha Hb; cbn [app tb_loop].
  - destruct (N.leb_spec pos (ts a)); [lia|]. destruct (N.leb_spec pos (ts b)); [reflexivity | lia].
  - inversion H as [|? ? Hx Hr]; subst. destruct (N.leb_spec pos (ts x)); [lia|]. now apply IH.
Qed.

Lemma token_before_sorted sl k a b pos :
  toks_sorted sl = true -> nth_error sl k = Some a -> nth_error sl (S k) = Some b ->
  (ts a < pos)%N -> (pos <= ts b)%N -> token_before sl pos = Some a.
Proof.
  intros Hs Ha Hb H1 H2. destruct (nth_error_split sl k Ha) as [l1 [r [E Hl]]].
  assert (Hall : Forall (fun t => (ts t < pos)%N) l1).
  { apply Forall_forall. intros x Hx. apply In_nth_error in Hx as [i Hi].
    assert (Hi' : nth_error sl i = Some x).
    { rewrite E, nth_error_app1; [exact Hi|]. apply nth_error_Some. congruence. }
    assert (Hik : i < k). { rewrite <- Hl. apply nth_error_Some. congruence. }
    destruct (sorted_le sl i k x a Hs ltac:(lia) Hi' Ha) as [Hle _]. lia. }
  assert (Er : exists l2, r = b :: l2).
  { rewrite E, nth_error_app2 in Hb by lia. replace (S k - len l1) with 1 in Hb by lia.
    cbn [nth_error] in Hb. destruct r as [|y l2]; [discriminate|]. injection Hb as ->. now exists l2. }
  destruct Er as [l2 ->]. subst sl. unfold token_before.
  destruct l1 as [|x l1]; cbn [app].
  - destruct (N.ltb_spec pos (ts a)); [lia|]. f_equal. exact (tb_loop_hit [] a b l2 pos a Hall H1 H2).
  - inversion Hall as [|? ? Hx Hr]; subst. destruct (N.ltb_spec pos (ts x)); [lia|]. f_equal.
    exact (tb_loop_hit (x :: l1) a b l2 pos x Hall H1 H2).
Qed.

Lemma find_kind (f : kind -> bool) : forall (sl : list token) a k b,
  map tk sl = a ++ k :: b -> Forall (fun x => f x = false) a -> f k = true ->
  exists t, nth_error sl (len a) = Some t /\ tk t = k /\ find (fun t => f (tk t)) sl = Some t.
Proof.
  induction sl as [|y sl IH]; intros a k b H Hf Hk; [destruct a; discriminate|].
  destruct a as [|x a]; cbn [map app] in H; injection H as H1 H2.
  - exists y. cbn [length nth_error find]. rewrite H1, Hk. auto.
  - inversion Hf as [|? ? Hx Hr]; subst. destruct (IH a k b H2 Hr Hk) as [t [Hn [Ht Hfi]]].
    exists t. cbn [length nth_error find]. rewrite Hx. auto.
Qed.

(* ---------------------------------------------------------------------------------------- *)
(* the text range of n tokens at o                                                            *)

Lemma range_at toks o n inf :
  1 <= n -> o + n <= len toks -> i_s inf = 0 -> i_e inf = n ->
  exists first last, nth_error toks o = Some first /\ nth_error toks (o + n - 1) = Some last /\
    info_text_range (skipn o toks) inf = ROk (ts first, te last).
Proof.
  intros Hp H Hs He. unfold info_text_range, byte_range. cbn [e_s e_e e_m]. rewrite Hs, He.
  destruct (Nat.ltb_spec 0 n); [|lia]. rewrite skipn_length. destruct (Nat.ltb_spec (len toks - o) n); [lia|].
  cbn [skipn]. rewrite Nat.sub_0_r. set (sl := firstn n (skipn o toks)).
  assert (Hl : len sl = n) by (unfold sl; rewrite firstn_length, skipn_length; lia).
  assert (Hnth : forall i, i < n -> nth_error sl i = nth_error toks (o + i)).
  { intros i Hi. unfold sl. rewrite nth_firstn_lt by exact Hi. apply nth_skipn. }
  rewrite hd_rev, Hl, (Hnth (n - 1)) by lia.
  assert (Hhd : hd_error sl = nth_error toks o).
  { replace (hd_error sl) with (nth_error sl 0) by (destruct sl; reflexivity). rewrite (Hnth 0) by lia. now rewrite Nat.add_0_r. }
  rewrite Hhd.
  destruct (nth_error toks o) as [f|] eqn:Ef; [|apply nth_error_None in Ef; lia].
  replace (o + (n - 1)) with (o + n - 1) by lia.
  destruct (nth_error toks (o + n - 1)) as [l|] eqn:El; [|apply nth_error_None in El; lia].
  exists f, l. repeat split; reflexivity.
Qed.

Lemma slice_from_ok (toks : list token) o : o <= len toks -> slice_from toks o = ROk (skipn o toks).
Proof. intros H. unfold slice_from. destruct (Nat.ltb_spec (len toks) o); [lia | reflexivity]. Qed.

Lemma slice_head (tl : list token) inf n :
  i_s inf = 0 -> i_e inf = n -> n <= len tl -> slice tl (info_range inf) = ROk (firstn n tl).
Proof.
  intros Hs He Hl. unfold slice, info_range. cbn [fst snd]. rewrite Hs, He.
  destruct (Nat.ltb_spec n 0); [lia|]. destruct (Nat.ltb_spec (len tl) n); [lia|].
  now rewrite Nat.sub_0_r.
Qed.

(* slice_from, slice, to_text_range of a statement behind a Reference at o with n tokens *)
Lemma stmt_range_at toks o n inf :
  1 <= n -> o + n <= len toks -> i_s inf = 0 -> i_e inf = n ->
  exists first last, nth_error toks o = Some first /\ nth_error toks (o + n - 1) = Some last /\
    slice_from toks o = ROk (skipn o toks) /\
    slice (skipn o toks) (info_range inf) = ROk (firstn n (skipn o toks)) /\
    info_text_range (firstn n (skipn o toks)) inf = ROk (ts first, te last).
Proof.
  intros Hp H Hs He.
  destruct (range_at toks o n inf Hp H Hs He) as [f [l [Hf [Hl Hr]]]]. exists f, l.
  split; [exact Hf|]. split; [exact Hl|]. split; [apply slice_from_ok; lia|].
  split; [apply slice_head; try assumption; rewrite skipn_length; lia|].
  revert Hr. unfold info_text_range, byte_range. cbn [e_s e_e e_m]. rewrite Hs, He.
  destruct (Nat.ltb_spec 0 n); [|lia]. rewrite skipn_length, firstn_length, skipn_length.
  destruct (Nat.ltb_spec (len toks - o) n); [lia|]. destruct (Nat.ltb_spec (Nat.min n (len toks - o)) n); [lia|].
  cbn [skipn]. rewrite Nat.sub_0_r, firstn_firstn, Nat.min_id. exact (fun x => x).
Qed.

Lemma x_stmt_info s : i_s (stmt_info (x_stmt 0 s)) = 0 /\ i_e (stmt_info (x_stmt 0 s)) = len (fl_stmt s).
Proof. destruct s; split; reflexivity. Qed.

(* ---------------------------------------------------------------------------------------- *)
(* statement lists                                                                            *)

Fixpoint sapp (b1 b2 : astmts) : astmts :=
  match b1 with SNil => b2 | SCons s r => SCons s (sapp r b2) end.

Definition is_emp (s : astmt) : bool := match s with SEmp _ => true | _ => false end.

(* does the list hold a statement other than `;` ? *)
Fixpoint has_real (b : astmts) : bool :=
  match b with SNil => false | SCons s r => negb (is_emp s) || has_real r end.

Lemma fl_stmts_sapp b1 b2 : fl_stmts (sapp b1 b2) = fl_stmts b1 ++ fl_stmts b2.
Proof. induction b1 as [|s r IH]; [reflexivity|]. cbn [sapp fl_stmts]. now rewrite IH, app_assoc. Qed.

Lemma x_stmts_sapp b1 b2 : forall o,
  x_stmts o (sapp b1 b2) = x_stmts o b1 ++ x_stmts (o + len (fl_stmts b1)) b2.
Proof.
  induction b1 as [|s r IH]; intros o; cbn [sapp x_stmts fl_stmts app length]; [now rewrite Nat.add_0_r|].
  rewrite IH, app_length. do 3 f_equal. lia.
Qed.

Lemma real_x_stmt s o : is_real_stmt (x_stmt 0 s, o) = negb (is_emp s).
Proof. destruct s; reflexivity. Qed.

(* ---------------------------------------------------------------------------------------- *)
(* a gap of the token vector around the position                                              *)

Lemma gap_before (sl : list token) i tprev position :
  toks_sorted sl = true -> 1 <= i -> nth_error sl (i - 1) = Some tprev -> (te tprev <= position)%N ->
  forall k t, nth_error sl k = Some t -> k < i -> (ts t <= position /\ te t <= position)%N.
Proof.
  intros Hs Hi Hp Hle k t Hk Hlt.
  destruct (sorted_le sl k (i - 1) t tprev Hs ltac:(lia) Hk Hp) as [_ H2].
  pose proof (sorted_self _ Hs _ _ Hk). lia.
Qed.

Lemma gap_after (sl : list token) i tnext position :
  toks_sorted sl = true -> nth_error sl i = Some tnext -> (position < ts tnext)%N ->
  forall k t, nth_error sl k = Some t -> i <= k -> (position < ts t)%N.
Proof.
  intros Hs Hn Hlt k t Hk Hle. destruct (sorted_le sl i k tnext t Hs Hle Hn Hk) as [H1 _]. lia.
Qed.

Section Gap.
Variable sl : list token.
Variable position : N.
Variable i : nat.
Hypothesis Hbefore : forall k t, nth_error sl k = Some t -> k < i -> (ts t <= position /\ te t <= position)%N.
Hypothesis Hafter : forall k t, nth_error sl k = Some t -> i <= k -> (position < ts t)%N.

Variable last : token.
Variable l : option ltable.
Variable g : gtable.

(* all statements start behind the gap *)
Lemma cs_after : forall b o prev_if,
  i <= o -> o + len (fl_stmts b) <= len sl ->
  complete_statements (x_stmts o b) position sl last prev_if l g = ROk (Some (new_stmt l g)).
Proof.
  induction b as [|s r IH]; intros o prev_if Hio Hlen; cbn [x_stmts complete_statements]; [reflexivity|].
  cbn [fl_stmts] in Hlen. rewrite app_length in Hlen. pose proof (stmt_len_pos s) as Hp.
  destruct (x_stmt_info s) as [His Hie].
  destruct (stmt_range_at sl o (len (fl_stmt s)) (stmt_info (x_stmt 0 s)) Hp ltac:(lia) His Hie)
    as [f [la [Hf [Hla [E1 [E2 E3]]]]]].
  rewrite E1. cbn [rbind]. rewrite E2. cbn [rbind]. rewrite E3. cbn [rbind].
  pose proof (Hafter o f Hf Hio) as Hlt.
  unfold in_range. cbn [fst snd]. destruct (N.leb_spec (ts f) position); [lia|]. cbn [andb].
  apply IH; lia.
Qed.

(* the statements that end in front of the gap are skipped *)
Lemma cs_before : forall b1 o prev_if rest,
  o + len (fl_stmts b1) <= i -> i <= len sl ->
  exists pi, complete_statements (x_stmts o b1 ++ rest) position sl last prev_if l g =
             complete_statements rest position sl last pi l g.
Proof.
  induction b1 as [|s r IH]; intros o prev_if rest Hoi Hlen; cbn [x_stmts app]; [now exists prev_if|].
  cbn [fl_stmts] in Hoi. rewrite app_length in Hoi. pose proof (stmt_len_pos s) as Hp.
  destruct (x_stmt_info s) as [His Hie].
  destruct (stmt_range_at sl o (len (fl_stmt s)) (stmt_info (x_stmt 0 s)) Hp ltac:(lia) His Hie)
    as [f [la [Hf [Hla [E1 [E2 E3]]]]]].
  cbn [complete_statements]. rewrite E1. cbn [rbind]. rewrite E2. cbn [rbind]. rewrite E3. cbn [rbind].
  destruct (Hbefore _ la Hla ltac:(lia)) as [_ Hle].
  unfold in_range. cbn [fst snd]. destruct (N.ltb_spec position (te la)); [lia|]. rewrite andb_false_r.
  apply IH; lia.
Qed.

(* a statement list with a statement boundary at the gap: nothing contains the position *)
Lemma cs_gap b1 b2 o prev_if :
  o + len (fl_stmts b1) = i -> i + len (fl_stmts b2) <= len sl ->
  complete_statements (x_stmts o (sapp b1 b2)) position sl last prev_if l g = ROk (Some (new_stmt l g)).
Proof.
  intros Hoi Hlen. rewrite x_stmts_sapp.
  destruct (cs_before b1 o prev_if (x_stmts (o + len (fl_stmts b1)) b2) ltac:(lia) ltac:(lia)) as [pi ->].
  apply cs_after; lia.
Qed.

(* the `in_statements` test of complete_procedure *)
Definition in_stmts_test (stmts : list (stmt * nat)) : res bool :=
  match find is_real_stmt stmts with
  | Some (st, off) =>
      do tl <- slice_from sl off;
      do tr <- info_text_range tl (stmt_info st);
      ROk (fst tr <=? position)%N
  | None => ROk false
  end.

Lemma in_stmts_after : forall b o,
  i <= o -> o + len (fl_stmts b) <= len sl -> in_stmts_test (x_stmts o b) = ROk false.
Proof.
  unfold in_stmts_test.
  induction b as [|s r IH]; intros o Hio Hlen; cbn [x_stmts find]; [reflexivity|].
  cbn [fl_stmts] in Hlen. rewrite app_length in Hlen. pose proof (stmt_len_pos s) as Hp.
  rewrite real_x_stmt. destruct (is_emp s); cbn [negb]; [apply IH; lia|].
  destruct (x_stmt_info s) as [His Hie].
  destruct (range_at sl o (len (fl_stmt s)) (stmt_info (x_stmt 0 s)) Hp ltac:(lia) His Hie) as [f [la [Hf [_ Hr]]]].
  rewrite slice_from_ok by lia. cbn [rbind]. rewrite Hr. cbn [rbind fst].
  pose proof (Hafter o f Hf Hio). destruct (N.leb_spec (ts f) position); [lia | reflexivity].
Qed.

Lemma in_stmts_gap : forall b1 b2 o,
  o + len (fl_stmts b1) = i -> i + len (fl_stmts b2) <= len sl ->
  in_stmts_test (x_stmts o (sapp b1 b2)) = ROk (has_real b1).
Proof.
  induction b1 as [|s r IH]; intros b2 o Hoi Hlen; cbn [sapp has_real].
  - cbn [fl_stmts length] in Hoi. apply in_stmts_after; lia.
  - cbn [fl_stmts] in Hoi. rewrite app_length in Hoi. pose proof (stmt_len_pos s) as Hp.
    unfold in_stmts_test. cbn [x_stmts find]. rewrite real_x_stmt. destruct (is_emp s); cbn [negb orb].
    + apply (IH b2 (o + len (fl_stmt s))); lia.
    + destruct (x_stmt_info s) as [His Hie].
      destruct (range_at sl o (len (fl_stmt s)) (stmt_info (x_stmt 0 s)) Hp ltac:(lia) His Hie) as [f [la [Hf [_ Hr]]]].
      rewrite slice_from_ok by lia. cbn [rbind]. rewrite Hr. cbn [rbind fst].
      destruct (Hbefore o f Hf ltac:(lia)) as [Hle _]. destruct (N.leb_spec (ts f) position); [reflexivity | lia].
Qed.

End Gap.
