(* C13, second half (apply a rename, rename back) - definitions.

   A renaming is a function [F : rnf]: from the class of an identifier's syntactic position (type /
   procedure / local name, Proofs/RefsValidWalks.v [rclass]), the name of the procedure around it (as
   [o_proc] of Spec/Nav.v: the ORIGINAL name), the absolute index of its token and its spelling to the
   new spelling.  It acts
     - on the trees of Model/Ast.v ([rn_program]): exactly the identifier nodes that the occurrences of
       Spec/Nav.v enumerate get [F (class) (proc) (token) (name)], nothing else changes;
     - on the abstract programs of Spec/Grammar.v ([sb_prog]): the spelling of the identifier tokens, the
       comments stay;
     - by NAME ([nmf g v]: global names through g, the locals of procedure q through v q) also on the
       symbol tables ([rn_gtable]; the creators of array types through phi). *)
From Coq Require Import PeanoNat Lia List.
From Spl Require Import Spec.Typing Spec.Nav Proofs.RefsValidWalks.
Import ListNotations.
Local Open Scope nat_scope.

Definition rnf := rclass -> option text -> nat -> text -> text.

(* ---------------------------------------------------------------------------------------- *)
(* trees *)
Section Tree.
Variable F : rnf.

(* D = the sum of the Reference offsets around the node *)
Definition rn_ident (c : rclass) (q : option text) (D : nat) (i : ident) : ident :=
  {| id_val := F c q (i_e (id_info i) + D - 1) (id_val i); id_info := id_info i |}.

Fixpoint rn_var (q : option text) (D : nat) (v : variable) : variable :=
  match v with
  | NamedVar i => NamedVar (rn_ident CLocal q D i)
  | ArrAccess a idx inf =>
      ArrAccess (rn_var q D a)
        (match idx with Some (e, off) => Some (rn_expr q (D + off) e, off) | None => None end) inf
  end
with rn_expr (q : option text) (D : nat) (e : expr) : expr :=
  match e with
  | EBin op l r inf => EBin op (rn_expr q D l) (rn_expr q D r) inf
  | EBrack a inf => EBrack (rn_expr q D a) inf
  | EInt i => EInt i
  | EUn op a inf => EUn op (rn_expr q D a) inf
  | EVar v => EVar (rn_var q D v)
  | EErr inf => EErr inf
  end.

Definition rn_oexpr (q : option text) (D : nat) (o : option (expr * nat)) : option (expr * nat) :=
  match o with Some (e, off) => Some (rn_expr q (D + off) e, off) | None => None end.

Fixpoint rn_texpr (q : option text) (D : nat) (t : typeexpr) : typeexpr :=
  match t with
  | TNamed i => TNamed (rn_ident CType q D i)
  | TArray sz (Some (b, off)) inf => TArray sz (Some (rn_texpr q (D + off) b, off)) inf
  | TArray sz None inf => TArray sz None inf
  end.

Definition rn_otexpr (q : option text) (D : nat) (o : option (typeexpr * nat)) : option (typeexpr * nat) :=
  match o with Some (t, off) => Some (rn_texpr q (D + off) t, off) | None => None end.

Fixpoint rn_stmt (q : option text) (D : nat) (s : stmt) : stmt :=
  let opt (r : option (stmt * nat)) : option (stmt * nat) :=
    match r with Some (x, off) => Some (rn_stmt q (D + off) x, off) | None => None end in
  match s with
  | SEmpty inf => SEmpty inf
  | SAssign v e inf => SAssign (rn_var q D v) (rn_oexpr q D e) inf
  | SCall n args inf =>
      SCall (rn_ident CProc q D n) (map (fun a => (rn_expr q (D + snd a) (fst a), snd a)) args) inf
  | SIf c t e inf => SIf (rn_oexpr q D c) (opt t) (opt e) inf
  | SWhile c b inf => SWhile (rn_oexpr q D c) (opt b) inf
  | SBlock body inf =>
      SBlock ((fix go (l : list (stmt * nat)) : list (stmt * nat) :=
                 match l with
                 | [] => []
                 | (x, off) :: r => (rn_stmt q (D + off) x, off) :: go r
                 end) body) inf
  | SError inf => SError inf
  end.

Definition rn_stmts (q : option text) (D : nat) (l : list (stmt * nat)) : list (stmt * nat) :=
  map (fun x => (rn_stmt q (D + snd x) (fst x), snd x)) l.

Definition rn_param (q : option text) (D : nat) (p : paramdecl) : paramdecl :=
  match p with
  | PValid doc r name ty inf => PValid doc r (option_map (rn_ident CLocal q D) name) (rn_otexpr q D ty) inf
  | PError inf => PError inf
  end.

Definition rn_vardecl (q : option text) (D : nat) (v : vardecl) : vardecl :=
  match v with
  | VValid doc name ty inf => VValid doc (option_map (rn_ident CLocal q D) name) (rn_otexpr q D ty) inf
  | VError inf => VError inf
  end.

Definition rn_gdecl (D : nat) (g : gdecl) : gdecl :=
  match g with
  | GType td =>
      GType {| td_doc := td_doc td; td_name := option_map (rn_ident CType None D) (td_name td);
               td_ty := rn_otexpr None D (td_ty td); td_info := td_info td |}
  | GProc pd =>
      let q := option_map id_val (pd_name pd) in
      GProc {| pd_doc := pd_doc pd; pd_name := option_map (rn_ident CProc q D) (pd_name pd);
               pd_params := map (fun x => (rn_param q (D + snd x) (fst x), snd x)) (pd_params pd);
               pd_vars := map (fun x => (rn_vardecl q (D + snd x) (fst x), snd x)) (pd_vars pd);
               pd_stmts := rn_stmts q D (pd_stmts pd);
               pd_info := pd_info pd |}
  | GError inf => GError inf
  end.

Definition rn_program (p : program) : program :=
  {| pg_decls := map (fun x => (rn_gdecl (snd x) (fst x), snd x)) (pg_decls p); pg_info := pg_info p |}.

End Tree.

(* the renaming an occurrence undergoes *)
Definition F_occ (F : rnf) (x : occ) : text := F (cls (o_role x)) (o_proc x) (o_tok x) (o_name x).

(* renaming by name: global names (types, procedures) through g, the locals of procedure q through v q *)
Definition nmf (g : text -> text) (v : text -> text -> text) : rnf :=
  fun c q _ x =>
    match c with
    | CLocal => match q with Some pn => v pn x | None => x end
    | _ => g x
    end.

(* ---------------------------------------------------------------------------------------- *)
(* symbol tables, by name *)
Section Tables.
Variables (g : text -> text) (v : text -> text -> text) (phi : text -> text).

Fixpoint rn_dtype (t : dtype) : dtype :=
  match t with
  | DArray sz (Some b) c => DArray sz (Some (rn_dtype b)) (phi c)
  | DArray sz None c => DArray sz None (phi c)
  | DInt => DInt
  | DBool => DBool
  end.

Definition rn_id (f : text -> text) (i : ident) : ident := {| id_val := f (id_val i); id_info := id_info i |}.

Definition rn_ventry (q : text) (e : ventry) : ventry :=
  {| ve_name := rn_id (v q) (ve_name e); ve_ref := ve_ref e; ve_ty := option_map rn_dtype (ve_ty e);
     ve_range := ve_range e; ve_doc := ve_doc e |}.

Definition rn_lentry (q : text) (e : lentry) : lentry :=
  match e with LVar x => LVar (rn_ventry q x) | LParam x => LParam (rn_ventry q x) end.

Definition rn_ltable (q : text) (L : ltable) : ltable := map (fun kv => (v q (fst kv), rn_lentry q (snd kv))) L.

Definition rn_gentry (e : gentry) : gentry :=
  match e with
  | GTypeE te =>
      GTypeE {| ten_name := rn_id g (ten_name te); ten_ty := option_map rn_dtype (ten_ty te);
                ten_range := ten_range te; ten_doc := ten_doc te |}
  | GProcE pe =>
      let q := id_val (pe_name pe) in
      GProcE {| pe_name := rn_id g (pe_name pe); pe_local := rn_ltable q (pe_local pe);
                pe_params := map (rn_ventry q) (pe_params pe); pe_range := pe_range pe; pe_doc := pe_doc pe |}
  end.

Definition rn_gtable (G : gtable) : gtable := map (fun kv => (g (fst kv), rn_gentry (snd kv))) G.

End Tables.

(* ---------------------------------------------------------------------------------------- *)
(* abstract programs: k = the absolute index of the first token of the piece *)
Section Abstract.
Variable F : rnf.

Fixpoint sb_var (q : option text) (k : nat) (v : avar) : avar :=
  match v with
  | AName c x => AName c (F CLocal q (k + len c) x)
  | AIndex v' c1 e c2 => AIndex (sb_var q k v') c1 (sb_cmp q (k + len (fl_var v') + len c1 + 1) e) c2
  end
with sb_fac (q : option text) (k : nat) (f : afac) : afac :=
  match f with
  | FLit c l => FLit c l
  | FVar v => FVar (sb_var q k v)
  | FNeg c f' => FNeg c (sb_fac q (k + len c + 1) f')
  | FPar c1 e c2 => FPar c1 (sb_cmp q (k + len c1 + 1) e) c2
  end
with sb_mul (q : option text) (k : nat) (m : amul) : amul :=
  match m with
  | MFac f => MFac (sb_fac q k f)
  | MBin m' c op f => MBin (sb_mul q k m') c op (sb_fac q (k + len (fl_mul m') + len c + 1) f)
  end
with sb_add (q : option text) (k : nat) (a : aadd) : aadd :=
  match a with
  | AMul m => AMul (sb_mul q k m)
  | ABin a' c op m => ABin (sb_add q k a') c op (sb_mul q (k + len (fl_add a') + len c + 1) m)
  end
with sb_cmp (q : option text) (k : nat) (e : acmp) : acmp :=
  match e with
  | CAdd a => CAdd (sb_add q k a)
  | CBin l c op r => CBin (sb_add q k l) c op (sb_add q (k + len (fl_add l) + len c + 1) r)
  end.

Fixpoint sb_type (q : option text) (k : nat) (t : atype) : atype :=
  match t with
  | TName c x => TName c (F CType q (k + len c) x)
  | TArr ca cl cz size cr co base =>
      TArr ca cl cz size cr co
        (sb_type q (k + len ca + 1 + len cl + 1 + len cz + 1 + len cr + 1 + len co + 1) base)
  end.

(* comma-separated tails: k = index of the comma's first comment *)
Fixpoint sb_tail {A} (fl : A -> list kind) (sb : nat -> A -> A) (k : nat) (l : list (cs * A)) : list (cs * A) :=
  match l with
  | [] => []
  | (c, a) :: r => (c, sb (k + len c + 1) a) :: sb_tail fl sb (k + len c + 1 + len (fl a)) r
  end.
Definition sb_sep {A} (fl : A -> list kind) (sb : nat -> A -> A) (k : nat) (o : option (A * list (cs * A)))
  : option (A * list (cs * A)) :=
  match o with None => None | Some (a, r) => Some (sb k a, sb_tail fl sb (k + len (fl a)) r) end.

Fixpoint sb_stmt (q : option text) (k : nat) (s : astmt) : astmt :=
  match s with
  | SEmp c => SEmp c
  | SAsg v c1 e c2 => SAsg (sb_var q k v) c1 (sb_cmp q (k + len (fl_var v) + len c1 + 1) e) c2
  | SCal c1 f c2 a c3 c4 =>
      SCal c1 (F CProc q (k + len c1) f) c2 (sb_sep fl_cmp (sb_cmp q) (k + len c1 + 1 + len c2 + 1) a) c3 c4
  | SIfT c1 c2 e c3 t =>
      let ke := k + len c1 + 1 + len c2 + 1 in
      let kt := ke + len (fl_cmp e) + len c3 + 1 in
      SIfT c1 c2 (sb_cmp q ke e) c3 (sb_stmt q kt t)
  | SIfE c1 c2 e c3 t c4 s' =>
      let ke := k + len c1 + 1 + len c2 + 1 in
      let kt := ke + len (fl_cmp e) + len c3 + 1 in
      let ks := kt + len (fl_stmt t) + len c4 + 1 in
      SIfE c1 c2 (sb_cmp q ke e) c3 (sb_stmt q kt t) c4 (sb_stmt q ks s')
  | SWhl c1 c2 e c3 b =>
      let ke := k + len c1 + 1 + len c2 + 1 in
      let kb := ke + len (fl_cmp e) + len c3 + 1 in
      SWhl c1 c2 (sb_cmp q ke e) c3 (sb_stmt q kb b)
  | SBlk c1 b c2 => SBlk c1 (sb_stmts q (k + len c1 + 1) b) c2
  end
with sb_stmts (q : option text) (k : nat) (b : astmts) : astmts :=
  match b with
  | SNil => SNil
  | SCons s r => SCons (sb_stmt q k s) (sb_stmts q (k + len (fl_stmt s)) r)
  end.

Definition sb_param (q : option text) (k : nat) (p : aparam) : aparam :=
  match p with
  | PVal c x cc t => PVal c (F CLocal q (k + len c) x) cc (sb_type q (k + len c + 1 + len cc + 1) t)
  | PRef cr c x cc t =>
      PRef cr c (F CLocal q (k + len cr + 1 + len c) x) cc (sb_type q (k + len cr + 1 + len c + 1 + len cc + 1) t)
  end.

Definition sb_vardecl (q : option text) (k : nat) (d : avardecl) : avardecl :=
  {| v_c1 := v_c1 d; v_c2 := v_c2 d; v_x := F CLocal q (k + len (v_c1 d) + 1 + len (v_c2 d)) (v_x d);
     v_c3 := v_c3 d; v_t := sb_type q (k + len (v_c1 d) + 1 + len (v_c2 d) + 1 + len (v_c3 d) + 1) (v_t d);
     v_c4 := v_c4 d |}.

Fixpoint sb_vardecls (q : option text) (k : nat) (l : list avardecl) : list avardecl :=
  match l with [] => [] | d :: r => sb_vardecl q k d :: sb_vardecls q (k + len (fl_vardecl d)) r end.

Definition sb_decl (k : nat) (d : adecl) : adecl :=
  match d with
  | DType c1 c2 x c3 t c4 =>
      DType c1 c2 (F CType None (k + len c1 + 1 + len c2) x) c3
            (sb_type None (k + len c1 + 1 + len c2 + 1 + len c3 + 1) t) c4
  | DProc c1 c2 x c3 ps c4 c5 vs b c6 =>
      let q := Some x in
      let k_ps := k + len c1 + 1 + len c2 + 1 + len c3 + 1 in
      let k_vs := k_ps + len (fl_sep fl_param ps) + len c4 + 1 + len c5 + 1 in
      DProc c1 c2 (F CProc q (k + len c1 + 1 + len c2) x) c3 (sb_sep fl_param (sb_param q) k_ps ps) c4 c5
            (sb_vardecls q k_vs vs) (sb_stmts q (k_vs + len (flat_map fl_vardecl vs)) b) c6
  end.

Fixpoint sb_decls (k : nat) (l : list adecl) : list adecl :=
  match l with [] => [] | d :: r => sb_decl k d :: sb_decls (k + len (fl_decl d)) r end.

Definition sb_prog (p : aprog) : aprog := {| a_decls := sb_decls 0 (a_decls p); a_ceof := a_ceof p |}.

End Abstract.

(* the token kinds under a renaming of the identifier tokens by position: k = index of the first kind *)
Fixpoint sk (h : nat -> text -> text) (k : nat) (ks : list kind) : list kind :=
  match ks with
  | [] => []
  | Ident x :: r => Ident (h k x) :: sk h (S k) r
  | a :: r => a :: sk h (S k) r
  end.
