(* C02 / C14, request handlers: textDocument/signatureHelp never panics on the document of ANY text.

   The handler slices the token vector with the range of the enclosing procedure declaration and
   with the ranges of the call statements it visits (each read at its accumulated Reference offset).
   For a freshly analysed document
     - R2 (RangeProofs [doc_bounded]) puts the end of every such range at or before the Eof token,
     - the statement part of [compl_wf] (TotalCompl) makes every statement range start at 0,
   so no slice and no index of the handler can fail. *)
From Coq Require Import Arith Lia List Bool.
From Spl Require Import Model.SigHelp Proofs.ParserTotal Proofs.RangeProofs Proofs.HoverProofs
  Proofs.CompletionProofs Proofs.TotalCursor Proofs.TotalCompl.
Import ListNotations.
Local Open Scope nat_scope.

(* a call statement whose range can be sliced out of n tokens and turned into a text range *)
Definition call_ok (n : nat) (h : call_hit) : Prop :=
  let '(_, inf, off) := h in off + i_e inf < n /\ i_s inf <= i_e inf.

Section Handler.
Variable toks : list token.
Variable index : N.
Notation n := (length toks).

Lemma call_stmt_total name inf offset :
  call_ok n (name, inf, offset) ->
  exists h, (do sl <- slice_from toks offset;
             do tr <- info_text_range sl inf;
             if in_range tr index then ROk (Some (name, inf, offset)) else ROk None) = ROk h.
Proof.
  intros [H1 H2]. unfold slice_from. destruct (Nat.ltb_spec n offset); [lia|]. cbn [rbind].
  destruct (info_text_range_ok (skipn offset toks) inf) as [r Hr].
  { rewrite skipn_length. destruct (Nat.ltb (i_s inf) (i_e inf)); [apply Nat.leb_le | apply Nat.ltb_lt]; lia. }
  rewrite Hr. cbn [rbind]. destruct (in_range r index); eexists; reflexivity.
Qed.

Lemma find_call_in_stmt_total : forall s offset,
  Forall (call_ok n) (calls_of_stmt s offset) -> exists h, find_call_in_stmt toks index s offset = ROk h.
Proof.
  fix IH 1. intros s offset H. destruct s as [inf | v e inf | name args inf | c t e inf | c b inf | body inf | inf];
    cbn [find_call_in_stmt calls_of_stmt] in *; try (eexists; reflexivity).
  - (* call *)
    inversion H as [|? ? H1 _]; subst. exact (call_stmt_total _ _ _ H1).
  - (* if *)
    apply Forall_app in H as [Ht He]. destruct t as [[x off]|].
    + destruct (IH x (offset + off) Ht) as [h Hh]. rewrite Hh. cbn [rbind].
      destruct h; [eexists; reflexivity|]. destruct e as [[y off2]|]; [exact (IH _ _ He) | eexists; reflexivity].
    + cbn [rbind]. destruct e as [[y off2]|]; [exact (IH _ _ He) | eexists; reflexivity].
  - (* while *)
    destruct b as [[x off]|]; [exact (IH _ _ H) | eexists; reflexivity].
  - (* block *)
    revert H. induction body as [|[x off] r IHr]; intros H; [eexists; reflexivity|].
    apply Forall_app in H as [H1 H2]. destruct (IH x (offset + off) H1) as [h Hh]. rewrite Hh. cbn [rbind].
    destruct h; [eexists; reflexivity | exact (IHr H2)].
Qed.

Lemma find_call_in_stmts_total : forall l offset,
  Forall (call_ok n) (calls_of_stmts l offset) -> exists h, find_call_in_stmts toks index l offset = ROk h.
Proof.
  induction l as [|[x off] r IH]; intros offset H; [eexists; reflexivity|].
  cbn [find_call_in_stmts calls_of_stmts] in *. apply Forall_app in H as [H1 H2].
  destruct (find_call_in_stmt_total x (offset + off) H1) as [h Hh]. rewrite Hh. cbn [rbind].
  destruct h; [eexists; reflexivity | exact (IH _ H2)].
Qed.

Lemma find_proc_total : forall l,
  Forall (fun x : gdecl * nat => snd x + i_e (gdecl_info (fst x)) < n) l -> exists r, find_proc toks index l = ROk r.
Proof.
  induction l as [|[g off] l IH]; intros H; [eexists; reflexivity|].
  inversion H as [|? ? H1 H2]; subst. specialize (IH H2). cbn [fst snd] in H1.
  cbn [find_proc]. destruct g as [td|pd|inf]; try exact IH. cbn [gdecl_info] in H1.
  unfold slice_from. destruct (Nat.ltb_spec n off); [lia|]. cbn [rbind].
  destruct (info_text_range_ok (skipn off toks) (pd_info pd)) as [r Hr].
  { rewrite skipn_length. destruct (Nat.ltb (i_s _) (i_e _)); [apply Nat.leb_le | apply Nat.ltb_lt]; lia. }
  rewrite Hr. cbn [rbind]. destruct (in_range r index); [eexists; reflexivity | exact IH].
Qed.

End Handler.

(* ------------------------------------------------------------------------------------------ *)
(* the call statements of a bounded, well-formed statement                                     *)

Section Calls.
Variable M : nat.

Definition CallsP (s : stmt) : Prop :=
  forall offset, StmtB M offset s -> stmt_wf s -> Forall (call_ok (S M)) (calls_of_stmt s offset).

Lemma calls_of_opt offset len (o : option (stmt * nat)) :
  opt_stmt_P CallsP o ->
  match o with Some (x, off) => StmtB M (offset + off) x | None => True end -> kid len o ->
  Forall (call_ok (S M)) (match o with Some (x, off) => calls_of_stmt x (offset + off) | None => [] end).
Proof.
  destruct o as [[x off]|]; cbn [opt_stmt_P kid]; [|constructor].
  intros IH HB [_ HW]. exact (IH _ HB HW).
Qed.

Lemma calls_ok : forall s, CallsP s.
Proof.
  induction s as [inf | v e inf | name args inf | c thn els inf IHt IHe | c b inf IHb | body inf IH | inf] using stmt_ind';
    intros offset HB HW; try (cbn [calls_of_stmt]; constructor).
  - cbn [StmtB] in HB. destruct HB as ([HB _] & _). apply stmt_wf_split in HW as (H0 & _ & _). cbn [stmt_info] in H0.
    cbn [call_ok]. lia.
  - constructor.
  - cbn [calls_of_stmt]. cbn [StmtB] in HB. destruct HB as (_ & _ & Bt & Be).
    apply stmt_wf_split in HW as (_ & _ & [Kt Ke]). apply Forall_app. split.
    + exact (calls_of_opt offset _ thn IHt Bt Kt).
    + exact (calls_of_opt offset _ els IHe Be Ke).
  - cbn [calls_of_stmt]. cbn [StmtB] in HB. destruct HB as (_ & _ & Bb).
    apply stmt_wf_split in HW as (_ & _ & Kb). exact (calls_of_opt offset _ b IHb Bb Kb).
  - apply StmtB_block in HB as [_ HB]. apply stmt_wf_split in HW as (_ & _ & K). cbn [kids] in K.
    cbn [calls_of_stmt]. induction body as [|[x off] r IHr]; [constructor|].
    inversion IH as [|? ? P1 P2]; inversion HB as [|? ? B1 B2]; inversion K as [|? ? K1 K2]; subst.
    apply Forall_app. split; [|exact (IHr P2 B2 K2)].
    unfold RefB in B1. destruct K1 as [_ K1]. cbn [fst snd] in *. exact (P1 _ B1 K1).
Qed.

Lemma calls_of_stmts_ok len : forall l offset,
  Forall (RefB (StmtB M) offset) l -> Forall (child_wf len) l -> Forall (call_ok (S M)) (calls_of_stmts l offset).
Proof.
  induction l as [|[x off] r IH]; intros offset HB K; [constructor|].
  inversion HB as [|? ? B1 B2]; inversion K as [|? ? K1 K2]; subst. cbn [calls_of_stmts].
  apply Forall_app. split; [|exact (IH _ B2 K2)].
  unfold RefB in B1. destruct K1 as [_ K1]. cbn [fst snd] in *. exact (calls_ok x _ B1 K1).
Qed.

End Calls.

(* ------------------------------------------------------------------------------------------ *)
Theorem new_doc_sighelp_total t d line col :
  new_doc_res t = ODone d -> exists r, signature_help d line col = ROk r.
Proof.
  intros H. unfold signature_help, doc_cursor.
  destruct (HoverProofs.find_decl_total (d_toks d) (get_insertion_index line col (d_text d)) _ (new_doc_cursor_pre t d H)) as [g Hg].
  rewrite Hg. cbn [rbind c_index]. set (index := get_insertion_index line col (d_text d)).
  destruct (new_doc_decls_bounded t d H) as [HN Hdb].
  destruct (find_proc_total (d_toks d) index (pg_decls (d_ast d))) as [p Hp].
  { eapply Forall_impl; [|exact Hdb]. intros x Hx. cbn beta in Hx. lia. }
  rewrite Hp. cbn [rbind]. destruct p as [[pd pd_off]|]; [|eexists; reflexivity].
  apply find_proc_inv in Hp as [Hin _].
  destruct (doc_bounded t d H) as [[_ Hb] _]. rewrite Forall_forall in Hb. specialize (Hb _ Hin).
  unfold RefB in Hb. cbn [fst snd GdeclB Nat.add] in Hb. destruct Hb as (_ & _ & _ & _ & Hst).
  pose proof (new_doc_compl_wf_prop t d H) as Hc. unfold compl_wf in Hc. rewrite Forall_forall in Hc.
  destruct (Hc _ Hin) as (_ & _ & _ & Hk). cbn [fst] in Hk.
  pose proof (calls_of_stmts_ok _ _ _ _ Hst Hk) as Hcalls.
  replace (S (length (d_toks d) - 1)) with (length (d_toks d)) in Hcalls by lia.
  destruct (find_call_in_stmts_total (d_toks d) index _ _ Hcalls) as [h Hh]. rewrite Hh. cbn [rbind].
  destruct h as [[[name inf] offset]|]; [|eexists; reflexivity].
  destruct (lookup (d_table d) (id_val name)) as [[te|pe]|]; try (eexists; reflexivity).
  apply find_call_in_stmts_inv in Hh as [Hh _]. rewrite Forall_forall in Hcalls. destruct (Hcalls _ Hh) as [C1 C2].
  unfold slice, shift_range, info_range. cbn [fst snd].
  destruct (Nat.ltb_spec (i_e inf + offset) (i_s inf + offset)); [lia|].
  destruct (Nat.ltb_spec (length (d_toks d)) (i_e inf + offset)); [lia|]. cbn [rbind]. eexists; reflexivity.
Qed.
