(* C03 - the analysis algorithm (Model/Build.v, Model/Semantic.v, Model/Errors.v) against the declarative
   static semantics of Spec/Typing.v, for ARBITRARY trees and tables (no parser involved), plus the
   corollaries for parsed programs that follow from C04's round-trip theorem. *)
From Coq Require Import PeanoNat Lia.
From Spl Require Import Proofs.GrammarProofs Spec.Typing Model.Errors Proofs.SemProofs.
Local Open Scope nat_scope.

(* ------------------------------------------------------------------------------------------ *)
(* small facts: options, type equality, scoping *)

Lemma optN_eqb_eq a b : optN_eqb a b = true <-> a = b.
Proof.
  destruct a as [x|], b as [y|]; cbn [optN_eqb]; try (split; [discriminate | congruence]); [|tauto].
  rewrite N.eqb_eq. split; congruence.
Qed.

Fixpoint dtype_ind' (P : dtype -> Prop) (Hi : P DInt) (Hb : P DBool)
  (Hn : forall s c, P (DArray s None c)) (Hs : forall s b c, P b -> P (DArray s (Some b) c)) (t : dtype) : P t :=
  match t with
  | DInt => Hi
  | DBool => Hb
  | DArray s None c => Hn s c
  | DArray s (Some b) c => Hs s b c (dtype_ind' P Hi Hb Hn Hs b)
  end.

(* derive(PartialEq) on DataType is equality *)
Lemma dt_eqb_eq a b : dt_eqb a b = true <-> a = b.
Proof.
  revert b. induction a as [| | s c | s x c IH] using dtype_ind'; intros [| | s' [y|] c']; cbn [dt_eqb];
    try (split; [discriminate | congruence]); try tauto.
  - rewrite andb_false_r, andb_false_l. split; [discriminate | congruence].
  - rewrite andb_true_r, andb_true_iff, optN_eqb_eq, text_eqb_eq. split; [intros [-> ->]; reflexivity | intros [= -> ->]; tauto].
  - rewrite !andb_true_iff, optN_eqb_eq, text_eqb_eq, IH.
    split; [intros [[-> ->] ->]; reflexivity | intros [= -> -> ->]; tauto].
  - rewrite andb_false_r, andb_false_l. split; [discriminate | congruence].
Qed.

Lemma dt_eqb_refl a : dt_eqb a a = true.
Proof. apply dt_eqb_eq. reflexivity. Qed.

Lemma dt_eqb_neq a b : a <> b -> dt_eqb a b = false.
Proof. intros H. destruct (dt_eqb a b) eqn:E; [apply dt_eqb_eq in E; congruence | reflexivity]. Qed.

(* LookupTable::lookup is the scoping rule *)
Lemma lt_lookup_binds L G x e : lt_lookup (Some L) (Some G) x = Some e <-> binds L G x e.
Proof.
  unfold lt_lookup. split.
  - destruct (lookup L x) as [le|] eqn:El.
    + intros [= <-]. apply B_local, El.
    + destruct (lookup G x) as [ge|] eqn:Eg; [|discriminate]. intros [= <-]. apply B_global; assumption.
  - intros [le Hl | ge Hl Hg]; [rewrite Hl | rewrite Hl, Hg]; reflexivity.
Qed.

Lemma lt_lookup_unbound L G x : lt_lookup (Some L) (Some G) x = None <-> unbound L G x.
Proof.
  unfold lt_lookup, unbound.
  destruct (lookup L x); [split; [discriminate | intros [? _]; discriminate]|].
  destruct (lookup G x); [split; [discriminate | intros [_ ?]; discriminate] | tauto].
Qed.

Lemma lt_lookup_no_local G x : lt_lookup None (Some G) x = lt_lookup (Some []) (Some G) x.
Proof. reflexivity. Qed.

Lemma binds_fun L G x e1 e2 : binds L G x e1 -> binds L G x e2 -> e1 = e2.
Proof. intros H1 H2. apply lt_lookup_binds in H1, H2. congruence. Qed.

Lemma binds_not_unbound L G x e : binds L G x e -> ~ unbound L G x.
Proof. intros H1 H2. apply lt_lookup_binds in H1. apply lt_lookup_unbound in H2. congruence. Qed.

(* a variable entry can only come from the local table *)
Lemma binds_var_local L G x e ve : binds L G x e -> var_entry e ve -> exists le, lookup L x = Some le /\ lentry_v le = ve.
Proof.
  intros [le Hl | ge _ _] [Hv|Hv].
  - destruct le; [injection Hv as ->; eauto | discriminate].
  - destruct le; [discriminate | injection Hv as ->; eauto].
  - destruct ge; discriminate.
  - destruct ge; discriminate.
Qed.

(* ------------------------------------------------------------------------------------------ *)
(* induction principles for the nested syntax *)

Section ExprInd.
Variables (P : variable -> Prop) (Q : expr -> Prop).
Hypothesis Hname : forall i, P (NamedVar i).
Hypothesis Hacc0 : forall a inf, P a -> P (ArrAccess a None inf).
Hypothesis Hacc : forall a e off inf, P a -> Q e -> P (ArrAccess a (Some (e, off)) inf).
Hypothesis Hbin : forall op l r inf, Q l -> Q r -> Q (EBin op l r inf).
Hypothesis Hbrack : forall a inf, Q a -> Q (EBrack a inf).
Hypothesis Hint : forall i, Q (EInt i).
Hypothesis Hun : forall op a inf, Q a -> Q (EUn op a inf).
Hypothesis Hvar : forall v, P v -> Q (EVar v).
Hypothesis Herr : forall inf, Q (EErr inf).

Fixpoint var_ind' (v : variable) : P v :=
  match v with
  | NamedVar i => Hname i
  | ArrAccess a None inf => Hacc0 a inf (var_ind' a)
  | ArrAccess a (Some (e, off)) inf => Hacc a e off inf (var_ind' a) (expr_ind' e)
  end
with expr_ind' (e : expr) : Q e :=
  match e with
  | EBin op l r inf => Hbin op l r inf (expr_ind' l) (expr_ind' r)
  | EBrack a inf => Hbrack a inf (expr_ind' a)
  | EInt i => Hint i
  | EUn op a inf => Hun op a inf (expr_ind' a)
  | EVar v => Hvar v (var_ind' v)
  | EErr inf => Herr inf
  end.

Lemma var_expr_ind : (forall v, P v) /\ (forall e, Q e).
Proof. split; [exact var_ind' | exact expr_ind']. Qed.
End ExprInd.

Definition opt_stmt_P (P : stmt -> Prop) (o : option (stmt * nat)) : Prop :=
  match o with Some (x, _) => P x | None => True end.

Section StmtInd.
Variable P : stmt -> Prop.
Hypothesis Hempty : forall inf, P (SEmpty inf).
Hypothesis Hassign : forall v e inf, P (SAssign v e inf).
Hypothesis Hcall : forall n args inf, P (SCall n args inf).
Hypothesis Hif : forall c t e inf, opt_stmt_P P t -> opt_stmt_P P e -> P (SIf c t e inf).
Hypothesis Hwhile : forall c b inf, opt_stmt_P P b -> P (SWhile c b inf).
Hypothesis Hblock : forall body inf, Forall (fun x => P (fst x)) body -> P (SBlock body inf).
Hypothesis Herror : forall inf, P (SError inf).

Fixpoint stmt_ind' (s : stmt) : P s :=
  let opt (o : option (stmt * nat)) : opt_stmt_P P o :=
    match o with Some (x, _) => stmt_ind' x | None => I end in
  match s with
  | SEmpty inf => Hempty inf
  | SAssign v e inf => Hassign v e inf
  | SCall n args inf => Hcall n args inf
  | SIf c t e inf => Hif c t e inf (opt t) (opt e)
  | SWhile c b inf => Hwhile c b inf (opt b)
  | SBlock body inf =>
      Hblock body inf
        ((fix go (l : list (stmt * nat)) : Forall (fun x => P (fst x)) l :=
            match l with
            | [] => Forall_nil _
            | x :: r => Forall_cons x (stmt_ind' (fst x)) (go r)
            end) body)
  | SError inf => Herror inf
  end.
End StmtInd.

(* ------------------------------------------------------------------------------------------ *)
(* errors only accumulate *)

Lemma info_append_neq inf x : info_append inf x <> inf.
Proof.
  intros H. apply (f_equal (fun i => length (i_errs i))) in H. cbn in H. rewrite app_length in H. cbn in H. lia.
Qed.

Lemma ident_append_neq i x : ident_append i x <> i.
Proof. intros H. apply (f_equal id_info) in H. cbn in H. exact (info_append_neq _ _ H). Qed.

Lemma ident_flag_ok i m i' :
  ident_flag i m = ROk i' ->
  i_e (id_info i) <> 0 /\
  i' = ident_append i {| e_s := i_e (id_info i) - 1; e_e := i_e (id_info i); e_m := m (id_val i) |}.
Proof.
  unfold ident_flag, to_error. destruct (Nat.eqb _ 0) eqn:E; cbn [rbind]; [discriminate|].
  intros [= <-]. apply Nat.eqb_neq in E. split; [exact E | reflexivity].
Qed.

Lemma ident_flag_neq i m i' : ident_flag i m = ROk i' -> i' <> i.
Proof. intros H. apply ident_flag_ok in H. destruct H as [_ ->]. apply ident_append_neq. Qed.

Lemma ident_flag_some i m :
  i_e (id_info i) <> 0 ->
  ident_flag i m = ROk (ident_append i {| e_s := i_e (id_info i) - 1; e_e := i_e (id_info i); e_m := m (id_val i) |}).
Proof.
  intros H. unfold ident_flag, to_error. apply Nat.eqb_neq in H. rewrite H. reflexivity.
Qed.

Definition ne_var (v : variable) : nat := length (var_errors v).
Definition ne_expr (e : expr) : nat := length (expr_errors e).

Lemma shift_es_length off l : length (shift_es off l) = length l.
Proof. apply map_length. Qed.

Lemma ne_var_append v x : ne_var (var_append v x) = S (ne_var v).
Proof.
  unfold ne_var. destruct v as [i | a idx inf]; cbn [var_append var_errors]; unfold ident_errors;
    cbn [ident_append id_info info_append i_errs]; rewrite !app_length; cbn [length]; lia.
Qed.

Lemma ne_expr_append e x : ne_expr (expr_append e x) = S (ne_expr e).
Proof.
  unfold ne_expr. destruct e as [op l r inf | a inf | i | op a inf | v | inf];
    cbn [expr_append expr_errors info_append i_errs il_info]; try (rewrite !app_length; cbn [length]; lia).
  apply ne_var_append.
Qed.

Lemma expr_append_neq e x : expr_append e x <> e.
Proof. intros H. apply (f_equal ne_expr) in H. rewrite ne_expr_append in H. lia. Qed.

(* ------------------------------------------------------------------------------------------ *)
(* unfolding equations of the analysis (the mutual fixpoints do not unfold nicely by cbn) *)

Section Eqns.
Variable L : option ltable.
Variable G : option gtable.

Lemma an_var_named named :
  an_var L G (NamedVar named) =
  match lt_lookup L G (id_val named) with
  | Some (EntVar ve) | Some (EntParam ve) => ROk (NamedVar named, ve_ty ve)
  | Some _ => do named' <- ident_flag named (fun n => ESem (NotAVariable n)); ROk (NamedVar named', None)
  | None => do named' <- ident_flag named (fun n => ESem (UndefinedVariable n)); ROk (NamedVar named', None)
  end.
Proof. reflexivity. Qed.

Definition index_result (e' : expr) (ty : option dtype) : expr :=
  match ty with
  | Some DInt => e'
  | Some _ => expr_append e' (mkerr_t (expr_range e') (ESem IndexingWithNonInteger))
  | None => e'
  end.

Definition access_result (arr' : variable) (index' : option (expr * nat)) (inf : info) (aty : option dtype)
  : res (variable * option dtype) :=
  match aty with
  | Some (DArray _ base _) => ROk (ArrAccess arr' index' inf, base)
  | Some _ => ROk (ArrAccess arr' index' (info_append inf (mkerr_t (info_range inf) (ESem IndexingNonArray))), None)
  | None => ROk (ArrAccess arr' index' inf, None)
  end.

Lemma an_var_access arr e off inf :
  an_var L G (ArrAccess arr (Some (e, off)) inf) =
  do (e', ty) <- an_expr L G e;
  do (arr', aty) <- an_var L G arr;
  access_result arr' (Some (index_result e' ty, off)) inf aty.
Proof.
  change (an_var L G (ArrAccess arr (Some (e, off)) inf)) with
    (do index' <- (do (e', ty) <- an_expr L G e; ROk (Some (index_result e' ty, off)));
     do (arr', aty) <- an_var L G arr; access_result arr' index' inf aty).
  destruct (an_expr L G e) as [[e' ty]|]; reflexivity.
Qed.

Lemma an_var_access0 arr inf :
  an_var L G (ArrAccess arr None inf) = do (arr', aty) <- an_var L G arr; access_result arr' None inf aty.
Proof. reflexivity. Qed.

Definition bin_info (op : operator) (inf : info) (lt rt : option dtype) : info :=
  match lt, rt with
  | Some a, Some b =>
      if is_int a && is_int b then inf
      else if is_int a || is_int b then info_append inf (mkerr_t (info_range inf) (ESem OperatorDifferentTypes))
      else if is_arithmetic op then info_append inf (mkerr_t (info_range inf) (ESem ArithmeticOperatorNonInteger))
      else info_append inf (mkerr_t (info_range inf) (ESem ComparisonNonInteger))
  | _, _ => inf
  end.

Lemma an_expr_bin op l r inf :
  an_expr L G (EBin op l r inf) =
  do (l', lt) <- an_expr L G l;
  do (r', rt) <- an_expr L G r;
  ROk (EBin op l' r' (bin_info op inf lt rt), Some (if is_arithmetic op then DInt else DBool)).
Proof. reflexivity. Qed.

Definition un_info (inf : info) (ty : option dtype) : info :=
  match ty with
  | Some t => if is_int t then inf else info_append inf (mkerr_t (info_range inf) (ESem ArithmeticOperatorNonInteger))
  | None => inf
  end.

Lemma an_expr_un op a inf :
  an_expr L G (EUn op a inf) = do (a', ty) <- an_expr L G a; ROk (EUn op a' (un_info inf ty), Some DInt).
Proof. reflexivity. Qed.

Lemma an_expr_brack a inf :
  an_expr L G (EBrack a inf) = do (a', ty) <- an_expr L G a; ROk (EBrack a' inf, ty).
Proof. reflexivity. Qed.

Lemma an_expr_var v : an_expr L G (EVar v) = do (v', ty) <- an_var L G v; ROk (EVar v', ty).
Proof. reflexivity. Qed.

Lemma an_expr_int i : an_expr L G (EInt i) = ROk (EInt i, Some DInt).
Proof. reflexivity. Qed.

Lemma an_expr_err inf : an_expr L G (EErr inf) = ROk (EErr inf, None).
Proof. reflexivity. Qed.

Definition cond_result (m : smsg) (e' : expr) (ty : option dtype) : expr :=
  match ty with
  | Some DBool => e'
  | Some _ => expr_append e' (mkerr_t (expr_range e') (ESem m))
  | None => e'
  end.

Lemma an_cond_some e off m :
  an_cond L G (Some (e, off)) m = do (e', ty) <- an_expr L G e; ROk (Some (cond_result m e' ty, off)).
Proof. reflexivity. Qed.

Definition an_opt (r : option (stmt * nat)) : res (option (stmt * nat)) :=
  match r with
  | Some (x, off) => do x' <- an_stmt L G x; ROk (Some (x', off))
  | None => ROk None
  end.

Definition assign_info (inf : info) (lty rty : option dtype) : info :=
  match lty, rty with
  | Some l, Some r =>
      if negb (dt_eqb l r) then info_append inf (mkerr_t (info_range inf) (ESem AssignmentHasDifferentTypes))
      else if negb (is_int l) then info_append inf (mkerr_t (info_range inf) (ESem AssignmentRequiresIntegers))
      else inf
  | _, _ => inf
  end.

Lemma an_stmt_assign v e off inf :
  an_stmt L G (SAssign v (Some (e, off)) inf) =
  do (v', lty) <- an_var L G v;
  do (e', rty) <- an_expr L G e;
  ROk (SAssign v' (Some (e', off)) (assign_info inf lty rty)).
Proof. reflexivity. Qed.

Definition call_info (name : ident) (nargs nparams : nat) (inf : info) : info :=
  match Nat.compare nargs nparams with
  | Eq => inf
  | Lt => info_append inf (mkerr_t (info_range inf) (ESem (TooFewArguments (id_val name))))
  | Gt => info_append inf (mkerr_t (info_range inf) (ESem (TooManyArguments (id_val name))))
  end.

Lemma an_stmt_call name args inf :
  an_stmt L G (SCall name args inf) =
  match lt_lookup L G (id_val name) with
  | Some (EntProc pe) =>
      do args' <- an_args L G (id_val name) 1 args (pe_params pe);
      ROk (SCall name args' (call_info name (length args) (length (pe_params pe)) inf))
  | Some _ => ROk (SCall name args (info_append inf (mkerr_t (info_range inf) (ESem (CallOfNoneProcedure (id_val name))))))
  | None => ROk (SCall name args (info_append inf (mkerr_t (info_range inf) (ESem (UndefinedProcedure (id_val name))))))
  end.
Proof. reflexivity. Qed.

Lemma an_stmt_if c t e inf :
  an_stmt L G (SIf c t e inf) =
  do c' <- an_cond L G c IfConditionMustBeBoolean; do t' <- an_opt t; do e' <- an_opt e; ROk (SIf c' t' e' inf).
Proof. reflexivity. Qed.

Lemma an_stmt_while c b inf :
  an_stmt L G (SWhile c b inf) =
  do c' <- an_cond L G c WhileConditionMustBeBoolean; do b' <- an_opt b; ROk (SWhile c' b' inf).
Proof. reflexivity. Qed.

Lemma an_stmt_block body inf :
  an_stmt L G (SBlock body inf) = do body' <- an_stmts L G body; ROk (SBlock body' inf).
Proof. reflexivity. Qed.

Definition arg_flag_ref (cname : text) (i : nat) (p : ventry) (a : expr) : expr :=
  if ve_ref p && negb (match a with EVar _ => true | _ => false end)
  then expr_append a (mkerr_t (expr_range a) (ESem (ArgumentMustBeAVariable cname i))) else a.

Definition arg_flag_type (cname : text) (i : nat) (p : ventry) (rng : range) (a2 : expr) (ty : option dtype) : expr :=
  match ty, ve_ty p with
  | Some t1, Some t2 => if dt_eqb t1 t2 then a2 else expr_append a2 (mkerr_t rng (ESem (ArgumentsTypeMismatch cname i)))
  | _, _ => a2
  end.

Lemma an_args_cons cname i a off ar p pr :
  an_args L G cname i ((a, off) :: ar) (p :: pr) =
  do (a2, ty) <- an_expr L G (arg_flag_ref cname i p a);
  do r <- an_args L G cname (S i) ar pr;
  ROk ((arg_flag_type cname i p (expr_range a) a2 ty, off) :: r).
Proof. reflexivity. Qed.

Lemma an_args_nil_l cname i params : an_args L G cname i [] params = ROk [].
Proof. reflexivity. Qed.

Lemma an_args_nil_r cname i args : an_args L G cname i args [] = ROk args.
Proof. destruct args as [|[a off] ar]; reflexivity. Qed.

End Eqns.

Ltac bind2 H :=
  match type of H with
  | rbind ?r _ = _ =>
      let E := fresh "E" in let x := fresh "x" in
      remember r as x eqn:E in H; symmetry in E; destruct x as [[? ?]|]; cbn [rbind] in H; [|discriminate H]
  end.
Ltac bind1 H :=
  match type of H with
  | rbind ?r _ = _ =>
      let E := fresh "E" in let x := fresh "x" in
      remember r as x eqn:E in H; symmetry in E; destruct x as [?|]; cbn [rbind] in H; [|discriminate H]
  end.

(* case analysis on the computation t inside H, leaving the other hypotheses alone *)
Ltac on2 H t :=
  let E := fresh "E" in let x := fresh "x" in
  remember t as x eqn:E in H; symmetry in E; destruct x as [[? ?]|]; cbn [rbind] in H; [|discriminate H].

Ltac on1 H t :=
  let E := fresh "E" in let x := fresh "x" in
  remember t as x eqn:E in H; symmetry in E; destruct x as [?|]; cbn [rbind] in H; [|discriminate H].

Section Analysis.
Variable L : ltable.
Variable G : gtable.
Notation anv := (an_var (Some L) (Some G)).
Notation ane := (an_expr (Some L) (Some G)).
Notation ans := (an_stmt (Some L) (Some G)).
Notation anss := (an_stmts (Some L) (Some G)).
Notation anc := (an_cond (Some L) (Some G)).
Notation ana := (an_args (Some L) (Some G)).

Lemma info_append_len inf x : length (i_errs (info_append inf x)) = S (length (i_errs inf)).
Proof. cbn. rewrite app_length. cbn. lia. Qed.

Lemma bin_info_len op inf lt rt : length (i_errs inf) <= length (i_errs (bin_info op inf lt rt)).
Proof.
  unfold bin_info. destruct lt as [a|], rt as [b|]; try lia.
  destruct (is_int a && is_int b); [lia|]. destruct (is_int a || is_int b); [rewrite info_append_len; lia|].
  destruct (is_arithmetic op); rewrite info_append_len; lia.
Qed.

Lemma un_info_len inf ty : length (i_errs inf) <= length (i_errs (un_info inf ty)).
Proof. unfold un_info. destruct ty as [t|]; [|lia]. destruct (is_int t); [lia | rewrite info_append_len; lia]. Qed.

Lemma index_result_len e ty : ne_expr e <= ne_expr (index_result e ty).
Proof. unfold index_result. destruct ty as [[| |]|]; rewrite ?ne_expr_append; lia. Qed.

Lemma cond_result_len m e ty : ne_expr e <= ne_expr (cond_result m e ty).
Proof. unfold cond_result. destruct ty as [[| |]|]; rewrite ?ne_expr_append; lia. Qed.

Lemma an_mono :
  (forall v v' ty, anv v = ROk (v', ty) -> ne_var v <= ne_var v') /\
  (forall e e' ty, ane e = ROk (e', ty) -> ne_expr e <= ne_expr e').
Proof.
  apply var_expr_ind.
  - intros i v' ty H. rewrite an_var_named in H.
    destruct (lt_lookup _ _ _) as [[t|p|ve|ve]|]; try (injection H as <- _; lia);
      bind1 H; injection H as <- _; apply ident_flag_ok in E; destruct E as [_ ->];
      change (NamedVar (ident_append i ?x)) with (var_append (NamedVar i) x); rewrite ne_var_append; lia.
  - intros a inf IHa v' ty H. rewrite an_var_access0 in H. bind2 H. apply IHa in E.
    unfold ne_var in *. unfold access_result in H. destruct o as [[| |sz b c]|]; injection H as <- _;
      cbn [var_errors]; rewrite !app_length; rewrite ?info_append_len; cbn [length]; lia.
  - intros a e off inf IHa IHe v' ty H. rewrite an_var_access in H. bind2 H. bind2 H.
    apply IHe in E. apply IHa in E0. pose proof (index_result_len e0 o) as He.
    unfold ne_var, ne_expr in *. unfold access_result in H. destruct o0 as [[| |sz b c]|]; injection H as <- _;
      cbn [var_errors]; rewrite !app_length, !shift_es_length; rewrite ?info_append_len; cbn [length]; lia.
  - intros op l r inf IHl IHr e' ty H. rewrite an_expr_bin in H. bind2 H. bind2 H. apply IHl in E. apply IHr in E0.
    injection H as <- _. pose proof (bin_info_len op inf o o0). unfold ne_expr in *. cbn [expr_errors].
    rewrite !app_length. lia.
  - intros a inf IHa e' ty H. rewrite an_expr_brack in H. bind2 H. apply IHa in E. injection H as <- _.
    unfold ne_expr in *. cbn [expr_errors]. rewrite !app_length. lia.
  - intros i e' ty H. rewrite an_expr_int in H. injection H as <- _. lia.
  - intros op a inf IHa e' ty H. rewrite an_expr_un in H. bind2 H. apply IHa in E. injection H as <- _.
    pose proof (un_info_len inf o). unfold ne_expr in *. cbn [expr_errors]. rewrite !app_length. lia.
  - intros v IHv e' ty H. rewrite an_expr_var in H. bind2 H. apply IHv in E. injection H as <- _. exact E.
  - intros inf e' ty H. rewrite an_expr_err in H. injection H as <- _. lia.
Qed.

Lemma an_expr_mono e e' ty : ane e = ROk (e', ty) -> ne_expr e <= ne_expr e'.
Proof. apply an_mono. Qed.

(* "analysed, then possibly flagged, and still the same": it was not flagged *)
Lemma flagged_same e e' ty (c : bool) x :
  ane e = ROk (e', ty) -> (if c then expr_append e' x else e') = e -> c = false /\ e' = e.
Proof.
  intros H Heq. apply an_expr_mono in H. destruct c; [|tauto].
  apply (f_equal ne_expr) in Heq. rewrite ne_expr_append in Heq. lia.
Qed.

(* ------------------------------------------------------------------------------------------ *)
(* expressions: no false positive *)

Scheme var_type_mind := Minimality for var_type Sort Prop
  with expr_type_mind := Minimality for expr_type Sort Prop.
Combined Scheme typing_mutind from var_type_mind, expr_type_mind.

Lemma an_typed_sound :
  (forall v t, var_type L G v t -> anv v = ROk (v, Some t)) /\
  (forall e t, expr_type L G e t -> ane e = ROk (e, Some t)).
Proof.
  apply typing_mutind.
  - intros i e ve t Hb Hv Ht. rewrite an_var_named. apply lt_lookup_binds in Hb. rewrite Hb.
    destruct Hv as [-> | ->]; rewrite Ht; reflexivity.
  - intros a e off inf sz b c _ IHa _ IHe. rewrite an_var_access, IHe. cbn [rbind]. rewrite IHa. reflexivity.
  - intros i. reflexivity.
  - intros v t _ IH. rewrite an_expr_var, IH. reflexivity.
  - intros op l r inf Hop _ IHl _ IHr. rewrite an_expr_bin, IHl. cbn [rbind]. rewrite IHr. cbn [rbind].
    destruct Hop as [-> | [-> | [-> | ->]]]; reflexivity.
  - intros op l r inf Hop _ IHl _ IHr. rewrite an_expr_bin, IHl. cbn [rbind]. rewrite IHr. cbn [rbind].
    destruct Hop as [-> | [-> | [-> | [-> | [-> | ->]]]]]; reflexivity.
  - intros op a inf _ IH. rewrite an_expr_un, IH. reflexivity.
  - intros a inf t _ IH. rewrite an_expr_brack, IH. reflexivity.
Qed.

Lemma an_var_sound v t : var_type L G v t -> anv v = ROk (v, Some t).
Proof. apply an_typed_sound. Qed.
Lemma an_expr_sound e t : expr_type L G e t -> ane e = ROk (e, Some t).
Proof. apply an_typed_sound. Qed.

(* types are unique *)
Lemma var_type_fun v t1 t2 : var_type L G v t1 -> var_type L G v t2 -> t1 = t2.
Proof. intros H1 H2. apply an_var_sound in H1, H2. congruence. Qed.
Lemma expr_type_fun e t1 t2 : expr_type L G e t1 -> expr_type L G e t2 -> t1 = t2.
Proof. intros H1 H2. apply an_expr_sound in H1, H2. congruence. Qed.

(* ------------------------------------------------------------------------------------------ *)
(* expressions: no false negative.  The types recorded in the local table are resolved. *)

Lemma is_int_true t : is_int t = true -> t = DInt.
Proof. destruct t; [reflexivity | discriminate | discriminate]. Qed.

Lemma index_result_same e e0 o :
  ane e = ROk (e0, o) -> index_result e0 o = e -> e0 = e /\ (o = Some DInt \/ o = None).
Proof.
  intros H Heq. apply an_expr_mono in H. unfold index_result in Heq.
  destruct o as [[| |sz b c]|]; try (split; [exact Heq | tauto]);
    apply (f_equal ne_expr) in Heq; rewrite ne_expr_append in Heq; lia.
Qed.

Lemma cond_result_same m e e0 o :
  ane e = ROk (e0, o) -> cond_result m e0 o = e -> e0 = e /\ (o = Some DBool \/ o = None).
Proof.
  intros H Heq. apply an_expr_mono in H. unfold cond_result in Heq.
  destruct o as [[| |sz b c]|]; try (split; [exact Heq | tauto]);
    apply (f_equal ne_expr) in Heq; rewrite ne_expr_append in Heq; lia.
Qed.

Lemma bin_info_same op inf t1 t2 : bin_info op inf (Some t1) (Some t2) = inf -> t1 = DInt /\ t2 = DInt.
Proof.
  unfold bin_info. destruct (is_int t1 && is_int t2) eqn:E.
  - intros _. apply andb_true_iff in E. destruct E. split; apply is_int_true; assumption.
  - destruct (is_int t1 || is_int t2); [|destruct (is_arithmetic op)]; intros H; exfalso; exact (info_append_neq _ _ H).
Qed.

Lemma un_info_same inf t : un_info inf (Some t) = inf -> t = DInt.
Proof.
  unfold un_info. destruct (is_int t) eqn:E; [intros _; apply is_int_true, E|].
  intros H; exfalso; exact (info_append_neq _ _ H).
Qed.

Section Complete.
Hypothesis HL : ltable_ok L.

Lemma an_typed_complete :
  (forall v ty, clean_var v = true -> anv v = ROk (v, ty) -> exists t, ty = Some t /\ var_type L G v t /\ ty_ok t) /\
  (forall e ty, clean_expr e = true -> ane e = ROk (e, ty) -> exists t, ty = Some t /\ expr_type L G e t /\ ty_ok t).
Proof.
  apply var_expr_ind.
  - intros i ty _ H. rewrite an_var_named in H.
    destruct (lt_lookup _ _ _) as [[t|p|ve|ve]|] eqn:El;
      try (bind1 H; injection H as H _; apply ident_flag_neq in E; congruence);
      injection H as <-; apply lt_lookup_binds in El.
    + destruct (binds_var_local _ _ _ _ ve El (or_introl eq_refl)) as [le [Hl Hv]].
      destruct (HL _ _ Hl) as [t [Ht Hok]]. rewrite Hv in Ht. exists t. split; [exact Ht|]. split; [|exact Hok].
      eapply VT_name; [exact El | left; reflexivity | exact Ht].
    + destruct (binds_var_local _ _ _ _ ve El (or_intror eq_refl)) as [le [Hl Hv]].
      destruct (HL _ _ Hl) as [t [Ht Hok]]. rewrite Hv in Ht. exists t. split; [exact Ht|]. split; [|exact Hok].
      eapply VT_name; [exact El | right; reflexivity | exact Ht].
  - intros a inf _ ty Hc _. cbn [clean_var clean_opt] in Hc. rewrite andb_false_r in Hc. discriminate.
  - intros a e off inf IHa IHe ty Hc H. cbn [clean_var clean_opt fst] in Hc.
    apply andb_true_iff in Hc. destruct Hc as [Hc _]. apply andb_true_iff in Hc. destruct Hc as [Hca Hce].
    rewrite an_var_access in H. bind2 H. bind2 H. unfold access_result in H.
    destruct o0 as [[| |sz b c]|].
    + injection H as _ _ H. exfalso. exact (info_append_neq _ _ H).
    + injection H as _ _ H. exfalso. exact (info_append_neq _ _ H).
    + injection H as Hv He Hty. subst v ty.
      destruct (index_result_same _ _ _ E He) as [-> Ho].
      destruct (IHa _ Hca E0) as [t [[= <-] [Hta Hok]]].
      destruct (IHe _ Hce E) as [t' [Ht' [Hte _]]].
      destruct Ho as [-> | ->]; [|discriminate]. injection Ht' as <-.
      cbn [ty_ok] in Hok. destruct b as [b|]; [|contradiction].
      exists b. split; [reflexivity|]. split; [|exact Hok]. eapply VT_index; eassumption.
    + injection H as Hv _ _. subst v. destruct (IHa _ Hca E0) as [t [Ht _]]. discriminate.
  - intros op l r inf IHl IHr ty Hc H. cbn [clean_expr] in Hc.
    apply andb_true_iff in Hc. destruct Hc as [Hc _]. apply andb_true_iff in Hc. destruct Hc as [Hcl Hcr].
    rewrite an_expr_bin in H. bind2 H. bind2 H. injection H as -> -> Hinf <-.
    destruct (IHl _ Hcl E) as [t1 [-> [Ht1 _]]]. destruct (IHr _ Hcr E0) as [t2 [-> [Ht2 _]]].
    destruct (bin_info_same _ _ _ _ Hinf) as [-> ->].
    eexists. split; [reflexivity|]. split; [|destruct (is_arithmetic op); exact I].
    destruct op; cbn [is_arithmetic];
      first [ apply ET_arith; [tauto | assumption | assumption] | apply ET_compare; [tauto | assumption | assumption] ].
  - intros a inf IHa ty Hc H. cbn [clean_expr] in Hc. apply andb_true_iff in Hc. destruct Hc as [Hca _].
    rewrite an_expr_brack in H. bind2 H. injection H as -> <-.
    destruct (IHa _ Hca E) as [t [-> [Ht Hok]]]. exists t. split; [reflexivity|]. split; [apply ET_paren, Ht | exact Hok].
  - intros i ty _ H. rewrite an_expr_int in H. injection H as <-. exists DInt. split; [reflexivity|]. split; [apply ET_lit | exact I].
  - intros op a inf IHa ty Hc H. cbn [clean_expr] in Hc. apply andb_true_iff in Hc. destruct Hc as [Hca _].
    rewrite an_expr_un in H. bind2 H. injection H as -> Hinf <-.
    destruct (IHa _ Hca E) as [t [-> [Ht _]]]. apply un_info_same in Hinf. subst t.
    exists DInt. split; [reflexivity|]. split; [apply ET_neg, Ht | exact I].
  - intros v IHv ty Hc H. cbn [clean_expr] in Hc. rewrite an_expr_var in H. bind2 H. injection H as -> <-.
    destruct (IHv _ Hc E) as [t [-> [Ht Hok]]]. exists t. split; [reflexivity|]. split; [apply ET_var, Ht | exact Hok].
  - intros inf ty Hc _. discriminate.
Qed.

Lemma an_expr_complete e ty :
  clean_expr e = true -> ane e = ROk (e, ty) -> exists t, ty = Some t /\ expr_type L G e t /\ ty_ok t.
Proof. apply an_typed_complete. Qed.
Lemma an_var_complete v ty :
  clean_var v = true -> anv v = ROk (v, ty) -> exists t, ty = Some t /\ var_type L G v t /\ ty_ok t.
Proof. apply an_typed_complete. Qed.

End Complete.

End Analysis.

(* ------------------------------------------------------------------------------------------ *)
(* statements *)

Lemma assign_info_same inf l r : assign_info inf (Some l) (Some r) = inf -> l = DInt /\ r = DInt.
Proof.
  unfold assign_info. destruct (dt_eqb l r) eqn:E; cbn [negb].
  - apply dt_eqb_eq in E. subst r. destruct (is_int l) eqn:Ei; cbn [negb].
    + intros _. apply is_int_true in Ei. tauto.
    + intros H. exfalso. exact (info_append_neq _ _ H).
  - intros H. exfalso. exact (info_append_neq _ _ H).
Qed.

Lemma call_info_same name n m inf : call_info name n m inf = inf -> n = m.
Proof.
  unfold call_info. destruct (Nat.compare n m) eqn:E.
  - intros _. apply Nat.compare_eq, E.
  - intros H. exfalso. exact (info_append_neq _ _ H).
  - intros H. exfalso. exact (info_append_neq _ _ H).
Qed.

Lemma range_eqb_eq a b : range_eqb a b = true <-> a = b.
Proof.
  destruct a as [a1 a2], b as [b1 b2]. unfold range_eqb. cbn [fst snd].
  rewrite andb_true_iff, !Nat.eqb_eq. split; [intros [-> ->]; reflexivity | intros [= -> ->]; tauto].
Qed.

Lemma Forall2_len {A B} (R : A -> B -> Prop) l1 l2 : Forall2 R l1 l2 -> length l1 = length l2.
Proof. induction 1; cbn; congruence. Qed.

Section Statements.
Variable L : ltable.
Variable G : gtable.
Notation ane := (an_expr (Some L) (Some G)).
Notation ans := (an_stmt (Some L) (Some G)).
Notation anss := (an_stmts (Some L) (Some G)).
Notation ana := (an_args (Some L) (Some G)).

Lemma an_args_sound cname args params :
  Forall2 (arg_ok L G) args params -> forall i, ana cname i args params = ROk args.
Proof.
  induction 1 as [|[a off] p ar pr Ha _ IH]; intros i; [reflexivity|].
  inversion Ha as [a' off' p' t Ht Hp Hr]; subst.
  rewrite an_args_cons.
  assert (Hf : arg_flag_ref cname i p a = a).
  { unfold arg_flag_ref. destruct (ve_ref p); [|reflexivity]. destruct (Hr eq_refl) as [v ->]. reflexivity. }
  rewrite Hf, (an_expr_sound _ _ _ _ Ht). cbn [rbind]. rewrite IH. cbn [rbind].
  unfold arg_flag_type. rewrite Hp, dt_eqb_refl. reflexivity.
Qed.

Scheme wt_stmt_mind := Minimality for wt_stmt Sort Prop
  with wt_stmts_mind := Minimality for wt_stmts Sort Prop.
Combined Scheme wt_mutind from wt_stmt_mind, wt_stmts_mind.

Lemma an_stmt_sound_both :
  (forall s, wt_stmt L G s -> ans s = ROk s) /\ (forall l, wt_stmts L G l -> anss l = ROk l).
Proof.
  apply wt_mutind.
  - reflexivity.
  - intros v e off inf Hv He. rewrite an_stmt_assign, (an_var_sound _ _ _ _ Hv). cbn [rbind].
    rewrite (an_expr_sound _ _ _ _ He). reflexivity.
  - intros name args inf pe Hb Ha. rewrite an_stmt_call. apply lt_lookup_binds in Hb. rewrite Hb.
    rewrite (an_args_sound _ _ _ Ha). cbn [rbind]. unfold call_info.
    rewrite (Forall2_len _ _ _ Ha), Nat.compare_refl. reflexivity.
  - intros c oc t ot inf Hc _ IHt. rewrite an_stmt_if, an_cond_some, (an_expr_sound _ _ _ _ Hc). cbn [rbind cond_result an_opt].
    rewrite IHt. reflexivity.
  - intros c oc t ot e oe inf Hc _ IHt _ IHe.
    rewrite an_stmt_if, an_cond_some, (an_expr_sound _ _ _ _ Hc). cbn [rbind cond_result an_opt].
    rewrite IHt. cbn [rbind]. rewrite IHe. reflexivity.
  - intros c oc b ob inf Hc _ IHb. rewrite an_stmt_while, an_cond_some, (an_expr_sound _ _ _ _ Hc). cbn [rbind cond_result an_opt].
    rewrite IHb. reflexivity.
  - intros body inf _ IH. rewrite an_stmt_block, IH. reflexivity.
  - reflexivity.
  - intros s off r _ IHs _ IHr. cbn [an_stmts]. rewrite IHs. cbn [rbind]. rewrite IHr. reflexivity.
Qed.

Lemma an_stmt_sound s : wt_stmt L G s -> ans s = ROk s.
Proof. apply an_stmt_sound_both. Qed.
Lemma an_stmts_sound l : wt_stmts L G l -> anss l = ROk l.
Proof. apply an_stmt_sound_both. Qed.

Section Complete.
Hypothesis HL : ltable_ok L.
Hypothesis HG : gtable_ok G.

Lemma an_args_complete cname args params :
  Forall ventry_ok params -> forallb (fun r => clean_expr (fst r)) args = true -> length args = length params ->
  forall i, ana cname i args params = ROk args -> Forall2 (arg_ok L G) args params.
Proof.
  intros Hp. revert args. induction Hp as [|p pr Hp _ IH]; intros [|[a off] ar] Hc Hlen i H; try discriminate; [constructor|].
  cbn [forallb fst] in Hc. apply andb_true_iff in Hc. destruct Hc as [Hca Hcr].
  rewrite an_args_cons in H. bind2 H. bind1 H. injection H as Ha Hr. match type of Hr with ?v = _ => subst v end.
  pose proof (an_expr_mono _ _ _ _ _ E) as Hm.
  assert (Hx : ne_expr e <= ne_expr (arg_flag_type cname i p (expr_range a) e o)).
  { unfold arg_flag_type. destruct o; [destruct (ve_ty p); [destruct (dt_eqb _ _)|]|]; rewrite ?ne_expr_append; lia. }
  rewrite Ha in Hx.
  assert (Hf : arg_flag_ref cname i p a = a).
  { unfold arg_flag_ref in *. destruct (ve_ref p && negb _); [|reflexivity]. rewrite ne_expr_append in Hm. lia. }
  assert (Href : ve_ref p = true -> exists v, a = EVar v).
  { intros Hr. unfold arg_flag_ref in Hf. rewrite Hr in Hf.
    destruct a; eauto; cbn [andb negb] in Hf; exfalso; eapply expr_append_neq; exact Hf. }
  rewrite Hf in E, Hm.
  assert (Ht : e = a /\ (forall t1 t2, o = Some t1 -> ve_ty p = Some t2 -> t1 = t2)).
  { unfold arg_flag_type in Ha. destruct o as [t1|]; [|split; [exact Ha | discriminate]].
    destruct (ve_ty p) as [t2|]; [|split; [exact Ha | discriminate]].
    destruct (dt_eqb t1 t2) eqn:Et.
    - split; [exact Ha|]. intros ? ? [= <-] [= <-]. apply dt_eqb_eq, Et.
    - exfalso. apply (f_equal ne_expr) in Ha. rewrite ne_expr_append in Ha. lia. }
  destruct Ht as [-> Ht].
  destruct (an_expr_complete _ _ HL _ _ Hca E) as [t [-> [Hta _]]].
  destruct Hp as [t2 [Hp2 _]]. rewrite <- (Ht _ _ eq_refl Hp2) in Hp2.
  constructor; [econstructor; eassumption|].
  injection Hlen as Hlen. eapply IH; eassumption.
Qed.

Definition stmt_complete (s : stmt) : Prop := clean_stmt s = true -> ans s = ROk s -> wt_stmt L G s.

Lemma an_stmts_complete_aux body :
  Forall (fun x => stmt_complete (fst x)) body ->
  forallb (fun r => clean_stmt (fst r)) body = true -> anss body = ROk body -> wt_stmts L G body.
Proof.
  induction 1 as [|[x off] r Hx _ IH]; intros Hc H; [constructor|].
  cbn [forallb fst] in Hc. apply andb_true_iff in Hc. destruct Hc as [Hcx Hcr].
  cbn [an_stmts] in H. bind1 H. bind1 H. injection H as -> ->.
  constructor; [apply Hx; assumption | apply IH; assumption].
Qed.

Lemma binds_proc_global x pe : binds L G x (EntProc pe) -> lookup G x = Some (GProcE pe).
Proof.
  intros H. inversion H as [le Hl Heq | ge Hl Hg Heq].
  - destruct le; discriminate.
  - destruct ge; [discriminate|]. injection Heq as ->. exact Hg.
Qed.

Lemma an_stmt_complete s : stmt_complete s.
Proof.
  induction s as [inf | v e inf | name args inf | c t e inf IHt IHe | c b inf IHb | body inf IH | inf] using stmt_ind';
    unfold stmt_complete; intros Hc H.
  - constructor.
  - cbn [clean_stmt] in Hc. apply andb_true_iff in Hc. destruct Hc as [Hc _]. apply andb_true_iff in Hc. destruct Hc as [Hcv Hce].
    destruct e as [[e off]|]; [|discriminate]. cbn [clean_opt fst] in Hce.
    rewrite an_stmt_assign in H. bind2 H. bind2 H. injection H as -> -> Hinf.
    destruct (an_var_complete _ _ HL _ _ Hcv E) as [tl [-> [Hv _]]].
    destruct (an_expr_complete _ _ HL _ _ Hce E0) as [tr [-> [He _]]].
    destruct (assign_info_same _ _ _ Hinf) as [-> ->]. constructor; assumption.
  - cbn [clean_stmt] in Hc. apply andb_true_iff in Hc. destruct Hc as [Hc _]. apply andb_true_iff in Hc. destruct Hc as [_ Hca].
    rewrite an_stmt_call in H. destruct (lt_lookup _ _ _) as [[t|pe|ve|ve]|] eqn:El;
      try (injection H as H; exfalso; exact (info_append_neq _ _ H)).
    bind1 H. injection H as -> Hinf. apply call_info_same in Hinf. apply lt_lookup_binds in El.
    pose proof (binds_proc_global _ _ El) as Hg. destruct (HG _ _ Hg) as [Hp _].
    econstructor; [exact El|]. eapply an_args_complete; eassumption.
  - cbn [clean_stmt] in Hc. apply andb_true_iff in Hc. destruct Hc as [Hc _]. apply andb_true_iff in Hc. destruct Hc as [Hc Hce].
    apply andb_true_iff in Hc. destruct Hc as [Hcc Hct].
    destruct c as [[c oc]|]; [|discriminate]. destruct t as [[t ot]|]; [|discriminate]. cbn [clean_opt fst] in Hcc, Hct.
    rewrite an_stmt_if, an_cond_some in H. on2 H (ane c). cbn [an_opt] in H. on1 H (ans t).
    destruct e as [[e oe]|]; cbn [an_opt] in H.
    + on1 H (ans e). injection H as Hcond -> ->.
      destruct (cond_result_same _ _ _ _ _ _ E Hcond) as [-> Ho].
      destruct (an_expr_complete _ _ HL _ _ Hcc E) as [tc [-> [Htc _]]].
      destruct Ho as [[= ->] | ?]; [|discriminate].
      apply WT_if_else; [exact Htc | apply IHt; assumption | apply IHe; assumption].
    + cbn [rbind] in H. injection H as Hcond ->.
      destruct (cond_result_same _ _ _ _ _ _ E Hcond) as [-> Ho].
      destruct (an_expr_complete _ _ HL _ _ Hcc E) as [tc [-> [Htc _]]].
      destruct Ho as [[= ->] | ?]; [|discriminate].
      apply WT_if; [exact Htc | apply IHt; assumption].
  - cbn [clean_stmt] in Hc. apply andb_true_iff in Hc. destruct Hc as [Hc _]. apply andb_true_iff in Hc. destruct Hc as [Hcc Hcb].
    destruct c as [[c oc]|]; [|discriminate]. destruct b as [[b ob]|]; [|discriminate]. cbn [clean_opt fst] in Hcc, Hcb.
    rewrite an_stmt_while, an_cond_some in H. on2 H (ane c). cbn [an_opt] in H. on1 H (ans b). injection H as Hcond ->.
    destruct (cond_result_same _ _ _ _ _ _ E Hcond) as [-> Ho].
    destruct (an_expr_complete _ _ HL _ _ Hcc E) as [tc [-> [Htc _]]].
    destruct Ho as [[= ->] | ?]; [|discriminate].
    apply WT_while; [exact Htc | apply IHb; assumption].
  - cbn [clean_stmt] in Hc. apply andb_true_iff in Hc. destruct Hc as [Hcb _].
    rewrite an_stmt_block in H. bind1 H. injection H as ->.
    constructor. apply an_stmts_complete_aux; assumption.
  - discriminate.
Qed.

Lemma an_stmts_complete body :
  forallb (fun r => clean_stmt (fst r)) body = true -> anss body = ROk body -> wt_stmts L G body.
Proof.
  apply an_stmts_complete_aux. apply Forall_forall. intros x _. apply an_stmt_complete.
Qed.

End Complete.
End Statements.

(* ------------------------------------------------------------------------------------------ *)
(* analyze: whole programs against a table *)

Lemma procdecl_eta pd :
  {| pd_doc := pd_doc pd; pd_name := pd_name pd; pd_params := pd_params pd; pd_vars := pd_vars pd;
     pd_stmts := pd_stmts pd; pd_info := pd_info pd |} = pd.
Proof. destruct pd; reflexivity. Qed.

Lemma program_eta p : {| pg_decls := pg_decls p; pg_info := pg_info p |} = p.
Proof. destruct p; reflexivity. Qed.

Lemma analyze_gdecl_sound G d : has_entry G d -> wt_body G d -> analyze_gdecl G d = ROk d.
Proof.
  destruct d as [g off]. unfold has_entry, wt_body, analyze_gdecl. cbn [fst snd].
  destruct g as [td | pd | inf]; try reflexivity.
  destruct (pd_name pd) as [name|] eqn:Hn; [|reflexivity].
  destruct (lookup G (id_val name)) as [[te|pe]|] eqn:Hl; [reflexivity | | intros H; contradiction].
  intros _ Hwt. destruct (range_eqb _ _) eqn:Er; cbn [negb]; [|reflexivity].
  apply range_eqb_eq in Er.
  rewrite (an_stmts_sound _ _ _ (Hwt pe (ex_intro _ name (conj Hn (conj Hl Er))))). cbn [rbind].
  rewrite <- Hn, procdecl_eta. reflexivity.
Qed.

Lemma analyze_gdecls_sound G ds :
  Forall (fun d => has_entry G d /\ wt_body G d) ds -> analyze_gdecls G ds = ROk ds.
Proof.
  induction 1 as [|d r [He Hb] _ IH]; [reflexivity|].
  cbn [analyze_gdecls]. rewrite (analyze_gdecl_sound _ _ He Hb). cbn [rbind]. rewrite IH. reflexivity.
Qed.

(* NO FALSE POSITIVE (semantic part): if every analysed body is well-typed with respect to the table,
   `analyze` returns the tree unchanged - no diagnostic is attached anywhere *)
Theorem analyze_sound p G : wt_bodies G p -> analyze_res p G = ROk p.
Proof.
  intros H. unfold analyze_res. rewrite (analyze_gdecls_sound _ _ H). cbn [rbind]. rewrite program_eta. reflexivity.
Qed.

Corollary analyze_sound_outcome p G : wt_bodies G p -> analyze p G = Done p.
Proof. intros H. unfold analyze. rewrite (analyze_sound _ _ H). reflexivity. Qed.

Lemma analyze_gdecl_complete G d :
  gtable_ok G -> clean_gdecl (fst d) = true -> analyze_gdecl G d = ROk d -> has_entry G d /\ wt_body G d.
Proof.
  intros HG. destruct d as [g off]. unfold has_entry, wt_body, analyze_gdecl. cbn [fst snd].
  destruct g as [td | pd | inf]; try (intros; split; exact I).
  intros Hc. cbn [clean_gdecl] in Hc. apply andb_true_iff in Hc. destruct Hc as [Hc _].
  apply andb_true_iff in Hc. destruct Hc as [_ Hcs].
  destruct (pd_name pd) as [name|] eqn:Hn; [|intros; split; [exact I | intros pe [n [Hx _]]; congruence]].
  destruct (lookup G (id_val name)) as [[te|pe]|] eqn:Hl; [| |discriminate].
  - intros _. split; [discriminate|]. intros pe [n [Hx [Hl' _]]]. rewrite Hn in Hx. injection Hx as <-. congruence.
  - intros H. split; [discriminate|]. intros pe' [n [Hx [Hl' Hr]]]. rewrite Hn in Hx. injection Hx as <-.
    rewrite Hl in Hl'. injection Hl' as <-.
    apply range_eqb_eq in Hr. rewrite Hr in H. cbn [negb] in H.
    on1 H (an_stmts (Some (pe_local pe)) (Some G) (pd_stmts pd)). injection H as H.
    apply (f_equal pd_stmts) in H. cbn [pd_stmts] in H. rewrite H in E.
    destruct (HG _ _ Hl) as [_ HL]. apply an_stmts_complete; assumption.
Qed.

Lemma analyze_gdecls_same G ds : analyze_gdecls G ds = ROk ds -> Forall (fun d => analyze_gdecl G d = ROk d) ds.
Proof.
  induction ds as [|d r IH]; intros H; [constructor|].
  cbn [analyze_gdecls] in H. bind1 H. bind1 H. injection H as -> ->. constructor; [assumption | apply IH; assumption].
Qed.

(* NO FALSE NEGATIVE: if `analyze` attaches nothing to a clean tree, every analysed body is well-typed -
   i.e. any violation of a typing rule in an analysed body yields at least one diagnostic *)
Theorem analyze_complete p G :
  gtable_ok G -> tree_clean p = true -> analyze_res p G = ROk p -> wt_bodies G p.
Proof.
  intros HG Hc H. unfold analyze_res in H. bind1 H. injection H as H.
  apply (f_equal pg_decls) in H. cbn [pg_decls] in H. rewrite H in E.
  apply analyze_gdecls_same in E. unfold tree_clean in Hc. apply andb_true_iff in Hc. destruct Hc as [Hc _].
  rewrite forallb_forall in Hc. rewrite Forall_forall in E. apply Forall_forall. intros d Hd.
  apply analyze_gdecl_complete; [exact HG | apply Hc, Hd | apply E, Hd].
Qed.

(* ------------------------------------------------------------------------------------------ *)
(* LOCALISATION: what `tree_errors` publishes, and where.
   An error x attached at a node appears in tree_errors shifted by exactly the sum n of the offsets of
   the References that enclose the node (att_* of Spec/Typing.v: a derivation is a path to the node),
   and nothing else appears. *)

Lemma shift_e_0 x : shift_e 0 x = x.
Proof. destruct x. unfold shift_e. cbn. rewrite !Nat.add_0_r. reflexivity. Qed.

Lemma shift_e_add a b x : shift_e a (shift_e b x) = shift_e (a + b) x.
Proof. unfold shift_e. cbn. f_equal; lia. Qed.

Lemma in_shift_es y off l : In y (shift_es off l) <-> exists z, In z l /\ y = shift_e off z.
Proof.
  unfold shift_es. rewrite in_map_iff. split; intros [z [A B]]; exists z; [split; [exact B | symmetry; exact A] | split; [symmetry; exact B | exact A]].
Qed.

Definition located (E : list err) (A : nat -> err -> Prop) : Prop :=
  forall y, In y E <-> exists n x, A n x /\ y = shift_e n x.

Lemma located_ref off E A :
  located E A -> forall y, In y (shift_es off E) <-> exists n x, A n x /\ y = shift_e (off + n) x.
Proof.
  intros H y. rewrite in_shift_es. split.
  - intros [z [Hz ->]]. apply H in Hz. destruct Hz as [n [x [Ha ->]]]. exists n, x. split; [exact Ha | apply shift_e_add].
  - intros [n [x [Ha ->]]]. exists (shift_e n x). split; [apply H; eauto | symmetry; apply shift_e_add].
Qed.

Lemma located_here (l : list err) y : In y l -> exists x, In x l /\ y = shift_e 0 x.
Proof. intros H. exists y. split; [exact H | symmetry; apply shift_e_0]. Qed.

Lemma located_var_expr :
  (forall v, located (var_errors v) (att_var v)) /\ (forall e, located (expr_errors e) (att_expr e)).
Proof.
  apply var_expr_ind.
  - intros i y. cbn [var_errors]. unfold ident_errors. split.
    + intros H. exists 0, y. split; [apply AV_name, H | symmetry; apply shift_e_0].
    + intros [n [x [Ha ->]]]. inversion Ha; subst. rewrite shift_e_0. assumption.
  - intros a inf IHa y. cbn [var_errors]. rewrite app_nil_r, in_app_iff. split.
    + intros [H | H].
      * exists 0, y. split; [apply AV_here, H | symmetry; apply shift_e_0].
      * apply IHa in H. destruct H as [n [x [Ha ->]]]. exists n, x. split; [apply AV_arr, Ha | reflexivity].
    + intros [n [x [Ha ->]]]. inversion Ha; subst.
      * left. rewrite shift_e_0. assumption.
      * right. apply IHa. eauto.
  - intros a e off inf IHa IHe y. cbn [var_errors]. rewrite !in_app_iff, (located_ref off _ _ IHe). split.
    + intros [H | [H | H]].
      * exists 0, y. split; [apply AV_here, H | symmetry; apply shift_e_0].
      * apply IHa in H. destruct H as [n [x [Ha ->]]]. exists n, x. split; [apply AV_arr, Ha | reflexivity].
      * destruct H as [n [x [Ha ->]]]. exists (off + n), x. split; [apply AV_idx, Ha | reflexivity].
    + intros [n [x [Ha ->]]]. inversion Ha; subst.
      * left. rewrite shift_e_0. assumption.
      * right. left. apply IHa. eauto.
      * right. right. eauto.
  - intros op l r inf IHl IHr y. cbn [expr_errors]. rewrite !in_app_iff. split.
    + intros [H | [H | H]].
      * exists 0, y. split; [apply AE_bin, H | symmetry; apply shift_e_0].
      * apply IHl in H. destruct H as [n [x [Ha ->]]]. exists n, x. split; [apply AE_bin_l, Ha | reflexivity].
      * apply IHr in H. destruct H as [n [x [Ha ->]]]. exists n, x. split; [apply AE_bin_r, Ha | reflexivity].
    + intros [n [x [Ha ->]]]. inversion Ha; subst.
      * left. rewrite shift_e_0. assumption.
      * right. left. apply IHl. eauto.
      * right. right. apply IHr. eauto.
  - intros a inf IHa y. cbn [expr_errors]. rewrite !in_app_iff. split.
    + intros [H | H].
      * exists 0, y. split; [apply AE_brack, H | symmetry; apply shift_e_0].
      * apply IHa in H. destruct H as [n [x [Ha ->]]]. exists n, x. split; [apply AE_brack_in, Ha | reflexivity].
    + intros [n [x [Ha ->]]]. inversion Ha; subst.
      * left. rewrite shift_e_0. assumption.
      * right. apply IHa. eauto.
  - intros i y. cbn [expr_errors]. split.
    + intros H. exists 0, y. split; [apply AE_int, H | symmetry; apply shift_e_0].
    + intros [n [x [Ha ->]]]. inversion Ha; subst. rewrite shift_e_0. assumption.
  - intros op a inf IHa y. cbn [expr_errors]. rewrite !in_app_iff. split.
    + intros [H | H].
      * exists 0, y. split; [apply AE_un, H | symmetry; apply shift_e_0].
      * apply IHa in H. destruct H as [n [x [Ha ->]]]. exists n, x. split; [apply AE_un_in, Ha | reflexivity].
    + intros [n [x [Ha ->]]]. inversion Ha; subst.
      * left. rewrite shift_e_0. assumption.
      * right. apply IHa. eauto.
  - intros v IHv y. cbn [expr_errors]. split.
    + intros H. apply IHv in H. destruct H as [n [x [Ha ->]]]. exists n, x. split; [apply AE_var, Ha | reflexivity].
    + intros [n [x [Ha ->]]]. inversion Ha; subst. apply IHv. eauto.
  - intros inf y. cbn [expr_errors]. split.
    + intros H. exists 0, y. split; [apply AE_err, H | symmetry; apply shift_e_0].
    + intros [n [x [Ha ->]]]. inversion Ha; subst. rewrite shift_e_0. assumption.
Qed.

Lemma located_var v : located (var_errors v) (att_var v).
Proof. apply located_var_expr. Qed.
Lemma located_expr e : located (expr_errors e) (att_expr e).
Proof. apply located_var_expr. Qed.

Fixpoint texpr_ind' (P : typeexpr -> Prop) (Hn : forall i, P (TNamed i))
  (Ha0 : forall size inf, P (TArray size None inf))
  (Ha : forall size b off inf, P b -> P (TArray size (Some (b, off)) inf)) (t : typeexpr) : P t :=
  match t with
  | TNamed i => Hn i
  | TArray size None inf => Ha0 size inf
  | TArray size (Some (b, off)) inf => Ha size b off inf (texpr_ind' P Hn Ha0 Ha b)
  end.

Lemma located_texpr t : located (texpr_errors t) (att_texpr t).
Proof.
  induction t as [i | size inf | size b off inf IH] using texpr_ind'; intros y; cbn [texpr_errors].
  - unfold ident_errors. split.
    + intros H. exists 0, y. split; [apply AT_name, H | symmetry; apply shift_e_0].
    + intros [n [x [Ha ->]]]. inversion Ha; subst. rewrite shift_e_0. assumption.
  - rewrite app_nil_r. split.
    + intros H. exists 0, y. split; [apply AT_here, H | symmetry; apply shift_e_0].
    + intros [n [x [Ha ->]]]. inversion Ha; subst. rewrite shift_e_0. assumption.
  - rewrite in_app_iff, (located_ref off _ _ IH). split.
    + intros [H | H].
      * exists 0, y. split; [apply AT_here, H | symmetry; apply shift_e_0].
      * destruct H as [n [x [Ha ->]]]. exists (off + n), x. split; [apply AT_base, Ha | reflexivity].
    + intros [n [x [Ha ->]]]. inversion Ha; subst.
      * left. rewrite shift_e_0. assumption.
      * right. eauto.
Qed.

(* unfolding equations of stmt_errors *)
Definition opt_stmt_errors (r : option (stmt * nat)) : list err :=
  match r with Some (x, off) => shift_es off (stmt_errors x) | None => [] end.

Lemma stmt_errors_if c t e inf :
  stmt_errors (SIf c t e inf) = i_errs inf ++ opt_expr_errors c ++ opt_stmt_errors t ++ opt_stmt_errors e.
Proof. reflexivity. Qed.
Lemma stmt_errors_while c b inf :
  stmt_errors (SWhile c b inf) = i_errs inf ++ opt_expr_errors c ++ opt_stmt_errors b.
Proof. reflexivity. Qed.
Lemma stmt_errors_block body inf :
  stmt_errors (SBlock body inf) = i_errs inf ++ flat_map (fun x => shift_es (snd x) (stmt_errors (fst x))) body.
Proof.
  change (stmt_errors (SBlock body inf)) with
    (i_errs inf ++ (fix go (l : list (stmt * nat)) : list err :=
                      match l with [] => [] | (x, off) :: r => shift_es off (stmt_errors x) ++ go r end) body).
  f_equal. induction body as [|[x off] r IH]; [reflexivity|]. cbn [flat_map fst snd]. rewrite <- IH. reflexivity.
Qed.

(* a list of References *)
Lemma located_refs {A} (errs : A -> list err) (att : A -> nat -> err -> Prop) (l : list (A * nat)) :
  (forall a off, In (a, off) l -> located (errs a) (att a)) ->
  forall y, In y (flat_map (fun x => shift_es (snd x) (errs (fst x))) l) <->
            exists a off n x, In (a, off) l /\ att a n x /\ y = shift_e (off + n) x.
Proof.
  intros H y. rewrite in_flat_map. split.
  - intros [[a off] [Hin Hy]]. cbn [fst snd] in Hy. apply (located_ref off _ _ (H _ _ Hin)) in Hy.
    destruct Hy as [n [x [Ha ->]]]. exists a, off, n, x. tauto.
  - intros [a [off [n [x [Hin [Ha ->]]]]]]. exists (a, off). split; [exact Hin|]. cbn [fst snd].
    apply (located_ref off _ _ (H _ _ Hin)). eauto.
Qed.

Lemma located_opt_expr (c : option (expr * nat)) y :
  In y (opt_expr_errors c) <-> exists e off n x, c = Some (e, off) /\ att_expr e n x /\ y = shift_e (off + n) x.
Proof.
  destruct c as [[e off]|]; cbn [opt_expr_errors].
  - rewrite (located_ref off _ _ (located_expr e)). split.
    + intros [n [x [Ha ->]]]. exists e, off, n, x. tauto.
    + intros [e' [off' [n [x [[= <- <-] [Ha ->]]]]]]. eauto.
  - split; [contradiction | intros [e [off [n [x [Hx _]]]]]; discriminate].
Qed.

Lemma located_stmt s : located (stmt_errors s) (att_stmt s).
Proof.
  induction s as [inf | v e inf | name args inf | c t e inf IHt IHe | c b inf IHb | body inf IH | inf] using stmt_ind'; intros y.
  - cbn [stmt_errors]. split.
    + intros H. exists 0, y. split; [apply AS_here, H | symmetry; apply shift_e_0].
    + intros [n [x [Ha ->]]]. inversion Ha; subst. rewrite shift_e_0. assumption.
  - cbn [stmt_errors]. rewrite !in_app_iff, located_opt_expr. split.
    + intros [H | [H | H]].
      * exists 0, y. split; [apply AS_here, H | symmetry; apply shift_e_0].
      * apply located_var in H. destruct H as [n [x [Ha ->]]]. exists n, x. split; [apply AS_assign_v, Ha | reflexivity].
      * destruct H as [e' [off [n [x [-> [Ha ->]]]]]]. exists (off + n), x. split; [apply AS_assign_e, Ha | reflexivity].
    + intros [n [x [Ha ->]]]. inversion Ha; subst.
      * left. rewrite shift_e_0. assumption.
      * right. left. apply located_var. eauto.
      * right. right. eexists _, _, _, _. eauto.
  - cbn [stmt_errors]. unfold ident_errors.
    rewrite !in_app_iff, (located_refs expr_errors att_expr args (fun a off _ => located_expr a)). split.
    + intros [H | [H | H]].
      * exists 0, y. split; [apply AS_here, H | symmetry; apply shift_e_0].
      * exists 0, y. split; [apply AS_call_name, H | symmetry; apply shift_e_0].
      * destruct H as [a [off [n [x [Hin [Ha ->]]]]]]. exists (off + n), x. split; [eapply AS_call_arg; eassumption | reflexivity].
    + intros [n [x [Ha ->]]]. inversion Ha; subst.
      * left. rewrite shift_e_0. assumption.
      * right. left. rewrite shift_e_0. assumption.
      * right. right. eexists _, _, _, _. eauto.
  - rewrite stmt_errors_if, !in_app_iff, located_opt_expr. split.
    + intros [H | [H | [H | H]]].
      * exists 0, y. split; [apply AS_here, H | symmetry; apply shift_e_0].
      * destruct H as [c' [off [n [x [-> [Ha ->]]]]]]. exists (off + n), x. split; [apply AS_if_c, Ha | reflexivity].
      * destruct t as [[t ot]|]; [|contradiction]. cbn [opt_stmt_errors opt_stmt_P] in H, IHt.
        apply (located_ref ot _ _ IHt) in H. destruct H as [n [x [Ha ->]]]. exists (ot + n), x. split; [apply AS_if_t, Ha | reflexivity].
      * destruct e as [[e oe]|]; [|contradiction]. cbn [opt_stmt_errors opt_stmt_P] in H, IHe.
        apply (located_ref oe _ _ IHe) in H. destruct H as [n [x [Ha ->]]]. exists (oe + n), x. split; [apply AS_if_e, Ha | reflexivity].
    + intros [n [x [Ha ->]]]. inversion Ha; subst.
      * left. rewrite shift_e_0. assumption.
      * right. left. eexists _, _, _, _. eauto.
      * right. right. left. cbn [opt_stmt_errors opt_stmt_P] in *. apply (located_ref _ _ _ IHt). eauto.
      * right. right. right. cbn [opt_stmt_errors opt_stmt_P] in *. apply (located_ref _ _ _ IHe). eauto.
  - rewrite stmt_errors_while, !in_app_iff, located_opt_expr. split.
    + intros [H | [H | H]].
      * exists 0, y. split; [apply AS_here, H | symmetry; apply shift_e_0].
      * destruct H as [c' [off [n [x [-> [Ha ->]]]]]]. exists (off + n), x. split; [apply AS_while_c, Ha | reflexivity].
      * destruct b as [[b ob]|]; [|contradiction]. cbn [opt_stmt_errors opt_stmt_P] in H, IHb.
        apply (located_ref ob _ _ IHb) in H. destruct H as [n [x [Ha ->]]]. exists (ob + n), x. split; [apply AS_while_b, Ha | reflexivity].
    + intros [n [x [Ha ->]]]. inversion Ha; subst.
      * left. rewrite shift_e_0. assumption.
      * right. left. eexists _, _, _, _. eauto.
      * right. right. cbn [opt_stmt_errors opt_stmt_P] in *. apply (located_ref _ _ _ IHb). eauto.
  - rewrite stmt_errors_block, in_app_iff.
    assert (Hall : forall a off, In (a, off) body -> located (stmt_errors a) (att_stmt a)).
    { intros a off Hin. rewrite Forall_forall in IH. exact (IH _ Hin). }
    rewrite (located_refs stmt_errors att_stmt body Hall). split.
    + intros [H | H].
      * exists 0, y. split; [apply AS_here, H | symmetry; apply shift_e_0].
      * destruct H as [a [off [n [x [Hin [Ha ->]]]]]]. exists (off + n), x. split; [eapply AS_block; eassumption | reflexivity].
    + intros [n [x [Ha ->]]]. inversion Ha; subst.
      * left. rewrite shift_e_0. assumption.
      * right. eexists _, _, _, _. eauto.
  - cbn [stmt_errors]. split.
    + intros H. exists 0, y. split; [apply AS_here, H | symmetry; apply shift_e_0].
    + intros [n [x [Ha ->]]]. inversion Ha; subst. rewrite shift_e_0. assumption.
Qed.

Lemma located_opt_name (n : option ident) y : In y (opt_ident_errors n) <-> att_opt_name n y.
Proof.
  destruct n as [i|]; cbn [opt_ident_errors]; unfold ident_errors.
  - split; [apply AN_some | intros H; inversion H; assumption].
  - split; [contradiction | intros H; inversion H].
Qed.

Lemma located_opt_texpr (t : option (typeexpr * nat)) y :
  In y (opt_texpr_errors t) <-> exists n x, att_opt_texpr t n x /\ y = shift_e n x.
Proof.
  destruct t as [[t off]|]; cbn [opt_texpr_errors].
  - rewrite (located_ref off _ _ (located_texpr t)). split.
    + intros [n [x [Ha ->]]]. exists (off + n), x. split; [apply AOT_some, Ha | reflexivity].
    + intros [n [x [Ha ->]]]. inversion Ha; subst. eauto.
  - split; [contradiction | intros [n [x [Ha _]]]; inversion Ha].
Qed.

Lemma located_vardecl v : located (vardecl_errors v) (att_vardecl v).
Proof.
  intros y. destruct v as [doc name ty inf | inf]; cbn [vardecl_errors].
  - rewrite !in_app_iff, located_opt_name, located_opt_texpr. split.
    + intros [H | [H | H]].
      * exists 0, y. split; [apply AVD_here, H | symmetry; apply shift_e_0].
      * exists 0, y. split; [apply AVD_name, H | symmetry; apply shift_e_0].
      * destruct H as [n [x [Ha ->]]]. exists n, x. split; [apply AVD_type, Ha | reflexivity].
    + intros [n [x [Ha ->]]]. inversion Ha; subst.
      * left. rewrite shift_e_0. assumption.
      * right. left. rewrite shift_e_0. assumption.
      * right. right. eauto.
  - split.
    + intros H. exists 0, y. split; [apply AVD_here, H | symmetry; apply shift_e_0].
    + intros [n [x [Ha ->]]]. inversion Ha; subst. rewrite shift_e_0. assumption.
Qed.

Lemma located_paramdecl p : located (paramdecl_errors p) (att_paramdecl p).
Proof.
  intros y. destruct p as [doc r name ty inf | inf]; cbn [paramdecl_errors].
  - rewrite !in_app_iff, located_opt_name, located_opt_texpr. split.
    + intros [H | [H | H]].
      * exists 0, y. split; [apply APD_here, H | symmetry; apply shift_e_0].
      * exists 0, y. split; [apply APD_name, H | symmetry; apply shift_e_0].
      * destruct H as [n [x [Ha ->]]]. exists n, x. split; [apply APD_type, Ha | reflexivity].
    + intros [n [x [Ha ->]]]. inversion Ha; subst.
      * left. rewrite shift_e_0. assumption.
      * right. left. rewrite shift_e_0. assumption.
      * right. right. eauto.
  - split.
    + intros H. exists 0, y. split; [apply APD_here, H | symmetry; apply shift_e_0].
    + intros [n [x [Ha ->]]]. inversion Ha; subst. rewrite shift_e_0. assumption.
Qed.

Lemma located_gdecl g : located (gdecl_errors g) (att_gdecl g).
Proof.
  intros y. destruct g as [d | d | inf]; cbn [gdecl_errors].
  - unfold typedecl_errors. rewrite !in_app_iff, located_opt_name, located_opt_texpr. split.
    + intros [H | [H | H]].
      * exists 0, y. split; [apply AG_here, H | symmetry; apply shift_e_0].
      * exists 0, y. split; [apply AG_type_name, H | symmetry; apply shift_e_0].
      * destruct H as [n [x [Ha ->]]]. exists n, x. split; [apply AG_type_ty, Ha | reflexivity].
    + intros [n [x [Ha ->]]]. inversion Ha; subst.
      * left. rewrite shift_e_0. assumption.
      * right. left. rewrite shift_e_0. assumption.
      * right. right. eauto.
  - unfold procdecl_errors.
    rewrite !in_app_iff, located_opt_name,
      (located_refs paramdecl_errors att_paramdecl _ (fun a off _ => located_paramdecl a)),
      (located_refs vardecl_errors att_vardecl _ (fun a off _ => located_vardecl a)),
      (located_refs stmt_errors att_stmt _ (fun a off _ => located_stmt a)). split.
    + intros [H | [H | [H | [H | H]]]].
      * exists 0, y. split; [apply AG_here, H | symmetry; apply shift_e_0].
      * exists 0, y. split; [apply AG_proc_name, H | symmetry; apply shift_e_0].
      * destruct H as [a [off [n [x [Hin [Ha ->]]]]]]. exists (off + n), x. split; [eapply AG_proc_param; eassumption | reflexivity].
      * destruct H as [a [off [n [x [Hin [Ha ->]]]]]]. exists (off + n), x. split; [eapply AG_proc_var; eassumption | reflexivity].
      * destruct H as [a [off [n [x [Hin [Ha ->]]]]]]. exists (off + n), x. split; [eapply AG_proc_stmt; eassumption | reflexivity].
    + intros [n [x [Ha ->]]]. inversion Ha; subst.
      * left. rewrite shift_e_0. assumption.
      * right. left. rewrite shift_e_0. assumption.
      * right. right. left. eexists _, _, _, _. eauto.
      * right. right. right. left. eexists _, _, _, _. eauto.
      * right. right. right. right. eexists _, _, _, _. eauto.
  - split.
    + intros H. exists 0, y. split; [apply AG_here, H | symmetry; apply shift_e_0].
    + intros [n [x [Ha ->]]]. inversion Ha; subst. rewrite shift_e_0. assumption.
Qed.

(* the localisation theorem: y is published by tree_errors iff it is an attached error x shifted by the
   sum n of the offsets of the References on the path from the root to the node carrying x *)
Theorem tree_errors_located p y :
  In y (tree_errors p) <-> exists n x, att_program p n x /\ y = shift_e n x.
Proof.
  unfold tree_errors.
  rewrite in_app_iff, (located_refs gdecl_errors att_gdecl _ (fun a off _ => located_gdecl a)). split.
  - intros [H | H].
    + exists 0, y. split; [apply AP_here, H | symmetry; apply shift_e_0].
    + destruct H as [a [off [n [x [Hin [Ha ->]]]]]]. exists (off + n), x. split; [eapply AP_decl; eassumption | reflexivity].
  - intros [n [x [Ha ->]]]. inversion Ha; subst.
    + left. rewrite shift_e_0. assumption.
    + right. eexists _, _, _, _. eauto.
Qed.

(* a clean tree publishes nothing *)
Lemma clean_nil inf : clean inf = true -> i_errs inf = [].
Proof. unfold clean. destruct (i_errs inf); [reflexivity | discriminate]. Qed.

Lemma clean_var_expr_errors :
  (forall v, clean_var v = true -> var_errors v = []) /\ (forall e, clean_expr e = true -> expr_errors e = []).
Proof.
  apply var_expr_ind.
  - intros i H. apply clean_nil, H.
  - intros a inf _ H. cbn [clean_var clean_opt] in H. rewrite andb_false_r in H. discriminate.
  - intros a e off inf IHa IHe H. cbn [clean_var clean_opt fst] in H.
    apply andb_true_iff in H. destruct H as [H Hi]. apply andb_true_iff in H. destruct H as [Ha He].
    cbn [var_errors]. rewrite (clean_nil _ Hi), (IHa Ha), (IHe He). reflexivity.
  - intros op l r inf IHl IHr H. cbn [clean_expr] in H.
    apply andb_true_iff in H. destruct H as [H Hi]. apply andb_true_iff in H. destruct H as [Hl Hr].
    cbn [expr_errors]. rewrite (clean_nil _ Hi), (IHl Hl), (IHr Hr). reflexivity.
  - intros a inf IHa H. cbn [clean_expr] in H. apply andb_true_iff in H. destruct H as [Ha Hi].
    cbn [expr_errors]. rewrite (clean_nil _ Hi), (IHa Ha). reflexivity.
  - intros i H. cbn [clean_expr] in H. unfold clean_lit in H. apply andb_true_iff in H. destruct H as [H _].
    apply clean_nil, H.
  - intros op a inf IHa H. cbn [clean_expr] in H. apply andb_true_iff in H. destruct H as [Ha Hi].
    cbn [expr_errors]. rewrite (clean_nil _ Hi), (IHa Ha). reflexivity.
  - intros v IHv H. apply IHv, H.
  - intros inf H. discriminate.
Qed.

Lemma clean_texpr_errors t : clean_texpr t = true -> texpr_errors t = [].
Proof.
  induction t as [i | size inf | size b off inf IH] using texpr_ind'; intros H; cbn [clean_texpr clean_opt fst] in H.
  - apply clean_nil, H.
  - rewrite andb_false_r in H. discriminate.
  - apply andb_true_iff in H. destruct H as [H Hi]. apply andb_true_iff in H. destruct H as [_ Hb].
    cbn [texpr_errors]. rewrite (clean_nil _ Hi), (IH Hb). reflexivity.
Qed.

Lemma flat_map_nil {A B} (f : A -> list B) l : (forall x, In x l -> f x = []) -> flat_map f l = [].
Proof. induction l as [|a r IH]; intros H; [reflexivity|]. cbn. rewrite (H a (or_introl eq_refl)), IH; [reflexivity|]. intros x Hx. apply H. right. exact Hx. Qed.

Lemma clean_opt_expr_errors (c : option (expr * nat)) :
  clean_opt (fun r => clean_expr (fst r)) c = true -> opt_expr_errors c = [].
Proof.
  destruct c as [[e off]|]; [|discriminate]. cbn [clean_opt fst opt_expr_errors]. intros H.
  rewrite (proj2 clean_var_expr_errors e H). reflexivity.
Qed.

Lemma clean_stmt_errors s : clean_stmt s = true -> stmt_errors s = [].
Proof.
  induction s as [inf | v e inf | name args inf | c t e inf IHt IHe | c b inf IHb | body inf IH | inf] using stmt_ind'; intros H;
    cbn [clean_stmt] in H.
  - apply clean_nil, H.
  - apply andb_true_iff in H. destruct H as [H Hi]. apply andb_true_iff in H. destruct H as [Hv He].
    cbn [stmt_errors]. rewrite (clean_nil _ Hi), (proj1 clean_var_expr_errors v Hv), (clean_opt_expr_errors _ He). reflexivity.
  - apply andb_true_iff in H. destruct H as [H Hi]. apply andb_true_iff in H. destruct H as [Hn Ha].
    cbn [stmt_errors]. unfold ident_errors. rewrite (clean_nil _ Hi), (clean_nil _ Hn). cbn [app].
    apply flat_map_nil. intros [a off] Hin. rewrite forallb_forall in Ha. cbn [fst snd].
    rewrite (proj2 clean_var_expr_errors a (Ha _ Hin)). reflexivity.
  - apply andb_true_iff in H. destruct H as [H Hi]. apply andb_true_iff in H. destruct H as [H He].
    apply andb_true_iff in H. destruct H as [Hc Ht].
    rewrite stmt_errors_if, (clean_nil _ Hi), (clean_opt_expr_errors _ Hc).
    destruct t as [[t ot]|]; [|discriminate]. cbn [clean_opt fst opt_stmt_P opt_stmt_errors] in *. rewrite (IHt Ht).
    destruct e as [[e oe]|]; cbn [fst opt_stmt_P opt_stmt_errors] in *; [rewrite (IHe He)|]; reflexivity.
  - apply andb_true_iff in H. destruct H as [H Hi]. apply andb_true_iff in H. destruct H as [Hc Hb].
    rewrite stmt_errors_while, (clean_nil _ Hi), (clean_opt_expr_errors _ Hc).
    destruct b as [[b ob]|]; [|discriminate]. cbn [clean_opt fst opt_stmt_P opt_stmt_errors] in *. rewrite (IHb Hb). reflexivity.
  - apply andb_true_iff in H. destruct H as [Hb Hi]. rewrite stmt_errors_block, (clean_nil _ Hi). cbn [app].
    apply flat_map_nil. intros [a off] Hin. rewrite forallb_forall in Hb. rewrite Forall_forall in IH. cbn [fst snd].
    rewrite (IH _ Hin (Hb _ Hin) : stmt_errors a = []). reflexivity.
  - discriminate.
Qed.

Lemma clean_opt_name_errors n : clean_opt clean_ident n = true -> opt_ident_errors n = [].
Proof. destruct n as [i|]; [|discriminate]. intros H. apply clean_nil, H. Qed.

Lemma clean_opt_texpr_errors (t : option (typeexpr * nat)) :
  clean_opt (fun r => clean_texpr (fst r)) t = true -> opt_texpr_errors t = [].
Proof.
  destruct t as [[t off]|]; [|discriminate]. cbn [clean_opt fst opt_texpr_errors]. intros H.
  rewrite (clean_texpr_errors _ H). reflexivity.
Qed.

Lemma clean_gdecl_errors g : clean_gdecl g = true -> gdecl_errors g = [].
Proof.
  destruct g as [d | d | inf]; cbn [clean_gdecl gdecl_errors]; [| |discriminate]; intros H.
  - apply andb_true_iff in H. destruct H as [H Hi]. apply andb_true_iff in H. destruct H as [Hn Ht].
    unfold typedecl_errors. rewrite (clean_nil _ Hi), (clean_opt_name_errors _ Hn), (clean_opt_texpr_errors _ Ht). reflexivity.
  - apply andb_true_iff in H. destruct H as [H Hi]. apply andb_true_iff in H. destruct H as [H Hs].
    apply andb_true_iff in H. destruct H as [H Hv]. apply andb_true_iff in H. destruct H as [Hn Hp].
    unfold procdecl_errors. rewrite (clean_nil _ Hi), (clean_opt_name_errors _ Hn). cbn [app].
    rewrite forallb_forall in Hp, Hv, Hs.
    rewrite !flat_map_nil; [reflexivity | | |].
    + intros [s off] Hin. cbn [fst snd]. rewrite (clean_stmt_errors _ (Hs _ Hin) : stmt_errors s = []). reflexivity.
    + intros [v off] Hin. cbn [fst snd]. specialize (Hv _ Hin). cbn [fst] in Hv.
      destruct v as [doc name ty inf | inf]; [|discriminate]. cbn [clean_vardecl vardecl_errors] in *.
      apply andb_true_iff in Hv. destruct Hv as [Hv Hvi]. apply andb_true_iff in Hv. destruct Hv as [Hvn Hvt].
      rewrite (clean_nil _ Hvi), (clean_opt_name_errors _ Hvn), (clean_opt_texpr_errors _ Hvt). reflexivity.
    + intros [q off] Hin. cbn [fst snd]. specialize (Hp _ Hin). cbn [fst] in Hp.
      destruct q as [doc r name ty inf | inf]; [|discriminate]. cbn [clean_paramdecl paramdecl_errors] in *.
      apply andb_true_iff in Hp. destruct Hp as [Hq Hqi]. apply andb_true_iff in Hq. destruct Hq as [Hqn Hqt].
      rewrite (clean_nil _ Hqi), (clean_opt_name_errors _ Hqn), (clean_opt_texpr_errors _ Hqt). reflexivity.
Qed.

Theorem clean_tree_errors p : tree_clean p = true -> tree_errors p = [].
Proof.
  unfold tree_clean, tree_errors. intros H. apply andb_true_iff in H. destruct H as [Hd Hi].
  rewrite (clean_nil _ Hi). cbn [app]. apply flat_map_nil. intros [g off] Hin. rewrite forallb_forall in Hd.
  cbn [fst snd]. rewrite (clean_gdecl_errors _ (Hd _ Hin) : gdecl_errors g = []). reflexivity.
Qed.

(* ------------------------------------------------------------------------------------------ *)
(* RANGES INSIDE: errors() cannot panic when every collected range lies within the token vector *)

Definition range_inside (ntoks : nat) (x : err) : Prop :=
  if Nat.ltb (e_s x) (e_e x) then e_e x <= ntoks else e_e x < ntoks.

Lemma byte_range_ok toks x : range_inside (length toks) x -> exists r, byte_range toks x = ROk r.
Proof.
  unfold range_inside, byte_range. destruct (Nat.ltb (e_s x) (e_e x)) eqn:E.
  - intros H. apply Nat.ltb_lt in E.
    assert (Hl : Nat.ltb (length toks) (e_e x) = false) by (apply Nat.ltb_ge; exact H). rewrite Hl.
    set (sl := firstn (e_e x - e_s x) (skipn (e_s x) toks)).
    assert (Hlen : length sl = e_e x - e_s x).
    { unfold sl. rewrite firstn_length, skipn_length. lia. }
    destruct sl as [|t0 r] eqn:Es; [cbn in Hlen; lia|].
    cbn [hd_error]. destruct (rev (t0 :: r)) as [|t1 r'] eqn:Er.
    + apply (f_equal (@length _)) in Er. rewrite rev_length in Er. discriminate.
    + cbn [hd_error]. eauto.
  - intros H. destruct (nth_error toks (e_e x)) eqn:En; [eauto|].
    apply nth_error_None in En. lia.
Qed.

Theorem byte_ranges_ok toks l : Forall (range_inside (length toks)) l -> exists r, byte_ranges toks l = ROk r.
Proof.
  induction 1 as [|x r Hx _ [r' IH]]; [exists []; reflexivity|].
  destruct (byte_range_ok _ _ Hx) as [y Hy]. exists (y :: r'). cbn [byte_ranges]. rewrite Hy. cbn [rbind]. rewrite IH. reflexivity.
Qed.

Theorem doc_errors_ok d :
  Forall (range_inside (length (d_toks d))) (tree_errors (d_ast d)) -> exists r, doc_errors d = Done r.
Proof.
  intros H. destruct (byte_ranges_ok _ _ H) as [r Hr]. exists r. unfold doc_errors, doc_errors_res. rewrite Hr. reflexivity.
Qed.

(* ... and what the published byte range is: from the start of the first token of the range to the end
   of its last token; an empty range is the end of the token at its index *)
Lemma nth_firstn {A} (l : list A) n i : i < n -> nth_error (firstn n l) i = nth_error l i.
Proof.
  revert l i. induction n as [|n IH]; intros l i Hi; [lia|].
  destruct l as [|a r]; [reflexivity|]. destruct i as [|i]; [reflexivity|]. cbn. apply IH. lia.
Qed.

Lemma nth_skipn {A} (l : list A) n i : nth_error (skipn n l) i = nth_error l (n + i).
Proof.
  revert l. induction n as [|n IH]; intros l; [reflexivity|].
  destruct l as [|a r]; [destruct i; reflexivity|]. cbn. apply IH.
Qed.

Lemma byte_range_nonempty toks x first last :
  e_s x < e_e x -> nth_error toks (e_s x) = Some first -> nth_error toks (e_e x - 1) = Some last ->
  byte_range toks x = ROk (ts first, te last, e_m x).
Proof.
  intros Hlt Hf Hl. unfold byte_range.
  assert (E : Nat.ltb (e_s x) (e_e x) = true) by (apply Nat.ltb_lt; exact Hlt). rewrite E.
  assert (Hlen : e_e x - 1 < length toks) by (apply nth_error_Some; congruence).
  assert (Hl2 : Nat.ltb (length toks) (e_e x) = false) by (apply Nat.ltb_ge; lia). rewrite Hl2.
  set (sl := firstn (e_e x - e_s x) (skipn (e_s x) toks)).
  assert (Hlen2 : length sl = e_e x - e_s x) by (unfold sl; rewrite firstn_length, skipn_length; lia).
  assert (Hnth : forall i, i < e_e x - e_s x -> nth_error sl i = nth_error toks (e_s x + i)).
  { intros i Hi. unfold sl. rewrite nth_firstn by exact Hi. apply nth_skipn. }
  assert (H0 : hd_error sl = Some first).
  { rewrite <- Hf. replace (e_s x) with (e_s x + 0) at 1 by lia. rewrite <- (Hnth 0) by lia. destruct sl; reflexivity. }
  assert (H1 : hd_error (rev sl) = Some last).
  { rewrite <- Hl. replace (e_e x - 1) with (e_s x + (e_e x - e_s x - 1)) by lia.
    rewrite <- (Hnth (e_e x - e_s x - 1)) by lia.
    rewrite <- Hlen2. clear. destruct sl as [|a r _] using rev_ind; [reflexivity|].
    rewrite rev_app_distr. cbn [rev app hd_error]. rewrite app_length. cbn [length].
    replace (length r + 1 - 1) with (length r) by lia. rewrite nth_error_app2 by lia. rewrite Nat.sub_diag. reflexivity. }
  rewrite H0, H1. reflexivity.
Qed.

(* ------------------------------------------------------------------------------------------ *)
(* build: well-formed declarations get no diagnostic and the table the declarative rules prescribe *)

Lemma lookup_app_l {V} (t t' : list (text * V)) k v : lookup t k = Some v -> lookup (t ++ t') k = Some v.
Proof.
  induction t as [|[k0 v0] t IH]; cbn [lookup app]; [discriminate|].
  destruct (text_eqb k0 k); [tauto | exact IH].
Qed.

Lemma lookup_app_none {V} (t t' : list (text * V)) k : lookup t k = None -> lookup (t ++ t') k = lookup t' k.
Proof.
  induction t as [|[k0 v0] t IH]; cbn [lookup app]; [reflexivity|].
  destruct (text_eqb k0 k); [discriminate | exact IH].
Qed.

Lemma text_eqb_neq a b : a <> b -> text_eqb a b = false.
Proof. intros H. destruct (text_eqb a b) eqn:E; [apply text_eqb_eq in E; contradiction | reflexivity]. Qed.

(* `int` is the predefined integer type of the table *)
Definition int_ok (G : gtable) : Prop :=
  exists te, lookup G s_int = Some (GTypeE te) /\ ten_ty te = Some DInt.

Lemma int_ok_initialized : int_ok initialized.
Proof. eexists. split; [vm_compute; reflexivity | reflexivity]. Qed.

Lemma int_ok_app G es : int_ok G -> int_ok (G ++ es).
Proof. intros [te [Hl Ht]]. exists te. split; [apply lookup_app_l, Hl | exact Ht]. Qed.

Section Denotes.
Variable l : option ltable.
Variable L : ltable.
Variable G : gtable.
Hypothesis Hl : forall x, lt_lookup l (Some G) x = lt_lookup (Some L) (Some G) x.
Hypothesis Hint : int_ok G.

Lemma denotes_sound c te t :
  denotes L G c te t -> get_data_type_te l (Some G) (Some c) te = ROk (te, Some t).
Proof using Hl Hint.
  induction 1 as [i te t Hb Ht | il b off inf bt _ IH].
  - cbn [get_data_type_te]. rewrite Hl. apply lt_lookup_binds in Hb. rewrite Hb, Ht. reflexivity.
  - cbn [get_data_type_te]. rewrite IH. reflexivity.
Qed.

Lemma get_data_type_sound c te o t :
  denotes L G c te t -> get_data_type l (Some G) (Some c) (Some (te, o)) = ROk (Some (te, o), Some t).
Proof using Hl Hint. intros H. unfold get_data_type. rewrite (denotes_sound _ _ _ H). reflexivity. Qed.
End Denotes.

Lemma not_primitive_array t : is_primitive t = false -> is_array t.
Proof. destruct t as [| |sz b c]; try discriminate. intros _. exists sz, b, c. reflexivity. Qed.

Lemma build_parameters_sound G pname L ps L' es :
  int_ok G -> wf_params G pname L ps L' es -> build_parameters ps pname G L = ROk (ps, L', es).
Proof.
  intros Hint. induction 1 as [L | L doc is_ref name te o inf off t r L' es Hd Href Hfresh _ IH]; [reflexivity|].
  cbn [build_parameters build_parameter].
  change (anonymous_creator pname name) with (anon_creator pname name).
  rewrite (get_data_type_sound None [] G (fun _ => eq_refl) Hint _ _ o _ Hd). cbn [rbind].
  assert (Hm : negb (is_primitive t) && negb is_ref = false).
  { destruct (is_primitive t) eqn:Ep; [reflexivity|]. rewrite (Href (not_primitive_array _ Ep)). reflexivity. }
  rewrite Hm. cbn [rbind]. rewrite (enter_absent _ _ _ Hfresh). cbn [rbind].
  cbn [paramdecl_info vardecl_info]. change (get_documentation doc) with (doc_of doc). rewrite IH. reflexivity.
Qed.

Lemma build_variables_sound G pname L vs L' :
  int_ok G -> wf_vars G pname L vs L' -> build_variables vs pname G L = ROk (vs, L').
Proof.
  intros Hint. induction 1 as [L | L doc name te o inf off t r L' Hd Hfresh _ IH]; [reflexivity|].
  cbn [build_variables build_variable].
  change (anonymous_creator pname name) with (anon_creator pname name).
  rewrite (get_data_type_sound (Some L) L G (fun _ => eq_refl) Hint _ _ o _ Hd). cbn [rbind].
  rewrite (enter_absent _ _ _ Hfresh). cbn [rbind].
  cbn [paramdecl_info vardecl_info]. change (get_documentation doc) with (doc_of doc). rewrite IH. reflexivity.
Qed.

Lemma typedecl_eta d :
  {| td_doc := td_doc d; td_name := td_name d; td_ty := td_ty d; td_info := td_info d |} = d.
Proof. destruct d; reflexivity. Qed.

Lemma build_gdecl_sound G off d ke :
  int_ok G -> wf_gdecl G off d ke -> build_gdecl d G off = ROk (d, G ++ [ke]).
Proof.
  intros Hint [d0 name te o t Hn Hmain Hfresh Hty Hd | d0 name L1 ps L2 Hn Hfresh Hp Hv].
  - cbn [build_gdecl]. unfold build_typedecl. rewrite Hn, (text_eqb_neq _ _ Hmain), Hty.
    rewrite (get_data_type_sound None [] G (fun _ => eq_refl) Hint _ _ o _ Hd). cbn [rbind].
    rewrite (enter_absent _ _ _ Hfresh). cbn [rbind]. rewrite <- Hn, <- Hty, typedecl_eta. reflexivity.
  - cbn [build_gdecl]. unfold build_procdecl. rewrite Hn.
    rewrite (build_parameters_sound _ _ _ _ _ _ Hint Hp). cbn [rbind].
    rewrite (build_variables_sound _ _ _ _ _ Hint Hv). cbn [rbind].
    rewrite (enter_absent _ _ _ Hfresh). cbn [rbind]. rewrite <- Hn, procdecl_eta. reflexivity.
Qed.

Lemma build_gdecls_sound G ds es :
  int_ok G -> wf_gdecls G ds es -> build_gdecls ds G 0 = ROk (ds, G ++ es).
Proof.
  intros Hint H. induction H as [G | G d off ke r es Hd _ IH]; [rewrite app_nil_r; reflexivity|].
  cbn [build_gdecls]. change (0 + off) with off. rewrite (build_gdecl_sound _ _ _ _ Hint Hd). cbn [rbind].
  rewrite (IH (int_ok_app _ _ Hint)). cbn [rbind]. rewrite <- app_assoc. reflexivity.
Qed.

(* NO FALSE POSITIVE (declarations): well-formed declarations get no diagnostic, and the table is the one
   the rules prescribe *)
Theorem build_sound p G : wf_program p G -> build_res p = ROk (p, G).
Proof.
  intros [es [Hwf [-> [pe [Hmain Hnp]]]]]. unfold build_res, build_program.
  rewrite (build_gdecls_sound _ _ _ int_ok_initialized Hwf). cbn [rbind]. rewrite Hmain, Hnp, program_eta. reflexivity.
Qed.

Corollary build_sound_outcome p G : wf_program p G -> build p = Done (p, G).
Proof. intros H. unfold build. rewrite (build_sound _ _ H). reflexivity. Qed.

(* every declared name is mapped to the entry made from its own declaration *)
Definition entry_of_decl (d : gdecl * nat) (ke : text * gentry) : Prop :=
  match fst d, snd ke with
  | GType td, GTypeE te =>
      td_name td = Some (ten_name te) /\ fst ke = id_val (ten_name te)
      /\ ten_range te = shift_range (info_range (td_info td)) (snd d)
  | GProc pd, GProcE pe =>
      pd_name pd = Some (pe_name pe) /\ fst ke = id_val (pe_name pe)
      /\ pe_range pe = shift_range (info_range (pd_info pd)) (snd d)
  | _, _ => False
  end.

Lemma wf_gdecl_fresh G off d ke : wf_gdecl G off d ke -> lookup G (fst ke) = None /\ entry_of_decl (d, off) ke.
Proof.
  intros [d0 name te o t Hn Hmain Hfresh Hty Hd | d0 name L1 ps L2 Hn Hfresh Hp Hv]; (split; [exact Hfresh|]);
    unfold entry_of_decl; cbn [fst snd ten_name pe_name ten_range pe_range]; tauto.
Qed.

Theorem build_table_maps G ds es :
  wf_gdecls G ds es ->
  Forall2 (fun d ke => lookup (G ++ es) (fst ke) = Some (snd ke) /\ entry_of_decl d ke) ds es.
Proof.
  induction 1 as [G | G d off [k e] r es Hd _ IH]; [constructor|].
  destruct (wf_gdecl_fresh _ _ _ _ Hd) as [Hf He]. cbn [fst snd] in Hf.
  constructor.
  - split; [|exact He]. cbn [fst snd]. rewrite (app_assoc G [(k, e)] es : G ++ (k, e) :: es = (G ++ [(k, e)]) ++ es).
    apply lookup_app_l. rewrite lookup_app, Hf, text_eqb_refl. reflexivity.
  - rewrite (app_assoc G [(k, e)] es : G ++ (k, e) :: es = (G ++ [(k, e)]) ++ es). exact IH.
Qed.

(* the two halves together, on trees: a clean, well-typed program goes through build and analyze
   unchanged and publishes nothing *)
Theorem no_false_positive_tree p G :
  tree_clean p = true -> well_typed p G ->
  build_res p = ROk (p, G) /\ analyze_res p G = ROk p /\ tree_errors p = [].
Proof.
  intros Hc [Hwf Hwt]. split; [apply build_sound, Hwf|]. split; [apply analyze_sound, Hwt | apply clean_tree_errors, Hc].
Qed.

(* ------------------------------------------------------------------------------------------ *)
(* PER RULE: a node whose children are well-typed and which violates exactly one premise of its typing
   rule gets exactly the message of that rule, attached at the node the rule names, with that node's
   range; nothing else in the node changes. *)

(* name_err / node_err / expr_err: Spec/Typing.v *)

Section Rules.
Variable L : ltable.
Variable G : gtable.
Notation anv := (an_var (Some L) (Some G)).
Notation ane := (an_expr (Some L) (Some G)).
Notation ans := (an_stmt (Some L) (Some G)).
Notation ana := (an_args (Some L) (Some G)).

(* variable rules *)
Lemma rule_undefined_variable i :
  unbound L G (id_val i) -> i_e (id_info i) <> 0 ->
  anv (NamedVar i) = ROk (NamedVar (ident_append i (name_err i (ESem (UndefinedVariable (id_val i))))), None).
Proof.
  intros Hu He. rewrite an_var_named. apply lt_lookup_unbound in Hu. rewrite Hu, (ident_flag_some _ _ He). reflexivity.
Qed.

Lemma rule_not_a_variable i e :
  binds L G (id_val i) e -> (forall ve, ~ var_entry e ve) -> i_e (id_info i) <> 0 ->
  anv (NamedVar i) = ROk (NamedVar (ident_append i (name_err i (ESem (NotAVariable (id_val i))))), None).
Proof.
  intros Hb Hn He. rewrite an_var_named. apply lt_lookup_binds in Hb. rewrite Hb.
  destruct e as [t|p|ve|ve]; try (rewrite (ident_flag_some _ _ He); reflexivity);
    exfalso; apply (Hn ve); [left | right]; reflexivity.
Qed.

(* indexing rules *)
Lemma rule_indexing_non_array a e off inf t :
  var_type L G a t -> ~ is_array t -> expr_type L G e DInt ->
  anv (ArrAccess a (Some (e, off)) inf) =
  ROk (ArrAccess a (Some (e, off)) (info_append inf (node_err inf IndexingNonArray)), None).
Proof.
  intros Ha Hn He. rewrite an_var_access, (an_expr_sound _ _ _ _ He). cbn [rbind]. rewrite (an_var_sound _ _ _ _ Ha). cbn [rbind].
  destruct t as [| |sz b c]; try reflexivity. exfalso. apply Hn. exists sz, b, c. reflexivity.
Qed.

Lemma rule_indexing_with_non_integer a e off inf sz b c t :
  var_type L G a (DArray sz (Some b) c) -> expr_type L G e t -> t <> DInt ->
  anv (ArrAccess a (Some (e, off)) inf) =
  ROk (ArrAccess a (Some (expr_append e (expr_err e IndexingWithNonInteger), off)) inf, Some b).
Proof.
  intros Ha He Hn. rewrite an_var_access, (an_expr_sound _ _ _ _ He). cbn [rbind]. rewrite (an_var_sound _ _ _ _ Ha). cbn [rbind].
  destruct t; [contradiction | reflexivity | reflexivity].
Qed.

(* operator rules *)
Lemma is_int_false t : t <> DInt -> is_int t = false.
Proof. destruct t; [contradiction | reflexivity | reflexivity]. Qed.

Definition bin_type (op : operator) : dtype := if is_arithmetic op then DInt else DBool.

Lemma rule_operator_different_types op l r inf tl tr :
  expr_type L G l tl -> expr_type L G r tr -> (tl = DInt /\ tr <> DInt) \/ (tl <> DInt /\ tr = DInt) ->
  ane (EBin op l r inf) = ROk (EBin op l r (info_append inf (node_err inf OperatorDifferentTypes)), Some (bin_type op)).
Proof.
  intros Hl Hr H. rewrite an_expr_bin, (an_expr_sound _ _ _ _ Hl). cbn [rbind]. rewrite (an_expr_sound _ _ _ _ Hr). cbn [rbind].
  unfold bin_info. destruct H as [[-> H] | [H ->]]; rewrite (is_int_false _ H); reflexivity.
Qed.

Lemma rule_arithmetic_non_integer op l r inf tl tr :
  expr_type L G l tl -> expr_type L G r tr -> tl <> DInt -> tr <> DInt -> is_arithmetic op = true ->
  ane (EBin op l r inf) = ROk (EBin op l r (info_append inf (node_err inf ArithmeticOperatorNonInteger)), Some DInt).
Proof.
  intros Hl Hr H1 H2 Ho. rewrite an_expr_bin, (an_expr_sound _ _ _ _ Hl). cbn [rbind]. rewrite (an_expr_sound _ _ _ _ Hr). cbn [rbind].
  unfold bin_info. rewrite (is_int_false _ H1), (is_int_false _ H2), Ho. reflexivity.
Qed.

Lemma rule_comparison_non_integer op l r inf tl tr :
  expr_type L G l tl -> expr_type L G r tr -> tl <> DInt -> tr <> DInt -> is_arithmetic op = false ->
  ane (EBin op l r inf) = ROk (EBin op l r (info_append inf (node_err inf ComparisonNonInteger)), Some DBool).
Proof.
  intros Hl Hr H1 H2 Ho. rewrite an_expr_bin, (an_expr_sound _ _ _ _ Hl). cbn [rbind]. rewrite (an_expr_sound _ _ _ _ Hr). cbn [rbind].
  unfold bin_info. rewrite (is_int_false _ H1), (is_int_false _ H2), Ho. reflexivity.
Qed.

Lemma rule_unary_non_integer op a inf t :
  expr_type L G a t -> t <> DInt ->
  ane (EUn op a inf) = ROk (EUn op a (info_append inf (node_err inf ArithmeticOperatorNonInteger)), Some DInt).
Proof.
  intros Ha Hn. rewrite an_expr_un, (an_expr_sound _ _ _ _ Ha). cbn [rbind]. unfold un_info. rewrite (is_int_false _ Hn). reflexivity.
Qed.

(* assignment rules *)
Lemma rule_assignment_different_types v e off inf tl tr :
  var_type L G v tl -> expr_type L G e tr -> tl <> tr ->
  ans (SAssign v (Some (e, off)) inf) =
  ROk (SAssign v (Some (e, off)) (info_append inf (node_err inf AssignmentHasDifferentTypes))).
Proof.
  intros Hv He Hn. rewrite an_stmt_assign, (an_var_sound _ _ _ _ Hv). cbn [rbind]. rewrite (an_expr_sound _ _ _ _ He). cbn [rbind].
  unfold assign_info. rewrite (dt_eqb_neq _ _ Hn). reflexivity.
Qed.

Lemma rule_assignment_requires_integers v e off inf t :
  var_type L G v t -> expr_type L G e t -> t <> DInt ->
  ans (SAssign v (Some (e, off)) inf) =
  ROk (SAssign v (Some (e, off)) (info_append inf (node_err inf AssignmentRequiresIntegers))).
Proof.
  intros Hv He Hn. rewrite an_stmt_assign, (an_var_sound _ _ _ _ Hv). cbn [rbind]. rewrite (an_expr_sound _ _ _ _ He). cbn [rbind].
  unfold assign_info. rewrite dt_eqb_refl, (is_int_false _ Hn). reflexivity.
Qed.

(* condition rules *)
Lemma cond_result_wrong m c t : t <> DBool -> cond_result m c (Some t) = expr_append c (expr_err c m).
Proof. destruct t; [reflexivity | contradiction | reflexivity]. Qed.

Lemma rule_if_condition c oc t ot inf tc :
  expr_type L G c tc -> tc <> DBool -> wt_stmt L G t ->
  ans (SIf (Some (c, oc)) (Some (t, ot)) None inf) =
  ROk (SIf (Some (expr_append c (expr_err c IfConditionMustBeBoolean), oc)) (Some (t, ot)) None inf).
Proof.
  intros Hc Hn Ht. rewrite an_stmt_if, an_cond_some, (an_expr_sound _ _ _ _ Hc). cbn [rbind an_opt].
  rewrite (an_stmt_sound _ _ _ Ht), (cond_result_wrong _ _ _ Hn). reflexivity.
Qed.

Lemma rule_if_else_condition c oc t ot e oe inf tc :
  expr_type L G c tc -> tc <> DBool -> wt_stmt L G t -> wt_stmt L G e ->
  ans (SIf (Some (c, oc)) (Some (t, ot)) (Some (e, oe)) inf) =
  ROk (SIf (Some (expr_append c (expr_err c IfConditionMustBeBoolean), oc)) (Some (t, ot)) (Some (e, oe)) inf).
Proof.
  intros Hc Hn Ht He. rewrite an_stmt_if, an_cond_some, (an_expr_sound _ _ _ _ Hc). cbn [rbind an_opt].
  rewrite (an_stmt_sound _ _ _ Ht). cbn [rbind]. rewrite (an_stmt_sound _ _ _ He), (cond_result_wrong _ _ _ Hn). reflexivity.
Qed.

Lemma rule_while_condition c oc b ob inf tc :
  expr_type L G c tc -> tc <> DBool -> wt_stmt L G b ->
  ans (SWhile (Some (c, oc)) (Some (b, ob)) inf) =
  ROk (SWhile (Some (expr_append c (expr_err c WhileConditionMustBeBoolean), oc)) (Some (b, ob)) inf).
Proof.
  intros Hc Hn Hb. rewrite an_stmt_while, an_cond_some, (an_expr_sound _ _ _ _ Hc). cbn [rbind an_opt].
  rewrite (an_stmt_sound _ _ _ Hb), (cond_result_wrong _ _ _ Hn). reflexivity.
Qed.

(* call rules *)
Lemma rule_undefined_procedure name args inf :
  unbound L G (id_val name) ->
  ans (SCall name args inf) = ROk (SCall name args (info_append inf (node_err inf (UndefinedProcedure (id_val name))))).
Proof. intros Hu. rewrite an_stmt_call. apply lt_lookup_unbound in Hu. rewrite Hu. reflexivity. Qed.

Lemma rule_call_of_non_procedure name args inf e :
  binds L G (id_val name) e -> (forall pe, e <> EntProc pe) ->
  ans (SCall name args inf) = ROk (SCall name args (info_append inf (node_err inf (CallOfNoneProcedure (id_val name))))).
Proof.
  intros Hb Hn. rewrite an_stmt_call. apply lt_lookup_binds in Hb. rewrite Hb.
  destruct e as [t|p|ve|ve]; try reflexivity. exfalso. exact (Hn p eq_refl).
Qed.

(* the zip loop on a well-typed common prefix; whatever is left over on either side is not looked at *)
Lemma an_args_prefix cname pre ppre extra rest :
  Forall2 (arg_ok L G) pre ppre -> extra = [] \/ rest = [] ->
  forall i, ana cname i (pre ++ extra) (ppre ++ rest) = ROk (pre ++ extra).
Proof.
  induction 1 as [|[a off] p ar pr Ha _ IH]; intros Hx i.
  - cbn [app]. destruct Hx as [-> | ->]; [apply an_args_nil_l | apply an_args_nil_r].
  - inversion Ha as [a' off' p' t Ht Hp Hr]; subst. cbn [app]. rewrite an_args_cons.
    assert (Hf : arg_flag_ref cname i p a = a).
    { unfold arg_flag_ref. destruct (ve_ref p); [|reflexivity]. destruct (Hr eq_refl) as [v ->]. reflexivity. }
    rewrite Hf, (an_expr_sound _ _ _ _ Ht). cbn [rbind]. rewrite (IH Hx). cbn [rbind].
    unfold arg_flag_type. rewrite Hp, dt_eqb_refl. reflexivity.
Qed.

Lemma rule_too_few_arguments name args inf pe ppre rest :
  binds L G (id_val name) (EntProc pe) -> pe_params pe = ppre ++ rest -> rest <> [] ->
  Forall2 (arg_ok L G) args ppre ->
  ans (SCall name args inf) = ROk (SCall name args (info_append inf (node_err inf (TooFewArguments (id_val name))))).
Proof.
  intros Hb Hp Hr Ha. rewrite an_stmt_call. apply lt_lookup_binds in Hb. rewrite Hb, Hp.
  pose proof (an_args_prefix (id_val name) _ _ [] rest Ha (or_introl eq_refl) 1) as H. rewrite app_nil_r in H.
  rewrite H. cbn [rbind]. unfold call_info. rewrite app_length, (Forall2_len _ _ _ Ha).
  assert (Hc : Nat.compare (length ppre) (length ppre + length rest) = Lt).
  { apply Nat.compare_lt_iff. destruct rest; [contradiction | cbn [length]; lia]. }
  rewrite Hc. reflexivity.
Qed.

Lemma rule_too_many_arguments name pre extra inf pe :
  binds L G (id_val name) (EntProc pe) -> extra <> [] -> Forall2 (arg_ok L G) pre (pe_params pe) ->
  ans (SCall name (pre ++ extra) inf) =
  ROk (SCall name (pre ++ extra) (info_append inf (node_err inf (TooManyArguments (id_val name))))).
Proof.
  intros Hb Hx Ha. rewrite an_stmt_call. apply lt_lookup_binds in Hb. rewrite Hb.
  pose proof (an_args_prefix (id_val name) _ _ extra [] Ha (or_intror eq_refl) 1) as H. rewrite app_nil_r in H.
  rewrite H. cbn [rbind]. unfold call_info. rewrite app_length, (Forall2_len _ _ _ Ha).
  assert (Hc : Nat.compare (length (pe_params pe) + length extra) (length (pe_params pe)) = Gt).
  { apply Nat.compare_gt_iff. destruct extra; [contradiction | cbn [length]; lia]. }
  rewrite Hc. reflexivity.
Qed.

(* one argument at fault, all others fine: the flagged argument is the (1-based) position in the message *)
Lemma an_args_one cname pre ppre a off p post ppost a' :
  Forall2 (arg_ok L G) pre ppre -> Forall2 (arg_ok L G) post ppost ->
  (forall i, ana cname i [(a, off)] [p] = ROk [(a' i, off)]) ->
  forall i, ana cname i (pre ++ (a, off) :: post) (ppre ++ p :: ppost) = ROk (pre ++ (a' (length pre + i), off) :: post).
Proof.
  intros Hpre Hpost Hone. induction Hpre as [|[b ob] q ar pr Hb _ IH]; intros i.
  - cbn [app length]. specialize (Hone i). rewrite an_args_cons in Hone |- *.
    destruct (ane (arg_flag_ref cname i p a)) as [[a2 ty]|]; cbn [rbind] in *; [|discriminate].
    rewrite an_args_nil_l in Hone. cbn [rbind] in Hone. injection Hone as Hone.
    rewrite (an_args_sound _ _ _ _ _ Hpost). cbn [rbind]. rewrite Hone. reflexivity.
  - inversion Hb as [b' ob' q' t Ht Hq Hr]; subst. cbn [app]. rewrite an_args_cons.
    assert (Hf : arg_flag_ref cname i q b = b).
    { unfold arg_flag_ref. destruct (ve_ref q); [|reflexivity]. destruct (Hr eq_refl) as [v ->]. reflexivity. }
    rewrite Hf, (an_expr_sound _ _ _ _ Ht). cbn [rbind]. rewrite IH. cbn [rbind length].
    unfold arg_flag_type. rewrite Hq, dt_eqb_refl. replace (S (length ar) + i) with (length ar + S i) by lia. reflexivity.
Qed.

Lemma rule_argument_type_mismatch name inf pe pre ppre a off p post ppost t t2 :
  binds L G (id_val name) (EntProc pe) -> pe_params pe = ppre ++ p :: ppost ->
  Forall2 (arg_ok L G) pre ppre -> Forall2 (arg_ok L G) post ppost ->
  expr_type L G a t -> ve_ty p = Some t2 -> t <> t2 -> (ve_ref p = true -> exists v, a = EVar v) ->
  ans (SCall name (pre ++ (a, off) :: post) inf) =
  ROk (SCall name (pre ++ (expr_append a (expr_err a (ArgumentsTypeMismatch (id_val name) (S (length pre)))), off) :: post) inf).
Proof.
  intros Hb Hp Hpre Hpost Ht Hp2 Hn Hr. rewrite an_stmt_call. apply lt_lookup_binds in Hb. rewrite Hb, Hp.
  rewrite (an_args_one (id_val name) pre ppre a off p post ppost
             (fun i => expr_append a (expr_err a (ArgumentsTypeMismatch (id_val name) i))) Hpre Hpost).
  - cbn [rbind]. unfold call_info. rewrite !app_length. cbn [length].
    rewrite (Forall2_len _ _ _ Hpre), (Forall2_len _ _ _ Hpost), Nat.compare_refl.
    replace (length ppre + 1) with (S (length ppre)) by lia. reflexivity.
  - intros i. rewrite an_args_cons.
    assert (Hf : arg_flag_ref (id_val name) i p a = a).
    { unfold arg_flag_ref. destruct (ve_ref p); [|reflexivity]. destruct (Hr eq_refl) as [v ->]. reflexivity. }
    rewrite Hf, (an_expr_sound _ _ _ _ Ht). cbn [rbind]. rewrite an_args_nil_l. cbn [rbind].
    unfold arg_flag_type. rewrite Hp2, (dt_eqb_neq _ _ Hn). reflexivity.
Qed.

(* analysis of a well-typed non-variable expression that already carries one more error at its root *)
Lemma an_expr_flagged a t x :
  expr_type L G a t -> (forall v, a <> EVar v) -> ane (expr_append a x) = ROk (expr_append a x, Some t).
Proof.
  intros Ht Hnv. inversion Ht as [i | v t' Hv | op l r inf Ho Hl Hr | op l r inf Ho Hl Hr | op b inf Hb | b inf t' Hb]; subst;
    cbn [expr_append].
  - reflexivity.
  - exfalso. exact (Hnv v eq_refl).
  - rewrite an_expr_bin, (an_expr_sound _ _ _ _ Hl). cbn [rbind]. rewrite (an_expr_sound _ _ _ _ Hr). cbn [rbind].
    destruct Ho as [-> | [-> | [-> | ->]]]; reflexivity.
  - rewrite an_expr_bin, (an_expr_sound _ _ _ _ Hl). cbn [rbind]. rewrite (an_expr_sound _ _ _ _ Hr). cbn [rbind].
    destruct Ho as [-> | [-> | [-> | [-> | [-> | ->]]]]]; reflexivity.
  - rewrite an_expr_un, (an_expr_sound _ _ _ _ Hb). reflexivity.
  - rewrite an_expr_brack, (an_expr_sound _ _ _ _ Hb). reflexivity.
Qed.

Lemma rule_argument_must_be_a_variable name inf pe pre ppre a off p post ppost t :
  binds L G (id_val name) (EntProc pe) -> pe_params pe = ppre ++ p :: ppost ->
  Forall2 (arg_ok L G) pre ppre -> Forall2 (arg_ok L G) post ppost ->
  expr_type L G a t -> ve_ty p = Some t -> ve_ref p = true -> (forall v, a <> EVar v) ->
  ans (SCall name (pre ++ (a, off) :: post) inf) =
  ROk (SCall name (pre ++ (expr_append a (expr_err a (ArgumentMustBeAVariable (id_val name) (S (length pre)))), off) :: post) inf).
Proof.
  intros Hb Hp Hpre Hpost Ht Hp2 Hr Hnv. rewrite an_stmt_call. apply lt_lookup_binds in Hb. rewrite Hb, Hp.
  rewrite (an_args_one (id_val name) pre ppre a off p post ppost
             (fun i => expr_append a (expr_err a (ArgumentMustBeAVariable (id_val name) i))) Hpre Hpost).
  - cbn [rbind]. unfold call_info. rewrite !app_length. cbn [length].
    rewrite (Forall2_len _ _ _ Hpre), (Forall2_len _ _ _ Hpost), Nat.compare_refl.
    replace (length ppre + 1) with (S (length ppre)) by lia. reflexivity.
  - intros i. rewrite an_args_cons.
    assert (Hf : arg_flag_ref (id_val name) i p a = expr_append a (expr_err a (ArgumentMustBeAVariable (id_val name) i))).
    { unfold arg_flag_ref. rewrite Hr. destruct a; try reflexivity. exfalso. exact (Hnv v eq_refl). }
    rewrite Hf, (an_expr_flagged _ _ _ Ht Hnv). cbn [rbind]. rewrite an_args_nil_l. cbn [rbind].
    unfold arg_flag_type. rewrite Hp2, dt_eqb_refl. reflexivity.
Qed.

End Rules.

(* ------------------------------------------------------------------------------------------ *)
(* PER RULE, declarations *)

Section BuildRules.
Variable l : option ltable.
Variable L : ltable.
Variable G : gtable.
Hypothesis Hl : forall x, lt_lookup l (Some G) x = lt_lookup (Some L) (Some G) x.

Lemma rule_undefined_type c i :
  id_val i <> s_int -> unbound L G (id_val i) -> i_e (id_info i) <> 0 ->
  get_data_type_te l (Some G) c (TNamed i) =
  ROk (TNamed (ident_append i (name_err i (EBuild (UndefinedType (id_val i))))), None).
Proof.
  intros Hn Hu He. cbn [get_data_type_te]. rewrite Hl.
  apply lt_lookup_unbound in Hu. rewrite Hu, (ident_flag_some _ _ He). reflexivity.
Qed.

Lemma rule_not_a_type c i e :
  id_val i <> s_int -> binds L G (id_val i) e -> (forall te, e <> EntType te) -> i_e (id_info i) <> 0 ->
  get_data_type_te l (Some G) c (TNamed i) =
  ROk (TNamed (ident_append i (name_err i (EBuild (NotAType (id_val i))))), None).
Proof.
  intros Hn Hb Hnt He. cbn [get_data_type_te]. rewrite Hl.
  apply lt_lookup_binds in Hb. rewrite Hb.
  destruct e as [t|p|ve|ve]; try (rewrite (ident_flag_some _ _ He); reflexivity). exfalso. exact (Hnt t eq_refl).
Qed.
End BuildRules.

(* a second declaration of a global name: flagged on the name, the table keeps the first entry *)
Lemma rule_redeclaration_as_type G off d name te o t old :
  int_ok G -> td_name d = Some name -> id_val name <> s_main -> lookup G (id_val name) = Some old ->
  td_ty d = Some (te, o) -> denotes [] G (id_val name) te t -> i_e (id_info name) <> 0 ->
  build_typedecl d G off =
  ROk ({| td_doc := td_doc d;
          td_name := Some (ident_append name (name_err name (EBuild (RedeclarationAsType (id_val name)))));
          td_ty := td_ty d; td_info := td_info d |}, G).
Proof.
  intros Hint Hn Hmain Hold Hty Hd He. unfold build_typedecl. rewrite Hn, (text_eqb_neq _ _ Hmain), Hty.
  rewrite (get_data_type_sound None [] G (fun _ => eq_refl) Hint _ _ o _ Hd). cbn [rbind].
  rewrite (enter_present _ _ _ _ Hold), (ident_flag_some _ _ He). reflexivity.
Qed.

Lemma rule_redeclaration_as_procedure G off d name L1 ps L2 old :
  int_ok G -> pd_name d = Some name -> lookup G (id_val name) = Some old ->
  wf_params G (id_val name) [] (pd_params d) L1 ps -> wf_vars G (id_val name) L1 (pd_vars d) L2 ->
  i_e (id_info name) <> 0 ->
  build_procdecl d G off =
  ROk ({| pd_doc := pd_doc d;
          pd_name := Some (ident_append name (name_err name (EBuild (RedeclarationAsProcedure (id_val name)))));
          pd_params := pd_params d; pd_vars := pd_vars d; pd_stmts := pd_stmts d; pd_info := pd_info d |}, G).
Proof.
  intros Hint Hn Hold Hp Hv He. unfold build_procdecl. rewrite Hn.
  rewrite (build_parameters_sound _ _ _ _ _ _ Hint Hp). cbn [rbind].
  rewrite (build_variables_sound _ _ _ _ _ Hint Hv). cbn [rbind].
  rewrite (enter_present _ _ _ _ Hold), (ident_flag_some _ _ He). reflexivity.
Qed.

(* `type main = ...`: flagged on the name, nothing is entered *)
Lemma rule_main_is_not_a_procedure G off d name :
  td_name d = Some name -> id_val name = s_main -> i_e (id_info name) <> 0 ->
  build_typedecl d G off =
  ROk ({| td_doc := td_doc d; td_name := Some (ident_append name (name_err name (EBuild MainIsNotAProcedure)));
          td_ty := td_ty d; td_info := td_info d |}, G).
Proof.
  intros Hn Hm He. unfold build_typedecl. rewrite Hn, Hm, text_eqb_refl, (ident_flag_some _ _ He). reflexivity.
Qed.

(* a parameter / variable whose name is already local: flagged on the name, the local table is unchanged *)
Lemma rule_redeclaration_as_parameter G pname L doc is_ref name te o inf off t old :
  int_ok G -> denotes [] G (anon_creator pname name) te t -> (is_array t -> is_ref = true) ->
  lookup L (id_val name) = Some old -> i_e (id_info name) <> 0 ->
  build_parameter (PValid doc is_ref (Some name) (Some (te, o)) inf, off) pname G L =
  ROk ((PValid doc is_ref (Some (ident_append name (name_err name (EBuild (RedeclarationAsParameter (id_val name))))))
          (Some (te, o)) inf, off), L,
       Some {| ve_name := name; ve_ref := is_ref; ve_ty := Some t; ve_range := shift_range (info_range inf) off;
               ve_doc := doc_of doc |}).
Proof.
  intros Hint Hd Href Hold He. cbn [build_parameter].
  change (anonymous_creator pname name) with (anon_creator pname name).
  rewrite (get_data_type_sound None [] G (fun _ => eq_refl) Hint _ _ o _ Hd). cbn [rbind].
  assert (Hm : negb (is_primitive t) && negb is_ref = false).
  { destruct (is_primitive t) eqn:Ep; [reflexivity|]. rewrite (Href (not_primitive_array _ Ep)). reflexivity. }
  rewrite Hm. cbn [rbind]. rewrite (enter_present _ _ _ _ Hold), (ident_flag_some _ _ He). reflexivity.
Qed.

Lemma rule_redeclaration_as_variable G pname L doc name te o inf off t old :
  int_ok G -> denotes L G (anon_creator pname name) te t ->
  lookup L (id_val name) = Some old -> i_e (id_info name) <> 0 ->
  build_variable (VValid doc (Some name) (Some (te, o)) inf, off) pname G L =
  ROk ((VValid doc (Some (ident_append name (name_err name (EBuild (RedeclarationAsVariable (id_val name))))))
          (Some (te, o)) inf, off), L).
Proof.
  intros Hint Hd Hold He. cbn [build_variable].
  change (anonymous_creator pname name) with (anon_creator pname name).
  rewrite (get_data_type_sound (Some L) L G (fun _ => eq_refl) Hint _ _ o _ Hd). cbn [rbind].
  rewrite (enter_present _ _ _ _ Hold), (ident_flag_some _ _ He). reflexivity.
Qed.

(* an array parameter that is not a reference parameter: flagged on the name, entered all the same *)
Lemma rule_must_be_a_reference_parameter G pname L doc name te o inf off t :
  int_ok G -> denotes [] G (anon_creator pname name) te t -> is_array t ->
  lookup L (id_val name) = None -> i_e (id_info name) <> 0 ->
  build_parameter (PValid doc false (Some name) (Some (te, o)) inf, off) pname G L =
  ROk ((PValid doc false (Some (ident_append name (name_err name (EBuild (MustBeAReferenceParameter (id_val name))))))
          (Some (te, o)) inf, off),
       L ++ [(id_val name, LParam {| ve_name := name; ve_ref := false; ve_ty := Some t;
                                     ve_range := shift_range (info_range inf) off; ve_doc := doc_of doc |})],
       Some {| ve_name := name; ve_ref := false; ve_ty := Some t; ve_range := shift_range (info_range inf) off;
               ve_doc := doc_of doc |}).
Proof.
  intros Hint Hd [sz [b [c ->]]] Hfresh He. cbn [build_parameter].
  change (anonymous_creator pname name) with (anon_creator pname name).
  rewrite (get_data_type_sound None [] G (fun _ => eq_refl) Hint _ _ o _ Hd). cbn [rbind is_primitive negb andb].
  rewrite (ident_flag_some _ _ He). cbn [rbind]. rewrite (enter_absent _ _ _ Hfresh). reflexivity.
Qed.

(* the rules about main, after all declarations have been processed *)
Lemma rule_main_is_missing p ds' G' :
  build_gdecls (pg_decls p) initialized 0 = ROk (ds', G') -> lookup G' s_main = None ->
  build_res p = ROk ({| pg_decls := ds'; pg_info := info_append (pg_info p) (mkerr_t (0, 0) (EBuild MainIsMissing)) |}, G').
Proof. intros Hb Hm. unfold build_res, build_program. rewrite Hb. cbn [rbind]. rewrite Hm. reflexivity. Qed.

Lemma rule_main_must_not_have_parameters p ds' G' main :
  build_gdecls (pg_decls p) initialized 0 = ROk (ds', G') -> lookup G' s_main = Some (GProcE main) ->
  pe_params main <> [] -> i_e (id_info (pe_name main)) <> 0 ->
  build_res p =
  ROk ({| pg_decls := ds';
          pg_info := info_append (pg_info p)
                       (mkerr_t (i_e (id_info (pe_name main)) - 1 + fst (pe_range main),
                                 i_e (id_info (pe_name main)) + fst (pe_range main))
                                (EBuild MainMustNotHaveParameters)) |}, G').
Proof.
  intros Hb Hm Hp He. unfold build_res, build_program. rewrite Hb. cbn [rbind]. rewrite Hm.
  destruct (pe_params main); [contradiction|]. unfold to_error. apply Nat.eqb_neq in He. rewrite He. reflexivity.
Qed.

(* ------------------------------------------------------------------------------------------ *)
(* the tables of well-formed declarations are fully resolved (so the hypothesis of analyze_complete
   holds for them) *)

Definition gtypes_ok (G : gtable) : Prop :=
  forall x te t, lookup G x = Some (GTypeE te) -> ten_ty te = Some t -> ty_ok t.

Lemma denotes_ok L G c te t : gtypes_ok G -> denotes L G c te t -> ty_ok t.
Proof.
  intros HG. induction 1 as [i te t Hb Ht | il b off inf bt _ IH]; [|exact IH].
  inversion Hb as [le Hle Heq | ge Hle Hg Heq].
  - destruct le; discriminate.
  - destruct ge; [|discriminate]. injection Heq as ->. eapply HG; eassumption.
Qed.

Lemma lookup_snoc_inv {V} (t : list (text * V)) k v k' v' :
  lookup (t ++ [(k, v)]) k' = Some v' -> lookup t k' = Some v' \/ (lookup t k' = None /\ k = k' /\ v = v').
Proof.
  rewrite lookup_app. destruct (lookup t k'); [tauto|].
  destruct (text_eqb k k') eqn:E; [|discriminate]. apply text_eqb_eq in E. intros [= ->]. tauto.
Qed.

Lemma wf_params_ok G pname L ps L' es :
  gtypes_ok G -> wf_params G pname L ps L' es -> ltable_ok L -> ltable_ok L' /\ Forall ventry_ok es.
Proof.
  intros HG. induction 1 as [L | L doc is_ref name te o inf off t r L' es Hd Href Hfresh _ IH]; intros HL; [split; [exact HL | constructor]|].
  pose proof (denotes_ok _ _ _ _ _ HG Hd) as Hok.
  destruct IH as [H1 H2].
  - intros x e Hx. apply lookup_snoc_inv in Hx. destruct Hx as [Hx | [_ [_ <-]]]; [eapply HL; exact Hx|].
    exists t. split; [reflexivity | exact Hok].
  - split; [exact H1|]. constructor; [|exact H2]. exists t. split; [reflexivity | exact Hok].
Qed.

Lemma wf_vars_ok G pname L vs L' : gtypes_ok G -> wf_vars G pname L vs L' -> ltable_ok L -> ltable_ok L'.
Proof.
  intros HG. induction 1 as [L | L doc name te o inf off t r L' Hd Hfresh _ IH]; intros HL; [exact HL|].
  pose proof (denotes_ok _ _ _ _ _ HG Hd) as Hok. apply IH.
  intros x e Hx. apply lookup_snoc_inv in Hx. destruct Hx as [Hx | [_ [_ <-]]]; [eapply HL; exact Hx|].
  exists t. split; [reflexivity | exact Hok].
Qed.

Lemma wf_gdecl_ok G off d ke :
  wf_gdecl G off d ke -> gtypes_ok G -> gtable_ok G -> gtypes_ok (G ++ [ke]) /\ gtable_ok (G ++ [ke]).
Proof.
  intros [d0 name te o t Hn Hmain Hfresh Hty Hd | d0 name L1 ps L2 Hn Hfresh Hp Hv] HT HG.
  - pose proof (denotes_ok _ _ _ _ _ HT Hd) as Hok. split.
    + intros x te' t' Hx Ht'. apply lookup_snoc_inv in Hx. destruct Hx as [Hx | [_ [_ Hx]]]; [eapply HT; eassumption|].
      injection Hx as <-. cbn in Ht'. injection Ht' as <-. exact Hok.
    + intros x pe Hx. apply lookup_snoc_inv in Hx. destruct Hx as [Hx | [_ [_ Hx]]]; [eapply HG; exact Hx | discriminate].
  - destruct (wf_params_ok _ _ _ _ _ _ HT Hp) as [HL1 Hps]; [intros x e Hx; discriminate|].
    pose proof (wf_vars_ok _ _ _ _ _ HT Hv HL1) as HL2. split.
    + intros x te' t' Hx Ht'. apply lookup_snoc_inv in Hx. destruct Hx as [Hx | [_ [_ Hx]]]; [eapply HT; eassumption | discriminate].
    + intros x pe Hx. apply lookup_snoc_inv in Hx. destruct Hx as [Hx | [_ [_ Hx]]]; [eapply HG; exact Hx|].
      injection Hx as <-. cbn. split; assumption.
Qed.

Lemma wf_gdecls_ok G ds es :
  wf_gdecls G ds es -> gtypes_ok G -> gtable_ok G -> gtypes_ok (G ++ es) /\ gtable_ok (G ++ es).
Proof.
  induction 1 as [G | G d off ke r es Hd _ IH]; intros HT HG; [rewrite app_nil_r; tauto|].
  destruct (wf_gdecl_ok _ _ _ _ Hd HT HG) as [HT' HG'].
  rewrite (app_assoc G [ke] es : G ++ ke :: es = (G ++ [ke]) ++ es). apply IH; assumption.
Qed.

Lemma lookup_In {V} (t : list (text * V)) k v : lookup t k = Some v -> In (k, v) t.
Proof.
  induction t as [|[k0 v0] t IH]; cbn [lookup]; [discriminate|].
  destruct (text_eqb k0 k) eqn:E; [apply text_eqb_eq in E; intros [= ->]; left; congruence | intros H; right; apply IH, H].
Qed.

Lemma initialized_ok : gtypes_ok initialized /\ gtable_ok initialized.
Proof.
  assert (Hv : forall n r, ventry_ok (int_param n r)) by (intros; exists DInt; split; [reflexivity | exact I]).
  split.
  - intros x te t Hx Ht. apply lookup_In in Hx. unfold initialized, procedure_entry in Hx. cbn [In] in Hx.
    repeat match type of Hx with _ \/ _ => destruct Hx as [Hx | Hx] end; try contradiction; try discriminate Hx.
    injection Hx as _ <-. cbn in Ht. injection Ht as <-. exact I.
  - intros x pe Hx. apply lookup_In in Hx. unfold initialized, procedure_entry in Hx. cbn [In] in Hx.
    repeat match type of Hx with _ \/ _ => destruct Hx as [Hx | Hx] end; try contradiction; try discriminate Hx;
      injection Hx as _ <-; (split; [cbn [pe_params]; repeat constructor; apply Hv | intros y e Hy; discriminate]).
Qed.

Theorem wf_tables_ok p G : wf_program p G -> gtable_ok G.
Proof.
  intros [es [Hwf [-> _]]]. destruct initialized_ok as [HT HG]. exact (proj2 (wf_gdecls_ok _ _ _ Hwf HT HG)).
Qed.

(* soundness and completeness together: for a clean tree whose declarations are well-formed, `analyze`
   attaches nothing IF AND ONLY IF every body is well-typed *)
Corollary analyze_exact p G :
  tree_clean p = true -> wf_program p G -> (analyze_res p G = ROk p <-> wt_bodies G p).
Proof.
  intros Hc Hwf. split; [apply analyze_complete; [eapply wf_tables_ok; eassumption | exact Hc] | apply analyze_sound].
Qed.

(* ------------------------------------------------------------------------------------------ *)
(* from token vectors on: with C04's round-trip theorem (the parser returns `expected p` on any token
   vector whose kinds are the tokens of the abstract program p, comments in any gap), a well-typed
   program gets NO diagnostic from the whole pipeline behind the lexer.  "text is a layout of p" is
   expressed through the lexer: the text lexes to p's token kinds. *)
Definition diagnostics (t : text) : outcome (list (N * N * emsg)) :=
  match new_doc t with
  | Done d => doc_errors d
  | Panic => Panic
  | OutOfFuel => OutOfFuel
  end.

Definition layout_of (p : aprog) (t : text) : Prop :=
  exists toks, lex t = Some toks /\ map tk toks = flatten p ++ [Eof].

Theorem no_false_positive p t G :
  prog_ok p = true -> layout_of p t -> well_typed (expected p) G -> diagnostics t = Done [].
Proof.
  intros Hok [toks [Hlex Hk]] Hwt.
  destruct (no_false_positive_tree _ _ (expected_clean p) Hwt) as [Hb [Ha He]].
  unfold diagnostics, new_doc, new_doc_res. rewrite Hlex, (roundtrip p toks Hok Hk), Hb, Ha.
  cbn [ores_outcome]. unfold doc_errors, doc_errors_res. cbn [d_ast d_toks]. rewrite He. reflexivity.
Qed.

(* ------------------------------------------------------------------------------------------ *)
(* EXACTLY ONE DIAGNOSTIC for exactly one fault *)

Lemma err_shift_e off x : err_shift off x = shift_e off x.
Proof. reflexivity. Qed.

Lemma op_type_bin op : op_type op = bin_type op.
Proof. destruct op; reflexivity. Qed.

Lemma op_type_arith op : op_type op = DInt -> is_arithmetic op = true.
Proof. destruct op; cbn; congruence. Qed.
Lemma op_type_cmp op : op_type op = DBool -> is_arithmetic op = false.
Proof. destruct op; cbn; congruence. Qed.

Ltac split_clean H :=
  repeat (let H' := fresh H in apply andb_true_iff in H; destruct H as [H H']).

Lemma cl_v v : clean_var v = true -> var_errors v = [].
Proof. apply clean_var_expr_errors. Qed.
Lemma cl_e e : clean_expr e = true -> expr_errors e = [].
Proof. apply clean_var_expr_errors. Qed.

Lemma var_errors_append v x : clean_var v = true -> var_errors (var_append v x) = [x].
Proof.
  destruct v as [i | a idx inf]; intros Hc.
  - cbn [var_append var_errors]. unfold ident_errors. cbn [ident_append id_info info_append i_errs].
    cbn [clean_var] in Hc. unfold clean_ident in Hc. rewrite (clean_nil _ Hc). reflexivity.
  - pose proof (cl_v _ Hc) as He. cbn [var_append]. cbn [var_errors] in *. cbn [info_append i_errs].
    cbn [clean_var] in Hc. split_clean Hc. rewrite (clean_nil _ Hc0) in *. cbn [app] in *. rewrite He. reflexivity.
Qed.

Lemma expr_errors_append e x : clean_expr e = true -> expr_errors (expr_append e x) = [x].
Proof.
  intros Hc. pose proof (cl_e _ Hc) as He.
  destruct e as [op l r inf | a inf | i | op a inf | v | inf]; cbn [expr_append]; cbn [expr_errors] in *; cbn [info_append i_errs il_info];
    cbn [clean_expr] in Hc.
  - split_clean Hc. rewrite (clean_nil _ Hc0) in *. cbn [app] in *. rewrite He. reflexivity.
  - split_clean Hc. rewrite (clean_nil _ Hc0) in *. cbn [app] in *. rewrite He. reflexivity.
  - rewrite He. reflexivity.
  - split_clean Hc. rewrite (clean_nil _ Hc0) in *. cbn [app] in *. rewrite He. reflexivity.
  - apply var_errors_append, Hc.
  - discriminate.
Qed.

Lemma fits_index e o : fits o DInt -> index_result e o = e.
Proof. intros [-> | ->]; reflexivity. Qed.
Lemma fits_cond m e o : fits o DBool -> cond_result m e o = e.
Proof. intros [-> | ->]; reflexivity. Qed.
Lemma fits_bin op inf o : fits o DInt -> bin_info op inf o (Some DInt) = inf /\ bin_info op inf (Some DInt) o = inf.
Proof. intros [-> | ->]; split; reflexivity. Qed.
Lemma fits_un inf o : fits o DInt -> un_info inf o = inf.
Proof. intros [-> | ->]; reflexivity. Qed.

Section FaultSound.
Variable L : ltable.
Variable G : gtable.
Notation anv := (an_var (Some L) (Some G)).
Notation ane := (an_expr (Some L) (Some G)).
Notation ans := (an_stmt (Some L) (Some G)).
Notation anss := (an_stmts (Some L) (Some G)).
Notation ana := (an_args (Some L) (Some G)).

Scheme fault_var_mind := Minimality for fault_var Sort Prop
  with fault_expr_mind := Minimality for fault_expr Sort Prop.
Combined Scheme fault_mutind from fault_var_mind, fault_expr_mind.

Lemma fault_sound_ve :
  (forall v x o, fault_var L G v x o -> clean_var v = true -> exists v', anv v = ROk (v', o) /\ var_errors v' = [x]) /\
  (forall e x o, fault_expr L G e x o -> clean_expr e = true -> exists e', ane e = ROk (e', o) /\ expr_errors e' = [x]).
Proof.
  apply fault_mutind.
  - (* undefined variable *)
    intros i Hu He Hc. eexists. split; [apply rule_undefined_variable; assumption|].
    apply (var_errors_append (NamedVar i)), Hc.
  - intros i e Hb Hn He Hc. eexists. split; [eapply rule_not_a_variable; eassumption|].
    apply (var_errors_append (NamedVar i)), Hc.
  - (* indexing a non-array *)
    intros a e off inf t Ha Hn He Hc. eexists. split; [eapply rule_indexing_non_array; eassumption|].
    apply (var_errors_append (ArrAccess a (Some (e, off)) inf)), Hc.
  - (* indexing with a non-integer *)
    intros a e off inf sz b c t Ha He Hn Hc. eexists. split; [eapply rule_indexing_with_non_integer; eassumption|].
    cbn [clean_var clean_opt fst] in Hc. split_clean Hc. cbn [var_errors].
    rewrite (clean_nil _ Hc0), (cl_v _ Hc), (expr_errors_append _ _ Hc1). reflexivity.
  - (* fault inside the array part *)
    intros a e off inf x o _ IH Ho He Hc. cbn [clean_var clean_opt fst] in Hc. split_clean Hc.
    destruct (IH Hc) as [a' [Ha' Hx]]. exists (ArrAccess a' (Some (e, off)) inf). split.
    + rewrite an_var_access, (an_expr_sound _ _ _ _ He). cbn [rbind]. rewrite Ha'. cbn [rbind index_result].
      destruct Ho as [-> | [sz [b [c ->]]]]; reflexivity.
    + cbn [var_errors]. rewrite (clean_nil _ Hc0), Hx, (cl_e _ Hc1). reflexivity.
  - (* fault inside the index *)
    intros a e off inf x o sz b c Ha _ IH Ho Hc. cbn [clean_var clean_opt fst] in Hc. split_clean Hc.
    destruct (IH Hc1) as [e' [He' Hx]]. exists (ArrAccess a (Some (e', off)) inf). split.
    + rewrite an_var_access, He'. cbn [rbind]. rewrite (an_var_sound _ _ _ _ Ha). cbn [rbind access_result].
      rewrite (fits_index _ _ Ho). reflexivity.
    + cbn [var_errors]. rewrite (clean_nil _ Hc0), (cl_v _ Hc), Hx. reflexivity.
  - (* EVar *)
    intros v x o _ IH Hc. destruct (IH Hc) as [v' [Hv' Hx]]. exists (EVar v'). split; [|exact Hx].
    rewrite an_expr_var, Hv'. reflexivity.
  - (* parentheses *)
    intros a inf x o _ IH Hc. cbn [clean_expr] in Hc. split_clean Hc. destruct (IH Hc) as [a' [Ha' Hx]].
    exists (EBrack a' inf). split; [rewrite an_expr_brack, Ha'; reflexivity|].
    cbn [expr_errors]. rewrite (clean_nil _ Hc0), Hx. reflexivity.
  - (* fault inside the operand of unary minus *)
    intros op a inf x o _ IH Ho Hc. cbn [clean_expr] in Hc. split_clean Hc. destruct (IH Hc) as [a' [Ha' Hx]].
    exists (EUn op a' inf). split; [rewrite an_expr_un, Ha'; cbn [rbind]; rewrite (fits_un _ _ Ho); reflexivity|].
    cbn [expr_errors]. rewrite (clean_nil _ Hc0), Hx. reflexivity.
  - (* unary minus on a non-integer *)
    intros op a inf t Ha Hn Hc. eexists. split; [eapply rule_unary_non_integer; eassumption|].
    apply (expr_errors_append (EUn op a inf)), Hc.
  - (* fault in the left operand *)
    intros op l r inf x o _ IH Ho Hr Hc. cbn [clean_expr] in Hc. split_clean Hc. destruct (IH Hc) as [l' [Hl' Hx]].
    exists (EBin op l' r inf). split.
    + rewrite an_expr_bin, Hl'. cbn [rbind]. rewrite (an_expr_sound _ _ _ _ Hr). cbn [rbind].
      rewrite (proj1 (fits_bin op inf o Ho)), op_type_bin. reflexivity.
    + cbn [expr_errors]. rewrite (clean_nil _ Hc0), Hx, (cl_e _ Hc1). reflexivity.
  - (* fault in the right operand *)
    intros op l r inf x o Hl _ IH Ho Hc. cbn [clean_expr] in Hc. split_clean Hc. destruct (IH Hc1) as [r' [Hr' Hx]].
    exists (EBin op l r' inf). split.
    + rewrite an_expr_bin, (an_expr_sound _ _ _ _ Hl). cbn [rbind]. rewrite Hr'. cbn [rbind].
      rewrite (proj2 (fits_bin op inf o Ho)), op_type_bin. reflexivity.
    + cbn [expr_errors]. rewrite (clean_nil _ Hc0), Hx, (cl_e _ Hc). reflexivity.
  - (* operator rules *)
    intros op l r inf tl tr Hl Hr H Hc. eexists. split; [rewrite op_type_bin; eapply rule_operator_different_types; eassumption|].
    apply (expr_errors_append (EBin op l r inf)), Hc.
  - intros op l r inf tl tr Hl Hr H1 H2 Ho Hc. eexists.
    split; [eapply rule_arithmetic_non_integer; try eassumption; apply op_type_arith, Ho|].
    apply (expr_errors_append (EBin op l r inf)), Hc.
  - intros op l r inf tl tr Hl Hr H1 H2 Ho Hc. eexists.
    split; [eapply rule_comparison_non_integer; try eassumption; apply op_type_cmp, Ho|].
    apply (expr_errors_append (EBin op l r inf)), Hc.
Qed.

Lemma fault_var_sound v x o :
  fault_var L G v x o -> clean_var v = true -> exists v', anv v = ROk (v', o) /\ var_errors v' = [x].
Proof. apply fault_sound_ve. Qed.
Lemma fault_expr_sound e x o :
  fault_expr L G e x o -> clean_expr e = true -> exists e', ane e = ROk (e', o) /\ expr_errors e' = [x].
Proof. apply fault_sound_ve. Qed.


(* lists of statements / arguments with one changed element *)
Lemma an_stmts_one pre s off post s' :
  anss pre = ROk pre -> ans s = ROk s' -> anss post = ROk post ->
  anss (pre ++ (s, off) :: post) = ROk (pre ++ (s', off) :: post).
Proof.
  intros Hpre Hs Hpost. induction pre as [|[y oy] pre IH].
  - cbn [app an_stmts]. rewrite Hs. cbn [rbind]. rewrite Hpost. reflexivity.
  - cbn [an_stmts] in Hpre. on1 Hpre (ans y). on1 Hpre (anss pre). injection Hpre as -> ->.
    cbn [app an_stmts]. rewrite E. cbn [rbind]. rewrite (IH E0). reflexivity.
Qed.

Lemma forallb_app_inv {A} (f : A -> bool) l1 x l2 :
  forallb f (l1 ++ x :: l2) = true -> forallb f l1 = true /\ f x = true /\ forallb f l2 = true.
Proof.
  rewrite forallb_app. cbn [forallb]. intros H. apply andb_true_iff in H. destruct H as [H1 H2].
  apply andb_true_iff in H2. tauto.
Qed.

Definition args_errors (args : list (expr * nat)) : list err :=
  flat_map (fun a => shift_es (snd a) (expr_errors (fst a))) args.
Definition stmts_errors (l : list (stmt * nat)) : list err :=
  flat_map (fun x => shift_es (snd x) (stmt_errors (fst x))) l.

Lemma args_errors_clean args : forallb (fun r => clean_expr (fst r)) args = true -> args_errors args = [].
Proof.
  intros H. apply flat_map_nil. intros [a off] Hin. rewrite forallb_forall in H. cbn [fst snd].
  rewrite (cl_e a (H _ Hin)). reflexivity.
Qed.

Lemma stmts_errors_clean l : forallb (fun r => clean_stmt (fst r)) l = true -> stmts_errors l = [].
Proof.
  intros H. apply flat_map_nil. intros [a off] Hin. rewrite forallb_forall in H. cbn [fst snd].
  rewrite (clean_stmt_errors a (H _ Hin)). reflexivity.
Qed.

Lemma call_errors name args inf :
  stmt_errors (SCall name args inf) = i_errs inf ++ ident_errors name ++ args_errors args.
Proof. reflexivity. Qed.

Lemma call_errors_flagged name args inf x :
  clean_stmt (SCall name args inf) = true -> stmt_errors (SCall name args (info_append inf x)) = [x].
Proof.
  intros Hc. cbn [clean_stmt] in Hc. split_clean Hc. rewrite call_errors. cbn [info_append i_errs].
  unfold ident_errors. rewrite (clean_nil _ Hc0), (clean_nil _ Hc), (args_errors_clean _ Hc1). reflexivity.
Qed.

Lemma call_errors_arg name pre a off post inf y :
  clean_stmt (SCall name (pre ++ (a, off) :: post) inf) = true ->
  stmt_errors (SCall name (pre ++ (y, off) :: post) inf) = shift_es off (expr_errors y).
Proof.
  intros Hc. cbn [clean_stmt] in Hc. split_clean Hc. apply forallb_app_inv in Hc1. destruct Hc1 as [Hpre [_ Hpost]].
  rewrite call_errors. unfold ident_errors, args_errors. rewrite (clean_nil _ Hc0), (clean_nil _ Hc), flat_map_app.
  cbn [flat_map fst snd app]. fold (args_errors pre). fold (args_errors post).
  rewrite (args_errors_clean _ Hpre), (args_errors_clean _ Hpost), app_nil_r. reflexivity.
Qed.

Lemma assign_errors_flagged v e off inf x :
  clean_stmt (SAssign v (Some (e, off)) inf) = true -> stmt_errors (SAssign v (Some (e, off)) (info_append inf x)) = [x].
Proof.
  intros Hc. cbn [clean_stmt clean_opt fst] in Hc. split_clean Hc. cbn [stmt_errors opt_expr_errors info_append i_errs].
  rewrite (clean_nil _ Hc0), (cl_v _ Hc), (cl_e _ Hc1). reflexivity.
Qed.

Lemma else_sound els : wt_else L G els -> an_opt (Some L) (Some G) els = ROk els.
Proof.
  destruct els as [[e oe]|]; [|reflexivity]. cbn [wt_else an_opt]. intros H. rewrite (an_stmt_sound _ _ _ H). reflexivity.
Qed.

Lemma else_errors_clean (els : option (stmt * nat)) :
  match els with Some r => clean_stmt (fst r) | None => true end = true -> opt_stmt_errors els = [].
Proof.
  destruct els as [[e oe]|]; [|reflexivity]. cbn [fst opt_stmt_errors]. intros H. rewrite (clean_stmt_errors _ H). reflexivity.
Qed.

Lemma shift_es_one off x : shift_es off [x] = [err_shift off x].
Proof. reflexivity. Qed.

(* a statement with exactly one fault gets exactly one diagnostic: the one the violated rule prescribes *)
Theorem fault_stmt_sound s x :
  fault_stmt L G s x -> clean_stmt s = true -> exists s', ans s = ROk s' /\ stmt_errors s' = [x].
Proof.
  induction 1 as
    [ v e off inf tl tr Hv He Hn | v e off inf t Hv He Hn | v e off inf x o Hv Ho He | v e off inf x o Hv He Ho
    | c oc t ot els inf tc Hc Hn Ht Hels | c oc t ot els inf x o Hc Ho Ht Hels | c oc t ot els inf x Hc Ht IH Hels
    | c oc t ot e oe inf x Hc Ht He IH
    | c oc b ob inf tc Hc Hn Hb | c oc b ob inf x o Hc Ho Hb | c oc b ob inf x Hc Hb IH
    | pre s off post inf x Hpre Hs IH Hpost
    | name args inf Hu | name args inf e Hb Hn | name args inf pe ppre rest Hb Hp Hr Ha | name pre extra inf pe Hb Hx Ha
    | name inf pe pre ppre a off p post ppost t t2 Hb Hp Hpre Hpost Ht Hp2 Hn Hr
    | name inf pe pre ppre a off p post ppost t Hb Hp Hpre Hpost Ht Hp2 Hr Hnv
    | name inf pe pre ppre a off p post ppost x o Hb Hp Hpre Hpost Ha Ho Hr ]; intros Hcl.
  - eexists. split; [eapply rule_assignment_different_types; eassumption | apply assign_errors_flagged, Hcl].
  - eexists. split; [eapply rule_assignment_requires_integers; eassumption | apply assign_errors_flagged, Hcl].
  - (* fault in the left-hand side *)
    cbn [clean_stmt clean_opt fst] in Hcl. split_clean Hcl.
    destruct (fault_var_sound _ _ _ Hv Hcl) as [v' [Hv' Hx]]. exists (SAssign v' (Some (e, off)) inf). split.
    + rewrite an_stmt_assign, Hv'. cbn [rbind]. rewrite (an_expr_sound _ _ _ _ He). cbn [rbind].
      destruct Ho as [-> | ->]; reflexivity.
    + cbn [stmt_errors opt_expr_errors]. rewrite (clean_nil _ Hcl0), Hx, (cl_e _ Hcl1). reflexivity.
  - (* fault in the right-hand side *)
    cbn [clean_stmt clean_opt fst] in Hcl. split_clean Hcl.
    destruct (fault_expr_sound _ _ _ He Hcl1) as [e' [He' Hx]]. exists (SAssign v (Some (e', off)) inf). split.
    + rewrite an_stmt_assign, (an_var_sound _ _ _ _ Hv). cbn [rbind]. rewrite He'. cbn [rbind].
      destruct Ho as [-> | ->]; reflexivity.
    + cbn [stmt_errors opt_expr_errors]. rewrite (clean_nil _ Hcl0), (cl_v _ Hcl), Hx. reflexivity.
  - (* if: condition not boolean *)
    cbn [clean_stmt clean_opt fst] in Hcl. split_clean Hcl.
    exists (SIf (Some (expr_append c (expr_err c IfConditionMustBeBoolean), oc)) (Some (t, ot)) els inf). split.
    + rewrite an_stmt_if, an_cond_some, (an_expr_sound _ _ _ _ Hc). cbn [rbind an_opt].
      rewrite (an_stmt_sound _ _ _ Ht). cbn [rbind]. rewrite (else_sound _ Hels), (cond_result_wrong _ _ _ Hn). reflexivity.
    + rewrite stmt_errors_if. cbn [opt_expr_errors opt_stmt_errors].
      rewrite (clean_nil _ Hcl0), (expr_errors_append _ _ Hcl), (clean_stmt_errors _ Hcl2), (else_errors_clean _ Hcl1). reflexivity.
  - (* if: fault inside the condition *)
    cbn [clean_stmt clean_opt fst] in Hcl. split_clean Hcl.
    destruct (fault_expr_sound _ _ _ Hc Hcl) as [c' [Hc' Hx]]. exists (SIf (Some (c', oc)) (Some (t, ot)) els inf). split.
    + rewrite an_stmt_if, an_cond_some, Hc'. cbn [rbind an_opt].
      rewrite (an_stmt_sound _ _ _ Ht). cbn [rbind]. rewrite (else_sound _ Hels), (fits_cond _ _ _ Ho). reflexivity.
    + rewrite stmt_errors_if. cbn [opt_expr_errors opt_stmt_errors].
      rewrite (clean_nil _ Hcl0), Hx, (clean_stmt_errors _ Hcl2), (else_errors_clean _ Hcl1). reflexivity.
  - (* if: fault inside the then-branch *)
    cbn [clean_stmt clean_opt fst] in Hcl. split_clean Hcl.
    destruct (IH Hcl2) as [t' [Ht' Hx]]. exists (SIf (Some (c, oc)) (Some (t', ot)) els inf). split.
    + rewrite an_stmt_if, an_cond_some, (an_expr_sound _ _ _ _ Hc). cbn [rbind an_opt cond_result].
      rewrite Ht'. cbn [rbind]. rewrite (else_sound _ Hels). reflexivity.
    + rewrite stmt_errors_if. cbn [opt_expr_errors opt_stmt_errors].
      rewrite (clean_nil _ Hcl0), (cl_e _ Hcl), Hx, (else_errors_clean _ Hcl1). reflexivity.
  - (* if: fault inside the else-branch *)
    cbn [clean_stmt clean_opt fst] in Hcl. split_clean Hcl.
    destruct (IH Hcl1) as [e' [He' Hx]]. exists (SIf (Some (c, oc)) (Some (t, ot)) (Some (e', oe)) inf). split.
    + rewrite an_stmt_if, an_cond_some, (an_expr_sound _ _ _ _ Hc). cbn [rbind an_opt cond_result].
      rewrite (an_stmt_sound _ _ _ Ht). cbn [rbind]. rewrite He'. reflexivity.
    + rewrite stmt_errors_if. cbn [opt_expr_errors opt_stmt_errors].
      rewrite (clean_nil _ Hcl0), (cl_e _ Hcl), (clean_stmt_errors _ Hcl2), Hx. reflexivity.
  - (* while: condition not boolean *)
    cbn [clean_stmt clean_opt fst] in Hcl. split_clean Hcl.
    eexists. split; [eapply rule_while_condition; eassumption|].
    rewrite stmt_errors_while. cbn [opt_expr_errors opt_stmt_errors].
    rewrite (clean_nil _ Hcl0), (expr_errors_append _ _ Hcl), (clean_stmt_errors _ Hcl1). reflexivity.
  - cbn [clean_stmt clean_opt fst] in Hcl. split_clean Hcl.
    destruct (fault_expr_sound _ _ _ Hc Hcl) as [c' [Hc' Hx]]. exists (SWhile (Some (c', oc)) (Some (b, ob)) inf). split.
    + rewrite an_stmt_while, an_cond_some, Hc'. cbn [rbind an_opt].
      rewrite (an_stmt_sound _ _ _ Hb), (fits_cond _ _ _ Ho). reflexivity.
    + rewrite stmt_errors_while. cbn [opt_expr_errors opt_stmt_errors].
      rewrite (clean_nil _ Hcl0), Hx, (clean_stmt_errors _ Hcl1). reflexivity.
  - cbn [clean_stmt clean_opt fst] in Hcl. split_clean Hcl.
    destruct (IH Hcl1) as [b' [Hb' Hx]]. exists (SWhile (Some (c, oc)) (Some (b', ob)) inf). split.
    + rewrite an_stmt_while, an_cond_some, (an_expr_sound _ _ _ _ Hc). cbn [rbind an_opt cond_result]. rewrite Hb'. reflexivity.
    + rewrite stmt_errors_while. cbn [opt_expr_errors opt_stmt_errors].
      rewrite (clean_nil _ Hcl0), (cl_e _ Hcl), Hx. reflexivity.
  - (* compound statement *)
    cbn [clean_stmt] in Hcl. split_clean Hcl. apply forallb_app_inv in Hcl. destruct Hcl as [Hcpre [Hcs Hcpost]]. cbn [fst] in Hcs.
    destruct (IH Hcs) as [s' [Hs' Hx]]. exists (SBlock (pre ++ (s', off) :: post) inf). split.
    + rewrite an_stmt_block, (an_stmts_one pre s off post s' (an_stmts_sound _ _ _ Hpre) Hs' (an_stmts_sound _ _ _ Hpost)). reflexivity.
    + rewrite stmt_errors_block, flat_map_app. cbn [flat_map fst snd]. fold (stmts_errors pre). fold (stmts_errors post).
      rewrite (clean_nil _ Hcl0), (stmts_errors_clean _ Hcpre), (stmts_errors_clean _ Hcpost), Hx, app_nil_r. reflexivity.
  - eexists. split; [apply rule_undefined_procedure; assumption | apply call_errors_flagged, Hcl].
  - eexists. split; [eapply rule_call_of_non_procedure; eassumption | apply call_errors_flagged, Hcl].
  - eexists. split; [eapply rule_too_few_arguments; eassumption | apply call_errors_flagged, Hcl].
  - eexists. split; [eapply rule_too_many_arguments; eassumption | apply call_errors_flagged, Hcl].
  - (* argument type mismatch *)
    eexists. split; [eapply rule_argument_type_mismatch; eassumption|].
    rewrite (call_errors_arg _ _ _ _ _ _ _ Hcl).
    cbn [clean_stmt] in Hcl. split_clean Hcl. apply forallb_app_inv in Hcl1. destruct Hcl1 as [_ [Hca _]]. cbn [fst] in Hca.
    rewrite (expr_errors_append _ _ Hca). reflexivity.
  - eexists. split; [eapply rule_argument_must_be_a_variable; eassumption|].
    rewrite (call_errors_arg _ _ _ _ _ _ _ Hcl).
    cbn [clean_stmt] in Hcl. split_clean Hcl. apply forallb_app_inv in Hcl1. destruct Hcl1 as [_ [Hca _]]. cbn [fst] in Hca.
    rewrite (expr_errors_append _ _ Hca). reflexivity.
  - (* fault inside an argument *)
    pose proof Hcl as Hcl'. cbn [clean_stmt] in Hcl'. split_clean Hcl'. apply forallb_app_inv in Hcl'1. destruct Hcl'1 as [_ [Hca _]]. cbn [fst] in Hca.
    destruct (fault_expr_sound _ _ _ Ha Hca) as [a' [Ha' Hx]].
    exists (SCall name (pre ++ (a', off) :: post) inf). split.
    + rewrite an_stmt_call. apply lt_lookup_binds in Hb. rewrite Hb, Hp.
      rewrite (an_args_one L G (id_val name) pre ppre a off p post ppost (fun _ => a') Hpre Hpost).
      * cbn [rbind]. unfold call_info. rewrite !app_length. cbn [length].
        rewrite (Forall2_len _ _ _ Hpre), (Forall2_len _ _ _ Hpost), Nat.compare_refl. reflexivity.
      * intros i. rewrite an_args_cons.
        assert (Hf : arg_flag_ref (id_val name) i p a = a).
        { unfold arg_flag_ref. destruct (ve_ref p); [|reflexivity]. destruct (Hr eq_refl) as [v ->]. reflexivity. }
        rewrite Hf, Ha'. cbn [rbind]. rewrite an_args_nil_l. cbn [rbind]. unfold arg_flag_type.
        destruct Ho as [-> | ->]; [reflexivity|]. destruct (ve_ty p); [rewrite dt_eqb_refl|]; reflexivity.
    + rewrite (call_errors_arg _ _ _ _ _ _ _ Hcl), Hx. reflexivity.
Qed.

End FaultSound.

(* ------------------------------------------------------------------------------------------ *)
(* whole programs with exactly one semantic fault *)

Lemma analyze_gdecls_one G dpre d d' dpost :
  analyze_gdecls G dpre = ROk dpre -> analyze_gdecl G d = ROk d' -> analyze_gdecls G dpost = ROk dpost ->
  analyze_gdecls G (dpre ++ d :: dpost) = ROk (dpre ++ d' :: dpost).
Proof.
  intros Hpre Hd Hpost. induction dpre as [|y dpre IH].
  - cbn [app analyze_gdecls]. rewrite Hd. cbn [rbind]. rewrite Hpost. reflexivity.
  - cbn [analyze_gdecls] in Hpre. on1 Hpre (analyze_gdecl G y). on1 Hpre (analyze_gdecls G dpre). injection Hpre as -> ->.
    cbn [app analyze_gdecls]. rewrite E. cbn [rbind]. rewrite (IH E0). reflexivity.
Qed.

Definition gdecls_errors (l : list (gdecl * nat)) : list err :=
  flat_map (fun x => shift_es (snd x) (gdecl_errors (fst x))) l.

Lemma gdecls_errors_clean l : forallb (fun r => clean_gdecl (fst r)) l = true -> gdecls_errors l = [].
Proof.
  intros H. apply flat_map_nil. intros [a off] Hin. rewrite forallb_forall in H. cbn [fst snd].
  rewrite (clean_gdecl_errors a (H _ Hin)). reflexivity.
Qed.

Theorem fault_program_sound p G y :
  tree_clean p = true -> fault_program p G y ->
  build_res p = ROk (p, G) /\ exists p', analyze_res p G = ROk p' /\ tree_errors p' = [y].
Proof.
  intros Hc [Hwf Hf]. destruct Hf as (dpre & pd & doff & dpost & spre & s & soff & spost & x & Hds & Hpre & Hpost & Hss & Hpe & ->).
  destruct Hpe as (pe & Hown & Hspre & Hs & Hspost).
  split; [apply build_sound, Hwf|].
  unfold tree_clean in Hc. apply andb_true_iff in Hc. destruct Hc as [Hcd Hci]. rewrite Hds in Hcd.
  apply forallb_app_inv in Hcd. destruct Hcd as [Hcpre [Hcpd Hcpost]]. cbn [fst clean_gdecl] in Hcpd. split_clean Hcpd.
  rewrite Hss in Hcpd1. apply forallb_app_inv in Hcpd1. destruct Hcpd1 as [Hcspre [Hcs Hcspost]]. cbn [fst] in Hcs.
  destruct (fault_stmt_sound _ _ _ _ Hs Hcs) as [s' [Hs' Hx]].
  set (pd' := {| pd_doc := pd_doc pd; pd_name := pd_name pd; pd_params := pd_params pd; pd_vars := pd_vars pd;
                 pd_stmts := spre ++ (s', soff) :: spost; pd_info := pd_info pd |}).
  exists {| pg_decls := dpre ++ (GProc pd', doff) :: dpost; pg_info := pg_info p |}. split.
  - unfold analyze_res. rewrite Hds.
    rewrite (analyze_gdecls_one G dpre (GProc pd, doff) (GProc pd', doff) dpost
               (analyze_gdecls_sound _ _ Hpre)); [reflexivity | | apply analyze_gdecls_sound, Hpost].
    destruct Hown as [name [Hn [Hl Hr]]]. unfold analyze_gdecl. rewrite Hn, Hl.
    apply range_eqb_eq in Hr. rewrite Hr. cbn [negb]. rewrite Hss.
    rewrite (an_stmts_one _ _ spre s soff spost s' (an_stmts_sound _ _ _ Hspre) Hs' (an_stmts_sound _ _ _ Hspost)).
    cbn [rbind]. unfold pd'. rewrite Hn. reflexivity.
  - unfold tree_errors. cbn [pg_info pg_decls]. rewrite (clean_nil _ Hci). cbn [app]. rewrite flat_map_app. cbn [flat_map fst snd].
    fold (gdecls_errors dpre). fold (gdecls_errors dpost).
    rewrite (gdecls_errors_clean _ Hcpre), (gdecls_errors_clean _ Hcpost), app_nil_r. cbn [app gdecl_errors].
    unfold procdecl_errors. cbn [pd_info pd_name pd_params pd_vars pd_stmts pd'].
    rewrite (clean_nil _ Hcpd0), (clean_opt_name_errors _ Hcpd). cbn [app].
    assert (Hpar : flat_map (fun x : paramdecl * nat => shift_es (snd x) (paramdecl_errors (fst x))) (pd_params pd) = []).
    { match goal with H : forallb _ (pd_params pd) = true |- _ => rename H into Hq end. rewrite forallb_forall in Hq.
      apply flat_map_nil. intros [q off] Hin. cbn [fst snd]. specialize (Hq _ Hin). cbn [fst] in Hq.
      destruct q as [doc r name ty inf | inf]; [|discriminate]. cbn [clean_paramdecl paramdecl_errors] in *. split_clean Hq.
      rewrite (clean_nil _ Hq0), (clean_opt_name_errors _ Hq), (clean_opt_texpr_errors _ Hq1). reflexivity. }
    assert (Hvar : flat_map (fun x : vardecl * nat => shift_es (snd x) (vardecl_errors (fst x))) (pd_vars pd) = []).
    { match goal with H : forallb _ (pd_vars pd) = true |- _ => rename H into Hq end. rewrite forallb_forall in Hq.
      apply flat_map_nil. intros [v off] Hin. cbn [fst snd]. specialize (Hq _ Hin). cbn [fst] in Hq.
      destruct v as [doc name ty inf | inf]; [|discriminate]. cbn [clean_vardecl vardecl_errors] in *. split_clean Hq.
      rewrite (clean_nil _ Hq0), (clean_opt_name_errors _ Hq), (clean_opt_texpr_errors _ Hq1). reflexivity. }
    rewrite Hpar, Hvar. cbn [app]. rewrite flat_map_app. cbn [flat_map fst snd]. fold (stmts_errors spre). fold (stmts_errors spost).
    rewrite (stmts_errors_clean _ Hcspre), (stmts_errors_clean _ Hcspost), Hx, app_nil_r. cbn [app shift_es map].
    rewrite shift_e_add. reflexivity.
Qed.

(* ... and from texts on: every text that lexes to the tokens of an abstract program whose mandated tree has exactly
   one semantic fault gets exactly one diagnostic: the message of the violated rule, with the byte range of the
   tokens of the node the rule names *)
Theorem single_semantic_fault p t G y :
  prog_ok p = true -> fault_program (expected p) G y ->
  forall toks, lex t = Some toks -> map tk toks = flatten p ++ [Eof] ->
  forall r, byte_range toks y = ROk r -> diagnostics t = Done [r].
Proof.
  intros Hok Hf toks Hlex Hk r Hr.
  destruct (fault_program_sound _ _ _ (expected_clean p) Hf) as [Hb [p' [Ha He]]].
  unfold diagnostics, new_doc, new_doc_res. rewrite Hlex, (roundtrip p toks Hok Hk), Hb, Ha.
  cbn [ores_outcome]. unfold doc_errors, doc_errors_res. cbn [d_ast d_toks]. rewrite He. cbn [byte_ranges]. rewrite Hr. reflexivity.
Qed.
