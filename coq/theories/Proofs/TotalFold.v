(* C02 / C17, request handlers: the explicit predicate [fold_pre] (Model/Fold.v) under which
   textDocument/foldingRange never panics holds for the document of EVERY text.

   - token part: the lexer's tokens are in text order (C06, FoldProofs [ordered_sorted]);
   - tree part: T5 (ParserSync [parse_sync]) - in the tree the parser returns for ANY token list that
     ends with its only Eof, the global declarations occupy consecutive, non-empty token spans
     starting at their offsets, and the span of a procedure declaration contains its `proc` keyword;
     table construction and semantic analysis keep offsets and ranges (FoldValid [new_doc_ranges]). *)
From Coq Require Import Arith Lia List Bool.
From Spl Require Import Model.Fold Proofs.ParserComb Proofs.ParserFwd Proofs.ParserDecl Proofs.ParserTotal
  Proofs.ParserSync Proofs.LexerProofs Proofs.RangeProofs Proofs.FoldProofs Proofs.FoldValid.
Import ListNotations.
Local Open Scope nat_scope.

Section Tree.
Variable toks : list token.

(* consecutive spans are a chain *)
Lemma spans_chain n : forall l a lo b,
  lo <= a -> Spans toks a l b -> b <= n -> ranges_chain n lo (proc_ranges l) = true.
Proof.
  induction l as [|[g off] r IH]; intros a lo b Hlo Hsp Hb; [reflexivity|].
  cbn [Spans] in Hsp. destruct Hsp as (-> & Hs0 & Hpos & _ & Hr).
  pose proof (Spans_le toks _ _ _ Hr) as Hle.
  destruct g as [td|pd|inf]; cbn [proc_ranges gdecl_info] in *.
  - apply (IH (a + i_e (td_info td)) lo b); [lia | exact Hr | exact Hb].
  - unfold shift_range, info_range. cbn [fst snd ranges_chain].
    rewrite (IH (a + i_e (pd_info pd)) (i_e (pd_info pd) + a) b); [|lia | exact Hr | exact Hb].
    rewrite andb_true_r, !andb_true_iff, !Nat.leb_le. lia.
  - apply (IH (a + i_e inf) lo b); [lia | exact Hr | exact Hb].
Qed.

Lemma skip_leading_real : forall (l : list token) j t,
  nth_error l j = Some t -> is_comment (tk t) = false -> skip_leading_comments l <> [].
Proof.
  induction l as [|x l IH]; intros j t Hj Hc; [destruct j; discriminate|].
  cbn [skip_leading_comments]. destruct (tk x) eqn:Ex; try discriminate.
  destruct j as [|j]; cbn [nth_error] in Hj.
  - injection Hj as ->. rewrite Ex in Hc. discriminate.
  - exact (IH j t Hj Hc).
Qed.

Lemma nth_firstn_below {A} : forall n (l : list A) i, i < n -> nth_error (firstn n l) i = nth_error l i.
Proof.
  induction n as [|n IH]; intros l i Hi; [lia|].
  destruct l as [|x l]; [reflexivity|]. destruct i as [|i]; [reflexivity|]. cbn [firstn nth_error]. apply IH. lia.
Qed.

Lemma nth_error_slice (l : list token) a b j :
  a <= j < b -> nth_error (firstn (b - a) (skipn a l)) (j - a) = nth_error l j.
Proof.
  intros Hj. rewrite nth_firstn_below by lia. rewrite nth_error_skipn_add. f_equal. lia.
Qed.

(* the span of a procedure declaration holds its `proc` keyword *)
Lemma spans_real : forall l a b, Spans toks a l b -> forallb (has_real toks) (proc_ranges l) = true.
Proof.
  induction l as [|[g off] r IH]; intros a b Hsp; [reflexivity|].
  cbn [Spans] in Hsp. destruct Hsp as (-> & Hs0 & Hpos & Hd & Hr).
  destruct g as [td|pd|inf]; cbn [proc_ranges]; try exact (IH _ _ Hr).
  cbn [forallb]. rewrite (IH _ _ Hr), andb_true_r.
  cbn [gdecl_info decl_span] in *. destruct Hd as (t & Ht & Hk & Hlt & _).
  unfold has_real, shift_range, info_range. cbn [fst snd]. rewrite Hs0. cbn [Nat.add].
  pose proof (sig_at_ge toks a) as Hge.
  assert (Hne : skip_leading_comments (firstn (i_e (pd_info pd) + a - a) (skipn a toks)) <> []).
  { apply (skip_leading_real _ (sig_at toks a - a) t); [|now rewrite Hk].
    rewrite nth_error_slice by lia. exact Ht. }
  destruct (skip_leading_comments _); [congruence | reflexivity].
Qed.

End Tree.

Theorem new_doc_tree_pre t d : new_doc_res t = ODone d -> tree_pre d = true.
Proof.
  intros H. destruct (new_doc_shape t d H) as (_ & Hl & HE & _ & p & p1 & Hp & _ & _).
  destruct (new_doc_ranges t _ p d Hl Hp H) as (_ & _ & Hr).
  destruct (parse_sync _ p HE Hp) as (Hsp & _ & Hsig).
  unfold tree_pre. rewrite Hr. apply andb_true_iff. split.
  - apply (spans_chain (d_toks d) _ _ 0 0 (i_e (pg_info p)) (le_n _) Hsp).
    pose proof (sig_at_ge (d_toks d) (i_e (pg_info p))). lia.
  - exact (spans_real (d_toks d) _ _ _ Hsp).
Qed.

Theorem new_doc_fold_pre t d : new_doc_res t = ODone d -> fold_pre d = true.
Proof.
  intros H. pose proof (new_doc_tree_pre t d H) as Hp. unfold tree_pre in Hp.
  destruct (new_doc_toks t d H) as [_ Hl]. unfold fold_pre.
  rewrite (ordered_sorted 0 _ (tiles_ordered 0 t _ (lex_tiles t _ Hl))). exact Hp.
Qed.

(* foldingRange answers on every freshly analysed document, with well-formed ranges *)
Theorem new_doc_fold_total t d :
  new_doc_res t = ODone d -> exists rs, fold d = ROk rs /\ ranges_wf (nlines t) 0 rs.
Proof. intros H. exact (fold_wellformed_new_doc t d H (new_doc_tree_pre t d H)). Qed.
