(* C01, positive part (2b/4): parse_list with old elements under the empty TokenChange, and the range
   facts `affected` needs: the info of a node covers exactly the tokens its parser consumed ([Rng]).

   parse_list re-wraps the old tail elements as CommaPreceded with inner offset 1 (new_wrapped); that
   is the offset the scratch parser records only when no comment stands between the element and its
   comma.  [NCC] is this hypothesis on the token vector. *)
From Coq Require Import List Arith Lia.
From Spl Require Import Model.ParserInc Proofs.ParserComb Proofs.ParserFwd Proofs.UpdateDocProofsSim
  Proofs.IncPositiveMono Proofs.IncPositiveSim.
Import ListNotations.
Local Open Scope nat_scope.

(* no comment token directly before a comma *)
Definition NCC (toks : list token) : Prop :=
  forall p, la_tag toks (is_k Comma) p = true -> comments_at toks p = [].

Section L.
Variable toks : list token.
Variable w : nat.
Notation N := (length toks).
Notation FwdT := (Fwd toks sync_none).
Notation WF := (WF toks).
Notation Good := (Good toks).
Notation Rng := (Rng toks).

Section ListR.
Context {A : Type}.
Variable p1 : parser A.
Variable q1 : option A -> iparser A.
Variable inf : A -> info.
Variable Rel1 : A -> A -> Prop.
Hypothesis Hwf1 : WF p1.
Hypothesis Hsim1 : Sim p1 (q1 None).
Hypothesis Hel1 : forall o, QSg Good (Rel1 o) p1 (q1 (Some o)).
Hypothesis Hstart1 : forall o a s s1, Rel1 o a -> refp s <= pos s -> pos s <= N -> p1 s = POk s1 a -> i_s (inf o) = pos s - refp s.
Hypothesis Hncc : NCC toks.

Definition pcp : parser (A * nat * nat) := p_ref (p_preceded (p_tag toks (is_k Comma)) (p_ref p1)).
Definition gcp (r : A * nat * nat) : A * nat := (fst (fst r), snd r + snd (fst r)).

Lemma pcp_inv s s1 r :
  pcp s = POk s1 r ->
  snd r = pos s - refp s /\ snd (fst r) = 1 /\
  exists st s0, p1 st = POk s0 (fst (fst r)) /\ refp st = pos st /\ pos st <= N.
Proof.
  unfold pcp. intros E. apply p_ref_ok in E as (s0 & E & -> & Ho).
  unfold p_preceded in E. apply p_map_ok in E as (ab & E & Hr). apply p_pair_ok in E as (st & Et & E).
  apply p_ref_ok in E as (s00 & E & -> & Hio).
  apply p_tag_ok in Et as (Hn & Hk & ->). cbn [pos refp set_refp adv] in *.
  assert (Hc : comments_at toks (pos s) = []).
  { apply Hncc. rewrite la_tag_spec, Hn. exact Hk. }
  assert (Hsig : sig_at toks (pos s) = pos s) by (unfold sig_at; rewrite Hc; cbn [length]; lia).
  rewrite Hsig in *. split; [exact Ho|]. split.
  - rewrite Hr, Hio. lia.
  - rewrite Hr. eexists _, _. split; [exact E|]. split; [reflexivity|]. cbn [pos set_refp adv].
    assert (pos s < N) by (apply nth_error_Some; rewrite Hn; discriminate). lia.
Qed.

Lemma WF_pcp : WF pcp.
Proof.
  destruct Hwf1 as [Hf Hm]. split; unfold pcp.
  - fwd_solve sync_none_ok.
  - mono_solve.
Qed.

Lemma Sim_pcp : Sim pcp (i_cp_elem toks q1 None).
Proof.
  unfold pcp, i_cp_elem. apply Sim_ref. unfold i_comma_preceded. apply Sim_preceded; [apply Sim_tag | apply Sim_ref, Hsim1].
Qed.

Definition Rel_cp (o r : A * nat * nat) : Prop :=
  snd r = snd o /\ snd (fst r) = snd (fst o) /\ Rel1 (fst (fst o)) (fst (fst r)).

Lemma QS_pcp o : QSg Good (Rel_cp o) pcp (i_cp_elem toks q1 (Some o)).
Proof.
  destruct Hwf1 as [Hf Hm]. destruct o as [[x io] oo]. unfold pcp, i_cp_elem.
  eapply QS_impl; [|apply (QS_ref_some toks (fun ao : A * nat => snd ao = io /\ Rel1 x (fst ao)) _ (i_comma_preceded toks q1) (x, io) oo)].
  - intros [[a i] o'] (H1 & H2 & H3). cbn [fst snd] in *. auto.
  - unfold i_comma_preceded. apply (QS_preceded toks Good (Stable_Good toks)).
    + split; [fwd_solve sync_none_ok | mono_solve].
    + mono_solve.
    + apply QS_tag.
    + apply (QS_ref_some toks (Rel1 x) p1 q1 x io (Hel1 x)).
Qed.

Lemma start_pcp o r s s1 : Rel_cp o r -> refp s <= pos s -> pcp s = POk s1 r -> cp_start inf o <= pos s.
Proof.
  intros (H1 & H2 & H3) Hs E. destruct (pcp_inv _ _ _ E) as (Ho & _ & st & s0 & E1 & Hst & Hb).
  unfold cp_start. rewrite (Hstart1 _ _ st s0 H3 ltac:(lia) Hb E1). rewrite <- H1, Ho. lia.
Qed.

Lemma QS_list fuel olds :
  QSg Good (fun l => Forall2 (fun o a => snd a = snd o /\ Rel1 (fst o) (fst a)) olds l)
      (p_list toks fuel p1) (i_list toks w w 0 q1 inf fuel (Some olds)).
Proof.
  pose proof WF_pcp as [Hfc Hmc]. destruct Hwf1 as [Hf Hm].
  intros s s2 l Hg E He HR. unfold p_list in E. apply bind_ok in E as (s1 & hd & E1 & E).
  apply bind_ok in E as (s2' & tl & E2 & X). injection X as <- <-.
  destruct olds as [|x rest]; [inversion HR|]. inversion HR as [|? ? ? ? [Hx1 Hx2] HRt]; subst.
  destruct (many0_map gcp pcp _ _ _ _ E2) as (l' & E2' & ->).
  pose proof (MonoE_ok (p_ref p1) _ _ _ (MonoE_ref p1 Hm) E1) as X1.
  pose proof (MonoE_ok _ _ _ _ (MonoE_many0 fuel pcp Hmc) E2') as X2.
  assert (He' : ebuf s2' = ebuf (proj s)) by exact He.
  destruct (ext_quiet _ _ _ X1 X2 He') as [Y1 Y2].
  destruct x as [xh xo].
  destruct (QS_ref_some toks (Rel1 xh) p1 q1 xh xo (Hel1 xh) s s1 hd Hg E1 Y1 (conj Hx1 Hx2)) as (s1' & E1' & A1 & A2).
  assert (Hg' : Good s1').
  { eapply (G_step toks Good (p_ref p1)); eauto using Stable_Good. fwd_solve sync_none_ok. }
  assert (Hone : Forall (fun r => snd (fst r) = 1) l').
  { eapply (many0_all _ pcp); [|exact E2']. intros s0 s0' a Ea. apply (pcp_inv _ _ _ Ea). }
  assert (Hw : Forall2 Rel_cp (map (fun x : A * nat => ((fst x, 1), snd x - 1)) rest) l' /\
               existsb (fun x : A * nat => Nat.eqb (snd x) 0) rest = false).
  { clear - HRt Hone. revert l' HRt Hone. induction rest as [|o rest IH]; intros l' HRt Hone.
    - destruct l'; [|inversion HRt]. split; [constructor | reflexivity].
    - destruct l' as [|r l']; [inversion HRt|]. cbn [map] in HRt. inversion HRt as [|? ? ? ? [Ho1 Ho2] HRt']; subst.
      inversion Hone as [|? ? Hr1 Hone']; subst. destruct (IH l' HRt' Hone') as [I1 I2].
      unfold gcp in Ho1, Ho2. cbn [fst snd] in Ho1, Ho2. split.
      + cbn [map]. constructor; [|exact I1]. unfold Rel_cp. cbn [fst snd]. repeat split; [lia | exact Hr1 | exact Ho2].
      + cbn [existsb]. rewrite I2. destruct (Nat.eqb_spec (snd o) 0); [lia | reflexivity]. }
  destruct Hw as [Hw Hz].
  rewrite <- A1 in E2', Y2.
  destruct (QS_many toks w pcp (i_cp_elem toks q1) (cp_start inf) Rel_cp WF_pcp Sim_pcp QS_pcp start_pcp fuel _ s1' s2' l' Hg' E2' Y2 Hw)
    as (s2'' & E2'' & B1 & B2).
  exists s2''. unfold i_list. cbv zeta. rewrite E1'. cbn [ibind]. rewrite Hz. cbn [option_map]. rewrite E2''. cbn [ibind].
  split; [reflexivity|]. split; [exact B1 | congruence].
Qed.

End ListR.

(* ---- ranges ---- *)
Definition Adv {A} (p : parser A) : Prop := forall s s1 t, pos s <= N -> p s = POk s1 t -> pos s < pos s1.

Lemma Adv_tag f : Adv (p_tag toks f).
Proof.
  intros s s1 t Hs E. apply p_tag_ok in E as (_ & _ & ->). cbn [pos adv]. pose proof (sig_at_ge toks (pos s)). lia.
Qed.

Lemma Adv_map {A B} (f : A -> B) p : Adv p -> Adv (p_map f p).
Proof. intros H s s1 t Hs E. apply p_map_ok in E as (a & E & _). eapply H; eauto. Qed.

Lemma Adv_info {A} (p : parser A) : Adv p -> Adv (p_info p).
Proof. intros H s s1 t Hs E. apply p_info_ok in E as (s0 & E & -> & _). exact (H (set_ebuf s []) s0 _ Hs E). Qed.

Lemma Adv_alt {A} (p q : parser A) : Adv p -> Adv q -> Adv (p_alt p q).
Proof. intros H H' s s1 t Hs E. apply p_alt_ok in E as [E|[_ E]]; eauto. Qed.

Lemma Adv_pair_l {A B} (p : parser A) (q : parser B) : Adv p -> FwdT p -> FwdT q -> Adv (p_pair p q).
Proof.
  intros H Hf Hf' s s1 t Hs E. apply p_pair_ok in E as (s0 & E1 & E2).
  pose proof (H _ _ _ Hs E1). destruct (Fwd_ok _ _ _ _ _ _ Hf Hs E1) as (_ & Hb & _).
  destruct (Fwd_ok _ _ _ _ _ _ Hf' Hb E2) as (Hm & _). lia.
Qed.

Lemma Adv_pair_r {A B} (p : parser A) (q : parser B) : FwdT p -> Adv q -> Adv (p_pair p q).
Proof.
  intros Hf H s s1 t Hs E. apply p_pair_ok in E as (s0 & E1 & E2).
  destruct (Fwd_ok _ _ _ _ _ _ Hf Hs E1) as (Hm & Hb & _). pose proof (H _ _ _ Hb E2). lia.
Qed.

Lemma Adv_preceded_l {A B} (p : parser A) (q : parser B) : Adv p -> FwdT p -> FwdT q -> Adv (p_preceded p q).
Proof. intros. unfold p_preceded. apply Adv_map, Adv_pair_l; assumption. Qed.

Lemma Adv_terminated_l {A B} (p : parser A) (q : parser B) : Adv p -> FwdT p -> FwdT q -> Adv (p_terminated p q).
Proof. intros. unfold p_terminated. apply Adv_map, Adv_pair_l; assumption. Qed.

(* a node built from `info(p)`: its range is what p consumed *)
Lemma Rng_map_info {A B} (inf : B -> info) (f : A * info -> B) (p : parser A) :
  (forall a i, i_s (inf (f (a, i))) = i_s i /\ i_e (inf (f (a, i))) = i_e i) -> Adv p ->
  Rng inf (p_map f (p_info p)).
Proof.
  intros Hf Ha s s1 t Hr Hs E. apply p_map_ok in E as ([a i] & E & ->). apply p_info_ok in E as (s0 & E & -> & Hi).
  cbn [fst snd] in *. destruct (Hf a i) as [-> ->]. subst i. cbn [i_s i_e pos set_ebuf].
  pose proof (Ha (set_ebuf s []) s0 a Hs E) as Hlt. cbn [pos set_ebuf] in Hlt. auto.
Qed.

Lemma Rng_alt {A} (inf : A -> info) (p q : parser A) : Rng inf p -> Rng inf q -> Rng inf (p_alt p q).
Proof. intros H H' s s1 t Hr Hs E. apply p_alt_ok in E as [E|[_ E]]; eauto. Qed.

Lemma Rng_restore {A} (inf : A -> info) (p : parser A) : Rng inf p -> Rng inf (p_restore p).
Proof. intros H s s1 t Hr Hs E. apply p_restore_ok in E. eauto. Qed.

Lemma Rng_ext {A} (inf : A -> info) (p q : parser A) : (forall s, p s = q s) -> Rng inf p -> Rng inf q.
Proof. intros He H s s1 t Hr Hs E. rewrite <- He in E. eauto. Qed.

End L.
