(* C01, positive part (3b/4): ranges of expressions.  Expression and Variable carry no `info` wrapper of
   their own at the top; the range `affected` reads from an old expression is computed (parse_rhs,
   extend_range).  It is the range of the tokens the scratch parser consumed ([Rng_expr_all]). *)
From Coq Require Import List Arith Lia.
From Spl Require Import Model.ParserInc Model.Errors Proofs.ParserComb Proofs.ParserFwd Proofs.UpdateDocProofsSim
  Proofs.IncPositiveMono Proofs.IncPositiveSim Proofs.IncPositiveList Proofs.IncPositiveExpr.
Import ListNotations.
Local Open Scope nat_scope.

Section R.
Variable toks : list token.
Notation N := (length toks).
Notation FwdT := (Fwd toks sync_none).
Notation Rng := (Rng toks).
Notation Adv := (Adv toks).
Notation p_ident := (p_ident toks).
Notation p_intlit := (p_intlit toks).
Notation p_variable := (p_variable toks).
Notation p_primary := (p_primary toks).
Notation p_factor := (p_factor toks).
Notation mul_loop := (mul_loop toks).
Notation p_mul := (p_mul toks).
Notation add_loop := (add_loop toks).
Notation p_add := (p_add toks).
Notation p_comparison := (p_comparison toks).

Ltac fw := fwd_solve sync_none_ok.

Lemma Rng_map {A B} (inf : A -> info) (inf' : B -> info) (f : A -> B) p :
  (forall a, inf' (f a) = inf a) -> Rng inf p -> Rng inf' (p_map f p).
Proof. intros Hf H s s1 t Hr Hs E. apply p_map_ok in E as (a & E & ->). rewrite Hf. eauto. Qed.

Lemma Rng_ident : Rng id_info p_ident.
Proof. unfold Parser.p_ident. apply Rng_map_info; [intros a i; auto | apply Adv_tag]. Qed.

Lemma Rng_intlit : Rng il_info p_intlit.
Proof.
  unfold Parser.p_intlit. apply Rng_map_info; [intros a i; auto|]. apply Adv_map.
  repeat apply Adv_alt; apply Adv_tag.
Qed.

Lemma rhs_rng (p : parser expr) lhs op s s1 e :
  FwdT p -> pos s <= N -> p_rhs p lhs op s = POk s1 e ->
  i_s (expr_info e) = i_s (expr_info lhs) /\ i_e (expr_info e) = pos s1 - refp s /\ pos s <= pos s1 /\
  refp s1 = refp s /\ pos s1 <= N.
Proof.
  intros Hf Hs E. unfold p_rhs in E. apply bind_ok in E as (s' & rhs & E & X). injection X as <- <-.
  assert (Hfe : FwdT (p_expect p (ExpectedToken s_expression))) by fw.
  destruct (Fwd_ok _ _ _ _ _ _ Hfe Hs E) as (M1 & M2 & M3 & _). cbn [expr_info mkinfo i_s i_e].
  rewrite M3. auto.
Qed.

Definition LoopRng (l : st -> expr -> pres expr) : Prop :=
  forall lhs s s1 r b, refp s <= b -> b < pos s -> pos s <= N -> l s lhs = POk s1 r ->
    i_s (expr_info lhs) = b - refp s -> i_e (expr_info lhs) = pos s - refp s ->
    i_s (expr_info r) = b - refp s /\ i_e (expr_info r) = pos s1 - refp s /\ pos s <= pos s1.

Lemma tag_fwd f s s1 t : pos s <= N -> p_tag toks f s = POk s1 t -> pos s < pos s1 /\ pos s1 <= N /\ refp s1 = refp s.
Proof.
  intros Hs E. pose proof (Adv_tag toks f s s1 t Hs E) as H.
  assert (Hf : FwdT (p_tag toks f)) by (apply Fwd_tag; [apply Hc, sync_none_ok | apply TagOk_none]).
  destruct (Fwd_ok _ _ _ _ _ _ Hf Hs E) as (_ & M2 & M3 & _). auto.
Qed.

Lemma mul_loop_rng f : FwdT (p_factor f) -> LoopRng (mul_loop f).
Proof.
  revert f. induction f as [|f IH]; intros Hf lhs s s1 r b Hb1 Hb2 Hs E H1 H2; [discriminate|].
  pose proof (Fwd_expr_all toks sync_none sync_none_ok f) as (_ & _ & Ffac & _).
  cbn [Parser.mul_loop] in E. destruct (p_tag toks is_mulop s) as [sa op|sa|] eqn:Et; [| |discriminate].
  - apply bind_ok in E as (s2 & e & E1 & E2). destruct (tag_fwd _ _ _ _ Hs Et) as (T1 & T2 & T3).
    destruct (rhs_rng _ _ _ _ _ _ Ffac T2 E1) as (R1 & R2 & R3 & R4 & R5).
    assert (P1 : i_s (expr_info e) = b - refp s2) by (rewrite R1, H1; f_equal; lia).
    assert (P2 : i_e (expr_info e) = pos s2 - refp s2) by (rewrite R2; f_equal; lia).
    destruct (IH Ffac e s2 s1 r b ltac:(lia) ltac:(lia) R5 E2 P1 P2) as (I1 & I2 & I3).
    rewrite R4, T3 in *. repeat split; [exact I1 | exact I2 | lia].
  - injection E as <- <-. auto.
Qed.

Lemma add_loop_rng f : LoopRng (add_loop f).
Proof.
  induction f as [|f IH]; intros lhs s s1 r b Hb1 Hb2 Hs E H1 H2; [discriminate|].
  pose proof (Fwd_expr_all toks sync_none sync_none_ok f) as (_ & _ & _ & _ & Fmul & _).
  cbn [Parser.add_loop] in E. destruct (p_tag toks is_addop s) as [sa op|sa|] eqn:Et; [| |discriminate].
  - apply bind_ok in E as (s2 & e & E1 & E2). destruct (tag_fwd _ _ _ _ Hs Et) as (T1 & T2 & T3).
    destruct (rhs_rng _ _ _ _ _ _ Fmul T2 E1) as (R1 & R2 & R3 & R4 & R5).
    assert (P1 : i_s (expr_info e) = b - refp s2) by (rewrite R1, H1; f_equal; lia).
    assert (P2 : i_e (expr_info e) = pos s2 - refp s2) by (rewrite R2; f_equal; lia).
    destruct (IH e s2 s1 r b ltac:(lia) ltac:(lia) R5 E2 P1 P2) as (I1 & I2 & I3).
    rewrite R4, T3 in *. repeat split; [exact I1 | exact I2 | lia].
  - injection E as <- <-. auto.
Qed.

(* the array accesses of a variable *)
Lemma acc_fold_rng {X : Type} (px : parser (option (expr * nat) * X)) :
  FwdT px -> forall f' s s1 accesses v vinfo,
  p_many0 f' (p_info px) s = POk s1 accesses ->
  refp s <= pos s -> pos s <= N ->
  i_s vinfo <= pos s - refp s -> i_e vinfo <= pos s - refp s ->
  i_s (var_info v) = i_s vinfo -> i_e (var_info v) = pos s - refp s ->
  let r := fold_left (fun v a => ArrAccess v (fst (fst a)) (extend_range (snd a) vinfo)) accesses v in
  i_s (var_info r) = i_s vinfo /\ i_e (var_info r) = pos s1 - refp s /\ pos s <= pos s1.
Proof.
  intros Hf. induction f' as [|f' IH]; intros s s1 accesses v vinfo E Hr Hs V1 V2 W1 W2; [discriminate|].
  cbn [p_many0] in E. destruct (p_info px s) as [sa a|sa|] eqn:Ea; [| |discriminate].
  - destruct (Nat.eqb (pos sa) (pos s)); [discriminate|].
    apply bind_ok in E as (s2 & l & E2 & X0). injection X0 as <- <-.
    apply p_info_ok in Ea as (sa0 & Ea & -> & Hi).
    assert (Hs' : pos (set_ebuf s []) <= N) by exact Hs.
    destruct (Fwd_ok _ _ _ _ _ _ Hf Hs' Ea) as (M1 & M2 & M3 & _). cbn [pos refp set_ebuf] in *.
    cbn [fold_left]. cbv zeta in IH. cbv zeta.
    set (v' := ArrAccess v (fst (fst a)) (extend_range (snd a) vinfo)).
    assert (P1 : i_s (var_info v') = i_s vinfo).
    { unfold v'. cbn [var_info extend_range i_s]. rewrite Hi. cbn [i_s]. lia. }
    assert (P2 : i_e (var_info v') = pos sa0 - refp sa0).
    { unfold v'. cbn [var_info extend_range i_e]. rewrite Hi. cbn [i_e]. lia. }
    destruct (IH (set_ebuf sa0 (ebuf s)) s2 l v' vinfo E2) as (I1 & I2 & I3);
      cbn [pos refp set_ebuf]; try lia; try assumption.
    cbn [pos refp set_ebuf] in *. rewrite M3 in *. repeat split; [exact I1 | exact I2 | lia].
  - injection E as <- <-. cbn [fold_left]. auto.
Qed.

Lemma Rng_expr_all f :
  Rng var_info (p_variable f) /\ Rng expr_info (p_primary f) /\ Rng expr_info (p_factor f) /\
  Rng expr_info (p_mul f) /\ Rng expr_info (p_add f) /\ Rng expr_info (p_comparison f).
Proof.
  induction f as [|f (IHvar & IHpri & IHfac & IHmul & IHadd & IHcmp)].
  - split; [|split; [|split; [|split; [|split]]]]; intros s s1 t Hr Hs E; discriminate E.
  - pose proof (Fwd_expr_all toks sync_none sync_none_ok f) as (Fvar & Fpri & Ffac & Fml & Fmul & Fal & Fadd & Fcmp).
    split; [|split; [|split; [|split; [|split]]]].
    + (* variable *)
      intros s s1 t Hr Hs E. cbn [Parser.p_variable] in E. apply bind_ok in E as (s' & [[v0 vinfo] acc] & E & X).
      injection X as <- <-. apply p_pair_ok in E as (sa & E1 & E2). cbn [fst snd] in *.
      apply p_info_ok in E1 as (sa0 & E1 & -> & Hi). cbn [fst snd] in *. subst vinfo.
      apply p_map_ok in E1 as (id & E1 & ->).
      assert (Hr' : refp (set_ebuf s []) <= pos (set_ebuf s [])) by exact Hr.
      assert (Hs' : pos (set_ebuf s []) <= N) by exact Hs.
      destruct (Rng_ident _ _ _ Hr' Hs' E1) as (A1 & A2 & A3). cbn [pos refp set_ebuf] in *.
      assert (Hfi : FwdT p_ident) by fw.
      destruct (Fwd_ok toks sync_none p_ident (set_ebuf s []) sa0 id Hfi Hs E1) as (M1 & M2 & M3 & _). cbn [pos refp set_ebuf] in *.
      assert (Hfx : FwdT (p_preceded (p_tag toks (is_k LBracket))
                (p_pair (p_expect (p_ref (p_comparison f)) (ExpectedToken s_expression))
                        (p_expect (p_tag toks (is_k RBracket)) (MissingClosing 93%N))))) by fw.
      destruct (acc_fold_rng _ Hfx f (set_ebuf sa0 (ebuf s)) s' acc (NamedVar id)
                  {| i_s := pos s - refp s; i_e := pos sa0 - refp s; i_errs := ebuf sa0 |} E2) as (B1 & B2 & B3);
        cbn [pos refp set_ebuf var_info i_s i_e]; try lia.
      cbn [pos refp set_ebuf i_s] in *. rewrite M3 in *. repeat split; [exact B1 | exact B2 | lia].
    + (* primary *)
      cbn [Parser.p_primary]. intros s. revert s.
      change (Rng expr_info (p_alt (p_map EInt p_intlit) (p_alt (p_map EVar (p_variable f))
                (fun s => bind (p_info (p_pair (p_info (p_tag toks (is_k LParen)))
                   (p_pair (p_expect (p_comparison f) (ExpectedToken s_expression))
                           (p_expect (p_tag toks (is_k RParen)) (MissingClosing 41%N)))) s)
                   (fun s' r => let '(((_, lp_info), (e, _)), inf) := r in
                                let ep := i_e lp_info in
                                POk s' (EBrack (match e with Some x => x | None => EErr (mkinfo ep ep) end) inf)))))).
      apply Rng_alt; [apply (Rng_map il_info); [reflexivity | exact Rng_intlit]|].
      apply Rng_alt; [apply (Rng_map var_info); [reflexivity | exact IHvar]|].
      intros s s1 t Hr Hs E. apply bind_ok in E as (s' & [[[x lp] [e y]] inf] & E & X). injection X as <- <-.
      apply p_info_ok in E as (s0 & E & -> & Hi). cbn [fst snd expr_info] in *. subst inf. cbn [i_s i_e pos set_ebuf].
      assert (Ha : Adv (p_pair (p_info (p_tag toks (is_k LParen)))
                   (p_pair (p_expect (p_comparison f) (ExpectedToken s_expression))
                           (p_expect (p_tag toks (is_k RParen)) (MissingClosing 41%N))))).
      { apply Adv_pair_l; [apply Adv_info, Adv_tag | fw | fw]. }
      pose proof (Ha (set_ebuf s []) s0 _ Hs E) as Hlt. cbn [pos set_ebuf] in Hlt. auto.
    + (* factor *)
      cbn [Parser.p_factor]. intros s. revert s.
      change (Rng expr_info (p_alt (p_primary f)
                (p_map (fun ei => EUn OSub (fst ei) (snd ei)) (p_info (p_preceded (p_tag toks (is_k Minus)) (p_factor f)))))).
      apply Rng_alt; [exact IHpri|]. apply Rng_map_info; [intros a i; auto|].
      apply Adv_preceded_l; [apply Adv_tag | fw | exact Ffac].
    + (* mul *)
      intros s s1 t Hr Hs E. cbn [Parser.p_mul] in E. apply bind_ok in E as (sa & e & E1 & E2).
      destruct (IHfac _ _ _ Hr Hs E1) as (A1 & A2 & A3).
      destruct (Fwd_ok _ _ _ _ _ _ Ffac Hs E1) as (M1 & M2 & M3 & _).
      destruct (mul_loop_rng f Ffac e sa s1 t (pos s) ltac:(lia) ltac:(lia) M2 E2
                  ltac:(rewrite M3; exact A1) ltac:(rewrite M3; exact A2)) as (B1 & B2 & B3).
      rewrite M3 in *. repeat split; [exact B1 | exact B2 | lia].
    + (* add *)
      intros s s1 t Hr Hs E. cbn [Parser.p_add] in E. apply bind_ok in E as (sa & e & E1 & E2).
      destruct (IHmul _ _ _ Hr Hs E1) as (A1 & A2 & A3).
      destruct (Fwd_ok _ _ _ _ _ _ Fmul Hs E1) as (M1 & M2 & M3 & _).
      destruct (add_loop_rng f e sa s1 t (pos s) ltac:(lia) ltac:(lia) M2 E2
                  ltac:(rewrite M3; exact A1) ltac:(rewrite M3; exact A2)) as (B1 & B2 & B3).
      rewrite M3 in *. repeat split; [exact B1 | exact B2 | lia].
    + (* comparison *)
      intros s s1 t Hr Hs E. cbn [Parser.p_comparison] in E. apply bind_ok in E as (sa & e & E1 & E2).
      destruct (IHadd _ _ _ Hr Hs E1) as (A1 & A2 & A3).
      destruct (Fwd_ok _ _ _ _ _ _ Fadd Hs E1) as (M1 & M2 & M3 & _).
      destruct (p_tag toks is_cmpop sa) as [s2 op|s2|] eqn:Et; [| |discriminate].
      * destruct (tag_fwd _ _ _ _ M2 Et) as (T1 & T2 & T3).
        destruct (rhs_rng _ _ _ _ _ _ Fadd T2 E2) as (R1 & R2 & R3 & R4 & R5).
        rewrite R1, R2, T3, M3. repeat split; [exact A1 | lia].
      * injection E2 as <- <-. auto.
Qed.

Lemma Rng_variable f : Rng var_info (p_variable f). Proof. apply Rng_expr_all. Qed.
Lemma Rng_comparison f : Rng expr_info (p_comparison f). Proof. apply Rng_expr_all. Qed.

End R.
