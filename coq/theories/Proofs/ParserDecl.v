(* T2 (progress) and the shape of one successful global declaration (the per-declaration core of T5).
   [Prog p]: a success of p consumes at least one token. *)
From Coq Require Import Arith Lia List.
From Spl Require Import Model.Parser Proofs.ParserComb Proofs.ParserEqns Proofs.ParserFwd.
Local Open Scope nat_scope.

Lemma adv_0 s : adv s 0 = s.
Proof. destruct s. unfold adv; cbn. f_equal. lia. Qed.

Section Decl.
Variable toks : list token.
Notation N := (length toks).
Notation Fwd0 := (Fwd toks sync_none).
Notation FwdF := (Fwd toks sync_full).

Definition Prog {A} (p : parser A) : Prop :=
  forall s s' a, pos s <= N -> p s = POk s' a -> pos s < pos s'.

Lemma Prog_fuel {A} : Prog (fun _ : st => @PFuel A).
Proof. intros s s' a _ H. discriminate H. Qed.

Lemma Prog_map {A B} (f : A -> B) p : Prog p -> Prog (p_map f p).
Proof. intros Hp s s' b Hs H. apply p_map_ok in H as (a & H & _). eapply Hp; eassumption. Qed.

Lemma Prog_alt {A} (p q : parser A) : Prog p -> Prog q -> Prog (p_alt p q).
Proof. intros Hp Hq s s' a Hs H. apply p_alt_ok in H as [H|[_ H]]; [eapply Hp | eapply Hq]; eassumption. Qed.

Lemma Prog_restore {A} (p : parser A) : Prog p -> Prog (p_restore p).
Proof. intros Hp s s' a Hs H. apply p_restore_ok in H. eapply Hp; eassumption. Qed.

Lemma Prog_info {A} (p : parser A) : Prog p -> Prog (p_info p).
Proof.
  intros Hp s s' a Hs H. apply p_info_ok in H as (s1 & H & -> & _).
  apply Hp in H; [exact H | exact Hs].
Qed.

Lemma Prog_ref {A} (p : parser A) : Prog p -> Prog (p_ref p).
Proof.
  intros Hp s s' a Hs H. apply p_ref_ok in H as (s1 & H & -> & _).
  apply Hp in H; [exact H | exact Hs].
Qed.

Lemma Prog_pair_l {A B} (p : parser A) (q : parser B) : Prog p -> Fwd0 p -> Fwd0 q -> Prog (p_pair p q).
Proof.
  intros Hp Fp Fq s s' ab Hs H. apply p_pair_ok in H as (s1 & H1 & H2).
  pose proof (Hp _ _ _ Hs H1). pose proof (Fwd_ok _ _ _ _ _ _ Fp Hs H1) as M1.
  pose proof (Fwd_ok _ _ _ _ _ _ Fq (Mv_bound _ _ _ _ M1) H2) as (M2 & _). lia.
Qed.

Lemma Prog_pair_r {A B} (p : parser A) (q : parser B) : Fwd0 p -> Prog q -> Prog (p_pair p q).
Proof.
  intros Fp Hq s s' ab Hs H. apply p_pair_ok in H as (s1 & H1 & H2).
  pose proof (Fwd_ok _ _ _ _ _ _ Fp Hs H1) as M1.
  pose proof (Hq _ _ _ (Mv_bound _ _ _ _ M1) H2). destruct M1 as (M1 & _). lia.
Qed.

Lemma Prog_pair_comments {B} (q : parser B) : Prog q -> Prog (p_pair (p_comments toks) q).
Proof. apply Prog_pair_r, Fwd_comments. intros k _. reflexivity. Qed.

Lemma Prog_tag f : Prog (p_tag toks f).
Proof.
  intros s s' t Hs H. apply p_tag_ok in H as (_ & _ & ->). cbn [pos adv]. pose proof (sig_at_ge toks (pos s)). lia.
Qed.

Lemma Prog_bind_ret {A B} (p : parser A) (k : st -> A -> pres B) :
  Prog p -> (forall s a s' b, k s a = POk s' b -> s' = s) -> Prog (fun s => bind (p s) k).
Proof.
  intros Hp Hk s s' b Hs H. apply bind_ok in H as (s1 & a & H1 & H2).
  apply Hk in H2 as ->. eapply Hp; eassumption.
Qed.

Lemma ignore_from_ok n la s s' u :
  ignore_from toks n la s = POk s' u ->
  la (pos s') = true /\ pos s <= pos s' /\ (forall i, pos s <= i < pos s' -> la i = false) /\
  s' = adv s (pos s' - pos s).
Proof.
  revert s. induction n as [|n IH]; intros s; cbn [ignore_from]; destruct (la (pos s)) eqn:E.
  - intros [= <- _]. repeat split; [exact E | lia | intros i Hi; lia | rewrite Nat.sub_diag; now rewrite adv_0].
  - discriminate.
  - intros [= <- _]. repeat split; [exact E | lia | intros i Hi; lia | rewrite Nat.sub_diag; now rewrite adv_0].
  - destruct (Nat.ltb (pos s) N); [|discriminate]. intros H. apply IH in H as (H1 & H2 & H3 & H4).
    cbn [pos adv] in *. repeat split; [exact H1 | lia | |].
    + intros i Hi. destruct (Nat.eq_dec i (pos s)) as [->|]; [exact E | apply H3; lia].
    + rewrite H4 at 1. rewrite adv_adv. f_equal. lia.
Qed.

Lemma p_ignore0_ok la s s' l :
  p_ignore0 toks la s = POk s' l ->
  la (pos s') = true /\ pos s <= pos s' /\ (forall i, pos s <= i < pos s' -> la i = false) /\
  s' = adv s (pos s' - pos s) /\ l = skipped toks s s'.
Proof.
  unfold p_ignore0. intros H. apply bind_ok in H as (s1 & u & H1 & [= -> <-]).
  apply ignore_from_ok in H1 as (A & B & C & D). auto.
Qed.

Lemma p_ignore1_ok la s s' l :
  p_ignore1 toks la s = POk s' l ->
  la (pos s) = false /\ la (pos s') = true /\ pos s < pos s' /\ (forall i, pos s <= i < pos s' -> la i = false) /\
  s' = adv s (pos s' - pos s) /\ l = skipped toks s s'.
Proof.
  unfold p_ignore1. destruct (la (pos s)) eqn:E; [discriminate|]. intros H.
  apply p_ignore0_ok in H as (A & B & C & D & F). repeat split; try assumption.
  destruct (Nat.eq_dec (pos s) (pos s')) as [Heq|]; [|lia]. rewrite <- Heq in A. congruence.
Qed.

Lemma Prog_ignore1 la : Prog (p_ignore1 toks la).
Proof. intros s s' l _ H. now apply p_ignore1_ok in H as (_ & _ & H & _). Qed.

Lemma Hs0 : forall k, sync_none k = true -> k = KProc \/ k = KType \/ k = Eof.
Proof. exact sync_none_ok. Qed.

Ltac prog_step :=
  first
  [ assumption
  | apply Prog_fuel
  | apply Prog_map | apply Prog_restore | apply Prog_alt | apply Prog_info | apply Prog_ref
  | apply Prog_tag | apply Prog_ignore1
  | apply Prog_pair_comments
  | apply Prog_pair_l; [ | solve [fwd_solve Hs0] | solve [fwd_solve Hs0] ] ].
Ltac prog := unfold p_preceded, p_terminated; repeat prog_step.

Lemma Prog_ident : Prog (p_ident toks).
Proof. unfold p_ident. prog. Qed.

Lemma Prog_intlit : Prog (p_intlit toks).
Proof. unfold p_intlit. prog. Qed.

Lemma Prog_variable f : Prog (p_variable toks f).
Proof.
  destruct f as [|f]; [apply Prog_fuel|]. rewrite p_variable_S. pose proof Prog_ident.
  apply Prog_bind_ret; [prog|]. intros s [[v0 vi] acc] s' b [= <- _]. reflexivity.
Qed.

Lemma Prog_call f : Prog (p_call toks f).
Proof. pose proof Prog_ident. unfold p_call. prog. Qed.

Lemma Prog_assign f : Prog (p_assign toks f).
Proof. pose proof (Prog_variable f). unfold p_assign. prog. Qed.

Lemma Prog_stmt f : Prog (p_stmt toks f).
Proof.
  destruct f as [|f]; [apply Prog_fuel|]. rewrite p_stmt_S.
  pose proof (Prog_call f). pose proof (Prog_assign f). prog.
Qed.

Lemma Prog_vardecl f : Prog (p_vardecl toks f).
Proof. unfold p_vardecl. prog. Qed.

Lemma Prog_typedecl f : Prog (p_typedecl toks f).
Proof. rewrite p_typedecl_eq. prog. Qed.

Lemma Prog_procdecl f : Prog (p_procdecl toks f).
Proof. rewrite p_procdecl_eq. prog. Qed.

(* T2, first half: a successful global declaration consumes at least one token *)
Lemma Prog_gdecl f : Prog (p_gdecl toks f).
Proof. pose proof (Prog_typedecl f). pose proof (Prog_procdecl f). unfold p_gdecl. prog. Qed.

(* many0 over a progressing parser never reports "Many0 made no progress" *)
Lemma many0_noerr {A} fuel (p : parser A) s e :
  Prog p -> Fwd0 p -> pos s <= N -> p_many0 fuel p s <> PErr e.
Proof.
  intros Hp Fp. revert s. induction fuel as [|f IH]; intros s Hs; cbn [p_many0]; [discriminate|].
  destruct (p s) as [s1 a|e1|] eqn:E; [|discriminate|discriminate].
  pose proof (Hp _ _ _ Hs E) as Hlt.
  rewrite (proj2 (Nat.eqb_neq (pos s1) (pos s))) by lia.
  pose proof (Fwd_ok _ _ _ _ _ _ Fp Hs E) as M.
  specialize (IH s1 (Mv_bound _ _ _ _ M)). destruct (p_many0 f p s1); cbn; [discriminate | exact IH | discriminate].
Qed.

(* T2, second half *)
Lemma many0_gdecl_noerr fuel fuel' s e :
  pos s <= N -> p_many0 fuel (p_ref (p_gdecl toks fuel')) s <> PErr e.
Proof.
  apply many0_noerr; [apply Prog_ref, Prog_gdecl | apply Fwd_ref, Fwd0_gdecl].
Qed.

(* many0 stops exactly where its argument fails *)
Lemma many0_ok_stop {A} fuel (p : parser A) s s' l :
  p_many0 fuel p s = POk s' l -> exists e, p s' = PErr e.
Proof.
  revert s l. induction fuel as [|f IH]; intros s l; cbn [p_many0]; [discriminate|].
  destruct (p s) as [s1 a|e1|] eqn:E; [| intros [= <- _]; eauto | discriminate].
  destruct (Nat.eqb (pos s1) (pos s)); [discriminate|]. intros H.
  apply bind_ok in H as (s2 & l2 & H & [= -> _]). eapply IH; eassumption.
Qed.

(* ---------------------------------------------------------------------------------------- *)
(* shape of a declaration introduced by a keyword *)
Lemma head_shape {B} f (rest : parser B) s s' x :
  FwdF rest -> pos s <= N ->
  p_info (p_pair (p_comments toks) (p_pair (p_tag toks f) rest)) s = POk s' x ->
  exists t, nth_error toks (sig_at toks (pos s)) = Some t /\ f (tk t) = true /\
    sig_at toks (pos s) < pos s' /\ pos s' <= N /\
    Skips toks sync_full (S (sig_at toks (pos s))) (pos s') /\
    refp s' = refp s /\ ebuf s' = ebuf s /\
    i_s (snd x) = pos s - refp s /\ i_e (snd x) = pos s' - refp s.
Proof.
  intros Fr Hs H. apply p_info_ok in H as (s1 & H & -> & Hinf).
  apply p_pair_ok in H as (s2 & H2 & H). apply p_comments_ok in H2 as [-> _].
  apply p_pair_ok in H as (s3 & H3 & H). apply p_tag_ok in H3 as (Ht & Hf & ->).
  cbn [pos adv set_ebuf] in *. pose proof (sig_at_ge toks (pos s)) as Hge.
  replace (pos s + (sig_at toks (pos s) - pos s)) with (sig_at toks (pos s)) in * by lia.
  rewrite sig_at_idem in *.
  assert (Hlt : sig_at toks (pos s) < N) by (apply nth_error_Some; congruence).
  apply (Fwd_ok _ _ _ _ _ _ Fr) in H; [|cbn [pos adv set_ebuf]; lia].
  destruct H as (M1 & M2 & M3 & M4). cbn [pos adv set_ebuf refp] in *.
  replace (sig_at toks (pos s) + (S (sig_at toks (pos s)) - sig_at toks (pos s))) with (S (sig_at toks (pos s))) in * by lia.
  exists (fst (snd (fst x))). rewrite Hinf. cbn.
  repeat split; try assumption; try lia.
  eapply Skips_sub; [exact M4 | lia | lia].
Qed.
(* [head_at k a b]: the first significant token at or after a is a `k` token, and no proc/type/Eof
   token lies strictly between it and b *)
Definition head_at (k : kind) (a b : nat) : Prop :=
  exists t, nth_error toks (sig_at toks a) = Some t /\ tk t = k /\ sig_at toks a < b /\
            Skips toks sync_full (S (sig_at toks a)) b.

(* what the token span [a, b) of a global declaration looks like *)
Definition decl_span (g : gdecl) (a b : nat) : Prop :=
  match g with
  | GType _ => head_at KType a b
  | GProc _ => head_at KProc a b
  | GError _ => a < b /\ Skips toks sync_full a b /\ la_global toks b = true
  end.

Lemma is_k_eq k x : is_k k x = true -> x = k.
Proof. unfold is_k. apply kind_eqb_eq. Qed.

Lemma gdecl_shape f s s' g :
  pos s <= N -> p_gdecl toks f s = POk s' g ->
  pos s < pos s' /\ pos s' <= N /\ refp s' = refp s /\ ebuf s' = ebuf s /\
  i_s (gdecl_info g) = pos s - refp s /\ i_e (gdecl_info g) = pos s' - refp s /\
  decl_span g (pos s) (pos s').
Proof.
  intros Hs H. pose proof (Prog_gdecl f _ _ _ Hs H) as Hlt. unfold p_gdecl in H.
  apply p_alt_ok in H as [H|[_ H]]; [|apply p_alt_ok in H as [H|[_ H]]].
  - apply p_map_ok in H as (d & H & ->). rewrite p_typedecl_eq in H. apply p_map_ok in H as (x & H & ->).
    apply head_shape in H as (t & Ht & Hf & A1 & A2 & A3 & A4 & A5 & A6 & A7);
      [| apply Fwd_typedecl_rest, sync_full_ok | exact Hs].
    destruct x as [[doc [t0 [name [t1 [ty t2]]]]] inf]. cbn [gdecl_info td_info snd] in *.
    repeat split; try assumption. exists t. apply is_k_eq in Hf. auto.
  - apply p_map_ok in H as (d & H & ->). rewrite p_procdecl_eq in H. apply p_map_ok in H as (x & H & ->).
    apply head_shape in H as (t & Ht & Hf & A1 & A2 & A3 & A4 & A5 & A6 & A7);
      [| apply Fwd_procdecl_rest, sync_full_ok | exact Hs].
    destruct x as [[doc [t0 [name [t1 [params [t2 [t3 [vars [stmts t4]]]]]]]]] inf].
    cbn [gdecl_info pd_info snd] in *.
    repeat split; try assumption. exists t. apply is_k_eq in Hf. auto.
  - apply p_map_ok in H as ([ign inf] & H & ->).
    pose proof (Fwd_ok _ _ _ _ _ _ (Fwd_gerror toks sync_full sync_full_ok) Hs H) as (M1 & M2 & M3 & M4).
    apply p_info_ok in H as (s1 & H & -> & Hinf). cbn [fst snd] in *.
    apply p_ignore1_ok in H as (B1 & B2 & B3 & B4 & B5 & B6).
    cbn [pos set_ebuf refp ebuf gdecl_info info_append i_s i_e] in *. subst inf. cbn [i_s i_e].
    repeat split; try assumption; try reflexivity.
Qed.

Lemma ref_gdecl_shape f s s' g off :
  pos s <= N -> p_ref (p_gdecl toks f) s = POk s' (g, off) ->
  off = pos s - refp s /\ pos s < pos s' /\ pos s' <= N /\ refp s' = refp s /\ ebuf s' = ebuf s /\
  i_s (gdecl_info g) = 0 /\ i_e (gdecl_info g) = pos s' - pos s /\
  decl_span g (pos s) (pos s').
Proof.
  intros Hs H. apply p_ref_ok in H as (s1 & H & -> & Hoff). cbn [fst snd] in *.
  apply gdecl_shape in H as (A1 & A2 & A3 & A4 & A5 & A6 & A7); [|exact Hs].
  cbn [pos set_refp refp ebuf] in *. rewrite Nat.sub_diag in A5.
  repeat split; assumption.
Qed.

End Decl.
