(* C14 - proofs about the hover and signature-help models (Model/Hover.v, Model/SigHelp.v), for ALL
   documents:

   hover
     [hover_inv]          an answer is: the FIRST token whose byte range contains the cursor index is
                          an identifier token of the document, the range is exactly that token's
                          position range, the text is the spl code block of the Display of the entry
                          the context's tables hold under the identifier's spelling (local table of
                          the enclosing procedure first, then the global table; global table only
                          inside a type declaration and in a global position = behind `proc`,
                          `type`, `:`, `of`) followed by the documentation block
     [global_position_spec] what DocumentCursor::is_global_position computes
     [hover_none]         no identifier token contains the index => never an answer
     [hover_total]        under the explicit predicate [cursor_pre] (the declarations' token ranges
                          lie inside the token vector) the handler does not panic
   signature help
     [sighelp_inv]        an answer is: a call statement of the tree (reached through blocks,
                          branches and loops with accumulated offsets) inside the first procedure
                          declaration around the cursor, whose text range contains the cursor index;
                          the callee's spelling denotes a procedure entry of the global table; label =
                          Display of that entry, one parameter label per parameter of the entry,
                          active parameter = [count_commas] of the statement's token slice
     [count_commas_spec]  on a token slice in text order the loop-with-break of get_active_param is
                          the number of Comma tokens that start before the cursor index *)
From Coq Require Import PeanoNat String.
From Spl Require Import Model.Hover Model.SigHelp Model.Fold Proofs.DocProofs Proofs.LexerProofs Proofs.FoldProofs.
Local Open Scope N_scope.

(* ---------------------------------------------------------------------------------------- *)
(* the cursor                                                                                *)

Lemma doc_cursor_inv d line col c :
  doc_cursor d line col = ROk c ->
  c_doc c = d /\ c_index c = get_insertion_index line col (d_text d).
Proof.
  unfold doc_cursor. destruct (find_decl _ _ _) as [g|]; [|discriminate].
  cbn [rbind]. intros [= <-]. split; reflexivity.
Qed.

Lemma cursor_ident_inv c name r :
  cursor_ident c = Some (name, r) ->
  exists t, In t (d_toks (c_doc c)) /\ tk t = Ident name /\ r = (ts t, te t) /\
            ts t <= c_index c /\ c_index c < te t /\
            token_at (d_toks (c_doc c)) (c_index c) = Some t.
Proof.
  unfold cursor_ident. destruct (token_at _ _) as [t|] eqn:E; [|discriminate].
  destruct (tk t) eqn:Ek; try discriminate. intros [= <- <-].
  unfold token_at in E. pose proof (find_some _ _ E) as [Hin Hr].
  unfold in_range in Hr. cbn [fst snd] in Hr. b2p.
  exists t. repeat split; assumption.
Qed.

(* ---------------------------------------------------------------------------------------- *)
(* hover                                                                                     *)

(* what the text of an answer is made of *)
Definition hover_text (e : entry) : text := to_spl (show_entry e) ++ hover_documentation (entry_doc e).

(* DocumentCursor::is_global_position as a function of the token vector and the cursor index *)
Definition global_position_at (toks : list token) (index : N) : bool :=
  gp_scan None toks (fun t => in_range (ts t, te t) index).

Theorem hover_inv d line col v r :
  hover d line col = ROk (Some (v, r)) ->
  let index := get_insertion_index line col (d_text d) in
  exists t name ctx e,
    token_at (d_toks d) index = Some t /\ In t (d_toks d) /\ tk t = Ident name /\
    ts t <= index /\ index < te t /\
    r = (as_position (ts t) (d_text d), as_position (te t) (d_text d)) /\
    hover_entry d ctx (global_position_at (d_toks d) index) name = Some e /\ v = hover_text e.
Proof.
  unfold hover. destruct (doc_cursor d line col) as [c|] eqn:Ec; [|discriminate]. cbn [rbind].
  destruct (doc_cursor_inv _ _ _ _ Ec) as [Hd Hi].
  destruct (cursor_ident c) as [[name tr]|] eqn:Ei; [|discriminate]. cbv zeta.
  destruct (c_ctx c) as [ctx|]; [|discriminate].
  destruct (hover_entry d ctx (is_global_position c) name) as [e|] eqn:Ee; [|discriminate].
  unfold create_hover. intros [= <- <-].
  destruct (cursor_ident_inv _ _ _ Ei) as [t [Hin [Hk [Hr [H1 [H2 Hat]]]]]].
  unfold is_global_position in Ee.
  rewrite Hd, Hi in *. subst tr.
  exists t, name, ctx, e. repeat split; assumption.
Qed.

(* the looked-up entry: which table it comes from.  In a procedure context the local table of the
   context procedure is consulted first, unless the identifier stands in a global position *)
Lemma hover_entry_inv d ctx gp name e :
  hover_entry d ctx gp name = Some e ->
  match ctx with
  | GTypeE _ => exists g, lookup (d_table d) name = Some g /\ e = entry_of_g g
  | GProcE p =>
      (gp = false /\ exists l, lookup (pe_local p) name = Some l /\ e = entry_of_l l)
      \/ ((gp = true \/ lookup (pe_local p) name = None) /\
          exists g, lookup (d_table d) name = Some g /\ e = entry_of_g g)
  end.
Proof.
  unfold hover_entry, lookup_for, lt_lookup. destruct ctx as [te|p].
  - destruct (lookup (d_table d) name) as [g|]; [|discriminate]. intros [= <-]. eauto.
  - destruct gp.
    + destruct (lookup (d_table d) name) as [g|]; [|discriminate]. intros [= <-]. right. eauto.
    + destruct (lookup (pe_local p) name) as [l|].
      * intros [= <-]. left. eauto.
      * destruct (lookup (d_table d) name) as [g|]; [|discriminate]. intros [= <-]. right. eauto.
Qed.

(* in a global position (and in every type declaration) the answer never comes from a local table *)
Lemma hover_entry_global d ctx name :
  hover_entry d ctx true name = option_map entry_of_g (lookup (d_table d) name).
Proof.
  unfold hover_entry, lookup_for, lt_lookup. destruct ctx; destruct (lookup (d_table d) name); reflexivity.
Qed.

(* ---- is_global_position: what the scan computes ---- *)

(* the kind of the last non-comment token of a token list (starting from [prev]) *)
Fixpoint prev_kind_k (prev : option kind) (l : list kind) : option kind :=
  match l with
  | [] => prev
  | k :: r => prev_kind_k (match k with Comment _ => prev | _ => Some k end) r
  end.

Definition prev_kind (prev : option kind) (l : list token) : option kind := prev_kind_k prev (map tk l).

Definition global_kind (k : option kind) : bool :=
  match k with
  | Some KProc | Some KType | Some Colon | Some KOf => true
  | _ => false
  end.

Lemma gp_scan_spec isc : forall pre prev t post,
  forallb (fun x => negb (isc x)) pre = true -> isc t = true ->
  gp_scan prev (pre ++ t :: post) isc = global_kind (prev_kind prev pre).
Proof.
  induction pre as [|x pre IH]; intros prev t post Hpre Ht.
  - unfold prev_kind. cbn [app gp_scan map prev_kind_k]. rewrite Ht. destruct prev as [[]|]; reflexivity.
  - cbn [forallb] in Hpre. apply andb_true_iff in Hpre as [Hx Hpre]. unfold prev_kind in *.
    cbn [app gp_scan map prev_kind_k]. apply negb_true_iff in Hx. rewrite Hx.
    etransitivity; [apply IH; assumption|]. do 2 f_equal. destruct (tk x); reflexivity.
Qed.

Lemma gp_scan_none isc : forall l prev,
  forallb (fun x => negb (isc x)) l = true -> gp_scan prev l isc = false.
Proof.
  induction l as [|x l IH]; intros prev H; [reflexivity|].
  cbn [forallb] in H. apply andb_true_iff in H as [Hx H]. apply negb_true_iff in Hx.
  cbn [gp_scan]. rewrite Hx. now apply IH.
Qed.

(* the token [find] returns splits the list: nothing in front of it satisfies the test *)
Lemma find_split {A} (f : A -> bool) : forall l x,
  find f l = Some x -> exists pre post, l = pre ++ x :: post /\ forallb (fun y => negb (f y)) pre = true /\ f x = true.
Proof.
  induction l as [|y l IH]; intros x H; [discriminate|]. cbn [find] in H. destruct (f y) eqn:E.
  - injection H as <-. exists [], l. auto.
  - destruct (IH _ H) as [pre [post [-> [Hp Hx]]]]. exists (y :: pre), post. cbn [forallb]. rewrite E. auto.
Qed.

(* global position = the last non-comment token in front of the FIRST token under the cursor is
   `proc`, `type`, `:` or `of` *)
Theorem global_position_spec toks index t :
  token_at toks index = Some t ->
  exists pre post, toks = pre ++ t :: post /\
    forallb (fun x => negb (in_range (ts x, te x) index)) pre = true /\
    global_position_at toks index = global_kind (prev_kind None pre).
Proof.
  unfold token_at, global_position_at. intros H.
  destruct (find_split _ _ _ H) as [pre [post [-> [Hp Hx]]]]. exists pre, post.
  repeat split; [exact Hp|]. now apply gp_scan_spec.
Qed.

Theorem hover_none d line col :
  (forall t name, In t (d_toks d) -> tk t = Ident name ->
     in_range (ts t, te t) (get_insertion_index line col (d_text d)) = false) ->
  forall x, hover d line col <> ROk (Some x).
Proof.
  intros H [v r] Hh. destruct (hover_inv _ _ _ _ _ Hh) as [t [name [ctx [e [_ [Hin [Hk [H1 [H2 _]]]]]]]]]. cbv zeta in *.
  specialize (H t name Hin Hk). unfold in_range in H. cbn [fst snd] in H. b2p; lia.
Qed.

(* the first token under the cursor is not an identifier (keyword, literal, comment, ...) or there
   is none (white space, end of the text) => no answer *)
Theorem hover_none_first d line col :
  (forall t, token_at (d_toks d) (get_insertion_index line col (d_text d)) = Some t ->
             forall name, tk t <> Ident name) ->
  forall x, hover d line col <> ROk (Some x).
Proof.
  intros H [v r] Hh. destruct (hover_inv _ _ _ _ _ Hh) as [t [name [ctx [e [Hat [_ [Hk _]]]]]]].
  exact (H t Hat name Hk).
Qed.

(* ---- robustness ---- *)

Lemma info_text_range_ok sl i :
  (if Nat.ltb (i_s i) (i_e i) then Nat.leb (i_e i) (length sl) else Nat.ltb (i_e i) (length sl)) = true ->
  exists r, info_text_range sl i = ROk r.
Proof.
  unfold info_text_range, byte_range. cbn [e_s e_e e_m].
  destruct (Nat.ltb_spec (i_s i) (i_e i)) as [Hlt|Hge]; intros H.
  - apply Nat.leb_le in H. destruct (Nat.ltb_spec (length sl) (i_e i)); [lia|].
    set (x := firstn (i_e i - i_s i) (skipn (i_s i) sl)).
    assert (Hx : length x = (i_e i - i_s i)%nat).
    { unfold x. rewrite firstn_length, skipn_length. lia. }
    destruct x as [|f x'] eqn:Ex; [cbn in Hx; lia|]. cbn [hd_error].
    destruct (rev (f :: x')) as [|l rx] eqn:Er.
    { apply (f_equal (@length _)) in Er. rewrite rev_length in Er. discriminate. }
    cbn [hd_error rbind fst snd]. eauto.
  - apply Nat.ltb_lt in H. destruct (nth_error sl (i_e i)) eqn:En.
    + cbn [rbind fst snd]. eauto.
    + apply nth_error_None in En. lia.
Qed.

Lemma find_decl_total toks index : forall l,
  forallb (decl_ok (length toks)) l = true -> exists r, find_decl toks index l = ROk r.
Proof.
  induction l as [|[g off] l IH]; intros H; [eexists; reflexivity|].
  cbn [forallb] in H. apply andb_true_iff in H as [H1 H2]. specialize (IH H2).
  unfold decl_ok in H1. cbn [fst snd] in H1. apply andb_true_iff in H1 as [Hoff Hr].
  apply Nat.leb_le in Hoff.
  cbn [find_decl]. unfold slice_from. destruct (Nat.ltb_spec (length toks) off); [lia|]. cbn [rbind].
  destruct (info_text_range_ok (skipn off toks) (gdecl_info g)) as [r Hr'].
  { rewrite skipn_length. destruct (Nat.ltb (i_s _) (i_e _)).
    - apply Nat.leb_le in Hr. apply Nat.leb_le. lia.
    - apply Nat.ltb_lt in Hr. apply Nat.ltb_lt. lia. }
  rewrite Hr'. cbn [rbind]. destruct (in_range r index); [eexists; reflexivity | exact IH].
Qed.

Theorem hover_total d line col :
  cursor_pre d = true -> exists r, hover d line col = ROk r.
Proof.
  intros H. unfold hover, doc_cursor.
  destruct (find_decl_total (d_toks d) (get_insertion_index line col (d_text d)) _ H) as [g Hg].
  rewrite Hg. cbn [rbind].
  match goal with |- context [cursor_ident ?c] => destruct (cursor_ident c) as [[name r]|] end; [|eauto].
  cbv zeta. cbn [c_ctx]. destruct (match g with Some _ => _ | None => _ end) as [ctx|]; [|eauto].
  match goal with |- context [hover_entry d ctx ?gp name] => destruct (hover_entry d ctx gp name) end; eauto.
Qed.

(* ---------------------------------------------------------------------------------------- *)
(* signature help                                                                            *)

(* every call statement below a statement, with the accumulated Reference offsets, in the order
   find_call_stmt_in_stmt visits them *)
Fixpoint calls_of_stmt (s : stmt) (offset : nat) : list call_hit :=
  let of_opt (o : option (stmt * nat)) : list call_hit :=
    match o with Some (x, off) => calls_of_stmt x (offset + off) | None => [] end in
  match s with
  | SBlock body _ =>
      (fix go (l : list (stmt * nat)) : list call_hit :=
         match l with [] => [] | (x, off) :: r => calls_of_stmt x (offset + off) ++ go r end) body
  | SIf _ t e _ => of_opt t ++ of_opt e
  | SWhile _ b _ => of_opt b
  | SCall name _ inf => [(name, inf, offset)]
  | _ => []
  end.

Fixpoint calls_of_stmts (l : list (stmt * nat)) (offset : nat) : list call_hit :=
  match l with [] => [] | (x, off) :: r => calls_of_stmt x (offset + off) ++ calls_of_stmts r offset end.

(* the cursor index lies in the text range of the call statement *)
Definition call_contains (toks : list token) (index : N) (h : call_hit) : Prop :=
  let '(_, inf, offset) := h in
  exists sl tr, slice_from toks offset = ROk sl /\ info_text_range sl inf = ROk tr /\ in_range tr index = true.

Lemma find_call_in_stmt_inv toks index : forall s offset h,
  find_call_in_stmt toks index s offset = ROk (Some h) ->
  In h (calls_of_stmt s offset) /\ call_contains toks index h.
Proof.
  fix IH 1. intros s offset h H. destruct s as [inf | v e inf | name args inf | c t e inf | c b inf | body inf | inf];
    cbn [find_call_in_stmt calls_of_stmt] in *; try discriminate.
  - (* call *)
    destruct (slice_from toks offset) as [sl|] eqn:Es; [|discriminate]. cbn [rbind] in H.
    destruct (info_text_range sl inf) as [tr|] eqn:Et; [|discriminate]. cbn [rbind] in H.
    destruct (in_range tr index) eqn:Ei; [|discriminate]. injection H as <-.
    split; [now left|]. cbn. exists sl, tr. auto.
  - (* if *)
    destruct t as [[x off]|].
    + destruct (find_call_in_stmt toks index x (offset + off)) as [[h1|]|] eqn:E1; cbn [rbind] in H; try discriminate.
      * injection H as <-. destruct (IH _ _ _ E1). split; [apply in_or_app; now left | assumption].
      * destruct e as [[y off2]|]; [|discriminate].
        destruct (IH _ _ _ H). split; [apply in_or_app; now right | assumption].
    + cbn [rbind] in H. destruct e as [[y off2]|]; [|discriminate].
      destruct (IH _ _ _ H). split; [assumption | assumption].
  - (* while *)
    destruct b as [[x off]|]; [|discriminate]. exact (IH _ _ _ H).
  - (* block *)
    revert H. induction body as [|[x off] r IHr]; intros H; [discriminate|].
    destruct (find_call_in_stmt toks index x (offset + off)) as [[h1|]|] eqn:E1; cbn [rbind] in H; try discriminate.
    + injection H as <-. destruct (IH _ _ _ E1). split; [apply in_or_app; now left | assumption].
    + destruct (IHr H). split; [apply in_or_app; now right | assumption].
Qed.

Lemma find_call_in_stmts_inv toks index : forall l offset h,
  find_call_in_stmts toks index l offset = ROk (Some h) ->
  In h (calls_of_stmts l offset) /\ call_contains toks index h.
Proof.
  induction l as [|[x off] r IH]; intros offset h H; [discriminate|].
  cbn [find_call_in_stmts calls_of_stmts] in *.
  destruct (find_call_in_stmt toks index x (offset + off)) as [[h1|]|] eqn:E1; cbn [rbind] in H; try discriminate.
  - injection H as <-. destruct (find_call_in_stmt_inv _ _ _ _ _ E1). split; [apply in_or_app; now left | assumption].
  - destruct (IH _ _ H). split; [apply in_or_app; now right | assumption].
Qed.

Lemma find_proc_inv toks index : forall l pd off,
  find_proc toks index l = ROk (Some (pd, off)) ->
  In (GProc pd, off) l /\
  exists sl tr, slice_from toks off = ROk sl /\ info_text_range sl (pd_info pd) = ROk tr /\ in_range tr index = true.
Proof.
  induction l as [|[g o] l IH]; intros pd off H; [discriminate|].
  cbn [find_proc] in H. destruct g as [td | p | inf]; try (destruct (IH _ _ H); split; [now right | assumption]).
  destruct (slice_from toks o) as [sl|] eqn:Es; [|discriminate]. cbn [rbind] in H.
  destruct (info_text_range sl (pd_info p)) as [tr|] eqn:Et; [|discriminate]. cbn [rbind] in H.
  destruct (in_range tr index) eqn:Ei.
  - injection H as <- <-. split; [now left|]. exists sl, tr. auto.
  - destruct (IH _ _ H). split; [now right | assumption].
Qed.

Definition active_of (params : list ventry) (sl : list token) (index : N) : option N :=
  match params with [] => None | _ :: _ => Some (count_commas sl index 0) end.

Theorem sighelp_inv d line col h :
  signature_help d line col = ROk (Some h) ->
  let index := get_insertion_index line col (d_text d) in
  exists pd pd_off name inf off pe sl,
    In (GProc pd, pd_off) (pg_decls (d_ast d)) /\
    In (name, inf, off) (calls_of_stmts (pd_stmts pd) pd_off) /\
    call_contains (d_toks d) index (name, inf, off) /\
    lookup (d_table d) (id_val name) = Some (GProcE pe) /\
    slice (d_toks d) (shift_range (info_range inf) off) = ROk sl /\
    sh_label h = show_pentry pe /\
    sh_doc h = sig_documentation (pe_doc pe) /\
    sh_params h = map show_ventry (pe_params pe) /\
    sh_active h = active_of (pe_params pe) sl index.
Proof.
  unfold signature_help. destruct (doc_cursor d line col) as [c|] eqn:Ec; [|discriminate]. cbn [rbind].
  destruct (doc_cursor_inv _ _ _ _ Ec) as [_ Hi]. rewrite Hi.
  set (index := get_insertion_index line col (d_text d)).
  destruct (find_proc _ _ _) as [[[pd pd_off]|]|] eqn:Ep; cbn [rbind]; try discriminate.
  destruct (find_call_in_stmts _ _ _ _) as [[[[name inf] off]|]|] eqn:Eh; cbn [rbind]; try discriminate.
  destruct (lookup (d_table d) (id_val name)) as [[te|pe]|] eqn:El; try discriminate.
  destruct (slice _ _) as [sl|] eqn:Es; [|discriminate]. cbn [rbind]. intros [= <-].
  destruct (find_proc_inv _ _ _ _ _ Ep) as [Hin _].
  destruct (find_call_in_stmts_inv _ _ _ _ _ Eh) as [Hc Hcc].
  exists pd, pd_off, name, inf, off, pe, sl. cbn [sh_label sh_doc sh_params sh_active].
  repeat split; try assumption.
  unfold get_active_param, active_of. destruct (pe_params pe); reflexivity.
Qed.

(* one parameter entry per parameter of the callee's entry *)
Corollary sighelp_param_count d line col h :
  signature_help d line col = ROk (Some h) ->
  exists name pe, lookup (d_table d) (id_val name) = Some (GProcE pe) /\
                  length (sh_params h) = length (pe_params pe).
Proof.
  intros H. destruct (sighelp_inv _ _ _ _ H) as [pd [po [name [inf [off [pe [sl [_ [_ [_ [Hl [_ [_ [_ [Hp _]]]]]]]]]]]]]]].
  exists name, pe. split; [exact Hl|]. now rewrite Hp, map_length.
Qed.

(* ---- the active parameter: commas in front of the cursor ---- *)

Definition is_comma (t : token) : bool := match tk t with Comma => true | _ => false end.

Definition commas_before (sl : list token) (index : N) : N :=
  N.of_nat (length (filter (fun t => is_comma t && (ts t <? index)) sl)).

Lemma sorted_starts t r : toks_sorted (t :: r) = true -> forall b, In b r -> ts t <= ts b.
Proof.
  intros H b Hb. apply In_nth_error in Hb as [j Hj].
  pose proof (sorted_head_le r t j b H Hj). pose proof (toks_sorted_head _ _ H). lia.
Qed.

Lemma filter_none {A} (f : A -> bool) l : (forall x, In x l -> f x = false) -> filter f l = [].
Proof.
  induction l as [|x l IH]; intros H; [reflexivity|]. cbn [filter].
  rewrite (H x (or_introl eq_refl)). apply IH. intros y Hy. apply H. now right.
Qed.

Lemma count_commas_gen : forall sl index acc,
  toks_sorted sl = true ->
  count_commas sl index acc = acc + commas_before sl index.
Proof.
  unfold commas_before. induction sl as [|t r IH]; intros index acc H; [cbn; lia|].
  cbn [count_commas].
  destruct (index <=? ts t) eqn:E.
  - (* break: no later token starts before the index either *)
    apply N.leb_le in E. rewrite filter_none; [cbn; lia|].
    intros x [<-|Hx].
    + destruct (ts t <? index) eqn:E2; [apply N.ltb_lt in E2; lia | apply andb_false_r].
    + pose proof (sorted_starts _ _ H x Hx).
      destruct (ts x <? index) eqn:E2; [apply N.ltb_lt in E2; lia | apply andb_false_r].
  - apply N.leb_gt in E.
    assert (Hc : (match tk t with Comma => acc + 1 | _ => acc end) = (if is_comma t then acc + 1 else acc))
      by (unfold is_comma; destruct (tk t); reflexivity).
    rewrite Hc, (IH index _ (toks_sorted_tail _ _ H)). cbn [filter].
    apply N.ltb_lt in E. rewrite E, andb_true_r.
    destruct (is_comma t); cbn [length]; lia.
Qed.

Theorem count_commas_spec sl index :
  toks_sorted sl = true -> count_commas sl index 0 = commas_before sl index.
Proof. intros H. now rewrite count_commas_gen. Qed.

(* slices of a token vector in text order are in text order *)
Lemma toks_sorted_skipn : forall a l, toks_sorted l = true -> toks_sorted (skipn a l) = true.
Proof.
  induction a as [|a IH]; intros l H; [exact H|]. destruct l as [|x l]; [reflexivity|].
  cbn [skipn]. apply IH. eapply toks_sorted_tail; eauto.
Qed.

Lemma toks_sorted_firstn : forall n l, toks_sorted l = true -> toks_sorted (firstn n l) = true.
Proof.
  induction n as [|n IH]; intros l H; [reflexivity|]. destruct l as [|x l]; [reflexivity|].
  cbn [firstn]. pose proof (IH l (toks_sorted_tail _ _ H)) as Ht.
  cbn [toks_sorted] in *. rewrite Ht, andb_true_r.
  apply andb_true_iff in H as [H _]. apply andb_true_iff in H as [H1 H2].
  rewrite H1. cbn [andb]. destruct n as [|n]; [reflexivity|]. destruct l as [|y l]; [reflexivity|]. exact H2.
Qed.

Lemma slice_sorted toks r sl : toks_sorted toks = true -> slice toks r = ROk sl -> toks_sorted sl = true.
Proof.
  unfold slice. intros H. destruct (Nat.ltb _ _); [discriminate|]. destruct (Nat.ltb _ _); [discriminate|].
  intros [= <-]. now apply toks_sorted_firstn, toks_sorted_skipn.
Qed.

(* for documents whose tokens are in text order - in particular every document built by
   AnalyzedSource::new - the active parameter is the number of commas of the call statement that
   start in front of the cursor; None exactly when the callee has no parameters *)
Theorem sighelp_active d line col h :
  toks_sorted (d_toks d) = true ->
  signature_help d line col = ROk (Some h) ->
  exists name inf off pe sl,
    lookup (d_table d) (id_val name) = Some (GProcE pe) /\
    slice (d_toks d) (shift_range (info_range inf) off) = ROk sl /\
    sh_active h = match pe_params pe with
                  | [] => None
                  | _ :: _ => Some (commas_before sl (get_insertion_index line col (d_text d)))
                  end.
Proof.
  intros Hs H. destruct (sighelp_inv _ _ _ _ H) as [pd [po [name [inf [off [pe [sl [_ [_ [_ [Hl [Hsl [_ [_ [_ Ha]]]]]]]]]]]]]]].
  exists name, inf, off, pe, sl. repeat split; try assumption.
  rewrite Ha. unfold active_of. destruct (pe_params pe); [reflexivity|].
  now rewrite (count_commas_spec _ _ (slice_sorted _ _ _ Hs Hsl)).
Qed.

Theorem sighelp_active_new_doc t d line col h :
  new_doc_res t = ODone d ->
  signature_help d line col = ROk (Some h) ->
  exists name inf off pe sl,
    lookup (d_table d) (id_val name) = Some (GProcE pe) /\
    slice (d_toks d) (shift_range (info_range inf) off) = ROk sl /\
    sh_active h = match pe_params pe with
                  | [] => None
                  | _ :: _ => Some (commas_before sl (get_insertion_index line col t))
                  end.
Proof.
  intros Hd H. destruct (new_doc_toks t d Hd) as [Ht Hl]. rewrite <- Ht.
  apply sighelp_active; [|exact H].
  exact (ordered_sorted 0 _ (tiles_ordered 0 t _ (lex_tiles t _ Hl))).
Qed.

(* ---------------------------------------------------------------------------------------- *)
(* the FULL property, stated over the tree and the tables of a document without diagnostics  *)

(* SPL scoping by syntactic role: the name of a type or procedure declaration, a type name inside
   a type expression and the callee of a call statement denote GLOBAL entities; the name of a
   parameter / variable declaration and a variable inside a statement are resolved in the
   enclosing procedure's local table first, then globally. *)
Inductive occ_scope := ScGlobal | ScLocal.

Definition occ := (nat * text * occ_scope)%type.   (* absolute index of the identifier TOKEN, spelling, scope *)

(* Identifier::to_text_range: the identifier token is the last token of the identifier's range *)
Definition id_tok (off : nat) (i : ident) : nat := (off + i_e (id_info i) - 1)%nat.

Fixpoint occs_var (off : nat) (v : variable) : list occ :=
  match v with
  | NamedVar i => [(id_tok off i, id_val i, ScLocal)]
  | ArrAccess a idx _ =>
      occs_var off a ++ match idx with Some (e, o) => occs_expr (off + o) e | None => [] end
  end
with occs_expr (off : nat) (e : expr) : list occ :=
  match e with
  | EBin _ l r _ => occs_expr off l ++ occs_expr off r
  | EBrack a _ => occs_expr off a
  | EUn _ a _ => occs_expr off a
  | EVar v => occs_var off v
  | EInt _ => []
  | EErr _ => []
  end.

Fixpoint occs_texpr (off : nat) (t : typeexpr) : list occ :=
  match t with
  | TNamed i => [(id_tok off i, id_val i, ScGlobal)]
  | TArray _ base _ => match base with Some (b, o) => occs_texpr (off + o) b | None => [] end
  end.

Definition occs_opt_expr (off : nat) (e : option (expr * nat)) : list occ :=
  match e with Some (x, o) => occs_expr (off + o) x | None => [] end.
Definition occs_opt_texpr (off : nat) (t : option (typeexpr * nat)) : list occ :=
  match t with Some (x, o) => occs_texpr (off + o) x | None => [] end.
Definition occs_name (off : nat) (sc : occ_scope) (n : option ident) : list occ :=
  match n with Some i => [(id_tok off i, id_val i, sc)] | None => [] end.

Fixpoint occs_stmt (off : nat) (s : stmt) : list occ :=
  let opt (r : option (stmt * nat)) : list occ :=
    match r with Some (x, o) => occs_stmt (off + o) x | None => [] end in
  match s with
  | SEmpty _ => []
  | SError _ => []
  | SAssign v e _ => occs_var off v ++ occs_opt_expr off e
  | SCall name args _ =>
      (id_tok off name, id_val name, ScGlobal) :: flat_map (fun a => occs_expr (off + snd a) (fst a)) args
  | SIf c t e _ => occs_opt_expr off c ++ opt t ++ opt e
  | SWhile c b _ => occs_opt_expr off c ++ opt b
  | SBlock body _ =>
      (fix go (l : list (stmt * nat)) : list occ :=
         match l with [] => [] | (x, o) :: r => occs_stmt (off + o) x ++ go r end) body
  end.

Definition occs_vardecl (off : nat) (v : vardecl) : list occ :=
  match v with
  | VValid _ name ty _ => occs_name off ScLocal name ++ occs_opt_texpr off ty
  | VError _ => []
  end.
Definition occs_paramdecl (off : nat) (p : paramdecl) : list occ :=
  match p with
  | PValid _ _ name ty _ => occs_name off ScLocal name ++ occs_opt_texpr off ty
  | PError _ => []
  end.

(* (name of the enclosing declaration, occurrence) *)
Definition occs_gdecl (off : nat) (g : gdecl) : list (option text * occ) :=
  match g with
  | GType td =>
      map (pair (option_map id_val (td_name td)))
          (occs_name off ScGlobal (td_name td) ++ occs_opt_texpr off (td_ty td))
  | GProc pd =>
      map (pair (option_map id_val (pd_name pd)))
          (occs_name off ScGlobal (pd_name pd)
           ++ flat_map (fun x => occs_paramdecl (off + snd x) (fst x)) (pd_params pd)
           ++ flat_map (fun x => occs_vardecl (off + snd x) (fst x)) (pd_vars pd)
           ++ flat_map (fun x => occs_stmt (off + snd x) (fst x)) (pd_stmts pd))
  | GError _ => []
  end.

Definition program_occs (p : program) : list (option text * occ) :=
  flat_map (fun x => occs_gdecl (snd x) (fst x)) (pg_decls p).

(* the entry an occurrence is bound to *)
Definition binding (d : doc) (owner : option text) (sc : occ_scope) (x : text) : option entry :=
  match sc with
  | ScGlobal => option_map entry_of_g (lookup (d_table d) x)
  | ScLocal =>
      match owner with
      | Some p => match lookup (d_table d) p with
                  | Some (GProcE pe) => lt_lookup (Some (pe_local pe)) (Some (d_table d)) x
                  | _ => None
                  end
      | None => None
      end
  end.

(* a valid program: no lexical, syntactic, table or semantic diagnostic *)
Definition no_diagnostics (d : doc) : Prop :=
  doc_errors_res d = ROk [] /\ Forall (fun t => terr t = []) (d_toks d).

(* hover at every column of every identifier occurrence of a valid program = the signature of the
   entry the occurrence is bound to + the entry's documentation (the doc comments of its
   declaration, as table construction recorded them), over exactly the identifier token's range *)
Definition hover_full_statement : Prop :=
  forall (t : text) (d : doc), new_doc_res t = ODone d -> no_diagnostics d ->
  forall owner k x sc, In (owner, (k, x, sc)) (program_occs (d_ast d)) ->
  forall tok line col, nth_error (d_toks d) k = Some tok ->
    ts tok <= get_insertion_index line col t -> get_insertion_index line col t < te tok ->
    exists e, binding d owner sc x = Some e /\
      hover d line col = ROk (Some (hover_text e, (as_position (ts tok) t, as_position (te tok) t))).

(* signature help at every cursor index between the parentheses of every call statement of a valid
   program: [lp] is the first `(` of the statement's token slice (the one after the callee name),
   [rp] its last `)` *)
Definition is_kind (k : kind) (t : token) : bool := kind_eqb (tk t) k.

Definition sighelp_full_statement : Prop :=
  forall (t : text) (d : doc), new_doc_res t = ODone d -> no_diagnostics d ->
  forall pd pd_off name inf off sl lp rp,
    In (GProc pd, pd_off) (pg_decls (d_ast d)) ->
    In (name, inf, off) (calls_of_stmts (pd_stmts pd) pd_off) ->
    slice (d_toks d) (shift_range (info_range inf) off) = ROk sl ->
    find (is_kind LParen) sl = Some lp -> find (is_kind RParen) (rev sl) = Some rp ->
  forall line col, te lp <= get_insertion_index line col t -> get_insertion_index line col t <= ts rp ->
    exists pe, lookup (d_table d) (id_val name) = Some (GProcE pe) /\
      signature_help d line col =
        ROk (Some {| sh_label := show_pentry pe; sh_doc := sig_documentation (pe_doc pe);
                     sh_params := map show_ventry (pe_params pe);
                     sh_active := match pe_params pe with
                                  | [] => None
                                  | _ :: _ => Some (commas_before sl (get_insertion_index line col t))
                                  end |}).

