(* C03 - syntax faults inside expressions: the parser.  GrammarExpr.v once more over the zipper of SynFaultsE.v: at the
   leaf `expect(])` / `expect())` fails on the token behind the gap (which is not that token and cannot continue the
   expression in front of it), inside the `info` of the index / the parenthesis, which takes the error and hides it from
   everything around - so around the leaf everything is as for valid expressions, one token further left. *)
From Coq Require Import List Lia Arith Bool.
From Spl Require Import Spec.Grammar Model.Parser Proofs.GrammarBase Proofs.GrammarExpr.
From Spl Require Import Proofs.SynFaultsE.
Import ListNotations.
Local Open Scope nat_scope.

Notation fx_var := (fxg_var e_real).
Notation fx_fac := (fxg_fac e_real).
Notation fx_mul := (fxg_mul e_real).
Notation fx_add := (fxg_add e_real).
Notation fx_cmp := (fxg_cmp e_real).

Ltac eteq :=
  lazymatch goal with
  | |- @eq nat _ _ => elens; lia
  | |- _ => first [reflexivity | progress f_equal; eteq | idtac]
  end.

(* behind the gap: not the missing token, and nothing that continues an expression *)
Definition gapfolE (k kd : kind) : bool := fol_cmp kd && negb (is_k k kd).
Definition gapE (k : kind) (l : list kind) : Prop := fol (gapfolE k) l.

Lemma stops_expr_cmp kd : stops_expr kd = fol_cmp kd.
Proof. reflexivity. Qed.

Lemma gapE_cmp k l : gapE k l -> fol fol_cmp l.
Proof. apply fol_weaken. intros kd H. unfold gapfolE in H. apply andb_prop in H. tauto. Qed.

Lemma fol_next P l : fol P l -> exists kd, next_sig l = Some kd /\ sig kd = true /\ P kd = true.
Proof.
  intros (c & kd & rest & -> & Hs & HP). exists kd. split; [|auto].
  induction c as [|x c IH]; cbn [cm map app next_sig]; [|exact IH]. destruct kd; try reflexivity; discriminate.
Qed.

(* from the boolean condition, given that something stands behind the gap at all *)
Lemma gap_open_E k l : (k = Semic \/ k = RParen \/ k = RBracket) -> fol (fun _ => true) l -> gap_open k l = true -> gapE k l.
Proof.
  intros Hk Hf Hg. destruct (fol_next _ _ Hf) as (kd & Hn & _ & _). destruct Hf as (c & kd' & rest & -> & Hs & _).
  assert (kd' = kd).
  { clear - Hn Hs. induction c as [|x c IH]; cbn [cm map app next_sig] in Hn; [|exact (IH Hn)]. destruct kd'; try discriminate; congruence. }
  subst kd'. exists c, kd, rest. split; [reflexivity|]. split; [exact Hs|].
  unfold gap_open in Hg. rewrite Hn in Hg. apply andb_prop in Hg. destruct Hg as [Hne Hst]. unfold gapfolE, is_k.
  rewrite Hne, andb_true_r. destruct Hk as [-> | [-> | ->]]; exact Hst.
Qed.

(* ---- the left spine ---- *)
Fixpoint fvar_c (v : fvar) : cs := match v with VIdxC v _ _ | VIdx v _ _ _ => var_c v | VArr v _ _ _ => fvar_c v end.
Fixpoint fvar_x (v : fvar) : text := match v with VIdxC v _ _ | VIdx v _ _ _ => var_x v | VArr v _ _ _ => fvar_x v end.
Fixpoint fvar_tl (v : fvar) : list kind :=
  match v with
  | VIdxC v c1 e => var_tl v ++ cm c1 ++ LBracket :: fl_cmp e
  | VArr v c1 e c2 => fvar_tl v ++ cm c1 ++ LBracket :: fl_cmp e ++ cm c2 ++ [RBracket]
  | VIdx v c1 e c2 => var_tl v ++ cm c1 ++ LBracket :: ffl_cmp e ++ cm c2 ++ [RBracket]
  end.

Lemma ffl_var_head v : ffl_var v = cm (fvar_c v) ++ Ident (fvar_x v) :: fvar_tl v.
Proof.
  induction v as [v c1 e|v IH c1 e c2|v c1 e c2]; cbn [ffl_var fvar_c fvar_x fvar_tl];
    rewrite ?IH, ?fl_var_head, <- ?app_assoc; reflexivity.
Qed.

Lemma fhead_fac f : headed (ffl_fac f).
Proof.
  induction f as [v|c f IH|c1 e|c1 e c2]; cbn [ffl_fac].
  - rewrite ffl_var_head. now exists (fvar_c v), (Ident (fvar_x v)), (fvar_tl v).
  - now exists c, Minus, (ffl_fac f).
  - now exists c1, LParen, (fl_cmp e).
  - now exists c1, LParen, (ffl_cmp e ++ cm c2 ++ [RParen]).
Qed.
Lemma fhead_mul m : headed (ffl_mul m).
Proof. induction m; cbn [ffl_mul]; [apply fhead_fac | now apply headed_app | apply headed_app, head_mul]. Qed.
Lemma fhead_add a : headed (ffl_add a).
Proof. induction a; cbn [ffl_add]; [apply fhead_mul | now apply headed_app | apply headed_app, head_add]. Qed.
Lemma fhead_cmp e : headed (ffl_cmp e).
Proof. destruct e; cbn [ffl_cmp]; [apply fhead_add | apply headed_app, fhead_add | apply headed_app, head_add]. Qed.

(* ---- array accesses as seen by many0 ---- *)
Fixpoint fx_accs (o : nat) (v : fvar) : list (option (expr * nat) * info) :=
  match v with
  | VIdxC v' c1 e =>
      x_accs o v' ++ [(Some (x_cmp 0 e, o + len (fl_var v') + len c1 + 1),
                       {| i_s := o + len (fl_var v'); i_e := o + len (ffl_var v);
                          i_errs := e_real (msg_of_kind RBracket) (o + gap_var v) |})]
  | VArr v' c1 e c2 =>
      fx_accs o v' ++ [(Some (x_cmp 0 e, o + len (ffl_var v') + len c1 + 1), mkinfo (o + len (ffl_var v')) (o + len (ffl_var v)))]
  | VIdx v' c1 e c2 =>
      x_accs o v' ++ [(Some (fx_cmp 0 e, o + len (fl_var v') + len c1 + 1), mkinfo (o + len (fl_var v')) (o + len (ffl_var v)))]
  end.

Lemma ffl_var_len v : len (fvar_c v) + 1 <= len (ffl_var v).
Proof. rewrite ffl_var_head. rewrite app_length, cm_len. cbn [length]. lia. Qed.

Lemma ffold_accs o v :
  fold_left (fun w a => ArrAccess w (fst a) (extend_range (snd a) (mkinfo o (o + len (fvar_c v) + 1))))
    (fx_accs o v) (NamedVar (x_ident o (fvar_c v) (fvar_x v))) = fx_var o v.
Proof.
  induction v as [v c1 e|v IH c1 e c2|v c1 e c2]; cbn [fx_accs fvar_c fvar_x fxg_var]; rewrite fold_left_app.
  - rewrite fold_accs. cbn [fold_left fst snd]. f_equal.
    unfold extend_range, einfo, mkinfo; cbn [i_s i_e i_errs].
    pose proof (fl_var_len v). assert (len (fl_var v) <= len (ffl_var (VIdxC v c1 e))) by (elens; lia).
    f_equal; lia.
  - rewrite IH. cbn [fold_left fst snd]. f_equal.
    unfold extend_range, mkinfo; cbn [i_s i_e i_errs].
    pose proof (ffl_var_len v). assert (len (ffl_var v) <= len (ffl_var (VArr v c1 e c2))) by (elens; lia).
    f_equal; lia.
  - rewrite fold_accs. cbn [fold_left fst snd]. f_equal.
    unfold extend_range, mkinfo; cbn [i_s i_e i_errs].
    pose proof (fl_var_len v). assert (len (fl_var v) <= len (ffl_var (VIdx v c1 e c2))) by (elens; lia).
    f_equal; lia.
Qed.

Section FExpr.
Variable toks : list token.
Notation at_ := (at_ toks).

(* ---- statements of the mutual induction ---- *)
Definition FVarSteps (v : fvar) : Prop :=
  forall k r rest f, r <= k -> 6 * len (ffl_var v) + 6 <= f -> at_ k (ffl_var v ++ rest) -> gapE (gk_var v) (after_var v rest) ->
  exists items, map acc_proj items = fx_accs (k - r) v /\
    steps (acc_p toks f) (mk (k + len (fvar_c v) + 1) r) items (mk (k + len (ffl_var v)) r).

Definition FVarOK (v : fvar) : Prop :=
  forall k r rest fuel, r <= k -> 6 * len (ffl_var v) + 7 <= fuel -> at_ k (ffl_var v ++ rest) -> fol nolb rest ->
  gapE (gk_var v) (after_var v rest) ->
  p_variable toks fuel (mk k r) = POk (mk (k + len (ffl_var v)) r) (fx_var (k - r) v).

Definition FFacOK (f : ffac) : Prop :=
  forall k r rest fuel, r <= k -> 6 * len (ffl_fac f) + 9 <= fuel -> at_ k (ffl_fac f ++ rest) -> fol nolb rest ->
  gapE (gk_fac f) (after_fac f rest) ->
  p_factor toks fuel (mk k r) = POk (mk (k + len (ffl_fac f)) r) (fx_fac (k - r) f).

Fixpoint fiters_mul (m : fmul) : nat := match m with MuFac _ => 0 | MuL m _ _ _ => S (fiters_mul m) | MuR m _ _ _ => S (iters_mul m) end.
Fixpoint fiters_add (a : fadd) : nat := match a with AdMul _ => 0 | AdL a _ _ _ => S (fiters_add a) | AdR a _ _ _ => S (iters_add a) end.

Definition FMulChain (m : fmul) : Prop :=
  forall k r rest f, r <= k -> 6 * len (ffl_mul m) + 9 <= f -> at_ k (ffl_mul m ++ rest) -> fol nolb rest ->
  gapE (gk_mul m) (after_mul m rest) ->
  bind (p_factor toks f (mk k r)) (fun s1 e => mul_loop toks f s1 e) =
  mul_loop toks (f - fiters_mul m) (mk (k + len (ffl_mul m)) r) (fx_mul (k - r) m).

Definition FMulOK (m : fmul) : Prop :=
  forall k r rest fuel, r <= k -> 6 * len (ffl_mul m) + 10 <= fuel -> at_ k (ffl_mul m ++ rest) -> fol fol_mul rest ->
  gapE (gk_mul m) (after_mul m rest) ->
  p_mul toks fuel (mk k r) = POk (mk (k + len (ffl_mul m)) r) (fx_mul (k - r) m).

Definition FAddChain (a : fadd) : Prop :=
  forall k r rest f, r <= k -> 6 * len (ffl_add a) + 10 <= f -> at_ k (ffl_add a ++ rest) -> fol fol_mul rest ->
  gapE (gk_add a) (after_add a rest) ->
  bind (p_mul toks f (mk k r)) (fun s1 e => add_loop toks f s1 e) =
  add_loop toks (f - fiters_add a) (mk (k + len (ffl_add a)) r) (fx_add (k - r) a).

Definition FAddOK (a : fadd) : Prop :=
  forall k r rest fuel, r <= k -> 6 * len (ffl_add a) + 11 <= fuel -> at_ k (ffl_add a ++ rest) -> fol fol_add rest ->
  gapE (gk_add a) (after_add a rest) ->
  p_add toks fuel (mk k r) = POk (mk (k + len (ffl_add a)) r) (fx_add (k - r) a).

Definition FCmpOK (e : fcmp) : Prop :=
  forall k r rest fuel, r <= k -> 6 * len (ffl_cmp e) + 12 <= fuel -> at_ k (ffl_cmp e ++ rest) -> fol fol_cmp rest ->
  gapE (gk_cmp e) (after_cmp e rest) ->
  p_comparison toks fuel (mk k r) = POk (mk (k + len (ffl_cmp e)) r) (fx_cmp (k - r) e).

(* ---- variables ---- *)
(* the index whose `]` is missing *)
Lemma facc_close e k r c1 rest f : r <= k -> 6 * len (fl_cmp e) + 6 <= f ->
  at_ k (cm c1 ++ LBracket :: fl_cmp e ++ rest) -> gapE RBracket rest ->
  acc_p toks f (mk k r) =
    POk (mk (k + len c1 + 1 + len (fl_cmp e)) r)
        ((Some (x_cmp 0 e, k + len c1 + 1 - r), None),
         {| i_s := k - r; i_e := k + len c1 + 1 + len (fl_cmp e) - r;
            i_errs := [gap_err (MissingClosing 93%N) (k + len c1 + 1 + len (fl_cmp e) - r - 1)] |}).
Proof.
  intros Hr Hf H Hgap.
  destruct (p_tag_at toks (is_k LBracket) k r _ _ _ H eq_refl) as (t1 & _ & E1).
  pose proof (at_cm_cons _ _ _ _ _ H) as H1.
  pose proof (cmp_ok toks e (k + len c1 + 1) _ _ f (le_n _) Hf H1 (gapE_cmp _ _ Hgap)) as E2.
  pose proof (at_app _ _ _ _ H1) as H2.
  destruct Hgap as (cg & kg & restg & -> & Hsg & Hkg). unfold gapfolE in Hkg. apply andb_prop in Hkg. destruct Hkg as [_ Hne].
  apply negb_true_iff in Hne.
  unfold acc_p, p_info, p_preceded, p_map, p_pair, p_expect, p_ref. norm.
  rewrite E1; ifs; norm. rewrite E2; norm.
  rewrite (p_tag_no toks (is_k RBracket) _ r _ _ _ H2 Hsg Hne).
  unfold expect_error, push_err. norm. cbn [app]. rewrite Nat.sub_diag. unfold gap_err. reflexivity.
Qed.

(* an index with a fault inside *)
Lemma facc_in e k r c1 c2 rest f : FCmpOK e -> r <= k -> 6 * len (ffl_cmp e) + 12 <= f ->
  at_ k (cm c1 ++ LBracket :: ffl_cmp e ++ cm c2 ++ RBracket :: rest) -> gapE (gk_cmp e) (after_cmp e (cm c2 ++ RBracket :: rest)) ->
  exists t, acc_p toks f (mk k r) =
    POk (mk (k + len c1 + 1 + len (ffl_cmp e) + len c2 + 1) r)
        ((Some (fx_cmp 0 e, k + len c1 + 1 - r), Some t),
         mkinfo (k - r) (k + len c1 + 1 + len (ffl_cmp e) + len c2 + 1 - r)).
Proof.
  intros He Hr Hf H Hgap.
  destruct (p_tag_at toks (is_k LBracket) k r _ _ _ H eq_refl) as (t1 & _ & E1).
  pose proof (at_cm_cons _ _ _ _ _ H) as H1.
  pose proof (He _ (k + len c1 + 1) _ f (le_n _) Hf H1 (fol_here fol_cmp c2 RBracket rest eq_refl eq_refl) Hgap) as E2.
  pose proof (at_app _ _ _ _ H1) as H2.
  destruct (p_tag_at toks (is_k RBracket) _ r _ _ _ H2 eq_refl) as (t2 & _ & E3).
  exists t2. unfold acc_p, p_info, p_preceded, p_map, p_pair, p_expect, p_ref. norm.
  rewrite E1; ifs; norm. rewrite E2; norm. rewrite E3; ifs; norm.
  rewrite Nat.sub_diag. reflexivity.
Qed.

Lemma fvar_steps_close v c1 e : FVarSteps (VIdxC v c1 e).
Proof.
  intros k r rest f Hr Hf H Hgap. cbn [ffl_var] in H. flat_in H. cbn [gk_var after_var] in Hgap.
  assert (Hl : len (ffl_var (VIdxC v c1 e)) = len (fl_var v) + len c1 + 1 + len (fl_cmp e)) by (elens; lia).
  destruct (proj1 (expr_all toks) v k r _ f Hr ltac:(lia) H) as (items & Hm & Hs).
  apply at_app in H.
  pose proof (facc_close e (k + len (fl_var v)) r c1 rest f ltac:(lia) ltac:(lia) H Hgap) as E.
  eexists (items ++ [_]). split.
  2:{ cbn [fvar_c]. eapply steps_snoc; [exact Hs|rewrite E; f_equal|cbn [pos]; lia]. f_equal. lia. }
  rewrite map_app, Hm. cbn [fx_accs map acc_proj fst snd]. f_equal. unfold acc_proj, e_real, msg_of_kind. cbn [fst snd gap_var]. rewrite Hl.
  pose proof (fl_cmp_pos e). eteq.
Qed.

Lemma fvar_steps_arr v c1 e c2 : FVarSteps v -> FVarSteps (VArr v c1 e c2).
Proof.
  intros IHv k r rest f Hr Hf H Hgap. cbn [ffl_var] in H. flat_in H. cbn [gk_var after_var] in Hgap.
  assert (Hl : len (ffl_var (VArr v c1 e c2)) = len (ffl_var v) + len c1 + 1 + len (fl_cmp e) + len c2 + 1) by (elens; lia).
  destruct (IHv k r _ f Hr ltac:(lia) H Hgap) as (items & Hm & Hs).
  apply at_app in H.
  destruct (acc_ok toks e (k + len (ffl_var v)) r c1 c2 rest f (cmp_ok toks e) ltac:(lia) ltac:(lia) H) as (t & E).
  eexists (items ++ [_]). split.
  2:{ cbn [fvar_c]. eapply steps_snoc; [exact Hs|rewrite E; f_equal|cbn [pos]; lia]. f_equal. lia. }
  rewrite map_app, Hm. cbn [fx_accs map acc_proj fst snd]. f_equal. unfold mkinfo, acc_proj. rewrite Hl. cbn [fst snd]. eteq.
Qed.

Lemma fvar_steps_idx v c1 e c2 : FCmpOK e -> FVarSteps (VIdx v c1 e c2).
Proof.
  intros IHe k r rest f Hr Hf H Hgap. cbn [ffl_var] in H. flat_in H. cbn [gk_var after_var] in Hgap.
  assert (Hl : len (ffl_var (VIdx v c1 e c2)) = len (fl_var v) + len c1 + 1 + len (ffl_cmp e) + len c2 + 1) by (elens; lia).
  destruct (proj1 (expr_all toks) v k r _ f Hr ltac:(lia) H) as (items & Hm & Hs).
  apply at_app in H.
  destruct (facc_in e (k + len (fl_var v)) r c1 c2 rest f IHe ltac:(lia) ltac:(lia) H Hgap) as (t & E).
  eexists (items ++ [_]). split.
  2:{ cbn [fvar_c]. eapply steps_snoc; [exact Hs|rewrite E; f_equal|cbn [pos]; lia]. f_equal. lia. }
  rewrite map_app, Hm. cbn [fx_accs map acc_proj fst snd]. f_equal. unfold mkinfo, acc_proj. rewrite Hl. cbn [fst snd]. eteq.
Qed.

Lemma fx_accs_len o v : len (fx_accs o v) <= len (ffl_var v).
Proof.
  assert (Hx : forall o v, len (x_accs o v) <= len (fl_var v)).
  { clear. intros o v. induction v as [|v IH c1 e c2]; cbn [x_accs]; [cbn; lia|]. rewrite app_length. cbn [length]. elens. lia. }
  induction v as [v c1 e|v IH c1 e c2|v c1 e c2]; cbn [fx_accs]; rewrite app_length; cbn [length]; elens;
    try (specialize (Hx o v)); lia.
Qed.

Lemma fvar_ok_of_steps v : FVarSteps v -> FVarOK v.
Proof.
  intros Hv k r rest fuel Hr Hf H (c & kd & rest' & -> & Hs & Hk) Hgap.
  destruct fuel as [|f]; [lia|]. rewrite p_variable_S.
  destruct (Hv k r _ f Hr ltac:(lia) H Hgap) as (items & Hm & Hst).
  pose proof H as H0. rewrite ffl_var_head in H0. flat_in H0.
  pose proof (p_ident_at toks k r _ _ _ H0 Hr) as Ei.
  apply at_app in H.
  assert (Ee : acc_p toks f (mk (k + len (ffl_var v)) r) = PErr (mk (k + len (ffl_var v)) r)).
  { unfold acc_p, p_info, p_preceded, p_map, p_pair. norm.
    rewrite (p_tag_no toks _ _ r _ _ _ H Hs); [reflexivity|]. unfold nolb in Hk. now destruct (is_k LBracket kd). }
  assert (Hn : len items < f).
  { rewrite <- (map_length acc_proj), Hm. pose proof (fx_accs_len (k - r) v). lia. }
  unfold p_pair, p_info, p_map. norm. rewrite Ei; norm.
  rewrite (many0_steps' _ _ _ _ _ f Hst Ee Hn). norm.
  rewrite fold_proj, Hm.
  replace {| i_s := k - r; i_e := k + len (fvar_c v) + 1 - r; i_errs := [] |}
    with (mkinfo (k - r) (k - r + len (fvar_c v) + 1)) by (unfold mkinfo; f_equal; lia).
  f_equal. apply ffold_accs.
Qed.

(* ---- factors ---- *)
Lemma ffac_var v : FVarOK v -> FFacOK (FaVar v).
Proof.
  intros IH k r rest fuel Hr Hf H Hfol Hgap. cbn [ffl_fac gk_fac after_fac] in *.
  destruct fuel as [|[|f]]; try lia. rewrite p_factor_S. unfold p_alt at 1. rewrite p_primary_S.
  pose proof H as H0. rewrite ffl_var_head in H0. flat_in H0.
  unfold p_alt, p_map. norm. rewrite (p_intlit_no toks k r _ _ _ H0 eq_refl eq_refl).
  rewrite (IH k r rest f Hr ltac:(lia) H Hfol Hgap). norm. reflexivity.
Qed.

Lemma ffac_neg c f : FFacOK f -> FFacOK (FaNeg c f).
Proof.
  intros IH k r rest fuel Hr Hf H Hfol Hgap. cbn [ffl_fac] in H. flat_in H. cbn [gk_fac after_fac] in Hgap.
  assert (Hl : len (ffl_fac (FaNeg c f)) = len c + 1 + len (ffl_fac f)) by (elens; lia).
  destruct fuel as [|[|[|g]]]; try lia. rewrite p_factor_S. unfold p_alt at 1. rewrite p_primary_S.
  unfold p_alt at 1 2, p_map at 1 2. norm.
  rewrite (p_intlit_no toks k r _ _ _ H eq_refl eq_refl).
  rewrite (p_variable_no toks k r _ _ _ (S g) H eq_refl eq_refl ltac:(lia)).
  destruct (p_tag_at toks (is_k Minus) k r _ _ _ H eq_refl) as (t & _ & E).
  unfold bracketed_p. comb.
  rewrite (p_tag_no toks (is_k LParen) k r _ _ _ H eq_refl eq_refl). norm.
  rewrite E; ifs; norm.
  rewrite (IH (k + len c + 1) r rest (S (S g)) ltac:(lia) ltac:(lia) (at_cm_cons _ _ _ _ _ H) Hfol Hgap). norm.
  fxg_eqs. unfold mkinfo. rewrite Hl. eteq.
Qed.

(* the parenthesis whose `)` is missing *)
Lemma ffac_close c1 e : FFacOK (FaParC c1 e).
Proof.
  intros k r rest fuel Hr Hf H _ Hgap. cbn [ffl_fac] in H. flat_in H. cbn [gk_fac after_fac] in Hgap.
  assert (Hl : len (ffl_fac (FaParC c1 e)) = len c1 + 1 + len (fl_cmp e)) by (elens; lia).
  destruct fuel as [|[|[|g]]]; try lia. rewrite p_factor_S. unfold p_alt at 1. rewrite p_primary_S.
  unfold p_alt at 1 2, p_map at 1 2. norm.
  rewrite (p_intlit_no toks k r _ _ _ H eq_refl eq_refl).
  rewrite (p_variable_no toks k r _ _ _ (S g) H eq_refl eq_refl ltac:(lia)).
  destruct (p_tag_at toks (is_k LParen) k r _ _ _ H eq_refl) as (t1 & _ & E1).
  pose proof (at_cm_cons _ _ _ _ _ H) as H1.
  pose proof (cmp_ok toks e (k + len c1 + 1) r _ (S g) ltac:(lia) ltac:(lia) H1 (gapE_cmp _ _ Hgap)) as E2.
  pose proof (at_app _ _ _ _ H1) as H2.
  destruct Hgap as (cg & kg & restg & -> & Hsg & Hkg). unfold gapfolE in Hkg. apply andb_prop in Hkg. destruct Hkg as [_ Hne].
  apply negb_true_iff in Hne.
  unfold bracketed_p. comb.
  rewrite E1; ifs; norm. rewrite E2; norm.
  rewrite (p_tag_no toks (is_k RParen) _ r _ _ _ H2 Hsg Hne).
  unfold expect_error, push_err. norm. cbn [app].
  rewrite fxg_eq_FaParC. cbn [gap_fac]. unfold einfo, e_real, gap_err, msg_of_kind. rewrite Hl. pose proof (fl_cmp_pos e). eteq.
Qed.

Lemma ffac_par c1 e c2 : FCmpOK e -> FFacOK (FaPar c1 e c2).
Proof.
  intros IH k r rest fuel Hr Hf H _ Hgap. cbn [ffl_fac] in H. flat_in H. cbn [gk_fac after_fac] in Hgap.
  assert (Hl : len (ffl_fac (FaPar c1 e c2)) = len c1 + 1 + len (ffl_cmp e) + len c2 + 1) by (elens; lia).
  destruct fuel as [|[|[|g]]]; try lia. rewrite p_factor_S. unfold p_alt at 1. rewrite p_primary_S.
  unfold p_alt at 1 2, p_map at 1 2. norm.
  rewrite (p_intlit_no toks k r _ _ _ H eq_refl eq_refl).
  rewrite (p_variable_no toks k r _ _ _ (S g) H eq_refl eq_refl ltac:(lia)).
  destruct (p_tag_at toks (is_k LParen) k r _ _ _ H eq_refl) as (t1 & _ & E1).
  pose proof (at_cm_cons _ _ _ _ _ H) as H1.
  pose proof (IH (k + len c1 + 1) r _ (S g) ltac:(lia) ltac:(lia) H1 (fol_here fol_cmp c2 RParen rest eq_refl eq_refl) Hgap) as E2.
  pose proof (at_app _ _ _ _ H1) as H2.
  destruct (p_tag_at toks (is_k RParen) _ r _ _ _ H2 eq_refl) as (t2 & _ & E3).
  unfold bracketed_p. comb.
  rewrite E1; ifs; norm. rewrite E2; norm. rewrite E3; ifs; norm.
  fxg_eqs. unfold mkinfo. rewrite Hl. eteq.
Qed.

(* ---- the left-associative chains ---- *)
Lemma fstart_fac o f : i_s (expr_info (fx_fac o f)) = o.
Proof. destruct f as [v|c f|c1 e|c1 e c2]; try reflexivity. destruct v; reflexivity. Qed.
Lemma fstart_mul o m : i_s (expr_info (fx_mul o m)) = o.
Proof. destruct m; [apply fstart_fac | reflexivity | reflexivity]. Qed.
Lemma fstart_add o a : i_s (expr_info (fx_add o a)) = o.
Proof. destruct a; [apply fstart_mul | reflexivity | reflexivity]. Qed.

Lemma fiters_mul_le m : 2 * fiters_mul m + 1 <= len (ffl_mul m).
Proof.
  induction m as [f|m IH c op f|m c op f]; cbn [fiters_mul].
  - destruct (fhead_fac f) as (c & kd & tl & E & _). cbn [ffl_mul]. rewrite E. elens. lia.
  - pose proof (fl_fac_pos f). elens. lia.
  - pose proof (iters_mul_le m). destruct (fhead_fac f) as (c' & kd & tl & E & _). elens. rewrite E. elens. lia.
Qed.
Lemma fiters_add_le a : 2 * fiters_add a + 1 <= len (ffl_add a).
Proof.
  induction a as [m|a IH c op m|a c op m]; cbn [fiters_add].
  - pose proof (fiters_mul_le m). cbn [ffl_add]. lia.
  - pose proof (fl_mul_pos m). elens. lia.
  - pose proof (iters_add_le a). pose proof (fiters_mul_le m). elens. lia.
Qed.

Lemma fmul_chain_fac f : FFacOK f -> FMulChain (MuFac f).
Proof.
  intros IH k r rest g Hr Hf H Hfol Hgap. cbn [ffl_mul fiters_mul fxg_mul gk_mul after_mul] in *.
  rewrite (IH k r rest g Hr Hf H Hfol Hgap). norm. now rewrite Nat.sub_0_r.
Qed.

Lemma fmul_chain_l m c op fa : FMulChain m -> FMulChain (MuL m c op fa).
Proof.
  intros IHm k r rest f Hr Hf H Hfol Hgap. cbn [ffl_mul] in H. flat_in H. cbn [gk_mul after_mul] in Hgap.
  destruct (mulop_ok op) as (Ho1 & Ho2 & Ho3 & Ho4).
  assert (Hl : len (ffl_mul (MuL m c op fa)) = len (ffl_mul m) + len c + 1 + len (fl_fac fa)) by (elens; lia).
  pose proof (fiters_mul_le m) as Hi. pose proof (fl_fac_pos fa) as Hp.
  rewrite (IHm k r _ f Hr ltac:(lia) H (fol_here nolb c _ _ Ho2 Ho3) Hgap).
  cbn [fiters_mul]. replace (f - fiters_mul m) with (S (f - S (fiters_mul m))) by lia.
  rewrite mul_loop_S. apply at_app in H.
  destruct (p_tag_at toks is_mulop _ r _ _ _ H Ho2) as (t & Ht & E). rewrite E, Ho1.
  unfold p_rhs. comb.
  rewrite (proj1 (proj2 (expr_all toks)) fa (k + len (ffl_mul m) + len c + 1) r rest (f - S (fiters_mul m)) ltac:(lia) ltac:(lia) (at_cm_cons _ _ _ _ _ H) Hfol).
  norm. rewrite Ht, Ho4, fstart_mul. fxg_eqs. unfold mkinfo. rewrite Hl. eteq.
Qed.

Lemma fmul_chain_r m c op fa : FFacOK fa -> FMulChain (MuR m c op fa).
Proof.
  intros IHf k r rest f Hr Hf H Hfol Hgap. cbn [ffl_mul] in H. flat_in H. cbn [gk_mul after_mul] in Hgap.
  destruct (mulop_ok op) as (Ho1 & Ho2 & Ho3 & Ho4).
  assert (Hl : len (ffl_mul (MuR m c op fa)) = len (fl_mul m) + len c + 1 + len (ffl_fac fa)) by (elens; lia).
  pose proof (iters_mul_le m) as Hi. pose proof (proj1 (proj2 ffl_expr_pos) fa) as Hp.
  rewrite (proj1 (proj2 (proj2 (expr_all toks))) m k r _ f Hr ltac:(lia) H (fol_here nolb c _ _ Ho2 Ho3)).
  cbn [fiters_mul]. replace (f - iters_mul m) with (S (f - S (iters_mul m))) by lia.
  rewrite mul_loop_S. apply at_app in H.
  destruct (p_tag_at toks is_mulop _ r _ _ _ H Ho2) as (t & Ht & E). rewrite E, Ho1.
  unfold p_rhs. comb.
  rewrite (IHf (k + len (fl_mul m) + len c + 1) r rest (f - S (iters_mul m)) ltac:(lia) ltac:(lia) (at_cm_cons _ _ _ _ _ H) Hfol Hgap).
  norm. rewrite Ht, Ho4, start_mul. fxg_eqs. unfold mkinfo. rewrite Hl. eteq.
Qed.

Lemma fmul_ok_of_chain m : FMulChain m -> FMulOK m.
Proof.
  intros Hc k r rest fuel Hr Hf H Hfol Hgap. destruct fuel as [|f]; [lia|]. rewrite p_mul_S.
  rewrite (Hc k r rest f Hr ltac:(lia) H (fol_mul_nolb _ Hfol) Hgap).
  pose proof (fiters_mul_le m). replace (f - fiters_mul m) with (S (f - S (fiters_mul m))) by lia.
  rewrite mul_loop_S. destruct Hfol as (c & kd & rest' & -> & Hs & Hk). apply at_app in H.
  rewrite (p_tag_no toks is_mulop _ r _ _ _ H Hs); [reflexivity|].
  unfold fol_mul in Hk. apply andb_prop in Hk. now destruct (is_mulop kd), Hk.
Qed.

Lemma fadd_chain_mul m : FMulOK m -> FAddChain (AdMul m).
Proof.
  intros IH k r rest g Hr Hf H Hfol Hgap. cbn [ffl_add fiters_add fxg_add gk_add after_add] in *.
  rewrite (IH k r rest g Hr Hf H Hfol Hgap). norm. now rewrite Nat.sub_0_r.
Qed.

Lemma mul_ok toks' m : MulOK toks' m.
Proof. apply mul_ok_of_chain, expr_all. Qed.

Lemma fadd_chain_l a c op m : FAddChain a -> FAddChain (AdL a c op m).
Proof.
  intros IHa k r rest f Hr Hf H Hfol Hgap. cbn [ffl_add] in H. flat_in H. cbn [gk_add after_add] in Hgap.
  destruct (addop_ok op) as (Ho1 & Ho2 & Ho3 & Ho4).
  assert (Hl : len (ffl_add (AdL a c op m)) = len (ffl_add a) + len c + 1 + len (fl_mul m)) by (elens; lia).
  pose proof (fiters_add_le a) as Hi. pose proof (fl_mul_pos m) as Hp.
  rewrite (IHa k r _ f Hr ltac:(lia) H (fol_here fol_mul c _ _ Ho2 Ho3) Hgap).
  cbn [fiters_add]. replace (f - fiters_add a) with (S (f - S (fiters_add a))) by lia.
  rewrite add_loop_S. apply at_app in H.
  destruct (p_tag_at toks is_addop _ r _ _ _ H Ho2) as (t & Ht & E). rewrite E, Ho1.
  unfold p_rhs. comb.
  rewrite (mul_ok toks m (k + len (ffl_add a) + len c + 1) r rest (f - S (fiters_add a)) ltac:(lia) ltac:(lia) (at_cm_cons _ _ _ _ _ H) Hfol).
  norm. rewrite Ht, Ho4, fstart_add. fxg_eqs. unfold mkinfo. rewrite Hl. eteq.
Qed.

Lemma fadd_chain_r a c op m : FMulOK m -> FAddChain (AdR a c op m).
Proof.
  intros IHm k r rest f Hr Hf H Hfol Hgap. cbn [ffl_add] in H. flat_in H. cbn [gk_add after_add] in Hgap.
  destruct (addop_ok op) as (Ho1 & Ho2 & Ho3 & Ho4).
  assert (Hl : len (ffl_add (AdR a c op m)) = len (fl_add a) + len c + 1 + len (ffl_mul m)) by (elens; lia).
  pose proof (iters_add_le a) as Hi. pose proof (proj1 (proj2 (proj2 ffl_expr_pos)) m) as Hp.
  rewrite (proj1 (proj2 (proj2 (proj2 (expr_all toks)))) a k r _ f Hr ltac:(lia) H (fol_here fol_mul c _ _ Ho2 Ho3)).
  cbn [fiters_add]. replace (f - iters_add a) with (S (f - S (iters_add a))) by lia.
  rewrite add_loop_S. apply at_app in H.
  destruct (p_tag_at toks is_addop _ r _ _ _ H Ho2) as (t & Ht & E). rewrite E, Ho1.
  unfold p_rhs. comb.
  rewrite (IHm (k + len (fl_add a) + len c + 1) r rest (f - S (iters_add a)) ltac:(lia) ltac:(lia) (at_cm_cons _ _ _ _ _ H) Hfol Hgap).
  norm. rewrite Ht, Ho4, start_add. fxg_eqs. unfold mkinfo. rewrite Hl. eteq.
Qed.

Lemma fadd_ok_of_chain a : FAddChain a -> FAddOK a.
Proof.
  intros Hc k r rest fuel Hr Hf H Hfol Hgap. destruct fuel as [|f]; [lia|]. rewrite p_add_S.
  rewrite (Hc k r rest f Hr ltac:(lia) H (fol_add_mul _ Hfol) Hgap).
  pose proof (fiters_add_le a). replace (f - fiters_add a) with (S (f - S (fiters_add a))) by lia.
  rewrite add_loop_S. destruct Hfol as (c & kd & rest' & -> & Hs & Hk). apply at_app in H.
  rewrite (p_tag_no toks is_addop _ r _ _ _ H Hs); [reflexivity|].
  unfold fol_add in Hk. apply andb_prop in Hk. now destruct (is_addop kd), Hk.
Qed.

(* ---- the comparison on top ---- *)
Lemma add_ok toks' a : AddOK toks' a.
Proof. apply add_ok_of_chain, expr_all. Qed.

Lemma fcmp_add a : FAddOK a -> FCmpOK (CmAdd a).
Proof.
  intros IH k r rest fuel Hr Hf H Hfol Hgap. cbn [ffl_cmp fxg_cmp gk_cmp after_cmp] in *. destruct fuel as [|f]; [lia|]. rewrite p_comparison_S.
  rewrite (IH k r rest f Hr ltac:(lia) H (fol_cmp_add _ Hfol) Hgap). norm.
  destruct Hfol as (c & kd & rest' & -> & Hs & Hk). apply at_app in H.
  rewrite (p_tag_no toks is_cmpop _ r _ _ _ H Hs); [reflexivity|].
  unfold fol_cmp in Hk. apply andb_prop in Hk. now destruct (is_cmpop kd), Hk.
Qed.

Lemma fcmp_l l c op a : FAddOK l -> FCmpOK (CmL l c op a).
Proof.
  intros IHl k r rest fuel Hr Hf H Hfol Hgap. cbn [ffl_cmp] in H. flat_in H. cbn [gk_cmp after_cmp] in Hgap.
  destruct (cmpop_ok op) as (Ho1 & Ho2 & Ho3 & Ho4).
  assert (Hl : len (ffl_cmp (CmL l c op a)) = len (ffl_add l) + len c + 1 + len (fl_add a)) by (elens; lia).
  pose proof (fl_add_pos a) as Hp.
  destruct fuel as [|f]; [lia|]. rewrite p_comparison_S.
  rewrite (IHl k r _ f Hr ltac:(lia) H (fol_here fol_add c _ _ Ho2 Ho3) Hgap). norm. apply at_app in H.
  destruct (p_tag_at toks is_cmpop _ r _ _ _ H Ho2) as (t & Ht & E). rewrite E, Ho1.
  unfold p_rhs. comb.
  rewrite (add_ok toks a (k + len (ffl_add l) + len c + 1) r rest f ltac:(lia) ltac:(lia) (at_cm_cons _ _ _ _ _ H) (fol_cmp_add _ Hfol)).
  norm. rewrite Ht, Ho4, fstart_add. fxg_eqs. unfold mkinfo. rewrite Hl. eteq.
Qed.

Lemma fcmp_r l c op a : FAddOK a -> FCmpOK (CmR l c op a).
Proof.
  intros IHa k r rest fuel Hr Hf H Hfol Hgap. cbn [ffl_cmp] in H. flat_in H. cbn [gk_cmp after_cmp] in Hgap.
  destruct (cmpop_ok op) as (Ho1 & Ho2 & Ho3 & Ho4).
  assert (Hl : len (ffl_cmp (CmR l c op a)) = len (fl_add l) + len c + 1 + len (ffl_add a)) by (elens; lia).
  pose proof (proj1 (proj2 (proj2 (proj2 ffl_expr_pos))) a) as Hp.
  destruct fuel as [|f]; [lia|]. rewrite p_comparison_S.
  rewrite (add_ok toks l k r _ f Hr ltac:(lia) H (fol_here fol_add c _ _ Ho2 Ho3)). norm. apply at_app in H.
  destruct (p_tag_at toks is_cmpop _ r _ _ _ H Ho2) as (t & Ht & E). rewrite E, Ho1.
  unfold p_rhs. comb.
  rewrite (IHa (k + len (fl_add l) + len c + 1) r rest f ltac:(lia) ltac:(lia) (at_cm_cons _ _ _ _ _ H) (fol_cmp_add _ Hfol) Hgap).
  norm. rewrite Ht, Ho4, start_add. fxg_eqs. unfold mkinfo. rewrite Hl. eteq.
Qed.

End FExpr.

Theorem fexpr_all toks :
  (forall v, FVarSteps toks v) /\ (forall f, FFacOK toks f) /\ (forall m, FMulChain toks m) /\
  (forall a, FAddChain toks a) /\ (forall e, FCmpOK toks e).
Proof.
  apply fexpr_mutind.
  - apply fvar_steps_close.
  - intros; now apply fvar_steps_arr.
  - intros; now apply fvar_steps_idx.
  - intros; now apply ffac_var, fvar_ok_of_steps.
  - intros; now apply ffac_neg.
  - apply ffac_close.
  - intros; now apply ffac_par.
  - intros; now apply fmul_chain_fac.
  - intros; now apply fmul_chain_l.
  - intros; now apply fmul_chain_r.
  - intros; now apply fadd_chain_mul, fmul_ok_of_chain.
  - intros; now apply fadd_chain_l.
  - intros; now apply fadd_chain_r, fmul_ok_of_chain.
  - intros; now apply fcmp_add, fadd_ok_of_chain.
  - intros; now apply fcmp_l, fadd_ok_of_chain.
  - intros; now apply fcmp_r, fadd_ok_of_chain.
Qed.

Lemma fcmp_ok toks e : FCmpOK toks e.
Proof. apply fexpr_all. Qed.
Lemma fvar_ok toks v : FVarOK toks v.
Proof. apply fvar_ok_of_steps, fexpr_all. Qed.
