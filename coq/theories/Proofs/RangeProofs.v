(* The robustness core of C02 ("analysing any text terminates without panicking") as theorems about
   the model of AnalyzedSource::new(..) and AnalyzedSource::errors(), for ALL texts.  This file only
   restates the results of RangeProofsIdent / RangeProofsBuild / RangeProofsBound / RangeProofsErrors in
   self-contained form, checks their assumptions and gives one concrete instance of each. *)
From Coq Require Import Arith Lia List NArith.
From Spl Require Import Model.Errors Proofs.LexerProofs Proofs.ParserProofs Proofs.SemProofs.
From Spl Require Export Proofs.RangeProofsIdent Proofs.RangeProofsBuild Proofs.RangeProofsBound
  Proofs.RangeProofsErrors.
Import ListNotations.
Local Open Scope nat_scope.

(* ---- R0 ---- *)
Theorem R0_lex_eoflast : forall s toks, lex s = Some toks -> EofLast toks.
Proof. exact lex_eoflast. Qed.
Print Assumptions R0_lex_eoflast.

Theorem R0_lex_parse_ok : forall s, exists toks p, lex s = Some toks /\ parse toks = Done p.
Proof. exact lex_parse_ok. Qed.
Print Assumptions R0_lex_parse_ok.

(* ---- R1 ---- *)
(* any token list, hence any fuel the parser is started with by `parse` *)
Theorem R1_parse_idents_nonempty : forall toks prog, parse toks = Done prog -> IdentsNonEmpty prog.
Proof. exact parse_idents_nonempty. Qed.
Print Assumptions R1_parse_idents_nonempty.

(* the parser-level form: every non-terminal, any token list, any fuel, any state with refp <= pos <= length *)
Theorem R1_nonterminals : forall toks fuel,
  Ret toks ok_ident (p_ident toks) /\ Ret toks ok_variable (p_variable toks fuel) /\
  Ret toks ok_expr (p_expr toks fuel) /\ Ret toks ok_texpr (p_texpr toks fuel) /\
  Ret toks ok_stmt (p_stmt toks fuel) /\ Ret toks ok_vardecl (p_vardecl toks fuel) /\
  Ret toks ok_paramdecl (p_paramdecl toks fuel) /\ Ret toks ok_typedecl (p_typedecl toks fuel) /\
  Ret toks ok_procdecl (p_procdecl toks fuel) /\ Ret toks ok_gdecl (p_gdecl toks fuel) /\
  Ret toks IdentsNonEmpty (p_program toks fuel).
Proof.
  intros toks fuel.
  split; [apply Ret_ident|]. split; [apply Ret_variable|]. split; [apply Ret_expr|]. split; [apply Ret_texpr|].
  split; [apply Ret_stmt|]. split; [apply Ret_vardecl|]. split; [apply Ret_paramdecl|].
  split; [apply Ret_typedecl|]. split; [apply Ret_procdecl|]. split; [apply Ret_gdecl | apply Ret_program].
Qed.
Print Assumptions R1_nonterminals.

Theorem R1_build_ok : forall p,
  IdentsNonEmpty p -> exists p' t, build_res p = ROk (p', t) /\ IdentsNonEmpty p' /\ TabOk t.
Proof. exact build_res_ok. Qed.
Print Assumptions R1_build_ok.

Theorem R1_analyze_ok : forall p0 p t,
  build_res p0 = ROk (p, t) -> IdentsNonEmpty p -> exists p', analyze_res p t = ROk p' /\ IdentsNonEmpty p'.
Proof. exact analyze_res_ok. Qed.
Print Assumptions R1_analyze_ok.

(* AnalyzedSource::new never panics and never runs out of fuel, for every Unicode text *)
Theorem new_doc_total : forall t, exists d, new_doc_res t = ODone d.
Proof. exact RangeProofsBuild.new_doc_total. Qed.
Print Assumptions new_doc_total.

(* ---- R2 ---- *)
Theorem R2_parse_bounded : forall toks prog,
  EofLast toks -> parse toks = Done prog -> RangesInBounds toks prog.
Proof. exact parse_bounded. Qed.
Print Assumptions R2_parse_bounded.

Theorem R2_build_bounded : forall M p p' t,
  ProgB M p -> StartsAt0 (pg_decls p) -> build_res p = ROk (p', t) -> ProgB M p'.
Proof. exact build_bounded. Qed.
Print Assumptions R2_build_bounded.

Theorem R2_analyze_bounded : forall M p t p', ProgB M p -> analyze_res p t = ROk p' -> ProgB M p'.
Proof. exact analyze_bounded. Qed.
Print Assumptions R2_analyze_bounded.

(* what `byte_range` needs of every error `tree_errors` publishes *)
Theorem R2_tree_errors_in_bounds : forall toks p,
  0 < length toks -> RangesInBounds toks p ->
  Forall (fun x => if Nat.ltb (e_s x) (e_e x) then e_e x <= length toks else e_e x < length toks) (tree_errors p).
Proof.
  intros toks p HN H. eapply Forall_impl; [|exact (tree_errors_B _ _ H)].
  intros x Hx. unfold ErrB in Hx. destruct (Nat.ltb _ _); lia.
Qed.
Print Assumptions R2_tree_errors_in_bounds.

Theorem R2_doc_bounded : forall t d,
  new_doc_res t = ODone d -> RangesInBounds (d_toks d) (d_ast d) /\ EofLast (d_toks d).
Proof. exact doc_bounded. Qed.
Print Assumptions R2_doc_bounded.

(* AnalyzedSource::errors() never panics *)
Theorem doc_errors_total : forall t d, new_doc_res t = ODone d -> exists l, doc_errors_res d = ROk l.
Proof. exact RangeProofsErrors.doc_errors_total. Qed.
Print Assumptions doc_errors_total.

(* every published byte range lies inside the document *)
Theorem errors_inside : forall t d l,
  new_doc_res t = ODone d -> doc_errors_res d = ROk l ->
  Forall (fun y => (fst (fst y) <= snd (fst y) <= blen t)%N) l.
Proof. exact RangeProofsErrors.errors_inside. Qed.
Print Assumptions errors_inside.

Theorem analysis_total : forall t,
  exists d l, new_doc_res t = ODone d /\ doc_errors_res d = ROk l /\
              Forall (fun y => (fst (fst y) <= snd (fst y) <= blen t)%N) l.
Proof. exact RangeProofsErrors.analysis_total. Qed.
Print Assumptions analysis_total.

(* ------------------------------------------------------------------------------------------ *)
(* non-vacuity: "proc main(a: int) { x := ; }" - one syntax error, one semantic error *)
Definition ex_text : text :=
  [112; 114; 111; 99; 32; 109; 97; 105; 110; 40; 97; 58; 32; 105; 110; 116; 41; 32; 123; 32; 120; 32; 58; 61; 32;
   59; 32; 125]%N.

Definition ex_toks : list token := match lex ex_text with Some l => l | None => [] end.

Example ex_R0 : length ex_toks = 13 /\ option_map tk (nth_error ex_toks 12) = Some Eof.
Proof. vm_compute. split; reflexivity. Qed.

(* the identifiers `main`, `a`, `int`, `x` with their (relative) ranges *)
Example ex_R1_idents :
  match parse ex_toks with
  | Done {| pg_decls := [(GProc {| pd_name := Some n; pd_params := [(PValid _ _ (Some a) (Some (TNamed ty, _)) _, _)];
                                   pd_stmts := [(SAssign (NamedVar x) None _, _)] |}, 0)] |} =>
      (info_range (id_info n), info_range (id_info a), info_range (id_info ty), info_range (id_info x))
      = ((1, 2), (0, 1), (0, 1), (0, 1))
  | _ => False
  end.
Proof. vm_compute. reflexivity. Qed.

Example ex_new_doc :
  match new_doc_res ex_text with
  | ODone d => tree_errors (d_ast d) =
      [ {| e_s := 1; e_e := 2; e_m := EBuild MainMustNotHaveParameters |};
        {| e_s := 9; e_e := 9; e_m := EParse (ExpectedToken s_expression) |} ]
  | _ => False
  end.
Proof. vm_compute. reflexivity. Qed.

Example ex_doc_errors :
  match new_doc_res ex_text with
  | ODone d => doc_errors_res d =
      ROk [ (5, 9, EBuild MainMustNotHaveParameters); (24, 24, EParse (ExpectedToken s_expression)) ]%N
  | _ => False
  end /\ blen ex_text = 28%N.
Proof. vm_compute. split; reflexivity. Qed.

(* the bound is sharp and the panic sites are real: one index further and errors() would panic *)
Example ex_out_of_bounds :
  byte_range ex_toks {| e_s := 13; e_e := 13; e_m := EBuild MainIsMissing |} = RFail SiteTokenIndex /\
  byte_range ex_toks {| e_s := 12; e_e := 14; e_m := EBuild MainIsMissing |} = RFail SiteTokenSlice /\
  byte_range ex_toks {| e_s := 12; e_e := 12; e_m := EBuild MainIsMissing |} = ROk (28, 28, EBuild MainIsMissing)%N.
Proof. vm_compute. repeat split; reflexivity. Qed.

(* an error pushed by `expect` inside a Reference but outside every AstInfo of it (`x := 1 + ;`: the
   missing operand of `+`, token 8) is published relative to the OUTER Reference: it is reported at
   token 6 (`:=`).  In bounds - which is all R2 claims - but not where the user would expect it. *)
Example ex_inner_expect_error :
  match new_doc_res [112; 114; 111; 99; 32; 109; 97; 105; 110; 40; 41; 123; 120; 58; 61; 49; 43; 59; 125]%N with
  | ODone d => map (fun x => (e_s x, e_e x)) (tree_errors (d_ast d)) = [(6, 6); (5, 6)] /\
               option_map tk (nth_error (d_toks d) 6) = Some Assign /\
               option_map tk (nth_error (d_toks d) 8) = Some Plus
  | _ => False
  end.
Proof. vm_compute. repeat split; reflexivity. Qed.
