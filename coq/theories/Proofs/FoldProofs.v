(* C17 - proofs about the folding-range model (Model/Fold.v).

   1. [fold_wellformed]: for EVERY document that satisfies the explicit predicate [fold_pre]
      (token byte ranges in text order; the absolute token ranges of the procedure declarations lie
      inside the token vector, are in order and disjoint, and each contains a non-comment token) the
      handler does not panic and its ranges are well-formed:
         start <= end < number of lines of the text (LSP line model, Spec/LspText.v),
         end_i <= start_{i+1}.
      For documents produced by [new_doc_res] the token part of the predicate is a theorem
      (C06: Ordered), so only the tree part remains as hypothesis ([fold_wellformed_new_doc]).
   2. [fold_count] / [fold_extents]: one range per procedure declaration of the tree, in tree order,
      from the line of the first non-comment token of the declaration's token range to the line of
      the end of its last token. *)
From Coq Require Import PeanoNat.
From Spl Require Import Model.Fold Spec.LspText Proofs.DocProofs Proofs.LexerProofs.
Local Open Scope N_scope.

(* ---------------------------------------------------------------------------------------- *)
(* lines: monotone in the index, below the number of lines                                   *)

Definition line_of (t : text) (i : N) : N := fst (as_position i t).
Definition nlines (t : text) : N := N.of_nat (length (split_lines t)).

Lemma pos_from_line_ge s idx line ch i : line <= fst (pos_from idx line ch i s).
Proof.
  destruct (pos_from idx line ch i s) as [pl pc] eqn:E. apply pos_mono in E. cbn [fst]. lia.
Qed.

Lemma pos_from_mono_idx s : forall i1 i2 line ch i,
  i1 <= i2 -> fst (pos_from i1 line ch i s) <= fst (pos_from i2 line ch i s).
Proof.
  induction s as [|c r IH]; intros i1 i2 line ch i H; [cbn; lia|].
  rewrite !pos_cons.
  destruct (i1 <=? i) eqn:E1, (i2 <=? i) eqn:E2; b2p; cbn [fst]; try lia.
  - pose proof (pos_from_line_ge r i2 (fst (step c r line ch)) (snd (step c r line ch)) (i + ulen c)).
    pose proof (step_mono c r line ch). lia.
  - now apply IH.
Qed.

Lemma line_of_mono t i1 i2 : i1 <= i2 -> line_of t i1 <= line_of t i2.
Proof. apply pos_from_mono_idx. Qed.

Lemma prepend_length p ls : length (prepend p ls) = length ls.
Proof. destruct ls as [|[c t] r]; reflexivity. Qed.

Lemma pos_from_below_nlines s : forall idx line ch i,
  fst (pos_from idx line ch i s) + 1 <= line + N.of_nat (length (split_lines s)).
Proof.
  induction s as [|c r IH]; intros idx line ch i; [cbn; lia|].
  rewrite pos_cons.
  assert (Hlen : 1 <= N.of_nat (length (split_lines (c :: r)))).
  { pose proof (split_lines_nonnil (c :: r)). destruct (split_lines (c :: r)); [congruence | cbn [length]; lia]. }
  destruct (idx <=? i); [cbn [fst]; lia|].
  specialize (IH idx (fst (step c r line ch)) (snd (step c r line ch)) (i + ulen c)).
  enough (fst (step c r line ch) + N.of_nat (length (split_lines r))
          <= line + N.of_nat (length (split_lines (c :: r)))) by lia.
  clear IH Hlen. rewrite split_lines_cons. unfold step.
  destruct (c =? 10); [cbn [fst length]; lia|].
  destruct (c =? 13).
  - destruct (lf_next r) eqn:LF; cbn [fst length]; [|lia].
    destruct r as [|c2 r']; [discriminate|]. unfold lf_next in LF.
    rewrite split_lines_cons, LF. cbn [tl length]. lia.
  - cbn [fst]. rewrite prepend_length. lia.
Qed.

Lemma line_of_lt_nlines t i : line_of t i < nlines t.
Proof. unfold line_of, as_position, nlines. pose proof (pos_from_below_nlines t i 0 0 0). lia. Qed.

(* ---------------------------------------------------------------------------------------- *)
(* sorted token vectors, slices                                                              *)

Lemma toks_sorted_tail x r : toks_sorted (x :: r) = true -> toks_sorted r = true.
Proof. cbn [toks_sorted]. intros H. apply andb_true_iff in H. tauto. Qed.

Lemma toks_sorted_head x r : toks_sorted (x :: r) = true -> ts x <= te x.
Proof. cbn [toks_sorted]. intros H. b2p. assumption. Qed.

Lemma sorted_head_le r : forall x j b,
  toks_sorted (x :: r) = true -> nth_error r j = Some b -> te x <= ts b.
Proof.
  induction r as [|y r IH]; intros x j b H Hn; [destruct j; discriminate|].
  assert (Hxy : te x <= ts y) by (cbn [toks_sorted] in H; b2p; assumption).
  pose proof (toks_sorted_tail _ _ H) as Ht.
  destruct j as [|j]; cbn [nth_error] in Hn.
  - injection Hn as <-. exact Hxy.
  - pose proof (IH y j b Ht Hn). pose proof (toks_sorted_head _ _ Ht). lia.
Qed.

Lemma sorted_self l : toks_sorted l = true -> forall i t, nth_error l i = Some t -> ts t <= te t.
Proof.
  induction l as [|x r IH]; intros H i t Hn; [destruct i; discriminate|].
  destruct i as [|i]; cbn [nth_error] in Hn.
  - injection Hn as <-. now apply toks_sorted_head in H.
  - eapply IH; eauto using toks_sorted_tail.
Qed.

Lemma sorted_pair l : toks_sorted l = true -> forall i j a b,
  (i < j)%nat -> nth_error l i = Some a -> nth_error l j = Some b -> te a <= ts b.
Proof.
  induction l as [|x r IH]; intros H i j a b Hij Ha Hb; [destruct i; discriminate|].
  destruct j as [|j]; [lia|]. cbn [nth_error] in Hb.
  destruct i as [|i]; cbn [nth_error] in Ha.
  - injection Ha as <-. eapply sorted_head_le; eauto.
  - eapply (IH (toks_sorted_tail _ _ H) i j); eauto. lia.
Qed.

Lemma nth_firstn {A} : forall n (l : list A) k t,
  nth_error (firstn n l) k = Some t -> nth_error l k = Some t /\ (k < n)%nat.
Proof.
  induction n as [|n IH]; intros l k t H; [destruct k; discriminate|].
  destruct l as [|x l]; [destruct k; discriminate|].
  destruct k as [|k]; cbn [firstn nth_error] in *; [split; [exact H | lia]|].
  destruct (IH _ _ _ H). split; [assumption | lia].
Qed.

Lemma nth_skipn {A} : forall a (l : list A) k, nth_error (skipn a l) k = nth_error l (a + k).
Proof.
  induction a as [|a IH]; intros l k; [reflexivity|].
  destruct l as [|x l]; [destruct k; reflexivity|]. cbn [skipn Nat.add nth_error]. apply IH.
Qed.

Lemma skip_is_skipn sl : exists k, skip_leading_comments sl = skipn k sl.
Proof.
  induction sl as [|t r [k IH]]; [exists 0%nat; reflexivity|].
  cbn [skip_leading_comments]. destruct (tk t); try (exists 0%nat; reflexivity).
  exists (S k). exact IH.
Qed.

(* the two tokens that delimit a fold: positions inside the token vector *)
Lemma fold_tokens toks a b f rest :
  skip_leading_comments (firstn (b - a) (skipn a toks)) = f :: rest ->
  exists kf kl last,
    nth_error toks kf = Some f /\ nth_error toks kl = Some last /\
    hd_error (rev (f :: rest)) = Some last /\
    (a <= kf)%nat /\ (kf <= kl)%nat /\ (kl < a + (b - a))%nat.
Proof.
  intros H. destruct (skip_is_skipn (firstn (b - a) (skipn a toks))) as [k0 Hk]. rewrite Hk in H.
  assert (Hl : exists last, hd_error (rev (f :: rest)) = Some last).
  { destruct (rev (f :: rest)) eqn:E; [|eexists; reflexivity]. apply (f_equal (@length _)) in E.
    rewrite rev_length in E. discriminate. }
  destruct Hl as [last Hl].
  assert (Hin : In last (f :: rest)).
  { apply in_rev. destruct (rev (f :: rest)); [discriminate|]. injection Hl as ->. now left. }
  apply In_nth_error in Hin as [m Hm]. rewrite <- H in Hm.
  assert (Hf : nth_error (skipn k0 (firstn (b - a) (skipn a toks))) 0 = Some f) by (rewrite H; reflexivity).
  rewrite nth_skipn in Hf, Hm.
  apply nth_firstn in Hf as [Hf Hf'], Hm as [Hm Hm']. rewrite nth_skipn in Hf, Hm.
  exists (a + (k0 + 0))%nat, (a + (k0 + m))%nat, last. repeat split; try assumption; lia.
Qed.

Lemma fold_tokens_ordered toks kf kl f last :
  toks_sorted toks = true -> nth_error toks kf = Some f -> nth_error toks kl = Some last ->
  (kf <= kl)%nat -> ts f <= te last.
Proof.
  intros Hs Hf Hl Hle. destruct (Nat.eq_dec kf kl) as [->|Hne].
  - rewrite Hf in Hl. injection Hl as <-. eapply sorted_self; eauto.
  - pose proof (sorted_pair _ Hs kf kl f last ltac:(lia) Hf Hl).
    pose proof (sorted_self _ Hs _ _ Hf). pose proof (sorted_self _ Hs _ _ Hl). lia.
Qed.

(* ---------------------------------------------------------------------------------------- *)
(* well-formedness                                                                           *)

(* start <= end < n, the ranges are in order and do not overlap (a range may start on the line on
   which its predecessor ends) *)
Fixpoint ranges_wf (n lo : N) (rs : list (N * N)) : Prop :=
  match rs with
  | [] => True
  | (s, e) :: r => lo <= s /\ s <= e /\ e < n /\ ranges_wf n e r
  end.

Lemma slice_ok toks a b :
  (a <= b)%nat -> (b <= length toks)%nat -> slice toks (a, b) = ROk (firstn (b - a) (skipn a toks)).
Proof.
  intros H1 H2. unfold slice. cbn [fst snd].
  destruct (Nat.ltb_spec b a); [lia|]. destruct (Nat.ltb_spec (length toks) b); [lia|]. reflexivity.
Qed.

Lemma fold_decls_wf (d : doc) :
  toks_sorted (d_toks d) = true ->
  forall (l : list (gdecl * nat)) (lo : nat) (L : N),
  ranges_chain (length (d_toks d)) lo (proc_ranges l) = true ->
  forallb (has_real (d_toks d)) (proc_ranges l) = true ->
  (forall j t, (lo <= j)%nat -> nth_error (d_toks d) j = Some t -> L <= line_of (d_text d) (ts t)) ->
  exists rs, fold_decls d l = ROk rs /\ ranges_wf (nlines (d_text d)) L rs.
Proof.
  intros Hs. induction l as [|[g off] l IH]; intros lo L Hc Hr HL.
  - exists []. split; [reflexivity | exact I].
  - destruct g as [td | p | inf]; cbn [proc_ranges fold_decls] in *; try (eapply IH; eauto).
    destruct (shift_range (info_range (pd_info p)) off) as [a b] eqn:Er.
    cbn [ranges_chain forallb] in Hc, Hr.
    apply andb_true_iff in Hr as [Hreal Hr].
    apply andb_true_iff in Hc as [Hc Hc4]. apply andb_true_iff in Hc as [Hc Hc3].
    apply andb_true_iff in Hc as [Hc1 Hc2].
    apply Nat.leb_le in Hc1, Hc2, Hc3.
    unfold fold_one. rewrite Er, (slice_ok _ _ _ Hc2 Hc3). cbn [rbind].
    unfold has_real in Hreal. cbn [fst snd] in Hreal.
    destruct (skip_leading_comments (firstn (b - a) (skipn a (d_toks d)))) as [|f rest] eqn:Esk; [discriminate|].
    destruct (fold_tokens _ _ _ _ _ Esk) as [kf [kl [last [Hf [Hl [Hlast [H1 [H2 H3]]]]]]]].
    unfold fold_text_range. rewrite Hlast. cbn [hd_error].
    destruct (IH b (line_of (d_text d) (te last)) Hc4 Hr) as [rs [Hrs Hwf]].
    { intros j t Hj Ht. apply line_of_mono. eapply (sorted_pair _ Hs kl j); eauto. lia. }
    rewrite Hrs. cbn [rbind]. eexists. split; [reflexivity|].
    cbn [ranges_wf pos_range fst snd]. fold (line_of (d_text d) (ts f)). fold (line_of (d_text d) (te last)).
    repeat split.
    + apply (HL kf f); [lia | exact Hf].
    + apply line_of_mono. eapply fold_tokens_ordered; eauto.
    + apply line_of_lt_nlines.
    + exact Hwf.
Qed.

Theorem fold_wellformed (d : doc) :
  fold_pre d = true ->
  exists rs, fold d = ROk rs /\ ranges_wf (nlines (d_text d)) 0 rs.
Proof.
  unfold fold_pre, fold. intros H.
  apply andb_true_iff in H as [H H3]. apply andb_true_iff in H as [H1 H2].
  apply (fold_decls_wf d H1 _ 0%nat 0 H2 H3). intros. lia.
Qed.

(* ---- documents produced by the pipeline: the token part of the predicate is a theorem ---- *)

Lemma ordered_sorted lo toks : Ordered lo toks -> toks_sorted toks = true.
Proof.
  induction 1 as [lo | lo t tl H1 H2 H3 H4 IH]; [reflexivity|].
  cbn [toks_sorted]. rewrite IH, andb_true_r. apply andb_true_iff. split; [now apply N.leb_le|].
  destruct tl as [|b tl']; [reflexivity|]. inversion H4; subst. now apply N.leb_le.
Qed.

Lemma new_doc_toks t d : new_doc_res t = ODone d -> d_text d = t /\ lex t = Some (d_toks d).
Proof.
  unfold new_doc_res. destruct (lex t) as [toks|]; [|discriminate].
  destruct (parse toks); try discriminate.
  destruct (build_res a) as [[p1 table]|]; [|discriminate].
  destruct (analyze_res p1 table); [|discriminate].
  intros [= <-]. split; reflexivity.
Qed.

Definition tree_pre (d : doc) : bool :=
  let rs := proc_ranges (pg_decls (d_ast d)) in
  ranges_chain (length (d_toks d)) 0 rs && forallb (has_real (d_toks d)) rs.

Theorem fold_wellformed_new_doc t d :
  new_doc_res t = ODone d -> tree_pre d = true ->
  exists rs, fold d = ROk rs /\ ranges_wf (nlines t) 0 rs.
Proof.
  intros Hd Hp. destruct (new_doc_toks t d Hd) as [Ht Hl]. rewrite <- Ht.
  apply fold_wellformed. unfold fold_pre. unfold tree_pre in Hp.
  rewrite (ordered_sorted 0 _ (tiles_ordered 0 t _ (lex_tiles t _ Hl))). exact Hp.
Qed.

(* ---------------------------------------------------------------------------------------- *)
(* one range per procedure declaration, in tree order, with the stated extents               *)

(* what the handler answers for one absolute token range *)
Definition extent_of (d : doc) (r : range) (se : N * N) : Prop :=
  exists sl, slice (d_toks d) r = ROk sl /\
    match skip_leading_comments sl with
    | [] => se = (line_of (d_text d) 0, line_of (d_text d) 0)
    | f :: rest =>
        exists last, hd_error (rev (f :: rest)) = Some last /\
                     se = (line_of (d_text d) (ts f), line_of (d_text d) (te last))
    end.

Lemma fold_decls_extents d : forall l rs,
  fold_decls d l = ROk rs -> Forall2 (extent_of d) (proc_ranges l) rs.
Proof.
  induction l as [|[g off] l IH]; intros rs H; cbn [fold_decls proc_ranges] in *.
  - injection H as <-. constructor.
  - destruct g as [td | p | inf]; try (apply IH; exact H).
    destruct (fold_one d p off) as [x|] eqn:E1; [|discriminate]. cbn [rbind] in H.
    destruct (fold_decls d l) as [xs|]; [|discriminate]. cbn [rbind] in H. injection H as <-.
    constructor; [|apply IH; reflexivity].
    unfold fold_one in E1.
    destruct (slice (d_toks d) (shift_range (info_range (pd_info p)) off)) as [sl|] eqn:Es; [|discriminate].
    cbn [rbind] in E1. injection E1 as <-. exists sl. split; [exact Es|].
    unfold fold_text_range.
    destruct (skip_leading_comments sl) as [|f rest] eqn:Esk; [reflexivity|].
    assert (Hl : exists last, hd_error (rev (f :: rest)) = Some last).
    { destruct (rev (f :: rest)) eqn:E; [|eexists; reflexivity]. apply (f_equal (@length _)) in E.
      rewrite rev_length in E. discriminate. }
    destruct Hl as [last Hl]. exists last. split; [exact Hl|]. rewrite Hl. reflexivity.
Qed.

Theorem fold_extents d rs :
  fold d = ROk rs -> Forall2 (extent_of d) (proc_ranges (pg_decls (d_ast d))) rs.
Proof. apply fold_decls_extents. Qed.

Definition is_proc (x : gdecl * nat) : bool := match fst x with GProc _ => true | _ => false end.

Lemma proc_ranges_length l : length (proc_ranges l) = length (filter is_proc l).
Proof.
  induction l as [|[g off] l IH]; [reflexivity|].
  destruct g; cbn [proc_ranges filter is_proc fst length]; now rewrite ?IH.
Qed.

Lemma forall2_length {A B} (R : A -> B -> Prop) l1 l2 : Forall2 R l1 l2 -> length l1 = length l2.
Proof. induction 1; cbn [length]; congruence. Qed.

Theorem fold_count d rs :
  fold d = ROk rs -> length rs = length (filter is_proc (pg_decls (d_ast d))).
Proof.
  intros H. apply fold_extents in H. apply forall2_length in H. now rewrite <- H, proc_ranges_length.
Qed.
