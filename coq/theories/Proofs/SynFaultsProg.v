(* C03 - syntax faults, family A: the procedure around the faulty body, the program around the procedure, `parse`. *)
From Coq Require Import List Lia Arith Bool.
From Spl Require Import Spec.Grammar Model.Parser Proofs.GrammarBase Proofs.GrammarExpr Proofs.GrammarStmt Proofs.GrammarProg
  Proofs.SynFaults Proofs.SynFaultsStmt.
Import ListNotations.
Local Open Scope nat_scope.

Ltac side := first [lia | assumption].

Section FProg.
Variable toks : list token.
Notation at_ := (at_ toks).

Lemma ffl_decl_len c1 c2 x c3 ps c4 c5 vs b c6 :
  len (ffl_decl (FProc c1 c2 x c3 ps c4 c5 vs b c6)) =
  len c1 + 1 + len c2 + 1 + len c3 + 1 + len (fl_sep fl_param ps) + len c4 + 1 + len c5 + 1 +
  len (flat_map fl_vardecl vs) + len (ffl_stmts b) + len c6 + 1.
Proof. cbn [ffl_decl]. flens'. lia. Qed.

(* no variable declaration starts where the faulty body starts *)
Lemma fstmts_head b c6 rest : exists c kd tl, ffl_stmts b ++ cm c6 ++ RCurly :: rest = cm c ++ kd :: tl /\ sig kd = true /\
  stmt_first kd = true.
Proof.
  destruct b as [s r|s r]; cbn [ffl_stmts].
  - destruct (fstmt_head s) as (c & kd & tl & -> & Hs & Hk). rewrite <- !app_assoc. cbn [app]. now eexists c, kd, _.
  - destruct (stmt_head s) as (c & kd & tl & -> & Hs & Hk). rewrite <- !app_assoc. cbn [app]. now eexists c, kd, _.
Qed.

(* look_ahead::var_dec in front of the faulty body: it depends on the first two significant tokens only, and those are
   the first tokens of a statement with or without its `;` *)
Lemma la_var_dec_fstmt s Z k : at_ k (ffl_stmt s ++ Z) -> la_var_dec toks k = true.
Proof.
  intros H. unfold la_var_dec, la_stmt, la_global.
  destruct s as [v c1 e|c1 f c2 a c3|c1 c2 e c3 t|c1 c2 e c3 t c4 s'|c1 c2 e c3 t c4 s'|c1 c2 e c3 b|c1 b c2]; cbn [ffl_stmt] in H; flat_in H.
  - rewrite fl_var_head in H. flat_in H.
    destruct (var_tl_next v c1 Assign (fl_cmp e ++ Z) eq_refl) as (c & kd & Z' & E & Hs & Hk).
    rewrite E in H. rewrite !(la_tag_at toks _ _ _ _ _ H eq_refl), !(la_ident_then_at toks _ _ _ _ _ H eq_refl).
    cbn [is_ident]. apply at_cm_cons in H. rewrite !(la_tag_at toks _ _ _ _ _ H Hs).
    destruct Hk as [-> | ->]; reflexivity.
  - rewrite !(la_tag_at toks _ _ _ _ _ H eq_refl), !(la_ident_then_at toks _ _ _ _ _ H eq_refl).
    cbn [is_ident]. apply at_cm_cons in H. rewrite !(la_tag_at toks _ _ _ _ _ H eq_refl). reflexivity.
  - rewrite !(la_tag_at toks _ _ _ _ _ H eq_refl). reflexivity.
  - rewrite !(la_tag_at toks _ _ _ _ _ H eq_refl). reflexivity.
  - rewrite !(la_tag_at toks _ _ _ _ _ H eq_refl). reflexivity.
  - rewrite !(la_tag_at toks _ _ _ _ _ H eq_refl). reflexivity.
  - rewrite !(la_tag_at toks _ _ _ _ _ H eq_refl). reflexivity.
Qed.

Lemma fvardecl_no b c6 rest k r fuel : at_ k (ffl_stmts b ++ cm c6 ++ RCurly :: rest) ->
  exists e, vardecl_ref toks fuel (mk k r) = PErr e.
Proof.
  intros H.
  assert (Hla : la_var_dec toks k = true).
  { destruct b as [s r0|s r0]; cbn [ffl_stmts] in H; rewrite <- app_assoc in H;
      [eapply la_var_dec_fstmt | eapply la_var_dec_stmt]; exact H. }
  destruct (fstmts_head b c6 rest) as (c & kd & tl & E & Hs & Hk). rewrite E in H.
  unfold vardecl_ref, p_vardecl. comb. rewrite (p_comments_at toks k k _ _ _ H Hs). norm. apply at_cm in H.
  rewrite (p_tag_no toks (is_k KVar) _ k [] _ _ H Hs) by (destruct kd; try discriminate; reflexivity).
  unfold p_ignore1. cbn [pos]. rewrite Hla. eexists; reflexivity.
Qed.

(* ---- the faulty procedure ---- *)
Lemma fdecl_ok d k rest fuel : decl_ok (orig_decl d) = true -> 6 * len (ffl_decl d) + 14 <= fuel -> at_ k (ffl_decl d ++ rest) ->
  fol gapfol (after_decl d rest) ->
  p_gdecl toks fuel (mk k k) = POk (mk (k + len (ffl_decl d)) k) (fx_decl d).
Proof.
  intros Hok Hf H Hgap. destruct d as [c1 c2 x c3 ps c4 c5 vs b c6].
  pose proof (ffl_decl_len c1 c2 x c3 ps c4 c5 vs b c6) as Hl. cbn [ffl_decl] in H. flat_in H.
  cbn [orig_decl decl_ok] in Hok. cbn [after_decl] in Hgap.
  unfold p_gdecl, p_typedecl. comb.
  rewrite (p_comments_at toks k k _ _ _ H eq_refl). norm.
  rewrite p_procdecl_eq. comb. rewrite (p_comments_at toks k k _ _ _ H eq_refl). norm. apply at_cm in H.
  rewrite (p_tag_no toks (is_k KType) _ k [] _ _ H eq_refl eq_refl).
  destruct (p_tag_at0 toks (is_k KProc) _ k _ _ H eq_refl) as (t0 & _ & E0). rewrite E0; ifs; norm. apply at_cons in H.
  rewrite (p_ident_at toks _ k _ _ _ H) by lia. norm. apply at_cm_cons in H.
  destruct (p_tag_at toks (is_k LParen) _ k _ _ _ H eq_refl) as (t1 & _ & E1). rewrite E1; ifs; norm.
  apply at_cm_cons in H.
  assert (Hb : match ps with Some (_, l) => len l < fuel | None => True end).
  { destruct ps as [[p l]|]; [|exact I]. pose proof (tail_len_le fl_param l). cbn [fl_sep] in Hl. rewrite app_length in Hl. lia. }
  destruct ps as [[p l]|].
  + destruct (param_head p) as (c & kd & tl & E & Hs & Hk). pose proof H as H0. cbn [fl_sep] in H0. rewrite E in H0. flat_in H0.
    rewrite (la_tag_at toks _ _ _ _ _ H0 Hs), Hk. norm.
    rewrite (list_ok toks fl_param x_param (p_paramdecl toks fuel) (len (fl_sep fl_param (Some (p, l))))
               (param_ok toks fuel (len (fl_sep fl_param (Some (p, l)))) ltac:(lia)) p l (k + len c1 + 1 + len c2 + 1 + len c3 + 1) k
               (cm c4 ++ RParen :: cm c5 ++ LCurly :: flat_map fl_vardecl vs ++ ffl_stmts b ++ cm c6 ++ RCurly :: rest)
               fuel ltac:(lia) (le_n _) Hb H (fol_here (is_k RParen) c4 RParen _ eq_refl eq_refl)).
    norm. apply at_app in H.
    destruct (p_tag_at toks (is_k RParen) _ k _ _ _ H eq_refl) as (t2 & _ & E2). rewrite E2; ifs; norm.
    apply at_cm_cons in H.
    destruct (p_tag_at toks (is_k LCurly) _ k _ _ _ H eq_refl) as (t3 & _ & E3). rewrite E3; ifs; norm.
    apply at_cm_cons in H.
    match type of H with at_ ?k1 _ =>
      pose proof (vardecls_steps toks vs k1 k _ fuel ltac:(lia) ltac:(lia) H) as Hst1;
      pose proof (x_vardecls_len (k1 - k) vs) as Hn1; apply at_app in H;
      destruct (fvardecl_no b c6 rest (k1 + len (flat_map fl_vardecl vs)) k fuel H) as (e1 & Ee1) end.
    rewrite (many0_steps' _ _ _ _ _ fuel Hst1 Ee1 ltac:(lia)). norm.
    match type of H with at_ ?k2 _ =>
      pose proof (fstmts_ok toks b k2 k _ fuel ltac:(lia) ltac:(lia) Hok H (fol_here (is_k RCurly) c6 RCurly rest eq_refl eq_refl) Hgap) as Hst2;
      pose proof (fx_stmts_len (k2 - k) b) as Hn2; apply at_app in H end.
    match type of H with at_ ?k3 _ =>
      destruct (stmt_no_rcurly toks k3 k3 _ _ fuel H ltac:(lia)) as (e2 & Ee2);
      assert (Ee2' : stmt_ref toks fuel (mk k3 k) = PErr (set_refp e2 k)) by (unfold stmt_ref; comb; now rewrite Ee2) end.
    rewrite (many0_steps' _ _ _ _ _ fuel Hst2 Ee2' ltac:(lia)). norm.
    destruct (p_tag_at toks (is_k RCurly) _ k _ _ _ H eq_refl) as (t4 & _ & E4). rewrite E4; ifs; norm.
    rewrite !Nat.sub_diag. cbn [fx_decl]. unfold mkinfo. rewrite Hl. cbn [fl_sep]. fteq.
  + cbn [fl_sep app length] in *.
    rewrite (la_tag_at toks _ _ _ _ _ H eq_refl). norm.
    destruct (p_tag_at toks (is_k RParen) _ k _ _ _ H eq_refl) as (t2 & _ & E2). rewrite E2; ifs; norm.
    apply at_cm_cons in H.
    destruct (p_tag_at toks (is_k LCurly) _ k _ _ _ H eq_refl) as (t3 & _ & E3). rewrite E3; ifs; norm.
    apply at_cm_cons in H.
    match type of H with at_ ?k1 _ =>
      pose proof (vardecls_steps toks vs k1 k _ fuel ltac:(lia) ltac:(lia) H) as Hst1;
      pose proof (x_vardecls_len (k1 - k) vs) as Hn1; apply at_app in H;
      destruct (fvardecl_no b c6 rest (k1 + len (flat_map fl_vardecl vs)) k fuel H) as (e1 & Ee1) end.
    rewrite (many0_steps' _ _ _ _ _ fuel Hst1 Ee1 ltac:(lia)). norm.
    match type of H with at_ ?k2 _ =>
      pose proof (fstmts_ok toks b k2 k _ fuel ltac:(lia) ltac:(lia) Hok H (fol_here (is_k RCurly) c6 RCurly rest eq_refl eq_refl) Hgap) as Hst2;
      pose proof (fx_stmts_len (k2 - k) b) as Hn2; apply at_app in H end.
    match type of H with at_ ?k3 _ =>
      destruct (stmt_no_rcurly toks k3 k3 _ _ fuel H ltac:(lia)) as (e2 & Ee2);
      assert (Ee2' : stmt_ref toks fuel (mk k3 k) = PErr (set_refp e2 k)) by (unfold stmt_ref; comb; now rewrite Ee2) end.
    rewrite (many0_steps' _ _ _ _ _ fuel Hst2 Ee2' ltac:(lia)). norm.
    destruct (p_tag_at toks (is_k RCurly) _ k _ _ _ H eq_refl) as (t4 & _ & E4). rewrite E4; ifs; norm.
    rewrite !Nat.sub_diag. cbn [fx_decl x_sep fl_sep length]. unfold mkinfo. rewrite Hl. fteq.
Qed.

(* ---- the program ---- *)
Lemma fprogram_ok p fuel : fprog_ok p = true -> 6 * len (fflatten p) + 14 <= fuel -> at_ 0 (fflatten p ++ [Eof]) ->
  p_program toks fuel (mk 0 0) = POk (mk (len (fflatten p) + 1) 0) (fexpected p).
Proof.
  intros Hok Hf H. destruct p as [pre d post ceof]. unfold fprog_ok in Hok. apply andb_prop in Hok. destruct Hok as [Hok Hgo].
  unfold prog_ok, orig_prog in Hok. cbn [a_decls fp_pre fp_decl fp_post] in Hok.
  rewrite forallb_app in Hok. cbn [forallb] in Hok. apply andb_prop in Hok. destruct Hok as [Hok1 Hok23].
  apply andb_prop in Hok23. destruct Hok23 as [Hok2 Hok3].
  unfold after_prog in Hgo. cbn [fp_decl fp_post fp_ceof] in Hgo.
  unfold fflatten in *. cbn [fp_pre fp_decl fp_post fp_ceof] in *. rewrite !app_length, cm_length in *. flat_in H.
  pose proof (gap_decl_lt d) as Hdpos.
  assert (Hgap : fol gapfol (after_decl d (flat_map fl_decl post ++ cm ceof ++ [Eof]))).
  { apply gap_open_fol; [|exact Hgo]. destruct d as [c1 c2 x c3 ps c4 c5 vs b c6]. cbn [after_decl].
    apply (proj2 after_stopper). apply fol_here; reflexivity. }
  rewrite p_program_eq. comb.
  pose proof (gdecls_steps toks pre 0 0 _ fuel (le_n _) Hok1 ltac:(lia) H) as Hst1.
  apply at_app in H. cbn [Nat.add] in H, Hst1. rewrite Nat.sub_diag in Hst1.
  assert (Hst2 : steps (gdecl_ref toks fuel) (mk (len (flat_map fl_decl pre)) 0) [(fx_decl d, len (flat_map fl_decl pre))]
                   (mk (len (flat_map fl_decl pre) + len (ffl_decl d)) 0)).
  { eapply steps_cons; [| |apply steps_nil].
    - unfold gdecl_ref. comb. rewrite (fdecl_ok d _ (flat_map fl_decl post ++ cm ceof ++ [Eof]) fuel Hok2 ltac:(lia) H Hgap).
      norm. rewrite Nat.sub_0_r. reflexivity.
    - cbn [pos]. lia. }
  apply at_app in H.
  pose proof (gdecls_steps toks post (len (flat_map fl_decl pre) + len (ffl_decl d)) 0 _ fuel ltac:(lia) Hok3 ltac:(lia) H) as Hst3.
  rewrite Nat.sub_0_r in Hst3.
  pose proof (steps_app _ _ _ _ _ _ Hst1 (steps_app _ _ _ _ _ _ Hst2 Hst3)) as Hst. cbn [app] in Hst.
  pose proof (x_decls_len 0 pre) as Hn1.
  pose proof (x_decls_len (len (flat_map fl_decl pre) + len (ffl_decl d)) post) as Hn3.
  apply at_app in H.
  destruct (gdecl_no_eof toks _ 0 _ fuel H) as (e & Ee).
  rewrite (many0_steps' _ _ _ _ _ fuel Hst Ee) by (rewrite app_length; cbn [length]; lia). norm.
  unfold p_eof_all. comb.
  destruct (p_tag_at toks (is_k Eof) _ 0 _ _ _ H eq_refl) as (t & _ & E). rewrite E; ifs; norm.
  destruct (at_length toks _ _ H) as [Hlen|[Hx _]]; [|apply (f_equal (@length _)) in Hx; rewrite app_length in Hx; cbn in Hx; lia].
  rewrite app_length, cm_length in Hlen. cbn [length] in Hlen.
  match goal with |- context [?a <? length toks] => replace (a <? length toks) with false by (symmetry; apply Nat.ltb_ge; lia) end.
  norm. unfold fexpected. cbn [fp_pre fp_decl fp_post]. unfold mkinfo. fteq.
Qed.

End FProg.

(* ---- C03, syntax faults (family A), tree level: the parser returns the mandated tree with its ONE error ---- *)
Theorem fparse p toks : fprog_ok p = true -> map tk toks = fflatten p ++ [Eof] -> parse toks = Done (fexpected p).
Proof.
  intros Hok H. unfold parse.
  assert (Hlen : length toks = len (fflatten p) + 1).
  { rewrite <- (map_length tk), H, app_length. reflexivity. }
  rewrite (fprogram_ok toks p (parse_fuel toks) Hok); [reflexivity| |exact H].
  unfold parse_fuel. lia.
Qed.
