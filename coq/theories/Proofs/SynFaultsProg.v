(* C03 - syntax faults: the declaration around the fault, the program around the declaration, `parse`. *)
From Coq Require Import List Lia Arith Bool.
From Spl Require Import Spec.Grammar Model.Parser Proofs.GrammarBase Proofs.GrammarExpr Proofs.GrammarStmt Proofs.GrammarProg.
From Spl Require Import Proofs.SynFaults Proofs.SynFaultsEP Proofs.SynFaultsArgs Proofs.SynFaultsStmt.
Import ListNotations.
Local Open Scope nat_scope.

Ltac side := first [lia | assumption].

(* what stands behind a global declaration: `proc`, `type`, or the end *)
Definition is_glob (kd : kind) : bool := match kd with KProc | KType | Eof => true | _ => false end.

Lemma decls_glob ds ceof : fol is_glob (flat_map fl_decl ds ++ cm ceof ++ [Eof]).
Proof.
  destruct ds as [|d ds]; cbn [flat_map app].
  - apply fol_here; reflexivity.
  - destruct d as [c1 c2 x c3 t c4|c1 c2 x c3 ps c4 c5 vs b c6]; cbn [fl_decl]; rewrite <- !app_assoc; cbn [app]; apply fol_here; reflexivity.
Qed.

Section FProg.
Variable toks : list token.
Notation at_ := (at_ toks).

(* ---- statement sequences followed by anything that is not `else` (GrammarStmt.v asks for `}`) ---- *)
Lemma stmts_ok_g b : forall k r rest f, r <= k -> 6 * len (fl_stmts b) + 7 <= f -> else_oks b = true ->
  at_ k (fl_stmts b ++ rest) -> fol noelse rest ->
  steps (stmt_ref toks f) (mk k r) (x_stmts (k - r) b) (mk (k + len (fl_stmts b)) r).
Proof.
  induction b as [|s b IH]; intros k r rest f Hr Hf Hok H Hfol.
  - cbn [fl_stmts length x_stmts]. rewrite Nat.add_0_r. constructor.
  - cbn [fl_stmts] in *. rewrite app_length in *. flat_in H.
    cbn [else_oks] in Hok. apply andb_prop in Hok. destruct Hok as [Hok1 Hok2].
    pose proof (stmt_len_pos s) as Hp.
    assert (Hfs : open_if s = true -> fol noelse (fl_stmts b ++ rest)).
    { intros _. destruct b as [|s1 b1]; cbn [fl_stmts app]; [exact Hfol|].
      destruct (stmt_head s1) as (c & kd & tl & -> & Hs & Hk). rewrite <- !app_assoc. cbn [app].
      apply fol_here; [exact Hs|]. destruct kd; try discriminate; reflexivity. }
    cbn [x_stmts]. eapply steps_cons with (s1 := mk (k + len (fl_stmt s)) r).
    + unfold stmt_ref. comb. rewrite (proj1 (stmt_all toks) s k k (fl_stmts b ++ rest) f (le_n _)) by side. norm. now rewrite Nat.sub_diag.
    + cbn [pos]. lia.
    + apply at_app in H. specialize (IH (k + len (fl_stmt s)) r rest f ltac:(lia) ltac:(lia) Hok2 H Hfol).
      replace (k + len (fl_stmt s) - r) with (k - r + len (fl_stmt s)) in IH by lia.
      now rewrite Nat.add_assoc.
Qed.

(* a statement parser at `proc`, `type` or the end fails *)
Lemma stmt_no_glob k r c kd rest fuel : at_ k (cm c ++ kd :: rest) -> sig kd = true -> is_glob kd = true -> 2 <= fuel ->
  exists e, p_stmt toks fuel (mk k r) = PErr e.
Proof.
  intros H Hs Hg Hf. destruct fuel as [|f]; [lia|]. rewrite p_stmt_S. comb.
  assert (Hid : is_ident kd = false) by (destruct kd; try discriminate; reflexivity).
  rewrite (p_tag_no toks (is_k Semic) k r _ _ _ H Hs) by (destruct kd; try discriminate; reflexivity).
  rewrite (p_tag_no toks (is_k KIf) k r _ _ _ H Hs) by (destruct kd; try discriminate; reflexivity).
  rewrite (p_tag_no toks (is_k KWhile) k r _ _ _ H Hs) by (destruct kd; try discriminate; reflexivity).
  rewrite (p_tag_no toks (is_k LCurly) k r _ _ _ H Hs) by (destruct kd; try discriminate; reflexivity).
  rewrite (call_no_ident toks k r _ _ _ f H Hs Hid).
  rewrite (assign_no_ident toks k r _ _ _ f H Hs Hid ltac:(lia)).
  unfold p_restore, p_comments, p_ignore1. comb. rewrite (comments_at_ok toks _ _ _ _ H Hs).
  apply at_cm in H. unfold la_stmt, la_global. rewrite !(la_tag_at toks _ _ [] _ _ H Hs).
  replace (match kd with KProc | KType | Eof => true | _ => false end) with true by (symmetry; exact Hg).
  rewrite !orb_true_r. eexists; reflexivity.
Qed.

(* no variable declaration starts where a statement sequence followed by `proc`, `type` or the end starts *)
Lemma vardecl_no_glob b rest k r fuel : at_ k (fl_stmts b ++ rest) -> fol is_glob rest ->
  exists e, vardecl_ref toks fuel (mk k r) = PErr e.
Proof.
  intros H Hfol.
  assert (Hh : exists c kd tl, fl_stmts b ++ rest = cm c ++ kd :: tl /\ sig kd = true /\ is_k KVar kd = false /\ la_var_dec toks k = true).
  { destruct b as [|s b]; cbn [fl_stmts app] in *.
    - destruct Hfol as (c & kd & tl & -> & Hs & Hg). exists c, kd, tl. split; [reflexivity|]. split; [exact Hs|].
      split; [destruct kd; try discriminate; reflexivity|].
      unfold la_var_dec, la_stmt, la_global. rewrite !(la_tag_at toks _ _ _ _ _ H Hs).
      replace (match kd with KProc | KType | Eof => true | _ => false end) with true by (symmetry; exact Hg).
      rewrite !orb_true_r. reflexivity.
    - rewrite <- app_assoc in H. pose proof (la_var_dec_stmt toks s _ _ H) as Hla.
      destruct (stmt_head s) as (c & kd & tl & -> & Hs & Hk). rewrite <- !app_assoc. cbn [app].
      eexists c, kd, _. split; [reflexivity|]. split; [exact Hs|]. split; [destruct kd; try discriminate; reflexivity | exact Hla]. }
  destruct Hh as (c & kd & tl & E & Hs & Hk & Hla). rewrite E in H.
  unfold vardecl_ref, p_vardecl. comb. rewrite (p_comments_at toks k k _ _ _ H Hs). norm. apply at_cm in H.
  rewrite (p_tag_no toks (is_k KVar) _ k [] _ _ H Hs Hk).
  unfold p_ignore1. cbn [pos]. rewrite Hla. eexists; reflexivity.
Qed.

(* no variable declaration starts where the faulty body starts *)
Lemma fstmts_head b c6 rest : exists c kd tl, ffl_stmts b ++ cm c6 ++ RCurly :: rest = cm c ++ kd :: tl /\ sig kd = true /\
  stmt_first kd = true.
Proof.
  destruct b as [s r|s r]; cbn [ffl_stmts].
  - destruct (fstmt_head s) as (c & kd & tl & -> & Hs & Hk). rewrite <- !app_assoc. cbn [app]. now eexists c, kd, _.
  - destruct (stmt_head s) as (c & kd & tl & -> & Hs & Hk). rewrite <- !app_assoc. cbn [app]. now eexists c, kd, _.
Qed.

(* look_ahead::var_dec in front of the faulty body: it depends on the first two significant tokens only *)
Lemma la_var_dec_fstmt s Z k : at_ k (ffl_stmt s ++ Z) -> la_var_dec toks k = true.
Proof.
  intros H. unfold la_var_dec, la_stmt, la_global.
  destruct s as [v c1 e|c1 f c2 a c3|c1 f c2 a c4|c1 c2 e t|c1 c2 e t c4 s'|c1 c2 e b
                |v c1 e c2|v c1 e c2|c1 c2 e c3 t|c1 c2 e c3 t c4 s'|c1 c2 e c3 b|c1 f c2 a c3 c4
                |c1 c2 e c3 t|c1 c2 e c3 t c4 s'|c1 c2 e c3 t c4 s'|c1 c2 e c3 b|c1 b c2]; cbn [ffl_stmt] in H; flat_in H.
  - rewrite fl_var_head in H. flat_in H.
    destruct (var_tl_next v c1 Assign (fl_cmp e ++ Z) eq_refl) as (c & kd & Z' & E & Hs & Hk).
    rewrite E in H. rewrite !(la_tag_at toks _ _ _ _ _ H eq_refl), !(la_ident_then_at toks _ _ _ _ _ H eq_refl).
    cbn [is_ident]. apply at_cm_cons in H. rewrite !(la_tag_at toks _ _ _ _ _ H Hs).
    destruct Hk as [-> | ->]; reflexivity.
  - rewrite !(la_tag_at toks _ _ _ _ _ H eq_refl), !(la_ident_then_at toks _ _ _ _ _ H eq_refl).
    cbn [is_ident]. apply at_cm_cons in H. rewrite !(la_tag_at toks _ _ _ _ _ H eq_refl). reflexivity.
  - rewrite !(la_tag_at toks _ _ _ _ _ H eq_refl), !(la_ident_then_at toks _ _ _ _ _ H eq_refl).
    cbn [is_ident]. apply at_cm_cons in H. rewrite !(la_tag_at toks _ _ _ _ _ H eq_refl). reflexivity.
  - rewrite !(la_tag_at toks _ _ _ _ _ H eq_refl). reflexivity.
  - rewrite !(la_tag_at toks _ _ _ _ _ H eq_refl). reflexivity.
  - rewrite !(la_tag_at toks _ _ _ _ _ H eq_refl). reflexivity.
  - rewrite SynFaultsEP.ffl_var_head in H. flat_in H.
    destruct (fvar_tl_next v (cm c1 ++ Assign :: fl_cmp e ++ cm c2 ++ Semic :: Z)) as (c & Z' & E).
    rewrite E in H. rewrite !(la_tag_at toks _ _ _ _ _ H eq_refl), !(la_ident_then_at toks _ _ _ _ _ H eq_refl).
    cbn [is_ident]. apply at_cm_cons in H. rewrite !(la_tag_at toks _ _ _ _ _ H eq_refl). reflexivity.
  - rewrite fl_var_head in H. flat_in H.
    destruct (var_tl_next v c1 Assign (ffl_cmp e ++ cm c2 ++ Semic :: Z) eq_refl) as (c & kd & Z' & E & Hs & Hk).
    rewrite E in H. rewrite !(la_tag_at toks _ _ _ _ _ H eq_refl), !(la_ident_then_at toks _ _ _ _ _ H eq_refl).
    cbn [is_ident]. apply at_cm_cons in H. rewrite !(la_tag_at toks _ _ _ _ _ H Hs).
    destruct Hk as [-> | ->]; reflexivity.
  - rewrite !(la_tag_at toks _ _ _ _ _ H eq_refl). reflexivity.
  - rewrite !(la_tag_at toks _ _ _ _ _ H eq_refl). reflexivity.
  - rewrite !(la_tag_at toks _ _ _ _ _ H eq_refl). reflexivity.
  - rewrite !(la_tag_at toks _ _ _ _ _ H eq_refl), !(la_ident_then_at toks _ _ _ _ _ H eq_refl).
    cbn [is_ident]. apply at_cm_cons in H. rewrite !(la_tag_at toks _ _ _ _ _ H eq_refl). reflexivity.
  - rewrite !(la_tag_at toks _ _ _ _ _ H eq_refl). reflexivity.
  - rewrite !(la_tag_at toks _ _ _ _ _ H eq_refl). reflexivity.
  - rewrite !(la_tag_at toks _ _ _ _ _ H eq_refl). reflexivity.
  - rewrite !(la_tag_at toks _ _ _ _ _ H eq_refl). reflexivity.
  - rewrite !(la_tag_at toks _ _ _ _ _ H eq_refl). reflexivity.
Qed.

Lemma fvardecl_no b c6 rest k r fuel : at_ k (ffl_stmts b ++ cm c6 ++ RCurly :: rest) ->
  exists e, vardecl_ref toks fuel (mk k r) = PErr e.
Proof.
  intros H.
  assert (Hla : la_var_dec toks k = true).
  { destruct b as [s r0|s r0]; cbn [ffl_stmts] in H; rewrite <- app_assoc in H;
      [eapply la_var_dec_fstmt | eapply la_var_dec_stmt]; exact H. }
  destruct (fstmts_head b c6 rest) as (c & kd & tl & E & Hs & Hk). rewrite E in H.
  unfold vardecl_ref, p_vardecl. comb. rewrite (p_comments_at toks k k _ _ _ H Hs). norm. apply at_cm in H.
  rewrite (p_tag_no toks (is_k KVar) _ k [] _ _ H Hs) by (destruct kd; try discriminate; reflexivity).
  unfold p_ignore1. cbn [pos]. rewrite Hla. eexists; reflexivity.
Qed.

(* ---- the head of a procedure declaration, whatever its body does ---- *)
Definition body_p (fuel : nat) : parser (list (vardecl * nat) * (list (stmt * nat) * option token)) :=
  p_pair (p_many0 fuel (vardecl_ref toks fuel))
         (p_pair (p_many0 fuel (stmt_ref toks fuel)) (p_expect (p_tag toks (is_k RCurly)) (MissingClosing 125%N))).

Lemma p_procdecl_body fuel s :
  p_procdecl toks fuel s =
  p_map (fun r => let '((doc, (_, (name, (_, (params, (_, (_, (vars, (stmts, _))))))))), inf) := r in
                  {| pd_doc := doc; pd_name := name; pd_params := params; pd_vars := vars; pd_stmts := stmts; pd_info := inf |})
    (p_info (p_pair (p_comments toks)
            (p_pair (p_tag toks (is_k KProc))
            (p_pair (p_expect (p_ident toks) (ExpectedToken s_identifier))
            (p_pair (p_expect (p_tag toks (is_k LParen)) (MissingOpening 40%N))
            (p_pair (p_alt (p_map (fun _ => []) (p_peek_la (la_tag toks (fun k => match k with RParen | LCurly | Eof => true | _ => false end))))
                           (p_list toks fuel (p_paramdecl toks fuel)))
            (p_pair (p_expect (p_tag toks (is_k RParen)) (MissingClosing 41%N))
            (p_pair (p_expect (p_tag toks (is_k LCurly)) (MissingOpening 123%N))
                    (body_p fuel))))))))) s.
Proof. reflexivity. Qed.

Lemma prochead_len c1 c2 x c3 ps c4 c5 :
  len (fl_prochead c1 c2 x c3 ps c4 c5) = len c1 + 1 + len c2 + 1 + len c3 + 1 + len (fl_sep fl_param ps) + len c4 + 1 + len c5 + 1.
Proof. flens. lia. Qed.

Lemma prochead_ok c1 c2 x c3 ps c4 c5 Z k fuel s' vars stmts rc :
  at_ k (fl_prochead c1 c2 x c3 ps c4 c5 ++ Z) -> len (fl_prochead c1 c2 x c3 ps c4 c5) <= fuel ->
  body_p fuel (mk (k + len (fl_prochead c1 c2 x c3 ps c4 c5)) k) = POk s' (vars, (stmts, rc)) ->
  p_gdecl toks fuel (mk k k) =
  POk (set_ebuf s' [])
      (GProc {| pd_doc := c1; pd_name := Some (x_ident (len c1 + 1) c2 x);
                pd_params := x_sep fl_param x_param (len c1 + 1 + len c2 + 1 + len c3 + 1) ps;
                pd_vars := vars; pd_stmts := stmts;
                pd_info := {| i_s := 0; i_e := pos s' - k; i_errs := ebuf s' |} |}).
Proof.
  intros H Hf Hbody. pose proof (prochead_len c1 c2 x c3 ps c4 c5) as Hl. rewrite Hl in *. unfold fl_prochead in H. flat_in H.
  unfold p_gdecl, p_typedecl. comb.
  rewrite (p_comments_at toks k k _ _ _ H eq_refl). norm.
  rewrite p_procdecl_body. comb. rewrite (p_comments_at toks k k _ _ _ H eq_refl). norm. apply at_cm in H.
  rewrite (p_tag_no toks (is_k KType) _ k [] _ _ H eq_refl eq_refl).
  destruct (p_tag_at0 toks (is_k KProc) _ k _ _ H eq_refl) as (t0 & _ & E0). rewrite E0; ifs; norm. apply at_cons in H.
  rewrite (p_ident_at toks _ k _ _ _ H) by lia. norm. apply at_cm_cons in H.
  destruct (p_tag_at toks (is_k LParen) _ k _ _ _ H eq_refl) as (t1 & _ & E1). rewrite E1; ifs; norm.
  apply at_cm_cons in H.
  assert (Hb : match ps with Some (_, l) => len l < fuel | None => True end).
  { destruct ps as [[p l]|]; [|exact I]. pose proof (tail_len_le fl_param l). cbn [fl_sep] in Hf. rewrite app_length in Hf. lia. }
  destruct ps as [[p l]|].
  + destruct (param_head p) as (c & kd & tl & E & Hs & Hk). pose proof H as H0. cbn [fl_sep] in H0. rewrite E in H0. flat_in H0.
    rewrite (la_tag_at toks _ _ _ _ _ H0 Hs), Hk. norm.
    rewrite (list_ok toks fl_param x_param (p_paramdecl toks fuel) (len (fl_sep fl_param (Some (p, l))))
               (param_ok toks fuel (len (fl_sep fl_param (Some (p, l)))) ltac:(lia)) p l (k + len c1 + 1 + len c2 + 1 + len c3 + 1) k
               (cm c4 ++ RParen :: cm c5 ++ LCurly :: Z)
               fuel ltac:(lia) (le_n _) Hb H (fol_here (is_k RParen) c4 RParen _ eq_refl eq_refl)).
    norm. apply at_app in H.
    destruct (p_tag_at toks (is_k RParen) _ k _ _ _ H eq_refl) as (t2 & _ & E2). rewrite E2; ifs; norm.
    apply at_cm_cons in H.
    destruct (p_tag_at toks (is_k LCurly) _ k _ _ _ H eq_refl) as (t3 & _ & E3). rewrite E3; ifs; norm.
    match goal with |- context [body_p fuel (mk ?a k)] =>
      match type of Hbody with body_p fuel (mk ?b k) = _ => replace a with b by (cbn [fl_sep length]; lia) end end.
    rewrite Hbody. norm. rewrite !Nat.sub_diag. unfold x_ident, mkinfo. teq.
  + cbn [fl_sep app length] in *.
    rewrite (la_tag_at toks _ _ _ _ _ H eq_refl). norm.
    destruct (p_tag_at toks (is_k RParen) _ k _ _ _ H eq_refl) as (t2 & _ & E2). rewrite E2; ifs; norm.
    apply at_cm_cons in H.
    destruct (p_tag_at toks (is_k LCurly) _ k _ _ _ H eq_refl) as (t3 & _ & E3). rewrite E3; ifs; norm.
    match goal with |- context [body_p fuel (mk ?a k)] =>
      match type of Hbody with body_p fuel (mk ?b k) = _ => replace a with b by (cbn [fl_sep length]; lia) end end.
    rewrite Hbody. norm. rewrite !Nat.sub_diag. cbn [x_sep]. unfold x_ident, mkinfo. teq.
Qed.

(* ---- the bodies ---- *)
(* the fault is in a statement of the body *)
Lemma body_stmts vs b c6 k0 k rest fuel : k0 <= k -> 6 * (len (flat_map fl_vardecl vs) + len (ffl_stmts b)) + 13 <= fuel ->
  else_oks (orig_stmts b) = true -> at_ k (flat_map fl_vardecl vs ++ ffl_stmts b ++ cm c6 ++ RCurly :: rest) ->
  gapc (gk_stmts b) (after_stmts b (cm c6 ++ RCurly :: rest)) ->
  exists t, body_p fuel (mk k k0) =
    POk (mk (k + len (flat_map fl_vardecl vs) + len (ffl_stmts b) + len c6 + 1) k0)
        (x_vardecls (k - k0) vs, (fx_stmts (k - k0 + len (flat_map fl_vardecl vs)) b, Some t)).
Proof.
  intros Hr Hf Hok H Hgap. unfold body_p. comb.
  pose proof (vardecls_steps toks vs k k0 _ fuel Hr ltac:(lia) H) as Hst1.
  pose proof (x_vardecls_len (k - k0) vs) as Hn1. apply at_app in H.
  destruct (fvardecl_no b c6 rest (k + len (flat_map fl_vardecl vs)) k0 fuel H) as (e1 & Ee1).
  rewrite (many0_steps' _ _ _ _ _ fuel Hst1 Ee1 ltac:(lia)). norm.
  pose proof (fstmts_ok toks b (k + len (flat_map fl_vardecl vs)) k0 _ fuel ltac:(lia) ltac:(lia) Hok H (fol_here (is_k RCurly) c6 RCurly rest eq_refl eq_refl) Hgap) as Hst2.
  pose proof (fx_stmts_len (k + len (flat_map fl_vardecl vs) - k0) b) as Hn2. apply at_app in H.
  match type of H with GrammarBase.at_ _ ?k3 _ =>
    destruct (stmt_no_rcurly toks k3 k3 _ _ fuel H ltac:(lia)) as (e2 & Ee2);
    assert (Ee2' : stmt_ref toks fuel (mk k3 k0) = PErr (set_refp e2 k0)) by (unfold stmt_ref; comb; now rewrite Ee2) end.
  rewrite (many0_steps' _ _ _ _ _ fuel Hst2 Ee2' ltac:(lia)). norm.
  destruct (p_tag_at toks (is_k RCurly) _ k0 _ _ _ H eq_refl) as (t4 & _ & E4). rewrite E4; ifs; norm.
  exists t4. replace (k + len (flat_map fl_vardecl vs) - k0) with (k - k0 + len (flat_map fl_vardecl vs)) by lia. reflexivity.
Qed.

(* the faulty variable declaration: `expect(;)` fails on the token behind it *)
Lemma fvardecl_ok fuel d1 d2 y d3 t k rest : len (ffl_vdecl d1 d2 y d3 t) <= fuel -> at_ k (ffl_vdecl d1 d2 y d3 t ++ rest) ->
  fol gapfol rest ->
  p_vardecl toks fuel (mk k k) = POk (mk (k + len (ffl_vdecl d1 d2 y d3 t)) k) (fxg_vdecl e_real d1 d2 y d3 t).
Proof.
  intros Hf H Hfol. unfold ffl_vdecl in H. flat_in H.
  assert (Hl : len (ffl_vdecl d1 d2 y d3 t) = len d1 + 1 + len d2 + 1 + len d3 + 1 + len (fl_type t)) by (flens; lia).
  destruct Hfol as (cg & kg & restg & -> & Hsg & Hkg). unfold gapfolE in Hkg. apply andb_prop in Hkg. destruct Hkg as [_ Hns].
  apply negb_true_iff in Hns.
  unfold p_vardecl. comb.
  rewrite (p_comments_at toks k k _ _ _ H eq_refl). norm. apply at_cm in H.
  destruct (p_tag_at0 toks (is_k KVar) _ k _ _ H eq_refl) as (t0 & _ & E0). rewrite E0; ifs; norm. apply at_cons in H.
  rewrite (p_ident_at toks _ k _ _ _ H) by lia. norm. apply at_cm_cons in H.
  destruct (p_tag_at toks (is_k Colon) _ k _ _ _ H eq_refl) as (t1 & _ & E1). rewrite E1; ifs; norm.
  apply at_cm_cons in H.
  rewrite (type_ok toks t _ _ (cm cg ++ kg :: restg) fuel (le_n _)) by side. norm. apply at_app in H.
  rewrite (p_tag_no toks (is_k Semic) _ k _ _ _ H Hsg Hns).
  unfold expect_error, push_err. norm. cbn [app].
  rewrite Nat.sub_diag. unfold fxg_vdecl, einfo, e_real, gap_err, msg_of_kind. cbv zeta. rewrite Hl. unfold x_ident, mkinfo. teq.
Qed.

Lemma vars_stmts_cmp vs b c6 rest : fol fol_cmp (flat_map fl_vardecl vs ++ fl_stmts b ++ cm c6 ++ RCurly :: rest).
Proof.
  destruct vs as [|v vs]; cbn [flat_map app].
  - apply (fol_weaken stopper); [exact stopper_cmp|]. apply stmts_stopper. apply fol_here; reflexivity.
  - unfold fl_vardecl at 1. rewrite <- !app_assoc. cbn [app]. apply fol_here; reflexivity.
Qed.

(* the fault is the `;` of a variable declaration *)
Lemma body_var vs1 d1 d2 y d3 t vs2 b c6 k0 k rest fuel : k0 <= k ->
  6 * (len (flat_map fl_vardecl vs1) + len (ffl_vdecl d1 d2 y d3 t) + len (flat_map fl_vardecl vs2) + len (fl_stmts b)) + 13 <= fuel ->
  else_oks b = true ->
  at_ k (flat_map fl_vardecl vs1 ++ ffl_vdecl d1 d2 y d3 t ++ flat_map fl_vardecl vs2 ++ fl_stmts b ++ cm c6 ++ RCurly :: rest) ->
  fol gapfol (flat_map fl_vardecl vs2 ++ fl_stmts b ++ cm c6 ++ RCurly :: rest) ->
  exists tk4, body_p fuel (mk k k0) =
    POk (mk (k + len (flat_map fl_vardecl vs1) + len (ffl_vdecl d1 d2 y d3 t) + len (flat_map fl_vardecl vs2) + len (fl_stmts b) + len c6 + 1) k0)
        (x_vardecls (k - k0) vs1 ++ (fxg_vdecl e_real d1 d2 y d3 t, k - k0 + len (flat_map fl_vardecl vs1))
           :: x_vardecls (k - k0 + len (flat_map fl_vardecl vs1) + len (ffl_vdecl d1 d2 y d3 t)) vs2,
         (x_stmts (k - k0 + len (flat_map fl_vardecl vs1) + len (ffl_vdecl d1 d2 y d3 t) + len (flat_map fl_vardecl vs2)) b, Some tk4)).
Proof.
  intros Hr Hf Hok H Hgap. unfold body_p. comb. pose proof (ffl_vdecl_pos d1 d2 y d3 t) as Hvp.
  pose proof (vardecls_steps toks vs1 k k0 _ fuel Hr ltac:(lia) H) as Hst1. apply at_app in H.
  set (k1 := k + len (flat_map fl_vardecl vs1)) in *.
  assert (Hst2 : steps (vardecl_ref toks fuel) (mk k1 k0) [(fxg_vdecl e_real d1 d2 y d3 t, k1 - k0)] (mk (k1 + len (ffl_vdecl d1 d2 y d3 t)) k0)).
  { eapply steps_cons; [| |apply steps_nil].
    - unfold vardecl_ref. comb. rewrite (fvardecl_ok fuel d1 d2 y d3 t k1 _ ltac:(lia) H Hgap). norm. reflexivity.
    - cbn [pos]. lia. }
  apply at_app in H. set (k2 := k1 + len (ffl_vdecl d1 d2 y d3 t)) in *.
  pose proof (vardecls_steps toks vs2 k2 k0 _ fuel ltac:(lia) ltac:(lia) H) as Hst3. apply at_app in H.
  pose proof (steps_app _ _ _ _ _ _ Hst1 (steps_app _ _ _ _ _ _ Hst2 Hst3)) as Hst. cbn [app] in Hst.
  pose proof (x_vardecls_len (k - k0) vs1) as Hn1. pose proof (x_vardecls_len (k2 - k0) vs2) as Hn3.
  destruct (vardecl_no toks b c6 rest (k2 + len (flat_map fl_vardecl vs2)) k0 fuel H) as (e1 & Ee1).
  rewrite (many0_steps' _ _ _ _ _ fuel Hst Ee1) by (rewrite app_length; cbn [length]; lia). norm.
  pose proof (stmts_ok toks b (k2 + len (flat_map fl_vardecl vs2)) k0 _ fuel ltac:(unfold k2, k1; lia) ltac:(lia) Hok H (fol_here (is_k RCurly) c6 RCurly rest eq_refl eq_refl)) as Hst4.
  pose proof (x_stmts_len (k2 + len (flat_map fl_vardecl vs2) - k0) b) as Hn4. apply at_app in H.
  match type of H with GrammarBase.at_ _ ?k3 _ =>
    destruct (stmt_no_rcurly toks k3 k3 _ _ fuel H ltac:(lia)) as (e2 & Ee2);
    assert (Ee2' : stmt_ref toks fuel (mk k3 k0) = PErr (set_refp e2 k0)) by (unfold stmt_ref; comb; now rewrite Ee2) end.
  rewrite (many0_steps' _ _ _ _ _ fuel Hst4 Ee2' ltac:(lia)). norm.
  destruct (p_tag_at toks (is_k RCurly) _ k0 _ _ _ H eq_refl) as (t4 & _ & E4). rewrite E4; ifs; norm.
  exists t4. unfold k2, k1. teq.
Qed.

(* the fault is the `}` of the body: the statements end at `proc`, `type` or the end, and `expect(})` fails there *)
Lemma body_close vs b k0 k rest fuel : k0 <= k -> 6 * (len (flat_map fl_vardecl vs) + len (fl_stmts b)) + 13 <= fuel ->
  else_oks b = true -> at_ k (flat_map fl_vardecl vs ++ fl_stmts b ++ rest) -> fol is_glob rest ->
  body_p fuel (mk k k0) =
    POk {| pos := k + len (flat_map fl_vardecl vs) + len (fl_stmts b); refp := k0;
           ebuf := [gap_err (MissingClosing 125%N) (k + len (flat_map fl_vardecl vs) + len (fl_stmts b) - k0 - 1)] |}
        (x_vardecls (k - k0) vs, (x_stmts (k - k0 + len (flat_map fl_vardecl vs)) b, None)).
Proof.
  intros Hr Hf Hok H Hfol. unfold body_p. comb.
  pose proof (vardecls_steps toks vs k k0 _ fuel Hr ltac:(lia) H) as Hst1.
  pose proof (x_vardecls_len (k - k0) vs) as Hn1. apply at_app in H.
  destruct (vardecl_no_glob b rest (k + len (flat_map fl_vardecl vs)) k0 fuel H Hfol) as (e1 & Ee1).
  rewrite (many0_steps' _ _ _ _ _ fuel Hst1 Ee1 ltac:(lia)). norm.
  assert (Hne : fol noelse rest) by (revert Hfol; apply fol_weaken; intros kd Hk; destruct kd; try discriminate; reflexivity).
  pose proof (stmts_ok_g b (k + len (flat_map fl_vardecl vs)) k0 _ fuel ltac:(lia) ltac:(lia) Hok H Hne) as Hst2.
  pose proof (x_stmts_len (k + len (flat_map fl_vardecl vs) - k0) b) as Hn2. apply at_app in H.
  destruct Hfol as (c & kd & rest' & -> & Hs & Hg).
  match type of H with GrammarBase.at_ _ ?k3 _ =>
    destruct (stmt_no_glob k3 k3 _ _ _ fuel H Hs Hg ltac:(lia)) as (e2 & Ee2);
    assert (Ee2' : stmt_ref toks fuel (mk k3 k0) = PErr (set_refp e2 k0)) by (unfold stmt_ref; comb; now rewrite Ee2) end.
  rewrite (many0_steps' _ _ _ _ _ fuel Hst2 Ee2' ltac:(lia)). norm.
  rewrite (p_tag_no toks (is_k RCurly) _ k0 _ _ _ H Hs) by (destruct kd; try discriminate; reflexivity).
  unfold expect_error, push_err. norm. cbn [app]. unfold gap_err.
  replace (k + len (flat_map fl_vardecl vs) - k0) with (k - k0 + len (flat_map fl_vardecl vs)) by lia. reflexivity.
Qed.

(* ---- the faulty declaration ---- *)
Definition gapc_decl (d : fdecl) (rest : list kind) : Prop :=
  match d with
  | FProcC _ _ _ _ _ _ _ _ _ | FType _ _ _ _ _ => True
  | _ => gapc (gk_decl d) (after_decl d rest)
  end.

Lemma fdecl_ok d k rest fuel : decl_ok (orig_decl d) = true -> 6 * len (ffl_decl d) + 14 <= fuel -> at_ k (ffl_decl d ++ rest) ->
  fol is_glob rest -> gapc_decl d rest ->
  p_gdecl toks fuel (mk k k) = POk (mk (k + len (ffl_decl d)) k) (fx_decl d).
Proof.
  intros Hok Hf H Hfol Hgap.
  destruct d as [c1 c2 x c3 ps c4 c5 vs b c6|c1 c2 x c3 ps c4 c5 vs1 d1 d2 y d3 t vs2 b c6|c1 c2 x c3 ps c4 c5 vs b|c1 c2 x c3 t];
    cbn [orig_decl decl_ok gapc_decl gk_decl after_decl] in Hok, Hgap; cbn [ffl_decl] in H.
  - (* body *)
    pose proof (prochead_len c1 c2 x c3 ps c4 c5) as Hh. cbn [ffl_decl] in Hf. rewrite !app_length in Hf. cbn [length] in Hf.
    pose proof H as H0. rewrite <- app_assoc in H0. apply at_app in H0. flat_in H0.
    destruct (body_stmts vs b c6 k (k + len (fl_prochead c1 c2 x c3 ps c4 c5)) rest fuel ltac:(lia) ltac:(lia) Hok H0 Hgap) as (t4 & Hbody).
    rewrite <- app_assoc in H.
    rewrite (prochead_ok c1 c2 x c3 ps c4 c5 _ k fuel _ _ _ _ H ltac:(lia) Hbody). norm.
    cbn [fxg_decl]. cbv zeta. unfold mkinfo. cbn [ffl_decl]. rewrite !app_length. cbn [length]. teq.
  - (* variable declaration *)
    pose proof (prochead_len c1 c2 x c3 ps c4 c5) as Hh. cbn [ffl_decl] in Hf. rewrite !app_length in Hf. cbn [length] in Hf.
    pose proof H as H0. rewrite <- app_assoc in H0. apply at_app in H0. flat_in H0.
    cbn [gapc] in Hgap.
    destruct (body_var vs1 d1 d2 y d3 t vs2 b c6 k (k + len (fl_prochead c1 c2 x c3 ps c4 c5)) rest fuel ltac:(lia) ltac:(lia) Hok H0 Hgap) as (t4 & Hbody).
    rewrite <- app_assoc in H.
    rewrite (prochead_ok c1 c2 x c3 ps c4 c5 _ k fuel _ _ _ _ H ltac:(lia) Hbody). norm.
    cbn [fxg_decl]. cbv zeta. unfold mkinfo. cbn [ffl_decl]. rewrite !app_length. cbn [length]. teq.
  - (* closing brace *)
    pose proof (prochead_len c1 c2 x c3 ps c4 c5) as Hh. cbn [ffl_decl] in Hf. rewrite !app_length in Hf.
    pose proof H as H0. rewrite <- app_assoc in H0. apply at_app in H0. flat_in H0.
    pose proof (body_close vs b k (k + len (fl_prochead c1 c2 x c3 ps c4 c5)) rest fuel ltac:(lia) ltac:(lia) Hok H0 Hfol) as Hbody.
    rewrite <- app_assoc in H.
    rewrite (prochead_ok c1 c2 x c3 ps c4 c5 _ k fuel _ _ _ _ H ltac:(lia) Hbody). norm.
    cbn [fxg_decl]. cbv zeta. unfold einfo, e_real, msg_of_kind, gap_err. cbn [ffl_decl]. rewrite !app_length. teq.
  - (* type declaration *)
    flat_in H.
    assert (Hl : len (ffl_decl (FType c1 c2 x c3 t)) = len c1 + 1 + len c2 + 1 + len c3 + 1 + len (fl_type t)) by (cbn [ffl_decl]; flens; lia).
    destruct Hfol as (cg & kg & restg & -> & Hsg & Hkg).
    unfold p_gdecl, p_typedecl. comb.
    rewrite (p_comments_at toks k k _ _ _ H eq_refl). norm. apply at_cm in H.
    destruct (p_tag_at0 toks (is_k KType) _ k _ _ H eq_refl) as (t0 & _ & E0). rewrite E0; ifs; norm. apply at_cons in H.
    rewrite (p_ident_at toks _ k _ _ _ H) by lia. norm. apply at_cm_cons in H.
    destruct (p_tag_at toks (is_k EqT) _ k _ _ _ H eq_refl) as (t1 & _ & E1). rewrite E1; ifs; norm.
    apply at_cm_cons in H.
    rewrite (type_ok toks t _ _ (cm cg ++ kg :: restg) fuel (le_n _)) by side. norm. apply at_app in H.
    rewrite (p_tag_no toks (is_k Semic) _ k _ _ _ H Hsg) by (destruct kg; try discriminate; reflexivity).
    unfold expect_error, push_err. norm. cbn [app].
    rewrite Nat.sub_diag. cbn [fxg_decl]. unfold einfo, e_real, gap_err, msg_of_kind. rewrite Hl. unfold x_ident, mkinfo. teq.
Qed.

(* ---- the program ---- *)
Lemma fprogram_ok p fuel : fprog_ok p = true -> 6 * len (fflatten p) + 14 <= fuel -> at_ 0 (fflatten p ++ [Eof]) ->
  p_program toks fuel (mk 0 0) = POk (mk (len (fflatten p) + 1) 0) (fexpected p).
Proof.
  intros Hok Hf H. destruct p as [pre d post ceof]. unfold fprog_ok in Hok. apply andb_prop in Hok. destruct Hok as [Hok Hgo].
  unfold prog_ok, orig_prog in Hok. cbn [a_decls fp_pre fp_decl fp_post] in Hok.
  rewrite forallb_app in Hok. cbn [forallb] in Hok. apply andb_prop in Hok. destruct Hok as [Hok1 Hok23].
  apply andb_prop in Hok23. destruct Hok23 as [Hok2 Hok3].
  unfold after_prog, gk_prog in Hgo. cbn [fp_decl fp_post fp_ceof] in Hgo.
  unfold fflatten in *. cbn [fp_pre fp_decl fp_post fp_ceof] in *. rewrite !app_length, cm_length in *. flat_in H.
  pose proof (gap_decl_lt d) as Hdpos.
  pose proof (decls_glob post ceof) as Hglob.
  assert (Hgap : gapc_decl d (flat_map fl_decl post ++ cm ceof ++ [Eof])).
  { destruct d as [c1 c2 x c3 ps c4 c5 vs b c6|c1 c2 x c3 ps c4 c5 vs1 d1 d2 y d3 t vs2 b c6|c1 c2 x c3 ps c4 c5 vs b|c1 c2 x c3 t];
      cbn [gapc_decl]; try exact I.
    - apply gapc_open; [|exact Hgo]. cbn [after_decl]. apply (proj2 after_any). apply fol_here; reflexivity.
    - cbn [gk_decl gapc after_decl] in *. apply gap_open_E; [left; reflexivity | apply (fol_any fol_cmp), vars_stmts_cmp | exact Hgo]. }
  rewrite p_program_eq. comb.
  pose proof (gdecls_steps toks pre 0 0 _ fuel (le_n _) Hok1 ltac:(lia) H) as Hst1.
  apply at_app in H. cbn [Nat.add] in H, Hst1. rewrite Nat.sub_diag in Hst1.
  assert (Hst2 : steps (gdecl_ref toks fuel) (mk (len (flat_map fl_decl pre)) 0) [(fx_decl d, len (flat_map fl_decl pre))]
                   (mk (len (flat_map fl_decl pre) + len (ffl_decl d)) 0)).
  { eapply steps_cons; [| |apply steps_nil].
    - unfold gdecl_ref. comb. rewrite (fdecl_ok d _ (flat_map fl_decl post ++ cm ceof ++ [Eof]) fuel Hok2 ltac:(lia) H Hglob Hgap).
      norm. rewrite Nat.sub_0_r. reflexivity.
    - cbn [pos]. lia. }
  apply at_app in H.
  pose proof (gdecls_steps toks post (len (flat_map fl_decl pre) + len (ffl_decl d)) 0 _ fuel ltac:(lia) Hok3 ltac:(lia) H) as Hst3.
  rewrite Nat.sub_0_r in Hst3.
  pose proof (steps_app _ _ _ _ _ _ Hst1 (steps_app _ _ _ _ _ _ Hst2 Hst3)) as Hst. cbn [app] in Hst.
  pose proof (x_decls_len 0 pre) as Hn1.
  pose proof (x_decls_len (len (flat_map fl_decl pre) + len (ffl_decl d)) post) as Hn3.
  apply at_app in H.
  destruct (gdecl_no_eof toks _ 0 _ fuel H) as (e & Ee).
  rewrite (many0_steps' _ _ _ _ _ fuel Hst Ee) by (rewrite app_length; cbn [length]; lia). norm.
  unfold p_eof_all. comb.
  destruct (p_tag_at toks (is_k Eof) _ 0 _ _ _ H eq_refl) as (t & _ & E). rewrite E; ifs; norm.
  destruct (at_length toks _ _ H) as [Hlen|[Hx _]]; [|apply (f_equal (@length _)) in Hx; rewrite app_length in Hx; cbn in Hx; lia].
  rewrite app_length, cm_length in Hlen. cbn [length] in Hlen.
  match goal with |- context [?a <? length toks] => replace (a <? length toks) with false by (symmetry; apply Nat.ltb_ge; lia) end.
  norm. unfold fxg_prog. cbn [fp_pre fp_decl fp_post]. unfold mkinfo. fteq.
Qed.

End FProg.

(* ---- C03, syntax faults, tree level: the parser returns the mandated tree with its ONE error ---- *)
Theorem fparse p toks : fprog_ok p = true -> map tk toks = fflatten p ++ [Eof] -> parse toks = Done (fexpected p).
Proof.
  intros Hok H. unfold parse.
  assert (Hlen : length toks = len (fflatten p) + 1).
  { rewrite <- (map_length tk), H, app_length. reflexivity. }
  rewrite (fprogram_ok toks p (parse_fuel toks) Hok); [reflexivity| |exact H].
  unfold parse_fuel. lia.
Qed.
