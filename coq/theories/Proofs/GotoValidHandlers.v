(* C12 - go-to on VALID programs, part 3: what the three `_at` functions of Model/Goto.v return on the
   document of a well-typed abstract program, against the declaring occurrence Spec/Nav.v prescribes.
     [type_goto]   a name that denotes a type of the global table, looked up globally;
     [proc_goto]   a name that resolves to a procedure of the global table;
     [local_goto]  a name the local table of the enclosing procedure holds (with [ventry_typedef]: the
                   creator of the local's array type is the declaration [creator_decl] finds);
     [spec_of_binding] the three expected answers as functions of [binding]. *)
From Coq Require Import PeanoNat Lia.
From Spl Require Import Proofs.GrammarBase Proofs.GrammarExpr Proofs.GrammarStmt.
From Spl Require Import Proofs.GrammarProofs Spec.Typing Model.Errors Proofs.SemProofs Proofs.TypingProofs.
From Spl Require Import Model.Hover Model.Fold Proofs.LexerProofs Proofs.FoldProofs Proofs.HoverProofs.
From Spl Require Import Proofs.HoverValid Model.Goto Proofs.GotoValidModel.
From Spl Require Import Model.Refs Spec.Nav Proofs.GotoValidNav.
Local Open Scope nat_scope.

(* the document of a valid program (Proofs/HoverValid.v [valid_doc]) *)
Definition vdoc (t : text) (toks : list token) (p : aprog) (G : gtable) : doc :=
  {| d_text := t; d_toks := toks; d_ast := expected p; d_table := G |}.

Definition bloc (d : doc) (b : option occ) : option loc :=
  match b with Some bo => loc_of_occ d bo | None => None end.

(* the expected type-definition answer for a declaring occurrence of a parameter / variable *)
Definition tdef (d : doc) (bo : occ) : option loc :=
  let occs := occurrences (d_ast d) in
  match o_ty bo with
  | Some (Some T) => match creator_decl occs (len occs) T with Some c => loc_of_occ d c | None => None end
  | _ => None
  end.

(* the three expected answers as functions of the binding *)
Lemma spec_of_binding d o b : binding (occurrences (d_ast d)) o = b ->
  spec_declaration d o = bloc d b /\
  spec_type_definition d o =
    match b with
    | Some bo => match o_role bo with RTypeDecl => loc_of_occ d bo | RParamDecl | RVarDecl => tdef d bo | _ => None end
    | None => None
    end /\
  spec_implementation d o =
    match b with Some bo => match o_role bo with RProcDecl => loc_of_occ d bo | _ => None end | None => None end.
Proof.
  intros <-. unfold spec_declaration, spec_type_definition, spec_implementation, bloc, tdef.
  split; [reflexivity|]. split; reflexivity.
Qed.

(* the context is consulted globally: a type declaration, or a global position inside a procedure *)
Definition glob (ctx : gentry) (gp : bool) : Prop := match ctx with GTypeE _ => True | GProcE _ => gp = true end.

Lemma dot_in_anon pn name : In 46%N (anon_creator pn name).
Proof. unfold anon_creator. apply in_or_app. right. left. reflexivity. Qed.

Lemma int_nodot : ~ In 46%N s_int.
Proof. vm_compute. intros H. repeat (destruct H as [H|H]; [discriminate H|]). exact H. Qed.

Lemma opt_dt_eqb_refl a : opt_dt_eqb a a = true.
Proof. destruct a as [x|]; [|reflexivity]. cbn [opt_dt_eqb]. now apply dt_eqb_eq. Qed.

Section Doc.
Variables (p : aprog) (G : gtable) (t : text) (toks : list token).
Hypothesis Hwt : well_typed (expected p) G.
Hypothesis Hlex : lex t = Some toks.
Hypothesis Hk : map tk toks = flatten p ++ [Eof].

Local Notation d := (vdoc t toks p G).
Local Notation occs := (occurrences (expected p)).

Lemma toks_len : len (flat_map fl_decl (a_decls p)) <= len toks.
Proof. rewrite <- (map_length tk toks), Hk. unfold flatten. rewrite !app_length. lia. Qed.

Lemma decl_fits l1 dd l2 : a_decls p = l1 ++ dd :: l2 -> len (flat_map fl_decl l1) + len (fl_decl dd) <= len toks.
Proof.
  intros H. pose proof toks_len as Hl. rewrite H, flat_map_app, app_length in Hl. cbn [flat_map] in Hl.
  rewrite app_length in Hl. lia.
Qed.

(* the name of a declaration is an identifier token of the text *)
Lemma decl_name_nodot l1 dd l2 x : a_decls p = l1 ++ dd :: l2 -> gname (x_decl dd) = Some x -> ~ In 46%N x.
Proof.
  intros H Hx. apply (lex_ident_nodot t toks x Hlex). rewrite Hk. unfold flatten. rewrite H, flat_map_app.
  cbn [flat_map]. apply in_or_app. left. apply in_or_app. left. apply in_or_app. right. apply in_or_app. left.
  destruct dd as [c1 c2 xn c3 ty c4 | c1 c2 xn c3 ps c4 c5 vs b c6]; unfold gname in Hx; cbn [x_decl gdecl_name td_name pd_name option_map id_val x_ident] in Hx;
    injection Hx as ->; cbn [fl_decl]; apply in_or_app; right; right; apply in_or_app; right; left; reflexivity.
Qed.

(* ---- a declared type: the answer is the name token of its declaration ---- *)
Lemma type_decl_answer l1 c1 c2 x c3 ty c4 l2 tte :
  a_decls p = l1 ++ DType c1 c2 x c3 ty c4 :: l2 ->
  ten_name tte = x_ident (len c1 + 1) c2 x ->
  ten_range tte = shift_range (info_range (mkinfo 0 (len (fl_decl (DType c1 c2 x c3 ty c4))))) (len (flat_map fl_decl l1)) ->
  (do sl <- slice toks (ten_range tte); answer d sl (EntType tte))
  = ROk (loc_of_occ d (type_occ (len (flat_map fl_decl l1)) c1 c2 x c3 ty)).
Proof.
  intros H Hn Hr. pose proof (decl_fits _ _ _ H) as Hf.
  assert (Hl : len c1 + 1 + len c2 + 1 <= len (fl_decl (DType c1 c2 x c3 ty c4))) by (cbn [fl_decl]; leneq).
  etransitivity; [apply (global_goto_loc d (ten_range tte) (EntType tte))|].
  - rewrite Hr. cbn [shift_range info_range mkinfo i_s i_e fst snd]. lia.
  - rewrite Hr. cbn [shift_range info_range mkinfo i_s i_e fst snd vdoc d_toks]. lia.
  - cbn [entry_name]. rewrite Hn. cbn [x_ident id_info mkinfo i_s i_e]. lia.
  - cbn [entry_name]. rewrite Hn, Hr. cbn [x_ident id_info mkinfo i_s i_e shift_range info_range fst snd]. lia.
  - f_equal. unfold loc_of_occ, tok_loc. cbn [entry_name]. rewrite Hn, Hr. unfold Nav.o_tok, type_occ.
    cbn [o_id shift_ident shift_info x_ident id_info mkinfo i_s i_e shift_range info_range fst snd].
    replace (0 + len (flat_map fl_decl l1) + (len c1 + 1 + len c2 + 1 - 1)) with (len c1 + 1 + len c2 + 1 + len (flat_map fl_decl l1) - 1) by lia.
    reflexivity.
Qed.

Theorem type_goto x tte ctx gp : lookup G x = Some (GTypeE tte) -> glob ctx gp ->
  let b := find_declaring occs [RTypeDecl] x None in
  declaration_at d x ctx gp = ROk (bloc d b) /\ type_definition_at d x ctx gp = ROk (bloc d b) /\
  implementation_at d x ctx gp = ROk None /\ (forall bo, b = Some bo -> o_role bo = RTypeDecl).
Proof.
  intros Hl Hg b. unfold b. clear b.
  destruct (type_entity p G Hwt x tte Hl) as [[-> [Hty [Hdef Hnone]]] | [l1 [c1 [c2 [c3 [ty [c4 [l2 [Hds [Hname [Hrange [Hdef Hint]]]]]]]]]]]].
  - rewrite Hnone. cbn [bloc]. destruct ctx as [te0|pe]; cbn [glob] in Hg.
    + unfold declaration_at, type_definition_at, implementation_at. rewrite text_eqb_refl.
      repeat split; try reflexivity. discriminate.
    + subst gp. unfold declaration_at, type_definition_at, implementation_at, lookup_for, lt_lookup.
      cbn [vdoc d_table]. rewrite Hl. cbn [entry_of_g]. rewrite Hdef, text_eqb_refl.
      repeat split; try reflexivity. discriminate.
  - rewrite (find_type_decl p G Hwt _ _ _ _ _ _ _ _ Hds). cbn [bloc].
    pose proof (type_decl_answer _ _ _ _ _ _ _ _ tte Hds Hname Hrange) as Ha.
    destruct ctx as [te0|pe]; cbn [glob] in Hg.
    + unfold declaration_at, type_definition_at, implementation_at. rewrite Hint. cbn [vdoc d_table d_toks]. rewrite Hl.
      cbn [entry_of_g gentry_range]. rewrite Hdef.
      repeat split; try exact Ha. intros bo [= <-]. reflexivity.
    + subst gp. unfold declaration_at, type_definition_at, implementation_at, lookup_for, lt_lookup.
      cbn [vdoc d_table d_toks]. rewrite Hl. cbn [entry_of_g entry_tokens]. rewrite Hdef, Hint.
      repeat split; try exact Ha. intros bo [= <-]. reflexivity.
Qed.

(* a type name of the table is an identifier, hence no creator of an anonymous array type *)
Lemma type_key_nodot x tte : lookup G x = Some (GTypeE tte) -> ~ In 46%N x.
Proof.
  intros Hl. destruct (type_entity p G Hwt x tte Hl) as [[-> _] | [l1 [c1 [c2 [c3 [ty [c4 [l2 [Hds _]]]]]]]]].
  - exact int_nodot.
  - apply (decl_name_nodot _ _ _ x Hds). reflexivity.
Qed.

(* ---- a procedure ---- *)
Lemma proc_decl_answer l1 c1 c2 x c3 ps c4 c5 vs b c6 l2 pe' :
  a_decls p = l1 ++ DProc c1 c2 x c3 ps c4 c5 vs b c6 :: l2 ->
  pe_name pe' = x_ident (len c1 + 1) c2 x ->
  pe_range pe' = shift_range (info_range (mkinfo 0 (len (fl_decl (DProc c1 c2 x c3 ps c4 c5 vs b c6))))) (len (flat_map fl_decl l1)) ->
  (do sl <- slice toks (pe_range pe'); answer d sl (EntProc pe'))
  = ROk (loc_of_occ d (proc_occ (len (flat_map fl_decl l1)) c1 c2 x)).
Proof.
  intros H Hn Hr. pose proof (decl_fits _ _ _ H) as Hf.
  assert (Hl : len c1 + 1 + len c2 + 1 <= len (fl_decl (DProc c1 c2 x c3 ps c4 c5 vs b c6))) by (cbn [fl_decl]; leneq).
  etransitivity; [apply (global_goto_loc d (pe_range pe') (EntProc pe'))|].
  - rewrite Hr. cbn [shift_range info_range mkinfo i_s i_e fst snd]. lia.
  - rewrite Hr. cbn [shift_range info_range mkinfo i_s i_e fst snd vdoc d_toks]. lia.
  - cbn [entry_name]. rewrite Hn. cbn [x_ident id_info mkinfo i_s i_e]. lia.
  - cbn [entry_name]. rewrite Hn, Hr. cbn [x_ident id_info mkinfo i_s i_e shift_range info_range fst snd]. lia.
  - f_equal. unfold loc_of_occ, tok_loc. cbn [entry_name]. rewrite Hn, Hr. unfold Nav.o_tok, proc_occ.
    cbn [o_id shift_ident shift_info x_ident id_info mkinfo i_s i_e shift_range info_range fst snd].
    replace (0 + len (flat_map fl_decl l1) + (len c1 + 1 + len c2 + 1 - 1)) with (len c1 + 1 + len c2 + 1 + len (flat_map fl_decl l1) - 1) by lia.
    reflexivity.
Qed.

Theorem proc_goto f pe' pe gp : lookup G f = Some (GProcE pe') ->
  lookup_for G (pe_local pe) gp f = Some (EntProc pe') ->
  let b := find_declaring occs [RProcDecl] f None in
  declaration_at d f (GProcE pe) gp = ROk (bloc d b) /\ type_definition_at d f (GProcE pe) gp = ROk None /\
  implementation_at d f (GProcE pe) gp = ROk (bloc d b) /\ (forall bo, b = Some bo -> o_role bo = RProcDecl).
Proof.
  intros Hl Hlf b. unfold b. clear b.
  unfold declaration_at, type_definition_at, implementation_at. cbn [vdoc d_table d_toks]. rewrite Hlf. cbn [entry_tokens].
  destruct (proc_entity p G Hwt f pe' Hl) as [[Hdef Hnone] | [l1 [c1 [c2 [c3 [ps [c4 [c5 [vs [b [c6 [l2 [Hds [Hname [Hrange Hdef]]]]]]]]]]]]]]].
  - rewrite Hnone, Hdef. cbn [bloc]. repeat split; try reflexivity. discriminate.
  - rewrite (find_proc_decl_occ p G Hwt _ _ _ _ _ _ _ _ _ _ _ _ Hds), Hdef. cbn [bloc].
    pose proof (proc_decl_answer _ _ _ _ _ _ _ _ _ _ _ _ pe' Hds Hname Hrange) as Ha.
    repeat split; try exact Ha. intros bo [= <-]. reflexivity.
Qed.

(* ---- the creator of a local's array type ---- *)
Lemma ventry_typedef n Lk Gi cr te o t0 :
  sub_table Gi G -> chain_ok occs n Gi -> n < len occs -> In 46%N cr -> denotes Lk Gi cr te t0 ->
  match t0 with
  | DArray _ _ creator =>
      match lookup G creator with
      | Some (GTypeE t') =>
          if opt_dt_eqb (ten_ty t') (Some t0) then (do sl <- slice toks (ten_range t'); answer d sl (EntType t')) else ROk None
      | _ => ROk None
      end
  | _ => ROk None
  end
  = ROk (match ty_shape (Some (te, o)) with
         | Some (Some T) => match creator_decl occs (len occs) T with Some c => loc_of_occ d c | None => None end
         | _ => None
         end).
Proof.
  intros Hsub Hch Hn Hdot Hd. inversion Hd as [i tte tt Hb Hty | il b ob inf bt Hb]; subst.
  - pose proof (binds_type _ _ _ _ Hb) as Hl. specialize (Hch _ _ _ Hl Hty). cbn [ty_shape].
    destruct t0 as [| |sz b c]; try (rewrite Hch; reflexivity).
    destruct Hch as [tc [co [H1 [H2 [H3 H4]]]]]. rewrite (H4 _ Hn), (Hsub _ _ H1), H2, opt_dt_eqb_refl.
    destruct (type_entity p G Hwt c tc (Hsub _ _ H1)) as [[_ [Hty' _]] | [l1 [c1 [c2 [c3 [ty [c4 [l2 [Hds [Hname [Hrange _]]]]]]]]]]].
    + rewrite Hty' in H2. discriminate H2.
    + rewrite (find_type_decl p G Hwt _ _ _ _ _ _ _ _ Hds) in H3. injection H3 as <-.
      exact (type_decl_answer _ _ _ _ _ _ _ _ tc Hds Hname Hrange).
  - cbn [ty_shape]. destruct (lookup G cr) as [[t'|pe']|] eqn:E; try reflexivity.
    exfalso. exact (type_key_nodot _ _ E Hdot).
Qed.

End Doc.

(* ---------------------------------------------------------------------------------------- *)
(* the token ranges of the parameters and variables of the mandated tree                     *)

Definition pok (hi : nat) (x : paramdecl * nat) : Prop :=
  match fst x with
  | PValid _ _ (Some name) _ inf =>
      i_s inf = 0 /\ i_s (id_info name) < i_e (id_info name) /\ i_e (id_info name) <= i_e inf /\ snd x + i_e inf <= hi
  | _ => True
  end.
Definition vok (hi : nat) (x : vardecl * nat) : Prop :=
  match fst x with
  | VValid _ (Some name) _ inf =>
      i_s inf = 0 /\ i_s (id_info name) < i_e (id_info name) /\ i_e (id_info name) <= i_e inf /\ snd x + i_e inf <= hi
  | _ => True
  end.

Lemma pok_weaken hi hi' x : hi <= hi' -> pok hi x -> pok hi' x.
Proof. unfold pok. destruct (fst x) as [doc r [name|] ty inf | inf]; try tauto. intros H [H1 [H2 [H3 H4]]]. repeat split; try assumption; lia. Qed.
Lemma vok_weaken hi hi' x : hi <= hi' -> vok hi x -> vok hi' x.
Proof. unfold vok. destruct (fst x) as [doc [name|] ty inf | inf]; try tauto. intros H [H1 [H2 [H3 H4]]]. repeat split; try assumption; lia. Qed.

Lemma x_param_pok a o : pok (o + len (fl_param a)) (x_param a, o).
Proof.
  destruct a as [c x cc ty | cr c x cc ty]; unfold pok; cbn [x_param fst snd fl_param x_ident id_info mkinfo i_s i_e];
    repeat split; try lia; leneq.
Qed.

Lemma x_ptail_pok : forall l o, Forall (pok (o + len (fl_tail fl_param l))) (x_tail fl_param x_param o l).
Proof.
  induction l as [|[c a] l IH]; intros o; [constructor|]. unfold fl_tail in *. cbn [x_tail flat_map fst snd]. constructor.
  - eapply pok_weaken; [|apply x_param_pok]. leneq.
  - eapply Forall_impl; [|apply IH]. intros x. apply pok_weaken. leneq.
Qed.

Lemma x_params_pok ps o : Forall (pok (o + len (fl_sep fl_param ps))) (x_sep fl_param x_param o ps).
Proof.
  destruct ps as [[a l]|]; [|constructor]. cbn [x_sep fl_sep]. constructor.
  - eapply pok_weaken; [|apply x_param_pok]. leneq.
  - eapply Forall_impl; [|apply x_ptail_pok]. intros x. apply pok_weaken. leneq.
Qed.

Lemma x_vardecls_vok : forall vs o, Forall (vok (o + len (flat_map fl_vardecl vs))) (x_vardecls o vs).
Proof.
  induction vs as [|v vs IH]; intros o; [constructor|]. cbn [x_vardecls flat_map]. constructor.
  - unfold vok, x_vardecl, fl_vardecl. cbn [fst snd x_ident id_info mkinfo i_s i_e]. repeat split; try lia; leneq.
  - eapply Forall_impl; [|apply IH]. intros x. apply vok_weaken. leneq.
Qed.

Lemma the_proc_ok c1 c2 x c3 ps c4 c5 vs b c6 :
  let dd := DProc c1 c2 x c3 ps c4 c5 vs b c6 in
  Forall (pok (len (fl_decl dd))) (pd_params (the_proc dd)) /\ Forall (vok (len (fl_decl dd))) (pd_vars (the_proc dd)).
Proof.
  cbv zeta. unfold the_proc. cbn [x_decl pd_params pd_vars]. split.
  - eapply Forall_impl; [|apply x_params_pok]. intros y. apply pok_weaken. cbn [fl_decl]. leneq.
  - eapply Forall_impl; [|apply x_vardecls_vok]. intros y. apply vok_weaken. cbn [fl_decl]. leneq.
Qed.

Lemma local_goto_loc2 d (r rv : range) e :
  fst r <= snd r -> snd r <= len (d_toks d) -> fst rv <= snd rv -> snd rv <= snd r - fst r ->
  i_s (id_info (entry_name e)) < i_e (id_info (entry_name e)) -> i_e (id_info (entry_name e)) <= snd rv - fst rv ->
  (do sl <- (do s1 <- slice (d_toks d) r; slice s1 rv); answer d sl e)
  = ROk (tok_loc d (fst r + (fst rv + (i_e (id_info (entry_name e)) - 1)))).
Proof.
  intros H1 H2 H3 H4 H5 H6. rewrite <- (local_goto_loc d r rv e H1 H2 H3 H4 H5 H6).
  destruct (slice (d_toks d) r); reflexivity.
Qed.

(* ---------------------------------------------------------------------------------------- *)
(* a parameter or variable of the enclosing procedure                                        *)
Section Local.
Variables (p : aprog) (G : gtable) (t : text) (toks : list token).
Hypothesis Hwt : well_typed (expected p) G.
Hypothesis Hlex : lex t = Some toks.
Hypothesis Hk : map tk toks = flatten p ++ [Eof].

Local Notation d := (vdoc t toks p G).
Local Notation occs := (occurrences (expected p)).

Theorem local_goto l1 c1 c2 xn c3 ps c4 c5 vs b c6 l2 Gi pe x le bo :
  let dd := DProc c1 c2 xn c3 ps c4 c5 vs b c6 in
  let D := len (flat_map fl_decl l1) in
  a_decls p = l1 ++ dd :: l2 ->
  pe_range pe = shift_range (info_range (mkinfo 0 (len (fl_decl dd)))) D ->
  sub_table Gi G -> chain_ok occs (len l1) Gi -> len l1 < len occs ->
  lookup (pe_local pe) x = Some le ->
  local_item Gi xn D (Some xn) (pd_params (the_proc dd)) (pd_vars (the_proc dd)) le bo ->
  declaration_at d x (GProcE pe) false = ROk (loc_of_occ d bo) /\
  type_definition_at d x (GProcE pe) false = ROk (tdef d bo) /\
  implementation_at d x (GProcE pe) false = ROk None /\ (o_role bo = RParamDecl \/ o_role bo = RVarDecl).
Proof.
  intros dd D Hds Hr Hsub Hch Hn Hl Hi.
  pose proof (decl_fits p toks Hk _ _ _ Hds) as Hf. fold D in Hf.
  destruct (the_proc_ok c1 c2 xn c3 ps c4 c5 vs b c6) as [Hpok Hvok]. cbv zeta in Hpok, Hvok. fold dd in Hpok, Hvok.
  rewrite Forall_forall in Hpok, Hvok.
  unfold declaration_at, type_definition_at, implementation_at, lookup_for, lt_lookup. cbn [vdoc d_table d_toks]. rewrite Hl.
  destruct Hi as [doc r name te o inf off t0 Hin Hd | doc name te o inf off t0 Lk Hin Hd].
  - specialize (Hpok _ Hin). unfold pok in Hpok. cbn [fst snd] in Hpok. destruct Hpok as [P1 [P2 [P3 P4]]].
    cbn [entry_of_l is_default entry_tokens mk_ventry ve_ty ve_range o_role]. repeat split; [| | now left].
    + etransitivity; [apply (local_goto_loc2 d (pe_range pe) (shift_range (info_range inf) off) (EntParam (mk_ventry doc r name t0 inf off)))|];
        rewrite ?Hr; cbn [shift_range info_range mkinfo i_s i_e fst snd vdoc d_toks entry_name mk_ventry ve_name]; try lia.
      f_equal. unfold loc_of_occ, tok_loc, Nav.o_tok. cbn [o_id shift_ident shift_info id_info i_e].
      replace (0 + D + (i_s inf + off + (i_e (id_info name) - 1))) with (i_e (id_info name) + off + D - 1) by lia. reflexivity.
    + unfold tdef. cbn [o_ty vdoc d_ast].
      exact (ventry_typedef p G t toks Hwt Hlex Hk (len l1) [] Gi _ te o t0 Hsub Hch Hn (dot_in_anon xn name) Hd).
  - specialize (Hvok _ Hin). unfold vok in Hvok. cbn [fst snd] in Hvok. destruct Hvok as [P1 [P2 [P3 P4]]].
    cbn [entry_of_l is_default entry_tokens mk_ventry ve_ty ve_range o_role]. repeat split; [| | now right].
    + etransitivity; [apply (local_goto_loc2 d (pe_range pe) (shift_range (info_range inf) off) (EntVar (mk_ventry doc false name t0 inf off)))|];
        rewrite ?Hr; cbn [shift_range info_range mkinfo i_s i_e fst snd vdoc d_toks entry_name mk_ventry ve_name]; try lia.
      f_equal. unfold loc_of_occ, tok_loc, Nav.o_tok. cbn [o_id shift_ident shift_info id_info i_e].
      replace (0 + D + (i_s inf + off + (i_e (id_info name) - 1))) with (i_e (id_info name) + off + D - 1) by lia. reflexivity.
    + unfold tdef. cbn [o_ty vdoc d_ast].
      exact (ventry_typedef p G t toks Hwt Hlex Hk (len l1) Lk Gi _ te o t0 Hsub Hch Hn (dot_in_anon xn name) Hd).
Qed.

End Local.
