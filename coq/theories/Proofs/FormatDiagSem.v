(* C09 "same diagnostics" for programs with comments, part 2: the semantic analysis of expressions and statements
   commutes with erasure (Proofs/FormatDiagErase.v), for tables that agree up to erasure. *)
From Coq Require Import String List Lia PeanoNat.
From Spl Require Import Model.Errors Proofs.FormatDiagErase.
From Spl Require Proofs.FormatProofs.
Import ListNotations.
Local Open Scope nat_scope.

Definition er_args (l : list (expr * nat)) : list (expr * nat) := map (fun a : expr * nat => (er_expr (fst a), 0)) l.

Lemma er_stmt_call n args inf : er_stmt (SCall n args inf) = SCall (er_ident n) (er_args args) (er_info inf).
Proof. reflexivity. Qed.

Lemma an_stmt_block L G body inf :
  an_stmt L G (SBlock body inf) = (do body' <- an_stmts L G body; ROk (SBlock body' inf)).
Proof. reflexivity. Qed.

Lemma an_stmt_if L G c t e inf :
  an_stmt L G (SIf c t e inf) =
  (do c' <- an_cond L G c IfConditionMustBeBoolean;
   do t' <- match t with Some (x, off) => do x' <- an_stmt L G x; ROk (Some (x', off)) | None => ROk None end;
   do e' <- match e with Some (x, off) => do x' <- an_stmt L G x; ROk (Some (x', off)) | None => ROk None end;
   ROk (SIf c' t' e' inf)).
Proof. reflexivity. Qed.

Lemma an_stmt_while L G c b inf :
  an_stmt L G (SWhile c b inf) =
  (do c' <- an_cond L G c WhileConditionMustBeBoolean;
   do b' <- match b with Some (x, off) => do x' <- an_stmt L G x; ROk (Some (x', off)) | None => ROk None end;
   ROk (SWhile c' b' inf)).
Proof. reflexivity. Qed.

Section Sem.
Variables (L L' : option ltable) (G G' : option gtable).
Hypothesis Hl : olt L = olt L'.
Hypothesis Hg : ogt G = ogt G'.

Definition esim (r r' : expr * option dtype) : Prop := r' = (er_expr (fst r), snd r).
Definition vrsim (r r' : variable * option dtype) : Prop := r' = (er_var (fst r), snd r).

(* the check of an index / a condition / ...: an error on the expression unless its type is the wanted one *)
Lemma flag_er (e1 : expr) (bad : bool) m :
  er_expr (if bad then expr_append e1 (mkerr_t (expr_range e1) m) else e1)
  = (if bad then expr_append (er_expr e1) (mkerr_t (expr_range (er_expr e1)) m) else er_expr e1).
Proof. destruct bad; [|reflexivity]. rewrite er_expr_append, er_err_mk, expr_range_er. reflexivity. Qed.

Fixpoint an_var_er (v : variable) {struct v} : rsim vrsim (an_var L G v) (an_var L' G' (er_var v))
with an_expr_er (e : expr) {struct e} : rsim esim (an_expr L G e) (an_expr L' G' (er_expr e)).
Proof.
  - destruct v as [named|arr index inf].
    + cbn [an_var er_var]. cbn [er_ident id_val].
      pose proof (lt_lookup_sim L L' G G' (id_val named) Hl Hg) as E.
      destruct (lt_lookup L G (id_val named)) as [[te|pe|ve|ve]|], (lt_lookup L' G' (id_val named)) as [[te'|pe'|ve'|ve']|];
        try discriminate E; cbn [option_map er_entry] in E;
        try (apply (rsim_bind _ _ _ _ _ _ (ident_flag_er named _)); intros a b ->; reflexivity).
      * apply (f_equal (fun o => match o with Some (EntVar t) => ve_ty t | _ => None end)) in E. cbn [er_ve ve_ty] in E.
        cbn [rsim]. unfold vrsim. cbn [fst snd er_var]. rewrite E. reflexivity.
      * apply (f_equal (fun o => match o with Some (EntParam t) => ve_ty t | _ => None end)) in E. cbn [er_ve ve_ty] in E.
        cbn [rsim]. unfold vrsim. cbn [fst snd er_var]. rewrite E. reflexivity.
    + cbn [an_var er_var].
      assert (FI : rsim (fun r r' => r' = er_oexpr r)
                     (match index with
                      | Some (e, off) =>
                          do (e', ty) <- an_expr L G e;
                          ROk (Some (match ty with
                                     | Some DInt => e'
                                     | Some _ => expr_append e' (mkerr_t (expr_range e') (ESem IndexingWithNonInteger))
                                     | None => e'
                                     end, off))
                      | None => ROk None
                      end)
                     (match (match index with Some (e, _) => Some (er_expr e, 0) | None => None end) with
                      | Some (e, off) =>
                          do (e', ty) <- an_expr L' G' e;
                          ROk (Some (match ty with
                                     | Some DInt => e'
                                     | Some _ => expr_append e' (mkerr_t (expr_range e') (ESem IndexingWithNonInteger))
                                     | None => e'
                                     end, off))
                      | None => ROk None
                      end)).
      { destruct index as [[e off]|]; [|reflexivity].
        apply (rsim_bind _ _ _ _ _ _ (an_expr_er e)). intros [e1 ty] [e1' ty'] E. injection E as -> ->. cbn [fst snd rsim er_oexpr].
        f_equal. f_equal. destruct ty as [[| |]|]; try reflexivity; rewrite er_expr_append, er_err_mk, expr_range_er; reflexivity. }
      apply (rsim_bind _ _ _ _ _ _ FI). intros i1 i1' ->.
      apply (rsim_bind _ _ _ _ _ _ (an_var_er arr)). intros [a1 aty] [a1' aty'] E. injection E as -> ->. cbn [fst snd].
      destruct aty as [[| |sz base cr]|]; cbn [rsim]; unfold vrsim; cbn [fst snd er_var]; rewrite ?er_info_append;
        try reflexivity; destruct i1 as [[? ?]|]; reflexivity.
  - destruct e as [op l r inf|a inf|i|op a inf|v|inf].
    + cbn [an_expr er_expr].
      apply (rsim_bind _ _ _ _ _ _ (an_expr_er l)). intros [l1 lt] [l1' lt'] E. injection E as -> ->. cbn [fst snd].
      apply (rsim_bind _ _ _ _ _ _ (an_expr_er r)). intros [r1 rt] [r1' rt'] E. injection E as -> ->. cbn [fst snd].
      cbn [rsim]. unfold esim. cbn [fst snd er_expr]. f_equal. f_equal.
      destruct lt as [a|], rt as [b|]; try reflexivity.
      destruct (is_int a && is_int b); [reflexivity|]. destruct (is_int a || is_int b); [rewrite er_info_append; reflexivity|].
      destruct (is_arithmetic op); rewrite er_info_append; reflexivity.
    + cbn [an_expr er_expr].
      apply (rsim_bind _ _ _ _ _ _ (an_expr_er a)). intros [a1 ty] [a1' ty'] E. injection E as -> ->. reflexivity.
    + reflexivity.
    + cbn [an_expr er_expr].
      apply (rsim_bind _ _ _ _ _ _ (an_expr_er a)). intros [a1 ty] [a1' ty'] E. injection E as -> ->. cbn [fst snd rsim]. unfold esim.
      cbn [fst snd er_expr]. f_equal. f_equal. destruct ty as [t|]; [|reflexivity]. destruct (is_int t); [reflexivity|].
      rewrite er_info_append. reflexivity.
    + cbn [an_expr er_expr].
      apply (rsim_bind _ _ _ _ _ _ (an_var_er v)). intros [v1 ty] [v1' ty'] E. injection E as -> ->. reflexivity.
    + reflexivity.
Qed.

Lemma an_cond_er c m : rsim (fun r r' => r' = er_oexpr r) (an_cond L G c m) (an_cond L' G' (er_oexpr c) m).
Proof.
  destruct c as [[e off]|]; [|reflexivity]. cbn [an_cond er_oexpr].
  apply (rsim_bind _ _ _ _ _ _ (an_expr_er e)). intros [e1 ty] [e1' ty'] E. injection E as -> ->. cbn [fst snd rsim er_oexpr].
  f_equal. f_equal. destruct ty as [[| |]|]; try reflexivity; rewrite er_expr_append, er_err_mk, expr_range_er; reflexivity.
Qed.

Lemma is_var_er a : match er_expr a with EVar _ => true | _ => false end = match a with EVar _ => true | _ => false end.
Proof. destruct a; reflexivity. Qed.

Lemma an_args_er cname : forall args i params params', map er_ve params = map er_ve params' ->
  rsim (fun r r' => r' = er_args r) (an_args L G cname i args params) (an_args L' G' cname i (er_args args) params').
Proof.
  induction args as [|[a off] ar IH]; intros i params params' Hp; [reflexivity|].
  destruct params as [|p pr], params' as [|p' pr']; try discriminate Hp; [reflexivity|].
  cbn [map] in Hp.
  assert (Hp2 : ve_ref p = ve_ref p') by (apply (f_equal (fun l => match l with v :: _ => ve_ref v | [] => false end)) in Hp; exact Hp).
  assert (Hp3 : ve_ty p = ve_ty p') by (apply (f_equal (fun l => match l with v :: _ => ve_ty v | [] => None end)) in Hp; exact Hp).
  assert (Hp4 : map er_ve pr = map er_ve pr') by (apply (f_equal (@tl _)) in Hp; exact Hp).
  cbn [er_args map fst an_args]. fold (er_args ar). rewrite is_var_er, expr_range_er, <- Hp2.
  set (a1 := if ve_ref p && negb match a with EVar _ => true | _ => false end
             then expr_append a (mkerr_t (expr_range a) (ESem (ArgumentMustBeAVariable cname i))) else a).
  assert (Ea1 : (if ve_ref p && negb match a with EVar _ => true | _ => false end
                 then expr_append (er_expr a) (mkerr_t (0, 1) (ESem (ArgumentMustBeAVariable cname i))) else er_expr a) = er_expr a1).
  { unfold a1. destruct (ve_ref p && negb match a with EVar _ => true | _ => false end); [|reflexivity].
    rewrite er_expr_append, er_err_mk. reflexivity. }
  rewrite Ea1. apply (rsim_bind _ _ _ _ _ _ (an_expr_er a1)). intros [a2 ty] [a2' ty'] E. injection E as -> ->. cbn [fst snd].
  apply (rsim_bind _ _ _ _ _ _ (IH (S i) pr pr' Hp4)). intros r1 r1' ->. cbn [rsim er_args map fst]. f_equal. f_equal.
  rewrite <- Hp3. destruct ty as [t1|]; [|reflexivity]. destruct (ve_ty p) as [t2|]; [|reflexivity].
  destruct (dt_eqb t1 t2); [reflexivity|]. rewrite er_expr_append, er_err_mk. reflexivity.
Qed.

Definition stmt_er (s : stmt) : Prop := rsim (fun r r' => r' = er_stmt r) (an_stmt L G s) (an_stmt L' G' (er_stmt s)).

Lemma an_ref_er (r : option (stmt * nat)) :
  (forall x off, r = Some (x, off) -> stmt_er x) ->
  rsim (fun a a' => a' = er_ostmt a)
    (match r with Some (x, off) => do x' <- an_stmt L G x; ROk (Some (x', off)) | None => ROk None end)
    (match er_ostmt r with Some (x, off) => do x' <- an_stmt L' G' x; ROk (Some (x', off)) | None => ROk None end).
Proof.
  intros IH. destruct r as [[x off]|]; [|reflexivity]. cbn [er_ostmt].
  apply (rsim_bind _ _ _ _ _ _ (IH x off eq_refl)). intros a a' ->. reflexivity.
Qed.

Lemma an_stmts_er_of body : (forall x off, In (x, off) body -> stmt_er x) ->
  rsim (fun r r' => r' = er_stmts r) (an_stmts L G body) (an_stmts L' G' (er_stmts body)).
Proof.
  induction body as [|[x off] r IH]; intros H; [reflexivity|]. cbn [an_stmts er_stmts].
  apply (rsim_bind _ _ _ _ _ _ (H x off (or_introl eq_refl))). intros x1 x1' ->.
  apply (rsim_bind _ _ _ _ _ _ (IH (fun y o Hy => H y o (or_intror Hy)))). intros r1 r1' ->. reflexivity.
Qed.

Theorem an_stmt_er : forall s, stmt_er s.
Proof.
  apply FormatProofs.stmt_ind'; unfold stmt_er.
  - reflexivity.
  - intros v [[e off]|] inf; [|reflexivity]. cbn [an_stmt er_stmt er_oexpr].
    apply (rsim_bind _ _ _ _ _ _ (an_var_er v)). intros [v1 lty] [v1' lty'] E. injection E as -> ->. cbn [fst snd].
    apply (rsim_bind _ _ _ _ _ _ (an_expr_er e)). intros [e1 rty] [e1' rty'] E. injection E as -> ->. cbn [fst snd rsim er_stmt er_oexpr].
    f_equal. destruct lty as [a|], rty as [b|]; try reflexivity.
    destruct (negb (dt_eqb a b)); [rewrite er_info_append; reflexivity|]. destruct (negb (is_int a)); [rewrite er_info_append|]; reflexivity.
  - intros name args inf. rewrite er_stmt_call. cbn [an_stmt]. cbn [er_ident id_val].
    pose proof (lt_lookup_sim L L' G G' (id_val name) Hl Hg) as E.
    destruct (lt_lookup L G (id_val name)) as [[te|pe|ve|ve]|], (lt_lookup L' G' (id_val name)) as [[te'|pe'|ve'|ve']|];
      try discriminate E; cbn [option_map er_entry] in E;
      try (cbn [rsim]; rewrite er_stmt_call, er_info_append; reflexivity).
    apply (f_equal (fun o => match o with Some (EntProc t) => pe_params t | _ => [] end)) in E. cbn [er_pe pe_params] in E.
    apply (rsim_bind _ _ _ _ _ _ (an_args_er (id_val name) args 1 _ _ E)). intros a1 a1' ->. cbn [rsim]. rewrite er_stmt_call. f_equal.
    assert (El : length (pe_params pe') = length (pe_params pe)) by (apply (f_equal (@length _)) in E; rewrite !map_length in E; symmetry; exact E).
    unfold er_args at 1. rewrite map_length, El.
    destruct (Nat.compare (length args) (length (pe_params pe))); rewrite ?er_info_append; reflexivity.
  - intros c t e inf IHt IHe. rewrite er_stmt_if, !an_stmt_if.
    apply (rsim_bind _ _ _ _ _ _ (an_cond_er c _)). intros c1 c1' ->.
    apply (rsim_bind _ _ _ _ _ _ (an_ref_er t IHt)). intros t1 t1' ->.
    apply (rsim_bind _ _ _ _ _ _ (an_ref_er e IHe)). intros e1 e1' ->. cbn [rsim]. rewrite er_stmt_if. reflexivity.
  - intros c b inf IHb. rewrite er_stmt_while, !an_stmt_while.
    apply (rsim_bind _ _ _ _ _ _ (an_cond_er c _)). intros c1 c1' ->.
    apply (rsim_bind _ _ _ _ _ _ (an_ref_er b IHb)). intros b1 b1' ->. cbn [rsim]. rewrite er_stmt_while. reflexivity.
  - intros body inf IH. rewrite er_stmt_block, !an_stmt_block.
    apply (rsim_bind _ _ _ _ _ _ (an_stmts_er_of body IH)). intros b1 b1' ->. cbn [rsim]. rewrite er_stmt_block. reflexivity.
  - reflexivity.
Qed.

Theorem an_stmts_er body : rsim (fun r r' => r' = er_stmts r) (an_stmts L G body) (an_stmts L' G' (er_stmts body)).
Proof. apply an_stmts_er_of. intros x off _. apply an_stmt_er. Qed.

End Sem.
