(* C09 - "... and which produces the same diagnostics".

   The analysis (parser, table build, semantic analysis) reads token KINDS only and addresses tokens by their
   index, and all diagnostics live in the tree as (token-index range, message).  Hence two texts whose token
   vectors have the same kinds are analysed to the same tree, the same table and the same diagnostics; the
   byte range of a diagnostic is then the range of the SAME tokens (by index) in the other text.

   Combined with the structural theorems of Proofs/FormatStructProg.v (the formatted text of a comment-free
   valid program lexes to the same kinds) this gives the diagnostics half of C09 for every layout of every
   syntactically valid comment-free program, well-typed or not. *)
From Coq Require Import List Lia.
From Spl Require Import Model.Errors Proofs.FormatProofs Proofs.ParseKinds Proofs.RangeProofs Proofs.FormatStructProg.
From Spl Require Import Spec.Grammar Proofs.RenderProofs Proofs.PipelineText.
Import ListNotations.
Local Open Scope nat_scope.

Lemma new_doc_res_kinds t1 t2 toks1 toks2 d1 :
  lex t1 = Some toks1 -> lex t2 = Some toks2 -> map tk toks1 = map tk toks2 ->
  new_doc_res t1 = ODone d1 ->
  exists d2, new_doc_res t2 = ODone d2 /\ d_text d2 = t2 /\ d_toks d2 = toks2 /\ d_toks d1 = toks1
             /\ d_ast d2 = d_ast d1 /\ d_table d2 = d_table d1.
Proof.
  intros E1 E2 Hk H. unfold new_doc_res in *. rewrite E1 in H. rewrite E2.
  rewrite <- (parse_kinds toks1 toks2 Hk).
  destruct (parse toks1) as [p| |]; try discriminate H.
  destruct (build_res p) as [[p1 tb]|s]; try discriminate H.
  destruct (analyze_res p1 tb) as [p2|s]; try discriminate H.
  injection H as <-. eexists. repeat split.
Qed.

(* the diagnostics of two such documents: same messages, same token-index ranges; each byte range is computed
   from the tokens with the same indices *)
Lemma byte_range_kinds_shape toks1 toks2 x :
  length toks1 = length toks2 ->
  match byte_range toks1 x, byte_range toks2 x with
  | ROk (_, _, m1), ROk (_, _, m2) => m1 = m2
  | RFail s1, RFail s2 => s1 = s2
  | _, _ => False
  end.
Proof.
  intros Hl. unfold byte_range. destruct (Nat.ltb (e_s x) (e_e x)) eqn:Elt.
  - rewrite <- Hl. destruct (Nat.ltb (length toks1) (e_e x)) eqn:Eb; [reflexivity|].
    apply PeanoNat.Nat.ltb_lt in Elt. apply PeanoNat.Nat.ltb_ge in Eb.
    set (n := e_e x - e_s x). 
    assert (L1 : length (firstn n (skipn (e_s x) toks1)) = n) by (rewrite firstn_length, skipn_length; unfold n; lia).
    assert (L2 : length (firstn n (skipn (e_s x) toks2)) = n) by (rewrite firstn_length, skipn_length; unfold n; lia).
    assert (Hn : 0 < n) by (unfold n; lia).
    destruct (firstn n (skipn (e_s x) toks1)) as [|a1 r1] eqn:F1; [cbn in L1; lia|].
    destruct (firstn n (skipn (e_s x) toks2)) as [|a2 r2] eqn:F2; [cbn in L2; lia|].
    cbn [hd_error].
    assert (R1 : rev (a1 :: r1) <> []) by (intros E; apply (f_equal (@length _)) in E; rewrite rev_length in E; discriminate E).
    assert (R2 : rev (a2 :: r2) <> []) by (intros E; apply (f_equal (@length _)) in E; rewrite rev_length in E; discriminate E).
    destruct (rev (a1 :: r1)); [contradiction|]. destruct (rev (a2 :: r2)); [contradiction|]. reflexivity.
  - destruct (nth_error toks1 (e_e x)) eqn:N1, (nth_error toks2 (e_e x)) eqn:N2; try reflexivity.
    + apply nth_error_None in N2. assert (nth_error toks1 (e_e x) <> None) by congruence.
      apply nth_error_Some in H. lia.
    + apply nth_error_None in N1. assert (nth_error toks2 (e_e x) <> None) by congruence.
      apply nth_error_Some in H. lia.
Qed.

Lemma byte_ranges_kinds toks1 toks2 l l1 :
  length toks1 = length toks2 -> byte_ranges toks1 l = ROk l1 ->
  exists l2, byte_ranges toks2 l = ROk l2 /\ map snd l2 = map snd l1.
Proof.
  intros Hl. revert l1. induction l as [|x r IH]; intros l1 H; cbn [byte_ranges] in *.
  - injection H as <-. exists []. split; reflexivity.
  - pose proof (byte_range_kinds_shape toks1 toks2 x Hl) as Hx.
    destruct (byte_range toks1 x) as [[[s1 e1] m1]|s] eqn:B1; cbn [rbind] in H; [|discriminate H].
    destruct (byte_ranges toks1 r) as [r1|s] eqn:B1r; cbn [rbind] in H; [|discriminate H].
    injection H as <-. destruct (IH r1 eq_refl) as [r2 [B2r Hm]].
    destruct (byte_range toks2 x) as [[[s2 e2] m2]|s]; [|contradiction]. subst m2.
    rewrite B2r. cbn [rbind]. eexists. split; [reflexivity|]. cbn [map snd]. now rewrite Hm.
Qed.

(* the theorem: formatting a layout of a syntactically valid comment-free program yields a text that is analysed
   to the same tree and table; its diagnostics are the same messages, in the same order, attached to the same
   token-index ranges *)
Theorem format_same_diagnostics p doc toks ins ts :
  prog_ok p = true -> comment_free p = true -> aprog_valid p = true ->
  lex doc = Some toks -> map tk toks = flatten p ++ [Eof] ->
  exists txt d d',
    formatted_text doc ins ts = Done txt /\
    new_doc_res doc = ODone d /\ new_doc_res txt = ODone d' /\
    map tk (d_toks d') = map tk (d_toks d) /\
    d_ast d' = d_ast d /\ d_table d' = d_table d /\
    tree_errors (d_ast d') = tree_errors (d_ast d) /\
    forall l, doc_errors_res d = ROk l -> exists l', doc_errors_res d' = ROk l' /\ map snd l' = map snd l.
Proof.
  intros Hok Hc Hv El Hk.
  destruct (format_document p doc toks ins ts Hok Hc Hv El Hk) as (txt & toks' & Ef & El' & Ek & _).
  destruct (new_doc_total doc) as [d Hd].
  destruct (new_doc_res_kinds doc txt toks toks' d El El' (eq_sym Ek) Hd) as (d' & Hd' & _ & Ht' & Ht & Ha & Hb).
  exists txt, d, d'. repeat split; try assumption.
  - now rewrite Ht, Ht'.
  - now rewrite Ha.
  - intros l Hl. unfold doc_errors_res in *. rewrite Ha, Ht'. rewrite Ht in Hl.
    apply (byte_ranges_kinds toks toks'); [|exact Hl].
    rewrite <- (map_length tk toks), <- Ek. apply map_length.
Qed.
