(* C13, second half - renaming BY NAME preserves the static semantics.

   [alpha_well_typed]: if [well_typed T G] (Spec/Typing.v) and the renaming (g on the global names, v q on the
   locals of procedure q, phi on the creators of array types) is injective and collision free on the names
   in use, leaves the predefined names alone and is compatible with the declarations of T ([decl_ok]), then
   [well_typed (rn_program (nmf g v) T) (rn_gtable g v phi G)] (Proofs/RefsRoundDefs.v).

   The proof follows the judgements: association lists (lookup through a renamed list), the predefined table
   is a fixed point, expressions / statements (typing_mutind, wt_mutind), type expressions, parameters,
   variables, global declarations (the invariant [gt_ok]: keys in use, a procedure entry is stored under its
   own name and the keys of its local table are in use), bodies. *)
From Coq Require Import PeanoNat Lia Bool List.
From Spl Require Import Spec.Typing Proofs.SemProofs Proofs.TypingProofs Spec.Nav Proofs.RefsValidWalks Proofs.RefsValidSem Proofs.RefsRoundDefs.
Import ListNotations.
Local Open Scope nat_scope.

(* ---------------------------------------------------------------------------------------- *)
(* lookup through a renamed association list *)

Lemma lookup_rn {V W} (f : text -> text) (h : V -> W) (t : list (text * V)) x :
  (forall k, In k (map fst t) -> f k = f x -> k = x) ->
  lookup (map (fun kv => (f (fst kv), h (snd kv))) t) (f x) = option_map h (lookup t x).
Proof.
  induction t as [|[k0 e0] t IH]; intros H; [reflexivity|].
  cbn [map lookup fst snd]. destruct (text_eqb k0 x) eqn:E.
  - apply text_eqb_eq in E. subst k0. rewrite text_eqb_refl. reflexivity.
  - rewrite text_eqb_neq.
    + apply IH. intros k Hk. apply H. right. exact Hk.
    + intros Hf. apply H in Hf; [|left; reflexivity]. subst k0. rewrite text_eqb_refl in E. discriminate.
Qed.

Lemma lookup_rn_sep {V W} (f : text -> text) (h : V -> W) (t : list (text * V)) y :
  (forall k, In k (map fst t) -> f k <> y) ->
  lookup (map (fun kv => (f (fst kv), h (snd kv))) t) y = None.
Proof.
  induction t as [|[k0 e0] t IH]; intros H; [reflexivity|].
  cbn [map lookup fst snd]. rewrite text_eqb_neq.
  - apply IH. intros k Hk. apply H. right. exact Hk.
  - apply H. left. reflexivity.
Qed.

(* the block case of rn_stmt *)
Lemma rn_stmt_block F q D body inf : rn_stmt F q D (SBlock body inf) = SBlock (rn_stmts F q D body) inf.
Proof.
  cbn [rn_stmt]. f_equal. unfold rn_stmts.
  induction body as [|[x off] r IH]; [reflexivity|]. cbn [map fst snd]. now rewrite IH.
Qed.

Lemma is_array_rn phi t : Typing.is_array (rn_dtype phi t) -> Typing.is_array t.
Proof. intros [sz [b [c H]]]. destruct t as [| |sz0 b0 c0]; try discriminate H. exists sz0, b0, c0. reflexivity. Qed.

Section Alpha.
Variables (g : text -> text) (v : text -> text -> text) (phi : text -> text) (U : text -> Prop).
(* U = "a name in use": g and every v q are injective on U, and never collide with each other there *)
Hypothesis g_inj : forall x y, U x -> U y -> g x = g y -> x = y.
Hypothesis v_inj : forall q x y, U x -> U y -> v q x = v q y -> x = y.
Hypothesis gv_sep : forall q x y, U x -> U y -> g x = v q y -> x = y.
(* the predefined names are in use and not renamed, nor are the parameters of the predefined procedures *)
Hypothesis U_init : forall x, lookup initialized x <> None -> U x.
Hypothesis g_init : forall x, lookup initialized x <> None -> g x = x.
Hypothesis v_init : forall q x, lookup initialized q <> None -> v q x = x.
Hypothesis g_main : forall x, U x -> (g x = s_main <-> x = s_main).

Notation F := (nmf g v).
Notation rnG := (rn_gtable g v phi).
Notation rnL := (rn_ltable v phi).
Notation rnT := (rn_dtype phi).

(* what the renaming must satisfy on the declarations of the tree: declared names are in use, phi maps the
   creator of every array type to the creator the renamed declaration produces *)
Definition decl_ok (d : gdecl * nat) : Prop :=
  match fst d with
  | GType td => forall name, td_name td = Some name -> U (id_val name) /\ phi (id_val name) = g (id_val name)
  | GProc pd => forall name, pd_name pd = Some name ->
      U (id_val name)
      /\ (forall x, U x -> phi (id_val name ++ [46%N] ++ x) = g (id_val name) ++ [46%N] ++ v (id_val name) x)
      /\ (forall i, In i (var_names_in_params all (pd_params pd) ++ var_names_in_vars all (pd_vars pd)) -> U (id_val i))
  | GError _ => True
  end.

(* the renamed entries, named *)
Definition rn_tentry (te : tentry) : tentry :=
  {| ten_name := rn_id g (ten_name te); ten_ty := option_map rnT (ten_ty te);
     ten_range := ten_range te; ten_doc := ten_doc te |}.
Definition rn_pentry (pe : pentry) : pentry :=
  {| pe_name := rn_id g (pe_name pe); pe_local := rnL (id_val (pe_name pe)) (pe_local pe);
     pe_params := map (rn_ventry v phi (id_val (pe_name pe))) (pe_params pe);
     pe_range := pe_range pe; pe_doc := pe_doc pe |}.

Lemma rn_gentry_type te : rn_gentry g v phi (GTypeE te) = GTypeE (rn_tentry te).
Proof. reflexivity. Qed.
Lemma rn_gentry_proc pe : rn_gentry g v phi (GProcE pe) = GProcE (rn_pentry pe).
Proof. reflexivity. Qed.

Lemma rn_gentry_proc_inv ge pe' : rn_gentry g v phi ge = GProcE pe' -> exists pe, ge = GProcE pe /\ pe' = rn_pentry pe.
Proof. destruct ge as [te|pe]; [discriminate|]. rewrite rn_gentry_proc. intros [= <-]. eauto. Qed.

Lemma rnG_app G1 G2 : rnG (G1 ++ G2) = rnG G1 ++ rnG G2.
Proof. unfold rn_gtable. apply map_app. Qed.

Lemma rnL_snoc q L k e : rnL q (L ++ [(k, e)]) = rnL q L ++ [(v q k, rn_lentry v phi q e)].
Proof. unfold rn_ltable. rewrite map_app. reflexivity. Qed.

(* ---------------------------------------------------------------------------------------- *)
(* keys in use *)

Definition keys_ok {V} (t : list (text * V)) : Prop := forall k, In k (map fst t) -> U k.

Lemma keys_ok_snoc {V} (t : list (text * V)) k e : keys_ok t -> U k -> keys_ok (t ++ [(k, e)]).
Proof. intros H Hk x Hx. rewrite keys_snoc in Hx. apply in_app_or in Hx as [Hx|[<-|[]]]; auto. Qed.

Lemma keys_ok_nil {V} : keys_ok (@nil (text * V)).
Proof. intros k []. Qed.

Lemma lookup_U {V} (t : list (text * V)) x : keys_ok t -> lookup t x <> None -> U x.
Proof. intros H Hx. apply H. now apply lookup_some_keys. Qed.

Lemma lookup_rn_g G x : keys_ok G -> U x -> lookup (rnG G) (g x) = option_map (rn_gentry g v phi) (lookup G x).
Proof. intros HG Hx. unfold rn_gtable. apply lookup_rn. intros k Hk E. apply g_inj; auto. Qed.

Lemma lookup_rn_l q L x : keys_ok L -> U x -> lookup (rnL q L) (v q x) = option_map (rn_lentry v phi q) (lookup L x).
Proof. intros HL Hx. unfold rn_ltable. apply lookup_rn. intros k Hk E. apply (v_inj q); auto. Qed.

(* a global name does not collide with a renamed local *)
Lemma lookup_rn_lg q L x : keys_ok L -> U x -> lookup L x = None -> lookup (rnL q L) (g x) = None.
Proof.
  intros HL Hx Hn. unfold rn_ltable. apply lookup_rn_sep. intros k Hk E. symmetry in E.
  apply gv_sep in E; auto. subst k. apply lookup_none_keys in Hn. contradiction.
Qed.

(* the invariant of the global tables: keys in use; a procedure entry is stored under its own name and
   the keys of its local table are in use *)
Definition gent_ok (ke : text * gentry) : Prop :=
  match snd ke with
  | GProcE pe => id_val (pe_name pe) = fst ke /\ keys_ok (pe_local pe)
  | GTypeE _ => True
  end.
Definition gt_ok (G : gtable) : Prop := keys_ok G /\ Forall gent_ok G.

Lemma gt_ok_snoc G ke : gt_ok G -> U (fst ke) -> gent_ok ke -> gt_ok (G ++ [ke]).
Proof.
  intros [Hk Hf] Hu He. destruct ke as [k e]. split; [now apply keys_ok_snoc|].
  apply Forall_app. split; [exact Hf|]. constructor; [exact He | constructor].
Qed.

Lemma gt_ok_proc G x pe : gt_ok G -> lookup G x = Some (GProcE pe) -> id_val (pe_name pe) = x /\ keys_ok (pe_local pe).
Proof.
  intros [_ Hf] Hl. apply lookup_In in Hl. rewrite Forall_forall in Hf. exact (Hf _ Hl).
Qed.

(* ---------------------------------------------------------------------------------------- *)
(* the predefined table is a fixed point *)

Lemma rn_int_param q n r : lookup initialized q <> None -> rn_ventry v phi q (int_param n r) = int_param n r.
Proof.
  intros H. unfold rn_ventry, int_param, rn_id, new_ident.
  cbn [ve_name ve_ref ve_ty ve_range ve_doc id_val id_info option_map rn_dtype]. rewrite (v_init q _ H). reflexivity.
Qed.

Lemma rn_proc_entry s doc ps :
  lookup initialized (str s) <> None -> map (rn_ventry v phi (str s)) ps = ps ->
  (g (fst (procedure_entry s doc ps)), rn_gentry g v phi (snd (procedure_entry s doc ps))) = procedure_entry s doc ps.
Proof.
  intros H Hps. unfold procedure_entry, rn_gentry, rn_id, new_ident, rn_ltable.
  cbn [fst snd pe_name pe_local pe_params pe_range pe_doc id_val id_info map]. rewrite Hps, (g_init _ H). reflexivity.
Qed.

Lemma rn_init : rnG initialized = initialized.
Proof.
  assert (Hint : g s_int = s_int) by (apply g_init; vm_compute; discriminate).
  unfold initialized, rn_gtable. cbn [map].
  rewrite !rn_proc_entry;
    [| match goal with
       | |- lookup initialized _ <> None => vm_compute; discriminate
       | |- map _ _ = _ => cbn [map]; rewrite ?rn_int_param by (vm_compute; discriminate); reflexivity
       end ..].
  cbn [fst snd rn_gentry ten_name ten_ty ten_range ten_doc option_map rn_dtype].
  unfold rn_id, new_ident. cbn [id_val id_info]. rewrite Hint. reflexivity.
Qed.

Lemma gt_ok_init : gt_ok initialized.
Proof.
  split.
  - intros k Hk. apply U_init. now apply lookup_some_keys.
  - unfold initialized, procedure_entry. repeat constructor; intros k [].
Qed.

(* ---------------------------------------------------------------------------------------- *)
(* expressions and statements of the procedure originally named q *)
Section Body.
Variables (q : text) (L : ltable) (G : gtable).
Hypothesis HL : keys_ok L.
Hypothesis HG : gt_ok G.

Lemma typing_rn :
  (forall a t, var_type L G a t -> forall D, var_type (rnL q L) (rnG G) (rn_var F (Some q) D a) (rnT t)) /\
  (forall e t, expr_type L G e t -> forall D, expr_type (rnL q L) (rnG G) (rn_expr F (Some q) D e) (rnT t)).
Proof.
  apply typing_mutind.
  - intros i e ve t Hb Hv Ht D. destruct (binds_var_local _ _ _ _ _ Hb Hv) as [le [Hl Hle]].
    cbn [rn_var]. apply (VT_name _ _ _ (entry_of_l (rn_lentry v phi q le)) (rn_ventry v phi q ve)).
    + apply B_local. unfold rn_ident, nmf. cbn [id_val].
      rewrite lookup_rn_l; [now rewrite Hl | exact HL |]. apply (lookup_U L); [exact HL | congruence].
    + subst ve. destruct le; [left | right]; reflexivity.
    + cbn [rn_ventry ve_ty]. rewrite Ht. reflexivity.
  - intros a e off inf sz b c _ IHa _ IHe D. cbn [rn_var]. specialize (IHa D). cbn [rn_dtype] in IHa.
    eapply VT_index; [exact IHa | apply (IHe (D + off))].
  - intros i D. apply ET_lit.
  - intros a t _ IH D. cbn [rn_expr]. apply ET_var, IH.
  - intros op l r inf Hop _ IHl _ IHr D. cbn [rn_expr rn_dtype]. apply ET_arith; [exact Hop | apply IHl | apply IHr].
  - intros op l r inf Hop _ IHl _ IHr D. cbn [rn_expr rn_dtype]. apply ET_compare; [exact Hop | apply IHl | apply IHr].
  - intros op a inf _ IH D. cbn [rn_expr rn_dtype]. apply ET_neg, IH.
  - intros a inf t _ IH D. cbn [rn_expr]. apply ET_paren, IH.
Qed.

Lemma args_rn qc args ps : Forall2 (arg_ok L G) args ps -> forall D,
  Forall2 (arg_ok (rnL q L) (rnG G)) (map (fun a => (rn_expr F (Some q) (D + snd a) (fst a), snd a)) args)
          (map (rn_ventry v phi qc) ps).
Proof.
  induction 1 as [|[a o] p args ps Ha _ IH]; intros D; cbn [map fst snd]; constructor; [|apply IH].
  inversion Ha as [a' off' p' t Ht Hp Hr]; subst. apply (Arg_ok _ _ _ _ _ (rnT t)).
  - apply (proj2 typing_rn). exact Ht.
  - cbn [rn_ventry ve_ty]. now rewrite Hp.
  - cbn [rn_ventry ve_ref]. intros Hr'. destruct (Hr Hr') as [a0 ->]. eexists. reflexivity.
Qed.

Lemma wt_rn :
  (forall s, wt_stmt L G s -> forall D, wt_stmt (rnL q L) (rnG G) (rn_stmt F (Some q) D s)) /\
  (forall l, wt_stmts L G l -> forall D, wt_stmts (rnL q L) (rnG G) (rn_stmts F (Some q) D l)).
Proof.
  destruct typing_rn as [Tv Te]. apply wt_mutind.
  - intros inf D. apply WT_empty.
  - intros a e off inf Ha He D. cbn [rn_stmt rn_oexpr]. apply WT_assign; [apply (Tv _ _ Ha) | apply (Te _ _ He)].
  - intros name args inf pe Hb Ha D. cbn [rn_stmt].
    inversion Hb as [le Hl He | ge Hl Hg He]; [destruct le; discriminate He|].
    destruct ge as [te|pe0]; [discriminate He|]. injection He as ->.
    assert (Hx : U (id_val name)) by (apply (lookup_U G); [exact (proj1 HG) | congruence]).
    apply (WT_call _ _ _ _ _ (rn_pentry pe)).
    + apply (B_global _ _ _ (rn_gentry g v phi (GProcE pe))); unfold rn_ident, nmf; cbn [id_val].
      * apply lookup_rn_lg; assumption.
      * rewrite lookup_rn_g; [now rewrite Hg | exact (proj1 HG) | exact Hx].
    + cbn [rn_pentry pe_params]. apply args_rn. exact Ha.
  - intros c oc t ot inf Hc _ IHt D. cbn [rn_stmt rn_oexpr]. apply WT_if; [apply (Te _ _ Hc) | apply IHt].
  - intros c oc t ot e oe inf Hc _ IHt _ IHe D. cbn [rn_stmt rn_oexpr].
    apply WT_if_else; [apply (Te _ _ Hc) | apply IHt | apply IHe].
  - intros c oc b ob inf Hc _ IHb D. cbn [rn_stmt rn_oexpr]. apply WT_while; [apply (Te _ _ Hc) | apply IHb].
  - intros body inf _ IH D. rewrite rn_stmt_block. apply WT_block, IH.
  - intros D. apply WT_nil.
  - intros s off r _ IHs _ IHr D. unfold rn_stmts. cbn [map fst snd]. apply WT_cons; [apply IHs | apply IHr].
Qed.
End Body.

(* ---------------------------------------------------------------------------------------- *)
(* type expressions: the creator goes through phi *)
Lemma denotes_rn qo L L' G c te t :
  gt_ok G -> (forall x, U x -> lookup L x = None -> lookup L' (g x) = None) ->
  denotes L G c te t -> forall D, denotes L' (rnG G) (phi c) (rn_texpr F qo D te) (rnT t).
Proof.
  intros HG HL'. induction 1 as [i te t Hb Ht | il b off inf bt _ IH]; intros D.
  - cbn [rn_texpr]. inversion Hb as [le Hl He | ge Hl Hg He]; [destruct le; discriminate He|].
    destruct ge as [te0|pe0]; [|discriminate He]. injection He as ->.
    assert (Hx : U (id_val i)) by (apply (lookup_U G); [exact (proj1 HG) | congruence]).
    apply (Den_name _ _ _ _ (rn_tentry te)).
    + apply (B_global _ _ _ (rn_gentry g v phi (GTypeE te))); unfold rn_ident, nmf; cbn [id_val].
      * apply HL'; assumption.
      * rewrite lookup_rn_g; [now rewrite Hg | exact (proj1 HG) | exact Hx].
    + cbn [rn_tentry ten_ty]. now rewrite Ht.
  - cbn [rn_texpr rn_dtype]. apply Den_array. apply IH.
Qed.

(* ---------------------------------------------------------------------------------------- *)
(* parameters and variables of the procedure originally named pn *)
Section Locals.
Variables (G : gtable) (pn : text).
Hypothesis HG : gt_ok G.
Hypothesis Hphi : forall x, U x -> phi (pn ++ [46%N] ++ x) = g pn ++ [46%N] ++ v pn x.

Lemma creator_rn D name : U (id_val name) ->
  anon_creator (g pn) (rn_ident F CLocal (Some pn) D name) = phi (anon_creator pn name).
Proof. intros H. unfold anon_creator, rn_ident, nmf. cbn [id_val]. now rewrite Hphi. Qed.

Lemma wf_params_rn L ps L1 es : wf_params G pn L ps L1 es ->
  keys_ok L -> (forall i, In i (var_names_in_params all ps) -> U (id_val i)) ->
  forall D,
    wf_params (rnG G) (g pn) (rnL pn L) (map (fun x => (rn_param F (Some pn) (D + snd x) (fst x), snd x)) ps)
              (rnL pn L1) (map (rn_ventry v phi pn) es)
    /\ keys_ok L1.
Proof.
  induction 1 as [L | L doc is_ref name te o inf off t r L' es Hd Harr Hfresh _ IH]; intros HL HU D.
  - split; [apply WFP_nil | exact HL].
  - assert (Hn : U (id_val name)).
    { apply (HU (shift_ident name off)). unfold var_names_in_params. cbn [flat_map fst snd all app]. left. reflexivity. }
    destruct (IH (keys_ok_snoc _ _ _ HL Hn)
                 (fun i Hi => HU i (or_intror Hi)) D) as [IHw IHk].
    split; [|exact IHk]. cbn [map fst snd rn_param option_map rn_otexpr].
    rewrite rnL_snoc in IHw.
    refine (WFP_cons (rnG G) (g pn) _ doc is_ref (rn_ident F CLocal (Some pn) (D + off) name)
                     (rn_texpr F (Some pn) (D + off + o) te) o inf off (rnT t) _ _ _ _ _ _ _).
    + rewrite (creator_rn _ _ Hn). apply (denotes_rn _ [] []); [exact HG | reflexivity | exact Hd].
    + intros Ha. apply Harr. eapply is_array_rn. exact Ha.
    + unfold rn_ident, nmf. cbn [id_val]. rewrite lookup_rn_l; [now rewrite Hfresh | exact HL | exact Hn].
    + exact IHw.
Qed.

Lemma wf_vars_rn L vs L2 : wf_vars G pn L vs L2 ->
  keys_ok L -> (forall i, In i (var_names_in_vars all vs) -> U (id_val i)) ->
  forall D,
    wf_vars (rnG G) (g pn) (rnL pn L) (map (fun x => (rn_vardecl F (Some pn) (D + snd x) (fst x), snd x)) vs) (rnL pn L2)
    /\ keys_ok L2.
Proof.
  induction 1 as [L | L doc name te o inf off t r L' Hd Hfresh _ IH]; intros HL HU D.
  - split; [apply WFV_nil | exact HL].
  - assert (Hn : U (id_val name)).
    { apply (HU (shift_ident name off)). unfold var_names_in_vars. cbn [flat_map fst snd all app]. left. reflexivity. }
    destruct (IH (keys_ok_snoc _ _ _ HL Hn)
                 (fun i Hi => HU i (or_intror Hi)) D) as [IHw IHk].
    split; [|exact IHk]. cbn [map fst snd rn_vardecl option_map rn_otexpr].
    rewrite rnL_snoc in IHw.
    refine (WFV_cons (rnG G) (g pn) _ doc (rn_ident F CLocal (Some pn) (D + off) name)
                     (rn_texpr F (Some pn) (D + off + o) te) o inf off (rnT t) _ _ _ _ _).
    + rewrite (creator_rn _ _ Hn). apply (denotes_rn _ L); [exact HG | | exact Hd].
      intros x Hx Hnone. apply lookup_rn_lg; assumption.
    + unfold rn_ident, nmf. cbn [id_val]. rewrite lookup_rn_l; [now rewrite Hfresh | exact HL | exact Hn].
    + exact IHw.
Qed.
End Locals.

(* ---------------------------------------------------------------------------------------- *)
(* global declarations *)
Lemma wf_gdecl_rn G off d ke : wf_gdecl G off d ke -> gt_ok G -> decl_ok (d, off) ->
  wf_gdecl (rnG G) off (rn_gdecl F off d) (g (fst ke), rn_gentry g v phi (snd ke)) /\ U (fst ke) /\ gent_ok ke.
Proof.
  intros [d0 name te o t Hn Hmain Hfresh Hty Hd | d0 name L1 ps L2 Hn Hfresh Hp Hv] HG Hok;
    unfold decl_ok in Hok; cbn [fst snd] in Hok |- *.
  - destruct (Hok _ Hn) as [Hu Hc]. split; [|split; [exact Hu | exact I]].
    cbn [rn_gdecl]. rewrite rn_gentry_type. unfold rn_tentry. cbn [ten_name ten_ty ten_range ten_doc option_map].
    refine (WF_type (rnG G) off _ (rn_ident F CType None off name) (rn_texpr F None (off + o) te) o (rnT t) _ _ _ _ _).
    + cbn [td_name]. now rewrite Hn.
    + unfold rn_ident, nmf. cbn [id_val]. intros E. apply Hmain. now apply (g_main _ Hu).
    + unfold rn_ident, nmf. cbn [id_val]. rewrite lookup_rn_g; [now rewrite Hfresh | exact (proj1 HG) | exact Hu].
    + cbn [td_ty]. rewrite Hty. reflexivity.
    + unfold rn_ident at 1. unfold nmf at 1. cbn [id_val]. rewrite <- Hc.
      apply (denotes_rn _ [] []); [exact HG | reflexivity | exact Hd].
  - destruct (Hok _ Hn) as [Hu [Hc HU]].
    destruct (wf_params_rn G (id_val name) HG Hc _ _ _ _ Hp keys_ok_nil (fun i Hi => HU i (in_or_app _ _ _ (or_introl Hi))) off) as [Hp' HL1].
    destruct (wf_vars_rn G (id_val name) HG Hc _ _ _ Hv HL1 (fun i Hi => HU i (in_or_app _ _ _ (or_intror Hi))) off) as [Hv' HL2].
    split; [|split; [exact Hu | split; [reflexivity | exact HL2]]].
    cbn [rn_gdecl]. rewrite rn_gentry_proc. unfold rn_pentry. cbn [pe_name pe_local pe_params pe_range pe_doc].
    rewrite Hn. cbn [option_map].
    refine (WF_proc (rnG G) off _ (rn_ident F CProc (Some (id_val name)) off name) (rnL (id_val name) L1) _ _ _ _ _ _).
    + reflexivity.
    + unfold rn_ident, nmf. cbn [id_val]. rewrite lookup_rn_g; [now rewrite Hfresh | exact (proj1 HG) | exact Hu].
    + exact Hp'.
    + exact Hv'.
Qed.

Lemma wf_gdecls_rn G ds es : wf_gdecls G ds es -> gt_ok G -> Forall decl_ok ds ->
  wf_gdecls (rnG G) (map (fun x => (rn_gdecl F (snd x) (fst x), snd x)) ds) (rnG es) /\ gt_ok (G ++ es).
Proof.
  induction 1 as [G | G d off ke r es Hd _ IH]; intros HG Hok.
  - split; [apply WFG_nil | now rewrite app_nil_r].
  - inversion Hok as [|? ? Hok1 Hok2]; subst.
    destruct (wf_gdecl_rn _ _ _ _ Hd HG Hok1) as [Hd' [Hu He]].
    destruct (IH (gt_ok_snoc _ _ HG Hu He) Hok2) as [IHw IHk].
    split; [|now rewrite <- app_assoc in IHk].
    rewrite rnG_app in IHw. cbn [map fst snd].
    change (rnG (ke :: es)) with ((g (fst ke), rn_gentry g v phi (snd ke)) :: rnG es).
    apply WFG_cons; [exact Hd' | exact IHw].
Qed.

(* ---------------------------------------------------------------------------------------- *)
(* the theorem *)
Theorem alpha_well_typed : forall (T : program) (G : gtable),
  well_typed T G -> Forall decl_ok (pg_decls T) ->
  well_typed (rn_program (nmf g v) T) (rn_gtable g v phi G).
Proof.
  intros T G [[es [Hwf [HGeq [pe [Hmain Hpar]]]]] Hb] Hok.
  destruct (wf_gdecls_rn _ _ _ Hwf gt_ok_init Hok) as [Hwf' Hgt]. rewrite rn_init in Hwf'. rewrite <- HGeq in Hgt.
  split.
  - exists (rnG es). split; [exact Hwf'|]. split; [now rewrite HGeq, rnG_app, rn_init|].
    exists (rn_pentry pe).
    assert (Hs : U s_main) by (apply (lookup_U G); [exact (proj1 Hgt) | congruence]).
    assert (Hgm : g s_main = s_main) by (now apply (g_main _ Hs)).
    split; [|cbn [rn_pentry pe_params]; now rewrite Hpar].
    rewrite <- Hgm at 1. rewrite lookup_rn_g; [now rewrite Hmain | exact (proj1 Hgt) | exact Hs].
  - unfold wt_bodies in *. cbn [rn_program pg_decls]. rewrite Forall_forall in *.
    intros d' Hd'. apply in_map_iff in Hd' as [[gd off] [<- Hin]]. cbn [fst snd].
    destruct (Hb _ Hin) as [He Hw]. pose proof (Hok _ Hin) as Hdk.
    unfold has_entry, wt_body, decl_ok in *. cbn [fst snd] in *.
    destruct gd as [td|pd|inf]; cbn [rn_gdecl]; [split; exact I | | split; exact I].
    cbn [pd_name pd_stmts]. destruct (pd_name pd) as [name|] eqn:En; cbn [option_map].
    + destruct (Hdk _ eq_refl) as [Hu _]. split.
      * unfold rn_ident, nmf. cbn [id_val]. rewrite lookup_rn_g; [|exact (proj1 Hgt) | exact Hu].
        destruct (lookup G (id_val name)); [discriminate | contradiction].
      * intros pe' [name' [Hn' [Hl' Hr']]]. cbn [pd_name pd_info] in Hn', Hr'. injection Hn' as <-.
        unfold rn_ident, nmf in Hl'. cbn [id_val] in Hl'. rewrite lookup_rn_g in Hl'; [|exact (proj1 Hgt) | exact Hu].
        destruct (lookup G (id_val name)) as [ge|] eqn:El; [|discriminate Hl']. cbn [option_map] in Hl'. injection Hl' as Hl'.
        apply rn_gentry_proc_inv in Hl' as [pe0 [-> ->]].
        destruct (gt_ok_proc _ _ _ Hgt El) as [Hname HL].
        assert (Hoe : own_entry G pd off pe0) by (exists name; repeat split; assumption).
        cbn [rn_pentry pe_local]. rewrite Hname.
        apply (proj2 (wt_rn (id_val name) (pe_local pe0) G HL Hgt)). exact (Hw _ Hoe).
    + split; [exact I|]. intros pe' [name' [Hn' _]]. cbn [pd_name] in Hn'. discriminate Hn'.
Qed.
End Alpha.

Print Assumptions alpha_well_typed.
