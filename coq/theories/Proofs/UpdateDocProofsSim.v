(* The two models of the parser agree: the incremental machinery of Model/ParserInc.v run without
   an old tree (`this = None` everywhere) IS the scratch parser of Model/Parser.v, for every token
   list, every fuel and every TokenChange (the change is never consulted without an old node).

   A simulation between the two token streams: same position, reference position and error
   buffer; the stack `inc_references` is arbitrary - Reference::parse pops it on every error even
   without an old node, which nothing observes because only `affected(Some _)` reads it.  Errors
   of the incremental side are never `Affected`.  One lemma per combinator, then every
   non-terminal. *)
From Coq Require Import List Arith Lia.
From Spl Require Import Model.ParserInc.
Import ListNotations.
Local Open Scope nat_scope.

Definition proj (s : ist) : st := {| pos := ipos s; refp := irefp s; ebuf := iebuf s |}.

Definition rsimR {A B} (R : A -> B -> Prop) (x : pres A) (y : ires B) : Prop :=
  match x, y with
  | POk s a, IOk s' b => s = proj s' /\ R a b
  | PErr s, IErr s' fl => s = proj s' /\ fl = false
  | PFuel, IFuel => True
  | _, _ => False
  end.

Notation rsim := (rsimR eq).

Definition Sim {A} (p : parser A) (q : iparser A) : Prop := forall s, rsim (p (proj s)) (q s).

Ltac sm :=
  cbn [rsimR] in *;
  repeat match goal with
         | H : _ /\ _ |- _ => destruct H
         | H : False |- _ => contradiction
         end; subst; try (split; reflexivity); try reflexivity; try exact I.

Lemma rsim_bind {A B A' B'} (R : A -> A' -> Prop) (R' : B -> B' -> Prop) x y (k : st -> A -> pres B) (k' : ist -> A' -> ires B') :
  rsimR R x y -> (forall s a b, R a b -> rsimR R' (k (proj s) a) (k' s b)) -> rsimR R' (bind x k) (ibind y k').
Proof. intros H Hk. destruct x as [s a|s|], y as [s' b|s' fl| |]; sm; cbn [bind ibind]; auto. Qed.

(* ------------------------------------------------------------------------------------------ *)
(* combinators *)

Lemma Sim_fuel {A} : Sim (fun _ => @PFuel A) (fun _ => @IFuel A).
Proof. intros s. exact I. Qed.

Lemma Sim_map {A B} (f : A -> B) p q : Sim p q -> Sim (p_map f p) (i_map f q).
Proof.
  intros H s. unfold p_map, i_map. eapply rsim_bind; [apply H|]. intros s' a b ->. split; reflexivity.
Qed.

Lemma Sim_alt {A} (p p' : parser A) q q' : Sim p q -> Sim p' q' -> Sim (p_alt p p') (i_alt q q').
Proof.
  intros H H' s. unfold p_alt, i_alt. specialize (H s). specialize (H' s).
  destruct (p (proj s)), (q s); sm; assumption.
Qed.

Lemma Sim_opt {A} (p : parser A) q : Sim p q -> Sim (p_opt p) (i_opt q).
Proof. intros H s. unfold p_opt, i_opt. specialize (H s). destruct (p (proj s)), (q s); sm. Qed.

Lemma Sim_pair {A B} (p : parser A) (p' : parser B) q q' : Sim p q -> Sim p' q' -> Sim (p_pair p p') (i_pair q q').
Proof.
  intros H H' s. unfold p_pair, i_pair. eapply rsim_bind; [apply H|]. intros s1 a b ->.
  eapply rsim_bind; [apply H'|]. intros s2 a' b' ->. split; reflexivity.
Qed.

Lemma Sim_restore {A} (p : parser A) q : Sim p q -> Sim (p_restore p) (i_restore q).
Proof. intros H s. unfold p_restore, i_restore. specialize (H s). destruct (p (proj s)), (q s); sm. Qed.

Lemma Sim_preceded {A B} (p : parser A) (p' : parser B) q q' : Sim p q -> Sim p' q' -> Sim (p_preceded p p') (i_preceded q q').
Proof. intros H H'. unfold p_preceded, i_preceded. apply Sim_map, Sim_pair; assumption. Qed.

Lemma Sim_terminated {A B} (p : parser A) (p' : parser B) q q' : Sim p q -> Sim p' q' -> Sim (p_terminated p p') (i_terminated q q').
Proof. intros H H'. unfold p_terminated, i_terminated. apply Sim_map, Sim_pair; assumption. Qed.

Lemma many0_sim {A B} (R : A -> B -> Prop) (p : parser A) (q : iparser B) :
  (forall s, rsimR R (p (proj s)) (q s)) ->
  forall fuel s, rsimR (Forall2 R) (p_many0 fuel p (proj s)) (i_many0 fuel q s).
Proof.
  intros H. induction fuel as [|f IH]; intros s; cbn [p_many0 i_many0]; [exact I|].
  specialize (H s). destruct (p (proj s)) as [s1 a| |], (q s) as [s2 b|s2 fl| |]; sm; [|split; [reflexivity | constructor]].
  cbn [proj pos]. destruct (Nat.eqb (ipos s2) (ipos s)); [split; reflexivity|].
  eapply rsim_bind; [apply IH|]. intros s3 l l' Hl. split; [reflexivity | constructor; assumption].
Qed.

Lemma Forall2_eq {A} (l l' : list A) : Forall2 eq l l' -> l = l'.
Proof. induction 1; [reflexivity | subst; reflexivity]. Qed.

Lemma rsimR_impl {A B} (R R' : A -> B -> Prop) x y : (forall a b, R a b -> R' a b) -> rsimR R x y -> rsimR R' x y.
Proof. intros H. destruct x, y; cbn; auto. intros [H1 H2]. auto. Qed.

Lemma Sim_many0 {A} fuel (p : parser A) q : Sim p q -> Sim (p_many0 fuel p) (i_many0 fuel q).
Proof. intros H s. eapply rsimR_impl; [apply Forall2_eq | apply many0_sim, H]. Qed.

Section Toks.
Variable toks : list token.
Variables ds de ilen : nat.

Lemma Sim_comments : Sim (p_comments toks) (i_comments toks).
Proof. intros s. split; reflexivity. Qed.

Lemma Sim_tag f : Sim (p_tag toks f) (i_tag toks f).
Proof.
  intros s. unfold p_tag, i_tag. cbn [proj pos adv iadv ipos]. fold (icomments_at toks (ipos s)).
  change (comments_at toks (ipos s)) with (icomments_at toks (ipos s)).
  destruct (nth_error toks _) as [t|]; [|split; reflexivity].
  destruct (f (tk t)); split; reflexivity.
Qed.

Lemma Sim_info {A} (p : parser A) q : Sim p q -> Sim (p_info p) (i_info q).
Proof.
  intros H s. unfold p_info, i_info. specialize (H (iset_ebuf s [])).
  change (proj (iset_ebuf s [])) with (set_ebuf (proj s) []) in H.
  destruct (p (set_ebuf (proj s) [])) as [s1 a| |], (q (iset_ebuf s [])) as [s2 b|s2 fl| |]; sm; split; reflexivity.
Qed.

Lemma Sim_expect {A T} (p : parser A) (q : option T -> iparser A) m :
  Sim p (q None) -> Sim (p_expect p m) (i_expect None q m).
Proof.
  intros H s. unfold p_expect, i_expect. specialize (H s).
  destruct (p (proj s)) as [s1 a| |], (q None s) as [s2 b|s2 fl| |]; sm; split; reflexivity.
Qed.

Lemma Sim_expect0 {A} (p : parser A) q m : Sim p q -> Sim (p_expect p m) (i_expect0 q m).
Proof. intros H. unfold i_expect0. apply (Sim_expect p (fun _ : option unit => q)). exact H. Qed.

Lemma Sim_ref {A} (p : parser A) (q : option A -> iparser A) : Sim p (q None) -> Sim (p_ref p) (i_ref None q).
Proof.
  intros H s. unfold p_ref, i_ref. cbn [option_map]. specialize (H (iset_refp s (ipos s))).
  change (proj (iset_refp s (ipos s))) with (set_refp (proj s) (pos (proj s))) in H.
  destruct (p (set_refp (proj s) (pos (proj s)))) as [s1 a| |], (q None (iset_refp s (ipos s))) as [s2 b|s2 fl| |]; sm;
    split; reflexivity.
Qed.

Lemma Sim_confusable {A} (p : parser A) q m : Sim p q -> Sim (p_confusable p m) (i_confusable q m).
Proof.
  intros H s. unfold p_confusable, i_confusable. eapply rsim_bind; [apply (Sim_info p q H)|].
  intros s' a b ->. split; reflexivity.
Qed.

Lemma Sim_peek_la la : Sim (p_peek_la la) (i_peek_la la).
Proof. intros s. unfold p_peek_la, i_peek_la. cbn [proj pos]. destruct (la (ipos s)); split; reflexivity. Qed.

Lemma ignore_from_sim la : forall n s, rsim (ignore_from toks n la (proj s)) (iignore_from toks n la s).
Proof.
  induction n as [|n IH]; intros s; cbn [ignore_from iignore_from proj pos]; destruct (la (ipos s)); try (split; reflexivity).
  destruct (Nat.ltb (ipos s) (length toks)); [apply (IH (iadv s 1)) | split; reflexivity].
Qed.

Lemma Sim_ignore0 la : Sim (p_ignore0 toks la) (i_ignore0 toks la).
Proof.
  intros s. unfold p_ignore0, i_ignore0. eapply rsim_bind; [apply ignore_from_sim|].
  intros s' a b _. split; reflexivity.
Qed.

Lemma Sim_ignore1 la : Sim (p_ignore1 toks la) (i_ignore1 toks la).
Proof.
  intros s. unfold p_ignore1, i_ignore1. cbn [proj pos]. destruct (la (ipos s)); [split; reflexivity | apply Sim_ignore0].
Qed.

(* affected(None, inner) = inner *)
Lemma Sim_affected {A} (p : parser A) (inf : A -> info) strip inner :
  Sim p inner -> Sim p (i_affected toks ds de ilen None inf strip inner).
Proof. exact (fun H => H). Qed.

(* many(None) = many0(Reference::parse(None)) *)
Lemma Sim_many {A} (p : parser (A * nat)) (pe : option (A * nat) -> iparser (A * nat)) start fuel :
  Sim p (pe None) -> Sim (p_many0 fuel p) (i_many ds de ilen pe start fuel None).
Proof.
  intros H s. unfold i_many. cbn [many_old].
  pose proof (Sim_many0 fuel p (pe None) H s) as H1.
  destruct (p_many0 fuel p (proj s)), (i_many0 fuel (pe None) s); sm; split; reflexivity.
Qed.

(* parse_list(None) *)
Lemma Sim_list {A} (p : parser A) (q : option A -> iparser A) inf fuel :
  Sim p (q None) -> Sim (p_list toks fuel p) (i_list toks ds de ilen q inf fuel None).
Proof.
  intros H s. unfold p_list, i_list. eapply rsim_bind; [apply (Sim_ref p q H)|]. intros s1 a b ->.
  cbn [option_map]. unfold i_many. cbn [many_old].
  set (g := fun r : A * nat * nat => (fst (fst r), snd r + snd (fst r))).
  assert (Hm : rsimR (fun l l' => l = map g l')
                 (p_many0 fuel (p_map g (p_ref (p_preceded (p_tag toks (is_k Comma)) (p_ref p)))) (proj s1))
                 (i_many0 fuel (i_cp_elem toks q None) s1)).
  { eapply rsimR_impl; [|apply (many0_sim (fun x y => x = g y))].
    - intros l l' Hl. induction Hl as [|x y l l' Hxy _ IH]; [reflexivity|]. cbn [map]. rewrite Hxy, IH. reflexivity.
    - intros s2. unfold p_map.
      assert (He : Sim (p_ref (p_preceded (p_tag toks (is_k Comma)) (p_ref p))) (i_cp_elem toks q None)).
      { unfold i_cp_elem. apply Sim_ref. unfold i_comma_preceded. apply Sim_preceded; [apply Sim_tag | apply Sim_ref, H]. }
      specialize (He s2).
      destruct (p_ref _ (proj s2)) as [s3 x| |], (i_cp_elem toks q None s2) as [s3' y|s3' fl| |]; sm; split; reflexivity. }
  destruct (p_many0 fuel _ (proj s1)) as [s2 l| |], (i_many0 fuel _ s1) as [s2' l'|s2' fl| |]; sm.
Qed.

Lemma Sim_bind {A B} (p : parser A) q (k : st -> A -> pres B) (k' : ist -> A -> ires B) :
  Sim p q -> (forall a s, rsim (k (proj s) a) (k' s a)) -> Sim (fun s => bind (p s) k) (fun s => ibind (q s) k').
Proof. intros H Hk s. eapply rsim_bind; [apply H|]. intros s' a b ->. apply Hk. Qed.

End Toks.

(* ------------------------------------------------------------------------------------------ *)
Ltac eta_sim :=
  try match goal with |- @Sim ?A (fun s => ?p s) ?q => change (@Sim A p q) end;
  try match goal with |- @Sim ?A ?p (fun s => ?q s) => change (@Sim A p q) end.

Ltac sim_auto :=
  cbv beta; eta_sim;
  lazymatch goal with
  | |- Sim _ (i_affected _ _ _ _ None _ _ _) => apply Sim_affected; sim_auto
  | |- Sim (p_map _ _) (i_map _ _) => apply Sim_map; sim_auto
  | |- Sim (p_alt _ _) (i_alt _ _) => apply Sim_alt; sim_auto
  | |- Sim (p_opt _) (i_opt _) => apply Sim_opt; sim_auto
  | |- Sim (p_pair _ _) (i_pair _ _) => apply Sim_pair; sim_auto
  | |- Sim (p_restore _) (i_restore _) => apply Sim_restore; sim_auto
  | |- Sim (p_preceded _ _) (i_preceded _ _) => apply Sim_preceded; sim_auto
  | |- Sim (p_terminated _ _) (i_terminated _ _) => apply Sim_terminated; sim_auto
  | |- Sim (p_many0 _ _) (i_many0 _ _) => apply Sim_many0; sim_auto
  | |- Sim (p_comments _) (i_comments _) => apply Sim_comments
  | |- Sim (p_tag _ _) (i_tag _ _) => apply Sim_tag
  | |- Sim (p_info _) (i_info _) => apply Sim_info; sim_auto
  | |- Sim (p_expect _ _) (i_expect0 _ _) => apply Sim_expect0; sim_auto
  | |- Sim (p_expect _ _) (i_expect None _ _) => apply Sim_expect; sim_auto
  | |- Sim (p_ref _) (i_ref None _) => apply Sim_ref; sim_auto
  | |- Sim (p_confusable _ _) (i_confusable _ _) => apply Sim_confusable; sim_auto
  | |- Sim (p_peek_la _) (i_peek_la _) => apply Sim_peek_la
  | |- Sim (p_ignore0 _ _) (i_ignore0 _ _) => apply Sim_ignore0
  | |- Sim (p_ignore1 _ _) (i_ignore1 _ _) => apply Sim_ignore1
  | |- Sim (p_many0 _ _) (i_many _ _ _ _ _ _ None) => apply Sim_many; sim_auto
  | |- Sim (p_list _ _ _) (i_list _ _ _ _ _ _ _ None) => apply Sim_list; sim_auto
  | _ => solve [ auto ]
  end.

(* ------------------------------------------------------------------------------------------ *)
(* non-terminals *)

Section NonTerminals.
Variable toks : list token.
Variables ds de ilen : nat.

Notation i_ident := (i_ident toks ds de ilen).
Notation i_intlit := (i_intlit toks ds de ilen).
Notation i_variable0 := (i_variable0 toks ds de ilen).
Notation i_primary := (i_primary toks ds de ilen).
Notation i_factor := (i_factor toks ds de ilen).
Notation i_mul_loop := (i_mul_loop toks ds de ilen).
Notation i_mul := (i_mul toks ds de ilen).
Notation i_add_loop := (i_add_loop toks ds de ilen).
Notation i_add := (i_add toks ds de ilen).
Notation i_comparison := (i_comparison toks ds de ilen).
Notation p_ident := (p_ident toks).
Notation p_intlit := (p_intlit toks).
Notation p_variable := (p_variable toks).
Notation p_primary := (p_primary toks).
Notation p_factor := (p_factor toks).
Notation mul_loop := (mul_loop toks).
Notation p_mul := (p_mul toks).
Notation add_loop := (add_loop toks).
Notation p_add := (p_add toks).
Notation p_comparison := (p_comparison toks).

Lemma Sim_ident : Sim p_ident (i_ident None).
Proof. unfold Parser.p_ident, ParserInc.i_ident, i_ident0. sim_auto. Qed.

Lemma Sim_intlit : Sim p_intlit (i_intlit None).
Proof. unfold Parser.p_intlit, ParserInc.i_intlit, i_intlit0. sim_auto. Qed.

Lemma Sim_rhs (p : parser expr) q lhs op : Sim p q -> Sim (p_rhs p lhs op) (i_rhs q lhs op).
Proof.
  intros H. unfold p_rhs, i_rhs. apply (Sim_bind (p_expect p (ExpectedToken s_expression))); [sim_auto|].
  intros a s. split; reflexivity.
Qed.

Definition LoopSim (l : st -> expr -> pres expr) (l' : ist -> expr -> ires expr) : Prop :=
  forall lhs s, rsim (l (proj s) lhs) (l' s lhs).

Lemma tag_loop_sim f (k : st -> token -> pres expr) (k' : ist -> token -> ires expr) (d : expr) s :
  (forall t s, rsim (k (proj s) t) (k' s t)) ->
  rsim (match p_tag toks f (proj s) with POk s1 op => k s1 op | PErr _ => POk (proj s) d | PFuel => PFuel end)
       (match i_tag toks f s with IOk s1 op => k' s1 op | IErr _ _ => IOk s d | IPanic => IPanic | IFuel => IFuel end).
Proof.
  intros Hk. pose proof (Sim_tag toks f s) as H.
  destruct (p_tag toks f (proj s)) as [s1 t| |], (i_tag toks f s) as [s2 t'|s2 fl| |]; sm; apply Hk.
Qed.

Lemma Sim_expr_all f :
  Sim (p_variable f) (i_variable0 f) /\ Sim (p_primary f) (i_primary f) /\ Sim (p_factor f) (i_factor f) /\
  LoopSim (mul_loop f) (i_mul_loop f) /\ Sim (p_mul f) (i_mul f) /\
  LoopSim (add_loop f) (i_add_loop f) /\ Sim (p_add f) (i_add f) /\ Sim (p_comparison f) (i_comparison f).
Proof.
  induction f as [|f (IHvar & IHpri & IHfac & IHml & IHmul & IHal & IHadd & IHcmp)].
  - repeat split; try intros lhs; intros s; exact I.
  - pose proof Sim_ident. pose proof Sim_intlit. repeat split.
    + cbn [Parser.p_variable ParserInc.i_variable0]. apply Sim_bind; [sim_auto|].
      intros [[v0 vinfo] acc] s. split; reflexivity.
    + cbn [Parser.p_primary ParserInc.i_primary]. eta_sim. apply Sim_alt; [sim_auto|]. apply Sim_alt; [sim_auto|].
      apply Sim_bind; [sim_auto|]. intros [[[x lp] [e y]] inf] s. split; reflexivity.
    + cbn [Parser.p_factor ParserInc.i_factor]. eta_sim. sim_auto.
    + intros lhs s. cbn [Parser.mul_loop ParserInc.i_mul_loop]. apply tag_loop_sim. intros t s1.
      eapply rsim_bind; [apply (Sim_rhs (p_factor f) (i_factor f) lhs _ IHfac)|]. intros s2 a b ->. apply IHml.
    + intros s. cbn [Parser.p_mul ParserInc.i_mul]. eapply rsim_bind; [apply IHfac|]. intros s1 a b ->. apply IHml.
    + intros lhs s. cbn [Parser.add_loop ParserInc.i_add_loop]. apply tag_loop_sim. intros t s1.
      eapply rsim_bind; [apply (Sim_rhs (p_mul f) (i_mul f) lhs _ IHmul)|]. intros s2 a b ->. apply IHal.
    + intros s. cbn [Parser.p_add ParserInc.i_add]. eapply rsim_bind; [apply IHmul|]. intros s1 a b ->. apply IHal.
    + intros s. cbn [Parser.p_comparison ParserInc.i_comparison]. eapply rsim_bind; [apply IHadd|]. intros s1 a b ->.
      apply tag_loop_sim. intros t s2. apply (Sim_rhs (p_add f) (i_add f) b _ IHadd).
Qed.

Lemma Sim_variable f : Sim (p_variable f) (i_variable toks ds de ilen f None).
Proof. unfold i_variable. apply Sim_affected, Sim_expr_all. Qed.

Lemma Sim_expr f : Sim (p_expr toks f) (i_expr toks ds de ilen f None).
Proof. unfold p_expr, i_expr. apply Sim_affected, Sim_expr_all. Qed.

Lemma Sim_ref_expr f : Sim (p_ref (p_expr toks f)) (i_ref_expr toks ds de ilen f None).
Proof. pose proof (Sim_expr f). unfold i_ref_expr. sim_auto. Qed.

Lemma Sim_texpr : forall f, Sim (p_texpr toks f) (i_texpr toks ds de ilen f None).
Proof.
  pose proof Sim_ident. pose proof Sim_intlit.
  induction f as [|f IH]; [intros s; exact I|]. cbn [p_texpr i_texpr]. sim_auto.
Qed.

Lemma Sim_ref_texpr f : Sim (p_ref (p_texpr toks f)) (i_ref_texpr toks ds de ilen f None).
Proof. pose proof (Sim_texpr f). unfold i_ref_texpr. sim_auto. Qed.

Lemma Sim_typedecl f : Sim (p_typedecl toks f) (i_typedecl toks ds de ilen f None).
Proof. pose proof Sim_ident. pose proof (Sim_ref_texpr f). unfold p_typedecl, i_typedecl. sim_auto. Qed.

Lemma Sim_vardecl f : Sim (p_vardecl toks f) (i_vardecl toks ds de ilen f None).
Proof. pose proof Sim_ident. pose proof (Sim_ref_texpr f). unfold p_vardecl, i_vardecl, i_la_var_dec. sim_auto. Qed.

Lemma Sim_paramdecl f : Sim (p_paramdecl toks f) (i_paramdecl toks ds de ilen f None).
Proof. pose proof Sim_ident. pose proof (Sim_ref_texpr f). unfold p_paramdecl, i_paramdecl, i_la_param. sim_auto. Qed.

Lemma Sim_argument f : Sim (p_argument toks f) (i_argument toks ds de ilen f None).
Proof. pose proof (Sim_expr f). unfold p_argument, i_argument, i_la_param, la_arg. sim_auto. Qed.

Lemma Sim_call f : Sim (p_call toks f) (i_call toks ds de ilen f None).
Proof. pose proof Sim_ident. pose proof (Sim_argument f). unfold p_call, i_call, ila_tag. sim_auto. Qed.

Lemma Sim_assign f : Sim (p_assign toks f) (i_assign toks ds de ilen f None).
Proof. pose proof (Sim_variable f). pose proof (Sim_ref_expr f). unfold p_assign, i_assign. sim_auto. Qed.

Lemma Sim_stmt : forall f, Sim (p_stmt toks f) (i_stmt toks ds de ilen f None).
Proof.
  induction f as [|f IH]; [intros s; exact I|].
  pose proof (Sim_ref_expr f). pose proof (Sim_call f). pose proof (Sim_assign f).
  cbn [p_stmt i_stmt]. unfold i_la_stmt. sim_auto.
Qed.

Lemma Sim_procdecl f : Sim (p_procdecl toks f) (i_procdecl toks ds de ilen f None).
Proof.
  pose proof Sim_ident. pose proof (Sim_paramdecl f). pose proof (Sim_vardecl f). pose proof (Sim_stmt f).
  unfold p_procdecl, i_procdecl, ila_tag. cbn [option_map]. sim_auto.
Qed.

Lemma Sim_gdecl f : Sim (p_gdecl toks f) (i_gdecl toks ds de ilen f None).
Proof. pose proof (Sim_typedecl f). pose proof (Sim_procdecl f). unfold p_gdecl, i_gdecl, i_la_global. sim_auto. Qed.

Lemma Sim_eof_all : Sim (p_eof_all toks) (i_eof_all toks).
Proof.
  intros s. unfold p_eof_all, i_eof_all. eapply rsim_bind; [apply Sim_tag|]. intros s' a b _.
  cbn [proj pos]. destruct (Nat.ltb (ipos s') (length toks)); split; reflexivity.
Qed.

Lemma Sim_program f : Sim (p_program toks f) (i_program toks ds de ilen f None).
Proof. pose proof (Sim_gdecl f). pose proof Sim_eof_all. unfold p_program, i_program. cbn [option_map]. sim_auto. Qed.

End NonTerminals.

(* ------------------------------------------------------------------------------------------ *)
(* G3: without an old tree the incremental parser is the scratch parser, whatever the TokenChange *)
Theorem inc_none_is_scratch toks ws we n fuel s :
  match i_program toks ws we n fuel None s with
  | IOk _ p => Done p
  | IErr _ _ => Panic
  | IPanic => Panic
  | IFuel => OutOfFuel
  end =
  match p_program toks fuel (proj s) with
  | POk _ p => Done p
  | PErr _ => Panic
  | PFuel => OutOfFuel
  end.
Proof.
  pose proof (Sim_program toks ws we n fuel s) as H.
  destruct (p_program toks fuel (proj s)), (i_program toks ws we n fuel None s); cbn in H; try contradiction; try reflexivity.
  destruct H as [_ ->]. reflexivity.
Qed.

Theorem parse_via_inc_is_parse toks : parse_via_inc toks = parse toks.
Proof. unfold parse_via_inc, parse. apply (inc_none_is_scratch toks 0 0 (length toks)). Qed.
