(* T1 for the non-terminals: every parser of the model satisfies the position discipline [Fwd]
   (ParserComb.v), for every token list and every fuel.
   The class [sync] is a parameter: any subset of {proc, type, Eof}.  With the empty class this is the
   plain forward/in-bounds/refp discipline for ALL parsers including the declaration level; with the
   full class it says that everything below the declaration heads never steps over a
   proc/type/Eof token - neither on success nor in the state carried by an error. *)
From Coq Require Import Arith Lia List.
From Spl Require Import Model.Parser Proofs.ParserComb Proofs.ParserEqns.
Local Open Scope nat_scope.

Definition sync_full (k : kind) : bool := match k with KProc | KType | Eof => true | _ => false end.
Definition sync_none (k : kind) : bool := false.

Section Inner.
Variable toks : list token.
Variable sync : kind -> bool.
Hypothesis Hsync : forall k, sync k = true -> k = KProc \/ k = KType \/ k = Eof.

Lemma Hc : forall k, is_comment k = true -> sync k = false.
Proof.
  intros k Hk. destruct (sync k) eqn:E; [|reflexivity].
  destruct (Hsync k E) as [->|[->| ->]]; discriminate Hk.
Qed.

Ltac tagok :=
  let k := fresh "k" in let Hk := fresh "Hk" in let E := fresh "E" in
  intros k Hk; destruct (sync k) eqn:E; [|reflexivity];
  destruct (Hsync k E) as [->|[->| ->]]; discriminate Hk.

Lemma sig_at_self p t : nth_error toks p = Some t -> is_comment (tk t) = false -> sig_at toks p = p.
Proof.
  intros Ht Hcm. pose proof (sig_at_stop toks p p t (le_n _) Ht Hcm). pose proof (sig_at_ge toks p). lia.
Qed.

Lemma LaOk_global : LaOk toks sync (la_global toks).
Proof.
  intros p Hla t Ht. destruct (sync (tk t)) eqn:E; [|reflexivity]. exfalso.
  unfold la_global in Hla. rewrite la_tag_spec in Hla.
  assert (Hcm : is_comment (tk t) = false) by (destruct (Hsync _ E) as [->|[->| ->]]; reflexivity).
  rewrite (sig_at_self p t Ht Hcm), Ht in Hla.
  destruct (Hsync _ E) as [H|[H|H]]; rewrite H in Hla; discriminate.
Qed.

Lemma LaOk_weaken la la' : (forall p, la p = false -> la' p = false) -> LaOk toks sync la' -> LaOk toks sync la.
Proof. intros H H' p Hp. apply H', H, Hp. Qed.

Lemma la_stmt_global p : la_stmt toks p = false -> la_global toks p = false.
Proof. unfold la_stmt. intros H. now apply orb_false_iff in H as [_ H]. Qed.

Lemma la_var_dec_stmt p : la_var_dec toks p = false -> la_stmt toks p = false.
Proof. unfold la_var_dec. intros H. apply orb_false_iff in H as [H _]. now apply orb_false_iff in H as [_ H]. Qed.

Lemma la_param_var_dec p : la_param toks p = false -> la_var_dec toks p = false.
Proof. unfold la_param. intros H. now apply orb_false_iff in H as [_ H]. Qed.

Lemma LaOk_stmt : LaOk toks sync (la_stmt toks).
Proof. eapply LaOk_weaken; [apply la_stmt_global | apply LaOk_global]. Qed.
Lemma LaOk_var_dec : LaOk toks sync (la_var_dec toks).
Proof. eapply LaOk_weaken; [apply la_var_dec_stmt | apply LaOk_stmt]. Qed.
Lemma LaOk_param : LaOk toks sync (la_param toks).
Proof. eapply LaOk_weaken; [apply la_param_var_dec | apply LaOk_var_dec]. Qed.
Lemma LaOk_arg : LaOk toks sync (la_arg toks).
Proof. exact LaOk_param. Qed.

Notation FwdT := (Fwd toks sync).

Ltac fwd1 :=
  first
  [ assumption
  | apply Fwd_fuel
  | apply Fwd_map | apply Fwd_restore | apply Fwd_alt | apply Fwd_opt | apply Fwd_pair
  | apply Fwd_preceded | apply Fwd_terminated | apply Fwd_many0
  | apply (Fwd_comments toks sync Hc)
  | apply (Fwd_tag toks sync Hc); [tagok]
  | apply Fwd_info | apply Fwd_expect | apply Fwd_ref | apply Fwd_confusable
  | apply Fwd_peek_la
  | apply Fwd_ignore0; [first [apply LaOk_param | apply LaOk_arg | apply LaOk_var_dec | apply LaOk_stmt | apply LaOk_global]]
  | apply Fwd_ignore1; [first [apply LaOk_param | apply LaOk_arg | apply LaOk_var_dec | apply LaOk_stmt | apply LaOk_global]]
  | apply Fwd_ret ].
Ltac fwd := repeat fwd1.

Lemma Fwd_ident : FwdT (p_ident toks).
Proof. unfold p_ident. fwd. Qed.

Lemma Fwd_intlit : FwdT (p_intlit toks).
Proof. unfold p_intlit. fwd. Qed.

Lemma Fwd_rhs p lhs op : FwdT p -> FwdT (p_rhs p lhs op).
Proof.
  intros Hp. unfold p_rhs. apply Fwd_bind; [fwd|]. intros a. apply Fwd_ret.
Qed.

(* the shape `match p_tag f s with POk s1 t => k s1 t | PErr _ => POk s d | PFuel => PFuel end` *)
Lemma Fwd_tag_loop {A} f (k : st -> token -> pres A) (d : A) :
  TagOk sync f -> (forall t, FwdT (fun s => k s t)) ->
  FwdT (fun s => match p_tag toks f s with POk s1 op => k s1 op | PErr _ => POk s d | PFuel => PFuel end).
Proof.
  intros Hf Hk s Hs. pose proof (Fwd_tag toks sync Hc f Hf s Hs) as H.
  destruct (p_tag toks f s) as [s1 t|e|]; cbn in *; [|now apply Mv_refl|exact I].
  eapply post_trans; [exact H|]. apply (Hk t). exact (Mv_bound _ _ _ _ H).
Qed.

Lemma TagOk_mulop : TagOk sync is_mulop. Proof. tagok. Qed.
Lemma TagOk_addop : TagOk sync is_addop. Proof. tagok. Qed.
Lemma TagOk_cmpop : TagOk sync is_cmpop. Proof. tagok. Qed.

Lemma Fwd_expr_all f :
  FwdT (p_variable toks f) /\ FwdT (p_primary toks f) /\ FwdT (p_factor toks f) /\
  (forall e, FwdT (fun s => mul_loop toks f s e)) /\ FwdT (p_mul toks f) /\
  (forall e, FwdT (fun s => add_loop toks f s e)) /\ FwdT (p_add toks f) /\
  FwdT (p_comparison toks f).
Proof.
  induction f as [|f (IHvar & IHpri & IHfac & IHml & IHmul & IHal & IHadd & IHcmp)].
  - repeat split; try intros e; apply Fwd_fuel.
  - repeat split.
    + rewrite p_variable_S. apply Fwd_bind; [fwd|]. intros [[v0 vinfo] acc]. apply Fwd_ret.
    + rewrite p_primary_S. apply Fwd_alt; [fwd|]. apply Fwd_alt; [fwd|].
      apply Fwd_bind; [fwd|]. intros [[[x lp] [e y]] inf]. apply Fwd_ret.
    + rewrite p_factor_S. apply Fwd_alt; fwd.
    + intros e.
      apply Fwd_ext with (p := fun s => match p_tag toks is_mulop s with
         | POk s1 op => bind (p_rhs (p_factor toks f) e (op_of (tk op)) s1) (fun s2 e' => mul_loop toks f s2 e')
         | PErr _ => POk s e | PFuel => PFuel end); [intros s; now rewrite mul_loop_S|].
      apply Fwd_tag_loop; [apply TagOk_mulop|]. intros t.
      apply (Fwd_bind toks sync (p_rhs (p_factor toks f) e (op_of (tk t)))); [now apply Fwd_rhs | exact IHml].
    + rewrite p_mul_S. apply (Fwd_bind toks sync (p_factor toks f)); [exact IHfac | exact IHml].
    + intros e.
      apply Fwd_ext with (p := fun s => match p_tag toks is_addop s with
         | POk s1 op => bind (p_rhs (p_mul toks f) e (op_of (tk op)) s1) (fun s2 e' => add_loop toks f s2 e')
         | PErr _ => POk s e | PFuel => PFuel end); [intros s; now rewrite add_loop_S|].
      apply Fwd_tag_loop; [apply TagOk_addop|]. intros t.
      apply (Fwd_bind toks sync (p_rhs (p_mul toks f) e (op_of (tk t)))); [now apply Fwd_rhs | exact IHal].
    + rewrite p_add_S. apply (Fwd_bind toks sync (p_mul toks f)); [exact IHmul | exact IHal].
    + rewrite p_comparison_S. apply (Fwd_bind toks sync (p_add toks f)); [exact IHadd|].
      intros e. apply Fwd_tag_loop; [apply TagOk_cmpop|]. intros t. now apply Fwd_rhs.
Qed.

Lemma Fwd_variable f : FwdT (p_variable toks f). Proof. apply Fwd_expr_all. Qed.
Lemma Fwd_comparison f : FwdT (p_comparison toks f). Proof. apply Fwd_expr_all. Qed.
Lemma Fwd_expr f : FwdT (p_expr toks f). Proof. apply Fwd_comparison. Qed.

Lemma Fwd_texpr f : FwdT (p_texpr toks f).
Proof.
  induction f as [|f IH]; [apply Fwd_fuel|]. rewrite p_texpr_S. apply Fwd_alt; [fwd|].
  apply Fwd_map, Fwd_ident.
Qed.

Lemma Fwd_list {A} fuel (p : parser A) : FwdT p -> FwdT (p_list toks fuel p).
Proof.
  intros Hp. unfold p_list. apply Fwd_bind; [fwd|]. intros head.
  apply (Fwd_bind toks sync (p_many0 fuel
     (p_map (fun r => (fst (fst r), snd r + snd (fst r)))
        (p_ref (p_preceded (p_tag toks (is_k Comma)) (p_ref p)))))); [fwd|].
  intros tail. apply Fwd_ret.
Qed.

Lemma Fwd_argument f : FwdT (p_argument toks f).
Proof. pose proof (Fwd_expr f). unfold p_argument. fwd. Qed.

Lemma Fwd_call f : FwdT (p_call toks f).
Proof.
  pose proof Fwd_ident. pose proof (Fwd_list f _ (Fwd_argument f)). unfold p_call. fwd.
Qed.

Lemma Fwd_assign f : FwdT (p_assign toks f).
Proof. pose proof (Fwd_variable f). pose proof (Fwd_expr f). unfold p_assign. fwd. Qed.

Lemma Fwd_stmt f : FwdT (p_stmt toks f).
Proof.
  induction f as [|f IH]; [apply Fwd_fuel|]. rewrite p_stmt_S.
  pose proof (Fwd_expr f). pose proof (Fwd_call f). pose proof (Fwd_assign f). fwd.
Qed.

Lemma Fwd_vardecl f : FwdT (p_vardecl toks f).
Proof. pose proof Fwd_ident. pose proof (Fwd_texpr f). unfold p_vardecl. fwd. Qed.

Lemma Fwd_paramdecl f : FwdT (p_paramdecl toks f).
Proof. pose proof Fwd_ident. pose proof (Fwd_texpr f). unfold p_paramdecl. fwd. Qed.

(* the part of a type declaration after the keyword `type` *)
Definition typedecl_rest (fuel : nat) :=
  p_pair (p_expect (p_ident toks) (ExpectedToken s_identifier))
  (p_pair (p_expect (p_alt (p_tag toks (is_k EqT))
                    (p_alt (p_confusable (p_tag toks (is_k Assign)) (ConfusedToken s_eq s_assign))
                           (p_confusable (p_tag toks (is_k Colon)) (ConfusedToken s_eq s_colon))))
             (ExpectedToken s_eq))
  (p_pair (p_expect (p_ref (p_texpr toks fuel)) (ExpectedToken s_typeexpr))
          (p_expect (p_tag toks (is_k Semic)) MissingTrailingSemic))).

(* the part of a procedure declaration after the keyword `proc` *)
Definition procdecl_rest (fuel : nat) :=
  p_pair (p_expect (p_ident toks) (ExpectedToken s_identifier))
  (p_pair (p_expect (p_tag toks (is_k LParen)) (MissingOpening 40%N))
  (p_pair (p_alt (p_map (fun _ => []) (p_peek_la (la_tag toks (fun k => match k with RParen | LCurly | Eof => true | _ => false end))))
                 (p_list toks fuel (p_paramdecl toks fuel)))
  (p_pair (p_expect (p_tag toks (is_k RParen)) (MissingClosing 41%N))
  (p_pair (p_expect (p_tag toks (is_k LCurly)) (MissingOpening 123%N))
  (p_pair (p_many0 fuel (p_ref (p_vardecl toks fuel)))
  (p_pair (p_many0 fuel (p_ref (p_stmt toks fuel)))
          (p_expect (p_tag toks (is_k RCurly)) (MissingClosing 125%N)))))))).

Lemma p_typedecl_eq fuel : p_typedecl toks fuel =
  p_map (fun r => let '((doc, (_, (name, (_, (ty, _))))), inf) := r in
                  {| td_doc := doc; td_name := name; td_ty := ty; td_info := inf |})
    (p_info (p_pair (p_comments toks) (p_pair (p_tag toks (is_k KType)) (typedecl_rest fuel)))).
Proof. reflexivity. Qed.

Lemma p_procdecl_eq fuel : p_procdecl toks fuel =
  p_map (fun r => let '((doc, (_, (name, (_, (params, (_, (_, (vars, (stmts, _))))))))), inf) := r in
                  {| pd_doc := doc; pd_name := name; pd_params := params; pd_vars := vars; pd_stmts := stmts; pd_info := inf |})
    (p_info (p_pair (p_comments toks) (p_pair (p_tag toks (is_k KProc)) (procdecl_rest fuel)))).
Proof. reflexivity. Qed.

Lemma Fwd_typedecl_rest f : FwdT (typedecl_rest f).
Proof. pose proof Fwd_ident. pose proof (Fwd_texpr f). unfold typedecl_rest. fwd. Qed.

Lemma Fwd_procdecl_rest f : FwdT (procdecl_rest f).
Proof.
  pose proof Fwd_ident. pose proof (Fwd_list f _ (Fwd_paramdecl f)).
  pose proof (Fwd_vardecl f). pose proof (Fwd_stmt f). unfold procdecl_rest. fwd.
Qed.

(* the error alternative of a global declaration *)
Lemma Fwd_gerror : FwdT (p_info (p_ignore1 toks (la_global toks))).
Proof. fwd. Qed.

End Inner.

(* ------------------------------------------------------------------------------------------ *)
(* declaration level, plain discipline (empty class) *)
Section Outer.
Variable toks : list token.

Lemma sync_none_ok : forall k, sync_none k = true -> k = KProc \/ k = KType \/ k = Eof.
Proof. discriminate. Qed.
Lemma sync_full_ok : forall k, sync_full k = true -> k = KProc \/ k = KType \/ k = Eof.
Proof. intros [] H; try discriminate H; auto. Qed.

Lemma TagOk_none f : TagOk sync_none f.
Proof. intros k _. reflexivity. Qed.

Notation Fwd0 := (Fwd toks sync_none).

Lemma Fwd0_typedecl f : Fwd0 (p_typedecl toks f).
Proof.
  rewrite p_typedecl_eq. apply Fwd_map, Fwd_info, Fwd_pair; [apply Fwd_comments, Hc, sync_none_ok|].
  apply Fwd_pair; [apply Fwd_tag; [apply Hc, sync_none_ok | apply TagOk_none] | apply Fwd_typedecl_rest, sync_none_ok].
Qed.

Lemma Fwd0_procdecl f : Fwd0 (p_procdecl toks f).
Proof.
  rewrite p_procdecl_eq. apply Fwd_map, Fwd_info, Fwd_pair; [apply Fwd_comments, Hc, sync_none_ok|].
  apply Fwd_pair; [apply Fwd_tag; [apply Hc, sync_none_ok | apply TagOk_none] | apply Fwd_procdecl_rest, sync_none_ok].
Qed.

Lemma Fwd0_gdecl f : Fwd0 (p_gdecl toks f).
Proof.
  unfold p_gdecl. apply Fwd_alt; [apply Fwd_map, Fwd0_typedecl|].
  apply Fwd_alt; [apply Fwd_map, Fwd0_procdecl|]. apply Fwd_map, Fwd_gerror, sync_none_ok.
Qed.

Lemma Fwd0_eof_all : Fwd0 (p_eof_all toks).
Proof.
  unfold p_eof_all. apply Fwd_bind; [apply Fwd_tag; [apply Hc, sync_none_ok | apply TagOk_none]|].
  intros t s Hs. destruct (Nat.ltb (pos s) (length toks)); cbn; now apply Mv_refl.
Qed.

Lemma Fwd0_program f : Fwd0 (p_program toks f).
Proof.
  unfold p_program. apply Fwd_map, Fwd_pair; [|apply Fwd0_eof_all].
  apply Fwd_info, Fwd_many0, Fwd_ref, Fwd0_gdecl.
Qed.

End Outer.

(* ------------------------------------------------------------------------------------------ *)
(* a solver for [Fwd toks sync p] goals on sub-terms of the non-terminals, for use in later files;
   [Hs] is a proof of [forall k, sync k = true -> k = KProc \/ k = KType \/ k = Eof] *)
Ltac tagok_with Hs :=
  let k := fresh "k" in let Hk := fresh "Hk" in let E := fresh "E" in
  intros k Hk;
  first [ reflexivity | match goal with |- ?sy k = false =>
    destruct (sy k) eqn:E; [|reflexivity];
    destruct (Hs k E) as [->|[->| ->]]; discriminate Hk
  end ].

Ltac la_ok_with Hs :=
  first [ exact (LaOk_param _ _ Hs) | exact (LaOk_arg _ _ Hs) | exact (LaOk_var_dec _ _ Hs)
        | exact (LaOk_stmt _ _ Hs) | exact (LaOk_global _ _ Hs) ].

Ltac fwd_step Hs :=
  first
  [ assumption
  | apply Fwd_fuel
  | apply Fwd_ident; [exact Hs] | apply Fwd_intlit; [exact Hs]
  | apply Fwd_variable; [exact Hs] | apply Fwd_comparison; [exact Hs] | apply Fwd_expr; [exact Hs]
  | apply Fwd_texpr; [exact Hs] | apply Fwd_argument; [exact Hs] | apply Fwd_call; [exact Hs]
  | apply Fwd_assign; [exact Hs] | apply Fwd_stmt; [exact Hs] | apply Fwd_vardecl; [exact Hs]
  | apply Fwd_paramdecl; [exact Hs] | apply Fwd_typedecl_rest; [exact Hs] | apply Fwd_procdecl_rest; [exact Hs]
  | apply Fwd_list; [exact Hs|]
  | apply Fwd_map | apply Fwd_restore | apply Fwd_alt | apply Fwd_opt | apply Fwd_pair
  | apply Fwd_preceded | apply Fwd_terminated | apply Fwd_many0
  | apply Fwd_comments; [exact (Hc _ Hs)]
  | apply Fwd_tag; [exact (Hc _ Hs) | tagok_with Hs]
  | apply Fwd_info | apply Fwd_expect | apply Fwd_ref | apply Fwd_confusable
  | apply Fwd_peek_la
  | apply Fwd_ignore0; [la_ok_with Hs]
  | apply Fwd_ignore1; [la_ok_with Hs]
  | apply Fwd_ret ].
Ltac fwd_solve Hs := repeat (fwd_step Hs).

(* self-test of the solver *)
Goal forall toks f, Fwd toks sync_full (p_pair (p_tag toks (is_k KIf)) (p_expect (p_ref (p_stmt toks f)) (ExpectedToken s_expression))).
Proof. intros. pose proof sync_full_ok as Hs. fwd_solve Hs. Qed.
