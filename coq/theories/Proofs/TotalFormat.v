(* C02, thirteenth request handler: textDocument/formatting never panics, whatever the text and the
   formatting options.

   Part 1 (Proofs/TotalFormatWf.v): every tree the parser returns satisfies ProgF - all ranges and
   Reference offsets the formatter slices the token vector with are in bounds and ordered, and the
   slice of every int literal contains a literal token.
   Part 2 (this file): on such a tree every printer of `mod fmt` returns: structural induction over
   the tree following the printers, with the token vector of a node behind accumulated offset off
   being [skipn off toks].  Hence [format_total]: `format` answers on every document. *)
From Coq Require Import Arith Lia List Bool NArith String.
From Spl Require Import Model.Lexer Model.Format Proofs.FormatProofs Proofs.LexerProofs Proofs.ParserTotal
  Proofs.ParserProofs Proofs.PipelineProofs Proofs.RangeProofsBound Proofs.TotalFormatWf.
Import ListNotations.
Local Open Scope nat_scope.

(* the printer returned (no slice / index / expect panicked) *)
Definition ok (r : fres) : Prop := exists t, r = FOk t.

Lemma ok_FOk t : ok (FOk t).
Proof. exists t. reflexivity. Qed.

Lemma ok_bind r k : ok r -> (forall a, ok (k a)) -> ok (fbind r k).
Proof. intros [a ->] H. cbn [fbind]. apply H. Qed.

Lemma slice_some i (l : list token) :
  i_s i <= i_e i -> i_e i <= length l -> slice i l = Some (firstn (i_e i - i_s i) (skipn (i_s i) l)).
Proof.
  intros H1 H2. unfold slice.
  destruct (Nat.leb_spec (i_s i) (i_e i)) as [_|]; [|lia].
  destruct (Nat.leb_spec (i_e i) (length l)) as [_|]; [|lia]. reflexivity.
Qed.

Lemma ok_slice i l k : i_s i <= i_e i -> i_e i <= length l -> (forall sl, ok (k sl)) -> ok (with_slice i l k).
Proof. intros H1 H2 H. unfold with_slice. rewrite (slice_some i l H1 H2). apply H. Qed.

Lemma ok_from off l k : off <= length l -> ok (k (skipn off l)) -> ok (with_from off l k).
Proof.
  intros H1 H. unfold with_from, slice_from.
  destruct (Nat.leb_spec off (length l)) as [_|]; [exact H | lia].
Qed.

Lemma ok_fconcat {A} (g : A -> fres) l : Forall (fun x => ok (g x)) l -> ok (fconcat g l).
Proof.
  induction 1 as [|x r Hx _ IH]; cbn [fconcat]; [apply ok_FOk|].
  apply ok_bind; [exact Hx|]. intros a. apply ok_bind; [exact IH|]. intros b. apply ok_FOk.
Qed.

Lemma ok_fmap {A} (g : A -> fres) l : Forall (fun x => ok (g x)) l -> forall k, (forall bs, ok (k bs)) -> ok (fmap g l k).
Proof.
  induction 1 as [|x r Hx _ IH]; intros k Hk; cbn [fmap]; [apply Hk|].
  apply ok_bind; [exact Hx|]. intros a. apply IH. intros bs. apply Hk.
Qed.

Lemma skipn_add {A} (l : list A) : forall a b, skipn b (skipn a l) = skipn (a + b) l.
Proof.
  induction l as [|x l IH]; intros a b.
  - rewrite !skipn_nil. reflexivity.
  - destruct a as [|a]; [reflexivity|]. cbn [skipn Nat.add]. apply IH.
Qed.

Section Printers.
Variable toks : list token.
Variable M : nat.
Hypothesis HM : M <= length toks.
Variable f : fopts.

Notation sk off := (skipn off toks).

Lemma sk_length off : length (sk off) = length toks - off.
Proof. apply skipn_length. Qed.

Lemma ok_info_slice off inf k : InfoF M off inf -> (forall sl, ok (k sl)) -> ok (with_slice inf (sk off) k).
Proof. intros [H1 H2] H. apply ok_slice; [exact H1 | rewrite sk_length; lia | exact H]. Qed.

Lemma ok_ref {A} (P : nat -> A -> Prop) (g : A -> list token -> fres) off (x : A * nat) :
  (forall o, P o (fst x) -> ok (g (fst x) (sk o))) -> RefF M P off x -> ok (with_from (snd x) (sk off) (fun t' => g (fst x) t')).
Proof.
  intros Hg [H1 H2]. apply ok_from; [rewrite sk_length; lia|]. rewrite skipn_add. apply Hg, H2.
Qed.

Lemma fmt_info_ok off inf : InfoF M off inf -> ok (fmt_info inf (sk off)).
Proof. intros H. unfold fmt_info. apply ok_info_slice; [exact H|]. intros sl. apply ok_FOk. Qed.

Lemma fmt_intlit_ok off i : IntlitF toks M off i -> ok (fmt_intlit i (sk off)).
Proof.
  intros [[H1 H2] (t & Hin & Ht)]. unfold fmt_intlit, with_slice.
  rewrite slice_some; [|exact H1 | rewrite sk_length; lia]. rewrite skipn_add.
  destruct (find is_lit_tok _) as [t'|] eqn:E; [apply ok_FOk|].
  pose proof (find_none _ _ E t Hin) as Hn. unfold is_lit_tok in Hn. unfold lit_tok, lit_kind in Ht.
  rewrite Ht in Hn. discriminate Hn.
Qed.

(* ---- expressions ---- *)
Lemma fmt_var_ok : forall v off, VarF toks M off v -> ok (fmt_var v (sk off))
with fmt_expr_ok : forall e off, ExprF toks M off e -> ok (fmt_expr e (sk off)).
Proof.
  - intros [i|arr idx inf] off H; cbn [fmt_var]; [apply ok_FOk|].
    cbn [VarF] in H. destruct H as [Ha Hi]. apply ok_bind.
    + destruct idx as [[e o]|]; [|apply ok_FOk]. destruct Hi as [Hi1 Hi2].
      apply ok_from; [rewrite sk_length; lia|]. rewrite skipn_add. apply fmt_expr_ok, Hi2.
    + intros index. apply ok_bind; [apply fmt_var_ok, Ha|]. intros a. apply ok_FOk.
  - intros [op l r inf|x inf|i|op x inf|v|inf] off H; cbn [fmt_expr]; cbn [ExprF] in H.
    + destruct H as [Hl Hr]. apply ok_bind; [apply fmt_expr_ok, Hl|]. intros a.
      apply ok_bind; [apply fmt_expr_ok, Hr|]. intros b. apply ok_FOk.
    + apply ok_bind; [apply fmt_expr_ok, H|]. intros a. apply ok_FOk.
    + apply fmt_intlit_ok, H.
    + apply ok_bind; [apply fmt_expr_ok, H|]. intros a. apply ok_FOk.
    + apply fmt_var_ok, H.
    + apply fmt_info_ok, H.
Qed.

Lemma fmt_ref_expr_ok off o : OptB (RefF M (ExprF toks M)) off o -> ok (fmt_ref_expr o (sk off)).
Proof.
  destruct o as [[e x]|]; cbn [OptB fmt_ref_expr]; [|intros _; apply ok_FOk].
  intros H. exact (ok_ref (ExprF toks M) fmt_expr off (e, x) (fmt_expr_ok e) H).
Qed.

Lemma fmt_texpr_ok : forall t off, TexprF toks M off t -> ok (fmt_texpr t (sk off)).
Proof.
  fix IH 1. intros [i|size base inf] off H; cbn [fmt_texpr]; [apply ok_FOk|].
  cbn [TexprF] in H. destruct H as [Hs Hb]. apply ok_bind.
  - destruct size as [i|]; [apply fmt_intlit_ok, Hs | apply ok_FOk].
  - intros sz. destruct base as [[b o]|]; [|apply ok_FOk]. destruct Hb as [Hb1 Hb2].
    apply ok_bind; [|intros bt; apply ok_FOk].
    apply ok_from; [rewrite sk_length; lia|]. rewrite skipn_add. apply IH, Hb2.
Qed.

Lemma fmt_ref_texpr_ok off o : OptB (RefF M (TexprF toks M)) off o -> ok (fmt_ref_texpr o (sk off)).
Proof.
  destruct o as [[t x]|]; cbn [OptB fmt_ref_texpr]; [|intros _; apply ok_FOk].
  intros H. exact (ok_ref (TexprF toks M) fmt_texpr off (t, x) (fmt_texpr_ok t) H).
Qed.

(* ---- statements ---- *)
Definition stmt_ok (s : stmt) : Prop := forall off, StmtF toks M off s -> ok (fmt_stmt f s (sk off)).

Lemma fmt_stmts_ok l off :
  (forall x o, In (x, o) l -> stmt_ok x) -> Forall (RefF M (StmtF toks M) off) l -> ok (fmt_stmts f l (sk off)).
Proof.
  intros IH H. unfold fmt_stmts. apply ok_fconcat. rewrite Forall_forall in *. intros [x o] Hin.
  exact (ok_ref (StmtF toks M) (fmt_stmt f) off (x, o) (IH x o Hin) (H _ Hin)).
Qed.

Lemma fmt_branch_ok br off ending :
  (forall x o, br = Some (x, o) -> stmt_ok x) ->
  match br with Some (x, o) => off + o <= M /\ StmtF toks M (off + o) x | None => True end ->
  ok (fmt_branch f br (sk off) ending).
Proof.
  intros IH H. destruct br as [[x o]|]; cbn [fmt_branch]; [|apply ok_FOk]. destruct H as [H1 H2].
  apply ok_from; [rewrite sk_length; lia|]. rewrite skipn_add.
  pose proof (IH x o eq_refl (off + o) H2) as Hx.
  destruct x as [inf|v e inf|n a inf|c t e inf|c b inf|body inf|inf];
    try (apply ok_bind; [exact Hx | intros st; apply ok_FOk]).
  destruct body as [|b0 body]; [apply ok_FOk|].
  apply ok_bind; [|intros ss; apply ok_FOk].
  (* the statements of the block are printed by the block's own printer as well *)
  rewrite fmt_stmt_block in Hx. destruct Hx as [t Ht]. apply fbind_ok in Ht as (st & Hst & _).
  apply fbind_ok in Hst as (ss & Hss & _). exists ss. exact Hss.
Qed.

Lemma fmt_stmt_ok : forall s, stmt_ok s.
Proof.
  induction s as [inf|v e inf|n a inf|c t e inf IHt IHe|c b inf IHb|body inf IHbody|inf] using stmt_ind';
    intros off H.
  - cbn [fmt_stmt]. cbn [StmtF] in H. apply ok_info_slice; [exact H|]. intros sl. apply ok_FOk.
  - cbn [fmt_stmt]. cbn [StmtF] in H. destruct H as (Hi & Hv & He). apply ok_bind.
    + unfold fmt_assign_body. apply ok_bind; [apply fmt_ref_expr_ok, He|]. intros ex.
      apply ok_bind; [apply fmt_var_ok, Hv|]. intros vv. apply ok_FOk.
    + intros body. apply ok_info_slice; [exact Hi|]. intros sl. apply ok_FOk.
  - cbn [fmt_stmt]. cbn [StmtF] in H. destruct H as (Hi & Ha). apply ok_bind.
    + unfold fmt_call_body. apply ok_fmap; [|intros l; apply ok_FOk].
      eapply Forall_impl; [|exact Ha]. intros [x o] Hx.
      exact (ok_ref (ExprF toks M) fmt_expr off (x, o) (fmt_expr_ok x) Hx).
    + intros body. apply ok_info_slice; [exact Hi|]. intros sl. apply ok_FOk.
  - rewrite fmt_stmt_if. cbn [StmtF] in H. destruct H as (Hi & Hc & Ht & He).
    apply ok_bind; [apply fmt_ref_expr_ok, Hc|]. intros cond. apply ok_bind.
    + destruct e as [[x o]|].
      * assert (Hb2 : ok (fmt_branch f (Some (x, o)) (sk off) 10%N)) by (apply fmt_branch_ok; [exact IHe | exact He]).
        assert (Hb1 : ok (fmt_branch f t (sk off) 32%N)) by (apply fmt_branch_ok; [exact IHt | exact Ht]).
        destruct x as [i|v0 e0 i|n0 a0 i|c0 t0 e0 i|c0 b1 i|body0 i|i];
          try (apply ok_bind; [exact Hb1|]; intros b0; apply ok_bind; [exact Hb2|]; intros b2; apply ok_FOk).
        apply ok_bind; [exact Hb1|]. intros b0. apply ok_bind; [|intros ei; apply ok_FOk].
        destruct He as [He1 He2]. apply ok_from; [rewrite sk_length; lia|]. rewrite skipn_add.
        exact (IHe _ _ eq_refl _ He2).
      * apply ok_bind; [apply fmt_branch_ok; [exact IHt | exact Ht]|]. intros b0. apply ok_FOk.
    + intros st. apply ok_info_slice; [exact Hi|]. intros sl. apply ok_FOk.
  - rewrite fmt_stmt_while. cbn [StmtF] in H. destruct H as (Hi & Hc & Hb).
    apply ok_bind; [apply fmt_ref_expr_ok, Hc|]. intros cond.
    apply ok_bind; [apply fmt_branch_ok; [exact IHb | exact Hb]|]. intros br.
    apply ok_info_slice; [exact Hi|]. intros sl. apply ok_FOk.
  - rewrite fmt_stmt_block. apply StmtF_block in H. destruct H as [Hi Hb]. apply ok_bind.
    + destruct body as [|b0 body']; [apply ok_FOk|].
      apply ok_bind; [apply fmt_stmts_ok; [exact IHbody | exact Hb]|]. intros ss. apply ok_FOk.
    + intros st. apply ok_info_slice; [exact Hi|]. intros sl. apply ok_FOk.
  - cbn [fmt_stmt]. cbn [StmtF] in H. apply ok_bind; [apply fmt_info_ok, H|]. intros e. apply ok_FOk.
Qed.

(* ---- declarations ---- *)
Lemma fmt_vardecl_ok off v : VardeclF toks M off v -> ok (fmt_vardecl v (sk off)).
Proof.
  destruct v as [doc name ty inf|inf]; cbn [VardeclF fmt_vardecl]; [|apply fmt_info_ok].
  intros [_ Ht]. apply ok_bind; [apply fmt_ref_texpr_ok, Ht|]. intros t. apply ok_FOk.
Qed.

Lemma vardecl_info_F off v : VardeclF toks M off v -> InfoF M off (vardecl_info v).
Proof. destruct v as [doc name ty inf|inf]; cbn [VardeclF vardecl_info]; [intros [H _]; exact H | exact (fun H => H)]. Qed.

Lemma fmt_paramdecl_ok off p : ParamdeclF toks M off p -> ok (fmt_paramdecl p (sk off)).
Proof.
  destruct p as [doc r name ty inf|inf]; cbn [ParamdeclF fmt_paramdecl]; [|apply fmt_info_ok].
  intros [_ Ht]. apply ok_bind; [apply fmt_ref_texpr_ok, Ht|]. intros t. apply ok_FOk.
Qed.

Lemma paramdecl_info_F off p : ParamdeclF toks M off p -> InfoF M off (paramdecl_info p).
Proof. destruct p as [doc r name ty inf|inf]; cbn [ParamdeclF paramdecl_info]; [intros [H _]; exact H | exact (fun H => H)]. Qed.

Lemma fmt_params_ok off ps : Forall (RefF M (ParamdeclF toks M) off) ps -> ok (fmt_params f ps (sk off)).
Proof.
  intros H. unfold fmt_params. apply ok_fmap.
  - eapply Forall_impl; [|exact H]. intros [p o] [H1 H2]. cbn [fst snd] in *.
    apply ok_from; [rewrite sk_length; lia|]. rewrite skipn_add.
    apply ok_bind; [apply fmt_paramdecl_ok, H2|]. intros body.
    apply ok_info_slice; [apply paramdecl_info_F, H2|]. intros sl. apply ok_FOk.
  - intros l. destruct l as [|x l]; [apply ok_FOk|]. destruct (_ || _); apply ok_FOk.
Qed.

Lemma fmt_vardecls_ok off vs : Forall (RefF M (VardeclF toks M) off) vs -> ok (fmt_vardecls vs (sk off)).
Proof.
  intros H. unfold fmt_vardecls. apply ok_fconcat.
  eapply Forall_impl; [|exact H]. intros [v o] [H1 H2]. cbn [fst snd] in *.
  apply ok_from; [rewrite sk_length; lia|]. rewrite skipn_add.
  apply ok_bind; [apply fmt_vardecl_ok, H2|]. intros body.
  apply ok_info_slice; [apply vardecl_info_F, H2|]. intros sl. apply ok_FOk.
Qed.

Lemma fmt_procdecl_ok off d : ProcdeclF toks M off d -> ok (fmt_procdecl f d (sk off)).
Proof.
  intros (Hi & Hp & Hv & Hs). unfold fmt_procdecl.
  apply ok_bind; [apply fmt_params_ok, Hp|]. intros params.
  apply ok_bind; [apply fmt_vardecls_ok, Hv|]. intros vd0.
  apply ok_bind; [apply fmt_stmts_ok; [intros x o _; apply fmt_stmt_ok | exact Hs]|]. intros st0.
  apply ok_info_slice; [exact Hi|]. intros sl. apply ok_FOk.
Qed.

Lemma fmt_typedecl_ok off d : TypedeclF toks M off d -> ok (fmt_typedecl d (sk off)).
Proof.
  intros (Hi & Ht). unfold fmt_typedecl.
  apply ok_bind; [apply fmt_ref_texpr_ok, Ht|]. intros t.
  apply ok_info_slice; [exact Hi|]. intros sl. apply ok_FOk.
Qed.

Lemma fmt_gdecl_ok off g : GdeclF toks M off g -> ok (fmt_gdecl f g (sk off)).
Proof.
  destruct g as [d|d|inf]; cbn [GdeclF fmt_gdecl]; [apply fmt_typedecl_ok | apply fmt_procdecl_ok | apply fmt_info_ok].
Qed.

Theorem fmt_program_ok p : ProgF toks M p -> ok (fmt_program f p toks).
Proof.
  intros H. unfold fmt_program. apply ok_fmap; [|intros l; apply ok_FOk].
  eapply Forall_impl; [|exact H]. intros [g o] Hg.
  exact (ok_ref (GdeclF toks M) (fmt_gdecl f) 0 (g, o) (fun o' Ha => fmt_gdecl_ok o' g Ha) Hg).
Qed.

End Printers.

(* ------------------------------------------------------------------------------------------ *)
(* the printer returns on the tree of every EofLast token list, for every option setting *)
Theorem fmt_parse_total toks p f : EofLast toks -> parse toks = Done p -> exists out, fmt_program f p toks = FOk out.
Proof.
  intros HE Hp. apply (fmt_program_ok toks (length toks - 1)); [lia|]. exact (parse_fwf toks p HE Hp).
Qed.

(* the formatted text exists for every document and every option setting *)
Theorem formatted_text_total doc ins ts : exists out, formatted_text doc ins ts = Done out.
Proof.
  unfold formatted_text. destruct (lex_total doc) as [toks Hl]. rewrite Hl.
  pose proof (lex_eoflast _ _ Hl) as HE. destruct (parse_ok toks HE) as [p Hp]. rewrite Hp.
  destruct (fmt_parse_total toks p (options_of ins ts) HE Hp) as [out Ho]. rewrite Ho. exists out. reflexivity.
Qed.

(* textDocument/formatting answers on every document: no slice, index or expect of formatting.rs panics,
   the parser does not fail, no fuel runs out *)
Theorem format_total : forall doc ins ts, exists r, format_request doc ins ts = Done r.
Proof.
  intros doc ins ts. unfold format_request. destruct (lex_total doc) as [toks Hl]. rewrite Hl.
  pose proof (lex_eoflast _ _ Hl) as HE. destruct (parse_ok toks HE) as [p Hp]. rewrite Hp.
  destruct (fmt_parse_total toks p (options_of ins ts) HE Hp) as [out Ho]. rewrite Ho.
  destruct (text_eqb out doc); eexists; reflexivity.
Qed.
Print Assumptions format_total.

(* ------------------------------------------------------------------------------------------ *)
(* non-vacuity.  The panic sites are real: the tree of "proc main(){x:=1;}" printed on a token vector it
   does not belong to (the first 3 / first 7 tokens) panics - in the slice of the procedure's range, resp. in
   the `expect` of the int literal -, and the half-typed documents below are answered with an edit. *)
Example format_sites_real :
  match lex (str "proc main(){x:=1;}") with
  | Some toks =>
      match parse toks with
      | Done p =>
          (exists out, fmt_program (options_of true 4) p toks = FOk out) /\
          fmt_program (options_of true 4) p (firstn 3 toks) = FPanic /\
          match pg_decls p with
          | [(GProc {| pd_stmts := [(SAssign _ (Some (e, o)) _, o')] |}, _)] =>
              fmt_expr e (skipn (o' + o) toks) = FOk (str "1"%string) /\
              fmt_expr e (skipn (o' + o) (firstn 7 toks)) = FPanic /\
              fmt_expr e (skipn (S (o' + o)) toks) = FPanic
          | _ => False
          end
      | _ => False
      end
  | None => False
  end.
Proof. vm_compute. split; [eexists; reflexivity|]. repeat split; reflexivity. Qed.

Example format_total_ex :
  (exists new r, format_request (str "proc p(a: array [) { x := a[ ; if ( while } type = '"%string) true 2 = Done (Some (r, new))) /\
  (exists new r, format_request (str "} ) ] proc proc ( { f(1, , (2; x[1][ := - ; else"%string) false 8 = Done (Some (r, new))) /\
  format_request (str ""%string) true 4 = Done None.
Proof. vm_compute. repeat split; try (do 2 eexists; reflexivity). Qed.
