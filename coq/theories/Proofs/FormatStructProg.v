(* C09 part (A): variable declarations, parameters, global declarations, the program - with comments in leading position
   (doc comments of declarations, variable declarations and parameters, leading comments of statements); then the
   theorems behind Props/C09.v and Props/C11.v:
     [structure_lead] / [tokens_lead]  the same two statements for programs with comments in leading position only
   and for comment-free programs:
     [structure]  fmt_program prints exactly the program's tokens (as Display spells them) woven with admissible gaps
     [tokens]     the printed text lexes back to the program's kinds and values
     [idempotent_comment_free]  formatting the printed text again answers null *)
From Coq Require Import String Lia PeanoNat.
From Spl Require Import Model.Format Model.Lexer Spec.Grammar Proofs.LexerProofs Proofs.RenderProofs Proofs.PipelineText
  Proofs.FormatProofs Proofs.FormatStructText Proofs.FormatStructTok Proofs.FormatStructExpr Proofs.FormatStructStmt.
From Spl Require Proofs.GrammarProg Spec.LexSpec Proofs.LexConformOne.
Import ListNotations.
Local Open Scope nat_scope.

Lemma join_cons2 sep (x y : text) r : join sep (x :: y :: r) = x ++ sep ++ join sep (y :: r).
Proof.
  unfold join. cbn [fold_left]. generalize x y. induction r as [|z r IH]; intros x0 y0; [reflexivity|].
  cbn [fold_left]. rewrite (IH (x0 ++ sep ++ y0) z), (IH y0 z), <- !app_assoc. reflexivity.
Qed.

Lemma is_nil_app_ne {A} (a b : list A) : b <> [] -> is_nil (a ++ b) = false.
Proof. intros Hb. destruct a; [destruct b; [congruence | reflexivity] | reflexivity]. Qed.

(* gluing is also allowed where a gap may be present or not *)
Lemma Wv_sub_punct_g ks1 ks2 t1 g t2 :
  Wv ks1 t1 -> ends_e ks1 -> Wv ks2 t2 -> punct (hdk ks2) = true -> forallb gapc g = true -> Wv (ks1 ++ ks2) (t1 ++ gp g ++ t2).
Proof.
  intros H1 [_ He] H2 Hp Hg. apply Wv_app; [exact H1 | exact H2|]. unfold sepok, gp. rewrite Hg, (Wv_last ks1 t1 H1). cbn [andb].
  rewrite (glue_end_punct _ _ (Wv_last_valid ks1 t1 H1) He Hp). apply orb_true_r.
Qed.

Lemma Wv_tok_closed_g k ks g t : closedk k = true -> Wv ks t -> forallb gapc g = true -> Wv (k :: ks) (sh k ++ gp g ++ t).
Proof.
  intros Hk H Hg. apply (Wv_app [k] ks (sh k) g t); [apply Wv_one; apply closedk_nice; exact Hk | exact H|].
  unfold sepok, gp. rewrite Hg. cbn [andb]. cbn [lastk last]. rewrite (glue_closed k _ Hk (Wv_hd_valid ks t H)).
  destruct k; try discriminate Hk; cbn [is_comment]; apply orb_true_r.
Qed.

(* split a boolean conjunction hypothesis, emptying the slots that must be empty *)
Ltac lo_split H :=
  repeat match type of H with
         | _ && _ = true => let H' := fresh "L" in apply andb_true_iff in H; destruct H as [H H']
         end;
  repeat match goal with
         | H0 : is_nil ?c = true |- _ => apply is_nil_eq in H0; subst c
         end.

Section Prog.
Variable f : fopts.
Hypothesis sym_ok : (ind_sym f = 32 \/ ind_sym f = 9)%N.

Notation unit := (indentation f).

Ltac rw_indent_nl W :=
  let Ei := fresh "Ei" in
  pose proof (indent_Wv_nl f sym_ok _ _ W) as Ei;
  match type of Ei with ?l = _ =>
    match goal with |- context [indent ?s f] => change (indent s f) with l; rewrite Ei; clear Ei end
  end.

(* ================================================================================================
   1. Variable declarations
   ================================================================================================ *)
Lemma fmt_vardecl_eq doc i ty inf toks :
  fmt_vardecl (VValid doc (Some i) ty inf) toks =
  (do t <- fmt_ref_texpr ty toks;
   FOk (sh KVar ++ gp [32%N] ++ sh (Ident (id_val i)) ++ sh Colon ++ gp [32%N] ++ t ++ sh Semic ++ [10%N])).
Proof. reflexivity. Qed.

Definition vardecl_fn (toks : list token) (v : vardecl * nat) : fres :=
  with_from (snd v) toks (fun t' =>
    do body <- fmt_vardecl (fst v) t';
    with_slice (vardecl_info (fst v)) t' (fun sl => FOk (add_all_comments body sl))).

Lemma fmt_vardecls_nil toks : fmt_vardecls [] toks = FOk [].
Proof. reflexivity. Qed.
Lemma fmt_vardecls_cons v r toks :
  fmt_vardecls (v :: r) toks = (do a <- vardecl_fn toks v; do b <- fmt_vardecls r toks; FOk (a ++ b)).
Proof. reflexivity. Qed.

Definition lo_vardecl (v : avardecl) : bool :=
  forallb nice (KVar :: cm (v_c2 v) ++ Ident (v_x v) :: cm (v_c3 v) ++ Colon :: fl_type (v_t v) ++ cm (v_c4 v) ++ [Semic]).

Lemma vardecl_prints v toks off :
  lo_vardecl v = true -> forallb valid_kind (fl_vardecl v) = true -> At toks off (fl_vardecl v) ->
  exists t, vardecl_fn toks (x_vardecl v, off) = FOk (t ++ [10%N]) /\ Wv (fl_vardecl v) t.
Proof.
  intros Hlo Hv H. unfold vardecl_fn. cbn [fst snd].
  match goal with |- context [with_from off toks ?K] =>
    destruct (with_from_At toks off 0 (fl_vardecl v) K) as [E A0]; [at_solve|]; rewrite E end.
  clear E H. pose proof A0 as H0. destruct v as [c1 c2 x c3 t c4].
  unfold lo_vardecl in Hlo. unfold fl_vardecl in Hv, A0. cbn [v_c1 v_c2 v_x v_c3 v_t v_c4] in Hlo, Hv, A0.
  pose proof (Hlo : id _) as Hlo0. nice_split. unfold id in Hlo0. valid_split.
  unfold x_vardecl, x_ident. cbn [v_c1 v_c2 v_x v_c3 v_t v_c4]. cbn [cm map app length] in *.
  rewrite fmt_vardecl_eq. cbn [id_val vardecl_info]. at_split.
  destruct (ref_type_ok t (skipn off toks) (length c1 + 1 + 0 + 1 + 0 + 1) ltac:(assumption) ltac:(at_solve)) as (s & Es & Ws).
  rewrite Es. cbn [fbind]. rewrite (finish_all _ 0 _ _ c1 _ _ H0 eq_refl Hlo0 eq_refl). nl_split.
  unfold fl_vardecl. cbn [v_c1 v_c2 v_x v_c3 v_t v_c4 cm map app]. apply (Wv_lead c1); [assumption | wv2].
Qed.

Lemma vardecls_prints l : forall toks o,
  forallb lo_vardecl l = true -> forallb valid_kind (flat_map fl_vardecl l) = true -> At toks o (flat_map fl_vardecl l) ->
  match l with
  | [] => fmt_vardecls (x_vardecls o l) toks = FOk []
  | _ :: _ => exists t, fmt_vardecls (x_vardecls o l) toks = FOk (t ++ [10%N]) /\ Wv (flat_map fl_vardecl l) t
  end.
Proof.
  induction l as [|v r IH]; intros toks o Hlo Hv H; [reflexivity|].
  cbn [forallb] in Hlo. lo_split Hlo. cbn [flat_map] in Hv, H. valid_split. at_split. cbn [x_vardecls]. rewrite fmt_vardecls_cons.
  destruct (vardecl_prints v toks o ltac:(assumption) ltac:(assumption) ltac:(at_solve)) as (t1 & E1 & W1). rewrite E1. cbn [fbind].
  pose proof (IH toks (o + length (fl_vardecl v)) ltac:(assumption) ltac:(assumption) ltac:(at_solve)) as IH2.
  destruct r as [|v2 r2].
  - cbn [x_vardecls]. rewrite fmt_vardecls_nil. cbn [fbind]. exists t1. split; [rewrite app_nil_r; reflexivity|].
    cbn [flat_map]. rewrite app_nil_r. exact W1.
  - destruct IH2 as (t2 & E2 & W2). rewrite E2. cbn [fbind]. exists (t1 ++ gp [10%N] ++ t2).
    split; [unfold gp; rewrite <- !app_assoc; reflexivity|].
    change (flat_map fl_vardecl (v :: v2 :: r2)) with (fl_vardecl v ++ flat_map fl_vardecl (v2 :: r2)). wv2.
Qed.

(* ================================================================================================
   2. Parameters
   ================================================================================================ *)
Lemma fmt_paramdecl_val doc i ty inf toks :
  fmt_paramdecl (PValid doc false (Some i) ty inf) toks =
  (do t <- fmt_ref_texpr ty toks; FOk (sh (Ident (id_val i)) ++ sh Colon ++ gp [32%N] ++ t)).
Proof. reflexivity. Qed.

Lemma fmt_paramdecl_ref doc i ty inf toks :
  fmt_paramdecl (PValid doc true (Some i) ty inf) toks =
  (do t <- fmt_ref_texpr ty toks; FOk (sh KRef ++ gp [32%N] ++ sh (Ident (id_val i)) ++ sh Colon ++ gp [32%N] ++ t)).
Proof. reflexivity. Qed.

Definition param_fn (toks : list token) (p : paramdecl * nat) : fres :=
  with_from (snd p) toks (fun t' =>
    do body <- fmt_paramdecl (fst p) t';
    with_slice (paramdecl_info (fst p)) t' (fun sl => FOk (add_all_comments body sl))).

Lemma ends_param p : ends_e (fl_param p).
Proof. destruct p; cbn [fl_param]; repeat first [apply ends_type | apply ends_app | apply ends_cons]. Qed.

Definition lo_param (p : aparam) : bool :=
  match p with
  | PVal _ x cc t => forallb nice (Ident x :: cm cc ++ Colon :: fl_type t)
  | PRef _ c x cc t => forallb nice (KRef :: cm c ++ Ident x :: cm cc ++ Colon :: fl_type t)
  end.

Definition param_okp (p : aparam) : Prop := lo_param p = true /\ forallb valid_kind (fl_param p) = true.

Lemma param_prints toks p : elem_ok fl_param x_param toks (param_fn toks) param_okp p.
Proof.
  intros off [Hlo Hv] H. unfold param_fn. cbn [fst snd].
  match goal with |- context [with_from off toks ?K] =>
    destruct (with_from_At toks off 0 (fl_param p) K) as [E A0]; [at_solve|]; rewrite E end.
  clear E H. pose proof A0 as H0. destruct p as [c x cc t|cr c x cc t].
  - cbn [lo_param] in Hlo. cbn [fl_param] in Hv, A0. pose proof (Hlo : id _) as Hlo0. nice_split. unfold id in Hlo0. valid_split.
    cbn [x_param]. unfold x_ident. cbn [cm map app length] in *.
    rewrite fmt_paramdecl_val. cbn [id_val paramdecl_info]. at_split.
    destruct (ref_type_ok t (skipn off toks) (length c + 1 + 0 + 1) ltac:(assumption) ltac:(at_solve)) as (s & Es & Ws).
    rewrite Es. cbn [fbind]. rewrite (finish_all _ 0 _ _ c _ _ H0 eq_refl Hlo0 eq_refl). eexists. split; [reflexivity|].
    cbn [fl_param cm map app]. apply (Wv_lead c); [assumption | wv2].
  - cbn [lo_param] in Hlo. cbn [fl_param] in Hv, A0. pose proof (Hlo : id _) as Hlo0. nice_split. unfold id in Hlo0. valid_split.
    cbn [x_param]. unfold x_ident. cbn [cm map app length] in *.
    rewrite fmt_paramdecl_ref. cbn [id_val paramdecl_info]. at_split.
    destruct (ref_type_ok t (skipn off toks) (length cr + 1 + 0 + 1 + 0 + 1) ltac:(assumption) ltac:(at_solve)) as (s & Es & Ws).
    rewrite Es. cbn [fbind]. rewrite (finish_all _ 0 _ _ cr _ _ H0 eq_refl Hlo0 eq_refl). eexists. split; [reflexivity|].
    cbn [fl_param cm map app]. apply (Wv_lead cr); [assumption | wv2].
Qed.

Definition lo_params (ps : aparams) : bool :=
  match ps with
  | None => true
  | Some (p, l) => lo_param p && forallb (fun ca : cs * aparam => is_nil (fst ca) && lo_param (snd ca)) l
  end.

Lemma params_tail_okp l :
  forallb (fun ca : cs * aparam => is_nil (fst ca) && lo_param (snd ca)) l = true ->
  forallb valid_kind (fl_tail fl_param l) = true -> tail_okp param_okp l.
Proof.
  induction l as [|[c p] r IH]; intros Hlo Hv; [constructor|].
  cbn [forallb fst snd] in Hlo. lo_split Hlo. rewrite fl_tail_cons in Hv. cbn [cm map app] in Hv. valid_split.
  constructor; [split; [reflexivity | split; assumption] | apply IH; assumption].
Qed.

Lemma fmt_params_eq ps toks :
  fmt_params f ps toks =
  fmap (param_fn toks) ps (fun l =>
    match l with
    | [] => FOk []
    | _ => if Nat.ltb 3 (length l) || existsb contains_slashes l
           then FOk ([10%N] ++ indent (join (sh Comma ++ [10%N]) l) f)
           else FOk (join (sh Comma ++ [32%N]) l)
    end).
Proof. reflexivity. Qed.

(* the parameter list between "(" and whatever follows it (the ")"): one line, or one parameter per line *)
Lemma params_prints ps toks o :
  lo_params ps = true -> forallb valid_kind (fl_sep fl_param ps) = true -> At toks o (fl_sep fl_param ps) ->
  exists ptxt, fmt_params f (x_sep fl_param x_param o ps) toks = FOk ptxt /\
    forall ks2 t2, Wv ks2 t2 -> punct (hdk ks2) = true -> Wv (LParen :: fl_sep fl_param ps ++ ks2) (sh LParen ++ ptxt ++ t2).
Proof.
  intros Hlo Hv H. rewrite fmt_params_eq. destruct ps as [[p l]|].
  - cbn [lo_params] in Hlo. lo_split Hlo. cbn [fl_sep] in Hv. apply valid_app in Hv. destruct Hv as [Hvp Hvl].
    destruct (sep_prints fl_param x_param toks (param_fn toks) param_okp ends_param p l (param_prints toks p)
                ltac:(apply Forall_forall; intros; apply param_prints) o (conj Hlo Hvp) (params_tail_okp l ltac:(assumption) Hvl) H)
      as (t & ts & Ets & _ & Wts).
    rewrite Ets. destruct (Nat.ltb 3 (length (t :: ts)) || existsb contains_slashes (t :: ts)).
    + pose proof (Wts [10%N] eq_refl ltac:(discriminate)) as W.
      pose proof (indent_Wv f sym_ok _ _ W) as Ei.
      match type of Ei with ?l = _ => match goal with |- context [indent ?s f] => change (indent s f) with l end end.
      rewrite Ei. eexists. split; [reflexivity|]. intros ks2 t2 W2 Hp.
      pose proof (Wv_unit f sym_ok _ _ W) as W'.
      change ([10%N] ++ unit ++ ins_after unit (join (sh Comma ++ [10%N]) (t :: ts)) ++ [10%N])
        with (gp (10%N :: unit) ++ ins_after unit (join (sh Comma ++ [10%N]) (t :: ts)) ++ gp [10%N]).
      rewrite <- !app_assoc. apply Wv_tok_closed_g; [reflexivity | | apply nl_unit_gap; exact sym_ok].
      apply Wv_sub_punct_g; [exact W' | apply ends_sep; exact ends_param | exact W2 | exact Hp | reflexivity].
    + pose proof (Wts [32%N] eq_refl ltac:(discriminate)) as W.
      eexists. split; [reflexivity|]. intros ks2 t2 W2 Hp. apply Wv_tok_closed; [reflexivity|].
      apply Wv_sub_punct; [exact W | apply ends_sep; exact ends_param | exact W2 | exact Hp].
  - cbn [x_sep]. rewrite fmap_nil. exists []. split; [reflexivity|]. intros ks2 t2 W2 _.
    cbn [fl_sep app]. apply Wv_tok_closed; [reflexivity | exact W2].
Qed.

(* ================================================================================================
   3. Global declarations
   ================================================================================================ *)
Lemma fmt_typedecl_eq doc i ty inf toks :
  fmt_typedecl {| td_doc := doc; td_name := Some i; td_ty := ty; td_info := inf |} toks =
  (do t <- fmt_ref_texpr ty toks;
   with_slice inf toks (fun sl => FOk (add_leading_comments
     (sh KType ++ gp [32%N] ++ sh (Ident (id_val i)) ++ gp [32%N] ++ sh EqT ++ gp [32%N] ++ t ++ sh Semic ++ [10%N]) sl))).
Proof. reflexivity. Qed.

Definition proc_text (name params vd st : text) : text :=
  let head := sh KProc ++ gp [32%N] ++ sh (Ident name) ++ sh LParen ++ params in
  match is_nil vd, is_nil st with
  | true, true => head ++ sh RParen ++ gp [32%N] ++ sh LCurly ++ sh RCurly ++ [10%N]
  | true, false => head ++ sh RParen ++ gp [32%N] ++ sh LCurly ++ gp [10%N] ++ st ++ sh RCurly ++ [10%N]
  | false, true => head ++ sh RParen ++ gp [32%N] ++ sh LCurly ++ gp [10%N] ++ vd ++ sh RCurly ++ [10%N]
  | false, false => head ++ sh RParen ++ gp [32%N] ++ sh LCurly ++ gp [10%N] ++ vd ++ gp [10%N] ++ st ++ sh RCurly ++ [10%N]
  end.

Lemma fmt_procdecl_eq doc i ps vs ss inf toks :
  fmt_procdecl f {| pd_doc := doc; pd_name := Some i; pd_params := ps; pd_vars := vs; pd_stmts := ss; pd_info := inf |} toks =
  (do params <- fmt_params f ps toks;
   do vd0 <- fmt_vardecls vs toks;
   do st0 <- fmt_stmts f ss toks;
   with_slice inf toks (fun sl => FOk (add_leading_comments (proc_text (id_val i) params (indent vd0 f) (indent st0 f)) sl))).
Proof.
  unfold fmt_procdecl. cbn [pd_name pd_params pd_vars pd_stmts pd_info name_or_empty].
  destruct (fmt_params f ps toks) as [params|]; [|reflexivity]. cbn [fbind].
  destruct (fmt_vardecls vs toks) as [vd0|]; [|reflexivity]. cbn [fbind].
  destruct (fmt_stmts f ss toks) as [st0|]; [|reflexivity]. cbn [fbind].
  unfold proc_text. cbv zeta. destruct (is_nil (indent vd0 f)), (is_nil (indent st0 f)); cbv iota;
    unfold gp; rewrite <- ?app_assoc; reflexivity.
Qed.

Definition decl_fn (toks : list token) (g : gdecl * nat) : fres :=
  with_from (snd g) toks (fun t' => fmt_gdecl f (fst g) t').

Lemma shape2 (a u m b : text) : a ++ gp [10%N] ++ u ++ m ++ [10%N] ++ b = a ++ gp (10%N :: u) ++ m ++ gp [10%N] ++ b.
Proof. reflexivity. Qed.

Lemma shape3 (a u m u2 m2 b : text) :
  a ++ gp [10%N] ++ u ++ m ++ [10%N] ++ gp [10%N] ++ u2 ++ m2 ++ [10%N] ++ b =
  a ++ gp (10%N :: u) ++ m ++ gp (10%N :: 10%N :: u2) ++ m2 ++ gp [10%N] ++ b.
Proof. reflexivity. Qed.

Definition lo_decl (d : adecl) : bool :=
  match d with
  | DType _ c2 x c3 t c4 => forallb nice (KType :: cm c2 ++ Ident x :: cm c3 ++ EqT :: fl_type t ++ cm c4 ++ [Semic])
  | DProc _ c2 x c3 ps c4 c5 vs b c6 =>
      forallb nice (KProc :: cm c2 ++ Ident x :: cm c3 ++ [LParen]) && lo_params ps && is_nil c4 && is_nil c5
      && forallb lo_vardecl vs && lo_stmts b && is_nil c6
  end.

Lemma decl_prints d toks off :
  lo_decl d = true -> forallb valid_kind (fl_decl d) = true -> At toks off (fl_decl d) ->
  exists t, decl_fn toks (x_decl d, off) = FOk (t ++ [10%N]) /\ Wv (fl_decl d) t.
Proof.
  intros Hlo Hv H. unfold decl_fn. cbn [fst snd].
  match goal with |- context [with_from off toks ?K] =>
    destruct (with_from_At toks off 0 (fl_decl d) K) as [E A0]; [at_solve|]; rewrite E end.
  clear E H. pose proof A0 as H0.
  pose proof (nl_unit_gap f sym_ok) as Gu.
  assert (Gu2 : forallb gapc (10%N :: 10%N :: unit) = true) by (cbn [forallb] in *; exact Gu).
  destruct d as [c1 c2 x c3 t c4|c1 c2 x c3 ps c4 c5 vs b c6].
  - cbn [lo_decl] in Hlo. cbn [fl_decl] in Hv, A0. nice_split. cbn [cm map app] in Hv. valid_split.
    cbn [x_decl fmt_gdecl]. unfold x_ident. cbn [cm map app length] in *.
    rewrite fmt_typedecl_eq. cbn [id_val]. at_split.
    destruct (ref_type_ok t (skipn off toks) (length c1 + 1 + 0 + 1 + 0 + 1) ltac:(assumption) ltac:(at_solve)) as (s & Es & Ws).
    rewrite Es. cbn [fbind]. rewrite (finish_leading _ 0 _ _ c1 KType _ _ H0 eq_refl eq_refl eq_refl). nl_split.
    cbn [fl_decl cm map app]. apply (Wv_lead c1); [assumption | wv2].
  - cbn [lo_decl] in Hlo. lo_split Hlo. nice_split. cbn [fl_decl] in Hv, A0. cbn [cm map app] in Hv, A0. valid_split.
    cbn [x_decl fmt_gdecl]. cbv zeta. unfold x_ident. cbn [cm map app length] in *.
    rewrite fmt_procdecl_eq. cbn [id_val]. at_split.
    destruct (params_prints ps (skipn off toks) (length c1 + 1 + 0 + 1 + 0 + 1) ltac:(assumption) ltac:(assumption) ltac:(at_solve))
      as (ptxt & Ep & Wp).
    rewrite Ep. cbn [fbind].
    pose proof (vardecls_prints vs (skipn off toks) (length c1 + 1 + 0 + 1 + 0 + 1 + length (fl_sep fl_param ps) + 0 + 1 + 0 + 1)
                  ltac:(assumption) ltac:(assumption) ltac:(at_solve)) as IHv.
    pose proof (stmts_prints f sym_ok b (skipn off toks)
                  (length c1 + 1 + 0 + 1 + 0 + 1 + length (fl_sep fl_param ps) + 0 + 1 + 0 + 1 + length (flat_map fl_vardecl vs))
                  ltac:(assumption) ltac:(assumption) ltac:(at_solve)) as IHs.
    destruct vs as [|v vs']; destruct b as [|s r].
    + rewrite IHv. cbn [fbind]. rewrite IHs. cbn [fbind].
      rewrite (finish_leading _ 0 _ _ c1 KProc _ _ H0 eq_refl eq_refl eq_refl).
      unfold proc_text. change (indent [] f) with (@nil char). cbv zeta. cbn [is_nil]. nl_split.
      cbn [fl_decl fl_stmts flat_map cm map app]. apply (Wv_lead c1); [assumption|].
      apply Wv_tok_sp; [reflexivity | | reflexivity | discriminate].
      apply Wv_tok_punct; [assumption | reflexivity | | reflexivity].
      apply Wp; [wv2 | reflexivity].
    + rewrite IHv. cbn [fbind]. destruct IHs as (ts & Es & Ws). rewrite Es. cbn [fbind].
      rewrite (finish_leading _ 0 _ _ c1 KProc _ _ H0 eq_refl eq_refl eq_refl).
      unfold proc_text. change (indent [] f) with (@nil char). rw_indent_nl Ws. cbv zeta.
      rewrite is_nil_app_ne by (intros E; apply app_eq_nil in E; destruct E as [_ E]; discriminate E). cbn [is_nil].
      rewrite <- ?app_assoc. rewrite (shape2 (sh LCurly) unit). nl_split.
      pose proof (Wv_unit f sym_ok _ _ Ws) as Ws'.
      cbn [fl_decl flat_map cm map app]. apply (Wv_lead c1); [assumption|].
      apply Wv_tok_sp; [reflexivity | | reflexivity | discriminate].
      apply Wv_tok_punct; [assumption | reflexivity | | reflexivity].
      apply Wp; [wv2 | reflexivity].
    + destruct IHv as (tv & Ev & Wvd). rewrite Ev. cbn [fbind]. rewrite IHs. cbn [fbind].
      rewrite (finish_leading _ 0 _ _ c1 KProc _ _ H0 eq_refl eq_refl eq_refl).
      unfold proc_text. change (indent [] f) with (@nil char). rw_indent_nl Wvd. cbv zeta.
      rewrite is_nil_app_ne by (intros E; apply app_eq_nil in E; destruct E as [_ E]; discriminate E). cbn [is_nil].
      rewrite <- ?app_assoc. rewrite (shape2 (sh LCurly) unit). nl_split.
      pose proof (Wv_unit f sym_ok _ _ Wvd) as Wvd'.
      cbn [fl_decl fl_stmts cm map app]. apply (Wv_lead c1); [assumption|].
      apply Wv_tok_sp; [reflexivity | | reflexivity | discriminate].
      apply Wv_tok_punct; [assumption | reflexivity | | reflexivity].
      apply Wp; [wv2 | reflexivity].
    + destruct IHv as (tv & Ev & Wvd). rewrite Ev. cbn [fbind]. destruct IHs as (ts & Es & Ws). rewrite Es. cbn [fbind].
      rewrite (finish_leading _ 0 _ _ c1 KProc _ _ H0 eq_refl eq_refl eq_refl).
      unfold proc_text. rw_indent_nl Wvd. rw_indent_nl Ws. cbv zeta.
      rewrite !is_nil_app_ne by (intros E; apply app_eq_nil in E; destruct E as [_ E]; discriminate E).
      rewrite <- ?app_assoc. rewrite (shape3 (sh LCurly) unit _ unit). nl_split.
      pose proof (Wv_unit f sym_ok _ _ Wvd) as Wvd'. pose proof (Wv_unit f sym_ok _ _ Ws) as Ws'.
      cbn [fl_decl cm map app]. apply (Wv_lead c1); [assumption|].
      apply Wv_tok_sp; [reflexivity | | reflexivity | discriminate].
      apply Wv_tok_punct; [assumption | reflexivity | | reflexivity].
      apply Wp; [wv2 | reflexivity].
Qed.

(* ================================================================================================
   4. The program
   ================================================================================================ *)
Lemma fmt_program_eq p toks : fmt_program f p toks = fmap (decl_fn toks) (pg_decls p) (fun l => FOk (join [10%N] l)).
Proof. reflexivity. Qed.

Lemma decls_print l : forall toks o,
  forallb lo_decl l = true -> forallb valid_kind (flat_map fl_decl l) = true -> At toks o (flat_map fl_decl l) ->
  exists ts, (forall k, fmap (decl_fn toks) (x_decls o l) k = k ts) /\
             match l with
             | [] => ts = []
             | _ :: _ => exists t, join [10%N] ts = t ++ [10%N] /\ Wv (flat_map fl_decl l) t
             end.
Proof.
  induction l as [|d r IH]; intros toks o Hlo Hv H.
  - exists []. split; [reflexivity | reflexivity].
  - cbn [forallb] in Hlo. lo_split Hlo. cbn [flat_map] in Hv, H. valid_split. at_split.
    destruct (decl_prints d toks o ltac:(assumption) ltac:(assumption) ltac:(at_solve)) as (t1 & E1 & W1).
    destruct (IH toks (o + length (fl_decl d)) ltac:(assumption) ltac:(assumption) ltac:(at_solve)) as (ts & Ets & Hts).
    exists ((t1 ++ [10%N]) :: ts). split.
    + intros k. cbn [x_decls]. rewrite fmap_cons, E1. cbn [fbind]. apply Ets.
    + destruct r as [|d2 r2].
      * subst ts. exists t1. split; [reflexivity|]. cbn [flat_map]. rewrite app_nil_r. exact W1.
      * destruct Hts as (t2 & E2 & W2). destruct ts as [|u us].
        { exfalso. cbn in E2. destruct t2; discriminate E2. }
        exists (t1 ++ gp [10%N; 10%N] ++ t2). split.
        -- rewrite join_cons2, E2. unfold gp. rewrite <- !app_assoc. reflexivity.
        -- change (flat_map fl_decl (d :: d2 :: r2)) with (fl_decl d ++ flat_map fl_decl (d2 :: r2)). wv2.
Qed.

End Prog.

(* ================================================================================================
   5. The theorems
   ================================================================================================ *)
(* comments only in leading position: doc comments of type / procedure / variable declarations and parameters, leading
   comments of statements (not of a block that is the branch of an if / while); nowhere else, none in front of EOF *)
Definition lead_only (p : aprog) : bool := forallb lo_decl (a_decls p) && is_nil (a_ceof p).

(* no comment anywhere in the program: every comment slot of the abstract syntax is empty *)
Definition comment_free (p : aprog) : bool := forallb (fun k => negb (is_comment k)) (flatten p).

Lemma comment_free_nice p : comment_free p = true -> aprog_valid p = true -> forallb nice (flatten p) = true.
Proof. intros Hc Hv. apply forallb_nice_split. split; assumption. Qed.

Definition unit_ok (f : fopts) : Prop := (ind_sym f = 32 \/ ind_sym f = 9)%N.

Lemma options_unit_ok ins ts : unit_ok (options_of ins ts).
Proof. unfold unit_ok, options_of. destruct ins; cbn [ind_sym]; [left | right]; reflexivity. Qed.

(* A4: with comments in leading position only, the formatter prints exactly the program's tokens - the comments among
   them, each exactly once, as "// " + trimmed text + LF - in order, separated by admissible whitespace only *)
Theorem structure_lead p toks f :
  unit_ok f -> lead_only p = true -> aprog_valid p = true -> map tk toks = flatten p ++ [Eof] ->
  exists txt gaps,
    fmt_program f (expected p) toks = FOk txt /\
    txt = weave gaps (map show_kind (flatten p)) /\
    gaps_ok (flatten p) gaps /\
    Forall (fun g => forallb is_ws g = true) gaps /\
    hd [] gaps = [] /\ (flatten p <> [] -> last gaps [] = [10%N]).
Proof.
  intros Hf Hlo Hv Hk. unfold lead_only in Hlo. apply andb_true_iff in Hlo. destruct Hlo as [Hlo Hn2]. apply is_nil_eq in Hn2.
  unfold aprog_valid in Hv.
  assert (Hfl : flatten p = flat_map fl_decl (a_decls p)) by (unfold flatten; rewrite Hn2; apply app_nil_r).
  rewrite Hfl in Hv, Hk.
  destruct (decls_print f Hf (a_decls p) toks 0 Hlo Hv (At_whole toks _ _ Hk)) as (ts & Ets & Hts).
  rewrite fmt_program_eq. unfold expected. cbn [pg_decls]. rewrite Ets. rewrite Hfl.
  destruct (a_decls p) as [|d r].
  - subst ts. exists [], [[]]. repeat split; try reflexivity; try (repeat constructor). intros E. exfalso. apply E. reflexivity.
  - destruct Hts as (t & E & W). rewrite E.
    destruct (Wv_layout _ t [] [10%N] W eq_refl eq_refl) as (gaps & Eg & Hg & H1 & H2 & H3).
    exists (t ++ [10%N]), gaps. split; [reflexivity|]. split; [exact Eg|]. split; [exact Hg|]. split; [exact H3|].
    split; [exact H1|]. intros _. exact H2.
Qed.

(* ... and the printed text lexes to these tokens, a comment with text s to the comment with text " " + trim s *)
Theorem tokens_lead p toks f txt :
  unit_ok f -> lead_only p = true -> aprog_valid p = true -> map tk toks = flatten p ++ [Eof] ->
  fmt_program f (expected p) toks = FOk txt ->
  exists toks', lex txt = Some toks' /\ map tk toks' = map canon (flatten p) ++ [Eof] /\ Forall (fun t => terr t = []) toks'.
Proof.
  intros Hf Hc Hv Hk Ht. destruct (structure_lead p toks f Hf Hc Hv Hk) as (txt' & gaps & E & -> & Hg & _).
  rewrite E in Ht. injection Ht as <-.
  apply show_layout_lexes; [exact Hv | exact Hg].
Qed.

(* a comment-free program has its comments in leading position only *)
Lemma nice_lo_vardecl v : forallb nice (fl_vardecl v) = true -> lo_vardecl v = true.
Proof. unfold fl_vardecl, lo_vardecl. intros H. apply nice_cm in H. tauto. Qed.

Lemma nice_lo_param p : forallb nice (fl_param p) = true -> lo_param p = true.
Proof. destruct p; cbn [fl_param lo_param]; intros H; apply nice_cm in H; tauto. Qed.

Lemma nice_lo_params ps : forallb nice (fl_sep fl_param ps) = true -> lo_params ps = true.
Proof.
  destruct ps as [[p l]|]; [|reflexivity]. cbn [fl_sep lo_params]. intros H. apply nice_app in H. destruct H as [Hp Hl].
  rewrite (nice_lo_param p Hp). cbn [andb]. induction l as [|[c q] r IH]; [reflexivity|].
  rewrite fl_tail_cons in Hl. nice_split. cbn [forallb fst snd is_nil andb]. rewrite (nice_lo_param q) by assumption. apply IH. assumption.
Qed.

Lemma nice_lo_decl d : forallb nice (fl_decl d) = true -> lo_decl d = true.
Proof.
  destruct d as [c1 c2 x c3 t c4|c1 c2 x c3 ps c4 c5 vs b c6]; cbn [fl_decl lo_decl]; intros H.
  - apply nice_cm in H. tauto.
  - nice_split. cbn [cm map app forallb is_nil]. rewrite (nice_lo_params ps) by assumption.
    rewrite (proj2 nice_lo b) by assumption.
    repeat match goal with N : nice _ = true |- _ => rewrite N; clear N end. cbn [andb]. rewrite !andb_true_r.
    match goal with N : forallb nice (flat_map fl_vardecl vs) = true |- _ => revert N end. clear.
    induction vs as [|v r IH]; [reflexivity|]. cbn [flat_map forallb]. intros H. apply nice_app in H. destruct H as [Hv Hr].
    rewrite (nice_lo_vardecl v Hv). apply IH. exact Hr.
Qed.

Lemma comment_free_lead_only p : comment_free p = true -> aprog_valid p = true -> lead_only p = true.
Proof.
  intros Hc Hv. pose proof (comment_free_nice p Hc Hv) as Hn. unfold flatten in Hn. apply nice_app in Hn. destruct Hn as [Hn Hn2].
  apply nice_cm0 in Hn2. unfold lead_only. rewrite Hn2. cbn [is_nil]. rewrite andb_true_r.
  induction (a_decls p) as [|d r IH]; [reflexivity|]. cbn [flat_map forallb] in *. apply nice_app in Hn. destruct Hn as [Hd Hr].
  rewrite (nice_lo_decl d Hd). apply IH. exact Hr.
Qed.

(* A1: the formatter prints exactly the program's tokens, as Display spells them, in order, separated by admissible
   whitespace only *)
Theorem structure p toks f :
  unit_ok f -> comment_free p = true -> aprog_valid p = true -> map tk toks = flatten p ++ [Eof] ->
  exists txt gaps,
    fmt_program f (expected p) toks = FOk txt /\
    txt = weave gaps (map show_kind (flatten p)) /\
    gaps_ok (flatten p) gaps /\
    Forall (fun g => forallb is_ws g = true) gaps /\
    hd [] gaps = [] /\ (flatten p <> [] -> last gaps [] = [10%N]).
Proof. intros Hf Hc Hv Hk. apply structure_lead; try assumption. apply comment_free_lead_only; assumption. Qed.

(* A2: the printed text lexes back to the program's tokens: same kinds, same values, no lexical error *)
Theorem tokens p toks f txt :
  unit_ok f -> comment_free p = true -> aprog_valid p = true -> map tk toks = flatten p ++ [Eof] ->
  fmt_program f (expected p) toks = FOk txt ->
  exists toks', lex txt = Some toks' /\ map tk toks' = flatten p ++ [Eof] /\ Forall (fun t => terr t = []) toks'.
Proof.
  intros Hf Hc Hv Hk Ht.
  destruct (tokens_lead p toks f txt Hf (comment_free_lead_only p Hc Hv) Hv Hk Ht) as (toks' & E1 & E2 & E3).
  exists toks'. rewrite (map_canon_nice _ (comment_free_nice p Hc Hv)) in E2. repeat split; assumption.
Qed.

(* A3: formatting the printed text again answers null *)
Theorem idempotent_comment_free p toks ins ts txt :
  prog_ok p = true -> comment_free p = true -> aprog_valid p = true -> map tk toks = flatten p ++ [Eof] ->
  fmt_program (options_of ins ts) (expected p) toks = FOk txt ->
  format_request txt ins ts = Done None.
Proof.
  intros Hok Hc Hv Hk Ht.
  destruct (tokens p toks _ txt (options_unit_ok ins ts) Hc Hv Hk Ht) as (toks' & El & Ek & _).
  unfold format_request. rewrite El, (GrammarProg.roundtrip p toks' Hok Ek).
  assert (Hs : same_kinds toks' toks) by (unfold same_kinds; rewrite Ek, Hk; reflexivity).
  rewrite (fmt_program_kinds _ (expected p) toks' toks Hs), Ht, text_eqb_refl. reflexivity.
Qed.

(* the same, from a document: any text that lexes to the tokens of a valid comment-free program is formatted to a text
   with the same tokens, and formatting that text again answers null *)
Theorem format_document p doc toks ins ts :
  prog_ok p = true -> comment_free p = true -> aprog_valid p = true ->
  lex doc = Some toks -> map tk toks = flatten p ++ [Eof] ->
  exists txt toks',
    formatted_text doc ins ts = Done txt /\
    lex txt = Some toks' /\ map tk toks' = map tk toks /\
    format_request txt ins ts = Done None.
Proof.
  intros Hok Hc Hv El Hk.
  destruct (structure p toks _ (options_unit_ok ins ts) Hc Hv Hk) as (txt & gaps & E & _).
  destruct (tokens p toks _ txt (options_unit_ok ins ts) Hc Hv Hk E) as (toks' & El' & Ek' & _).
  exists txt, toks'. split; [|split; [exact El' | split; [congruence|]]].
  - unfold formatted_text. rewrite El, (GrammarProg.roundtrip p toks Hok Hk), E. reflexivity.
  - exact (idempotent_comment_free p toks ins ts txt Hok Hc Hv Hk E).
Qed.

(* ---- trimming a trimmed text ---- *)
Lemma trim_start_fix l : match l with [] => True | x :: _ => is_unicode_ws x = false end -> trim_start l = l.
Proof. destruct l as [|x l]; [reflexivity|]. cbn [trim_start]. intros ->. reflexivity. Qed.

Lemma trim_start_suffix l : exists pre, l = pre ++ trim_start l.
Proof.
  induction l as [|x l [pre E]]; [exists []; reflexivity|]. cbn [trim_start]. destruct (is_unicode_ws x).
  - exists (x :: pre). cbn [app]. f_equal. exact E.
  - exists []. reflexivity.
Qed.

Lemma trim_head s : match trim s with [] => True | x :: _ => is_unicode_ws x = false end.
Proof.
  unfold trim. destruct (trim_start_suffix (rev (trim_start s))) as [pre E].
  set (b := trim_start (rev (trim_start s))) in *.
  assert (Ea : trim_start s = rev b ++ rev pre).
  { rewrite <- (rev_involutive (trim_start s)), E, rev_app_distr. reflexivity. }
  pose proof (trim_start_head s) as H. rewrite Ea in H. destruct (rev b) as [|x r]; [exact I | exact H].
Qed.

Lemma trim_trim s : trim (32%N :: trim s) = trim s.
Proof.
  pose proof (trim_head s) as Hh. pose proof (trim_last s) as Hl. set (t := trim s) in *.
  unfold trim. change (trim_start (32%N :: t)) with (trim_start t). rewrite (trim_start_fix t Hh).
  rewrite trim_start_fix; [apply rev_involutive|].
  destruct t as [|z t'] using rev_ind; [exact I|]. rewrite rev_app_distr. cbn [rev app].
  destruct Hl as [E|E]; [destruct t'; discriminate E|]. rewrite LexConformOne.last_app_single in E. exact E.
Qed.

Lemma canon_code ks :
  filter (fun k => match k with Comment _ => false | _ => true end) (map canon ks)
  = filter (fun k => match k with Comment _ => false | _ => true end) ks.
Proof. induction ks as [|k ks IH]; [reflexivity|]. cbn [map filter]. destruct k; cbn [canon]; rewrite IH; reflexivity. Qed.

Lemma canon_bodies (toks toks' : list token) :
  map tk toks' = map canon (map tk toks) -> comment_bodies toks' = comment_bodies toks.
Proof.
  revert toks'. induction toks as [|t toks IH]; intros toks' H.
  - destruct toks'; [reflexivity | discriminate H].
  - destruct toks' as [|t' toks']; [discriminate H|]. cbn [map] in H. injection H as Ht H.
    unfold comment_bodies. cbn [flat_map]. fold (comment_bodies toks'). fold (comment_bodies toks).
    rewrite (IH toks' H), Ht. destruct (tk t); cbn [canon]; try reflexivity. rewrite trim_trim. reflexivity.
Qed.

(* from a document that is a layout of a valid program with comments in leading position only: the formatted text has
   the same non-comment tokens (kinds and values) and the same comments (trimmed texts, in order, each exactly once) *)
Theorem document_lead p doc toks ins ts :
  prog_ok p = true -> lead_only p = true -> aprog_valid p = true ->
  lex doc = Some toks -> map tk toks = flatten p ++ [Eof] ->
  exists txt toks',
    formatted_text doc ins ts = Done txt /\ lex txt = Some toks' /\
    code_kinds toks' = code_kinds toks /\ comment_bodies toks' = comment_bodies toks /\
    Forall (fun t => terr t = []) toks'.
Proof.
  intros Hok Hlo Hv El Hk.
  destruct (structure_lead p toks _ (options_unit_ok ins ts) Hlo Hv Hk) as (txt & gaps & E & _).
  destruct (tokens_lead p toks _ txt (options_unit_ok ins ts) Hlo Hv Hk E) as (toks' & El' & Ek' & Ee).
  assert (Hc : map tk toks' = map canon (map tk toks)) by (rewrite Ek', Hk, map_app; reflexivity).
  exists txt, toks'. split; [|split; [exact El' | split; [|split; [|exact Ee]]]].
  - unfold formatted_text. rewrite El, (GrammarProg.roundtrip p toks Hok Hk), E. reflexivity.
  - unfold code_kinds. rewrite Hc. apply canon_code.
  - apply canon_bodies. exact Hc.
Qed.

(* what Display prints for a token: a lexeme of the same kind and value; the canonical spelling up to the zero padding of
   one-digit hexadecimal literals *)
Theorem spellings k : nice k = true ->
  LexSpec.Lexeme k (show_kind k) /\
  (show_kind k = spelling k \/
   exists v a, k = HexT (IntOk v) /\ spelling k = [48; 120; a]%N /\ show_kind k = [48; 120; 48; a]%N).
Proof. intros H. split; [apply show_lexeme; exact H | apply show_vs_spelling; exact H]. Qed.

Theorem idempotent_document p doc toks ins ts :
  prog_ok p = true -> comment_free p = true -> aprog_valid p = true ->
  lex doc = Some toks -> map tk toks = flatten p ++ [Eof] ->
  exists out, formatted_text doc ins ts = Done out /\ format_request out ins ts = Done None.
Proof.
  intros H1 H2 H3 H4 H5.
  destruct (format_document p doc toks ins ts H1 H2 H3 H4 H5) as (txt & toks' & E & _ & _ & N). exists txt. split; assumption.
Qed.

Print Assumptions document_lead.
Print Assumptions structure_lead.
Print Assumptions tokens_lead.
Print Assumptions structure.
Print Assumptions tokens.
Print Assumptions idempotent_comment_free.
Print Assumptions format_document.
