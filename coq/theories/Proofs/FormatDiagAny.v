(* C09 "same diagnostics" for programs with comments, part 5: the theorem.

   The formatted text of a layout of p is a layout of [c_prog (kept p)] (Proofs/FormatAnyThm.v, FormatStructIdem.v), so by
   the C04 round trip the two documents are parsed to [expected p] and [expected (c_prog (kept p))].  These trees have the
   same erasure declaration by declaration (the analysis-relevant content - names, literal values, structure - does not
   depend on comments, ranges or offsets), and their declaration ranges correspond one to one.  Hence (FormatDiagTop.v) the
   analysed trees carry the same messages in the same order - for every valid program, WELL-TYPED OR NOT. *)
From Coq Require Import String List Lia PeanoNat.
From Spl Require Import Model.Errors Spec.Grammar Proofs.RenderProofs Proofs.PipelineText Proofs.FormatProofs
  Proofs.FormatStructText Proofs.FormatStructProg Proofs.FormatStructIdem Proofs.FormatAnyKept Proofs.FormatAnyThm
  Proofs.FormatDiagErase Proofs.FormatDiagSem Proofs.FormatDiagMsgs Proofs.FormatDiagTop Proofs.RangeProofs.
From Spl Require Proofs.GrammarExpr Proofs.GrammarStmt Proofs.GrammarProg.
Import ListNotations.
Local Open Scope nat_scope.

(* ================================================================================================
   1. The mandated trees of p and [kept p] have the same erasure
   ================================================================================================ *)
Lemma er_x_expr :
  (forall v o o', er_var (x_var o (s_var v)) = er_var (x_var o' v)) /\
  (forall f o o', er_expr (x_fac o (s_fac f)) = er_expr (x_fac o' f)) /\
  (forall m o o', er_expr (x_mul o (s_mul m)) = er_expr (x_mul o' m)) /\
  (forall a o o', er_expr (x_add o (s_add a)) = er_expr (x_add o' a)) /\
  (forall e o o', er_expr (x_cmp o (s_cmp e)) = er_expr (x_cmp o' e)).
Proof.
  apply GrammarExpr.aexpr_mutind; intros; cbn [s_var s_fac s_mul s_add s_cmp x_var x_fac x_mul x_add x_cmp er_var er_expr];
    repeat match goal with
           | H : forall o o' : nat, er_var _ = er_var _ |- _ => erewrite H; clear H
           | H : forall o o' : nat, er_expr _ = er_expr _ |- _ => erewrite H; clear H
           end; reflexivity.
Qed.

Lemma er_x_var v o o' : er_var (x_var o (s_var v)) = er_var (x_var o' v).
Proof. apply er_x_expr. Qed.
Lemma er_x_cmp e o o' : er_expr (x_cmp o (s_cmp e)) = er_expr (x_cmp o' e).
Proof. apply er_x_expr. Qed.

Lemma er_x_set_lead C v : forall o o', er_var (x_var o (set_lead C v)) = er_var (x_var o' v).
Proof.
  induction v as [c x|v' IH c1 e c2]; intros o o'; cbn [set_lead x_var er_var]; [reflexivity|].
  rewrite (IH o o'). reflexivity.
Qed.

Lemma er_x_type t : forall o o', er_texpr (x_type o (s_type t)) = er_texpr (x_type o' t).
Proof.
  induction t as [c x|ca cl cz size cr co base IH]; intros o o'; cbn [s_type x_type er_texpr]; cbv zeta; [reflexivity|].
  cbn [er_texpr option_map]. rewrite (IH 0 0). reflexivity.
Qed.

Lemma er_x_tail {A B} (fl : A -> list kind) (x : A -> B) (sf : A -> A) (er : B -> B) l :
  (forall a, er (x (sf a)) = er (x a)) -> forall o o',
  map (fun a : B * nat => (er (fst a), 0)) (x_tail fl x o (s_tail sf l)) = map (fun a : B * nat => (er (fst a), 0)) (x_tail fl x o' l).
Proof.
  intros H. induction l as [|[c a] r IH]; intros o o'; [reflexivity|]. unfold s_tail in *. cbn [map snd x_tail fst].
  rewrite H. f_equal. apply IH.
Qed.

Lemma er_x_sep {A B} (fl : A -> list kind) (x : A -> B) (sf : A -> A) (er : B -> B) ps o o' :
  (forall a, er (x (sf a)) = er (x a)) ->
  map (fun a : B * nat => (er (fst a), 0)) (x_sep fl x o (s_sep sf ps)) = map (fun a : B * nat => (er (fst a), 0)) (x_sep fl x o' ps).
Proof.
  intros H. destruct ps as [[a l]|]; [|reflexivity]. cbn [s_sep x_sep map fst]. rewrite H. f_equal. apply er_x_tail. exact H.
Qed.

Lemma er_stmts_map l : er_stmts l = map (fun a : stmt * nat => (er_stmt (fst a), 0)) l.
Proof. induction l as [|[x o] r IH]; [reflexivity|]. cbn [er_stmts map fst]. rewrite IH. reflexivity. Qed.

Theorem er_x_stmt :
  (forall s o o', er_stmt (x_stmt o (k_stmt s)) = er_stmt (x_stmt o' s) /\ er_stmt (x_stmt o (k_branch s)) = er_stmt (x_stmt o' s)) /\
  (forall b o o', er_stmts (x_stmts o (k_stmts b)) = er_stmts (x_stmts o' b)).
Proof.
  apply GrammarStmt.astmt_mutind.
  - intros c o o'. split; reflexivity.
  - intros v c1 e c2 o o'.
    assert (G : er_stmt (x_stmt o (k_stmt (SAsg v c1 e c2))) = er_stmt (x_stmt o' (SAsg v c1 e c2))).
    { cbn [k_stmt x_stmt er_stmt er_oexpr]. rewrite (er_x_set_lead _ (s_var v) o o), (er_x_var v o o'), (er_x_cmp e 0 0). reflexivity. }
    split; exact G.
  - intros c1 fn c2 a c3 c4 o o'.
    assert (G : er_stmt (x_stmt o (k_stmt (SCal c1 fn c2 a c3 c4))) = er_stmt (x_stmt o' (SCal c1 fn c2 a c3 c4))).
    { cbn [k_stmt x_stmt]. rewrite !er_stmt_call. unfold er_args.
      rewrite (er_x_sep fl_cmp (x_cmp 0) s_cmp er_expr a _ (o' + length c1 + 1 + length c2 + 1) (fun e => er_x_cmp e 0 0)). reflexivity. }
    split; exact G.
  - intros c1 c2 e c3 t IHt o o'.
    assert (G : er_stmt (x_stmt o (k_stmt (SIfT c1 c2 e c3 t))) = er_stmt (x_stmt o' (SIfT c1 c2 e c3 t))).
    { rewrite k_ift. cbn [x_stmt]. cbv zeta. rewrite !er_stmt_if. cbn [er_oexpr er_ostmt].
      rewrite (er_x_cmp e 0 0), (proj2 (IHt 0 0)). reflexivity. }
    split; exact G.
  - intros c1 c2 e c3 t IHt c4 s' IHs o o'.
    assert (G : er_stmt (x_stmt o (k_stmt (SIfE c1 c2 e c3 t c4 s'))) = er_stmt (x_stmt o' (SIfE c1 c2 e c3 t c4 s'))).
    { rewrite k_ife. cbn [x_stmt]. cbv zeta. rewrite !er_stmt_if. cbn [er_oexpr er_ostmt].
      rewrite (er_x_cmp e 0 0), (proj2 (IHt 0 0)), (proj2 (IHs 0 0)). reflexivity. }
    split; exact G.
  - intros c1 c2 e c3 t IHt o o'.
    assert (G : er_stmt (x_stmt o (k_stmt (SWhl c1 c2 e c3 t))) = er_stmt (x_stmt o' (SWhl c1 c2 e c3 t))).
    { rewrite k_whl. cbn [x_stmt]. cbv zeta. rewrite !er_stmt_while. cbn [er_oexpr er_ostmt].
      rewrite (er_x_cmp e 0 0), (proj2 (IHt 0 0)). reflexivity. }
    split; exact G.
  - intros c1 b IHb c2 o o'. split.
    + rewrite k_blk. cbn [x_stmt]. rewrite !er_stmt_block, (IHb _ (o' + length c1 + 1)). reflexivity.
    + cbn [k_branch x_stmt]. rewrite !er_stmt_block, (IHb _ (o' + length c1 + 1)). reflexivity.
  - intros o o'. reflexivity.
  - intros s IHs r IHr o o'. cbn [k_stmts x_stmts er_stmts]. rewrite (proj1 (IHs 0 0)), (IHr _ (o' + length (fl_stmt s))). reflexivity.
Qed.

Lemma er_x_param p : er_paramdecl (x_param (k_param p)) = er_paramdecl (x_param p).
Proof. destruct p; cbn [k_param x_param er_paramdecl option_map er_oty]; rewrite (er_x_type _ 0 0); reflexivity. Qed.

Lemma er_x_vardecl v : er_vardecl (x_vardecl (k_vardecl v)) = er_vardecl (x_vardecl v).
Proof. unfold x_vardecl, k_vardecl. cbn [v_c1 v_c2 v_x v_c3 v_t v_c4 er_vardecl option_map er_oty]. rewrite (er_x_type _ 0 0). reflexivity. Qed.

Lemma er_x_vardecls l : forall o o', er_vars (x_vardecls o (map k_vardecl l)) = er_vars (x_vardecls o' l).
Proof.
  induction l as [|v r IH]; intros o o'; [reflexivity|]. cbn [map x_vardecls]. unfold er_vars in *. cbn [map fst].
  rewrite er_x_vardecl. f_equal. apply IH.
Qed.

Lemma er_x_decl d : er_gdecl (x_decl (k_decl d)) = er_gdecl (x_decl d).
Proof.
  destruct d as [c1 c2 x c3 t c4|c1 c2 x c3 ps c4 c5 vs b c6]; cbn [k_decl x_decl er_gdecl]; cbv zeta; f_equal.
  - unfold er_typedecl. cbn [td_name td_ty td_info option_map er_oty]. rewrite (er_x_type _ 0 0). reflexivity.
  - unfold er_procdecl. cbn [pd_name pd_params pd_vars pd_stmts pd_info option_map]. f_equal.
    + unfold er_params. apply (er_x_sep fl_param x_param k_param er_paramdecl ps _ _ er_x_param).
    + apply er_x_vardecls.
    + apply er_x_stmt.
Qed.

(* the canonical comment texts change doc fields only *)
Lemma er_nodoc g : er_gdecl (nodoc_gdecl g) = er_gdecl g.
Proof.
  destruct g as [d|d|i]; [reflexivity| |reflexivity]. cbn [nodoc_gdecl er_gdecl]. f_equal. unfold er_procdecl.
  cbn [pd_name pd_params pd_vars pd_stmts pd_info]. f_equal.
  - unfold er_params. rewrite map_map. apply map_ext. intros [p o]. cbn [fst]. destruct p; reflexivity.
  - unfold er_vars. rewrite map_map. apply map_ext. intros [v o]. cbn [fst]. destruct v; reflexivity.
Qed.

Definition kc (d : adecl) : adecl := c_decl (k_decl d).

Lemma er_x_kc d : er_gdecl (x_decl (kc d)) = er_gdecl (x_decl d).
Proof. unfold kc. rewrite <- er_nodoc, x_decl_canon, er_nodoc. apply er_x_decl. Qed.

(* ================================================================================================
   2. The declaration ranges of the two trees correspond one to one
   ================================================================================================ *)
Fixpoint rngs (o : nat) (l : list adecl) : list range :=
  match l with [] => [] | d :: r => (o, o + length (fl_decl d)) :: rngs (o + length (fl_decl d)) r end.

Lemma fl_decl_pos d : 0 < length (fl_decl d).
Proof. destruct d; cbn [fl_decl]; rewrite !app_length; cbn [length]; rewrite ?app_length; cbn [length]; lia. Qed.

Lemma rngs_bound l : forall o i r, nth_error (rngs o l) i = Some r -> o <= fst r /\ fst r < snd r.
Proof.
  induction l as [|d l IH]; intros o i r H; [destruct i; discriminate H|]. pose proof (fl_decl_pos d) as Hp.
  destruct i as [|i]; cbn [rngs nth_error] in H.
  - injection H as <-. cbn [fst snd]. lia.
  - destruct (IH _ _ _ H) as [H1 H2]. lia.
Qed.

Lemma rngs_inj l : forall o i j r, nth_error (rngs o l) i = Some r -> nth_error (rngs o l) j = Some r -> i = j.
Proof.
  induction l as [|d l IH]; intros o i j r Hi Hj; [destruct i; discriminate Hi|]. pose proof (fl_decl_pos d) as Hp.
  destruct i as [|i], j as [|j]; cbn [rngs nth_error] in Hi, Hj.
  - reflexivity.
  - injection Hi as <-. destruct (rngs_bound _ _ _ _ Hj) as [H1 _]. cbn [fst] in H1. lia.
  - injection Hj as <-. destruct (rngs_bound _ _ _ _ Hi) as [H1 _]. cbn [fst] in H1. lia.
  - f_equal. exact (IH _ _ _ _ Hi Hj).
Qed.

Section Rho.
Variables (la lb : list adecl).

Definition rho (r r' : range) : Prop :=
  (r = (0, 0) /\ r' = (0, 0)) \/ exists i, nth_error (rngs 0 la) i = Some r /\ nth_error (rngs 0 lb) i = Some r'.

Lemma rho_inj a a' b b' : rho a a' -> rho b b' -> (a = b <-> a' = b').
Proof.
  intros [[-> ->]|(i & Hi & Hi')] [[-> ->]|(j & Hj & Hj')].
  - split; reflexivity.
  - destruct (rngs_bound _ _ _ _ Hj) as [_ H1]. destruct (rngs_bound _ _ _ _ Hj') as [_ H2].
    split; intros <-; cbn [fst snd] in *; lia.
  - destruct (rngs_bound _ _ _ _ Hi) as [_ H1]. destruct (rngs_bound _ _ _ _ Hi') as [_ H2].
    split; intros ->; cbn [fst snd] in *; lia.
  - split; intros E; subst.
    + assert (i = j) by exact (rngs_inj la 0 i j _ Hi Hj). subst j. congruence.
    + assert (i = j) by exact (rngs_inj lb 0 i j _ Hi' Hj'). subst j. congruence.
Qed.
End Rho.

Lemma drange_x d o : drange (x_decl d, o) = (o, o + length (fl_decl d)).
Proof. unfold drange. destruct d; cbn [fst snd x_decl gdecl_info td_info pd_info]; cbv zeta; unfold info_range, shift_range, mkinfo; cbn [i_s i_e fst snd]; f_equal; lia. Qed.

Lemma decls_dsim (R : range -> range -> Prop) l : forall o o',
  (forall i r r', nth_error (rngs o l) i = Some r -> nth_error (rngs o' (map kc l)) i = Some r' -> R r r') ->
  Forall2 (dsim R) (x_decls o l) (x_decls o' (map kc l)).
Proof.
  induction l as [|d l IH]; intros o o' H; [constructor|]. cbn [map x_decls]. constructor.
  - split; [cbn [fst]; symmetry; apply er_x_kc|]. rewrite !drange_x. apply (H 0); reflexivity.
  - apply IH. intros i r r' Hi Hi'. apply (H (S i)); assumption.
Qed.

(* ================================================================================================
   3. Same messages
   ================================================================================================ *)
Lemma lookup_in {V} (t : list (text * V)) k v : lookup t k = Some v -> exists k', In (k', v) t.
Proof.
  induction t as [|[k1 v1] r IH]; [discriminate|]. cbn [lookup]. destruct (text_eqb k1 k).
  - intros E. injection E as <-. exists k1. left. reflexivity.
  - intros E. destruct (IH E) as [k' Hk]. exists k'. right. exact Hk.
Qed.

Lemma initialized_ranges k pe : lookup initialized k = Some (GProcE pe) -> pe_range pe = (0, 0).
Proof.
  intros H. destruct (lookup_in _ _ _ H) as [k' Hin]. unfold initialized in Hin. cbn [In] in Hin.
  repeat (destruct Hin as [Hin|Hin]; [unfold procedure_entry in Hin; try discriminate Hin; injection Hin as _ <-; reflexivity|]).
  destruct Hin.
Qed.

Lemma new_doc_inv t toks p d :
  lex t = Some toks -> parse toks = Done p -> new_doc_res t = ODone d ->
  exists p1 tb p2, build_res p = ROk (p1, tb) /\ analyze_res p1 tb = ROk p2 /\ d_ast d = p2 /\ d_toks d = toks.
Proof.
  intros El Ep H. unfold new_doc_res in H. rewrite El, Ep in H.
  destruct (build_res p) as [[p1 tb]|s]; [|discriminate H]. destruct (analyze_res p1 tb) as [p2|s] eqn:E; [|discriminate H].
  injection H as <-. exists p1, tb, p2. repeat split. exact E.
Qed.

Theorem same_messages_any p doc toks ins ts :
  prog_ok p = true -> aprog_valid p = true -> lex doc = Some toks -> map tk toks = flatten p ++ [Eof] ->
  exists txt d d',
    formatted_text doc ins ts = Done txt /\
    new_doc_res doc = ODone d /\ new_doc_res txt = ODone d' /\
    map e_m (tree_errors (d_ast d')) = map e_m (tree_errors (d_ast d)) /\
    forall l, doc_errors_res d = ROk l -> exists l', doc_errors_res d' = ROk l' /\ map snd l' = map snd l.
Proof.
  intros Hok Hv El Hk.
  destruct (document_kept p doc toks ins ts Hok Hv El Hk) as (txt & toks' & Ef & El' & Ek').
  set (q := c_prog (kept p)).
  assert (Hkq : map tk toks' = flatten q ++ [Eof]) by (unfold q; rewrite flatten_canon; exact Ek').
  assert (Hokq : prog_ok q = true) by (unfold q; rewrite prog_ok_canon, kept_prog_ok; exact Hok).
  destruct (new_doc_total doc) as [d Hd]. destruct (new_doc_total txt) as [d' Hd'].
  destruct (new_doc_inv doc toks _ d El (GrammarProg.roundtrip p toks Hok Hk) Hd) as (p1 & tb & p2 & B1 & A1 & Ea & Et).
  destruct (new_doc_inv txt toks' _ d' El' (GrammarProg.roundtrip q toks' Hokq Hkq) Hd') as (p1' & tb' & p2' & B1' & A1' & Ea' & Et').
  set (R := rho (a_decls p) (a_decls q)).
  assert (Rinj : forall a a' b b', R a a' -> R b b' -> (a = b <-> a' = b')) by (apply rho_inj).
  assert (Hdq : a_decls q = map kc (a_decls p)).
  { unfold q, c_prog, kept. cbn [a_decls]. rewrite map_map. reflexivity. }
  assert (P0 : prsim R (expected p) (expected q)).
  { split; [|reflexivity]. unfold expected. cbn [pg_decls]. rewrite Hdq. apply decls_dsim.
    intros i r r' Hi Hi'. right. exists i. rewrite Hdq. split; assumption. }
  assert (T0 : tsim R initialized initialized).
  { split; [reflexivity|]. intros k pe pe' L1 L2. rewrite (initialized_ranges k pe L1), (initialized_ranges k pe' L2). left. split; reflexivity. }
  unfold build_res in B1, B1'.
  destruct (build_program_2 R _ _ _ _ _ _ P0 T0 B1 B1') as [P1 T1]. cbn [fst snd] in P1, T1.
  pose proof (analyze_res_2 R Rinj _ _ _ _ _ _ P1 T1 A1 A1') as P2.
  pose proof (prsim_msgs R _ _ P2) as Hm. rewrite <- Ea, <- Ea' in Hm.
  exists txt, d, d'. split; [exact Ef|]. split; [exact Hd|]. split; [exact Hd'|]. split; [symmetry; exact Hm|].
  intros l Hl. destruct (doc_errors_total txt d' Hd') as [l' Hl']. exists l'. split; [exact Hl'|].
  unfold doc_errors_res in Hl, Hl'. rewrite (byte_ranges_msgs _ _ _ Hl), (byte_ranges_msgs _ _ _ Hl'). symmetry. exact Hm.
Qed.

Print Assumptions same_messages_any.
