(* C15, the last side condition: in every tree the parser returns - for ALL token lists, valid
   program or not - the name of a global declaration ends with an identifier token
   ([decls_names_b]), hence every document of AnalyzedSource::new satisfies [doc_wf_b].

   Proved directly along the path program -> many0(Reference(global declaration)) -> type /
   procedure declaration -> expect(ident):
   - [p_ident] builds its node from an `Ident` token: started in a state s whose reference position
     does not lie behind the input position, the node's range ends (relative to refp s) one behind
     that token, i.e. the token at absolute index refp s + i_e - 1 is the identifier;
   - the comments and the keyword in front of the name move the position forward only and keep
     refp, so the name of a declaration parsed from s satisfies [name_is_ident toks (refp s)];
   - [p_ref] starts the declaration with refp := pos and returns the offset pos - refp; at the top
     level refp = 0 before and after every element of the many0, so the offset IS the absolute
     position the declaration was started at;
   - the table build and the semantic analysis keep offsets and name ranges ([shape],
     SemTokProofs [new_doc_parts]). *)
From Coq Require Import Arith Lia List Bool.
From Spl Require Import Model.Parser Proofs.ParserComb Model.SemTok Proofs.SemTokProofs.
Import ListNotations.
Local Open Scope nat_scope.

Section Names.
Variable toks : list token.

(* the heart: the identifier node of [p_ident] ends with the `Ident` token it was made from *)
Lemma p_ident_name s s' i :
  refp s <= pos s -> p_ident toks s = POk s' i -> name_is_ident toks (refp s) (Some i) = true.
Proof.
  intros Hr E. unfold p_ident in E. apply p_map_ok in E as ([t inf] & E & ->).
  apply p_info_ok in E as (s1 & E & _ & Hinf). cbn [fst snd] in *.
  apply p_tag_ok in E as (Ht & Hf & ->). subst inf. cbn [pos set_ebuf] in Ht.
  cbn [name_is_ident id_info i_s i_e pos adv set_ebuf refp].
  pose proof (sig_at_ge toks (pos s)) as Hge.
  destruct (Nat.ltb (pos s - refp s) (pos s + (S (sig_at toks (pos s)) - pos s) - refp s)); [|reflexivity].
  replace (refp s + (pos s + (S (sig_at toks (pos s)) - pos s) - refp s) - 1) with (sig_at toks (pos s)) by lia.
  rewrite Ht. exact Hf.
Qed.

Lemma p_expect_ident_name s s' m o :
  refp s <= pos s -> p_expect (p_ident toks) m s = POk s' o -> name_is_ident toks (refp s) o = true.
Proof.
  intros Hr E. apply p_expect_ok in E as [(a & E & ->)|(e & _ & _ & ->)]; [|reflexivity].
  exact (p_ident_name _ _ _ Hr E).
Qed.

(* a declaration: comments, keyword, then the expected name *)
Lemma p_typedecl_name f s s' d :
  refp s <= pos s -> p_typedecl toks f s = POk s' d -> name_is_ident toks (refp s) (td_name d) = true.
Proof.
  intros Hr E. unfold p_typedecl in E. apply p_map_ok in E as (r & E & ->).
  destruct r as [[doc [kw [name [eq [ty semi]]]]] inf].
  apply p_info_ok in E as (s1 & E & _ & _). cbn [fst] in E.
  apply p_pair_ok in E as (s2 & E2 & E). cbn [fst snd] in E2, E.
  apply p_comments_ok in E2 as [-> _].
  apply p_pair_ok in E as (s3 & E3 & E). cbn [fst snd] in E3, E.
  apply p_tag_ok in E3 as (_ & _ & ->).
  apply p_pair_ok in E as (s4 & E4 & _). cbn [fst snd] in E4.
  cbn [td_name]. apply p_expect_ident_name in E4; [exact E4|].
  cbn [pos refp adv set_ebuf]. lia.
Qed.

Lemma p_procdecl_name f s s' d :
  refp s <= pos s -> p_procdecl toks f s = POk s' d -> name_is_ident toks (refp s) (pd_name d) = true.
Proof.
  intros Hr E. unfold p_procdecl in E. apply p_map_ok in E as (r & E & ->).
  destruct r as [[doc [kw [name [lp [params [rp [lc [vars [stmts rc]]]]]]]]] inf].
  apply p_info_ok in E as (s1 & E & _ & _). cbn [fst] in E.
  apply p_pair_ok in E as (s2 & E2 & E). cbn [fst snd] in E2, E.
  apply p_comments_ok in E2 as [-> _].
  apply p_pair_ok in E as (s3 & E3 & E). cbn [fst snd] in E3, E.
  apply p_tag_ok in E3 as (_ & _ & ->).
  apply p_pair_ok in E as (s4 & E4 & _). cbn [fst snd] in E4.
  cbn [pd_name]. apply p_expect_ident_name in E4; [exact E4|].
  cbn [pos refp adv set_ebuf]. lia.
Qed.

Lemma p_gdecl_name f s s' g :
  refp s <= pos s -> p_gdecl toks f s = POk s' g -> name_is_ident toks (refp s) (gdecl_name g) = true.
Proof.
  intros Hr E. unfold p_gdecl in E.
  apply p_alt_ok in E as [E|[_ E]].
  { apply p_map_ok in E as (d & E & ->). cbn [gdecl_name]. exact (p_typedecl_name _ _ _ _ Hr E). }
  apply p_alt_ok in E as [E|[_ E]].
  { apply p_map_ok in E as (d & E & ->). cbn [gdecl_name]. exact (p_procdecl_name _ _ _ _ Hr E). }
  apply p_map_ok in E as ([ignored inf] & _ & ->). reflexivity.
Qed.

(* Reference::parse at the top level (refp = 0): the offset is the absolute start position *)
Lemma p_ref_gdecl_name f s s' g off :
  refp s = 0 -> p_ref (p_gdecl toks f) s = POk s' (g, off) ->
  name_is_ident toks off (gdecl_name g) = true /\ refp s' = 0.
Proof.
  intros Hr E. apply p_ref_ok in E as (s1 & E & -> & Hoff). cbn [fst snd] in E, Hoff.
  split; [|exact Hr]. apply p_gdecl_name in E; [|cbn [refp pos set_refp]; lia].
  cbn [refp set_refp] in E. rewrite Hr, Nat.sub_0_r in Hoff. now subst off.
Qed.

Lemma p_many0_gdecl_names f fuel : forall s s' l,
  refp s = 0 -> p_many0 fuel (p_ref (p_gdecl toks f)) s = POk s' l -> decls_names_b toks l = true.
Proof.
  induction fuel as [|n IH]; intros s s' l Hr E; cbn [p_many0] in E; [discriminate|].
  destruct (p_ref (p_gdecl toks f) s) as [s1 [g off]|e|] eqn:E1; [| injection E as _ <-; reflexivity | discriminate].
  destruct (Nat.eqb (pos s1) (pos s)); [discriminate|].
  apply bind_ok in E as (s2 & l2 & E2 & [= _ <-]).
  destruct (p_ref_gdecl_name _ _ _ _ _ Hr E1) as [Hn Hr1].
  cbn [decls_names_b]. rewrite Hn. cbn [andb]. exact (IH _ _ _ Hr1 E2).
Qed.

Lemma p_program_names f s s' p :
  refp s = 0 -> p_program toks f s = POk s' p -> decls_names_b toks (pg_decls p) = true.
Proof.
  intros Hr E. unfold p_program in E. apply p_map_ok in E as ([[ds inf] u] & E & ->).
  apply p_pair_ok in E as (s1 & E & _). cbn [fst snd] in E.
  apply p_info_ok in E as (s2 & E & _ & _). cbn [fst] in E.
  cbn [pg_decls fst]. exact (p_many0_gdecl_names _ _ (set_ebuf s []) _ _ Hr E).
Qed.

End Names.

(* every tree `parse` returns - for ANY token list - names its declarations by identifier tokens *)
Theorem parse_names toks prog : parse toks = Done prog -> decls_names_b toks (pg_decls prog) = true.
Proof.
  unfold parse.
  destruct (p_program toks (parse_fuel toks) {| pos := 0; refp := 0; ebuf := [] |}) as [s p|e|] eqn:E;
    [|discriminate|discriminate].
  intros [= <-]. exact (p_program_names toks _ {| pos := 0; refp := 0; ebuf := [] |} _ _ eq_refl E).
Qed.

(* [decls_names_b] looks at offsets and name ranges only *)
Lemma decls_names_b_shape toks : forall l1 l2,
  map shape l1 = map shape l2 -> decls_names_b toks l1 = decls_names_b toks l2.
Proof.
  induction l1 as [|[g1 o1] r1 IH]; intros [|[g2 o2] r2] H; cbn [map] in H; try discriminate; [reflexivity|].
  injection H as Ho Hs1 He1 Hn Hr. cbn [fst snd] in Ho, Hn. subst o2.
  cbn [decls_names_b]. now rewrite (name_is_ident_shape toks o1 _ _ Hn), (IH r2 Hr).
Qed.

(* for every text: the declaration names of the analysed document end with identifier tokens *)
Theorem new_doc_names t d :
  new_doc t = Done d -> decls_names_b (d_toks d) (pg_decls (d_ast d)) = true.
Proof.
  intros Hn. destruct (new_doc_parts t d Hn) as (_ & _ & p & Ep & Hs & _).
  rewrite (decls_names_b_shape _ _ _ Hs). exact (parse_names _ _ Ep).
Qed.

(* ... so every document of AnalyzedSource::new is well-formed *)
Theorem new_doc_wf_total t d : new_doc t = Done d -> doc_wf_b d = true.
Proof. intros Hn. rewrite (new_doc_wf t d Hn). exact (new_doc_names t d Hn). Qed.

(* the unconditional versions of SemTokProofs [new_doc_stream] / [new_doc_complete] *)
Theorem new_doc_stream_total t d :
  new_doc t = Done d ->
  exists data,
    semantic_tokens d = SOk data /\
    decode data = map (tok_view t) (emitted d) /\
    Subseq (map fst (emitted d)) (d_toks d) /\
    Sorted.StronglySorted (fun a b => pos_lt (at_pos a) (at_pos b)) (decode data) /\
    Forall lex_ok (emitted d) /\
    (forall j k c, nth_error (d_toks d) j = Some k -> map_class (tk k) = Some c -> In (k, c) (emitted d)).
Proof. intros Hn. exact (new_doc_stream t d Hn (new_doc_names t d Hn)). Qed.

Theorem new_doc_complete_total t d data :
  new_doc t = Done d -> semantic_tokens d = SOk data ->
  forall j k c, nth_error (d_toks d) j = Some k -> map_class (tk k) = Some c ->
                In (tok_view (d_text d) (k, c)) (decode data).
Proof. intros Hn. exact (new_doc_complete t d data Hn (new_doc_names t d Hn)). Qed.
