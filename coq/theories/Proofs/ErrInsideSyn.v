(* C05, positions of the syntax errors: the invariant of ErrInsideNodes.v for every non-terminal of the
   parser (Model/Parser.v), for every token list and every fuel. *)
From Coq Require Import Arith Lia List.
From Spl Require Import Model.Parser Model.Errors Proofs.ParserComb Proofs.ParserEqns Proofs.ParserFwd Proofs.ParserDecl
  Proofs.ErrInsideNodes.
Import ListNotations.
Local Open Scope nat_scope.

Lemma shift_es_add' a b l : shift_es (a + b) l = shift_es b (shift_es a l).
Proof.
  unfold shift_es. rewrite map_map. apply map_ext. intros [s e m]. unfold shift_e. cbn [e_s e_e e_m].
  now rewrite !Nat.add_assoc.
Qed.

Section NonTerminals.
Variable toks : list token.
Notation InvT := (Inv toks).
Notation ProgT := (Prog toks).

Lemma Inv_ident : InvT er_ident false (p_ident toks).
Proof. unfold p_ident. inv toks. Qed.

Lemma Inv_intlit : InvT er_intlit false (p_intlit toks).
Proof. unfold p_intlit. inv toks. Qed.

Definition ExprPost (off : nat) : nat -> expr -> Prop := QE er_expr off.

Lemma Inv_at {A} (H : Er A) b (p : parser A) off : InvT H b p -> InvAt toks b off (QE H off) p.
Proof. intros Hp. apply Hp. Qed.

Lemma rhs_post (p : parser expr) lhs op off s r :
  InvT er_expr false p ->
  GoodS toks true s -> refp s = off -> r <= off -> EB r s ->
  (forall X, pos s <= X -> ExprPost off X lhs) ->
  postc toks s r (ExprPost off) (p_rhs p lhs op s).
Proof.
  intros Hp G Ho Hr Hb Hl. unfold p_rhs.
  apply postc_bind with (P := QE (er_opt er_expr) off).
  { apply (Inv_expect toks er_expr p (ExpectedToken s_expression) (Inv_sub toks er_expr true p Hp) off s r G Ho Hr Hb). }
  intros s1 rhs S1 B1 Pr. apply postc_ret; [apply S1 | exact B1|].
  intros X HX. unfold ExprPost, QE, er_expr in *. cbn [expr_errors i_errs mkinfo app].
  apply Forall_app. split; [apply Hl; destruct S1 as (S1 & _); lia|].
  specialize (Pr X HX). unfold er_opt in Pr. destruct rhs as [e|]; [exact Pr | constructor].
Qed.

Lemma var_fold_incl accesses : forall v0 vinfo,
  incl (var_errors (fold_left (fun v (a : (option (expr * nat) * option token) * info) =>
                                 ArrAccess v (fst (fst a)) (extend_range (snd a) vinfo)) accesses v0))
       (var_errors v0 ++ flat_map (er_pair (er_pair (er_opt (er_ref er_expr)) (er_opt er_token)) er_info) accesses).
Proof.
  induction accesses as [|[[idx t] inf] rest IH]; intros v0 vinfo; cbn [fold_left flat_map].
  - rewrite app_nil_r. apply incl_refl.
  - eapply incl_tran; [apply IH|]. cbn [fst snd var_errors extend_range i_errs].
    unfold er_pair, er_opt, er_ref, er_expr, er_token, er_info. cbn [fst snd].
    destruct idx as [[e o]|]; cbn [fst snd]; intros x Hx; repeat rewrite in_app_iff in *; tauto.
Qed.

Lemma Inv_expr_all f :
  InvT er_variable false (p_variable toks f) /\ InvT er_expr false (p_primary toks f) /\ InvT er_expr false (p_factor toks f) /\
  (forall b off s r e, GoodS toks b s -> refp s = off -> r <= off -> EB r s -> (forall X, pos s <= X -> ExprPost off X e) ->
                       postc toks s r (ExprPost off) (mul_loop toks f s e)) /\
  InvT er_expr false (p_mul toks f) /\
  (forall b off s r e, GoodS toks b s -> refp s = off -> r <= off -> EB r s -> (forall X, pos s <= X -> ExprPost off X e) ->
                       postc toks s r (ExprPost off) (add_loop toks f s e)) /\
  InvT er_expr false (p_add toks f) /\
  InvT er_expr false (p_comparison toks f).
Proof.
  induction f as [|f (IHvar & IHpri & IHfac & IHml & IHmul & IHal & IHadd & IHcmp)].
  - repeat split; try (intros b off s r e _ _ _ _ _; exact I); apply Inv_fuel.
  - pose proof Inv_ident as Hid. pose proof Inv_intlit as Hil. pose proof (Prog_ident toks) as Pid.
    repeat split.
    + rewrite p_variable_S. intros off. eapply InvAt_bind; [apply Inv_at; inv toks|].
      intros [[v0 vinfo] acc] s1 r G1 Ho1 Hr1 B1 Pa. apply postc_ret; [apply G1 | exact B1|].
      intros X HX. specialize (Pa X HX). unfold QE in *. eapply Forall_incl; [|exact Pa].
      change (er_variable ?v) with (var_errors v). eapply incl_tran; [apply var_fold_incl|].
      er_unf. cbn [fst snd]. intros x Hx. repeat rewrite in_app_iff in *. tauto.
    + rewrite p_primary_S. apply (Inv_alt toks); [inv toks|]. apply (Inv_alt toks); [inv toks|].
      intros off. eapply InvAt_bind; [apply Inv_at; inv toks|].
      intros [[[x lp] [e y]] inf] s1 r G1 Ho1 Hr1 B1 Pa. apply postc_ret; [apply G1 | exact B1|].
      intros X HX. specialize (Pa X HX). unfold QE in *. eapply Forall_incl; [|exact Pa].
      er_unf. cbn [fst snd expr_errors].
      destruct e as [e|]; cbn [expr_errors mkinfo i_errs]; intros z Hz; repeat rewrite in_app_iff in *; tauto.
    + rewrite p_factor_S. apply (Inv_alt toks); [exact IHpri|]. inv toks.
    + intros b off s r e G Ho Hr Hb He. rewrite mul_loop_S.
      apply (tag_loop_post toks b off (ExprPost off) is_mulop
               (fun s1 op => bind (p_rhs (p_factor toks f) e (op_of (tk op)) s1) (fun s2 e' => mul_loop toks f s2 e')) e s r G Ho Hr Hb He).
      intros t s1 G1 Ho1 B1 Hle. apply postc_bind with (P := ExprPost off).
      * apply rhs_post; try assumption. intros X HX. apply He. lia.
      * intros s2 e2 S2 B2 P2. apply (IHml true off); try assumption.
        -- eapply St_good; eassumption.
        -- destruct S2 as (_ & _ & E2). congruence.
    + rewrite p_mul_S. intros off. apply InvAt_bind with (P := ExprPost off); [apply IHfac|].
      intros a s1 r G1 Ho1 Hr1 B1 Pa. now apply (IHml false off).
    + intros b off s r e G Ho Hr Hb He. rewrite add_loop_S.
      apply (tag_loop_post toks b off (ExprPost off) is_addop
               (fun s1 op => bind (p_rhs (p_mul toks f) e (op_of (tk op)) s1) (fun s2 e' => add_loop toks f s2 e')) e s r G Ho Hr Hb He).
      intros t s1 G1 Ho1 B1 Hle. apply postc_bind with (P := ExprPost off).
      * apply rhs_post; try assumption. intros X HX. apply He. lia.
      * intros s2 e2 S2 B2 P2. apply (IHal true off); try assumption.
        -- eapply St_good; eassumption.
        -- destruct S2 as (_ & _ & E2). congruence.
    + rewrite p_add_S. intros off. apply InvAt_bind with (P := ExprPost off); [apply IHmul|].
      intros a s1 r G1 Ho1 Hr1 B1 Pa. now apply (IHal false off).
    + rewrite p_comparison_S. intros off. apply InvAt_bind with (P := ExprPost off); [apply IHadd|].
      intros a s1 r G1 Ho1 Hr1 B1 Pa.
      apply (tag_loop_post toks false off (ExprPost off) is_cmpop
               (fun s2 op => p_rhs (p_add toks f) a (op_of (tk op)) s2) a s1 r G1 Ho1 Hr1 B1 Pa).
      intros t s2 G2 Ho2 B2 Hle. apply rhs_post; try assumption. intros X HX. apply Pa. lia.
Qed.

Lemma Inv_variable f : InvT er_variable false (p_variable toks f). Proof. apply Inv_expr_all. Qed.
Lemma Inv_comparison f : InvT er_expr false (p_comparison toks f). Proof. apply Inv_expr_all. Qed.
Lemma Inv_expr f : InvT er_expr false (p_expr toks f). Proof. apply Inv_comparison. Qed.

Lemma Inv_texpr f : InvT er_texpr false (p_texpr toks f).
Proof.
  pose proof Inv_ident as Hid. pose proof Inv_intlit as Hil.
  induction f as [|f IH]; [apply Inv_fuel|]. rewrite p_texpr_S. apply (Inv_alt toks); inv toks.
Qed.

Lemma Inv_list {A} (H : Er A) b fuel (p : parser A) :
  InvT H false p -> InvT (er_list (er_ref H)) b (p_list toks fuel p).
Proof.
  intros Hp. unfold p_list. intros off.
  apply InvAt_bind with (P := QE (er_ref H) off); [apply (Inv_ref toks), Hp|].
  intros head s1 r G1 Ho1 Hr1 B1 Ph.
  apply postc_bind with (P := QE (er_list (er_ref H)) off).
  - apply (Inv_many0 toks (er_ref H) b fuel); [|assumption..].
    eapply (Inv_map toks (er_ref (er_ref H))); [inv toks|].
    intros [[a o1] o2]. unfold er_ref. cbn [fst snd]. rewrite (Nat.add_comm o2 o1).
    rewrite shift_es_add'. apply incl_refl.
  - intros s2 tail S2 B2 Pt. apply postc_ret; [apply S2 | exact B2|].
    intros X HX. unfold QE, er_list in *. cbn [flat_map]. apply Forall_app. split; [apply Ph | apply Pt, HX].
    destruct S2 as (S2 & _). lia.
Qed.

Lemma soft_expression a b : soft {| e_s := a; e_e := b; e_m := EParse (ExpectedToken s_expression) |}.
Proof. right. reflexivity. Qed.
Lemma soft_paramdec a b : soft {| e_s := a; e_e := b; e_m := EParse (ExpectedToken s_paramdec) |}.
Proof. left. reflexivity. Qed.

Lemma Inv_argument f : InvT er_expr false (p_argument toks f).
Proof.
  pose proof (Inv_expr f). unfold p_argument. apply (Inv_alt toks); [inv toks|].
  apply (Inv_selferr toks er_expr false (p_ignore0 toks (la_arg toks))
           (fun r => EErr (info_append (snd r) {| e_s := i_s (snd r); e_e := i_e (snd r); e_m := EParse (ExpectedToken s_expression) |})));
    [apply Quiet_ignore0|].
  intros a inf. eexists. split; [reflexivity | right; apply soft_expression].
Qed.

Lemma Inv_call f : InvT er_stmt false (p_call toks f).
Proof.
  pose proof Inv_ident as Hid. pose proof (Prog_ident toks) as Pid.
  pose proof (Inv_list _ true f _ (Inv_argument f)) as Hl. pose proof (Inv_list _ false f _ (Inv_argument f)) as Hl'.
  unfold p_call. inv toks.
Qed.

Lemma Inv_assign f : InvT er_stmt false (p_assign toks f).
Proof.
  pose proof (Inv_variable f). pose proof (Inv_expr f). pose proof (Prog_variable toks f).
  unfold p_assign. inv toks.
Qed.

Lemma Inv_stmt f : InvT er_stmt false (p_stmt toks f).
Proof.
  induction f as [|f IH]; [apply Inv_fuel|]. rewrite p_stmt_S.
  pose proof (Inv_expr f). pose proof (Inv_call f). pose proof (Inv_assign f).
  apply (Inv_alt toks); [inv toks|]. apply (Inv_alt toks); [inv toks|]. apply (Inv_alt toks); [inv toks|].
  apply (Inv_alt toks).
  { eapply (Inv_map toks); [inv toks|]. intros [[body t] inf]. cbn [fst snd].
    change (er_stmt (SBlock body inf)) with (stmt_errors (SBlock body inf)). rewrite block_errors.
    er_unf. cbn [fst snd]. intros x Hx. repeat rewrite in_app_iff in *. tauto. }
  apply (Inv_alt toks); [assumption|]. apply (Inv_alt toks); [assumption|].
  apply (Inv_restore toks).
  apply (Inv_selferr toks er_stmt false (p_pair (p_comments toks) (p_ignore1 toks (la_stmt toks)))
           (fun r => let '((_, ignored), inf) := r in
                     SError (info_append inf {| e_s := i_s inf; e_e := i_e inf;
                                                e_m := EParse (UnexpectedCharacters (show_tokens ignored)) |}))).
  - apply Quiet_pair; [apply Quiet_comments | apply Quiet_ignore1].
  - intros [c ig] inf. eexists. split; [reflexivity | left]. apply Prog_pair_comments, Prog_ignore1.
Qed.

Lemma Inv_vardecl f : InvT er_vardecl false (p_vardecl toks f).
Proof.
  pose proof Inv_ident as Hid. pose proof (Inv_texpr f). unfold p_vardecl. apply (Inv_alt toks); [inv toks|].
  apply (Inv_selferr toks er_vardecl false (p_ignore1 toks (la_var_dec toks))
           (fun r => VError (info_append (snd r) {| e_s := i_s (snd r); e_e := i_e (snd r); e_m := EParse (ExpectedToken s_vardec) |})));
    [apply Quiet_ignore1|].
  intros a inf. eexists. split; [reflexivity | left; apply Prog_ignore1].
Qed.

Lemma Inv_paramdecl f : InvT er_paramdecl false (p_paramdecl toks f).
Proof.
  pose proof Inv_ident as Hid. pose proof (Inv_texpr f). pose proof (Prog_ident toks) as Pid.
  unfold p_paramdecl. apply (Inv_alt toks); [inv toks|].
  apply (Inv_selferr toks er_paramdecl false (p_ignore0 toks (la_param toks))
           (fun r => PError (info_append (snd r) {| e_s := i_s (snd r); e_e := i_e (snd r); e_m := EParse (ExpectedToken s_paramdec) |})));
    [apply Quiet_ignore0|].
  intros a inf. eexists. split; [reflexivity | right; apply soft_paramdec].
Qed.

Lemma Inv_typedecl f : InvT er_typedecl false (p_typedecl toks f).
Proof. pose proof Inv_ident as Hid. pose proof (Inv_texpr f). unfold p_typedecl. inv toks. Qed.

Lemma Inv_procdecl f : InvT er_procdecl false (p_procdecl toks f).
Proof.
  pose proof Inv_ident as Hid. pose proof (Inv_list _ true f _ (Inv_paramdecl f)) as Hl. pose proof (Inv_list _ false f _ (Inv_paramdecl f)) as Hl'.
  pose proof (Inv_vardecl f). pose proof (Inv_stmt f). unfold p_procdecl. inv toks.
Qed.

Lemma Inv_gdecl f : InvT er_gdecl false (p_gdecl toks f).
Proof.
  pose proof (Inv_typedecl f). pose proof (Inv_procdecl f). unfold p_gdecl.
  apply (Inv_alt toks); [inv toks|]. apply (Inv_alt toks); [inv toks|].
  apply (Inv_selferr toks er_gdecl false (p_ignore1 toks (la_global toks))
           (fun r => let '(ignored, inf) := r in
                     GError (info_append inf {| e_s := i_s inf; e_e := i_e inf;
                                                e_m := EParse (UnexpectedCharacters (show_tokens ignored)) |}))).
  - apply Quiet_ignore1.
  - intros ig inf. eexists. split; [reflexivity | left; apply Prog_ignore1].
Qed.

End NonTerminals.
