(* C04 - base lemmas: the token stream seen through its kinds, tag parsers, look-ahead predicates, many0. *)
From Coq Require Import List Lia Arith Bool.
From Spl Require Import Spec.Grammar Model.Parser.
Import ListNotations.
Local Open Scope nat_scope.

(* parser states met on valid input always have an empty error buffer *)
Notation mk k r := {| pos := k; refp := r; ebuf := [] |}.

Definition sig (kd : kind) : bool := match kd with Comment _ => false | _ => true end.

Lemma skipn_add {A} (n m : nat) (l : list A) : skipn (n + m) l = skipn m (skipn n l).
Proof.
  revert l; induction n as [|n IH]; intros l; [reflexivity|].
  destruct l as [|x l]; cbn [Nat.add skipn]; [now rewrite skipn_nil | apply IH].
Qed.

Lemma skipn_app_len {A} (l1 l2 : list A) : skipn (length l1) (l1 ++ l2) = l2.
Proof. induction l1; cbn; auto. Qed.

Lemma nth_error_skipn {A} (n m : nat) (l : list A) : nth_error (skipn n l) m = nth_error l (n + m).
Proof.
  revert l; induction n as [|n IH]; intros l; [reflexivity|].
  destruct l as [|x l]; cbn [skipn Nat.add nth_error]; [now destruct m | apply IH].
Qed.

Lemma cm_length c : length (cm c) = length c.
Proof. apply map_length. Qed.

Section Base.
Variable toks : list token.

(* the kinds of the tokens from index k on *)
Definition at_ (k : nat) (l : list kind) : Prop := skipn k (map tk toks) = l.

Lemma at_app k l1 l2 : at_ k (l1 ++ l2) -> at_ (k + length l1) l2.
Proof. unfold at_; intros H. rewrite skipn_add, H. apply skipn_app_len. Qed.

Lemma at_cons k x l : at_ k (x :: l) -> at_ (k + 1) l.
Proof. intros H. apply (at_app k [x] l H). Qed.

Lemma at_cm k c l : at_ k (cm c ++ l) -> at_ (k + length c) l.
Proof. intros H. rewrite <- (cm_length c). now apply at_app. Qed.

Lemma at_cm_cons k c x l : at_ k (cm c ++ x :: l) -> at_ (k + length c + 1) l.
Proof. intros H. now apply at_cons with x, at_cm. Qed.

Lemma at_length k l : at_ k l -> k + length l = length toks \/ (l = [] /\ length toks <= k).
Proof.
  unfold at_; intros <-. rewrite skipn_length, map_length.
  destruct (Nat.le_gt_cases k (length toks)); [left; lia|right]. split; [|lia].
  apply skipn_all2. rewrite map_length; lia.
Qed.

Lemma leading_map (l : list token) c kd rest :
  map tk l = cm c ++ kd :: rest -> sig kd = true -> leading_comments l = c.
Proof.
  revert l; induction c as [|x c IH]; intros [|t l] H Hs; try discriminate; cbn in H; injection H as H1 H2.
  - cbn. rewrite H1. destruct kd; try reflexivity; discriminate.
  - cbn. rewrite H1. f_equal. now apply IH.
Qed.

Lemma comments_at_ok k c kd rest : at_ k (cm c ++ kd :: rest) -> sig kd = true -> comments_at toks k = c.
Proof.
  unfold at_, comments_at; intros H Hs. rewrite skipn_map in H. eapply leading_map; eauto.
Qed.

Lemma tok_at_ok k c kd rest :
  at_ k (cm c ++ kd :: rest) -> exists t, nth_error toks (k + length c) = Some t /\ tk t = kd.
Proof.
  unfold at_; intros H.
  assert (E : nth_error (map tk toks) (k + length c) = Some kd).
  { rewrite <- nth_error_skipn, H, nth_error_app2; rewrite cm_length; [|lia]. now rewrite Nat.sub_diag. }
  rewrite nth_error_map in E. destruct (nth_error toks (k + length c)) as [t|]; [|discriminate].
  exists t; split; [reflexivity|]. now injection E.
Qed.

(* ---- tag parsers ---- *)
Lemma p_tag_at f k r c kd rest :
  at_ k (cm c ++ kd :: rest) -> sig kd = true ->
  exists t, tk t = kd /\
    p_tag toks f (mk k r) = if f kd then POk (mk (k + length c + 1) r) t else PErr (mk k r).
Proof.
  intros H Hs. destruct (tok_at_ok _ _ _ _ H) as (t & Hn & Ht). exists t; split; [exact Ht|].
  unfold p_tag, adv; cbn [pos refp ebuf]. rewrite (comments_at_ok _ _ _ _ H Hs), Hn, Ht.
  destruct (f kd); reflexivity.
Qed.

(* a tag parser that does not match fails (in the state it started from) *)
Lemma p_tag_no f k r c kd rest :
  at_ k (cm c ++ kd :: rest) -> sig kd = true -> f kd = false -> p_tag toks f (mk k r) = PErr (mk k r).
Proof. intros H Hs Hf. destruct (p_tag_at f k r _ _ _ H Hs) as (t & _ & ->). now rewrite Hf. Qed.

(* ---- look-ahead predicates ---- *)
Lemma la_tag_at f k c kd rest : at_ k (cm c ++ kd :: rest) -> sig kd = true -> la_tag toks f k = f kd.
Proof.
  intros H Hs. destruct (tok_at_ok _ _ _ _ H) as (t & Hn & Ht).
  unfold la_tag, sig_at. now rewrite (comments_at_ok _ _ _ _ H Hs), Hn, Ht.
Qed.

Lemma la_ident_then_at f k c kd rest :
  at_ k (cm c ++ kd :: rest) -> sig kd = true ->
  la_ident_then toks f k = if is_ident kd then la_tag toks f (k + length c + 1) else false.
Proof.
  intros H Hs. destruct (tok_at_ok _ _ _ _ H) as (t & Hn & Ht).
  unfold la_ident_then, sig_at. rewrite (comments_at_ok _ _ _ _ H Hs), Hn, Ht.
  now replace (S (k + length c)) with (k + length c + 1) by lia.
Qed.

(* ---- many0 ---- *)
(* [steps p s items s']: p succeeds (consuming) on s, then on the state it returns, ... giving items, ending in s' *)
Inductive steps {A} (p : parser A) : st -> list A -> st -> Prop :=
| steps_nil s : steps p s [] s
| steps_cons s s1 s' a l : p s = POk s1 a -> pos s1 <> pos s -> steps p s1 l s' -> steps p s (a :: l) s'.

Lemma steps_snoc {A} (p : parser A) s l s1 a s2 :
  steps p s l s1 -> p s1 = POk s2 a -> pos s2 <> pos s1 -> steps p s (l ++ [a]) s2.
Proof.
  induction 1; intros; cbn.
  - econstructor; eauto. constructor.
  - econstructor; eauto.
Qed.

Lemma many0_steps {A} (p : parser A) s l s' e g :
  steps p s l s' -> p s' = PErr e -> p_many0 (length l + S g) p s = POk s' l.
Proof.
  induction 1 as [s|s s1 s' a l Hp Hne Hs IH]; intros He; cbn [length Nat.add p_many0].
  - now rewrite He.
  - rewrite Hp. destruct (Nat.eqb_spec (pos s1) (pos s)) as [E|_]; [contradiction|].
    rewrite (IH He). reflexivity.
Qed.

Lemma many0_steps' {A} (p : parser A) s l s' e fuel :
  steps p s l s' -> p s' = PErr e -> length l < fuel -> p_many0 fuel p s = POk s' l.
Proof.
  intros H He Hf. replace fuel with (length l + S (fuel - length l - 1)) by lia. eapply many0_steps; eauto.
Qed.

End Base.
