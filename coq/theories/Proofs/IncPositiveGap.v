(* C01, positive part: a TEXTUAL characterisation of blank edits.  If the change replaces white space by
   white space in a gap between tokens - every token of the old text either ends, with its look-ahead
   byte, before the change, or starts behind the deleted range - then lexer::update answers with an
   EMPTY TokenChange ([gap_blank]). *)
From Coq Require Import List Arith Lia.
From Spl Require Import Model.Update Model.UpdateDoc Spec.LexUpdateSpec Spec.LexSpec Proofs.LexerProofs Proofs.LexLocality Proofs.LexRun
  Proofs.LexUpdateProofs Proofs.UpdateProofs Proofs.UpdateDocProofs Proofs.IncPositive Proofs.IncPositiveDoc.
Import ListNotations.

Definition clear_of (a d : text) (u : token) : Prop :=
  tk u <> Eof -> te u + look_ahead (tk u) <= blen a \/ blen a + blen d <= ts u.

Definition gap_edit (a d ins : text) (toks : list token) : Prop :=
  forallb is_ws d = true /\ forallb is_ws ins = true /\ Forall (clear_of a d) toks.

(* white space in front of a run *)
Lemma run_ws_prepend off w s toks : forallb is_ws w = true -> Run (off + blen w) s toks -> Run off (w ++ s) toks.
Proof.
  intros Hw H. remember (off + blen w) as o eqn:Eo.
  destruct H as [off' ws Hws | off' ws s1 k e lx rest tl Hws Hst E Hr]; subst off'.
  - replace (off + blen w + blen ws) with (off + blen (w ++ ws)) by (rewrite blen_app; lia).
    apply Run_eof. rewrite forallb_app, Hw, Hws. reflexivity.
  - rewrite app_assoc. replace (off + blen w + blen ws) with (off + blen (w ++ ws)) by (rewrite blen_app; lia).
    eapply Run_tok; [rewrite forallb_app, Hw, Hws; reflexivity | exact Hst | exact E|].
    replace (off + blen (w ++ ws) + blen lx) with (off + blen w + blen ws + blen lx) by (rewrite blen_app; lia). exact Hr.
Qed.

Lemma run_single off s x : Run off s [x] -> forallb is_ws s = true.
Proof.
  intros H. inversion H as [o ws Hws | o ws s1 k e lx rest tl Hws Hst E Hr]; subst; [exact Hws|].
  exfalso. exact (run_nonempty _ _ _ Hr eq_refl).
Qed.

Lemma cut_hit reus u l : existsb (token_eqb u) reus = true -> cut reus (u :: l) = [].
Proof. intros H. destruct l as [|x l]; cbn [cut]; [reflexivity|]. rewrite H. reflexivity. Qed.

Theorem gap_blank (a d b ins : text) (told : list token) :
  lex (a ++ d ++ b) = Some told -> gap_edit a d ins told ->
  exists toks w, lex_update (a ++ ins ++ b) told (blen a) (blen a + blen d) ins = UDone toks w w 0.
Proof.
  intros Hlex (Hd & Hins & Hgap). unfold lex in Hlex. apply lex_from_run in Hlex.
  destruct (phaseA a d b ins 0 _ _ Hlex [] a eq_refl eq_refl eq_refl)
    as [head [rest_o [p' [q' [Htoks [Hhead [Ha [Hp' [Hro [Hnew Haff]]]]]]]]]].
  assert (HTn : p' ++ q' ++ ins ++ b = a ++ ins ++ b) by (rewrite Ha, <- app_assoc; reflexivity).
  assert (Hba : blen a = blen p' + blen q') by (rewrite Ha; apply blen_app).
  pose proof (run_tiles _ _ _ Hro) as Htil.
  destruct (tiles_last_eof _ _ _ Htil) as [rb [Hrb Hrbne]].
  pose proof (tiles_ordered _ _ _ Htil) as Hord.
  remember {| tk := Eof; ts := blen p' + blen (q' ++ d ++ b); te := blen p' + blen (q' ++ d ++ b); terr := [] |}
    as eof_o eqn:Heof_o.
  assert (Heo : eof_o = eof_token (blen a + blen d + blen b)).
  { subst eof_o. unfold eof_token. rewrite !blen_app, Hba. f_equal; lia. }
  clear Heof_o.
  assert (Hrbaff : Forall (fun t => is_affected_by t (blen a) = true) rb).
  { destruct rb as [|t rb']; [constructor|]. rewrite Hrb in Haff, Hord. cbn [app] in Haff, Hord.
    assert (Ht : is_affected_by t (blen a) = true).
    { destruct (rb' ++ [eof_o]) eqn:X; [destruct rb'; discriminate | exact Haff]. }
    constructor; [exact Ht|].
    inversion Hord as [|? ? ? O1 O2 O3 O4]; subst.
    pose proof (ordered_lb _ _ O4) as Hlb. pose proof (ordered_pos _ _ O4) as Hpos.
    inversion Hrbne as [|? ? _ Hne']; subst.
    rewrite Forall_forall in *. intros x Hx.
    specialize (Hlb x (in_or_app _ _ _ (or_introl Hx))).
    specialize (Hpos x (in_or_app _ _ _ (or_introl Hx)) (Hne' x Hx)).
    unfold is_affected_by in *. apply N.ltb_lt in Ht. apply N.ltb_lt.
    pose proof (look_ahead_le1 (tk t)). lia. }
  (* every affected token starts behind the deleted range *)
  assert (Hrbge : Forall (fun t => blen a + blen d <= ts t) rb).
  { rewrite Forall_forall in *. intros x Hx.
    assert (Hin : In x told) by (rewrite Htoks, Hrb; apply in_or_app; right; apply in_or_app; left; exact Hx).
    destruct (Hgap x Hin (Hrbne x Hx)) as [H|H]; [|exact H].
    specialize (Hrbaff x Hx). unfold is_affected_by in Hrbaff. apply N.ltb_lt in Hrbaff. lia. }
  (* the new remainder is the old one, shifted *)
  assert (Hshift : exists rest_n, Run (blen p') (q' ++ ins ++ b) rest_n /\
                                  map_opt (shift_token_signed (blen ins) (blen d)) rest_o = Some rest_n).
  { destruct rb as [|t1 rb'].
    - cbn [app] in Hrb. rewrite Hrb in Hro. pose proof (run_single _ _ _ Hro) as Hws.
      rewrite !forallb_app in Hws. apply andb_true_iff in Hws as [Hq Hws]. apply andb_true_iff in Hws as [_ Hb].
      exists [eof_token (blen p' + blen (q' ++ ins ++ b))]. split.
      + apply Run_eof. rewrite !forallb_app, Hq, Hins, Hb. reflexivity.
      + rewrite Hrb. cbn [map_opt]. rewrite Heo.
        rewrite (shift_eof_token (blen ins) (blen d) _ (blen p' + blen (q' ++ ins ++ b))); [reflexivity|].
        rewrite !blen_app. lia.
    - cbn [app] in Hrb.
      destruct (run_visit _ _ _ Hro p' [] t1 (rb' ++ [eof_o]) eq_refl Hrb) as (pg & ws & s_t & Hdec & Hpg & Hws & Hst & Hts & Hrt & _).
      cbn [last_te fold_left] in Hpg.
      apply app_blen_inj in Hdec as [<- Hdec]; [|lia].
      pose proof (Forall_inv Hrbge) as Hge1. cbv beta in Hge1.
      assert (Hsplit : exists b0, ws = (q' ++ d) ++ b0 /\ b = b0 ++ s_t).
      { rewrite app_assoc in Hdec. apply (app_blen_split (q' ++ d) b ws s_t Hdec). rewrite blen_app. lia. }
      destruct Hsplit as (b0 & Hwseq & Hbeq).
      rewrite Hwseq in Hws. rewrite !forallb_app in Hws. apply andb_true_iff in Hws as [Hqd Hb0]. apply andb_true_iff in Hqd as [Hq _].
      assert (Hbl : blen ws = blen q' + blen d + blen b0) by (rewrite Hwseq, !blen_app; lia).
      destruct (run_shift (blen ins) (blen d) _ _ _ Hrt (blen p' + blen (q' ++ ins ++ b0))) as (toks' & Hr' & Hm).
      { rewrite Hts, !blen_app. lia. }
      exists toks'. split; [|rewrite Hrb; exact Hm].
      rewrite Hbeq. replace (q' ++ ins ++ b0 ++ s_t) with ((q' ++ ins ++ b0) ++ s_t) by (rewrite <- !app_assoc; reflexivity).
      apply run_ws_prepend; [rewrite !forallb_app, Hq, Hins, Hb0; reflexivity | exact Hr']. }
  destruct Hshift as (rest_n & Hrn & Hm).
  (* split the shifted remainder into the reusable tokens and the end marker *)
  pose proof Hm as Hm'. rewrite Hrb in Hm'. apply map_opt_app_inv in Hm' as (reusable & R2 & HReq & Hreus & HR2).
  assert (Heof' : shift_token_signed (blen ins) (blen d) eof_o = Some (eof_token (blen a + blen ins + blen b))).
  { rewrite Heo. apply shift_eof_token. lia. }
  cbn [map_opt] in HR2. rewrite Heof' in HR2. injection HR2 as <-.
  set (eof' := eof_token (blen a + blen ins + blen b)) in *.
  assert (Hcut : cut reusable rest_n = []).
  { rewrite HReq. destruct reusable as [|u r]; [reflexivity|]. cbn [app]. apply cut_hit. cbn [existsb].
    assert (Hu : token_eqb u u = true) by (apply token_eqb_eq; reflexivity). rewrite Hu. reflexivity. }
  assert (Hlen : length reusable = length rb) by (apply map_opt_length in Hreus; exact Hreus).
  assert (Hto : told = (head ++ rb) ++ [eof_o]) by (rewrite Htoks, Hrb, app_assoc; reflexivity).
  exists (head ++ reusable ++ [eof']), (length head).
  unfold lex_update. cbv zeta.
  replace (blen a + blen d - blen a) with (blen d) by lia.
  rewrite Hto, split_last_snoc.
  assert (Hk : tk eof_o = Eof) by (rewrite Heo; reflexivity). rewrite Hk, Heof'.
  assert (Hf1 : filter (fun t => negb (is_affected_by t (blen a))) (head ++ rb) = head).
  { rewrite filter_app, filter_all_true, filter_all_false; [apply app_nil_r| |].
    - eapply Forall_impl; [|exact Hrbaff]. cbn beta. intros x ->. reflexivity.
    - eapply Forall_impl; [|exact Hhead]. cbn beta. intros x ->. reflexivity. }
  assert (Hf2 : filter (fun t => is_affected_by t (blen a)) (head ++ rb) = rb).
  { rewrite filter_app, filter_all_false, filter_all_true; auto. }
  assert (Hf3 : filter (fun t => negb (ts t <? blen a + blen d)) rb = rb).
  { apply filter_all_true. eapply Forall_impl; [|exact Hrbge]. cbn beta. intros x Hx.
    apply negb_true_iff. apply N.ltb_ge. exact Hx. }
  rewrite Hf1, Hf2, Hf3, Hreus. rewrite restart_eq, <- Hp'.
  rewrite <- HTn, str_from_app. rewrite (run_relex reusable _ _ _ Hrn) by lia. rewrite Hcut.
  change (split_last (@nil token)) with (@None (list token * token)). cbv iota.
  assert (Hleb : Nat.leb (length reusable) (length (head ++ rb)) = true).
  { apply Nat.leb_le. rewrite app_length. lia. }
  rewrite Hleb. cbn [app length].
  replace (length (head ++ rb) - length reusable)%nat with (length head) by (rewrite app_length; lia).
  reflexivity.
Qed.

(* ---- decidable, purely textual: white space for white space, clear of every token ---- *)
Definition clear_ofb (a d : text) (u : token) : bool :=
  match tk u with
  | Eof => true
  | k => (te u + look_ahead k <=? blen a) || (blen a + blen d <=? ts u)
  end.

Definition gap_changeb (t : text) (c : tchange) : bool :=
  text_eqb t (c_a c ++ c_d c ++ c_b c) && forallb is_ws (c_d c) && forallb is_ws (c_ins c) &&
  match lex t with Some toks => forallb (clear_ofb (c_a c) (c_d c)) toks | None => false end.

Fixpoint gap_histb (t : text) (h : list tchange) : bool :=
  match h with
  | [] => true
  | c :: r => gap_changeb t c && gap_histb (c_a c ++ c_ins c ++ c_b c) r
  end.

Lemma clear_ofb_spec a d u : clear_ofb a d u = true -> clear_of a d u.
Proof.
  unfold clear_ofb, clear_of. intros H Hne.
  assert (X : (te u + look_ahead (tk u) <=? blen a) || (blen a + blen d <=? ts u) = true) by (destruct (tk u); try exact H; congruence).
  apply orb_true_iff in X as [X|X]; apply N.leb_le in X; auto.
Qed.

Lemma gap_changeb_blank t c : gap_changeb t c = true -> blank_changeb t c = true.
Proof.
  unfold gap_changeb, blank_changeb. intros H. apply andb_true_iff in H as [H H4]. apply andb_true_iff in H as [H H3].
  apply andb_true_iff in H as [H1 H2]. rewrite H1. cbn [andb]. apply text_eqb_eq in H1.
  destruct (lex t) as [told|] eqn:El; [|discriminate]. rewrite H1 in El.
  destruct (gap_blank (c_a c) (c_d c) (c_b c) (c_ins c) told El) as (toks & w & Hu).
  - split; [exact H2|]. split; [exact H3|]. apply Forall_forall. intros u Hu. apply clear_ofb_spec.
    rewrite forallb_forall in H4. exact (H4 u Hu).
  - rewrite Hu. rewrite Nat.eqb_refl. reflexivity.
Qed.

Lemma gap_histb_blank : forall h t, gap_histb t h = true -> blank_histb t h = true.
Proof.
  induction h as [|c r IH]; intros t H; cbn [gap_histb blank_histb] in *; [reflexivity|].
  apply andb_true_iff in H as [H1 H2]. rewrite (gap_changeb_blank _ _ H1), (IH _ H2). reflexivity.
Qed.

(* C01 for white-space edits in gaps, on parse-level documents and on whole documents *)
Theorem gap_edits_fresh t h :
  clean_textb t = true -> gap_histb t h = true ->
  exists doc0 doc', pnew t = Done doc0 /\ valid_hist t h /\ phist doc0 h = Done doc' /\ pnew (final_text t h) = Done doc'.
Proof. intros Hc Hg. exact (blank_edits_fresh t h Hc (gap_histb_blank h t Hg)). Qed.

Theorem gap_notifications_fresh t h d0 :
  clean_textb t = true -> gap_histb t (concat h) = true -> new_doc t = Done d0 ->
  exists d', update_hist d0 h = Done d' /\ new_doc (final_text t (concat h)) = Done d'.
Proof. intros Hc Hg. exact (blank_notifications_fresh t h d0 Hc (gap_histb_blank _ t Hg)). Qed.
