(* C16 - completion on VALID programs: EVERY cursor position in the white space of a procedure
   declaration is decided (the positions on which the classifier of the real code answers null or
   incompletely included).

   p, G, t, toks, d as in Proofs/ComplValid.v.  A cursor index c lies in the white space between the
   adjacent tokens tprev (index m) and tnext (index m + 1):   te tprev <= c <= ts tnext.

   [propose_procedure_gap]     te tprev < c (at least one character between tprev and the cursor; tprev may
                               be a comment): the answer is [proc_spec D dd m (S m) (tk tprev)];
   [propose_procedure_behind]  c = te tprev (the cursor directly behind tprev): `correct_index` moves the
                               position INTO tprev: the answer is [proc_spec D dd m m (tk last)], where last
                               is tprev when tprev has two characters or more and the token in front of
                               tprev when it has one;
   rendered with the procedure's local table and G ([render], Proofs/ComplFindingsSpec.v;
   [proc_spec], Proofs/ComplFindingsProc.v: a function of the abstract declaration and of token indices).
   [propose_procedure_positions]  (A) and (B) in one statement;
   [propose_type_decl_behind]  the cursor directly behind a token of a TYPE declaration: the kind of last decides;
   [propose_procedure_white]   both for a token tprev of two characters or more;
   [nested_gap], [nested_behind], [nested_white]: the same at a token of a statement s' nested at any depth ([snest]) in a
   top-level statement of the body, in terms of [st_spec s'].
   The position classes of the known findings are instances: Proofs/ComplFindingsClasses.v. *)
From Coq Require Import PeanoNat NArith Lia List Bool.
From Spl Require Import Proofs.GrammarBase Proofs.GrammarExpr Proofs.GrammarStmt.
From Spl Require Import Proofs.GrammarProofs Spec.Typing Model.Errors Proofs.SemProofs Proofs.TypingProofs.
From Spl Require Import Model.Hover Model.Fold Proofs.LexerProofs Proofs.FoldProofs Proofs.HoverProofs.
From Spl Require Import Proofs.HoverValid Model.Completion Proofs.CompletionProofs.
From Spl Require Import Proofs.ComplValidBase Proofs.ComplValidProc Proofs.ComplValidNest Proofs.ComplValid.
From Spl Require Import Proofs.ComplFindingsSpec Proofs.ComplFindingsProc Proofs.ComplFindingsPath Proofs.ComplFindingsLex.
Import ListNotations.
Local Open Scope nat_scope.

Section Valid.
Variables (p : aprog) (G : gtable) (t : text) (toks : list token) (d : doc).
Hypothesis Hok : prog_ok p = true.
Hypothesis Hwt : well_typed (expected p) G.
Hypothesis Hlex : lex t = Some toks.
Hypothesis Hkinds : map tk toks = flatten p ++ [Eof].
Hypothesis Hdoc : new_doc_res t = ODone d.

(* a token that is not the last one is not empty *)
Lemma has_next_strict k tok : nth_error toks k = Some tok -> S k < len toks -> (ts tok < te tok)%N.
Proof.
  intros Hn Hl. apply (ordered_strict toks 0 k tok (tiles_ordered 0 t _ (lex_tiles t _ Hlex)) Hn).
  destruct (tiles_last_eof 0 t toks (lex_tiles t _ Hlex)) as [body [E F]].
  rewrite E, app_length in Hl. cbn [length] in Hl.
  rewrite E, nth_error_app1 in Hn by lia. apply nth_error_In in Hn.
  rewrite Forall_forall in F. exact (F _ Hn).
Qed.

(* the position `propose` works with, for a cursor in the white space behind token m *)
Lemma cursor_pos m tprev tnext c :
  nth_error toks m = Some tprev -> nth_error toks (S m) = Some tnext -> (te tprev <= c)%N -> (c <= ts tnext)%N ->
  pos_at toks (correct_index c) 0 m (if (te tprev <? c)%N then S m else m) /\
  (forall k tok, nth_error toks k = Some tok -> 0 + k < m -> (ts tok < correct_index c)%N) /\
  (ts tprev <= correct_index c)%N /\ (0 < c)%N /\ correct_index c = (c - 1)%N.
Proof.
  intros Hp Hn H1 H2. pose proof (valid_sorted t toks Hlex) as Hs.
  assert (Hlen : S m < len toks) by (apply nth_error_Some; congruence).
  pose proof (has_next_strict m tprev Hp Hlen) as Hst.
  assert (Hc : correct_index c = (c - 1)%N) by (unfold correct_index; destruct (N.ltb_spec 0 c); [reflexivity | lia]).
  rewrite Hc. split; [|split; [|split; [lia | split; [lia | reflexivity]]]].
  - intros k tok Hk. cbn [Nat.add]. pose proof (sorted_self _ Hs _ _ Hk) as Hself.
    destruct (Nat.lt_total k m) as [Hlt | [-> | Hgt]].
    + pose proof (sorted_pair _ Hs k m tok tprev Hlt Hk Hp).
      repeat split; intros; destruct (N.ltb_spec (te tprev) c); lia.
    + rewrite Hp in Hk. injection Hk as <-.
      repeat split; intros; destruct (N.ltb_spec (te tprev) c); lia.
    + destruct (sorted_le toks (S m) k tnext tok Hs ltac:(lia) Hn Hk) as [Ha _].
      repeat split; intros; destruct (N.ltb_spec (te tprev) c); lia.
  - intros k tok Hk Hlt. cbn [Nat.add] in Hlt.
    pose proof (sorted_pair _ Hs k m tok tprev Hlt Hk Hp).
    pose proof (has_next_strict k tok Hk ltac:(lia)). lia.
Qed.

(* ---------------------------------------------------------------------------------------- *)
(* the position anywhere in a procedure declaration                                           *)

Lemma propose_proc_at l1 c1 c2 x c3 ps c4 c5 vs b c6 l2 line col lo hi last :
  let dd := DProc c1 c2 x c3 ps c4 c5 vs b c6 in
  let D := len (flat_map fl_decl l1) in
  let position := correct_index (get_insertion_index line col t) in
  a_decls p = l1 ++ dd :: l2 ->
  pos_at toks position 0 lo hi -> D <= lo -> hi < D + len (fl_decl dd) ->
  token_before (dslice toks (flat_map fl_decl l1) (fl_decl dd)) position = Some last ->
  exists pe, lookup G x = Some (GProcE pe) /\ map fst (pe_local pe) = aparams_names ps ++ map v_x vs /\
    propose d line col = ROk (render (Some (pe_local pe)) G (proc_spec D dd lo hi (tk last))).
Proof.
  intros dd D position Hds Hpos Hlo Hhi Htb.
  destruct (proc_entry_names p G l1 c1 c2 x c3 ps c4 c5 vs b c6 l2 Hwt Hds) as [pe [Hlk Hnames]].
  exists pe. split; [exact Hlk|]. split; [exact Hnames|].
  rewrite (HoverValid.valid_doc p G t toks d Hok Hwt Hlex Hkinds Hdoc).
  pose proof (valid_sorted t toks Hlex) as Hs. pose proof (valid_split p toks Hkinds l1 dd l2 Hds) as Hk.
  pose proof (dslice_room toks _ _ _ Hk) as Hroom. fold D in Hroom.
  pose proof (fl_decl_pos dd) as Hdp.
  destruct (nth_error toks D) as [fa|] eqn:Ha; [|apply nth_error_None in Ha; lia].
  destruct (nth_error toks (D + len (fl_decl dd) - 1)) as [fb|] eqn:Hb; [|apply nth_error_None in Hb; lia].
  destruct (Hpos _ _ Ha) as [A1 _]. destruct (Hpos _ _ Hb) as [_ [_ [_ B4]]]. cbn [Nat.add] in A1, B4.
  rewrite (propose_in_proc p G t toks l1 dd l2 line col D (D + len (fl_decl dd) - 1) fa fb Hs Hds (valid_room p toks Hkinds) Ha Hb
             ltac:(lia) ltac:(fold D; lia) ltac:(fold D; lia) ltac:(fold position; apply A1; lia)
             ltac:(fold position; apply B4; lia) (the_proc dd) eq_refl).
  fold D position. change (firstn (len (fl_decl dd)) (skipn D toks)) with (dslice toks (flat_map fl_decl l1) (fl_decl dd)).
  assert (Hgl : get_local_table (the_proc dd) G = Some (pe_local pe)).
  { unfold get_local_table, the_proc, dd. cbn [x_decl pd_name id_val x_ident]. now rewrite Hlk. }
  rewrite <- Hgl.
  apply (complete_procedure_spec c1 c2 x c3 ps c4 c5 vs b c6 _ G position D lo hi last).
  - exact (dslice_kinds toks _ _ _ Hk).
  - exact (pos_at_sub toks position 0 lo hi D (len (fl_decl dd)) Hpos).
  - exact Htb.
Qed.

(* (A) at least one character between tprev and the cursor *)
Theorem propose_procedure_gap l1 c1 c2 x c3 ps c4 c5 vs b c6 l2 :
  a_decls p = l1 ++ DProc c1 c2 x c3 ps c4 c5 vs b c6 :: l2 ->
  let dd := DProc c1 c2 x c3 ps c4 c5 vs b c6 in
  let D := len (flat_map fl_decl l1) in
  forall m tprev tnext line col,
    D <= m -> S m < D + len (fl_decl dd) ->
    nth_error toks m = Some tprev -> nth_error toks (S m) = Some tnext ->
    (te tprev < get_insertion_index line col t)%N -> (get_insertion_index line col t <= ts tnext)%N ->
    exists pe, lookup G x = Some (GProcE pe) /\ map fst (pe_local pe) = aparams_names ps ++ map v_x vs /\
      propose d line col = ROk (render (Some (pe_local pe)) G (proc_spec D dd m (S m) (tk tprev))).
Proof.
  intros Hds dd D m tprev tnext line col Hlo Hhi Hp Hn H1 H2.
  destruct (cursor_pos m tprev tnext (get_insertion_index line col t) Hp Hn ltac:(lia) H2) as [Hpos [Hstrict [Hts [Hc0 Hc]]]].
  destruct (N.ltb_spec (te tprev) (get_insertion_index line col t)) as [_|]; [|lia].
  apply (propose_proc_at l1 c1 c2 x c3 ps c4 c5 vs b c6 l2 line col m (S m) tprev Hds Hpos Hlo Hhi).
  pose proof (valid_split p toks Hkinds l1 dd l2 Hds) as Hk.
  apply (token_before_in _ _ D m (S m) (pos_at_sub toks _ 0 m (S m) D (len (fl_decl dd)) Hpos)).
  - intros k tok Hk' Hlt. unfold dslice in Hk'. apply nth_sub_inv in Hk' as [Hk' _]. apply (Hstrict _ _ Hk'). cbn [Nat.add]. fold D. lia.
  - exact Hlo.
  - try unfold dslice. rewrite nth_sub by (fold dd D; lia). fold D. now replace (D + (m - D)) with m by lia.
  - assert (Hlen : S m < len toks) by (apply nth_error_Some; congruence).
    pose proof (has_next_strict m tprev Hp Hlen). lia.
Qed.

(* (B) the cursor directly behind tprev *)
Theorem propose_procedure_behind l1 c1 c2 x c3 ps c4 c5 vs b c6 l2 :
  a_decls p = l1 ++ DProc c1 c2 x c3 ps c4 c5 vs b c6 :: l2 ->
  let dd := DProc c1 c2 x c3 ps c4 c5 vs b c6 in
  let D := len (flat_map fl_decl l1) in
  forall m tprev last line col,
    D <= m -> m < D + len (fl_decl dd) ->
    nth_error toks m = Some tprev -> get_insertion_index line col t = te tprev ->
    ((ts tprev + 1 < te tprev)%N /\ last = tprev \/
     (ts tprev + 1 = te tprev)%N /\ D < m /\ nth_error toks (m - 1) = Some last) ->
    exists pe, lookup G x = Some (GProcE pe) /\ map fst (pe_local pe) = aparams_names ps ++ map v_x vs /\
      propose d line col = ROk (render (Some (pe_local pe)) G (proc_spec D dd m m (tk last))).
Proof.
  intros Hds dd D m tprev last line col Hlo Hhi Hp Hc Hlast.
  pose proof (valid_sorted t toks Hlex) as Hs. pose proof (valid_split p toks Hkinds l1 dd l2 Hds) as Hk.
  pose proof (dslice_room toks _ _ _ Hk) as Hroom. fold D in Hroom.
  assert (Hlen : S m < len toks).
  { rewrite <- (map_length tk toks), Hk, !app_length. fold D. cbn [length]. lia. }
  destruct (nth_error toks (S m)) as [tnext|] eqn:Hn; [|apply nth_error_None in Hn; lia].
  pose proof (sorted_pair _ Hs m (S m) tprev tnext ltac:(lia) Hp Hn) as Hpair.
  destruct (cursor_pos m tprev tnext (get_insertion_index line col t) Hp Hn ltac:(lia) ltac:(lia)) as [Hpos [Hstrict [Hts [Hc0 Hcc]]]].
  destruct (N.ltb_spec (te tprev) (get_insertion_index line col t)) as [|_]; [lia|].
  apply (propose_proc_at l1 c1 c2 x c3 ps c4 c5 vs b c6 l2 line col m m last Hds Hpos Hlo Hhi).
  pose proof (pos_at_sub toks _ 0 m m D (len (fl_decl dd)) Hpos) as Hpos'.
  assert (Hstrict' : forall k tok, nth_error (dslice toks (flat_map fl_decl l1) (fl_decl dd)) k = Some tok -> D + k < m ->
            (ts tok < correct_index (get_insertion_index line col t))%N).
  { intros k tok Hk' Hlt. unfold dslice in Hk'. apply nth_sub_inv in Hk' as [Hk' _]. apply (Hstrict _ _ Hk'). cbn [Nat.add]. fold D. lia. }
  assert (Hm : nth_error (dslice toks (flat_map fl_decl l1) (fl_decl dd)) (m - D) = Some tprev).
  { try unfold dslice. rewrite nth_sub by (fold dd D; lia). fold D. now replace (D + (m - D)) with m by lia. }
  destruct Hlast as [[Hl ->] | [Hl [HD Hlt]]].
  - apply (token_before_in _ _ D m m Hpos' Hstrict' tprev Hlo Hm). lia.
  - apply (token_before_front _ _ D m Hstrict' tprev last HD Hm ltac:(lia)).
    try unfold dslice. rewrite nth_sub by (fold dd D; lia). fold D. now replace (D + (m - D - 1)) with (m - 1) by lia.
Qed.

(* the same inside a TYPE declaration: the kind of `token_before` decides, as in the gaps
   (ComplValid.propose_type_decl_position) *)
Theorem propose_type_decl_behind l1 c1 c2 x c3 ty c4 l2 :
  a_decls p = l1 ++ DType c1 c2 x c3 ty c4 :: l2 ->
  let dd := DType c1 c2 x c3 ty c4 in
  let D := len (flat_map fl_decl l1) in
  forall m tprev last line col,
    D <= m -> m < D + len (fl_decl dd) ->
    nth_error toks m = Some tprev -> get_insertion_index line col t = te tprev ->
    ((ts tprev + 1 < te tprev)%N /\ last = tprev \/
     (ts tprev + 1 = te tprev)%N /\ D < m /\ nth_error toks (m - 1) = Some last) ->
    propose d line col = ROk (type_decl_answer (tk last) G).
Proof.
  intros Hds dd D m tprev last line col Hlo Hhi Hp Hc Hlast.
  pose proof (valid_sorted t toks Hlex) as Hs. pose proof (valid_split p toks Hkinds l1 dd l2 Hds) as Hk.
  pose proof (dslice_room toks _ _ _ Hk) as Hroom. fold D in Hroom.
  assert (Hlen : S m < len toks).
  { rewrite <- (map_length tk toks), Hk, !app_length. fold D. cbn [length]. lia. }
  destruct (nth_error toks (S m)) as [tnext|] eqn:Hn; [|apply nth_error_None in Hn; lia].
  pose proof (sorted_pair _ Hs m (S m) tprev tnext ltac:(lia) Hp Hn) as Hpair.
  destruct (cursor_pos m tprev tnext (get_insertion_index line col t) Hp Hn ltac:(lia) ltac:(lia)) as [Hpos [Hstrict [Hts [Hc0 Hcc]]]].
  destruct (N.ltb_spec (te tprev) (get_insertion_index line col t)) as [|_]; [lia|].
  rewrite (HoverValid.valid_doc p G t toks d Hok Hwt Hlex Hkinds Hdoc).
  rewrite (propose_in_type p G t toks l1 dd l2 line col m m tprev tprev Hs Hds (valid_room p toks Hkinds) Hp Hp
             ltac:(lia) ltac:(fold D; lia) ltac:(fold D; lia) Hts ltac:(rewrite Hcc; lia) _ eq_refl).
  fold D. unfold complete_type, type_decl_answer.
  pose proof (pos_at_sub toks _ 0 m m D (len (fl_decl dd)) Hpos) as Hpos'.
  assert (Hstrict' : forall k tok, nth_error (firstn (len (fl_decl dd)) (skipn D toks)) k = Some tok -> D + k < m ->
            (ts tok < correct_index (get_insertion_index line col t))%N).
  { intros k tok Hk' Hlt. apply nth_sub_inv in Hk' as [Hk' _]. apply (Hstrict _ _ Hk'). cbn [Nat.add]. lia. }
  assert (Hm : nth_error (firstn (len (fl_decl dd)) (skipn D toks)) (m - D) = Some tprev).
  { rewrite nth_sub by lia. now replace (D + (m - D)) with m by lia. }
  assert (Htb : token_before (firstn (len (fl_decl dd)) (skipn D toks)) (correct_index (get_insertion_index line col t)) = Some last).
  { destruct Hlast as [[Hl ->] | [Hl [HD Hlt]]].
    - apply (token_before_in _ _ D m m Hpos' Hstrict' tprev Hlo Hm). lia.
    - apply (token_before_front _ _ D m Hstrict' tprev last HD Hm ltac:(lia)).
      rewrite nth_sub by lia. now replace (D + (m - D - 1)) with (m - 1) by lia. }
  rewrite Htb. reflexivity.
Qed.

(* (A) and (B) in one, for a token tprev of two characters or more (`token_before` is tprev in both cases) *)
Theorem propose_procedure_white l1 c1 c2 x c3 ps c4 c5 vs b c6 l2 :
  a_decls p = l1 ++ DProc c1 c2 x c3 ps c4 c5 vs b c6 :: l2 ->
  let dd := DProc c1 c2 x c3 ps c4 c5 vs b c6 in
  let D := len (flat_map fl_decl l1) in
  forall m tprev tnext line col,
    D <= m -> S m < D + len (fl_decl dd) ->
    nth_error toks m = Some tprev -> nth_error toks (S m) = Some tnext -> (ts tprev + 1 < te tprev)%N ->
    (te tprev <= get_insertion_index line col t)%N -> (get_insertion_index line col t <= ts tnext)%N ->
    exists pe, lookup G x = Some (GProcE pe) /\ map fst (pe_local pe) = aparams_names ps ++ map v_x vs /\
      propose d line col =
        ROk (render (Some (pe_local pe)) G
               (proc_spec D dd m (if (te tprev <? get_insertion_index line col t)%N then S m else m) (tk tprev))).
Proof.
  intros Hds dd D m tprev tnext line col Hlo Hhi Hp Hn Hl H1 H2. subst dd D.
  destruct (N.ltb_spec (te tprev) (get_insertion_index line col t)) as [Hlt|Hge].
  - exact (propose_procedure_gap l1 c1 c2 x c3 ps c4 c5 vs b c6 l2 Hds m tprev tnext line col Hlo Hhi Hp Hn Hlt H2).
  - apply (propose_procedure_behind l1 c1 c2 x c3 ps c4 c5 vs b c6 l2 Hds m tprev tprev line col Hlo ltac:(lia) Hp ltac:(lia)).
    left. split; [exact Hl | reflexivity].
Qed.

(* (A) and (B) in one statement: EVERY cursor index in the white space of the declaration (between two
   adjacent tokens, or directly behind its last token) is decided by [proc_spec] *)
Theorem propose_procedure_positions l1 c1 c2 x c3 ps c4 c5 vs b c6 l2 :
  a_decls p = l1 ++ DProc c1 c2 x c3 ps c4 c5 vs b c6 :: l2 ->
  let dd := DProc c1 c2 x c3 ps c4 c5 vs b c6 in
  let D := len (flat_map fl_decl l1) in
  forall m tprev tnext last line col,
    let c := get_insertion_index line col t in
    let hi := if (te tprev <? c)%N then S m else m in
    D <= m -> hi < D + len (fl_decl dd) ->
    nth_error toks m = Some tprev -> nth_error toks (S m) = Some tnext ->
    (te tprev <= c)%N -> (c <= ts tnext)%N ->
    (((te tprev < c)%N \/ (ts tprev + 1 < te tprev)%N) /\ last = tprev \/
     c = te tprev /\ (ts tprev + 1 = te tprev)%N /\ D < m /\ nth_error toks (m - 1) = Some last) ->
    exists pe, lookup G x = Some (GProcE pe) /\ map fst (pe_local pe) = aparams_names ps ++ map v_x vs /\
      propose d line col = ROk (render (Some (pe_local pe)) G (proc_spec D dd m hi (tk last))).
Proof.
  intros Hds dd D m tprev tnext last line col c hi Hlo Hhi Hp Hn H1 H2 Hlast. subst dd D c hi.
  destruct (N.ltb_spec (te tprev) (get_insertion_index line col t)) as [Hlt|Hge].
  - destruct Hlast as [[_ ->] | [Hc _]]; [|lia].
    exact (propose_procedure_gap l1 c1 c2 x c3 ps c4 c5 vs b c6 l2 Hds m tprev tnext line col Hlo Hhi Hp Hn Hlt H2).
  - apply (propose_procedure_behind l1 c1 c2 x c3 ps c4 c5 vs b c6 l2 Hds m tprev last line col Hlo Hhi Hp ltac:(lia)).
    destruct Hlast as [[[Hc|Hl] ->] | [Hc [Hl [HD Hlt]]]]; [lia | left; split; [exact Hl | reflexivity] | right; repeat split; assumption].
Qed.

(* ---------------------------------------------------------------------------------------- *)
(* a token of a statement nested in a top-level statement of the body                         *)

Section Body.
Variables (l1 : list adecl) (c1 c2 : cs) (x : text) (c3 : cs) (ps : aparams) (c4 c5 : cs) (vs : list avardecl).
Variables (b1 : astmts) (s : astmt) (b2 : astmts) (c6 : cs) (l2 : list adecl) (g : nat) (s' : astmt).
Hypothesis Hds : a_decls p = l1 ++ DProc c1 c2 x c3 ps c4 c5 vs (sapp b1 (SCons s b2)) c6 :: l2.
Hypothesis Hn : snest s g s'.

Definition stmt_index : nat :=
  len (flat_map fl_decl l1) + len (proc_head c1 c2 x c3 ps c4 c5) + len (flat_map fl_vardecl vs) + len (fl_stmts b1) + g.

Lemma stmt_index_eq :
  stmt_index = len (flat_map fl_decl l1) + len (proc_head c1 c2 x c3 ps c4 c5) + len (flat_map fl_vardecl vs) + len (fl_stmts b1) + g.
Proof. reflexivity. Qed.

(* where the tokens of s' sit in the token vector *)
Lemma nested_kinds : exists X Y, map tk toks = X ++ fl_stmt s' ++ Y /\ len X = stmt_index.
Proof.
  destruct (snest_split _ _ _ Hn) as [pre [post [E Hl]]].
  exists (flat_map fl_decl l1 ++ proc_head c1 c2 x c3 ps c4 c5 ++ flat_map fl_vardecl vs ++ fl_stmts b1 ++ pre).
  exists (post ++ fl_stmts b2 ++ cm c6 ++ [RCurly] ++ flat_map fl_decl l2 ++ cm (a_ceof p) ++ [Eof]).
  split; [|unfold stmt_index; rewrite <- Hl; leneq].
  rewrite (valid_split p toks Hkinds l1 _ l2 Hds), fl_proc, fl_stmts_sapp. cbn [fl_stmts]. rewrite E. listeq.
Qed.

Lemma nested_kind_at i tok k :
  nth_error toks (stmt_index + i) = Some tok -> nth_error (fl_stmt s') i = Some k -> tk tok = k.
Proof.
  intros Ht Hk. destruct nested_kinds as [X [Y [E Hl]]].
  apply (map_nth_error tk) in Ht. rewrite E, <- Hl in Ht.
  rewrite nth_error_app2 in Ht by lia. replace (len X + i - len X) with i in Ht by lia.
  rewrite nth_error_app1 in Ht by (apply nth_error_Some; congruence). congruence.
Qed.

Lemma nested_room : stmt_index + len (fl_stmt s') + 1 <= len (flat_map fl_decl l1) + len (fl_decl (DProc c1 c2 x c3 ps c4 c5 vs (sapp b1 (SCons s b2)) c6)).
Proof.
  pose proof (snest_bounds _ _ _ Hn). unfold stmt_index. rewrite fl_proc, fl_stmts_sapp. cbn [fl_stmts]. leneq.
Qed.

(* the gap behind token i of s' (tnext is a token of s' as well) *)
Theorem nested_gap i tprev tnext line col :
  has_real b1 = true \/ is_emp s = false ->
  S i < len (fl_stmt s') ->
  nth_error toks (stmt_index + i) = Some tprev -> nth_error toks (S (stmt_index + i)) = Some tnext ->
  (te tprev < get_insertion_index line col t)%N -> (get_insertion_index line col t <= ts tnext)%N ->
  is_rcurly (tk tprev) = false ->
  exists pe, lookup G x = Some (GProcE pe) /\ map fst (pe_local pe) = aparams_names ps ++ map v_x vs /\
    propose d line col =
      ROk (render (Some (pe_local pe)) G (st_spec s' stmt_index (stmt_index + i) (S (stmt_index + i)) (tk tprev) false)).
Proof.
  intros Hreal Hi Hp Hnx H1 H2 Hrc. pose proof nested_room as Hroom.
  destruct (propose_procedure_gap l1 c1 c2 x c3 ps c4 c5 vs _ c6 l2 Hds (stmt_index + i) tprev tnext line col
              ltac:(unfold stmt_index; lia) ltac:(lia) Hp Hnx H1 H2) as [pe [Hlk [Hnames Hpr]]].
  exists pe. split; [exact Hlk|]. split; [exact Hnames|]. rewrite Hpr. do 2 f_equal.
  apply (proc_spec_nested _ c1 c2 x c3 ps c4 c5 vs b1 s b2 c6 g s' _ _ _ Hn Hreal); [lia | | exact Hrc].
  apply inside_true; unfold stmt_index; lia.
Qed.

(* the cursor directly behind token i of s' *)
Theorem nested_behind i tprev last line col :
  has_real b1 = true \/ is_emp s = false ->
  i < len (fl_stmt s') ->
  nth_error toks (stmt_index + i) = Some tprev -> get_insertion_index line col t = te tprev ->
  ((ts tprev + 1 < te tprev)%N /\ last = tprev \/
   (ts tprev + 1 = te tprev)%N /\ nth_error toks (stmt_index + i - 1) = Some last) ->
  is_rcurly (tk last) = false ->
  exists pe, lookup G x = Some (GProcE pe) /\ map fst (pe_local pe) = aparams_names ps ++ map v_x vs /\
    propose d line col =
      ROk (render (Some (pe_local pe)) G (st_spec s' stmt_index (stmt_index + i) (stmt_index + i) (tk last) false)).
Proof.
  intros Hreal Hi Hp Hc Hlast Hrc. pose proof nested_room as Hroom.
  assert (Hh : 1 <= len (proc_head c1 c2 x c3 ps c4 c5)) by (unfold proc_head; leneq).
  destruct (propose_procedure_behind l1 c1 c2 x c3 ps c4 c5 vs _ c6 l2 Hds (stmt_index + i) tprev last line col
              ltac:(unfold stmt_index; lia) ltac:(lia) Hp Hc) as [pe [Hlk [Hnames Hpr]]].
  { destruct Hlast as [H|[H1 H2]]; [left; exact H | right]. split; [exact H1|]. split; [unfold stmt_index; lia | exact H2]. }
  exists pe. split; [exact Hlk|]. split; [exact Hnames|]. rewrite Hpr. do 2 f_equal.
  apply (proc_spec_nested _ c1 c2 x c3 ps c4 c5 vs b1 s b2 c6 g s' _ _ _ Hn Hreal); [lia | | exact Hrc].
  apply inside_true; unfold stmt_index; lia.
Qed.

(* ... whatever `token_before` is: the `else` proposals, or the answer of s' *)
Theorem nested_behind_any i tprev last line col :
  has_real b1 = true \/ is_emp s = false ->
  i < len (fl_stmt s') ->
  nth_error toks (stmt_index + i) = Some tprev -> get_insertion_index line col t = te tprev ->
  ((ts tprev + 1 < te tprev)%N /\ last = tprev \/
   (ts tprev + 1 = te tprev)%N /\ nth_error toks (stmt_index + i - 1) = Some last) ->
  exists pe, lookup G x = Some (GProcE pe) /\ map fst (pe_local pe) = aparams_names ps ++ map v_x vs /\
    (propose d line col = ROk (render (Some (pe_local pe)) G AElse) \/
     exists pi, propose d line col =
       ROk (render (Some (pe_local pe)) G (st_spec s' stmt_index (stmt_index + i) (stmt_index + i) (tk last) pi))).
Proof.
  intros Hreal Hi Hp Hc Hlast. pose proof nested_room as Hroom.
  assert (Hh : 1 <= len (proc_head c1 c2 x c3 ps c4 c5)) by (unfold proc_head; leneq).
  destruct (propose_procedure_behind l1 c1 c2 x c3 ps c4 c5 vs _ c6 l2 Hds (stmt_index + i) tprev last line col
              ltac:(unfold stmt_index; lia) ltac:(lia) Hp Hc) as [pe [Hlk [Hnames Hpr]]].
  { destruct Hlast as [H|[H1 H2]]; [left; exact H | right]. split; [exact H1|]. split; [unfold stmt_index; lia | exact H2]. }
  exists pe. split; [exact Hlk|]. split; [exact Hnames|]. rewrite Hpr.
  destruct (proc_spec_nested_any (len (flat_map fl_decl l1)) c1 c2 x c3 ps c4 c5 vs b1 s b2 c6 g s' (stmt_index + i) (stmt_index + i) (tk last)
              Hn Hreal ltac:(lia) ltac:(apply inside_true; unfold stmt_index; lia)) as [E | [pi E]].
  - left. now rewrite E.
  - right. exists pi. now rewrite E.
Qed.

(* both, for a token of two characters or more *)
Theorem nested_white i tprev tnext line col :
  has_real b1 = true \/ is_emp s = false ->
  S i < len (fl_stmt s') ->
  nth_error toks (stmt_index + i) = Some tprev -> nth_error toks (S (stmt_index + i)) = Some tnext ->
  (ts tprev + 1 < te tprev)%N ->
  (te tprev <= get_insertion_index line col t)%N -> (get_insertion_index line col t <= ts tnext)%N ->
  is_rcurly (tk tprev) = false ->
  exists pe, lookup G x = Some (GProcE pe) /\ map fst (pe_local pe) = aparams_names ps ++ map v_x vs /\
    propose d line col =
      ROk (render (Some (pe_local pe)) G
             (st_spec s' stmt_index (stmt_index + i)
                (if (te tprev <? get_insertion_index line col t)%N then S (stmt_index + i) else stmt_index + i) (tk tprev) false)).
Proof.
  intros Hreal Hi Hp Hnx Hl H1 H2 Hrc.
  destruct (N.ltb_spec (te tprev) (get_insertion_index line col t)) as [Hlt|Hge].
  - exact (nested_gap i tprev tnext line col Hreal Hi Hp Hnx Hlt H2 Hrc).
  - apply (nested_behind i tprev tprev line col Hreal ltac:(lia) Hp ltac:(lia)); [|exact Hrc].
    left. split; [exact Hl | reflexivity].
Qed.

End Body.
End Valid.
