(* C03 - syntax faults: comma-separated lists once more (GrammarStmt.v, Section Sep) - with the closing token as a
   parameter (behind a missing `)` the arguments of a call are followed by `;`), and with ONE faulty element (a fault
   inside an argument of a call). *)
From Coq Require Import List Lia Arith Bool.
From Spl Require Import Spec.Grammar Model.Parser Proofs.GrammarBase Proofs.GrammarExpr Proofs.GrammarStmt.
From Spl Require Import Proofs.SynFaults Proofs.SynFaultsEP.
Import ListNotations.
Local Open Scope nat_scope.

(* ---- comma-separated lists closed by something else than `)` (GrammarStmt.v, Section Sep, with the closing token as
   a parameter): behind a missing `)` the list of arguments is followed by `;` ---- *)
Section SepG.
Variable toks : list token.
Notation at_ := (at_ toks).
Context {A B : Type} (fl : A -> list kind) (x : A -> B) (p : parser B) (N : nat) (stop : kind -> bool).
Hypothesis stop_nc : forall kd, stop kd = true -> is_k Comma kd = false.
Definition follows_g (kd : kind) : bool := is_k Comma kd || stop kd.
Hypothesis elem_ok : forall a k rest, len (fl a) <= N -> at_ k (fl a ++ rest) -> fol follows_g rest ->
  p (mk k k) = POk (mk (k + len (fl a)) k) (x a).

Lemma fol_tail_g l rest : fol stop rest -> fol follows_g (fl_tail fl l ++ rest).
Proof.
  intros H. destruct l as [|[c a] l]; cbn [fl_tail flat_map fst snd app].
  - revert H. apply fol_weaken. intros kd Hk. unfold follows_g. rewrite Hk. apply orb_true_r.
  - rewrite <- !app_assoc. cbn [app]. now apply fol_here.
Qed.

Lemma fol_tail_g' l rest : fol follows_g rest -> fol follows_g (fl_tail fl l ++ rest).
Proof.
  intros H. destruct l as [|[c a] l]; cbn [fl_tail flat_map fst snd app]; [exact H|].
  rewrite <- !app_assoc. cbn [app]. now apply fol_here.
Qed.

Lemma tail_steps_g l : forall k r rest, r <= k -> len (fl_tail fl l) <= N -> at_ k (fl_tail fl l ++ rest) ->
  fol follows_g rest ->
  steps (tail_p toks p) (mk k r) (x_tail fl x (k - r) l) (mk (k + len (fl_tail fl l)) r).
Proof.
  induction l as [|[c a] l IH]; intros k r rest Hr HN H Hfol.
  - cbn [fl_tail flat_map length x_tail]. rewrite Nat.add_0_r. constructor.
  - rewrite tail_len in *. unfold fl_tail in H. cbn [flat_map fst snd] in H. flat_in H. fold (fl_tail fl l) in H.
    destruct (p_tag_at toks (is_k Comma) k k _ _ _ H eq_refl) as (t & _ & E).
    pose proof (at_cm_cons _ _ _ _ _ H) as H1.
    pose proof (elem_ok a _ _ ltac:(lia) H1 (fol_tail_g' l rest Hfol)) as E2.
    cbn [x_tail]. eapply steps_cons with (s1 := mk (k + len c + 1 + len (fl a)) r).
    + unfold tail_p. comb. rewrite E; ifs; norm. rewrite E2; norm. teq.
    + cbn [pos]. lia.
    + apply at_app in H1. specialize (IH (k + len c + 1 + len (fl a)) r rest ltac:(lia) ltac:(lia) H1 Hfol).
      replace (k + len c + 1 + len (fl a) - r) with (k - r + len c + 1 + len (fl a)) in IH by lia.
      replace (k + (len c + 1 + len (fl a) + len (fl_tail fl l))) with (k + len c + 1 + len (fl a) + len (fl_tail fl l)) by lia.
      exact IH.
Qed.

Lemma list_ok_g a l k r rest fuel : r <= k -> len (fl_sep fl (Some (a, l))) <= N -> len l < fuel ->
  at_ k (fl_sep fl (Some (a, l)) ++ rest) -> fol stop rest ->
  p_list toks fuel p (mk k r) = POk (mk (k + len (fl_sep fl (Some (a, l)))) r) (x_sep fl x (k - r) (Some (a, l))).
Proof.
  intros Hr HN Hf H Hfol. cbn [fl_sep] in *. rewrite app_length in *. flat_in H.
  rewrite p_list_eq. comb.
  rewrite (elem_ok a k _ ltac:(lia) H (fol_tail_g l rest Hfol)). norm.
  apply at_app in H.
  assert (Hfg : fol follows_g rest) by (revert Hfol; apply fol_weaken; intros kd0 Hk0; unfold follows_g; rewrite Hk0; apply orb_true_r).
  pose proof (tail_steps_g l (k + len (fl a)) r rest ltac:(lia) ltac:(lia) H Hfg) as Hst.
  destruct Hfol as (c & kd & rest' & -> & Hs & Hk). apply at_app in H.
  assert (Ee : tail_p toks p (mk (k + len (fl a) + len (fl_tail fl l)) r) = PErr (mk (k + len (fl a) + len (fl_tail fl l)) r)).
  { unfold tail_p. comb. rewrite (p_tag_no toks (is_k Comma) _ _ _ _ _ H Hs); [reflexivity|]. apply stop_nc, Hk. }
  rewrite (many0_steps' _ _ _ _ _ fuel Hst Ee) by (now rewrite (proj2 (tail_count fl x l))). norm.
  cbn [x_sep]. replace (k - r + len (fl a)) with (k + len (fl a) - r) by lia. teq.
Qed.
End SepG.


Lemma steps_app {A} (p : parser A) s l1 s1 l2 s2 : steps p s l1 s1 -> steps p s1 l2 s2 -> steps p s (l1 ++ l2) s2.
Proof. induction 1 as [s|s sa s1 a l Hp Hne Hs IH]; intros H2; cbn [app]; [exact H2|]. econstructor; eauto. Qed.

Section FArgs.
Variable toks : list token.
Notation at_ := (at_ toks).

(* an argument with a fault inside *)
Lemma farg_ok f N : 6 * N + 12 <= f -> forall e k rest, len (ffl_cmp e) <= N -> at_ k (ffl_cmp e ++ rest) ->
  fol follows_elem rest -> gapE (gk_cmp e) (after_cmp e rest) ->
  p_argument toks f (mk k k) = POk (mk (k + len (ffl_cmp e)) k) (fx_cmp 0 e).
Proof.
  intros Hf e k rest HN H Hfol Hgap. unfold p_argument, p_expr. comb.
  rewrite (fcmp_ok toks e k k rest f (le_n _) ltac:(lia) H (follows_elem_cmp _ Hfol) Hgap). norm.
  destruct Hfol as (c & kd & rest' & -> & Hs & Hk). apply at_app in H.
  unfold la_arg, la_param. rewrite (la_tag_at toks _ _ _ _ _ H Hs).
  rewrite Nat.sub_diag. destruct kd; try discriminate; reflexivity.
Qed.

Lemma follows_elem_g kd : follows_g (is_k RParen) kd = follows_elem kd.
Proof. reflexivity. Qed.

(* the argument list with one faulty argument *)
Lemma fargs_ok a k r rest fuel : r <= k -> 6 * len (ffl_args a) + 12 <= fuel ->
  at_ k (ffl_args a ++ rest) -> fol (is_k RParen) rest -> gapE (gk_args a) (after_args a rest) ->
  p_list toks fuel (p_argument toks fuel) (mk k r) = POk (mk (k + len (ffl_args a)) r) (fx_args (k - r) a).
Proof.
  intros Hr Hf H Hfol Hgap.
  assert (Helem : forall a0 k0 rest0, len (fl_cmp a0) <= len (ffl_args a) -> at_ k0 (fl_cmp a0 ++ rest0) -> fol (follows_g (is_k RParen)) rest0 ->
                  p_argument toks fuel (mk k0 k0) = POk (mk (k0 + len (fl_cmp a0)) k0) (x_cmp 0 a0)).
  { intros a0 k0 rest0 Hl Ha Hfo. exact (arg_ok toks fuel (len (ffl_args a)) ltac:(lia) a0 k0 rest0 Hl Ha Hfo). }
  assert (Hend : fol (follows_g (is_k RParen)) rest).
  { revert Hfol. apply fol_weaken. intros kd Hk. unfold follows_g. rewrite Hk. apply orb_true_r. }
  assert (Hfail : forall k0, at_ k0 rest -> tail_p toks (p_argument toks fuel) (mk k0 r) = PErr (mk k0 r)).
  { intros k0 Hk0. destruct Hfol as (c & kd & rest' & -> & Hs & Hk). unfold tail_p. comb.
    rewrite (p_tag_no toks (is_k Comma) _ _ _ _ _ Hk0 Hs); [reflexivity|]. destruct kd; try discriminate; reflexivity. }
  destruct a as [e l|e0 pre c e post]; cbn [ffl_args gk_args after_args fxg_args] in *.
  - rewrite app_length in Hf. flat_in H. pose proof (tail_len_le fl_cmp l) as Hll.
    rewrite p_list_eq. comb.
    rewrite (farg_ok fuel (len (ffl_cmp e)) ltac:(lia) e k _ (le_n _) H (fol_tail_g' fl_cmp (is_k RParen) l rest Hend) Hgap). norm.
    apply at_app in H.
    pose proof (tail_steps_g toks fl_cmp (x_cmp 0) (p_argument toks fuel) (len (ffl_cmp e ++ fl_tail fl_cmp l)) (is_k RParen) Helem l
                  (k + len (ffl_cmp e)) r rest ltac:(lia) ltac:(rewrite app_length; lia) H Hend) as Hst.
    apply at_app in H.
    rewrite (many0_steps' _ _ _ _ _ fuel Hst (Hfail _ H)) by (rewrite (proj2 (tail_count fl_cmp (x_cmp 0) l)); lia). norm.
    rewrite app_length. replace (k - r + len (ffl_cmp e)) with (k + len (ffl_cmp e) - r) by lia. teq.
  - rewrite !app_length in Hf. cbn [length] in Hf. rewrite !app_length, cm_len in Hf. flat_in H.
    pose proof (tail_len_le fl_cmp pre) as Hl1. pose proof (tail_len_le fl_cmp post) as Hl2.
    set (N := len (fl_cmp e0 ++ fl_tail fl_cmp pre ++ cm c ++ Comma :: ffl_cmp e ++ fl_tail fl_cmp post)) in *.
    assert (HN : N = len (fl_cmp e0) + len (fl_tail fl_cmp pre) + len c + 1 + len (ffl_cmp e) + len (fl_tail fl_cmp post)).
    { unfold N. rewrite !app_length. cbn [length]. rewrite !app_length, cm_len. lia. }
    rewrite p_list_eq. comb.
    assert (Hf1 : fol (follows_g (is_k RParen)) (fl_tail fl_cmp pre ++ cm c ++ Comma :: ffl_cmp e ++ fl_tail fl_cmp post ++ rest)).
    { apply fol_tail_g'. apply fol_here; reflexivity. }
    rewrite (Helem e0 k _ ltac:(lia) H Hf1). norm.
    apply at_app in H.
    pose proof (tail_steps_g toks fl_cmp (x_cmp 0) (p_argument toks fuel) N (is_k RParen) Helem pre
                  (k + len (fl_cmp e0)) r _ ltac:(lia) ltac:(lia) H (fol_here _ c Comma _ eq_refl eq_refl)) as Hst1.
    apply at_app in H. set (k2 := k + len (fl_cmp e0) + len (fl_tail fl_cmp pre)) in *.
    assert (Hst2 : steps (tail_p toks (p_argument toks fuel)) (mk k2 r) [(fx_cmp 0 e, k2 + len c + 1 - r)] (mk (k2 + len c + 1 + len (ffl_cmp e)) r)).
    { eapply steps_cons; [| |apply steps_nil].
      - destruct (p_tag_at toks (is_k Comma) k2 k2 _ _ _ H eq_refl) as (t & _ & E).
        pose proof (at_cm_cons _ _ _ _ _ H) as H1.
        pose proof (farg_ok fuel (len (ffl_cmp e)) ltac:(lia) e _ _ (le_n _) H1 (fol_tail_g' fl_cmp (is_k RParen) post rest Hend) Hgap) as E2.
        unfold tail_p. comb. rewrite E; ifs; norm. rewrite E2; norm. teq.
      - cbn [pos]. lia. }
    apply at_cm_cons in H. apply at_app in H.
    pose proof (tail_steps_g toks fl_cmp (x_cmp 0) (p_argument toks fuel) N (is_k RParen) Helem post
                  (k2 + len c + 1 + len (ffl_cmp e)) r rest ltac:(unfold k2; lia) ltac:(lia) H Hend) as Hst3.
    apply at_app in H.
    pose proof (steps_app _ _ _ _ _ _ Hst1 (steps_app _ _ _ _ _ _ Hst2 Hst3)) as Hst. cbn [app] in Hst.
    rewrite (many0_steps' _ _ _ _ _ fuel Hst (Hfail _ H))
      by (rewrite app_length; cbn [length]; rewrite (proj2 (tail_count fl_cmp (x_cmp 0) pre)), (proj2 (tail_count fl_cmp (x_cmp 0) post)); lia).
    norm. cbv zeta. rewrite HN. unfold k2. teq.
Qed.

End FArgs.
