(* C13, second half - renaming the identifier TOKENS of an abstract program by position (Proofs/RefsRoundDefs.v
   [sb_prog] with a renaming [Fh h] that looks at the token index and the spelling only):
     [flatten_sb]   the token kinds are the old ones with the identifier at index k respelled h k x, comments
                    untouched ([sk]);
     [expected_sb]  the mandated tree is the old one with the identifier nodes respelled ([rn_program]);
     [prog_ok_sb]   the dangling-else condition does not change. *)
From Coq Require Import PeanoNat Lia List.
From Spl Require Import Spec.Typing Spec.Nav Proofs.RefsValidWalks Proofs.GrammarBase Proofs.GrammarExpr Proofs.GrammarStmt Proofs.RefsRoundDefs.
Import ListNotations.
Local Open Scope nat_scope.

Section Flat.
Variable h : nat -> text -> text.
Definition Fh : rnf := fun _ _ k x => h k x.

Lemma sk_length l : forall k, len (sk h k l) = len l.
Proof. induction l as [|a l IH]; intros k; [reflexivity|]. destruct a; cbn [sk length]; now rewrite IH. Qed.

Lemma sk_app a : forall b k, sk h k (a ++ b) = sk h k a ++ sk h (k + len a) b.
Proof.
  induction a as [|x a IH]; intros b k; cbn [app length]; [now rewrite Nat.add_0_r|].
  replace (k + S (len a)) with (S k + len a) by lia. destruct x; cbn [sk app]; now rewrite IH.
Qed.

Lemma sk_cm c k : sk h k (cm c) = cm c.
Proof. revert k. unfold cm. induction c as [|x c IH]; intros k; [reflexivity|]. cbn [map sk]. now rewrite IH. Qed.

Lemma sk_lit l r k : sk h k (k_lit l :: r) = k_lit l :: sk h (S k) r.
Proof. destruct l; reflexivity. Qed.
Lemma sk_mulop o r k : sk h k (k_mul o :: r) = k_mul o :: sk h (S k) r.
Proof. destruct o; reflexivity. Qed.
Lemma sk_addop o r k : sk h k (k_add o :: r) = k_add o :: sk h (S k) r.
Proof. destruct o; reflexivity. Qed.
Lemma sk_cmpop o r k : sk h k (k_cmp o :: r) = k_cmp o :: sk h (S k) r.
Proof. destruct o; reflexivity. Qed.

Ltac skn := repeat first [rewrite sk_app | rewrite sk_cm | rewrite sk_lit | rewrite sk_mulop | rewrite sk_addop | rewrite sk_cmpop
                    | rewrite cm_length | rewrite app_length | progress cbn [sk app length]].
Ltac fin := rewrite <- ?app_assoc; cbn [app]; repeat (f_equal; try lia).

Theorem fl_sb_expr :
  (forall v q k, fl_var (sb_var Fh q k v) = sk h k (fl_var v)) /\
  (forall f q k, fl_fac (sb_fac Fh q k f) = sk h k (fl_fac f)) /\
  (forall m q k, fl_mul (sb_mul Fh q k m) = sk h k (fl_mul m)) /\
  (forall a q k, fl_add (sb_add Fh q k a) = sk h k (fl_add a)) /\
  (forall e q k, fl_cmp (sb_cmp Fh q k e) = sk h k (fl_cmp e)).
Proof.
  apply aexpr_mutind.
  - intros c x q k. cbn [sb_var fl_var]. skn. unfold Fh. fin.
  - intros v IHv c1 e IHe c2 q k. cbn [sb_var fl_var]. rewrite IHv, IHe. skn. fin.
  - intros c l q k. cbn [sb_fac fl_fac]. skn. reflexivity.
  - intros v IHv q k. cbn [sb_fac fl_fac]. apply IHv.
  - intros c f IHf q k. cbn [sb_fac fl_fac]. rewrite IHf. skn. fin.
  - intros c1 e IHe c2 q k. cbn [sb_fac fl_fac]. rewrite IHe. skn. fin.
  - intros f IHf q k. apply IHf.
  - intros m IHm c op f IHf q k. cbn [sb_mul fl_mul]. rewrite IHm, IHf. skn. fin.
  - intros m IHm q k. apply IHm.
  - intros a IHa c op m IHm q k. cbn [sb_add fl_add]. rewrite IHa, IHm. skn. fin.
  - intros a IHa q k. apply IHa.
  - intros l IHl c op r IHr q k. cbn [sb_cmp fl_cmp]. rewrite IHl, IHr. skn. fin.
Qed.
Lemma fl_sb_type t : forall q k, fl_type (sb_type Fh q k t) = sk h k (fl_type t).
Proof.
  induction t as [c x | ca cl cz size cr co base IH]; intros q k; cbn [sb_type fl_type].
  - skn. unfold Fh. fin.
  - rewrite IH. skn. fin.
Qed.

Lemma fl_sb_tail {A} (fl : A -> list kind) (sb : nat -> A -> A) :
  (forall a k, fl (sb k a) = sk h k (fl a)) ->
  forall l k, fl_tail fl (sb_tail fl sb k l) = sk h k (fl_tail fl l).
Proof.
  intros Hsb. induction l as [|[c a] r IH]; intros k; [reflexivity|].
  unfold fl_tail in *. cbn [sb_tail flat_map fst snd]. rewrite IH, Hsb. skn. fin.
Qed.

Lemma fl_sb_sep {A} (fl : A -> list kind) (sb : nat -> A -> A) :
  (forall a k, fl (sb k a) = sk h k (fl a)) ->
  forall o k, fl_sep fl (sb_sep fl sb k o) = sk h k (fl_sep fl o).
Proof.
  intros Hsb [[a r]|] k; [|reflexivity]. cbn [sb_sep fl_sep]. rewrite Hsb, (fl_sb_tail fl sb Hsb). skn. reflexivity.
Qed.

Theorem fl_sb_stmt :
  (forall s q k, fl_stmt (sb_stmt Fh q k s) = sk h k (fl_stmt s)) /\
  (forall b q k, fl_stmts (sb_stmts Fh q k b) = sk h k (fl_stmts b)).
Proof.
  destruct fl_sb_expr as [Hv [_ [_ [_ He]]]].
  apply astmt_mutind.
  - intros c q k. cbn [sb_stmt fl_stmt]. skn. reflexivity.
  - intros v c1 e c2 q k. cbn [sb_stmt fl_stmt]. rewrite Hv, He. skn. fin.
  - intros c1 f c2 a c3 c4 q k. cbn [sb_stmt fl_stmt]. rewrite (fl_sb_sep fl_cmp (sb_cmp Fh q) (fun a k => He a q k)). skn. unfold Fh. fin.
  - intros c1 c2 e c3 t IHt q k. cbn [sb_stmt fl_stmt]. cbv zeta. rewrite He, IHt. skn. fin.
  - intros c1 c2 e c3 t IHt c4 s IHs q k. cbn [sb_stmt fl_stmt]. cbv zeta. rewrite He, IHt, IHs. skn. fin.
  - intros c1 c2 e c3 b IHb q k. cbn [sb_stmt fl_stmt]. cbv zeta. rewrite He, IHb. skn. fin.
  - intros c1 b IHb c2 q k. cbn [sb_stmt fl_stmt]. rewrite IHb. skn. fin.
  - intros q k. reflexivity.
  - intros s IHs r IHr q k. cbn [sb_stmts fl_stmts]. rewrite IHs, IHr. skn. fin.
Qed.

Lemma fl_sb_param p q k : fl_param (sb_param Fh q k p) = sk h k (fl_param p).
Proof. destruct p as [c x cc t | cr c x cc t]; cbn [sb_param fl_param]; rewrite fl_sb_type; skn; unfold Fh; fin. Qed.

Lemma fl_sb_vardecl d q k : fl_vardecl (sb_vardecl Fh q k d) = sk h k (fl_vardecl d).
Proof. destruct d as [c1 c2 x c3 t c4]. unfold fl_vardecl, sb_vardecl. cbn [v_c1 v_c2 v_x v_c3 v_t v_c4]. rewrite fl_sb_type. skn. unfold Fh. fin. Qed.

Lemma fl_sb_vardecls l : forall q k, flat_map fl_vardecl (sb_vardecls Fh q k l) = sk h k (flat_map fl_vardecl l).
Proof.
  induction l as [|d r IH]; intros q k; [reflexivity|]. cbn [sb_vardecls flat_map]. rewrite fl_sb_vardecl, IH. skn. reflexivity.
Qed.

Lemma fl_sb_decl d k : fl_decl (sb_decl Fh k d) = sk h k (fl_decl d).
Proof.
  destruct d as [c1 c2 x c3 t c4 | c1 c2 x c3 ps c4 c5 vs b c6]; cbn [sb_decl fl_decl]; cbv zeta.
  - rewrite fl_sb_type. skn. unfold Fh. fin.
  - rewrite (fl_sb_sep fl_param (sb_param Fh (Some x)) (fun p k => fl_sb_param p (Some x) k)), fl_sb_vardecls, (proj2 fl_sb_stmt).
    skn. unfold Fh. fin.
Qed.

Lemma fl_sb_decls l : forall k, flat_map fl_decl (sb_decls Fh k l) = sk h k (flat_map fl_decl l).
Proof.
  induction l as [|d r IH]; intros k; [reflexivity|]. cbn [sb_decls flat_map]. rewrite fl_sb_decl, IH. skn. reflexivity.
Qed.

Theorem flatten_sb p : flatten (sb_prog Fh p) = sk h 0 (flatten p).
Proof. unfold flatten, sb_prog. cbn [a_decls a_ceof]. rewrite fl_sb_decls. skn. reflexivity. Qed.
(* ---- expected ---- *)
Lemma len_sb_expr :
  (forall v q k, len (fl_var (sb_var Fh q k v)) = len (fl_var v)) /\
  (forall f q k, len (fl_fac (sb_fac Fh q k f)) = len (fl_fac f)) /\
  (forall m q k, len (fl_mul (sb_mul Fh q k m)) = len (fl_mul m)) /\
  (forall a q k, len (fl_add (sb_add Fh q k a)) = len (fl_add a)) /\
  (forall e q k, len (fl_cmp (sb_cmp Fh q k e)) = len (fl_cmp e)).
Proof. destruct fl_sb_expr as [H1 [H2 [H3 [H4 H5]]]]. repeat split; intros; rewrite ?H1, ?H2, ?H3, ?H4, ?H5; apply sk_length. Qed.

Lemma rn_x_ident c q D o cc x k : k = D + o + len cc ->
  x_ident o cc (Fh c q k x) = rn_ident Fh c q D (x_ident o cc x).
Proof. intros ->. unfold rn_ident, x_ident, Fh. cbn [id_val id_info i_e mkinfo]. do 2 f_equal. lia. Qed.

Theorem x_sb_expr :
  (forall v q D o k, k = D + o -> x_var o (sb_var Fh q k v) = rn_var Fh q D (x_var o v)) /\
  (forall f q D o k, k = D + o -> x_fac o (sb_fac Fh q k f) = rn_expr Fh q D (x_fac o f)) /\
  (forall m q D o k, k = D + o -> x_mul o (sb_mul Fh q k m) = rn_expr Fh q D (x_mul o m)) /\
  (forall a q D o k, k = D + o -> x_add o (sb_add Fh q k a) = rn_expr Fh q D (x_add o a)) /\
  (forall e q D o k, k = D + o -> x_cmp o (sb_cmp Fh q k e) = rn_expr Fh q D (x_cmp o e)).
Proof.
  destruct len_sb_expr as [L1 [L2 [L3 [L4 L5]]]].
  apply aexpr_mutind.
  - intros c x q D o k ->. cbn [sb_var x_var rn_var]. f_equal. now apply rn_x_ident.
  - intros v IHv c1 e IHe c2 q D o k ->. cbn [sb_var x_var rn_var fl_var]. rewrite ?app_length, ?L1, ?L5. cbn [length]. rewrite ?app_length, ?L5.
    f_equal; [apply IHv; reflexivity|]. do 2 f_equal. apply IHe. lia.
  - intros c l q D o k ->. reflexivity.
  - intros v IHv q D o k ->. cbn [sb_fac x_fac rn_expr]. f_equal. now apply IHv.
  - intros c f IHf q D o k ->. cbn [sb_fac x_fac rn_expr fl_fac]. rewrite ?app_length. cbn [length]. rewrite ?L2. f_equal. apply IHf. lia.
  - intros c1 e IHe c2 q D o k ->. cbn [sb_fac x_fac rn_expr fl_fac]. rewrite ?app_length. cbn [length]. rewrite ?app_length, ?L5. f_equal. apply IHe. lia.
  - intros f IHf q D o k ->. cbn [sb_mul x_mul]. now apply IHf.
  - intros m IHm c op f IHf q D o k ->. cbn [sb_mul x_mul rn_expr fl_mul]. rewrite ?app_length. cbn [length]. rewrite ?L2, ?L3.
    f_equal; [now apply IHm | apply IHf; lia].
  - intros m IHm q D o k ->. cbn [sb_add x_add]. now apply IHm.
  - intros a IHa c op m IHm q D o k ->. cbn [sb_add x_add rn_expr fl_add]. rewrite ?app_length. cbn [length]. rewrite ?L3, ?L4.
    f_equal; [now apply IHa | apply IHm; lia].
  - intros a IHa q D o k ->. cbn [sb_cmp x_cmp]. now apply IHa.
  - intros l IHl c op r IHr q D o k ->. cbn [sb_cmp x_cmp rn_expr fl_cmp]. rewrite ?app_length. cbn [length]. rewrite ?L4.
    f_equal; [now apply IHl | apply IHr; lia].
Qed.
Lemma len_sb_type t q k : len (fl_type (sb_type Fh q k t)) = len (fl_type t).
Proof. rewrite fl_sb_type. apply sk_length. Qed.

Lemma x_sb_type t : forall q D o k, k = D + o -> x_type o (sb_type Fh q k t) = rn_texpr Fh q D (x_type o t).
Proof.
  induction t as [c x | ca cl cz size cr co base IH]; intros q D o k ->; cbn [sb_type x_type rn_texpr].
  - f_equal. now apply rn_x_ident.
  - cbn [fl_type]. rewrite ?app_length. cbn [length]. rewrite ?app_length. cbn [length]. rewrite ?app_length. cbn [length].
    rewrite ?app_length. cbn [length]. rewrite ?app_length. cbn [length]. rewrite len_sb_type. do 3 f_equal. apply IH. lia.
Qed.

Lemma x_sb_tail {A B} (fl : A -> list kind) (x : A -> B) (sb : nat -> A -> A) (rn : nat -> B -> B) :
  (forall a k, len (fl (sb k a)) = len (fl a)) -> (forall a k, x (sb k a) = rn k (x a)) ->
  forall l D o k, k = D + o ->
    x_tail fl x o (sb_tail fl sb k l) = map (fun a => (rn (D + snd a) (fst a), snd a)) (x_tail fl x o l).
Proof.
  intros Hl Hx. induction l as [|[c a] r IH]; intros D o k ->; [reflexivity|].
  cbn [sb_tail x_tail map fst snd]. rewrite Hx, Hl. f_equal; [f_equal; f_equal; lia|]. apply IH. lia.
Qed.

Lemma x_sb_sep {A B} (fl : A -> list kind) (x : A -> B) (sb : nat -> A -> A) (rn : nat -> B -> B) :
  (forall a k, len (fl (sb k a)) = len (fl a)) -> (forall a k, x (sb k a) = rn k (x a)) ->
  forall l D o k, k = D + o ->
    x_sep fl x o (sb_sep fl sb k l) = map (fun a => (rn (D + snd a) (fst a), snd a)) (x_sep fl x o l).
Proof.
  intros Hl Hx [[a r]|] D o k ->; [|reflexivity]. cbn [sb_sep x_sep map fst snd]. rewrite Hx, Hl.
  f_equal. apply (x_sb_tail fl x sb rn Hl Hx). lia.
Qed.

Lemma rn_block_go q D body :
  (fix go (l : list (stmt * nat)) : list (stmt * nat) :=
     match l with [] => [] | (x, off) :: r => (rn_stmt Fh q (D + off) x, off) :: go r end) body
  = rn_stmts Fh q D body.
Proof. unfold rn_stmts. induction body as [|[x off] r IH]; [reflexivity|]. cbn [map fst snd]. now rewrite IH. Qed.

Lemma len_sb_stmt :
  (forall s q k, len (fl_stmt (sb_stmt Fh q k s)) = len (fl_stmt s)) /\
  (forall b q k, len (fl_stmts (sb_stmts Fh q k b)) = len (fl_stmts b)).
Proof. destruct fl_sb_stmt as [H1 H2]. split; intros; rewrite ?H1, ?H2; apply sk_length. Qed.

Lemma len_sb_sep {A} (fl : A -> list kind) (sb : nat -> A -> A) :
  (forall a k, fl (sb k a) = sk h k (fl a)) -> forall o k, len (fl_sep fl (sb_sep fl sb k o)) = len (fl_sep fl o).
Proof. intros H o k. rewrite (fl_sb_sep fl sb H). apply sk_length. Qed.

Theorem x_sb_stmt :
  (forall s q D o k, k = D + o -> x_stmt o (sb_stmt Fh q k s) = rn_stmt Fh q D (x_stmt o s)) /\
  (forall b q D o k, k = D + o -> x_stmts o (sb_stmts Fh q k b) = rn_stmts Fh q D (x_stmts o b)).
Proof.
  destruct len_sb_expr as [L1 [_ [_ [_ L5]]]]. destruct len_sb_stmt as [LS LB].
  destruct x_sb_expr as [Xv [_ [_ [_ Xe]]]]. destruct fl_sb_expr as [_ [_ [_ [_ Fe]]]].
  apply astmt_mutind.
  - intros c q D o k ->. reflexivity.
  - intros v c1 e c2 q D o k ->. cbn [sb_stmt x_stmt rn_stmt rn_oexpr fl_stmt]. rewrite ?app_length. cbn [length]. rewrite ?app_length, ?L1, ?L5.
    f_equal; [now apply Xv|]. do 2 f_equal. apply Xe. lia.
  - intros c1 f c2 a c3 c4 q D o k ->. cbn [sb_stmt x_stmt rn_stmt fl_stmt].
    rewrite ?app_length. cbn [length]. rewrite ?app_length. cbn [length]. rewrite ?app_length.
    rewrite (len_sb_sep fl_cmp (sb_cmp Fh q) (fun a k => Fe a q k)).
    f_equal; [now apply rn_x_ident|].
    apply (x_sb_sep fl_cmp (x_cmp 0) (sb_cmp Fh q) (rn_expr Fh q)); [intros a0 k0; apply L5 | intros a0 k0; apply Xe; lia | lia].
  - intros c1 c2 e c3 t IHt q D o k ->. cbn [sb_stmt x_stmt rn_stmt rn_oexpr fl_stmt]. cbv zeta.
    rewrite ?app_length. cbn [length]. rewrite ?app_length. cbn [length]. rewrite ?app_length. cbn [length]. rewrite ?L5, ?LS.
    f_equal; [do 2 f_equal; apply Xe; lia | do 2 f_equal; apply IHt; lia].
  - intros c1 c2 e c3 t IHt c4 s IHs q D o k ->. cbn [sb_stmt x_stmt rn_stmt rn_oexpr fl_stmt]. cbv zeta.
    rewrite ?app_length. cbn [length]. rewrite ?app_length. cbn [length]. rewrite ?app_length. cbn [length].
    rewrite ?app_length. cbn [length]. rewrite ?app_length. cbn [length]. rewrite ?L5, ?LS.
    f_equal; [do 2 f_equal; apply Xe; lia | do 2 f_equal; apply IHt; lia | do 2 f_equal; apply IHs; lia].
  - intros c1 c2 e c3 b IHb q D o k ->. cbn [sb_stmt x_stmt rn_stmt rn_oexpr fl_stmt]. cbv zeta.
    rewrite ?app_length. cbn [length]. rewrite ?app_length. cbn [length]. rewrite ?app_length. cbn [length]. rewrite ?L5, ?LS.
    f_equal; [do 2 f_equal; apply Xe; lia | do 2 f_equal; apply IHb; lia].
  - intros c1 b IHb c2 q D o k ->. cbn [sb_stmt x_stmt rn_stmt fl_stmt]. rewrite rn_block_go.
    rewrite ?app_length. cbn [length]. rewrite ?app_length. cbn [length]. rewrite ?LB. f_equal. apply IHb. lia.
  - intros q D o k ->. reflexivity.
  - intros s IHs r IHr q D o k ->. cbn [sb_stmts x_stmts]. unfold rn_stmts. cbn [map fst snd]. rewrite LS.
    f_equal; [f_equal; apply IHs; lia|]. apply IHr. lia.
Qed.
Lemma len_sb_param p q k : len (fl_param (sb_param Fh q k p)) = len (fl_param p).
Proof. rewrite fl_sb_param. apply sk_length. Qed.
Lemma len_sb_vardecl d q k : len (fl_vardecl (sb_vardecl Fh q k d)) = len (fl_vardecl d).
Proof. rewrite fl_sb_vardecl. apply sk_length. Qed.
Lemma len_sb_decl d k : len (fl_decl (sb_decl Fh k d)) = len (fl_decl d).
Proof. rewrite fl_sb_decl. apply sk_length. Qed.

Lemma x_sb_param p q k : x_param (sb_param Fh q k p) = rn_param Fh q k (x_param p).
Proof.
  pose proof (len_sb_param p q k) as Hl.
  destruct p as [c x cc t | cr c x cc t]; cbn [sb_param] in Hl |- *; cbn [x_param]; rewrite Hl; cbn [rn_param rn_otexpr option_map].
  - f_equal; [f_equal; apply rn_x_ident; cbn [length]; lia|]. do 2 f_equal. apply x_sb_type. lia.
  - f_equal; [f_equal; apply rn_x_ident; lia|]. do 2 f_equal. apply x_sb_type. lia.
Qed.

Lemma x_sb_vardecl d q k : x_vardecl (sb_vardecl Fh q k d) = rn_vardecl Fh q k (x_vardecl d).
Proof.
  pose proof (len_sb_vardecl d q k) as Hl. destruct d as [c1 c2 x c3 t c4]. unfold x_vardecl. rewrite Hl. unfold sb_vardecl.
  cbn [v_c1 v_c2 v_x v_c3 v_t v_c4 rn_vardecl rn_otexpr option_map].
  f_equal; [f_equal; apply rn_x_ident; lia|]. do 2 f_equal. apply x_sb_type. lia.
Qed.

Lemma x_sb_vardecls l : forall q D o k, k = D + o ->
  x_vardecls o (sb_vardecls Fh q k l) = map (fun x => (rn_vardecl Fh q (D + snd x) (fst x), snd x)) (x_vardecls o l).
Proof.
  induction l as [|d r IH]; intros q D o k ->; [reflexivity|]. cbn [sb_vardecls x_vardecls map fst snd].
  rewrite x_sb_vardecl, len_sb_vardecl. f_equal. apply IH. lia.
Qed.

Lemma x_sb_decl d k : x_decl (sb_decl Fh k d) = rn_gdecl Fh k (x_decl d).
Proof.
  pose proof (len_sb_decl d k) as Hl.
  destruct d as [c1 c2 x c3 t c4 | c1 c2 x c3 ps c4 c5 vs b c6]; unfold x_decl; rewrite Hl; cbn [sb_decl rn_gdecl]; cbv zeta;
    cbn [td_doc td_name td_ty td_info pd_doc pd_name pd_params pd_vars pd_stmts pd_info option_map rn_otexpr id_val x_ident].
  - f_equal. f_equal; [f_equal; apply rn_x_ident; lia|]. do 2 f_equal. apply x_sb_type. lia.
  - rewrite (len_sb_sep fl_param (sb_param Fh (Some x)) (fun p k => fl_sb_param p (Some x) k)).
    rewrite fl_sb_vardecls, sk_length.
    f_equal. f_equal.
    + f_equal. apply rn_x_ident. lia.
    + apply (x_sb_sep fl_param x_param (sb_param Fh (Some x)) (rn_param Fh (Some x))); [intros a0 k0; apply len_sb_param | intros a0 k0; apply x_sb_param | lia].
    + apply x_sb_vardecls. lia.
    + apply (proj2 x_sb_stmt). lia.
Qed.

Lemma x_sb_decls l : forall o,
  x_decls o (sb_decls Fh o l) = map (fun x => (rn_gdecl Fh (snd x) (fst x), snd x)) (x_decls o l).
Proof.
  induction l as [|d r IH]; intros o; [reflexivity|]. cbn [sb_decls x_decls map fst snd].
  rewrite x_sb_decl, len_sb_decl. f_equal. apply IH.
Qed.

Theorem expected_sb p : expected (sb_prog Fh p) = rn_program Fh (expected p).
Proof.
  unfold expected, rn_program, sb_prog. cbn [a_decls a_ceof pg_decls pg_info]. rewrite x_sb_decls, fl_sb_decls, sk_length. reflexivity.
Qed.

(* the dangling-else shape does not depend on spellings *)
Lemma ok_sb_stmt :
  (forall s q k, open_if (sb_stmt Fh q k s) = open_if s /\ else_ok (sb_stmt Fh q k s) = else_ok s) /\
  (forall b q k, else_oks (sb_stmts Fh q k b) = else_oks b).
Proof.
  apply astmt_mutind.
  - intros c q k. split; reflexivity.
  - intros v c1 e c2 q k. split; reflexivity.
  - intros c1 f c2 a c3 c4 q k. split; reflexivity.
  - intros c1 c2 e c3 t IHt q k. cbn [sb_stmt open_if else_ok]. cbv zeta. split; [reflexivity | apply IHt].
  - intros c1 c2 e c3 t IHt c4 s IHs q k. cbn [sb_stmt]. cbv zeta. cbn [open_if else_ok].
    split; [apply IHs|]. now rewrite (proj1 (IHt _ _)), (proj2 (IHt _ _)), (proj2 (IHs _ _)).
  - intros c1 c2 e c3 b IHb q k. cbn [sb_stmt open_if else_ok]. cbv zeta. apply IHb.
  - intros c1 b IHb c2 q k. cbn [sb_stmt open_if else_ok]. split; [reflexivity | apply IHb].
  - intros q k. reflexivity.
  - intros s IHs r IHr q k. cbn [sb_stmts else_oks]. now rewrite (proj2 (IHs _ _)), IHr.
Qed.

Theorem prog_ok_sb p : prog_ok (sb_prog Fh p) = prog_ok p.
Proof.
  unfold prog_ok, sb_prog. cbn [a_decls]. generalize 0. induction (a_decls p) as [|d r IH]; intros k; [reflexivity|].
  cbn [sb_decls forallb]. rewrite IH. f_equal. destruct d; cbn [sb_decl decl_ok]; [reflexivity|]. apply (proj2 ok_sb_stmt).
Qed.
End Flat.
