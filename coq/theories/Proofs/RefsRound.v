(* C13, second half - applying a rename to a fresh name and renaming back, on VALID programs in ANY layout:
   [roundtrip_valid] = Spec/Nav.v [roundtrip_statement] with "document without diagnostics" replaced by "layout of a
   well-typed abstract program" (the formulation of Proofs/RefsValid.v [refs_valid]).  Assembly of
     Proofs/RefsValid*.v      what rename answers ([rename_valid]: the edits, in the order of the occurrences),
     Proofs/RefsRoundAsc.v    the occurrences of one binding stand in ascending token order ([keyL_sorted]),
     Proofs/RefsRoundLex.v    the edited text lexes to the respelled tokens, the reverse edits restore the text,
     Proofs/RefsRoundNoLit.v  no literal token directly in front of an identifier,
     Proofs/RefsRoundAbs.v    the respelled tokens are the tokens of the abstract program p' = [sb_prog] .. p, whose
                              mandated tree is the old tree renamed,
     Proofs/RefsRoundKey.v    that tree is well-typed (alpha-renaming, Proofs/RefsRoundTyping.v) and its occurrences
                              carry the same keys,
     C03 ([no_false_positive_tree]) and C04 ([roundtrip]) for the analysis of the new text. *)
From Coq Require Import PeanoNat Lia Bool List NArith Permutation Sorting.Sorted.
From Spl Require Import Proofs.GrammarBase Proofs.GrammarExpr Proofs.GrammarStmt.
From Spl Require Import Proofs.GrammarProofs Spec.Typing Model.Errors Proofs.SemProofs Proofs.TypingProofs.
From Spl Require Import Model.Hover Model.Fold Proofs.LexerProofs Proofs.FoldProofs Proofs.HoverProofs.
From Spl Require Import Proofs.RangeProofsIdent Proofs.HoverValid.
From Spl Require Import Proofs.GotoProofs Proofs.RefsProofs Spec.Nav.
From Spl Require Import Proofs.RefsValidWalks Proofs.RefsValidSem Proofs.RefsValidKey Proofs.RefsValidModel Proofs.RefsValid.
From Spl Require Import Proofs.RefsRoundDefs Proofs.RefsRoundText Proofs.RefsRoundAsc Proofs.RefsRoundAbs Proofs.RefsRoundOcc.
From Spl Require Import Proofs.RefsRoundLex Proofs.RefsRoundNoLit Proofs.RefsRoundKey Proofs.GotoValidModel.
Import ListNotations.
Local Open Scope nat_scope.

(* ---------------------------------------------------------------------------------------- *)
(* rename, exactly: the edits in the order of the occurrences (as Proofs/RefsValidModel.v [refs_at]) *)

Definition rename_answer (d : doc) (o : occ) : option (list loc) :=
  match binding (occurrences (d_ast d)) o with
  | Some _ => Some (map (fun x => pos_range (tokr (d_toks d) x) (d_text d)) (filter (fun x => samekey x o) (occurrences (d_ast d))))
  | None => None
  end.

Theorem rename_at (d : doc) (o : occ) line col tok gd D ctx :
  let occs := occurrences (d_ast d) in
  let index := get_insertion_index line col (d_text d) in
  let gp := global_kind (prev_kind_k None (firstn (o_tok o) (map tk (d_toks d)))) in
  toks_sorted (d_toks d) = true -> nth_error (d_toks d) (o_tok o) = Some tok -> tk tok = Ident (o_name o) ->
  (ts tok <= index)%N -> (index < te tok)%N ->
  find_decl (d_toks d) index (pg_decls (d_ast d)) = ROk (Some (gd, D)) ->
  match gdecl_name gd with Some n => lookup (d_table d) (id_val n) | None => None end = Some ctx ->
  In o occs -> (forall x, In x occs -> occ_ok (d_toks d) x) ->
  find_referenced_identifiers (o_name o) ctx (d_ast d) (d_table d) gp = map o_id (filter (fun x => samekey x o) occs) ->
  is_predefined (o_name o) ctx (d_table d) gp = match binding occs o with Some _ => false | None => true end ->
  rename d line col = ROk (rename_answer d o).
Proof.
  intros occs index gp Hs Hn Hk H1 H2 Hf Hc Ho Hok Hwalk Hpre.
  destruct (cursor_frame d line col (o_tok o) tok (o_name o) gd D ctx Hs Hn Hk H1 H2 Hf Hc) as [c [Hdc [Hid [Hctx Hgp]]]].
  fold gp in Hgp. set (L := filter (fun x => samekey x o) occs).
  assert (HL : forall x, In x L -> occ_ok (d_toks d) x) by (intros x Hx; apply Hok; now apply filter_In in Hx).
  assert (Htr : text_ranges (d_toks d) (find_referenced_identifiers (o_name o) ctx (d_ast d) (d_table d) gp)
                = ROk (map (fun x => (o_name x, tokr (d_toks d) x)) L)).
  { rewrite Hwalk. now apply text_ranges_occs. }
  unfold rename_answer, rename, with_cursor_r. fold occs. rewrite Hdc. cbn [rbind]. rewrite Hid, Hctx, Hgp. cbn [fst]. rewrite Hpre.
  destruct (binding occs o) as [b|]; [|reflexivity]. rewrite Htr. cbn [rbind]. rewrite map_map. reflexivity.
Qed.

Theorem rename_valid : forall (p : aprog) (G : gtable) (t : text) (toks : list token),
  prog_ok p = true -> well_typed (expected p) G ->
  lex t = Some toks -> map tk toks = flatten p ++ [Eof] ->
  let d := {| d_text := t; d_toks := toks; d_ast := expected p; d_table := G |} in
  forall o l c, In o (occurrences (expected p)) -> cursor_inside d o l c -> rename d l c = ROk (rename_answer d o).
Proof.
  intros p G t toks Hok Hwt Hlex Hk d o line col Ho Hcur.
  assert (Hs : toks_sorted toks = true) by exact (ordered_sorted 0 _ (tiles_ordered 0 t _ (lex_tiles t _ Hlex))).
  assert (Hkind : forall x l1 dd l2 j, placed p x l1 dd l2 j -> nth_error (map tk toks) (o_tok x) = Some (Ident (o_name x))).
  { intros x l1 dd l2 j [Hds [_ [Hj [Hn _]]]]. rewrite Hk, Hj. unfold flatten. rewrite Hds, flat_map_app. cbn [flat_map].
    rewrite <- !app_assoc. now apply nth_error_mid. }
  assert (Hall : forall x, In x (occurrences (d_ast d)) -> occ_ok (d_toks d) x).
  { intros x Hx. cbn [d d_ast d_toks] in *. split.
    - apply (occs_idok (expected p)); [|exact Hx]. exact (parse_idents_nonempty _ _ (roundtrip p toks Hok Hk)).
    - destruct (occ_placed p x Hx) as [l1 [dd [l2 [j Hpl]]]]. pose proof (Hkind _ _ _ _ _ Hpl) as Hn.
      rewrite nth_error_map in Hn. destruct (nth_error toks (o_tok x)); [discriminate | discriminate Hn]. }
  destruct (occ_placed p o Ho) as [l1 [dd [l2 [j Hpl]]]]. pose proof (Hkind _ _ _ _ _ Hpl) as Hnk.
  destruct Hpl as [Hds [Hod [Hj [Hn Hg]]]]. set (pre := flat_map fl_decl l1) in *.
  destruct Hcur as [tok [Hnt Hr]]. cbn [d d_toks d_text] in Hnt, Hr.
  assert (Hid : tk tok = Ident (o_name o)). { rewrite nth_error_map, Hnt in Hnk. now injection Hnk. }
  unfold in_range in Hr. cbn [fst snd] in Hr. apply andb_true_iff in Hr as [Hr1 Hr2]. apply N.leb_le in Hr1. apply N.ltb_lt in Hr2.
  assert (Hjl : j < len (fl_decl dd)) by (apply nth_error_Some; congruence).
  assert (Hlen : len (flat_map fl_decl (a_decls p)) <= len toks).
  { rewrite <- (map_length tk toks), Hk. unfold flatten. rewrite !app_length. lia. }
  assert (Hg0 : In (x_decl dd, len pre) (pg_decls (expected p))).
  { cbn [expected pg_decls]. rewrite Hds. exact (x_decls_mid l1 0 dd l2). }
  assert (Hfd : find_decl (d_toks d) (get_insertion_index line col (d_text d)) (pg_decls (d_ast d)) = ROk (Some (x_decl dd, 0 + len pre))).
  { cbn [d d_toks d_ast d_text expected pg_decls]. rewrite Hds.
    apply (find_decl_hit toks _ (o_tok o) tok Hs Hnt Hr1 Hr2 l1 0 dd l2); rewrite <- ?Hds; fold pre; lia. }
  cbn [Nat.add] in Hfd.
  pose proof (well_typed_facts _ _ Hwt _ Hg0) as Hf. unfold decl_facts in Hf. cbn [fst snd] in Hf.
  assert (Hctx : exists ctx, match gdecl_name (x_decl dd) with Some n => lookup (d_table d) (id_val n) | None => None end = Some ctx).
  { cbn [d d_table]. destruct (x_decl dd) as [td|pd|inf]; [| |contradiction]; cbn [gdecl_name].
    - destruct Hf as [name [te [Hnm [Hl _]]]]. rewrite Hnm, Hl. eauto.
    - destruct Hf as [name [pe [Hnm [Hl _]]]]. rewrite Hnm, Hl. eauto. }
  destruct Hctx as [ctx Hctx].
  assert (Hgp : global_kind (prev_kind_k None (firstn (o_tok o) (map tk (d_toks d))))
                = global_kind (prev_kind_k (prev_kind_k None pre) (firstn j (fl_decl dd)))).
  { cbn [d d_toks]. rewrite Hk, Hj. unfold flatten. rewrite Hds, flat_map_app. cbn [flat_map]. fold pre. rewrite <- !app_assoc.
    rewrite firstn_app_ge, prev_app, firstn_app_lt by lia. reflexivity. }
  destruct (referenced_key (expected p) G Hwt (x_decl dd) (len pre) o ctx
              (global_kind (prev_kind_k None (firstn (o_tok o) (map tk (d_toks d))))) Hg0 Hod Hctx) as [Hwalk Hpre].
  { unfold gp_ok. rewrite Hgp. destruct (x_decl dd); try exact I. exact Hg. }
  exact (rename_at d o line col tok (x_decl dd) (len pre) ctx Hs Hnt Hid Hr1 Hr2 Hfd Hctx Ho Hall Hwalk Hpre).
Qed.

(* ---------------------------------------------------------------------------------------- *)
(* the edits are the ranges of the selected tokens, in text order *)

Lemma sel_ranges_ext sel sel' toks : forall base,
  (forall j, j < length toks -> sel (base + j) = sel' (base + j)) -> sel_ranges sel base toks = sel_ranges sel' base toks.
Proof.
  induction toks as [|t r IH]; intros base H; [reflexivity|]. cbn [sel_ranges].
  assert (E0 : sel (base + 0) = sel' (base + 0)) by (apply H; cbn [length]; lia). rewrite Nat.add_0_r in E0. rewrite E0. f_equal.
  apply IH. intros j Hj. replace (S base + j) with (base + S j) by lia. apply H. cbn [length]. lia.
Qed.

Definition insel (ks : list nat) (k : nat) : bool := existsb (fun y => Nat.eqb y k) ks.

Lemma insel_false ks k : (forall y, In y ks -> k < y) -> insel ks k = false.
Proof.
  intros H. unfold insel. destruct (existsb (fun y => Nat.eqb y k) ks) eqn:E; [|reflexivity].
  apply existsb_exists in E as [y [Hy He]]. apply Nat.eqb_eq in He. specialize (H y Hy). lia.
Qed.

Definition rng (toks : list token) (k : nat) : N * N :=
  match nth_error toks k with Some t => (ts t, te t) | None => (0%N, 0%N) end.

Lemma sel_ranges_sorted toks : forall ks base,
  StronglySorted lt ks -> (forall k, In k ks -> base <= k < base + length toks) ->
  sel_ranges (insel ks) base toks = map (fun k => rng toks (k - base)) ks.
Proof.
  induction toks as [|t r IH]; intros ks base Hs Hb.
  - destruct ks as [|k ks]; [reflexivity|]. specialize (Hb k (or_introl eq_refl)). cbn [length] in Hb. lia.
  - cbn [sel_ranges]. destruct ks as [|k ks].
    + change (insel [] base) with false. cbn [app map]. rewrite (IH [] (S base)); [reflexivity | constructor | intros k []].
    + apply StronglySorted_inv in Hs as [Hs Hk]. rewrite Forall_forall in Hk.
      destruct (Nat.eq_dec k base) as [->|Hne].
      * unfold insel at 1. cbn [existsb]. rewrite Nat.eqb_refl. cbn [orb app map]. rewrite Nat.sub_diag. unfold rng at 1. cbn [nth_error].
        f_equal. rewrite (sel_ranges_ext _ (insel ks) r (S base)).
        -- rewrite (IH ks (S base) Hs).
           ++ apply map_ext_in. intros y Hy. specialize (Hk y Hy). unfold rng. replace (y - base) with (S (y - S base)) by lia. reflexivity.
           ++ intros y Hy. specialize (Hk y Hy). specialize (Hb y (or_intror Hy)). cbn [length] in Hb. lia.
        -- intros j Hj. unfold insel. cbn [existsb]. destruct (Nat.eqb_spec base (S base + j)); [lia | reflexivity].
      * assert (Hlt : base < k) by (specialize (Hb k (or_introl eq_refl)); lia).
        rewrite (insel_false (k :: ks) base).
        2:{ intros y [<-|Hy]; [exact Hlt | specialize (Hk y Hy); lia]. }
        cbn [app]. rewrite (IH (k :: ks) (S base)).
        -- apply map_ext_in. intros y Hy. unfold rng. assert (base < y) by (destruct Hy as [<-|Hy]; [exact Hlt | specialize (Hk y Hy); lia]).
           replace (y - base) with (S (y - S base)) by lia. reflexivity.
        -- constructor; [exact Hs | now apply Forall_forall].
        -- intros y Hy. specialize (Hb y Hy). cbn [length] in Hb.
           assert (base < y) by (destruct Hy as [<-|Hy]; [exact Hlt | specialize (Hk y Hy); lia]). lia.
Qed.

Lemma named_fshift n : fshift (named n).
Proof. intros i off. reflexivity. Qed.

(* the occurrences with one key stand in ascending token order *)
Theorem keyL_sorted (p : aprog) (G : gtable) (o : occ) : well_typed (expected p) G -> In o (occurrences (expected p)) ->
  StronglySorted lt (map o_tok (keyL (expected p) o)).
Proof.
  intros Hwt Ho. unfold keyL.
  replace (map o_tok (filter (fun x => samekey x o) (occurrences (expected p))))
    with (map itok (map o_id (filter (fun x => samekey x o) (occurrences (expected p))))) by (rewrite map_map; reflexivity).
  destruct (cls (o_role o)) eqn:Ec.
  - rewrite (walk_types (expected p) o Ec). apply find_types_sorted, named_fshift.
  - rewrite (walk_procs (expected p) o Ec). apply find_procs_sorted, named_fshift.
  - destruct (occ_placed p o Ho) as [l1 [dd [l2 [j [Hds [Hod _]]]]]].
    assert (Hg0 : In (x_decl dd, len (flat_map fl_decl l1)) (pg_decls (expected p))).
    { cbn [expected pg_decls]. rewrite Hds. exact (x_decls_mid l1 0 dd l2). }
    destruct dd as [c1 c2 xn c3 ty c4 | c1 c2 xn c3 ps c4 c5 vs b0 c6].
    + cbn [x_decl] in Hod. apply link_decl_type in Hod as [_ [i Hr _ _ | i te0 toff Hr _ _ _ _]]; rewrite Hr in Ec; discriminate.
    + set (dd := DProc c1 c2 xn c3 ps c4 c5 vs b0 c6) in *. change (x_decl dd) with (GProc (the_proc dd)) in *.
      pose proof Hod as Hod'. apply link_decl_proc in Hod' as [Hp _].
      rewrite (walk_vars (expected p) G Hwt o (the_proc dd) _ (x_ident (len c1 + 1) c2 xn) Ec Hg0 eq_refl Hp).
      apply vars_of_proc_sorted, named_fshift.
Qed.

(* ---------------------------------------------------------------------------------------- *)
(* small facts for the assembly *)

Lemma Forall2_nth {A B} (R : A -> B -> Prop) l l' : Forall2 R l l' ->
  forall i a b, nth_error l i = Some a -> nth_error l' i = Some b -> R a b.
Proof.
  induction 1 as [|x y l l' Hxy _ IH]; intros [|i] a b Ha Hb; cbn [nth_error] in *; try discriminate.
  - injection Ha as <-. injection Hb as <-. exact Hxy.
  - eauto.
Qed.

Lemma Forall2_len {A B} (R : A -> B -> Prop) l l' : Forall2 R l l' -> length l' = length l.
Proof. induction 1; cbn [length]; congruence. Qed.

Lemma Forall2_filter_map {A B C} (R : A -> B -> Prop) (f : A -> bool) (f' : B -> bool) (m : A -> C) (m' : B -> C) l l' :
  Forall2 R l l' -> (forall a b, In a l -> In b l' -> R a b -> f' b = f a /\ m' b = m a) ->
  map m' (filter f' l') = map m (filter f l).
Proof.
  induction 1 as [|x y l l' Hxy _ IH]; intros H; [reflexivity|]. cbn [filter].
  destruct (H x y (or_introl eq_refl) (or_introl eq_refl) Hxy) as [E1 E2]. rewrite E1.
  destruct (f x); cbn [map]; rewrite ?E2, IH; auto; intros a b Ha Hb; apply H; now right.
Qed.

Lemma existsb_map' {A B} (f : B -> bool) (m : A -> B) l : existsb f (map m l) = existsb (fun x => f (m x)) l.
Proof. induction l as [|a l IH]; [reflexivity|]. cbn [map existsb]. now rewrite IH. Qed.

Lemma init_default x : lookup initialized x <> None -> existsb (text_eqb x) default_entries = true.
Proof.
  intros H. apply lookup_some_keys in H. apply existsb_exists. exists x. split; [|apply text_eqb_refl].
  revert H. generalize x. apply Forall_forall. repeat (constructor; [vm_compute; repeat (first [left; reflexivity | right])|]). constructor.
Qed.

Lemma ranges_of_keys toks (ks : list nat) sel : StronglySorted lt ks -> (forall k, In k ks -> k < length toks) ->
  (forall k, sel k = insel ks k) -> sel_ranges sel 0 toks = map (rng toks) ks.
Proof.
  intros Hs Hb He. rewrite (sel_ranges_ext sel (insel ks) toks 0) by (intros j _; apply He).
  rewrite (sel_ranges_sorted toks ks 0 Hs) by (intros k Hk; specialize (Hb k Hk); lia).
  apply map_ext. intros k. now rewrite Nat.sub_0_r.
Qed.

Lemma keysel_insel pr o k : keysel pr o k = insel (map o_tok (keyL pr o)) k.
Proof. unfold keysel, insel. now rewrite existsb_map'. Qed.

Lemma tokr_rng toks (L : list occ) : map (tokr toks) L = map (rng toks) (map o_tok L).
Proof. rewrite map_map. reflexivity. Qed.

(* ---------------------------------------------------------------------------------------- *)
(* the round trip *)

(* new is a valid identifier, spelled nowhere in the document, and names nothing predefined
   (Spec/Nav.v [fresh_name] with "lexes as one identifier token" spelled out) *)
Definition fresh_for (toks : list token) (new : text) : Prop :=
  FormatProofs.ident_ok new /\ (forall tok, In tok toks -> tk tok <> Ident new)
  /\ existsb (text_eqb new) default_entries = false.

Section Round.
Variables (p : aprog) (G : gtable) (t : text) (toks : list token) (o : occ) (new : text).
Hypothesis Hok : prog_ok p = true.
Hypothesis Hwt : well_typed (expected p) G.
Hypothesis Hlex : lex t = Some toks.
Hypothesis Hk : map tk toks = flatten p ++ [Eof].
Hypothesis Ho : In o (occurrences (expected p)).
Hypothesis Hb : binding (occurrences (expected p)) o <> None.
Hypothesis Hfresh : fresh_for toks new.
Hypothesis Hmain : ~ ((o_role o = RProcDecl \/ o_role o = RCall) /\ o_name o = s_main).

Notation T := (expected p).
Notation occs := (occurrences (expected p)).
Notation old := (o_name o).
Notation kc := (cls (o_role o)).
Notation kp := (o_proc o).
Notation g := (kg kc old new).
Notation v := (kv kc kp old new).
Notation phi := (kphi kc kp old new).
Notation sel := (keysel (expected p) o).
Notation L := (keyL (expected p) o).
Notation FS := (Fh (hS sel new)).

Lemma tok_kind x : In x occs -> nth_error (map tk toks) (o_tok x) = Some (Ident (o_name x)).
Proof.
  intros Hx. destruct (occ_placed p x Hx) as [l1 [dd [l2 [j [Hds [_ [Hj [Hn _]]]]]]]].
  rewrite Hk, Hj. unfold flatten. rewrite Hds, flat_map_app. cbn [flat_map]. rewrite <- !app_assoc. now apply nth_error_mid.
Qed.

Lemma tok_bound x : In x occs -> o_tok x < length toks.
Proof. intros Hx. pose proof (tok_kind x Hx) as H. rewrite <- (map_length tk toks). apply nth_error_Some. congruence. Qed.

Lemma names_ok x : In x occs -> o_name x <> new /\ nodot (o_name x).
Proof.
  intros Hx. pose proof (tok_kind x Hx) as H. apply nth_error_In in H. split.
  - intros E. apply in_map_iff in H as [tok [Ht Hin]]. destruct Hfresh as [_ [Hf _]]. apply (Hf tok Hin). now rewrite Ht, E.
  - exact (GotoValidModel.lex_ident_nodot t toks _ Hlex H).
Qed.

Lemma new_init : lookup initialized new = None.
Proof.
  destruct (lookup initialized new) eqn:E; [|reflexivity]. destruct Hfresh as [_ [_ Hf]].
  rewrite init_default in Hf; [discriminate | congruence].
Qed.

Lemma main_cls : ~ (kc = CProc /\ old = s_main).
Proof. intros [Hc Hn]. apply Hmain. split; [|exact Hn]. destruct (o_role o); cbn [cls] in Hc; try discriminate; auto. Qed.

Lemma L_in x : In x L -> In x occs /\ samekey x o = true.
Proof. unfold keyL. intros H. now apply filter_In in H. Qed.

Lemma L_ranges : map (tokr toks) L = sel_ranges sel 0 toks.
Proof.
  rewrite tokr_rng. symmetry. apply ranges_of_keys.
  - exact (keyL_sorted p G o Hwt Ho).
  - intros k Hk'. apply in_map_iff in Hk' as [x [<- Hx]]. apply tok_bound. now apply L_in.
  - apply keysel_insel.
Qed.

Lemma sel_tok j : sel j = true -> nth_error (map tk toks) j = Some (Ident old).
Proof.
  unfold keysel. intros H. apply existsb_exists in H as [y [Hy He]]. apply Nat.eqb_eq in He. subst j.
  apply L_in in Hy as [Hy Hs]. apply samekey_spec in Hs as [_ [Hn _]]. rewrite <- Hn. now apply tok_kind.
Qed.

Lemma sel_ident j tok : nth_error toks j = Some tok -> sel j = true -> tk tok = Ident old.
Proof. intros Hn Hs. pose proof (sel_tok j Hs) as H. rewrite nth_error_map, Hn in H. now injection H. Qed.

Lemma sel_nolit j tok : nth_error toks j = Some tok -> sel (j + 1) = true -> notlit (tk tok).
Proof.
  intros Hn Hs. pose proof (sel_tok _ Hs) as H. rewrite Hk in H.
  apply (flatten_no_lit_ident p j (tk tok) old); [|exact H]. rewrite <- Hk, nth_error_map, Hn. reflexivity.
Qed.

(* the renamed program *)
Definition p' : aprog := sb_prog FS p.
Definition G' : gtable := rn_gtable g v phi G.

Lemma p'_ok : prog_ok p' = true.
Proof. unfold p'. now rewrite prog_ok_sb. Qed.

Lemma p'_tree : expected p' = rn_program (nmf g v) T.
Proof.
  unfold p'. rewrite expected_sb. exact (key_rn_program T G o new Hwt Ho (tok_key_inj p G Hwt)).
Qed.

Lemma p'_typed : well_typed (expected p') G'.
Proof. rewrite p'_tree. exact (key_well_typed T G o new Hwt Ho Hb names_ok new_init main_cls). Qed.

Lemma p'_kinds toks' : map tk toks' = sk (hS sel new) 0 (map tk toks) -> map tk toks' = flatten p' ++ [Eof].
Proof. intros H. rewrite H, Hk, sk_app. unfold p'. rewrite flatten_sb. reflexivity. Qed.

Lemma p'_occs : Forall2 (occN g v) occs (occurrences (expected p')).
Proof. rewrite p'_tree. apply occN_program. Qed.

Lemma o'_name o' : occN g v o o' -> o_name o' = new.
Proof.
  intros H. destruct (occN_tok _ _ _ _ H) as [_ ->].
  rewrite <- (key_agree T G o new Hwt Ho (tok_key_inj p G Hwt) o Ho). unfold F_occ, Fh, hS.
  now rewrite (keysel_spec T o (tok_key_inj p G Hwt) o Ho), samekey_refl.
Qed.

Notation dd := {| d_text := t; d_toks := toks; d_ast := expected p; d_table := G |}.

Theorem round_core n l c es t' :
  nth_error occs n = Some o -> cursor_inside dd o l c ->
  rename dd l c = ROk (Some es) -> apply_rename t es new = Some t' ->
  exists toks',
    let d' := {| d_text := t'; d_toks := toks'; d_ast := expected p'; d_table := G' |} in
    lex t' = Some toks' /\ map tk toks' = flatten p' ++ [Eof]
    /\ new_doc_res t' = ODone d' /\ doc_errors_res d' = ROk []
    /\ (Forall (fun x => terr x = []) toks -> Forall (fun x => terr x = []) toks')
    /\ length (occurrences (expected p')) = length occs
    /\ (forall i j a b a' b',
          nth_error occs i = Some a -> nth_error occs j = Some b ->
          nth_error (occurrences (expected p')) i = Some a' -> nth_error (occurrences (expected p')) j = Some b' ->
          same_entity (occurrences (expected p')) a' b' = same_entity occs a b)
    /\ (forall o' l' c',
          nth_error (occurrences (expected p')) n = Some o' -> cursor_inside d' o' l' c' ->
          exists es', rename d' l' c' = ROk (Some es') /\ apply_rename t' es' old = Some t).
Proof.
  intros Hn Hcur Hren Happ.
  (* the edits *)
  pose proof (rename_valid p G t toks Hok Hwt Hlex Hk o l c Ho Hcur) as Hrv. cbv zeta in Hrv. rewrite Hren in Hrv.
  unfold rename_answer in Hrv. cbn [d_ast d_toks d_text] in Hrv.
  assert (Ebo : exists bo, binding occs o = Some bo) by (destruct (binding occs o); [eauto | contradiction]).
  destruct Ebo as [bo Ebo]. rewrite Ebo in Hrv. injection Hrv as Hes. fold L in Hes. rewrite <- (map_map (tokr toks) (fun r => pos_range r t)), L_ranges in Hes.
  (* the text *)
  destruct Hfresh as [Hid [Hf2 Hf3]].
  destruct (lex_rename sel old new t toks Hid Hlex sel_ident sel_nolit) as [t0 [toks' [Ha [Hlex' [Hk' [Herr' Hback]]]]]].
  rewrite <- Hes, Happ in Ha. injection Ha as <-.
  pose proof (p'_kinds toks' Hk') as Hk''. pose proof p'_typed as Hwt'. pose proof p'_ok as Hok'. pose proof p'_occs as Hocc.
  exists toks'. cbv zeta.
  destruct (no_false_positive_tree _ _ (expected_clean p') Hwt') as [Hbu [Han Hte]].
  split; [exact Hlex'|]. split; [exact Hk''|]. split.
  { unfold new_doc_res. now rewrite Hlex', (roundtrip p' toks' Hok' Hk''), Hbu, Han. }
  split. { unfold doc_errors_res. cbn [d_ast d_toks]. now rewrite Hte. }
  split; [exact Herr'|]. split; [exact (Forall2_len _ _ _ Hocc)|]. split.
  - (* the same occurrences are bound together *)
    intros i j a b a' b' Hia Hjb Hia' Hjb'.
    pose proof (nth_error_In _ _ Hia) as Ia. pose proof (nth_error_In _ _ Hjb) as Ib.
    pose proof (nth_error_In _ _ Hia') as Ia'. pose proof (nth_error_In _ _ Hjb') as Ib'.
    rewrite (same_entity_key (expected p') G' Hwt' (decl_tok_inj p') a' b' Ia' Ib').
    rewrite (same_entity_key (expected p) G Hwt (decl_tok_inj p) a b Ia Ib).
    apply (key_samekey (expected p) G o new Hwt names_ok a b a' b' Ia Ib).
    + exact (Forall2_nth _ _ _ Hocc i a a' Hia Hia').
    + exact (Forall2_nth _ _ _ Hocc j b b' Hjb Hjb').
  - (* renaming back *)
    intros o' l' c' Hn' Hcur'. pose proof (nth_error_In _ _ Hn') as Io'.
    pose proof (Forall2_nth _ _ _ Hocc n o o' Hn Hn') as Hoo'.
    pose proof (rename_valid p' G' t' toks' Hok' Hwt' Hlex' Hk'' o' l' c' Io' Hcur') as Hrv'.
    unfold rename_answer in Hrv'. cbn [d_ast d_toks d_text] in Hrv'.
    destruct (binding (occurrences (expected p')) o') as [bo'|] eqn:Ebo'.
    2:{ exfalso. pose proof (binding_spec (expected p') G' Hwt' o' Io') as Hbs. rewrite Ebo' in Hbs. destruct Hbs as [_ Hbs].
        apply Hbs. rewrite (o'_name o' Hoo'). exact new_init. }
    eexists. split; [exact Hrv'|].
    rewrite <- (map_map (tokr toks') (fun r => pos_range r t')).
    replace (map (tokr toks') (filter (fun x => samekey x o') (occurrences (expected p')))) with (sel_ranges sel 0 toks'); [exact Hback|].
    rewrite tokr_rng.
    assert (Etok : map o_tok (filter (fun x => samekey x o') (occurrences (expected p'))) = map o_tok L).
    { unfold keyL. apply (Forall2_filter_map _ _ _ _ _ _ _ Hocc). intros a b Ha' Hb' Hab. split.
      - exact (key_samekey (expected p) G o new Hwt names_ok a o b o' Ha' Ho Hab Hoo').
      - exact (proj1 (occN_tok _ _ _ _ Hab)). }
    rewrite Etok. apply ranges_of_keys.
    + exact (keyL_sorted p G o Hwt Ho).
    + intros k Hk0. apply in_map_iff in Hk0 as [x [<- Hx]].
      assert (Hlen : length toks' = length toks).
      { rewrite <- (map_length tk toks'), <- (map_length tk toks), Hk'. apply sk_length. }
      rewrite Hlen. apply tok_bound. now apply L_in.
    + apply keysel_insel.
Qed.
End Round.

(* Spec/Nav.v [roundtrip_statement] with its hypothesis "document without diagnostics" replaced by "layout of a
   well-typed abstract program" (as in [refs_valid]); the renamed text is again such a layout - of the program
   p' with the identifier tokens of the binding respelled - and gets no diagnostic.  Not for the procedure
   `main`: a program without `main` is not well-typed. *)
Theorem roundtrip_valid : forall (p : aprog) (G : gtable) (t : text) (toks : list token) (d : doc) n o l c new es t',
  prog_ok p = true -> well_typed (expected p) G ->
  lex t = Some toks -> map tk toks = flatten p ++ [Eof] ->
  new_doc_res t = ODone d ->
  nth_error (occurrences (d_ast d)) n = Some o -> binding (occurrences (d_ast d)) o <> None ->
  cursor_inside d o l c -> fresh_for (d_toks d) new ->
  ~ ((o_role o = RProcDecl \/ o_role o = RCall) /\ o_name o = s_main) ->
  rename d l c = ROk (Some es) -> apply_rename t es new = Some t' ->
  exists (p' : aprog) (G' : gtable) (toks' : list token) (d' : doc),
    prog_ok p' = true /\ well_typed (expected p') G' /\ lex t' = Some toks' /\ map tk toks' = flatten p' ++ [Eof]
    /\ new_doc_res t' = ODone d' /\ doc_errors_res d' = ROk []
    /\ (Forall (fun x => terr x = []) (d_toks d) -> Forall (fun x => terr x = []) (d_toks d'))
    /\ length (occurrences (d_ast d')) = length (occurrences (d_ast d))
    /\ (forall i j a b a' b',
          nth_error (occurrences (d_ast d)) i = Some a -> nth_error (occurrences (d_ast d)) j = Some b ->
          nth_error (occurrences (d_ast d')) i = Some a' -> nth_error (occurrences (d_ast d')) j = Some b' ->
          same_entity (occurrences (d_ast d')) a' b' = same_entity (occurrences (d_ast d)) a b)
    /\ (forall o' l' c',
          nth_error (occurrences (d_ast d')) n = Some o' -> cursor_inside d' o' l' c' ->
          exists es', rename d' l' c' = ROk (Some es') /\ apply_rename t' es' (o_name o) = Some t).
Proof.
  intros p G t toks d0 n o l c new es t' Hok Hwt Hlex Hk Hd Hn Hb Hcur Hfresh Hmain Hren Happ.
  rewrite (valid_doc p G t toks d0 Hok Hwt Hlex Hk Hd) in *. clear Hd d0. cbn [d_ast d_toks] in *.
  pose proof (nth_error_In _ _ Hn) as Ho.
  destruct (round_core p G t toks o new Hok Hwt Hlex Hk Ho Hb Hfresh Hmain n l c es t' Hn Hcur Hren Happ)
    as [toks' [H1 [H2 [H3 [H4 [H5 [H6 [H7 H8]]]]]]]].
  exists (p' p o new), (G' G o new), toks', {| d_text := t'; d_toks := toks'; d_ast := expected (p' p o new); d_table := G' G o new |}.
  cbn [d_ast d_toks].
  split; [exact (p'_ok p o new Hok)|]. split; [exact (p'_typed p G t toks o new Hwt Hlex Hk Ho Hb Hfresh Hmain)|].
  repeat split; assumption.
Qed.

Print Assumptions roundtrip_valid.
