(* C04 - declarations, the program, and the round-trip theorem. *)
From Coq Require Import List Lia Arith Bool.
From Spl Require Import Spec.Grammar Model.Parser Proofs.GrammarBase Proofs.GrammarExpr Proofs.GrammarStmt.
Import ListNotations.
Local Open Scope nat_scope.

Ltac side := first [lia | assumption].
Ltac lens2 := cbn [fl_param fl_vardecl fl_decl fl_sep]; lens.

Section Prog.
Variable toks : list token.
Notation at_ := (at_ toks).

(* tokens that follow the doc comments directly *)
Lemma at_nil k kd rest : at_ k (kd :: rest) -> at_ k (cm [] ++ kd :: rest).
Proof. exact (fun H => H). Qed.

Lemma p_tag_at0 f k r kd rest : at_ k (kd :: rest) -> sig kd = true ->
  exists t, tk t = kd /\ p_tag toks f (mk k r) = if f kd then POk (mk (k + 1) r) t else PErr (mk k r).
Proof.
  intros H Hs. destruct (p_tag_at toks f k r [] kd rest H Hs) as (t & Ht & E). exists t; split; [exact Ht|].
  rewrite E. cbn [length]. now rewrite Nat.add_0_r.
Qed.

Lemma p_comments_at k r c kd rest : at_ k (cm c ++ kd :: rest) -> sig kd = true ->
  p_comments toks (mk k r) = POk (mk (k + len c) r) c.
Proof. intros H Hs. unfold p_comments. comb. now rewrite (comments_at_ok toks _ _ _ _ H Hs). Qed.

Lemma p_ident_at0 k r x rest : at_ k (Ident x :: rest) -> r <= k ->
  p_ident toks (mk k r) = POk (mk (k + 1) r) (x_ident (k - r) [] x).
Proof.
  intros H Hr. rewrite (p_ident_at toks k r [] x rest H Hr). cbn [length]. now rewrite Nat.add_0_r.
Qed.

(* ---- parameters ---- *)
Lemma param_ok fuel N : N <= fuel -> forall p k rest, len (fl_param p) <= N -> at_ k (fl_param p ++ rest) ->
  fol follows_elem rest -> p_paramdecl toks fuel (mk k k) = POk (mk (k + len (fl_param p)) k) (x_param p).
Proof.
  intros HN p k rest Hl H Hfol. unfold p_paramdecl. comb.
  destruct Hfol as (cf & kd & rest' & -> & Hs & Hk).
  assert (Hla : forall j, at_ j (cm cf ++ kd :: rest') -> la_param toks j = true).
  { intros j Hj. unfold la_param. rewrite (la_tag_at toks _ _ _ _ _ Hj Hs). destruct kd; try discriminate; reflexivity. }
  destruct p as [c x cc t|cr c x cc t]; cbn [fl_param] in H; flat_in H.
  - assert (Hl' : len (fl_param (PVal c x cc t)) = len c + 1 + len cc + 1 + len (fl_type t)) by (lens2; lia).
    rewrite (p_comments_at k k _ _ _ H eq_refl). norm. apply at_cm in H.
    rewrite (p_tag_no toks (is_k KRef) _ k [] _ _ H eq_refl eq_refl).
    rewrite (p_ident_at0 _ k _ _ H) by lia. norm. apply at_cons in H.
    destruct (p_tag_at toks (is_k Colon) _ k _ _ _ H eq_refl) as (t1 & _ & E1). rewrite E1; ifs; norm.
    apply at_cm_cons in H.
    rewrite (type_ok toks t _ _ (cm cf ++ kd :: rest') fuel (le_n _)) by side. norm. apply at_app in H.
    rewrite (Hla _ H). norm. rewrite Nat.sub_diag. cbn [x_param]. unfold mkinfo. rewrite Hl'. teq.
  - assert (Hl' : len (fl_param (PRef cr c x cc t)) = len cr + 1 + len c + 1 + len cc + 1 + len (fl_type t)) by (lens2; lia).
    rewrite (p_comments_at k k _ _ _ H eq_refl). norm. apply at_cm in H.
    destruct (p_tag_at0 (is_k KRef) _ k _ _ H eq_refl) as (t0 & _ & E0). rewrite E0; ifs; norm. apply at_cons in H.
    rewrite (p_ident_at toks _ k _ _ _ H) by lia. norm. apply at_cm_cons in H.
    destruct (p_tag_at toks (is_k Colon) _ k _ _ _ H eq_refl) as (t1 & _ & E1). rewrite E1; ifs; norm.
    apply at_cm_cons in H.
    rewrite (type_ok toks t _ _ (cm cf ++ kd :: rest') fuel (le_n _)) by side. norm. apply at_app in H.
    rewrite (Hla _ H). norm. rewrite Nat.sub_diag. cbn [x_param]. unfold mkinfo. rewrite Hl'. teq.
Qed.


(* ---- variable declarations ---- *)
Definition vardecl_ref (f : nat) : parser (vardecl * nat) := p_ref (p_vardecl toks f).

Lemma vardecl_ok fuel v k rest : len (fl_vardecl v) <= fuel -> at_ k (fl_vardecl v ++ rest) ->
  p_vardecl toks fuel (mk k k) = POk (mk (k + len (fl_vardecl v)) k) (x_vardecl v).
Proof.
  intros Hf H. destruct v as [c1 c2 x c3 t c4]. unfold fl_vardecl in H. cbn [v_c1 v_c2 v_x v_c3 v_t v_c4] in H. flat_in H.
  assert (Hl : len (fl_vardecl {| v_c1 := c1; v_c2 := c2; v_x := x; v_c3 := c3; v_t := t; v_c4 := c4 |}) =
               len c1 + 1 + len c2 + 1 + len c3 + 1 + len (fl_type t) + len c4 + 1).
  { unfold fl_vardecl. cbn [v_c1 v_c2 v_x v_c3 v_t v_c4]. lens. lia. }
  unfold p_vardecl. comb.
  rewrite (p_comments_at k k _ _ _ H eq_refl). norm. apply at_cm in H.
  destruct (p_tag_at0 (is_k KVar) _ k _ _ H eq_refl) as (t0 & _ & E0). rewrite E0; ifs; norm. apply at_cons in H.
  rewrite (p_ident_at toks _ k _ _ _ H) by lia. norm. apply at_cm_cons in H.
  destruct (p_tag_at toks (is_k Colon) _ k _ _ _ H eq_refl) as (t1 & _ & E1). rewrite E1; ifs; norm.
  apply at_cm_cons in H.
  rewrite (type_ok toks t _ _ (cm c4 ++ Semic :: rest) fuel (le_n _)) by side. norm. apply at_app in H.
  destruct (p_tag_at toks (is_k Semic) _ k _ _ _ H eq_refl) as (t2 & _ & E2). rewrite E2; ifs; norm.
  rewrite Nat.sub_diag. unfold x_vardecl. cbn [v_c1 v_c2 v_x v_c3 v_t v_c4]. unfold mkinfo. rewrite Hl. teq.
Qed.

Lemma vardecl_len_pos v : 1 <= len (fl_vardecl v).
Proof. unfold fl_vardecl. lens. lia. Qed.

Lemma vardecls_steps vs : forall k r rest f, r <= k -> len (flat_map fl_vardecl vs) <= f ->
  at_ k (flat_map fl_vardecl vs ++ rest) ->
  steps (vardecl_ref f) (mk k r) (x_vardecls (k - r) vs) (mk (k + len (flat_map fl_vardecl vs)) r).
Proof.
  induction vs as [|v vs IH]; intros k r rest f Hr Hf H; cbn [flat_map x_vardecls] in *.
  - cbn [length]. rewrite Nat.add_0_r. constructor.
  - rewrite app_length in *. flat_in H. pose proof (vardecl_len_pos v).
    eapply steps_cons with (s1 := mk (k + len (fl_vardecl v)) r).
    + unfold vardecl_ref. comb. rewrite (vardecl_ok f v k (flat_map fl_vardecl vs ++ rest)) by side. norm. reflexivity.
    + cbn [pos]. lia.
    + apply at_app in H. specialize (IH (k + len (fl_vardecl v)) r rest f ltac:(lia) ltac:(lia) H).
      replace (k + len (fl_vardecl v) - r) with (k - r + len (fl_vardecl v)) in IH by lia.
      now rewrite Nat.add_assoc.
Qed.

Lemma x_vardecls_len o vs : len (x_vardecls o vs) <= len (flat_map fl_vardecl vs).
Proof.
  revert o; induction vs as [|v vs IH]; intros o; cbn [x_vardecls flat_map length]; [lia|].
  rewrite app_length. pose proof (vardecl_len_pos v). specialize (IH (o + len (fl_vardecl v))). lia.
Qed.

(* look_ahead::var_dec holds in front of every statement and in front of '}' *)
Lemma la_var_dec_stmt s Z k : at_ k (fl_stmt s ++ Z) -> la_var_dec toks k = true.
Proof.
  intros H. unfold la_var_dec, la_stmt, la_global.
  destruct s as [c|v c1 e c2|c1 f c2 a c3 c4|c1 c2 e c3 t|c1 c2 e c3 t c4 s'|c1 c2 e c3 b|c1 b c2]; cbn [fl_stmt] in H; flat_in H.
  - rewrite !(la_tag_at toks _ _ _ _ _ H eq_refl). reflexivity.
  - rewrite fl_var_head in H. flat_in H.
    destruct (var_tl_next v c1 Assign (fl_cmp e ++ cm c2 ++ Semic :: Z) eq_refl) as (c & kd & Z' & E & Hs & Hk).
    rewrite E in H. rewrite !(la_tag_at toks _ _ _ _ _ H eq_refl), !(la_ident_then_at toks _ _ _ _ _ H eq_refl).
    cbn [is_ident]. apply at_cm_cons in H. rewrite !(la_tag_at toks _ _ _ _ _ H Hs).
    destruct Hk as [-> | ->]; reflexivity.
  - rewrite !(la_tag_at toks _ _ _ _ _ H eq_refl), !(la_ident_then_at toks _ _ _ _ _ H eq_refl).
    cbn [is_ident]. apply at_cm_cons in H. rewrite !(la_tag_at toks _ _ _ _ _ H eq_refl). reflexivity.
  - rewrite !(la_tag_at toks _ _ _ _ _ H eq_refl). reflexivity.
  - rewrite !(la_tag_at toks _ _ _ _ _ H eq_refl). reflexivity.
  - rewrite !(la_tag_at toks _ _ _ _ _ H eq_refl). reflexivity.
  - rewrite !(la_tag_at toks _ _ _ _ _ H eq_refl). reflexivity.
Qed.

Lemma la_var_dec_stmts b c6 rest k : at_ k (fl_stmts b ++ cm c6 ++ RCurly :: rest) -> la_var_dec toks k = true.
Proof.
  destruct b as [|s b]; cbn [fl_stmts app]; intros H.
  - unfold la_var_dec, la_stmt. rewrite !(la_tag_at toks _ _ _ _ _ H eq_refl). reflexivity.
  - rewrite <- app_assoc in H. now apply la_var_dec_stmt in H.
Qed.

Lemma stmts_head b c6 rest : exists c kd tl, fl_stmts b ++ cm c6 ++ RCurly :: rest = cm c ++ kd :: tl /\ sig kd = true /\
  is_k KVar kd = false.
Proof.
  destruct b as [|s b]; cbn [fl_stmts app].
  - now exists c6, RCurly, rest.
  - destruct (stmt_head s) as (c & kd & tl & -> & Hs & Hk). rewrite <- !app_assoc. cbn [app].
    eexists c, kd, _. split; [reflexivity|]. split; [exact Hs|]. destruct kd; try discriminate; reflexivity.
Qed.

Lemma vardecl_no b c6 rest k r fuel : at_ k (fl_stmts b ++ cm c6 ++ RCurly :: rest) ->
  exists e, vardecl_ref fuel (mk k r) = PErr e.
Proof.
  intros H. pose proof (la_var_dec_stmts _ _ _ _ H) as Hla.
  destruct (stmts_head b c6 rest) as (c & kd & tl & E & Hs & Hk). rewrite E in H.
  unfold vardecl_ref, p_vardecl. comb. rewrite (p_comments_at k k _ _ _ H Hs). norm. apply at_cm in H.
  rewrite (p_tag_no toks (is_k KVar) _ k [] _ _ H Hs Hk).
  unfold p_ignore1. cbn [pos]. rewrite Hla. eexists; reflexivity.
Qed.


(* ---- global declarations ---- *)
Lemma p_procdecl_eq fuel s :
  p_procdecl toks fuel s =
  p_map (fun r => let '((doc, (_, (name, (_, (params, (_, (_, (vars, (stmts, _))))))))), inf) := r in
                  {| pd_doc := doc; pd_name := name; pd_params := params; pd_vars := vars; pd_stmts := stmts; pd_info := inf |})
    (p_info (p_pair (p_comments toks)
            (p_pair (p_tag toks (is_k KProc))
            (p_pair (p_expect (p_ident toks) (ExpectedToken s_identifier))
            (p_pair (p_expect (p_tag toks (is_k LParen)) (MissingOpening 40%N))
            (p_pair (p_alt (p_map (fun _ => []) (p_peek_la (la_tag toks (fun k => match k with RParen | LCurly | Eof => true | _ => false end))))
                           (p_list toks fuel (p_paramdecl toks fuel)))
            (p_pair (p_expect (p_tag toks (is_k RParen)) (MissingClosing 41%N))
            (p_pair (p_expect (p_tag toks (is_k LCurly)) (MissingOpening 123%N))
            (p_pair (p_many0 fuel (vardecl_ref fuel))
            (p_pair (p_many0 fuel (stmt_ref toks fuel))
                    (p_expect (p_tag toks (is_k RCurly)) (MissingClosing 125%N)))))))))))) s.
Proof. reflexivity. Qed.

Lemma param_head p : exists c kd tl, fl_param p = cm c ++ kd :: tl /\ sig kd = true /\
  (match kd with RParen | LCurly | Eof => true | _ => false end) = false.
Proof. destruct p as [c x cc t|cr c x cc t]; cbn [fl_param]; [now eexists c, (Ident x), _ | now eexists cr, KRef, _]. Qed.

Lemma gdecl_ok d k rest fuel : decl_ok d = true -> 6 * len (fl_decl d) + 8 <= fuel -> at_ k (fl_decl d ++ rest) ->
  p_gdecl toks fuel (mk k k) = POk (mk (k + len (fl_decl d)) k) (x_decl d).
Proof.
  intros Hok Hf H. destruct d as [c1 c2 x c3 t c4|c1 c2 x c3 ps c4 c5 vs b c6]; cbn [fl_decl] in H; flat_in H.
  - assert (Hl : len (fl_decl (DType c1 c2 x c3 t c4)) = len c1 + 1 + len c2 + 1 + len c3 + 1 + len (fl_type t) + len c4 + 1) by (lens2; lia).
    unfold p_gdecl, p_typedecl. comb.
    rewrite (p_comments_at k k _ _ _ H eq_refl). norm. apply at_cm in H.
    destruct (p_tag_at0 (is_k KType) _ k _ _ H eq_refl) as (t0 & _ & E0). rewrite E0; ifs; norm. apply at_cons in H.
    rewrite (p_ident_at toks _ k _ _ _ H) by lia. norm. apply at_cm_cons in H.
    destruct (p_tag_at toks (is_k EqT) _ k _ _ _ H eq_refl) as (t1 & _ & E1). rewrite E1; ifs; norm.
    apply at_cm_cons in H.
    rewrite (type_ok toks t _ _ (cm c4 ++ Semic :: rest) fuel (le_n _)) by side. norm. apply at_app in H.
    destruct (p_tag_at toks (is_k Semic) _ k _ _ _ H eq_refl) as (t2 & _ & E2). rewrite E2; ifs; norm.
    rewrite Nat.sub_diag. cbn [x_decl]. unfold mkinfo. rewrite Hl. teq.
  - assert (Hl : len (fl_decl (DProc c1 c2 x c3 ps c4 c5 vs b c6)) =
                 len c1 + 1 + len c2 + 1 + len c3 + 1 + len (fl_sep fl_param ps) + len c4 + 1 + len c5 + 1 +
                 len (flat_map fl_vardecl vs) + len (fl_stmts b) + len c6 + 1) by (cbn [fl_decl]; lens; lia).
    cbn [decl_ok] in Hok.
    unfold p_gdecl, p_typedecl. comb.
    rewrite (p_comments_at k k _ _ _ H eq_refl). norm.
    rewrite p_procdecl_eq. comb. rewrite (p_comments_at k k _ _ _ H eq_refl). norm. apply at_cm in H.
    rewrite (p_tag_no toks (is_k KType) _ k [] _ _ H eq_refl eq_refl).
    destruct (p_tag_at0 (is_k KProc) _ k _ _ H eq_refl) as (t0 & _ & E0). rewrite E0; ifs; norm. apply at_cons in H.
    rewrite (p_ident_at toks _ k _ _ _ H) by lia. norm. apply at_cm_cons in H.
    destruct (p_tag_at toks (is_k LParen) _ k _ _ _ H eq_refl) as (t1 & _ & E1). rewrite E1; ifs; norm.
    apply at_cm_cons in H.
    assert (Hb : match ps with Some (_, l) => len l < fuel | None => True end).
    { destruct ps as [[p l]|]; [|exact I]. pose proof (tail_len_le fl_param l). cbn [fl_sep] in Hl. rewrite app_length in Hl. lia. }
    assert (Eps : match ps with Some _ => True | None => True end) by (destruct ps; exact I).
    destruct ps as [[p l]|].
    + destruct (param_head p) as (c & kd & tl & E & Hs & Hk). pose proof H as H0. cbn [fl_sep] in H0. rewrite E in H0. flat_in H0.
      rewrite (la_tag_at toks _ _ _ _ _ H0 Hs), Hk. norm.
      rewrite (list_ok toks fl_param x_param (p_paramdecl toks fuel) (len (fl_sep fl_param (Some (p, l))))
                 (param_ok fuel (len (fl_sep fl_param (Some (p, l)))) ltac:(lia)) p l (k + len c1 + 1 + len c2 + 1 + len c3 + 1) k
                 (cm c4 ++ RParen :: cm c5 ++ LCurly :: flat_map fl_vardecl vs ++ fl_stmts b ++ cm c6 ++ RCurly :: rest)
                 fuel ltac:(lia) (le_n _) Hb H (fol_here (is_k RParen) c4 RParen _ eq_refl eq_refl)).
      norm. apply at_app in H.
      destruct (p_tag_at toks (is_k RParen) _ k _ _ _ H eq_refl) as (t2 & _ & E2). rewrite E2; ifs; norm.
      apply at_cm_cons in H.
      destruct (p_tag_at toks (is_k LCurly) _ k _ _ _ H eq_refl) as (t3 & _ & E3). rewrite E3; ifs; norm.
      apply at_cm_cons in H.
      match type of H with at_ ?k1 _ =>
        pose proof (vardecls_steps vs k1 k _ fuel ltac:(lia) ltac:(lia) H) as Hst1;
        pose proof (x_vardecls_len (k1 - k) vs) as Hn1; apply at_app in H;
        destruct (vardecl_no b c6 rest (k1 + len (flat_map fl_vardecl vs)) k fuel H) as (e1 & Ee1) end.
      rewrite (many0_steps' _ _ _ _ _ fuel Hst1 Ee1 ltac:(lia)). norm.
      match type of H with at_ ?k2 _ =>
        pose proof (stmts_ok toks b k2 k _ fuel ltac:(lia) ltac:(lia) Hok H (fol_here (is_k RCurly) c6 RCurly rest eq_refl eq_refl)) as Hst2;
        pose proof (x_stmts_len (k2 - k) b) as Hn2; apply at_app in H end.
      match type of H with at_ ?k3 _ =>
        destruct (stmt_no_rcurly toks k3 k3 _ _ fuel H ltac:(lia)) as (e2 & Ee2);
        assert (Ee2' : stmt_ref toks fuel (mk k3 k) = PErr (set_refp e2 k)) by (unfold stmt_ref; comb; now rewrite Ee2) end.
      rewrite (many0_steps' _ _ _ _ _ fuel Hst2 Ee2' ltac:(lia)). norm.
      destruct (p_tag_at toks (is_k RCurly) _ k _ _ _ H eq_refl) as (t4 & _ & E4). rewrite E4; ifs; norm.
      rewrite !Nat.sub_diag. cbn [x_decl]. unfold mkinfo. rewrite Hl. cbn [fl_sep]. teq.
    + cbn [fl_sep app length] in *.
      rewrite (la_tag_at toks _ _ _ _ _ H eq_refl). norm.
      destruct (p_tag_at toks (is_k RParen) _ k _ _ _ H eq_refl) as (t2 & _ & E2). rewrite E2; ifs; norm.
      apply at_cm_cons in H.
      destruct (p_tag_at toks (is_k LCurly) _ k _ _ _ H eq_refl) as (t3 & _ & E3). rewrite E3; ifs; norm.
      apply at_cm_cons in H.
      match type of H with at_ ?k1 _ =>
        pose proof (vardecls_steps vs k1 k _ fuel ltac:(lia) ltac:(lia) H) as Hst1;
        pose proof (x_vardecls_len (k1 - k) vs) as Hn1; apply at_app in H;
        destruct (vardecl_no b c6 rest (k1 + len (flat_map fl_vardecl vs)) k fuel H) as (e1 & Ee1) end.
      rewrite (many0_steps' _ _ _ _ _ fuel Hst1 Ee1 ltac:(lia)). norm.
      match type of H with at_ ?k2 _ =>
        pose proof (stmts_ok toks b k2 k _ fuel ltac:(lia) ltac:(lia) Hok H (fol_here (is_k RCurly) c6 RCurly rest eq_refl eq_refl)) as Hst2;
        pose proof (x_stmts_len (k2 - k) b) as Hn2; apply at_app in H end.
      match type of H with at_ ?k3 _ =>
        destruct (stmt_no_rcurly toks k3 k3 _ _ fuel H ltac:(lia)) as (e2 & Ee2);
        assert (Ee2' : stmt_ref toks fuel (mk k3 k) = PErr (set_refp e2 k)) by (unfold stmt_ref; comb; now rewrite Ee2) end.
      rewrite (many0_steps' _ _ _ _ _ fuel Hst2 Ee2' ltac:(lia)). norm.
      destruct (p_tag_at toks (is_k RCurly) _ k _ _ _ H eq_refl) as (t4 & _ & E4). rewrite E4; ifs; norm.
      rewrite !Nat.sub_diag. cbn [x_decl x_sep fl_sep length]. unfold mkinfo. rewrite Hl. teq.
Qed.


(* ---- the program ---- *)
Definition gdecl_ref (f : nat) : parser (gdecl * nat) := p_ref (p_gdecl toks f).

Lemma decl_len_pos d : 1 <= len (fl_decl d).
Proof. destruct d; cbn [fl_decl]; lens; lia. Qed.

Lemma gdecls_steps ds : forall k r rest f, r <= k -> forallb decl_ok ds = true -> 6 * len (flat_map fl_decl ds) + 8 <= f ->
  at_ k (flat_map fl_decl ds ++ rest) ->
  steps (gdecl_ref f) (mk k r) (x_decls (k - r) ds) (mk (k + len (flat_map fl_decl ds)) r).
Proof.
  induction ds as [|d ds IH]; intros k r rest f Hr Hok Hf H; cbn [flat_map x_decls forallb] in *.
  - cbn [length]. rewrite Nat.add_0_r. constructor.
  - rewrite app_length in *. flat_in H. pose proof (decl_len_pos d). apply andb_prop in Hok. destruct Hok as [Hok1 Hok2].
    eapply steps_cons with (s1 := mk (k + len (fl_decl d)) r).
    + unfold gdecl_ref. comb. rewrite (gdecl_ok d k (flat_map fl_decl ds ++ rest) f) by side. norm. reflexivity.
    + cbn [pos]. lia.
    + apply at_app in H. specialize (IH (k + len (fl_decl d)) r rest f ltac:(lia) Hok2 ltac:(lia) H).
      replace (k + len (fl_decl d) - r) with (k - r + len (fl_decl d)) in IH by lia.
      now rewrite Nat.add_assoc.
Qed.

Lemma x_decls_len o ds : len (x_decls o ds) <= len (flat_map fl_decl ds).
Proof.
  revert o; induction ds as [|d ds IH]; intros o; cbn [x_decls flat_map length]; [lia|].
  rewrite app_length. pose proof (decl_len_pos d). specialize (IH (o + len (fl_decl d))). lia.
Qed.

Lemma gdecl_no_eof k r c f : at_ k (cm c ++ [Eof]) -> exists e, gdecl_ref f (mk k r) = PErr e.
Proof.
  intros H. unfold gdecl_ref, p_gdecl, p_typedecl. comb. rewrite p_procdecl_eq. comb.
  rewrite (p_comments_at k k _ _ _ H eq_refl). norm.
  unfold p_ignore1. cbn [pos]. unfold la_global. rewrite (la_tag_at toks _ _ _ _ _ H eq_refl).
  apply at_cm in H.
  rewrite (p_tag_no toks (is_k KType) _ k [] _ _ H eq_refl eq_refl).
  rewrite (p_tag_no toks (is_k KProc) _ k [] _ _ H eq_refl eq_refl).
  eexists; reflexivity.
Qed.

Lemma p_program_eq fuel s :
  p_program toks fuel s =
  p_map (fun r => {| pg_decls := fst (fst r); pg_info := snd (fst r) |})
    (p_pair (p_info (p_many0 fuel (gdecl_ref fuel))) (p_eof_all toks)) s.
Proof. reflexivity. Qed.

Lemma program_ok p fuel : prog_ok p = true -> 6 * len (flatten p) + 8 <= fuel -> at_ 0 (flatten p ++ [Eof]) ->
  p_program toks fuel (mk 0 0) = POk (mk (len (flatten p) + 1) 0) (expected p).
Proof.
  intros Hok Hf H. destruct p as [ds ceof]. unfold flatten in *. cbn [a_decls a_ceof] in *. rewrite app_length, cm_length in *.
  flat_in H. unfold prog_ok in Hok. cbn [a_decls] in Hok.
  rewrite p_program_eq. comb.
  pose proof (gdecls_steps ds 0 0 _ fuel (le_n _) Hok ltac:(lia) H) as Hst.
  pose proof (x_decls_len (0 - 0) ds) as Hn. apply at_app in H.
  destruct (gdecl_no_eof _ 0 _ fuel H) as (e & Ee).
  rewrite (many0_steps' _ _ _ _ _ fuel Hst Ee ltac:(lia)). norm.
  unfold p_eof_all. comb.
  destruct (p_tag_at toks (is_k Eof) _ 0 _ _ _ H eq_refl) as (t & _ & E). rewrite E; ifs; norm.
  destruct (at_length toks _ _ H) as [Hlen|[Hx _]]; [|discriminate (f_equal (@length _) Hx) || (apply (f_equal (@length _)) in Hx; rewrite app_length in Hx; cbn in Hx; lia)].
  rewrite app_length, cm_length in Hlen. cbn [length] in Hlen.
  replace (0 + len (flat_map fl_decl ds) + len ceof + 1 <? length toks) with false by (symmetry; apply Nat.ltb_ge; lia).
  norm. unfold expected. cbn [a_decls]. unfold mkinfo. teq.
Qed.

End Prog.

(* ---- C04: the round trip ---- *)
Theorem roundtrip p toks : prog_ok p = true -> map tk toks = flatten p ++ [Eof] -> parse toks = Done (expected p).
Proof.
  intros Hok H. unfold parse.
  assert (Hlen : length toks = len (flatten p) + 1).
  { rewrite <- (map_length tk), H, app_length. reflexivity. }
  rewrite (program_ok toks p (parse_fuel toks) Hok); [reflexivity| |exact H].
  unfold parse_fuel. lia.
Qed.
