(* C02, request handlers: every explicit well-formedness predicate under which a handler is proved
   panic-free (C12-C17) holds for the document AnalyzedSource::new builds from ANY text; hence no
   request handler of the model panics on a freshly analysed document, at any position
   ([handlers_total]).

     nav_wf_b    (go-to x4, references, rename, prepareRename)  [new_doc_nav_wf]
                 = declarations (R2) + table entries (TotalNavTable) + identifier nodes (TotalNavIdents)
     cursor_pre  (hover)                                        TotalCursor  [new_doc_cursor_pre]
     compl_wf_b  (completion)                                   TotalCompl   [new_doc_compl_wf]
     fold_pre    (foldingRange)                                 TotalFold    [new_doc_fold_pre]
     doc_wf_b    (semanticTokens/full)                          SemTokNames  [new_doc_wf_total]
   signatureHelp has no predicate of its own: it is proved total directly (TotalSigHelp). *)
From Coq Require Import Arith Lia List Bool NArith.
From Spl Require Import Model.Refs Model.Hover Model.SigHelp Model.Completion Model.Fold Model.SemTok.
From Spl Require Import Proofs.ParserTotal Proofs.RangeProofs Proofs.GotoProofs Proofs.RefsProofs Proofs.HoverProofs
  Proofs.CompletionProofs Proofs.FoldProofs Proofs.SemTokProofs Proofs.SemTokNames.
From Spl Require Import Proofs.TotalCursor Proofs.TotalFold Proofs.TotalCompl Proofs.TotalSigHelp
  Proofs.TotalNavTable Proofs.TotalNavIdents.
Import ListNotations.
Local Open Scope nat_scope.

Theorem new_doc_decls_ok t d :
  new_doc_res t = ODone d -> forallb (Refs.decl_ok (length (d_toks d))) (pg_decls (d_ast d)) = true.
Proof.
  intros H. destruct (new_doc_decls_bounded t d H) as [HN Hb].
  apply forallb_forall. intros [g off] Hin. rewrite Forall_forall in Hb. specialize (Hb _ Hin). cbn [fst snd] in Hb.
  unfold Refs.decl_ok, info_ok. cbn [fst snd]. apply andb_true_iff. split; [apply Nat.leb_le; lia|].
  destruct (Nat.ltb (i_s (gdecl_info g)) (i_e (gdecl_info g))); [apply Nat.leb_le | apply Nat.ltb_lt]; lia.
Qed.

Theorem new_doc_nav_wf t d : new_doc_res t = ODone d -> nav_wf_b d = true.
Proof.
  intros H. unfold nav_wf_b.
  rewrite (new_doc_decls_ok t d H), (new_doc_table_ok t d H), (new_doc_idents_ok t d H). reflexivity.
Qed.

Lemma new_doc_res_done t d : new_doc_res t = ODone d -> new_doc t = Done d.
Proof. intros H. unfold new_doc. rewrite H. reflexivity. Qed.

Theorem new_doc_doc_wf t d : new_doc_res t = ODone d -> doc_wf_b d = true.
Proof. intros H. exact (new_doc_wf_total t d (new_doc_res_done t d H)). Qed.

(* no request handler panics on a freshly analysed document, whatever the text and the position *)
Theorem handlers_total t d (line col : N) :
  new_doc_res t = ODone d ->
  (exists r, goto_declaration d line col = ROk r) /\
  (exists r, goto_definition d line col = ROk r) /\
  (exists r, goto_type_definition d line col = ROk r) /\
  (exists r, goto_implementation d line col = ROk r) /\
  (exists r, references d line col = ROk r) /\
  (exists r, rename d line col = ROk r) /\
  (exists r, prepare_rename d line col = ROk r) /\
  (exists r, hover d line col = ROk r) /\
  (exists r, signature_help d line col = ROk r) /\
  (exists r, propose d line col = ROk r) /\
  (exists r, fold d = ROk r) /\
  (exists r, semantic_tokens d = SOk r).
Proof.
  intros H. pose proof (new_doc_nav_wf t d H) as Hnav.
  destruct (goto_robust d line col Hnav) as (G1 & G2 & G3 & G4).
  destruct (refs_robust d line col Hnav) as (R1 & R2 & R3).
  destruct (new_doc_fold_total t d H) as (rs & Hf & _).
  repeat split; try assumption.
  - exact (new_doc_hover_total t d line col H).
  - exact (new_doc_sighelp_total t d line col H).
  - exact (new_doc_propose_total t d line col H).
  - exists rs. exact Hf.
  - exact (semtok_no_panic d (new_doc_doc_wf t d H)).
Qed.
