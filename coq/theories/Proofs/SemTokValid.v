(* C15 - semantic tokens of a VALID program, in ANY layout: every identifier carries the kind of the
   entity it is bound to, the declaration modifier exactly on its declaring occurrence
   ([semtok_valid]); and such documents satisfy [doc_wf_b] ([valid_doc_wf]), so all the
   all-documents theorems of Proofs/SemTokProofs.v apply to them unconditionally.

   p, G, t, toks as in Proofs/HoverValid.v (C14 [hover_valid]): p an abstract program of the grammar,
   G a global table with [well_typed (expected p) G], t a text that lexes to p's token kinds.
   The identifier occurrences are those of HoverProofs.v [program_occs] (token index, spelling,
   scope by syntactic role), here with one more component: the ROLE bit "this occurrence is the
   declaring one" (name of a type / procedure declaration, parameter name, variable name):
   [program_roles], with [roles_forget : map forget (program_roles p) = program_occs p].
   The entity an occurrence is bound to is HoverProofs.v [binding] (SPL scoping on the tables).

   Proof: the document is (t, toks, expected p, G) (C04 round trip + C03 no-false-positive, HoverValid
   [valid_doc]); the handler's answer decodes to the views of [emitted d] (SemTokProofs
   [semtok_coincide], needs [doc_wf_b]: proved here from the grammar); the class the handler gives
   to token j of declaration dd is [decl_class] - computed here for every occurrence from
     S  where the occurrence sits and what precedes it (HoverValid [located]/[hlocated], plus: no
        `proc`/`type` token behind a procedure's name, so "global position" = "type expression"),
     T  what the static semantics says about its spelling (HoverValid [res_ok], [res_entry]), plus:
        the local entry a declaring occurrence resolves to is the one made from THIS declaration, and
        every local entry's declaring token lies in front of the procedure's statements. *)
From Coq Require Import PeanoNat Lia Sorting.Sorted.
From Spl Require Import Proofs.GrammarBase Proofs.GrammarExpr Proofs.GrammarStmt.
From Spl Require Import Proofs.GrammarProofs Spec.Typing Model.Errors Proofs.SemProofs Proofs.TypingProofs.
From Spl Require Import Model.Hover Model.Fold Proofs.LexerProofs Proofs.FoldProofs Proofs.HoverProofs.
From Spl Require Import Proofs.HoverValid Model.SemTok Proofs.SemTokProofs.
Local Open Scope nat_scope.

(* ---------------------------------------------------------------------------------------- *)
(* the specification: occurrences with their role                                            *)

Local Notation occ := HoverProofs.occ.                 (* not the role-classified occurrences of Model/SemTok.v *)
Definition rocc := (occ * bool)%type.          (* (token index, spelling, scope), declaring? *)

Definition uses (l : list occ) : list rocc := map (fun o => (o, false)) l.
Definition declares (l : list occ) : list rocc := map (fun o => (o, true)) l.

Definition roles_vardecl (off : nat) (v : vardecl) : list rocc :=
  match v with
  | VValid _ name ty _ => declares (occs_name off ScLocal name) ++ uses (occs_opt_texpr off ty)
  | VError _ => []
  end.
Definition roles_paramdecl (off : nat) (p : paramdecl) : list rocc :=
  match p with
  | PValid _ _ name ty _ => declares (occs_name off ScLocal name) ++ uses (occs_opt_texpr off ty)
  | PError _ => []
  end.

(* (name of the enclosing declaration, (occurrence, declaring?)) *)
Definition roles_gdecl (off : nat) (g : gdecl) : list (option text * rocc) :=
  match g with
  | GType td =>
      map (pair (option_map id_val (td_name td)))
          (declares (occs_name off ScGlobal (td_name td)) ++ uses (occs_opt_texpr off (td_ty td)))
  | GProc pd =>
      map (pair (option_map id_val (pd_name pd)))
          (declares (occs_name off ScGlobal (pd_name pd))
           ++ flat_map (fun x => roles_paramdecl (off + snd x) (fst x)) (pd_params pd)
           ++ flat_map (fun x => roles_vardecl (off + snd x) (fst x)) (pd_vars pd)
           ++ uses (flat_map (fun x => occs_stmt (off + snd x) (fst x)) (pd_stmts pd)))
  | GError _ => []
  end.

Definition program_roles (p : program) : list (option text * rocc) :=
  flat_map (fun x => roles_gdecl (snd x) (fst x)) (pg_decls p).

Definition forget (x : option text * rocc) : option text * occ := (fst x, fst (snd x)).

(* the semantic-token type of an entity *)
Definition kind_of (e : entry) : N :=
  match e with
  | EntType _ => ty_type
  | EntProc _ => ty_function
  | EntParam _ => ty_parameter
  | EntVar _ => ty_variable
  end.

Definition mod_of (declaring : bool) : N := if declaring then mod_decl else mod_none.

(* ---- forgetting the role gives the occurrences of C14 ---- *)
Lemma fst_declares l : map fst (declares l) = l.
Proof. unfold declares. rewrite map_map. cbn [fst]. apply map_id. Qed.
Lemma fst_uses l : map fst (uses l) = l.
Proof. unfold uses. rewrite map_map. cbn [fst]. apply map_id. Qed.

Lemma map_flat_map {A B C} (f : B -> C) (g : A -> list B) l :
  map f (flat_map g l) = flat_map (fun x => map f (g x)) l.
Proof. induction l as [|x l IH]; [reflexivity|]. cbn [flat_map]. now rewrite map_app, IH. Qed.

Lemma fst_roles_vardecl off v : map fst (roles_vardecl off v) = occs_vardecl off v.
Proof. destruct v; cbn [roles_vardecl occs_vardecl]; [|reflexivity]. now rewrite map_app, fst_declares, fst_uses. Qed.
Lemma fst_roles_paramdecl off p : map fst (roles_paramdecl off p) = occs_paramdecl off p.
Proof. destruct p; cbn [roles_paramdecl occs_paramdecl]; [|reflexivity]. now rewrite map_app, fst_declares, fst_uses. Qed.

Lemma forget_pair (o : option text) (l : list rocc) : map forget (map (pair o) l) = map (pair o) (map fst l).
Proof. rewrite !map_map. reflexivity. Qed.

Lemma forget_gdecl off g : map forget (roles_gdecl off g) = occs_gdecl off g.
Proof.
  destruct g as [td | pd | inf]; cbn [roles_gdecl occs_gdecl]; [| |reflexivity]; rewrite forget_pair; f_equal.
  - now rewrite map_app, fst_declares, fst_uses.
  - rewrite !map_app, fst_declares, fst_uses, !map_flat_map. do 2 f_equal; [|f_equal]; apply flat_map_ext; intros [x o];
      cbn [fst snd]; [apply fst_roles_paramdecl | apply fst_roles_vardecl].
Qed.

Theorem roles_forget p : map forget (program_roles p) = program_occs p.
Proof.
  unfold program_roles, program_occs. rewrite map_flat_map. apply flat_map_ext. intros [g o]. apply forget_gdecl.
Qed.

Lemma roles_in_occs p owner o dcl : In (owner, (o, dcl)) (program_roles p) -> In (owner, o) (program_occs p).
Proof. intros H. rewrite <- roles_forget. exact (in_map forget _ _ H). Qed.

(* ---------------------------------------------------------------------------------------- *)
(* S: "type expression" (semantic tokens) versus "global position" (hover)                   *)

Definition tkind (pk : option kind) : bool := match pk with Some Colon | Some KOf => true | _ => false end.
Definition ptk (pk : option kind) : bool := match pk with Some KProc | Some KType => true | _ => false end.

Lemma global_split pk : global_kind pk = tkind pk || ptk pk.
Proof. destruct pk as [[]|]; reflexivity. Qed.

Lemma find_rev_prev (l : list token) :
  option_map tk (find (fun p => negb (is_comment_kind (tk p))) (rev l)) = prev_kind_k None (map tk l).
Proof.
  induction l as [|x l IH] using rev_ind; [reflexivity|].
  rewrite rev_app_distr, map_app, prev_app, <- IH. cbn [rev app find map prev_kind_k].
  destruct (tk x) eqn:E; cbn [is_comment_kind negb option_map]; rewrite ?E; reflexivity.
Qed.

(* in_type_expression: the last non-comment token in front of token i of the slice is `:` or `of` *)
Lemma in_type_expression_spec sl i :
  in_type_expression sl i = tkind (prev_kind_k None (firstn i (map tk sl))).
Proof.
  unfold in_type_expression, rev'. rewrite <- rev_alt, firstn_map, <- find_rev_prev.
  destruct (find _ _) as [p|]; [|reflexivity]. cbn [option_map]. destruct (tk p); reflexivity.
Qed.

(* token lists without `proc` and `type` *)
Definition noptk (k : kind) : Prop := ptk (Some k) = false.

Lemma noptk_prefix : forall l j pk,
  Forall noptk l -> ptk pk = false -> ptk (prev_kind_k pk (firstn j l)) = false.
Proof.
  induction l as [|k l IH]; intros j pk Hl Hpk; [destruct j; exact Hpk|].
  destruct j as [|j]; [exact Hpk|]. cbn [firstn prev_kind_k]. inversion Hl as [|? ? Hk Hl']; subst.
  apply IH; [exact Hl'|]. destruct k; try exact Hk; exact Hpk.
Qed.

Lemma nonglobal_noptk l : Forall nonglobal l -> Forall noptk l.
Proof. apply Forall_impl. intros k H. unfold nonglobal, noptk in *. rewrite global_split in H. now apply orb_false_iff in H. Qed.

Lemma noptk_cm c : Forall noptk (cm c).
Proof. apply nonglobal_noptk, nonglobal_cm. Qed.

Ltac np := repeat first [assumption | apply noptk_cm | apply Forall_nil | apply Forall_app; split | apply Forall_cons | reflexivity].

Lemma noptk_type t : Forall noptk (fl_type t).
Proof.
  induction t as [c x | ca cl cz size cr co base IH]; cbn [fl_type]; np. destruct size; reflexivity.
Qed.

Lemma noptk_param p : Forall noptk (fl_param p).
Proof. destruct p; cbn [fl_param]; np; apply noptk_type. Qed.

Lemma noptk_params ps : Forall noptk (fl_sep fl_param ps).
Proof.
  destruct ps as [[a l]|]; [|constructor]. cbn [fl_sep]. apply Forall_app. split; [apply noptk_param|].
  unfold fl_tail. induction l as [|[c x] l IH]; [constructor|]. cbn [flat_map fst snd]. np. apply noptk_param.
Qed.

Lemma noptk_vardecls vs : Forall noptk (flat_map fl_vardecl vs).
Proof.
  induction vs as [|v vs IH]; [constructor|]. cbn [flat_map]. apply Forall_app. split; [|exact IH].
  unfold fl_vardecl. np. apply noptk_type.
Qed.

(* behind the name of a procedure declaration, "global position" and "type expression" coincide *)
Lemma proc_tail_noptk c3 ps c4 c5 vs b c6 :
  Forall noptk (cm c3 ++ LParen :: fl_sep fl_param ps ++ cm c4 ++ RParen :: cm c5 ++ LCurly :: flat_map fl_vardecl vs ++ fl_stmts b ++ cm c6 ++ [RCurly]).
Proof. np; [apply noptk_params | apply noptk_vardecls | apply nonglobal_noptk, stmt_nonglobal]. Qed.

Lemma proc_type_position c1 c2 x c3 ps c4 c5 vs b c6 j :
  len c1 + 1 + len c2 < j ->
  tkind (prev_kind_k None (firstn j (fl_decl (DProc c1 c2 x c3 ps c4 c5 vs b c6)))) =
  global_kind (prev_kind_k None (firstn j (fl_decl (DProc c1 c2 x c3 ps c4 c5 vs b c6)))).
Proof.
  intros Hj. rewrite global_split.
  match goal with |- _ = _ || ptk ?pk => assert (H : ptk pk = false); [|now rewrite H, orb_false_r] end.
  cbn [fl_decl].
  set (rest := cm c3 ++ LParen :: fl_sep fl_param ps ++ cm c4 ++ RParen :: cm c5 ++ LCurly :: flat_map fl_vardecl vs ++ fl_stmts b ++ cm c6 ++ [RCurly]).
  replace (cm c1 ++ KProc :: cm c2 ++ Ident x :: rest) with ((cm c1 ++ KProc :: cm c2 ++ [Ident x]) ++ rest) by listeq.
  replace j with (len (cm c1 ++ KProc :: cm c2 ++ [Ident x]) + (j - (len c1 + 1 + len c2 + 1))) by leneq.
  rewrite firstn_app_ge, prev_app. apply noptk_prefix; [apply proc_tail_noptk|]. prevc. reflexivity.
Qed.

(* ---------------------------------------------------------------------------------------- *)
(* T: the local table of a well-formed procedure declaration                                 *)

Lemma lookup_snoc_some {V} (L : list (text * V)) x v y e : lookup L y = Some e -> lookup (L ++ [(x, v)]) y = Some e.
Proof. intros H. now rewrite lookup_app, H. Qed.

Lemma lookup_snoc_inv {V} (L : list (text * V)) x v y e :
  lookup (L ++ [(x, v)]) y = Some e -> lookup L y = Some e \/ e = v.
Proof. rewrite lookup_app. destruct (lookup L y); [now left|]. destruct (text_eqb x y); [intros [= <-]; now right | discriminate]. Qed.

(* entries are never overwritten *)
Lemma wf_params_keep Gi pn L ps L' es : wf_params Gi pn L ps L' es ->
  forall y e, lookup L y = Some e -> lookup L' y = Some e.
Proof.
  induction 1 as [L | L doc is_ref name te o inf off t r L' es _ _ _ _ IH]; [auto|].
  intros y e Hy. apply IH. now apply lookup_snoc_some.
Qed.

Lemma wf_vars_keep Gi pn L vs L' : wf_vars Gi pn L vs L' ->
  forall y e, lookup L y = Some e -> lookup L' y = Some e.
Proof.
  induction 1 as [L | L doc name te o inf off t r L' _ _ _ IH]; [auto|].
  intros y e Hy. apply IH. now apply lookup_snoc_some.
Qed.

(* the entry under a declared name is the one made from that declaration *)
Lemma wf_params_decl Gi pn L ps L' es : wf_params Gi pn L ps L' es ->
  forall doc r name ty inf off, In (PValid doc r (Some name) ty inf, off) ps ->
  exists v, lookup L' (id_val name) = Some (LParam v) /\ ve_name v = name /\ ve_range v = shift_range (info_range inf) off.
Proof.
  induction 1 as [L | L doc is_ref name te o inf off t r L' es _ _ Hfresh Hr IH]; intros doc' r' name' ty' inf' off' Hin;
    [contradiction|].
  destruct Hin as [Hin|Hin]; [|exact (IH _ _ _ _ _ _ Hin)].
  injection Hin as <- <- <- <- <- <-. eexists. split.
  - apply (wf_params_keep _ _ _ _ _ _ Hr). now apply lookup_snoc_same.
  - split; reflexivity.
Qed.

Lemma wf_vars_decl Gi pn L vs L' : wf_vars Gi pn L vs L' ->
  forall doc name ty inf off, In (VValid doc (Some name) ty inf, off) vs ->
  exists v, lookup L' (id_val name) = Some (LVar v) /\ ve_name v = name /\ ve_range v = shift_range (info_range inf) off.
Proof.
  induction 1 as [L | L doc name te o inf off t r L' _ Hfresh Hr IH]; intros doc' name' ty' inf' off' Hin;
    [contradiction|].
  destruct Hin as [Hin|Hin]; [|exact (IH _ _ _ _ _ Hin)].
  injection Hin as <- <- <- <- <-. eexists. split.
  - apply (wf_vars_keep _ _ _ _ _ Hr). now apply lookup_snoc_same.
  - split; reflexivity.
Qed.

(* the declaring token of every local entry lies below B (declaration-relative token index) *)
Definition ve_decl_end (v : ventry) : nat := fst (ve_range v) + i_e (id_info (ve_name v)).
Definition lt_bound (B : nat) (L : ltable) : Prop := forall y le, lookup L y = Some le -> ve_decl_end (lentry_v le) <= B.

Definition pbound (B : nat) (x : paramdecl * nat) : Prop :=
  match fst x with PValid _ _ (Some name) _ inf => i_s inf + snd x + i_e (id_info name) <= B | _ => True end.
Definition vbound (B : nat) (x : vardecl * nat) : Prop :=
  match fst x with VValid _ (Some name) _ inf => i_s inf + snd x + i_e (id_info name) <= B | _ => True end.

Lemma wf_params_bound B Gi pn L ps L' es : wf_params Gi pn L ps L' es ->
  lt_bound B L -> Forall (pbound B) ps -> lt_bound B L'.
Proof.
  induction 1 as [L | L doc is_ref name te o inf off t r L' es _ _ _ _ IH]; intros HL Hps; [exact HL|].
  inversion Hps as [|? ? Hp Hr]; subst. apply IH; [|exact Hr].
  intros y le Hy. apply lookup_snoc_inv in Hy as [Hy | ->]; [exact (HL _ _ Hy)|]. exact Hp.
Qed.

Lemma wf_vars_bound B Gi pn L vs L' : wf_vars Gi pn L vs L' ->
  lt_bound B L -> Forall (vbound B) vs -> lt_bound B L'.
Proof.
  induction 1 as [L | L doc name te o inf off t r L' _ _ _ IH]; intros HL Hvs; [exact HL|].
  inversion Hvs as [|? ? Hv Hr]; subst. apply IH; [|exact Hr].
  intros y le Hy. apply lookup_snoc_inv in Hy as [Hy | ->]; [exact (HL _ _ Hy)|]. exact Hv.
Qed.

Lemma lt_bound_nil B : lt_bound B [].
Proof. intros y le H. discriminate H. Qed.

Lemma lt_bound_le B B' L : B <= B' -> lt_bound B L -> lt_bound B' L.
Proof. intros HB H y le Hy. specialize (H y le Hy). lia. Qed.

(* ---- the parameters and variable declarations of the mandated tree ---- *)
Definition param_ok (lo hi : nat) (x : paramdecl * nat) : Prop :=
  exists doc r name ty inf, fst x = PValid doc r (Some name) (Some ty) inf /\ i_s inf = 0 /\
    i_s (id_info name) < i_e (id_info name) /\ lo <= snd x /\ snd x + i_e (id_info name) <= hi.
Definition var_ok (lo hi : nat) (x : vardecl * nat) : Prop :=
  exists doc name ty inf, fst x = VValid doc (Some name) (Some ty) inf /\ i_s inf = 0 /\
    i_s (id_info name) < i_e (id_info name) /\ lo <= snd x /\ snd x + i_e (id_info name) <= hi.

Lemma param_ok_weaken lo hi lo' hi' x : lo' <= lo -> hi <= hi' -> param_ok lo hi x -> param_ok lo' hi' x.
Proof. intros H1 H2 (doc & r & name & ty & inf & E & Hi & Hn & Hlo & Hhi). exists doc, r, name, ty, inf. repeat split; try assumption; lia. Qed.
Lemma var_ok_weaken lo hi lo' hi' x : lo' <= lo -> hi <= hi' -> var_ok lo hi x -> var_ok lo' hi' x.
Proof. intros H1 H2 (doc & name & ty & inf & E & Hi & Hn & Hlo & Hhi). exists doc, name, ty, inf. repeat split; try assumption; lia. Qed.

Lemma x_param_ok a o : param_ok o (o + len (fl_param a)) (x_param a, o).
Proof.
  destruct a as [c x cc t | cr c x cc t]; cbn [x_param]; do 5 eexists; cbn [fst snd];
    (split; [reflexivity|]); cbn [fl_param x_ident id_info mkinfo i_s i_e]; repeat split; try lia; leneq.
Qed.

Lemma x_ptail_ok : forall l o, Forall (param_ok o (o + len (fl_tail fl_param l))) (x_tail fl_param x_param o l).
Proof.
  induction l as [|[c a] l IH]; intros o; [constructor|]. unfold fl_tail in *. cbn [x_tail flat_map fst snd]. constructor.
  - eapply param_ok_weaken; [| |apply x_param_ok]; leneq.
  - eapply Forall_impl; [|apply IH]. intros x. apply param_ok_weaken; leneq.
Qed.

Lemma x_params_ok ps o : Forall (param_ok o (o + len (fl_sep fl_param ps))) (x_sep fl_param x_param o ps).
Proof.
  destruct ps as [[a l]|]; [|constructor]. cbn [x_sep fl_sep]. constructor.
  - eapply param_ok_weaken; [| |apply x_param_ok]; leneq.
  - eapply Forall_impl; [|apply x_ptail_ok]. intros x. apply param_ok_weaken; leneq.
Qed.

Lemma x_vardecls_ok : forall vs o, Forall (var_ok o (o + len (flat_map fl_vardecl vs))) (x_vardecls o vs).
Proof.
  induction vs as [|v vs IH]; intros o; [constructor|]. cbn [x_vardecls flat_map]. constructor.
  - unfold x_vardecl. do 4 eexists. cbn [fst snd]. split; [reflexivity|].
    unfold fl_vardecl. cbn [x_ident id_info mkinfo i_s i_e]. repeat split; try lia; leneq.
  - eapply Forall_impl; [|apply IH]. intros x. apply var_ok_weaken; leneq.
Qed.

Lemma param_ok_bound lo hi l : Forall (param_ok lo hi) l -> Forall (pbound hi) l.
Proof.
  apply Forall_impl. intros [p off] (doc & r & name & ty & inf & E & Hi & Hn & Hlo & Hhi). cbn [fst snd] in *. subst p.
  unfold pbound. cbn [fst snd]. lia.
Qed.
Lemma var_ok_bound lo hi l : Forall (var_ok lo hi) l -> Forall (vbound hi) l.
Proof.
  apply Forall_impl. intros [p off] (doc & name & ty & inf & E & Hi & Hn & Hlo & Hhi). cbn [fst snd] in *. subst p.
  unfold vbound. cbn [fst snd]. lia.
Qed.

(* ---------------------------------------------------------------------------------------- *)
(* the handler: what is reported for token j of a declaration                                *)

Lemma sv_nth_skipn {A} : forall a (l : list A) k, nth_error (skipn a l) k = nth_error l (a + k).
Proof.
  induction a as [|a IH]; intros l k; [reflexivity|].
  destruct l as [|x l]; [destruct k; reflexivity|]. cbn [skipn Nat.add nth_error]. apply IH.
Qed.

Lemma decl_seg_nth d g off j :
  i_s (gdecl_info g) <= j < i_e (gdecl_info g) ->
  nth_error (decl_seg d g off) (j - i_s (gdecl_info g)) = nth_error (d_toks d) (off + j).
Proof.
  intros Hj. unfold decl_seg, seg. rewrite nth_firstn_lt by lia. rewrite sv_nth_skipn. f_equal. lia.
Qed.

(* token number off + j of the document, inside declaration (g, off), with class c *)
Lemma visited_in d : forall l g off j k c,
  In (g, off) l -> i_s (gdecl_info g) <= j < i_e (gdecl_info g) ->
  nth_error (d_toks d) (off + j) = Some k ->
  decl_class g (d_table d) (decl_seg d g off) j k = Some c ->
  In (k, c) (classified (visited d l)).
Proof.
  induction l as [|[g' off'] r IH]; intros g off j k c Hin Hj Hk Hc; [contradiction|].
  cbn [visited]. rewrite classified_app. apply in_or_app. destruct Hin as [Hin|Hin].
  - left. injection Hin as -> ->. unfold visited_decl.
    apply (tag_complete _ _ _ (j - i_s (gdecl_info g))).
    + rewrite decl_seg_nth by exact Hj. exact Hk.
    + replace (i_s (gdecl_info g) + (j - i_s (gdecl_info g))) with j by lia. exact Hc.
  - right. exact (IH g off j k c Hin Hj Hk Hc).
Qed.

Lemma emitted_in d g off j k c :
  In (g, off) (pg_decls (d_ast d)) -> i_s (gdecl_info g) <= j < i_e (gdecl_info g) ->
  nth_error (d_toks d) (off + j) = Some k ->
  decl_class g (d_table d) (decl_seg d g off) j k = Some c ->
  In (k, c) (emitted d).
Proof.
  intros H1 H2 H3 H4. unfold emitted, visited_all. rewrite classified_app. apply in_or_app. left.
  exact (visited_in d _ g off j k c H1 H2 H3 H4).
Qed.

(* the token slice of a declaration of the mandated tree carries the declaration's kinds *)
Lemma decl_seg_kinds (d : doc) pre dd post :
  map tk (d_toks d) = pre ++ fl_decl dd ++ post ->
  map tk (decl_seg d (x_decl dd) (len pre)) = fl_decl dd.
Proof.
  intros H. unfold decl_seg, seg. rewrite x_decl_info. cbn [i_s i_e mkinfo]. rewrite Nat.add_0_r.
  rewrite <- firstn_map, <- skipn_map, H.
  replace (len pre + len (fl_decl dd) - len pre) with (len (fl_decl dd)) by lia.
  rewrite skipn_app, skipn_all, Nat.sub_diag. cbn [skipn app]. apply firstn_exact.
Qed.

(* the class of an entity; the declaration modifier of a parameter / variable is decided by position *)
Definition class_of (e : entry) (j : nat) : N * N :=
  match e with
  | EntType _ => (ty_type, mod_none)
  | EntProc _ => (ty_function, mod_none)
  | EntVar v => (ty_variable, decl_mod v j)
  | EntParam v => (ty_parameter, decl_mod v j)
  end.

Lemma class_proc_name pd G sl j tok :
  opt_name_token (pd_name pd) j = true -> class_proc_dec pd G sl j tok = Some (ty_function, mod_decl).
Proof. intros H. unfold class_proc_dec. now rewrite H. Qed.

Lemma class_proc_ident pd G sl j tok name pe x e :
  pd_name pd = Some name -> lookup G (id_val name) = Some (GProcE pe) -> i_s (pd_info pd) = 0 ->
  opt_name_token (pd_name pd) j = false -> tk tok = Ident x ->
  lt_lookup (if tkind (prev_kind_k None (firstn j (map tk sl))) then None else Some (pe_local pe)) (Some G) x = Some e ->
  class_proc_dec pd G sl j tok = Some (class_of e j).
Proof.
  intros Hn Hl Hi Ho Hk He. unfold class_proc_dec. cbv zeta. rewrite Ho, Hk, Hi, Nat.sub_0_r, in_type_expression_spec.
  unfold get_local_table. rewrite Hn, Hl. cbv beta iota.
  match goal with |- match ?X with Some _ => _ | None => _ end = _ => assert (E : X = Some e) by exact He; rewrite E end.
  destruct e; reflexivity.
Qed.

Lemma x_name_token o c x j : opt_name_token (Some (x_ident o c x)) j = Nat.eqb (o + len c) j.
Proof.
  cbn [opt_name_token]. unfold is_name_token, x_ident. cbn [id_info mkinfo i_s i_e Nat.add].
  destruct (Nat.ltb_spec o (o + len c + 1)); [|lia]. cbn [andb].
  destruct (Nat.eqb_spec (o + len c + 1) (j + 1)), (Nat.eqb_spec (o + len c) j); try reflexivity; lia.
Qed.

(* the declaring token of a local entry *)
Lemma decl_mod_hit v j : i_s (id_info (ve_name v)) < i_e (id_info (ve_name v)) -> ve_decl_end v = j + 1 -> decl_mod v j = mod_decl.
Proof.
  unfold decl_mod, is_name_token, ve_decl_end. intros H1 H2.
  destruct (Nat.ltb_spec (i_s (id_info (ve_name v))) (i_e (id_info (ve_name v)))); [|lia].
  destruct (Nat.eqb_spec (fst (ve_range v) + i_e (id_info (ve_name v))) (j + 1)); [reflexivity | lia].
Qed.

Lemma decl_mod_miss v j : ve_decl_end v <= j -> decl_mod v j = mod_none.
Proof.
  unfold decl_mod, is_name_token, ve_decl_end. intros H.
  destruct (Nat.eqb_spec (fst (ve_range v) + i_e (id_info (ve_name v))) (j + 1)); [lia|]. now rewrite andb_false_r.
Qed.

(* ---------------------------------------------------------------------------------------- *)
(* well-formedness of the document of a valid program                                        *)

Lemma tok_kind_at (toks : list token) ks i k :
  map tk toks = ks -> nth_error ks i = Some k -> exists t, nth_error toks i = Some t /\ tk t = k.
Proof.
  intros <- H. rewrite nth_error_map in H. destruct (nth_error toks i) as [t|]; [|discriminate].
  injection H as H. now exists t.
Qed.

Lemma decl_name_kind dd : exists o c x rest,
  gdecl_name (x_decl dd) = Some (x_ident o c x) /\ fl_decl dd = (firstn (o + len c) (fl_decl dd)) ++ Ident x :: rest /\
  o + len c < len (fl_decl dd).
Proof.
  destruct dd as [c1 c2 x c3 t c4 | c1 c2 x c3 ps c4 c5 vs b c6]; cbn [x_decl gdecl_name td_name pd_name fl_decl].
  - exists (len c1 + 1), c2, x, (cm c3 ++ EqT :: fl_type t ++ cm c4 ++ [Semic]). split; [reflexivity|]. split; [|leneq].
    replace (cm c1 ++ KType :: cm c2 ++ Ident x :: cm c3 ++ EqT :: fl_type t ++ cm c4 ++ [Semic])
      with ((cm c1 ++ KType :: cm c2) ++ Ident x :: cm c3 ++ EqT :: fl_type t ++ cm c4 ++ [Semic]) by listeq.
    replace (len c1 + 1 + len c2) with (len (cm c1 ++ KType :: cm c2)) by leneq. now rewrite firstn_exact.
  - exists (len c1 + 1), c2, x,
      (cm c3 ++ LParen :: fl_sep fl_param ps ++ cm c4 ++ RParen :: cm c5 ++ LCurly :: flat_map fl_vardecl vs ++ fl_stmts b ++ cm c6 ++ [RCurly]).
    split; [reflexivity|]. split; [|leneq].
    match goal with |- ?L = _ => replace L with ((cm c1 ++ KProc :: cm c2) ++ Ident x ::
      cm c3 ++ LParen :: fl_sep fl_param ps ++ cm c4 ++ RParen :: cm c5 ++ LCurly :: flat_map fl_vardecl vs ++ fl_stmts b ++ cm c6 ++ [RCurly]) by listeq end.
    replace (len c1 + 1 + len c2) with (len (cm c1 ++ KProc :: cm c2)) by leneq. now rewrite firstn_exact.
Qed.

Lemma x_decls_names toks : forall l o pre post,
  map tk toks = pre ++ flat_map fl_decl l ++ post -> len pre = o -> decls_names_b toks (x_decls o l) = true.
Proof.
  induction l as [|dd l IH]; intros o pre post H Ho; [reflexivity|].
  cbn [x_decls decls_names_b flat_map] in *. apply andb_true_iff. split.
  - destruct (decl_name_kind dd) as (o' & c & x & rest & Hn & Hf & Hlt). rewrite Hn.
    cbn [name_is_ident x_ident id_info mkinfo i_s i_e]. destruct (Nat.ltb_spec o' (o' + len c + 1)); [|lia].
    destruct (tok_kind_at toks _ (o + (o' + len c + 1) - 1) (Ident x) H) as [t [Ht Hk]].
    { subst o. replace (len pre + (o' + len c + 1) - 1) with (len pre + (o' + len c)) by lia.
      rewrite <- app_assoc. apply nth_error_mid.
      assert (Hl : len (firstn (o' + len c) (fl_decl dd)) = o' + len c) by (rewrite firstn_length; lia).
      remember (firstn (o' + len c) (fl_decl dd)) as a eqn:Ea. rewrite Hf, <- Hl. apply nth_error_at. }
    rewrite Ht, Hk. reflexivity.
  - apply (IH _ (pre ++ fl_decl dd) post); [rewrite H; listeq | subst o; now rewrite app_length].
Qed.

Lemma new_doc_of_res t d : new_doc_res t = ODone d -> new_doc t = Done d.
Proof. unfold new_doc. now intros ->. Qed.

(* ---------------------------------------------------------------------------------------- *)
(* T: more of the static semantics                                                           *)

(* the global table only grows, entries are kept *)
Lemma wf_gdecls_in_keep : forall G0 ds es, wf_gdecls G0 ds es ->
  forall g off, In (g, off) ds ->
  exists Gi ke, wf_gdecl Gi off g ke /\ lookup (G0 ++ es) (fst ke) = Some (snd ke) /\
                (forall x v, lookup Gi x = Some v -> lookup (G0 ++ es) x = Some v).
Proof.
  induction 1 as [G | G d off [k e] r es Hd _ IH]; intros g o Hin; [contradiction|].
  destruct (wf_gdecl_fresh _ _ _ _ Hd) as [Hf _]. cbn [fst] in Hf.
  assert (Heq : G ++ (k, e) :: es = (G ++ [(k, e)]) ++ es) by (now rewrite <- app_assoc).
  destruct Hin as [Hin|Hin].
  - injection Hin as <- <-. exists G, (k, e). split; [exact Hd|]. cbn [fst snd]. split.
    + rewrite Heq. apply lookup_app_l. now apply lookup_snoc_same.
    + intros x v Hx. now apply lookup_app_l.
  - destruct (IH _ _ Hin) as [Gi [ke [H1 [H2 H3]]]]. exists Gi, ke. rewrite Heq. repeat split; assumption.
Qed.

(* the names of a type expression denote types of the global table *)
Lemma denotes_types L G cr te t : denotes L G cr te t ->
  forall off, Forall (fun o => o_scope o = ScGlobal /\ exists e, lookup G (o_name o) = Some (GTypeE e)) (occs_texpr off te).
Proof.
  induction 1 as [i te t Hb _ | il b o inf bt _ IH]; intros off.
  - cbn [occs_texpr]. constructor; [|constructor]. split; [reflexivity|]. unfold o_name. cbn [fst snd].
    inversion Hb as [le Hl He | ge Hl Hg He]; [destruct le; discriminate He|].
    destruct ge as [e|e]; [|discriminate He]. now exists e.
  - cbn [occs_texpr]. apply IH.
Qed.

Lemma occs_texpr_global : forall te off, Forall (fun o => o_scope o = ScGlobal) (occs_texpr off te).
Proof.
  fix IH 1. intros [i | sz [[b o]|] inf] off; cbn [occs_texpr]; [constructor; [reflexivity | constructor] | apply IH | constructor].
Qed.

(* an occurrence that is not a declaring one: the declaration modifier is not set *)
Lemma class_use (d : doc) pe owner sc x e j B :
  lookup (d_table d) owner = Some (GProcE pe) ->
  binding d (Some owner) sc x = Some e ->
  (sc = ScLocal -> lt_bound B (pe_local pe) /\ B <= j) ->
  class_of e j = (kind_of e, mod_none).
Proof.
  intros Ho Hb Hloc. destruct sc; unfold binding in Hb.
  - destruct (lookup (d_table d) x) as [ge|]; [|discriminate]. injection Hb as <-. destruct ge; reflexivity.
  - rewrite Ho in Hb. unfold lt_lookup in Hb. destruct (Hloc eq_refl) as [HB Hj].
    destruct (lookup (pe_local pe) x) as [le|] eqn:El.
    + injection Hb as <-. specialize (HB _ _ El).
      destruct le as [v|v]; cbn [entry_of_l class_of kind_of lentry_v] in *; rewrite decl_mod_miss by lia; reflexivity.
    + destruct (lookup (d_table d) x) as [ge|]; [|discriminate]. injection Hb as <-. destruct ge; reflexivity.
Qed.

(* ---------------------------------------------------------------------------------------- *)
(* the classification of every identifier occurrence                                         *)

Lemma roles_params_occs D l o dcl :
  In (o, dcl) (flat_map (fun x => roles_paramdecl (D + snd x) (fst x)) l) -> In o (occs_params D l).
Proof.
  intros H. apply (in_map fst) in H. rewrite map_flat_map in H. cbn [fst] in H. unfold occs_params.
  erewrite flat_map_ext; [exact H|]. intros [q off]. symmetry. apply fst_roles_paramdecl.
Qed.

Lemma roles_vars_occs D l o dcl :
  In (o, dcl) (flat_map (fun x => roles_vardecl (D + snd x) (fst x)) l) -> In o (occs_vars D l).
Proof.
  intros H. apply (in_map fst) in H. rewrite map_flat_map in H. cbn [fst] in H. unfold occs_vars.
  erewrite flat_map_ext; [exact H|]. intros [q off]. symmetry. apply fst_roles_vardecl.
Qed.

Lemma uses_in l o dcl : In (o, dcl) (uses l) -> In o l /\ dcl = false.
Proof. unfold uses. intros H. apply in_map_iff in H as [o' [Heq H]]. injection Heq as -> <-. now split. Qed.

Lemma declares_in l o dcl : In (o, dcl) (declares l) -> In o l /\ dcl = true.
Proof. unfold declares. intros H. apply in_map_iff in H as [o' [Heq H]]. injection Heq as -> <-. now split. Qed.

(* every occurrence of a located list has a token index at or behind the base *)
Lemma located_ge seg base l o : located seg base l -> In o l -> base <= o_tok o.
Proof. unfold located. rewrite Forall_forall. intros H Ho. destruct (H o Ho) as [j [Hj _]]. lia. Qed.

Lemma type_decl_shape c1 c2 x c3 t c4 :
  fl_decl (DType c1 c2 x c3 t c4) = (cm c1 ++ KType :: cm c2 ++ Ident x :: cm c3 ++ [EqT]) ++ fl_type t ++ (cm c4 ++ [Semic]).
Proof. cbn [fl_decl]. listeq. Qed.

Theorem class_valid (p : aprog) (G : gtable) (t : text) (toks : list token) :
  let d := {| d_text := t; d_toks := toks; d_ast := expected p; d_table := G |} in
  well_typed (expected p) G -> map tk toks = flatten p ++ [Eof] ->
  forall owner k x sc dcl, In (owner, ((k, x, sc), dcl)) (program_roles (expected p)) ->
  forall tok, nth_error toks k = Some tok ->
    exists e, binding d owner sc x = Some e /\ In (tok, (kind_of e, mod_of dcl)) (emitted d).
Proof.
  intros d Hwt Hk owner k x sc dcl Hin tok Hn.
  unfold program_roles in Hin. apply in_flat_map in Hin as [[g D] [Hg Ho]]. cbn [fst snd expected pg_decls] in Hg, Ho.
  destruct (x_decls_in _ _ _ _ Hg) as [l1 [dd [l2 [Hds [-> HD]]]]]. cbn [Nat.add] in HD. subst D.
  set (pre := flat_map fl_decl l1) in *.
  set (post := flat_map fl_decl l2 ++ cm (a_ceof p) ++ [Eof]).
  assert (Hks : map tk (d_toks d) = pre ++ fl_decl dd ++ post).
  { cbn [d d_toks]. rewrite Hk. unfold flatten, post, pre. rewrite Hds, flat_map_app. cbn [flat_map]. now rewrite <- !app_assoc. }
  pose proof (decl_seg_kinds d pre dd post Hks) as Hsl.
  assert (Hemit : forall j c, k = len pre + j -> j < len (fl_decl dd) ->
            decl_class (x_decl dd) G (decl_seg d (x_decl dd) (len pre)) j tok = Some c -> In (tok, c) (emitted d)).
  { intros j c -> Hj Hc. apply (emitted_in d (x_decl dd) (len pre) j tok c Hg); [rewrite x_decl_info; cbn [mkinfo i_s i_e]; lia | exact Hn | exact Hc]. }
  assert (Hkind : forall j y, k = len pre + j -> nth_error (fl_decl dd) j = Some (Ident y) -> tk tok = Ident y).
  { intros j y -> Hj. pose proof (map_nth_error tk _ _ Hn) as Hm. cbn [d d_toks] in Hks. rewrite Hks in Hm.
    rewrite (nth_error_mid pre (fl_decl dd) post j _ Hj) in Hm. now injection Hm. }
  destruct Hwt as [[es [Hwf [HG Hmain]]] Hbodies].
  destruct (wf_gdecls_in_keep _ _ _ Hwf _ _ Hg) as [Gi [ke [Hke [Hlk Hsub]]]]. rewrite <- HG in Hlk, Hsub. clear HG Hmain.
  destruct dd as [c1 c2 xn c3 ty c4 | c1 c2 xn c3 ps c4 c5 vs b c6].
  - (* a type declaration *)
    cbn [x_decl roles_gdecl td_name td_ty] in Ho. apply in_map_iff in Ho as [ro [Heq Ho]]. injection Heq as Ho1 Ho2. subst owner ro.
    inversion Hke as [d0 name te0 o0 t0 Hname _ _ Hty Hden | ]; subst. cbn [x_decl td_name td_ty] in Hname, Hty.
    injection Hname as <-. injection Hty as <- <-. cbn [fst snd id_val x_ident] in Hlk.
    match type of Hlk with lookup G xn = Some (GTypeE ?te1) => set (te := te1) in * end.
    set (dd := DType c1 c2 xn c3 ty c4) in *.
    apply in_app_or in Ho as [Ho|Ho].
    + (* its name *)
      cbn [occs_name declares map id_val x_ident] in Ho. rewrite id_tok_x in Ho. destruct Ho as [Ho|[]]. injection Ho as <- <- <- <-.
      exists (EntType te). split; [unfold binding; cbn [d d_table]; now rewrite Hlk|].
      apply (Hemit (len c1 + 1 + len c2)); [lia | unfold dd; cbn [fl_decl]; leneq|].
      cbn [dd x_decl decl_class]. unfold class_type_dec. cbn [td_name]. now rewrite x_name_token, Nat.eqb_refl.
    + (* the names of its type expression *)
      cbn [occs_opt_texpr] in Ho. unfold uses in Ho. apply in_map_iff in Ho as [o [Heq Ho]]. injection Heq as -> <-.
      set (o_t := len c1 + 1 + len c2 + 1 + len c3 + 1) in *.
      pose proof (type_located ty (len pre + o_t) 0) as Hloc. unfold located in Hloc. rewrite Forall_forall in Hloc.
      destruct (Hloc _ Ho) as [j' [Hj1 Hj2]]. unfold o_tok, o_name in Hj1, Hj2. cbn [fst snd] in Hj1, Hj2.
      pose proof (denotes_types _ _ _ _ _ Hden (len pre + o_t)) as Hty. rewrite Forall_forall in Hty.
      destruct (Hty _ Ho) as [Hsc [e' He']]. unfold o_scope, o_name in Hsc, He'. cbn [fst snd] in Hsc, He'. subst sc.
      exists (EntType e'). split; [unfold binding; cbn [d d_table]; now rewrite (Hsub _ _ He')|].
      assert (Hjn : nth_error (fl_decl dd) (o_t + j') = Some (Ident x)).
      { unfold dd. rewrite type_decl_shape. replace o_t with (len (cm c1 ++ KType :: cm c2 ++ Ident xn :: cm c3 ++ [EqT])) by (unfold o_t; leneq).
        now apply nth_error_mid. }
      apply (Hemit (o_t + j')); [lia | apply nth_error_Some; congruence|].
      cbn [dd x_decl decl_class]. unfold class_type_dec. cbn [td_name]. rewrite x_name_token.
      destruct (Nat.eqb_spec (len c1 + 1 + len c2) (o_t + j')); [unfold o_t in *; lia|].
      now rewrite (Hkind (o_t + j') x ltac:(lia) Hjn).
  - (* a procedure declaration *)
    set (dd := DProc c1 c2 xn c3 ps c4 c5 vs b c6) in *.
    set (o_ps := len c1 + 1 + len c2 + 1 + len c3 + 1).
    set (o_vs := o_ps + len (fl_sep fl_param ps) + len c4 + 1 + len c5 + 1).
    set (o_b := o_vs + len (flat_map fl_vardecl vs)).
    change (x_decl dd) with (GProc (the_proc dd)) in Ho, Hke, Hg, Hemit, Hsl.
    cbn [roles_gdecl] in Ho. apply in_map_iff in Ho as [ro [Heq Ho]].
    assert (Hown : pd_name (the_proc dd) = Some (x_ident (len c1 + 1) c2 xn)) by reflexivity.
    rewrite Hown in Heq. cbn [option_map id_val x_ident] in Heq. injection Heq as Ho1 Ho2. subst owner ro.
    inversion Hke as [ | d0 name L1 pes L2 Hname _ Hpar Hvar]; subst. rewrite Hown in Hname. injection Hname as <-.
    cbn [fst snd id_val x_ident] in Hlk.
    match type of Hlk with lookup G xn = Some (GProcE ?pe0) => set (pe := pe0) in * end.
    assert (Hpp : pd_params (the_proc dd) = x_sep fl_param x_param o_ps ps) by reflexivity.
    assert (Hpv : pd_vars (the_proc dd) = x_vardecls o_vs vs) by reflexivity.
    assert (Hpb : pd_stmts (the_proc dd) = x_stmts o_b b) by reflexivity.
    pose proof (x_params_ok ps o_ps) as Hps. pose proof (x_vardecls_ok vs o_vs) as Hvs. rewrite <- Hpp in Hps. rewrite <- Hpv in Hvs.
    (* the declaring tokens of all locals lie in front of the statements *)
    assert (HB : lt_bound o_b L2).
    { apply (wf_vars_bound o_b _ _ _ _ _ Hvar); [|exact (var_ok_bound _ _ _ Hvs)].
      apply (lt_bound_le (o_ps + len (fl_sep fl_param ps))); [unfold o_b, o_vs; lia|].
      exact (wf_params_bound _ _ _ _ _ _ _ Hpar (lt_bound_nil _) (param_ok_bound _ _ _ Hps)). }
    apply in_app_or in Ho as [Ho|Ho].
    { (* its name *)
      rewrite Hown in Ho. cbn [occs_name declares map id_val x_ident] in Ho. rewrite id_tok_x in Ho. destruct Ho as [Ho|[]]. injection Ho as <- <- <- <-.
      exists (EntProc pe). split; [unfold binding; cbn [d d_table]; now rewrite Hlk|].
      apply (Hemit (len c1 + 1 + len c2)); [lia | unfold dd; cbn [fl_decl]; leneq|].
      cbn [decl_class]. apply class_proc_name. now rewrite Hown, x_name_token, Nat.eqb_refl. }
    (* every other occurrence: where it sits, what precedes it, what its spelling resolves to *)
    assert (Hsub' : forall y, lookup Gi y <> None -> lookup G y <> None).
    { intros y Hy. destruct (lookup Gi y) as [v|] eqn:E; [|contradiction]. rewrite (Hsub _ _ E). discriminate. }
    assert (Hfact : forall o, In o (occs_params (len pre) (pd_params (the_proc dd)) ++ occs_vars (len pre) (pd_vars (the_proc dd))) \/
                              In o (occs_stmts (len pre) (pd_stmts (the_proc dd))) ->
              exists want j, o_tok o = len pre + j /\ nth_error (fl_decl dd) j = Some (Ident (o_name o)) /\
                global_kind (prev_kind_k None (firstn j (fl_decl dd))) = want (o_scope o) /\
                res_ok G L2 (o_scope o) (want (o_scope o)) (o_name o)).
    { intros o [Hin|Hin].
      - pose proof (proc_header_hlocated c1 c2 xn c3 ps c4 c5 vs b c6 (len pre) None) as Hloc. cbv zeta in Hloc. fold dd in Hloc.
        unfold wlocated in Hloc. rewrite Forall_forall in Hloc.
        assert (Hino : In o (proc_header_occs (len pre) (the_proc dd))) by (unfold proc_header_occs; apply in_or_app; now right).
        destruct (Hloc _ Hino) as [j [Hj1 [Hj2 Hj3]]]. exists is_gscope, j. repeat split; try assumption.
        destruct (wf_params_occs _ _ _ _ _ _ Hpar) as [Hm1 Hp]. destruct (wf_vars_occs _ _ _ _ _ Hvar) as [Hm2 Hv].
        assert (Hh : header_res G L2 o).
        { apply in_app_or in Hin as [Hin|Hin].
          - specialize (Hp (len pre)). rewrite Forall_forall in Hp. specialize (Hp _ Hin). unfold header_res in *.
            destruct (o_scope o); [apply Hsub', Hp | apply Hm2, Hp].
          - specialize (Hv (len pre)). rewrite Forall_forall in Hv. specialize (Hv _ Hin). unfold header_res in *.
            destruct (o_scope o); [apply Hsub', Hv | exact Hv]. }
        unfold header_res in Hh. destruct (o_scope o); cbn [is_gscope res_ok]; [exact Hh|].
        unfold lt_lookup. destruct (lookup L2 (o_name o)); [discriminate | contradiction].
      - pose proof (proc_body_located c1 c2 xn c3 ps c4 c5 vs b c6 (len pre) None) as Hloc. cbv zeta in Hloc. fold dd in Hloc.
        unfold wlocated in Hloc. rewrite Forall_forall in Hloc.
        destruct (Hloc _ Hin) as [j [Hj1 [Hj2 Hj3]]]. exists never, j. repeat split; try assumption.
        unfold wt_bodies in Hbodies. rewrite Forall_forall in Hbodies. destruct (Hbodies _ Hg) as [_ Hwb].
        unfold wt_body in Hwb. cbn [fst snd] in Hwb.
        assert (Hoe : own_entry G (the_proc dd) (len pre) pe).
        { exists (x_ident (len c1 + 1) c2 xn). repeat split; [exact Hlk]. }
        pose proof (proj2 (wt_occs L2 G) _ (Hwb pe Hoe) (len pre)) as Hf. rewrite Forall_forall in Hf.
        exact (Hf _ Hin). }
    (* the handler on such a token *)
    assert (Hfin : forall want j, k = len pre + j -> nth_error (fl_decl dd) j = Some (Ident x) -> len c1 + 1 + len c2 < j ->
              global_kind (prev_kind_k None (firstn j (fl_decl dd))) = want sc -> res_ok G L2 sc (want sc) x ->
              (forall e, binding d (Some xn) sc x = Some e -> class_of e j = (kind_of e, mod_of dcl)) ->
              exists e, binding d (Some xn) sc x = Some e /\ In (tok, (kind_of e, mod_of dcl)) (emitted d)).
    { intros want j Hkj Hj Hlt Hgk Hres Hmod.
      destruct (res_entry d pe xn sc (want sc) x Hlk Hres) as [e [Hb He]]. exists e. split; [exact Hb|].
      apply (Hemit j); [exact Hkj | apply nth_error_Some; congruence|].
      cbn [decl_class]. rewrite <- (Hmod e Hb).
      apply (class_proc_ident (the_proc dd) G _ j tok (x_ident (len c1 + 1) c2 xn) pe x e Hown Hlk eq_refl).
      - rewrite Hown, x_name_token. apply Nat.eqb_neq. lia.
      - exact (Hkind j x Hkj Hj).
      - rewrite Hsl. unfold dd. rewrite (proc_type_position c1 c2 xn c3 ps c4 c5 vs b c6 j Hlt). fold dd. rewrite Hgk. exact He. }
    apply in_app_or in Ho as [Ho|Ho]; [|apply in_app_or in Ho as [Ho|Ho]].
    + (* parameters *)
      assert (Hocc : In (k, x, sc) (occs_params (len pre) (pd_params (the_proc dd)))) by exact (roles_params_occs _ _ _ _ Ho).
      destruct (Hfact _ (or_introl (in_or_app _ _ _ (or_introl Hocc)))) as [want [j [Hj1 [Hj2 [Hj3 Hj4]]]]].
      unfold o_tok, o_name, o_scope in Hj1, Hj2, Hj3, Hj4. cbn [fst snd] in Hj1, Hj2, Hj3, Hj4.
      assert (Hge : len pre + o_ps <= k).
      { rewrite Hpp in Hocc.
        exact (located_ge _ _ _ _ (wlocated_located _ _ _ _ _ (params_hlocated ps None (len pre) o_ps eq_refl)) Hocc). }
      apply (Hfin want j Hj1 Hj2 ltac:(unfold o_ps in Hge; lia) Hj3 Hj4).
      intros e Hb.
      apply in_flat_map in Ho as [[pp off] [Hin Ho]]. cbn [fst snd] in Ho.
      rewrite Forall_forall in Hps. destruct (Hps _ Hin) as (doc & r & name & [te o'] & inf & E & Hi0 & Hn0 & Hlo & Hhi).
      cbn [fst snd] in E, Hlo, Hhi. subst pp. cbn [roles_paramdecl] in Ho. apply in_app_or in Ho as [Ho|Ho].
      * (* the parameter's name *)
        apply declares_in in Ho as [Ho ->]. cbn [occs_name] in Ho. destruct Ho as [Ho|[]]. injection Ho as Hk' <- <-.
        destruct (wf_params_decl _ _ _ _ _ _ Hpar _ _ _ _ _ _ Hin) as [v [Hl1 [Hv1 Hv2]]].
        pose proof (wf_vars_keep _ _ _ _ _ Hvar _ _ Hl1) as Hl2.
        unfold binding in Hb. cbn [d d_table] in Hb. rewrite Hlk in Hb. unfold lt_lookup in Hb. cbn [pe pe_local] in Hb.
        rewrite Hl2 in Hb. injection Hb as <-. cbn [entry_of_l class_of kind_of mod_of].
        rewrite decl_mod_hit; [reflexivity | rewrite Hv1; exact Hn0 |].
        unfold ve_decl_end. rewrite Hv1, Hv2. unfold shift_range, info_range. cbn [fst]. unfold id_tok in Hk'. lia.
      * (* the names of its type *)
        apply uses_in in Ho as [Ho ->]. cbn [occs_opt_texpr] in Ho.
        pose proof (occs_texpr_global te (len pre + off + o')) as Hgl. rewrite Forall_forall in Hgl. specialize (Hgl _ Ho).
        unfold o_scope in Hgl. cbn [fst snd] in Hgl. subst sc.
        apply (class_use d pe xn ScGlobal x e j 0 Hlk Hb). intros [=].
    + (* variable declarations *)
      assert (Hocc : In (k, x, sc) (occs_vars (len pre) (pd_vars (the_proc dd)))) by exact (roles_vars_occs _ _ _ _ Ho).
      destruct (Hfact _ (or_introl (in_or_app _ _ _ (or_intror Hocc)))) as [want [j [Hj1 [Hj2 [Hj3 Hj4]]]]].
      unfold o_tok, o_name, o_scope in Hj1, Hj2, Hj3, Hj4. cbn [fst snd] in Hj1, Hj2, Hj3, Hj4.
      assert (Hge : len pre + o_vs <= k).
      { rewrite Hpv in Hocc.
        exact (located_ge _ _ _ _ (wlocated_located _ _ _ _ _ (vardecls_hlocated vs None (len pre) o_vs)) Hocc). }
      apply (Hfin want j Hj1 Hj2 ltac:(unfold o_vs, o_ps in Hge; lia) Hj3 Hj4).
      intros e Hb.
      apply in_flat_map in Ho as [[pp off] [Hin Ho]]. cbn [fst snd] in Ho.
      rewrite Forall_forall in Hvs. destruct (Hvs _ Hin) as (doc & name & [te o'] & inf & E & Hi0 & Hn0 & Hlo & Hhi).
      cbn [fst snd] in E, Hlo, Hhi. subst pp. cbn [roles_vardecl] in Ho. apply in_app_or in Ho as [Ho|Ho].
      * (* the variable's name *)
        apply declares_in in Ho as [Ho ->]. cbn [occs_name] in Ho. destruct Ho as [Ho|[]]. injection Ho as Hk' <- <-.
        destruct (wf_vars_decl _ _ _ _ _ Hvar _ _ _ _ _ Hin) as [v [Hl2 [Hv1 Hv2]]].
        unfold binding in Hb. cbn [d d_table] in Hb. rewrite Hlk in Hb. unfold lt_lookup in Hb. cbn [pe pe_local] in Hb.
        rewrite Hl2 in Hb. injection Hb as <-. cbn [entry_of_l class_of kind_of mod_of].
        rewrite decl_mod_hit; [reflexivity | rewrite Hv1; exact Hn0 |].
        unfold ve_decl_end. rewrite Hv1, Hv2. unfold shift_range, info_range. cbn [fst]. unfold id_tok in Hk'. lia.
      * (* the names of its type *)
        apply uses_in in Ho as [Ho ->]. cbn [occs_opt_texpr] in Ho.
        pose proof (occs_texpr_global te (len pre + off + o')) as Hgl. rewrite Forall_forall in Hgl. specialize (Hgl _ Ho).
        unfold o_scope in Hgl. cbn [fst snd] in Hgl. subst sc.
        apply (class_use d pe xn ScGlobal x e j 0 Hlk Hb). intros [=].
    + (* statements *)
      apply uses_in in Ho as [Ho ->]. fold (occs_stmts (len pre) (pd_stmts (the_proc dd))) in Ho.
      destruct (Hfact _ (or_intror Ho)) as [want [j [Hj1 [Hj2 [Hj3 Hj4]]]]]. unfold o_tok, o_name, o_scope in *. cbn [fst snd] in *.
      assert (Hge : len pre + o_b <= k).
      { rewrite Hpb in Ho. exact (located_ge _ _ _ _ (proj2 stmt_located b (len pre) o_b) Ho). }
      apply (Hfin want j Hj1 Hj2 ltac:(unfold o_b, o_vs, o_ps in Hge; lia) Hj3 Hj4).
      intros e Hb. apply (class_use d pe xn sc x e j o_b Hlk Hb). intros _. split; [exact HB | lia].
Qed.

(* ---------------------------------------------------------------------------------------- *)
(* the theorems                                                                              *)

(* the document of a valid program satisfies the well-formedness predicate of SemTokProofs.v:
   all the all-documents theorems (no panic, coincide, increasing, disjoint, lexical classes,
   completeness) hold for it unconditionally *)
Theorem valid_doc_wf p G t toks d :
  prog_ok p = true -> well_typed (expected p) G -> lex t = Some toks -> map tk toks = flatten p ++ [Eof] ->
  new_doc_res t = ODone d ->
  decls_names_b (d_toks d) (pg_decls (d_ast d)) = true /\ doc_wf_b d = true.
Proof.
  intros Hok Hwt Hlex Hk Hd. pose proof (new_doc_wf t d (new_doc_of_res t d Hd)) as Hwf.
  rewrite (valid_doc p G t toks d Hok Hwt Hlex Hk Hd) in *. cbn [d_toks d_ast expected pg_decls] in *.
  assert (Hn : decls_names_b toks (x_decls 0 (a_decls p)) = true).
  { apply (x_decls_names toks (a_decls p) 0 [] (cm (a_ceof p) ++ [Eof])); [|reflexivity].
    rewrite Hk. unfold flatten. cbn [app]. now rewrite <- app_assoc. }
  split; [exact Hn | now rewrite Hwf].
Qed.

Lemma sorted_pos_unique l :
  StronglySorted (fun a b => pos_lt (at_pos a) (at_pos b)) l ->
  forall a b, In a l -> In b l -> at_pos a = at_pos b -> a = b.
Proof.
  induction 1 as [|x l HS IH HF]; intros a b Ha Hb Hab; [contradiction|]. rewrite Forall_forall in HF.
  destruct Ha as [<-|Ha], Hb as [<-|Hb]; [reflexivity | | |exact (IH a b Ha Hb Hab)].
  - specialize (HF _ Hb). rewrite Hab in HF. now apply pos_lt_irrefl in HF.
  - specialize (HF _ Ha). rewrite Hab in HF. now apply pos_lt_irrefl in HF.
Qed.

(* C15, the binding half: in a valid program every identifier occurrence is reported with the kind of
   the entity it is bound to and the declaration modifier exactly on the declaring occurrence; no
   other token is reported at its position *)
Theorem semtok_valid (p : aprog) (G : gtable) (t : text) (toks : list token) (d : doc) :
  prog_ok p = true -> well_typed (expected p) G ->
  lex t = Some toks -> map tk toks = flatten p ++ [Eof] ->
  new_doc_res t = ODone d ->
  exists data, semantic_tokens d = SOk data /\
    forall owner k x sc dcl, In (owner, ((k, x, sc), dcl)) (program_roles (expected p)) ->
    forall tok, nth_error toks k = Some tok ->
    exists e, binding d owner sc x = Some e /\
      let a := tok_view t (tok, (kind_of e, mod_of dcl)) in
      In a (decode data) /\ forall b, In b (decode data) -> at_pos b = at_pos a -> b = a.
Proof.
  intros Hok Hwt Hlex Hk Hd. destruct (valid_doc_wf p G t toks d Hok Hwt Hlex Hk Hd) as [_ Hwf].
  destruct (semtok_no_panic d Hwf) as [data Hdata]. exists data. split; [exact Hdata|].
  destruct (semtok_coincide d data Hwf Hdata) as [Hdec _].
  pose proof (semtok_increasing d data Hwf Hdata) as Hinc.
  intros owner k x sc dcl Hin tok Hn.
  pose proof (valid_doc p G t toks d Hok Hwt Hlex Hk Hd) as Ed.
  destruct (class_valid p G t toks Hwt Hk owner k x sc dcl Hin tok Hn) as [e [Hb He]]. rewrite <- Ed in Hb, He.
  exists e. split; [exact Hb|]. cbv zeta.
  assert (Ha : In (tok_view t (tok, (kind_of e, mod_of dcl))) (decode data)).
  { rewrite Hdec. replace (d_text d) with t by (rewrite Ed; reflexivity). now apply in_map. }
  split; [exact Ha|]. intros b Hb' Hpos. exact (sorted_pos_unique _ Hinc b _ Hb' Ha Hpos).
Qed.
